(* Game2048: the environment glue AS TRANSLATED FROM THE SOURCE (Gen/Game2048Src.v: step, reset, _generate_board, _add_random_cell,
   _get_action_mask) equals the hand model Model/Game2048.v, once the two utils.py functions it calls (`move`, `can_move`: while_loop
   code, hand-modelled with fuel) are instantiated with functions that agree with the model's on the boards that occur.  The two PRNG
   draws of _add_random_cell are oracles; the position oracle is applied to the plane the code hands it (ravel (board == 0) of the MOVED
   board), which is where the model's draw (idx, v) comes from. *)
Require Import JV.Base.Prelude JV.Base.JaxIndex JV.Base.Codec JV.Base.TimeStep JV.Gen.TimeStepSrc JV.Gen.Game2048Src.
Require JV.Model.Game2048.
Module M := JV.Model.Game2048.

Definition conv (s : State) : M.state := M.mkS (s_board s) (s_action_mask s) (s_score s) (s_step_count s).
(* the plane handed to the position oracle *)
Definition empties (b : list (list Z)) : list bool := concat (m_map (fun x_ : Z => Z.eqb x_ 0) b).

Lemma add_cell_src n di dv b k : add_random_cell n di dv b k = M.add_cell n b (di (empties b)) dv.
Proof. reflexivity. Qed.

Lemma mask_src n (cm : list (list Z) -> Z -> bool) b :
  (forall k, In k [0; 1; 2; 3] -> M.can_move n b k = Some (cm b k)) -> M.action_mask n b = Some (get_action_mask cm b).
Proof.
  intros H. unfold M.action_mask, get_action_mask. change (zrange 4) with [0; 1; 2; 3].
  cbn [M.omap map]. rewrite !H by (cbn; tauto). reflexivity.
Qed.

Theorem step_src n (mv : list (list Z) -> Z -> list (list Z) * Z) cm di dv s a :
  M.move n (s_board s) a = Some (mv (s_board s) a) ->
  let mb := fst (mv (s_board s) a) in
  let idx := di (empties mb) in
  let b' := if jget false (s_action_mask s) a then M.add_cell n mb idx dv else mb in
  (forall k, In k [0; 1; 2; 3] -> M.can_move n b' k = Some (cm b' k)) ->
  let r := step n mv cm di dv s a in
  M.step n (conv s) a idx dv = Some (conv (fst r), snd r).
Proof.
  cbv zeta. intros Hm Hc. unfold M.step, step. cbn [conv M.board M.amask M.score M.step_count]. rewrite Hm.
  destruct (mv (s_board s) a) as [mb rew] eqn:E. cbn [fst] in Hc |- *.
  rewrite add_cell_src.
  replace ((fun (board : list (list Z)) (_ : unit) => board) mb tt) with mb by reflexivity.
  set (b' := if jget false (s_action_mask s) a then M.add_cell n mb (di (empties mb)) dv else mb) in *.
  rewrite (mask_src n cm b' Hc). cbn [fst snd conv s_board s_action_mask s_score s_step_count].
  apply f_equal. apply f_equal2; [reflexivity|].
  unfold cond_done, termination_src, transition_src, termination, transition, StepType_LAST, StepType_MID, LAST, MID.
  change (existsb (fun b : bool => b)) with (existsb (@id bool)).
  destruct (negb (existsb id (get_action_mask cm b'))); reflexivity.
Qed.

Theorem reset_src n (mv : list (list Z) -> Z -> list (list Z) * Z) cm di dv :
  let b0 := M.zeros_board n in
  let idx := di (empties b0) in
  (forall k, In k [0; 1; 2; 3] -> M.can_move n (M.add_cell n b0 idx dv) k = Some (cm (M.add_cell n b0 idx dv) k)) ->
  let r := reset n cm di dv tt in
  M.init n idx dv = Some (conv (fst r), snd r).
Proof.
  cbv zeta. intros Hc. unfold M.init, reset, generate_board. rewrite add_cell_src.
  change (repeat (repeat 0 (Z.to_nat n)) (Z.to_nat n)) with (M.zeros_board n).
  rewrite (mask_src n cm _ Hc). reflexivity.
Qed.

(* the observation of the translated step is the new board and the new mask (the same objects as in the new state) *)
Lemma obs_src n mv cm di dv s a : let r := step n mv cm di dv s a in
  step_obs n mv cm di dv s a = mkObservation (s_board (fst r)) (s_action_mask (fst r)).
Proof. cbv zeta. unfold step, step_obs. destruct (mv (s_board s) a) as [mb rew]. reflexivity. Qed.

(* ---- instantiation with the model's utils: move = (spec_move, spec_reward) (proved equal to the fuelled loop for every board),
   can_move = the value of the fuelled loop (proved total) ---- *)
Require Import JV.Proofs.Game2048_Row JV.Proofs.Game2048_Board JV.Proofs.Game2048.
Definition mv_model (n : Z) (b : list (list Z)) (a : Z) : list (list Z) * Z := (M.spec_move n b a, M.spec_reward n b a).
Definition cm_model (n : Z) (b : list (list Z)) (a : Z) : bool := match M.can_move n b a with Some c => c | None => false end.

Lemma cm_model_spec n b a : M.can_move n b a = Some (cm_model n b a).
Proof.
  unfold cm_model, M.can_move, M.can_move_left.
  destruct (omap_some M.can_move_left_row (M.transform n b a) can_move_left_row_total) as [cs E]. rewrite E. reflexivity.
Qed.

Lemma Some_inj {A : Type} (x y : A) : Some x = Some y -> x = y.
Proof. intros H. inversion H. reflexivity. Qed.

Section Inst.
  Variable n : Z.
  Variable di : list bool -> Z.
  Variable dv : Z.
  Local Notation sstep := (step n (mv_model n) (cm_model n) di dv).
  (* the draw the model is given: the position oracle applied to the empty-cell plane of the MOVED board *)
  Definition idx_of (s : State) (a : Z) : Z := di (empties (M.spec_move n (s_board s) a)).

  Theorem step_model s a : M.step n (conv s) a (idx_of s a) dv = Some (conv (fst (sstep s a)), snd (sstep s a)).
  Proof.
    apply (step_src n (mv_model n) (cm_model n) di dv s a).
    - apply move_spec.
    - intros k _. apply cm_model_spec.
  Qed.
  Theorem reset_model : M.init n (di (empties (M.zeros_board n))) dv
    = Some (conv (fst (reset n (cm_model n) di dv tt)), snd (reset n (cm_model n) di dv tt)).
  Proof. apply (reset_src n (mv_model n) (cm_model n) di dv). intros k _. apply cm_model_spec. Qed.

  (* C09: the translated step is the step prescribed by the rules *)
  Lemma src_step_rules s a : Inv n (conv s) -> 0 <= a < 4 -> (M.legal_b n (s_board s) a = true -> 0 <= dv) ->
    (conv (fst (sstep s a)), snd (sstep s a)) = M.rules_step n (conv s) a (idx_of s a) dv.
  Proof.
    intros I Ha Hv. pose proof (step_model s a) as E. rewrite (step_rules n (conv s) a (idx_of s a) dv I Ha Hv) in E.
    symmetry. exact (Some_inj _ _ E).
  Qed.
  (* C04 / C07: the invariant (mask = legal moves, well-formed non-negative board) is preserved *)
  Lemma src_step_Inv s a : Inv n (conv s) -> 0 <= a < 4 -> (M.legal_b n (s_board s) a = true -> 0 <= dv) -> Inv n (conv (fst (sstep s a))).
  Proof. intros I Ha Hv. exact (step_Inv n (conv s) a (idx_of s a) dv _ _ I Ha Hv (step_model s a)). Qed.
  Lemma src_mask_iff_legal s a b : Inv n (conv s) -> 0 <= a < 4 -> (M.legal_b n (s_board s) a = true -> 0 <= dv) -> 0 <= b < 4 ->
    let s' := fst (sstep s a) in (jget false (s_action_mask s') b = true <-> M.legal n (s_board s') b).
  Proof. intros I Ha Hv Hb. cbv zeta. exact (mask_iff_legal n (conv (fst (sstep s a))) b (src_step_Inv s a I Ha Hv) Hb). Qed.
  (* C09: LAST exactly when no move is legal on the new board *)
  Lemma src_last_iff_stuck s a : Inv n (conv s) -> 0 <= a < 4 -> (M.legal_b n (s_board s) a = true -> 0 <= dv) ->
    (st (snd (sstep s a)) = LAST <-> forall a', 0 <= a' < 4 -> ~ M.legal n (s_board (fst (sstep s a))) a').
  Proof. intros I Ha Hv. exact (last_iff_stuck n (conv s) a (idx_of s a) dv _ _ I Ha Hv (step_model s a)). Qed.
  (* C03: protocol of the translated step *)
  Lemma src_step_protocol s a : step_ok 1 false (snd (sstep s a)) = true.
  Proof.
    destruct (step_total_protocol n (conv s) a (idx_of s a) dv) as (s' & t & E & P & _).
    rewrite (step_model s a) in E. apply Some_inj in E. apply (f_equal snd) in E. cbn [snd] in E. rewrite E. exact P.
  Qed.
  (* C07: the new tile is added exactly when the STORED mask allows the action; tile sum, tile count, score *)
  Lemma src_step_physical s a : 0 < n -> Inv n (conv s) -> 0 <= a < 4 ->
    (jget false (s_action_mask s) a = true -> M.valid_draw n (M.spec_move n (s_board s) a) (idx_of s a) dv = true) ->
    let s' := conv (fst (sstep s a)) in
    let lg := jget false (s_action_mask s) a in
    Inv n s'
    /\ M.total (M.board s') = M.total (s_board s) + (if lg then 2 ^ dv else 0)
    /\ M.count_tiles (M.board s') = M.count_tiles (M.spec_move n (s_board s) a) + (if lg then 1 else 0)
    /\ (lg = false -> M.board s' = s_board s).
  Proof.
    intros Hn I Ha Hd. cbv zeta.
    destruct (step_physical n (conv s) a (idx_of s a) dv _ _ Hn I Ha Hd (step_model s a)) as (A & _ & B & C & _ & D & _).
    split; [exact A|]. split; [exact B|]. split; [exact C | exact D].
  Qed.
End Inst.

(* C05 / C08 on the translated step (model's utils) *)
Section Inst2.
  Variable n : Z.
  Variable di : list bool -> Z.
  Variable dv : Z.
  Local Notation sstep := (step n (mv_model n) (cm_model n) di dv).
  (* C05: a move whose stored mask entry is False leaves board, mask and score untouched; only the step counter advances; reward 0 *)
  Lemma src_illegal_ignored s a : Inv n (conv s) -> 0 <= a < 4 -> jget false (s_action_mask s) a = false ->
    conv (fst (sstep s a)) = M.mkS (s_board s) (s_action_mask s) (s_score s) (s_step_count s + 1)
    /\ snd (sstep s a) = cond_done 1 (negb (existsb id (s_action_mask s))) [0].
  Proof.
    intros I Ha Hm. pose proof (step_model n di dv s a) as E.
    rewrite (illegal_ignored n (conv s) a (idx_of n di s a) dv I Ha Hm) in E. apply Some_inj in E.
    split; [exact (eq_sym (f_equal fst E)) | exact (eq_sym (f_equal snd E))].
  Qed.
  (* C08: the score is the running sum of the rewards, and the reward of a step is the potential gained by the slide *)
  Lemma src_score_is_reward_sum s a : exists r, reward (snd (sstep s a)) = [r] /\ s_score (fst (sstep s a)) = s_score s + r.
  Proof.
    unfold step, mv_model. cbn [fst snd s_score]. eexists. split; [|reflexivity].
    destruct (negb _); reflexivity.
  Qed.
End Inst2.
