(* GraphColoring: the mask is exactly the legal colours (C04), illegal colours terminate with the
   documented penalty (C05), mask-respecting play keeps the colouring proper (C06), the final reward
   is minus the number of colours used (C08), the generator yields symmetric loop-free graphs (C10),
   episodes end within num_nodes steps (C11).                                                        *)
Require Import JV.Base.Prelude JV.Base.JaxIndex JV.Base.Codec JV.Base.TimeStep JV.Model.GraphColoring.

(* ---------- list facts ---------- *)
Lemma znth_nth {A} (d : A) l i : 0 <= i -> znth d l i = nth (Z.to_nat i) l d.
Proof. intro H. unfold znth. destruct (i <? 0) eqn:E; [lia|reflexivity]. Qed.

Lemma nth_jset {A} (l : list A) i v c d :
  0 <= c < zlen l ->
  nth (Z.to_nat c) (jset l i v) d = if jnorm (zlen l) i =? c then v else nth (Z.to_nat c) l d.
Proof.
  intro Hc. unfold jset. set (j := jnorm (zlen l) i).
  destruct ((0 <=? j) && (j <? zlen l)) eqn:R.
  - unfold zupd. destruct (j <? 0) eqn:E; [lia|].
    destruct (j =? c) eqn:E2.
    + assert (j = c) by lia. subst c. apply nth_upd_same. unfold zlen in *. lia.
    + apply nth_upd_other. lia.
  - destruct (j =? c) eqn:E2; [lia|reflexivity].
Qed.

Lemma zlen_jset {A} (l : list A) i v : zlen (jset l i v) = zlen l.
Proof. unfold zlen. rewrite jset_length. reflexivity. Qed.

Lemma scatter_false_length base idxs : length (scatter_false base idxs) = length base.
Proof.
  unfold scatter_false. revert base; induction idxs as [|i r IH]; intro base; cbn; auto.
  rewrite IH, jset_length. reflexivity.
Qed.

Lemma scatter_false_nth base idxs c :
  0 <= c < zlen base ->
  nth (Z.to_nat c) (scatter_false base idxs) false
  = nth (Z.to_nat c) base false && forallb (fun i => negb (jnorm (zlen base) i =? c)) idxs.
Proof.
  unfold scatter_false. revert base; induction idxs as [|i r IH]; intros base Hc; cbn [fold_left forallb].
  - rewrite andb_true_r. reflexivity.
  - rewrite IH by (rewrite zlen_jset; lia). rewrite zlen_jset, nth_jset by lia.
    destruct (jnorm (zlen base) i =? c); cbn; [rewrite andb_false_r; reflexivity|]. reflexivity.
Qed.

Lemma nth_removelast {A} (l : list A) k d : (S k < length l)%nat -> nth k (removelast l) d = nth k l d.
Proof.
  revert k; induction l as [|x l IH]; intros k H; cbn in *; [lia|].
  destruct l as [|y l]; [cbn in H; lia|]. destruct k; [reflexivity|]. apply IH. cbn in *. lia.
Qed.

Lemma removelast_length {A} (l : list A) : length (removelast l) = (length l - 1)%nat.
Proof. induction l as [|x l IH]; cbn; auto. destruct l; cbn in *; lia. Qed.

Lemma nth_repeat_true k n : (k < n)%nat -> nth k (repeat true n) false = true.
Proof. revert k; induction n; intros [|k] H; cbn; auto; try lia. apply IHn; lia. Qed.

Lemma forallb_map2_spec (row : list bool) (colors : list Z) (P : Z -> bool) :
  length row = length colors ->
  (forallb P (map2 (fun (r : bool) c => if r then c else -1) row colors) = true <->
   forall j, (j < length row)%nat -> P (if nth j row false then nth j colors (-1) else -1) = true).
Proof.
  revert colors; induction row as [|r row IH]; intros [|c colors] L; cbn in *; try lia.
  - split; auto. intros; lia.
  - rewrite andb_true_iff, IH by lia. split.
    + intros [A B] [|j] Hj; auto. apply B; lia.
    + intro H. split; [apply (H 0%nat); lia|]. intros j Hj. apply (H (S j)); lia.
Qed.

Lemma nth_repeat_m1 k n : nth k (repeat (-1) n) (-1) = -1.
Proof. revert k; induction n; intros [|k]; cbn; auto. Qed.

Lemma list_ext_b n (a b : list bool) :
  length a = Z.to_nat n -> length b = Z.to_nat n ->
  (forall c, 0 <= c < n -> nth (Z.to_nat c) a false = nth (Z.to_nat c) b false) -> a = b.
Proof.
  intros La Lb H. apply (nth_ext a b false false); [lia|].
  intros k Hk. specialize (H (Z.of_nat k) ltac:(lia)). rewrite Nat2Z.id in H. exact H.
Qed.

(* ---------- C04: the mask is exactly the set of legal colours ---------- *)
Definition row_of (adj : list (list bool)) (i : Z) : list bool := jget [] adj i.

Definition colors_wf (n : Z) (colors : list Z) : Prop :=
  zlen colors = n /\ Forall (fun c => -1 <= c < n) colors.

Theorem valid_actions_exact n node adj colors c :
  0 < n -> colors_wf n colors -> zlen (row_of adj node) = n -> 0 <= c < n ->
  (nth (Z.to_nat c) (valid_actions n node adj colors) false = true <->
   forall j, 0 <= j < n -> nth (Z.to_nat j) (row_of adj node) false = true -> nth (Z.to_nat j) colors (-1) <> c).
Proof.
  intros Hn [Lc Rc] Lr Hc. unfold valid_actions. fold (row_of adj node).
  set (row := row_of adj node) in *.
  set (idxs := map2 _ row colors).
  assert (Lb : zlen (repeat true (Z.to_nat (n + 1))) = n + 1) by (unfold zlen; rewrite repeat_length; lia).
  rewrite nth_removelast by (rewrite scatter_false_length, repeat_length; lia).
  rewrite scatter_false_nth by lia. rewrite Lb.
  rewrite nth_repeat_true by lia. cbn [andb].
  unfold idxs. rewrite forallb_map2_spec by (unfold zlen in *; lia).
  split.
  - intros H j Hj Hr. specialize (H (Z.to_nat j) ltac:(unfold zlen in *; lia)). rewrite Hr in H.
    apply negb_true_iff in H. rewrite Forall_forall in Rc.
    assert (In (nth (Z.to_nat j) colors (-1)) colors) by (apply nth_In; unfold zlen in *; lia).
    specialize (Rc _ H0). unfold jnorm in H. destruct (_ <? 0) eqn:E in H; lia.
  - intros H j Hj. apply negb_true_iff. destruct (nth j row false) eqn:Hr.
    + specialize (H (Z.of_nat j) ltac:(unfold zlen in *; lia)). rewrite Nat2Z.id in H. specialize (H Hr).
      rewrite Forall_forall in Rc.
      assert (Hin : In (nth j colors (-1)) colors) by (apply nth_In; unfold zlen in *; lia).
      specialize (Rc _ Hin). unfold jnorm. destruct (_ <? 0) eqn:E; lia.
    + unfold jnorm. change (-1 <? 0) with true. cbv iota. lia.
Qed.

(* ---------- state invariant ---------- *)
Definition graph_wf (n : Z) (adj : list (list bool)) : Prop :=
  zlen adj = n /\ (forall i, 0 <= i < n -> zlen (row_of adj i) = n) /\
  (forall i, 0 <= i < n -> edge adj i i = false) /\
  (forall i j, 0 <= i < n -> 0 <= j < n -> edge adj i j = edge adj j i).

Record Inv (n : Z) (s : state) : Prop := {
  inv_graph : graph_wf n (adj s);
  inv_colors : colors_wf n (colors s);
  inv_cur : 0 <= cur s < n;
  inv_mask : amask s = valid_actions n (cur s) (adj s) (colors s);
  inv_proper : proper n (adj s) (colors s) }.

Lemma edge_row n adj i j : graph_wf n adj -> 0 <= i < n -> 0 <= j < n ->
  edge adj i j = nth (Z.to_nat j) (row_of adj i) false.
Proof.
  intros (L & R & _) Hi Hj. unfold edge, gat, row_of. rewrite (znth_nth false) by lia.
  rewrite jget_in_range by lia. rewrite (znth_nth []) by lia. reflexivity.
Qed.

Lemma color_of_nth colors j : 0 <= j -> color_of colors j = nth (Z.to_nat j) colors (-1).
Proof. intro H. unfold color_of. apply znth_nth; auto. Qed.

Lemma mask_length n node adj colors : 0 <= n -> length (valid_actions n node adj colors) = Z.to_nat n.
Proof.
  intro H. unfold valid_actions. rewrite removelast_length, scatter_false_length, repeat_length. lia.
Qed.

(* the mask entry for colour c at the current node, through the declarative [legal] *)
Theorem C04_mask_iff_legal n s c :
  0 < n -> Inv n s -> 0 <= c < n ->
  (jget false (amask s) c = true <-> legal n (adj s) (colors s) (cur s) c).
Proof.
  intros Hn I Hc. destruct I as [G Cw Hcur M _]. rewrite M.
  rewrite jget_in_range by (unfold zlen; rewrite mask_length; lia).
  rewrite valid_actions_exact; auto; [|destruct G as (_ & R & _); auto].
  unfold legal. split; intros H j Hj.
  - intro E. rewrite (edge_row n) in E by auto. rewrite color_of_nth by lia. auto.
  - intro E. rewrite <- (edge_row n) in E by auto. rewrite <- color_of_nth by lia. auto.
Qed.

Lemma legal_b_spec n adj colors i c : legal_b n adj colors i c = true <-> legal n adj colors i c.
Proof.
  unfold legal_b, legal. rewrite forallb_forall. split.
  - intros H j Hj E. specialize (H j ltac:(apply in_zrange; lia)). rewrite E in H. cbn in H.
    apply negb_true_iff in H. lia.
  - intros H j Hj. apply in_zrange in Hj. apply negb_true_iff.
    destruct (edge adj i j) eqn:E; cbn; auto. specialize (H j Hj E). lia.
Qed.

(* ---------- C06: legal play keeps the colouring proper ---------- *)
Lemma color_of_jset colors i a j n :
  zlen colors = n -> 0 <= i < n -> 0 <= j < n ->
  color_of (jset colors i a) j = if i =? j then a else color_of colors j.
Proof.
  intros L Hi Hj. rewrite !color_of_nth by lia. rewrite nth_jset by lia.
  unfold jnorm. destruct (i <? 0) eqn:E; [lia|]. reflexivity.
Qed.

Theorem step_preserves_Inv n s a :
  0 < n -> Inv n s -> 0 <= a < n -> jget false (amask s) a = true ->
  st (snd (step n s a)) = MID -> Inv n (fst (step n s a)).
Proof.
  intros Hn I Ha Hm _. pose proof (proj1 (C04_mask_iff_legal n s a Hn I Ha) Hm) as Hl.
  destruct I as [G Cw Hcur M P]. unfold step. cbn [fst adj colors cur amask].
  assert (L : zlen (colors s) = n) by apply Cw.
  constructor; cbn [adj colors cur amask]; auto.
  - split; [rewrite zlen_jset; auto|]. destruct Cw as [_ R].
    rewrite jset_in_range by lia. clear -R Ha. revert R. generalize (Z.to_nat (cur s)) as k.
    induction (colors s) as [|x l IH]; intros k R; destruct k; cbn; auto; inversion R; subst; constructor; auto; lia.
  - apply Z.mod_pos_bound; lia.
  - intros i j Hi Hj E.
    rewrite (color_of_jset (colors s) (cur s) a i n), (color_of_jset (colors s) (cur s) a j n) by auto.
    destruct (cur s =? i) eqn:E1; destruct (cur s =? j) eqn:E2; intros Ci Cj.
    + assert (i = j) by lia. subst j. destruct G as (_ & _ & NL & _). rewrite NL in E by lia. discriminate.
    + assert (cur s = i) by lia. subst i. intro Q. apply (Hl j Hj E). congruence.
    + assert (cur s = j) by lia. subst j. intro Q. destruct G as (_ & _ & _ & S).
      rewrite S in E by lia. apply (Hl i Hi E). congruence.
    + apply P; auto.
Qed.

Theorem init_Inv n adj0 : 0 < n -> graph_wf n adj0 -> Inv n (fst (init n adj0)).
Proof.
  intros Hn G. unfold init; cbn [fst]. constructor; cbn [adj colors cur amask]; auto.
  - split; [unfold zlen; rewrite repeat_length; lia|]. apply Forall_forall. intros x Hx.
    apply repeat_spec in Hx. lia.
  - lia.
  - (* the all-True reset mask IS the mask of node 0 for the empty colouring *)
    apply (list_ext_b n); [rewrite repeat_length; lia | rewrite mask_length; lia |].
    intros c Hc. rewrite nth_repeat_true by lia. symmetry.
    apply valid_actions_exact; auto; try lia.
    + split; [unfold zlen; rewrite repeat_length; lia|]. apply Forall_forall. intros x Hx. apply repeat_spec in Hx. lia.
    + destruct G as (_ & R & _). apply R. lia.
    + intros j Hj _. rewrite nth_repeat_m1. lia.
  - intros i j Hi Hj _ Ci. unfold color_of in Ci. rewrite (znth_nth (-1)) in Ci by lia.
    rewrite nth_repeat_m1 in Ci. lia.
Qed.

(* ---------- C05: an illegal colour terminates with the documented penalty ---------- *)
Theorem invalid_terminates n s a :
  jget false (amask s) a = false ->
  snd (step n s a) = termination 1 [- n] /\ adj (fst (step n s a)) = adj s.
Proof.
  intro H. unfold step. cbn [fst snd adj]. rewrite H. cbn [negb]. rewrite orb_true_r. split; reflexivity.
Qed.

Theorem valid_mid_reward_zero n s a :
  st (snd (step n s a)) = MID -> jget false (amask s) a = true /\ reward (snd (step n s a)) = [0]
                                 /\ all_colored (colors (fst (step n s a))) = false.
Proof.
  unfold step. cbn [fst snd colors]. destruct (jget false (amask s) a); cbn [negb].
  - destruct (all_colored _); cbn; intro H; [discriminate H|auto].
  - rewrite orb_true_r. cbn. intro H; discriminate H.
Qed.

Theorem valid_last_reward n s a :
  jget false (amask s) a = true -> st (snd (step n s a)) = LAST ->
  reward (snd (step n s a)) = [- distinct_nonneg [] (colors (fst (step n s a)))]
  /\ all_colored (colors (fst (step n s a))) = true.
Proof.
  unfold step. cbn [fst snd colors]. intros ->. cbn [negb]. destruct (all_colored _); cbn; intro H; [auto|discriminate H].
Qed.

(* ---------- C08: what the final reward counts ---------- *)
Lemma distinct_nonneg_spec l : forall seen,
  exists ds, NoDup ds /\ (forall x, In x ds <-> In x l /\ 0 <= x /\ ~ In x seen)
             /\ distinct_nonneg seen l = Z.of_nat (length ds).
Proof.
  induction l as [|c r IH]; intro seen; cbn [distinct_nonneg].
  - exists []. split; [constructor|split; [cbn; tauto|reflexivity]].
  - destruct ((0 <=? c) && negb (existsb (Z.eqb c) seen)) eqn:E.
    + apply andb_true_iff in E as [E1 E2]. apply negb_true_iff in E2.
      assert (Hns : ~ In c seen).
      { intro Hin. assert (existsb (Z.eqb c) seen = true) by (apply existsb_exists; exists c; split; auto; lia). congruence. }
      destruct (IH (c :: seen)) as (ds & ND & M & L). exists (c :: ds). split; [|split].
      * constructor; auto. intro Hin. apply M in Hin. cbn in Hin. tauto.
      * intro x. cbn [In]. rewrite M. cbn [In]. split.
        -- intros [->|(A & B & C)]; [split; auto; split; [lia|auto]|tauto].
        -- intros ([->|A] & B & C); [auto|]. destruct (Z.eq_dec c x); [auto|right; tauto].
      * rewrite L. cbn [length]. lia.
    + destruct (IH seen) as (ds & ND & M & L). exists ds. split; [auto|split; [|auto]].
      intro x. rewrite M. cbn [In]. split; [tauto|]. intros ([->|A] & B & C); [|tauto]. exfalso.
      apply andb_false_iff in E as [E|E]; [lia|]. apply negb_false_iff in E.
      apply existsb_exists in E as (y & Hy & Ey). assert (x = y) by lia. subst; auto.
Qed.

(* the final reward of a completed legal episode is minus the number of distinct colours in the state *)
Theorem final_reward_counts_colours n s a :
  jget false (amask s) a = true -> st (snd (step n s a)) = LAST ->
  exists ds, NoDup ds /\ (forall x, In x ds <-> In x (colors (fst (step n s a))) /\ 0 <= x)
             /\ reward (snd (step n s a)) = [- Z.of_nat (length ds)].
Proof.
  intros M L. destruct (valid_last_reward n s a M L) as [R _].
  destruct (distinct_nonneg_spec (colors (fst (step n s a))) []) as (ds & ND & Mem & Len).
  exists ds. split; [auto|split]. - intro x. rewrite Mem. cbn. tauto. - rewrite R, Len. reflexivity.
Qed.

Lemma last_cons_indep {A} (l : list A) : forall x d d', last (x :: l) d = last (x :: l) d'.
Proof.
  induction l as [|y l IH]; intros x d d'; [reflexivity|].
  change (last (y :: l) d = last (y :: l) d'). apply IH.
Qed.

(* episodes: run stops at the first LAST *)
Fixpoint run (n : Z) (s : state) (acts : list Z) : list (state * tstep) :=
  match acts with
  | [] => []
  | a :: r => let p := step n s a in p :: (if st (snd p) =? LAST then [] else run n (fst p) r)
  end.
Definition ret (tr : list (state * tstep)) : Z := zsum (map (fun p => zsum (reward (snd p))) tr).
Fixpoint legal_run (n : Z) (s : state) (acts : list Z) : Prop :=
  match acts with
  | [] => True
  | a :: r => jget false (amask s) a = true /\ (st (snd (step n s a)) = LAST \/ legal_run n (fst (step n s a)) r)
  end.

Lemma step_type_cases n s a : st (snd (step n s a)) = MID \/ st (snd (step n s a)) = LAST.
Proof. unfold step. cbn [snd]. destruct (_ || _); cbn; auto. Qed.

(* return of a legal episode that ends = minus the colours used in its final state (dense = sparse: one reward) *)
Theorem C08_return n acts : forall s,
  legal_run n s acts -> forall sf tf, last (run n s acts) (s, mkTS MID [] []) = (sf, tf) -> st tf = LAST ->
  exists ds, NoDup ds /\ (forall x, In x ds <-> In x (colors sf) /\ 0 <= x)
             /\ ret (run n s acts) = - Z.of_nat (length ds).
Proof.
  induction acts as [|a r IH]; intros s Hl sf tf Hlast Hst; cbn [run] in *.
  - cbn in Hlast. inversion Hlast; subst. cbn in Hst. discriminate.
  - destruct Hl as [Hm Hrest]. unfold ret. cbn [map zsum].
    destruct (step_type_cases n s a) as [Hmid|HL].
    + assert (Hne : (st (snd (step n s a)) =? LAST) = false) by (rewrite Hmid; reflexivity).
      rewrite Hne in *.
      destruct (valid_mid_reward_zero n s a Hmid) as (_ & R0 & _). rewrite R0. cbn [zsum].
      destruct Hrest as [HL|Hrest]; [rewrite HL in Hmid; discriminate Hmid|].
      destruct (run n (fst (step n s a)) r) as [|p tl] eqn:Er.
      * cbn in Hlast. assert (tf = snd (step n s a)) by (destruct (step n s a); inversion Hlast; auto).
        subst tf. rewrite Hmid in Hst. discriminate Hst.
      * assert (Hlast' : last (p :: tl) (fst (step n s a), mkTS MID [] []) = (sf, tf)).
        { rewrite <- Hlast. change (last (p :: tl) (fst (step n s a), mkTS MID [] []) = last (p :: tl) (s, mkTS MID [] [])).
          apply last_cons_indep. }
        rewrite <- Er in Hlast'. destruct (IH _ Hrest sf tf Hlast' Hst) as (ds & ND & M & Rt).
        exists ds. split; [auto|split; [auto|]]. unfold ret in Rt. rewrite Er in Rt. rewrite Rt. lia.
    + assert (He : (st (snd (step n s a)) =? LAST) = true) by (rewrite HL; reflexivity).
      rewrite He in *. cbn [last] in Hlast.
      destruct (final_reward_counts_colours n s a Hm HL) as (ds & ND & M & R).
      assert (sf = fst (step n s a)) by (destruct (step n s a); inversion Hlast; auto). subst sf.
      exists ds. split; [auto|split; [auto|]]. cbn [map zsum]. rewrite R. cbn. lia.
Qed.

(* ---------- C11: the structural horizon ---------- *)
Definition Seq (n k : Z) (s : state) : Prop :=
  0 <= k < n /\ cur s = k /\ zlen (colors s) = n /\ forall j, 0 <= j < k -> 0 <= color_of (colors s) j.

Lemma all_colored_spec n colors :
  zlen colors = n -> (all_colored colors = true <-> forall j, 0 <= j < n -> 0 <= color_of colors j).
Proof.
  intro L. unfold all_colored. rewrite forallb_forall. split.
  - intros H j Hj. rewrite color_of_nth by lia. assert (In (nth (Z.to_nat j) colors (-1)) colors) by (apply nth_In; unfold zlen in *; lia).
    specialize (H _ H0). lia.
  - intros H x Hx. apply (In_nth _ _ (-1)) in Hx as (k & Hk & <-).
    specialize (H (Z.of_nat k) ltac:(unfold zlen in *; lia)). rewrite color_of_nth in H by lia. rewrite Nat2Z.id in H. lia.
Qed.

Lemma Seq_step n k s a :
  Seq n k s -> 0 <= a < n -> st (snd (step n s a)) = MID -> Seq n (k + 1) (fst (step n s a)).
Proof.
  intros (Hk & Hc & L & Hcol) Ha Hmid.
  destruct (valid_mid_reward_zero n s a Hmid) as (_ & _ & Hnc).
  unfold step in *. cbn [fst snd colors cur] in *.
  assert (Hcol' : forall j, 0 <= j < k + 1 -> 0 <= color_of (jset (colors s) (cur s) a) j).
  { intros j Hj. rewrite (color_of_jset _ _ _ _ n) by lia. destruct (cur s =? j) eqn:E; [lia|]. apply Hcol. lia. }
  assert (k + 1 < n).
  { destruct (Z.eq_dec (k + 1) n); [|lia]. exfalso.
    assert (all_colored (jset (colors s) (cur s) a) = true).
    { apply (all_colored_spec n); [rewrite zlen_jset; auto|]. intros j Hj. apply Hcol'. lia. }
    congruence. }
  unfold Seq; cbn [colors cur]. split; [lia|]. split; [rewrite Hc; apply Z.mod_small; lia|].
  split; [rewrite zlen_jset; auto|auto].
Qed.

Lemma init_Seq n adj0 : 0 < n -> Seq n 0 (fst (init n adj0)).
Proof. intro H. unfold init, Seq; cbn. repeat split; try lia. unfold zlen. rewrite repeat_length. lia. Qed.

(* an episode has at most n - k steps left when k nodes are coloured: no MID step at step number n *)
Theorem C11_horizon n acts : forall k s,
  Seq n k s -> Forall (fun a => 0 <= a < n) acts -> Z.of_nat (length (run n s acts)) <= n - k.
Proof.
  induction acts as [|a r IH]; intros k s HS HA; cbn [run length].
  - destruct HS; lia.
  - inversion HA as [|? ? Ha HA']; subst.
    destruct (step_type_cases n s a) as [Hmid|HL].
    + assert (Hne : (st (snd (step n s a)) =? LAST) = false) by (rewrite Hmid; reflexivity).
      rewrite Hne.
      pose proof (Seq_step n k s a HS Ha Hmid) as HS'. specialize (IH (k + 1) _ HS' HA').
      cbn [length]. lia.
    + assert (He : (st (snd (step n s a)) =? LAST) = true) by (rewrite HL; reflexivity).
      rewrite He. cbn [length]. destruct HS; lia.
Qed.

(* ---------- C10: the generator yields a symmetric loop-free graph for EVERY draw matrix ---------- *)
Lemma nth_map_zrange {A} (f : Z -> A) n i d : 0 <= i < n -> nth (Z.to_nat i) (map f (zrange n)) d = f i.
Proof.
  intro H. unfold zrange. rewrite nth_indep with (d' := f 0) by (rewrite map_length, zrange_from_length; lia).
  rewrite map_nth. rewrite zrange_from_nth by lia. f_equal. lia.
Qed.

Lemma gen_edge n draw i j : 0 <= i < n -> 0 <= j < n ->
  edge (gen_adj n draw) i j
  = (if j <? i then gat false draw i j else false) || (if i <? j then gat false draw j i else false).
Proof.
  intros Hi Hj. unfold edge, gat at 1, gen_adj. rewrite !(znth_nth) by lia.
  rewrite (nth_map_zrange _ n i) by lia. rewrite (nth_map_zrange _ n j) by lia. reflexivity.
Qed.

Theorem gen_graph_wf n draw : 0 <= n -> graph_wf n (gen_adj n draw).
Proof.
  intro Hn. unfold graph_wf. repeat split.
  - unfold gen_adj, zlen. rewrite map_length. unfold zrange. rewrite zrange_from_length. lia.
  - intros i Hi. unfold row_of. rewrite jget_in_range.
    + unfold gen_adj. rewrite (nth_map_zrange _ n i) by lia. unfold zlen. rewrite map_length. unfold zrange.
      rewrite zrange_from_length. lia.
    + unfold gen_adj, zlen. rewrite map_length. unfold zrange. rewrite zrange_from_length. lia.
  - intros i Hi. rewrite gen_edge by lia. rewrite Z.ltb_irrefl. reflexivity.
  - intros i j Hi Hj. rewrite !gen_edge by lia.
    destruct (j <? i) eqn:E1; destruct (i <? j) eqn:E2; try lia; rewrite ?orb_false_r, ?orb_false_l; reflexivity.
Qed.

(* a concrete non-trivial instance meets every hypothesis used above *)
Example nonvacuous :
  let adj0 := gen_adj 3 [[true;true;true];[true;true;true];[false;true;true]] in
  let s1 := fst (step 3 (fst (init 3 adj0)) 0) in
  edge adj0 0 1 = true /\ jget false (amask s1) 0 = false /\ jget false (amask s1) 1 = true
  /\ st (snd (step 3 s1 0)) = LAST /\ reward (snd (step 3 s1 0)) = [-3].
Proof. vm_compute. repeat split. Qed.
