(* GraphColoring AS TRANSLATED FROM THE SOURCE (Gen/GraphColoringSrc.v: step, _get_valid_actions, reset) equals the hand model
   Model/GraphColoring.v, for colour vectors of length num_nodes (then `jnp.unique(colors, size=num_nodes)` never truncates). *)
Require Import JV.Base.Prelude JV.Base.JaxIndex JV.Base.Codec JV.Base.TimeStep JV.Gen.TimeStepSrc JV.Gen.GraphColoringSrc.
Require JV.Model.GraphColoring.
Require Import Sorted.
Module M := JV.Model.GraphColoring.

Definition conv (s : State) : M.state := M.mkS (s_adj_matrix s) (s_colors s) (s_current_node_index s) (s_action_mask s).

(* ---- jnp.unique + count_nonzero(>= 0)  =  the model's count of distinct non-negative colours ---- *)
Definition cnt (l : list Z) : Z := zsum (map b2z (map (fun x_ : Z => x_ >=? 0) l)).
Definition mem (c : Z) (l : list Z) : bool := existsb (Z.eqb c) l.

Lemma cnt_cons x l : cnt (x :: l) = b2z (x >=? 0) + cnt l.  Proof. reflexivity. Qed.
Lemma cnt_app a b : cnt (a ++ b) = cnt a + cnt b.
Proof. induction a as [|x a IH]; [reflexivity|]. cbn [app]. rewrite !cnt_cons, IH. lia. Qed.
Lemma cnt_repeat_neg k : cnt (repeat (-1) k) = 0.
Proof. induction k as [|k IH]; [reflexivity|]. cbn [repeat]. rewrite cnt_cons, IH. reflexivity. Qed.

Definition lt_all (x : Z) (l : list Z) : Prop := Forall (fun y => x < y) l.
Inductive inc : list Z -> Prop := inc_nil : inc [] | inc_cons x l : lt_all x l -> inc l -> inc (x :: l).

Lemma mem_false_lt x l : lt_all x l -> mem x l = false.
Proof. induction 1 as [|y l Hy Hl IH]; [reflexivity|]. cbn [mem existsb]. fold (mem x l). rewrite IH. destruct (x =? y) eqn:E; [lia | reflexivity]. Qed.

Lemma lt_all_weaken x y l : x < y -> lt_all y l -> lt_all x l.
Proof. intros H F. eapply Forall_impl; [|exact F]. cbn. intros; lia. Qed.

Lemma ins_spec x u : inc u ->
  inc (uniq_insert x u) /\ (forall y, In y (uniq_insert x u) <-> y = x \/ In y u)
  /\ cnt (uniq_insert x u) = cnt u + (if (x >=? 0) && negb (mem x u) then 1 else 0)
  /\ (length (uniq_insert x u) <= S (length u))%nat.
Proof.
  induction 1 as [|y l Hy Hl IH].
  { cbn [uniq_insert mem existsb].
    split; [constructor; constructor|].
    split; [intros z; cbn [In]; split; [intros [H|[]]; left; congruence | intros [H|[]]; left; congruence]|].
    split; [rewrite cnt_cons; destruct (x >=? 0); reflexivity | cbn; lia]. }
  cbn [uniq_insert]. destruct (x <? y) eqn:L.
  { assert (H : lt_all x (y :: l)) by (constructor; [lia | apply (lt_all_weaken x y l); [lia | exact Hy]]).
    split; [constructor; [exact H | constructor; assumption]|].
    split; [intros z; cbn [In]; split; [intros [H0|H0]; [left; congruence | right; exact H0] | intros [H0|H0]; [left; congruence | right; exact H0]]|].
    split; [|cbn [length]; lia].
    rewrite (mem_false_lt x (y :: l) H). rewrite (cnt_cons x). destruct (x >=? 0); cbn [andb negb b2z]; lia. }
  destruct (x =? y) eqn:E.
  { assert (x = y) by lia. subst y.
    split; [constructor; assumption|].
    split; [intros z; cbn [In]; split; [intros H0; right; exact H0 | intros [H0|H0]; [left; congruence | exact H0]]|].
    split; [|lia].
    cbn [mem existsb]. rewrite Z.eqb_refl. cbn [orb negb]. rewrite andb_false_r. lia. }
  destruct IH as (I1 & I2 & I3 & I4).
  split.
  { constructor; [|exact I1]. apply Forall_forall. intros z Hz. apply I2 in Hz. destruct Hz as [->|Hz]; [lia|].
    revert z Hz. apply Forall_forall. exact Hy. }
  split.
  { intros z. cbn [In]. rewrite I2. split; [intros [H0|[H0|H0]]; [right; left; exact H0 | left; exact H0 | right; right; exact H0]
                                           | intros [H0|[H0|H0]]; [right; left; exact H0 | left; exact H0 | right; right; exact H0]]. }
  split; [|cbn [length]; lia].
  rewrite !cnt_cons, I3. cbn [mem existsb]. rewrite E. cbn [orb]. fold (mem x l). lia.
Qed.

Lemma mem_In c l : mem c l = true <-> In c l.
Proof. unfold mem. rewrite existsb_exists. split; [intros (y & Hy & E); apply Z.eqb_eq in E; subst; exact Hy | intros H; exists c; split; [exact H | apply Z.eqb_refl]]. Qed.
Lemma mem_ext c a b : (In c a <-> In c b) -> mem c a = mem c b.
Proof. intros H. destruct (mem c a) eqn:A, (mem c b) eqn:B; try reflexivity.
  - apply mem_In in A. apply H in A. apply mem_In in A. congruence.
  - apply mem_In in B. apply H in B. apply mem_In in B. congruence. Qed.

Lemma unique_count l : forall u seen, inc u -> (forall x, 0 <= x -> (In x u <-> In x seen)) ->
  cnt (fold_left (fun acc x => uniq_insert x acc) l u) = cnt u + M.distinct_nonneg seen l
  /\ (length (fold_left (fun acc x => uniq_insert x acc) l u) <= length u + length l)%nat.
Proof.
  induction l as [|c r IH]; intros u seen I E; cbn [fold_left M.distinct_nonneg length].
  - split; lia.
  - destruct (ins_spec c u I) as (I1 & I2 & I3 & I4).
    assert (Mm : 0 <= c -> mem c u = existsb (Z.eqb c) seen). { intros Hc. apply mem_ext. apply E. exact Hc. }
    destruct (0 <=? c) eqn:P.
    + assert (Hc : 0 <= c) by lia. rewrite <- (Mm Hc). replace (c >=? 0) with true in I3 by lia. cbn [andb] in *.
      destruct (mem c u) eqn:Mu; cbn [negb] in *.
      * destruct (IH (uniq_insert c u) seen I1) as [A B].
        { intros x Hx. rewrite I2. split; [intros [->|H0]; [apply E; [exact Hc|]; apply mem_In; exact Mu | apply E; assumption] | intros H0; right; apply E; assumption]. }
        split; [rewrite A, I3; lia | lia].
      * destruct (IH (uniq_insert c u) (c :: seen) I1) as [A B].
        { intros x Hx. rewrite I2. cbn [In]. split; [intros [->|H0]; [left; reflexivity | right; apply E; assumption] | intros [<-|H0]; [left; reflexivity | right; apply E; assumption]]. }
        split; [rewrite A, I3; lia | lia].
    + replace (c >=? 0) with false in I3 by lia. cbn [andb] in *.
      destruct (IH (uniq_insert c u) seen I1) as [A B].
      { intros x Hx. rewrite I2. split; [intros [->|H0]; [lia | apply E; assumption] | intros H0; right; apply E; assumption]. }
      split; [rewrite A, I3; lia | lia].
Qed.

Lemma unique_src colors n : zlen colors = n ->
  zsum (map b2z (map (fun x_ : Z => x_ >=? 0) (jnp_unique colors n (-1)))) = M.distinct_nonneg [] colors.
Proof.
  intros L. unfold jnp_unique. fold (cnt (firstn (Z.to_nat n)
    (fold_left (fun acc x => uniq_insert x acc) colors [] ++ repeat (-1) (Z.to_nat n - length (fold_left (fun acc x => uniq_insert x acc) colors []))))).
  destruct (unique_count colors [] [] inc_nil (fun x _ => conj (fun h => h) (fun h => h))) as [A B].
  set (u := fold_left (fun acc x => uniq_insert x acc) colors []) in *. cbn [length] in B.
  assert (Ln : Z.to_nat n = length colors) by (unfold zlen in L; lia).
  rewrite firstn_all2 by (rewrite app_length, repeat_length; lia).
  rewrite cnt_app, cnt_repeat_neg, A. change (cnt []) with 0. lia.
Qed.

(* ---- mask ---- *)
Lemma zip_src {A B C} (f : A -> B -> C) a b : zip_with f a b = M.map2 f a b.
Proof. revert b. induction a as [|x a IH]; intros [|y b]; cbn [zip_with M.map2]; try reflexivity; try (rewrite IH; reflexivity). Qed.
Lemma mask_src n node adj colors : get_valid_actions n node adj colors = M.valid_actions n node adj colors.
Proof. unfold get_valid_actions, M.valid_actions, scatter_const, M.scatter_false. rewrite zip_src. reflexivity. Qed.

Lemma all_src colors : forallb (fun b : bool => b) (map (fun x_ : Z => x_ >=? 0) colors) = M.all_colored colors.
Proof. unfold M.all_colored. induction colors as [|c r IH]; [reflexivity|]. cbn [map forallb]. rewrite IH, Z.geb_leb. reflexivity. Qed.

Theorem step_src n s a : zlen (s_colors s) = n ->
  let r := step n s a in conv (fst r) = fst (M.step n (conv s) a) /\ snd r = snd (M.step n (conv s) a).
Proof.
  intros L. cbv zeta. unfold step, M.step. cbn [conv M.amask M.colors M.cur M.adj].
  set (colors' := jset (s_colors s) (s_current_node_index s) a).
  assert (L' : zlen colors' = n).
  { unfold colors', jset. destruct ((0 <=? jnorm (zlen (s_colors s)) (s_current_node_index s)) && (jnorm (zlen (s_colors s)) (s_current_node_index s) <? zlen (s_colors s))); [|exact L].
    unfold zlen in *. rewrite zupd_length. exact L. }
  rewrite (unique_src colors' n L'), all_src, mask_src.
  cbn [fst snd conv s_adj_matrix s_colors s_current_node_index s_action_mask]. split; [reflexivity|].
  unfold cond_done, termination_src, transition_src, termination, transition, StepType_LAST, StepType_MID, LAST, MID.
  destruct (negb (jget false (s_action_mask s) a)), (M.all_colored colors'); reflexivity.
Qed.

Theorem reset_src n adj0 : conv (fst (reset n adj0)) = fst (M.init n adj0) /\ snd (reset n adj0) = snd (M.init n adj0).
Proof. split; reflexivity. Qed.

(* ---- the GraphColoring theorems, transferred to the translated source ---- *)
Require Import JV.Proofs.GraphColoring JV.Proofs.GraphColoring_rules JV.Proofs.GraphColoring_episode.
Lemma src_inv0_step n s a : 0 < n -> Inv0 n (conv s) -> 0 <= a < n -> Inv0 n (conv (fst (step n s a))).
Proof.
  intros Hn I Ha. destruct (step_src n s a (proj1 (inv0_colors n _ I))) as [E _]. rewrite E.
  exact (step_preserves_Inv0 n (conv s) a Hn I Ha).
Qed.
Lemma src_mask_iff_legal n s a c : 0 < n -> Inv0 n (conv s) -> 0 <= a < n -> 0 <= c < n ->
  let s' := fst (step n s a) in
  (jget false (s_action_mask s') c = true <-> M.legal n (s_adj_matrix s') (s_colors s') (s_current_node_index s') c).
Proof.
  intros Hn I Ha Hc. cbv zeta. exact (mask_iff_legal0 n (conv (fst (step n s a))) c Hn (src_inv0_step n s a Hn I Ha) Hc).
Qed.
Lemma src_proper_step n s a :
  0 < n -> Inv n (conv s) -> 0 <= a < n -> jget false (s_action_mask s) a = true ->
  Inv n (conv (fst (step n s a))).
Proof.
  intros Hn I Ha Hm. destruct (step_src n s a (proj1 (inv_colors n _ I))) as [E _]. rewrite E.
  exact (step_preserves_Inv_legal n (conv s) a Hn I Ha Hm).
Qed.

(* C03 on the translated step: never FIRST, MID with discount 1 or LAST with discount 0 (no truncation) -- any state, any action *)
Lemma src_step_protocol n s a : zlen (s_colors s) = n -> step_ok 1 false (snd (step n s a)) = true.
Proof. intros L. destruct (step_src n s a L) as [_ E]. rewrite E. apply C03_step_protocol. Qed.
(* C05: a masked-out colour ends the episode with reward -n; the graph is untouched *)
Lemma src_invalid_terminates n s a : zlen (s_colors s) = n -> jget false (s_action_mask s) a = false ->
  snd (step n s a) = termination 1 [- n] /\ s_adj_matrix (fst (step n s a)) = s_adj_matrix s.
Proof.
  intros L Hm. destruct (step_src n s a L) as [E1 E2]. rewrite E2.
  destruct (invalid_terminates n (conv s) a Hm) as [A B]. split; [exact A|].
  rewrite <- E1 in B. exact B.
Qed.
