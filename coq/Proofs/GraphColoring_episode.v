(* GraphColoring, whole episodes: mask-respecting play from reset lasts exactly num_nodes steps, ends with a complete proper
   colouring and its return is minus the number of colours in use (C08, C11); any in-spec play ends within num_nodes
   steps (C11).                                                                                                        *)
Require Import JV.Base.Prelude JV.Base.JaxIndex JV.Base.Codec JV.Base.TimeStep JV.Model.GraphColoring JV.Proofs.GraphColoring
  JV.Proofs.GraphColoring_rules.

Definition inspec (n : Z) (acts : list Z) : Prop := Forall (fun a => 0 <= a < n) acts.
Definition no_ts : tstep := mkTS MID [] [].
Definition ended (n : Z) (s : state) (acts : list Z) : Prop := st (snd (last (run n s acts) (s, no_ts))) = LAST.
Definition final (n : Z) (s : state) (acts : list Z) : state := fst (last (run n s acts) (s, no_ts)).

(* progress: nodes 0..k-1 are coloured, nodes k..n-1 are not, node k is the current one *)
Definition Prog (n k : Z) (s : state) : Prop :=
  0 <= k < n /\ cur s = k /\ zlen (colors s) = n
  /\ (forall j, 0 <= j < k -> 0 <= color_of (colors s) j)
  /\ (forall j, k <= j < n -> color_of (colors s) j = -1).

Lemma init_Prog n adj0 : 0 < n -> Prog n 0 (fst (init n adj0)).
Proof.
  intro H. unfold init, Prog; cbn [fst cur colors]. split; [lia|]. split; [reflexivity|].
  split; [unfold zlen; rewrite repeat_length; lia|]. split; [intros; lia|].
  intros j Hj. rewrite color_of_nth by lia. apply nth_repeat_m1.
Qed.

Lemma Prog_Seq n k s : Prog n k s -> Seq n k s.
Proof. intros (A & B & C & D & _). unfold Seq. auto. Qed.

Lemma Prog_step_complete n k s a :
  Prog n k s -> 0 <= a < n -> all_colored (colors (fst (step n s a))) = (k + 1 =? n).
Proof.
  intros (Hk & Hc & L & Lo & Hi) Ha. unfold step. cbn [fst colors]. apply bool_eq_iff.
  rewrite (all_colored_spec n) by (rewrite zlen_jset; auto). split.
  - intro H. destruct (k + 1 =? n) eqn:E; [reflexivity|]. exfalso.
    specialize (H (k + 1) ltac:(lia)). rewrite (color_of_jset _ _ _ _ n) in H by lia.
    destruct (cur s =? k + 1) eqn:E1; [lia|]. rewrite Hi in H by lia. lia.
  - intros E j Hj. rewrite (color_of_jset _ _ _ _ n) by lia. destruct (cur s =? j) eqn:E1; [lia|]. apply Lo. lia.
Qed.

Lemma Prog_step n k s a :
  Prog n k s -> 0 <= a < n -> k + 1 < n -> Prog n (k + 1) (fst (step n s a)).
Proof.
  intros (Hk & Hc & L & Lo & Hi) Ha Hlt. unfold step, Prog. cbn [fst colors cur].
  split; [lia|]. split; [rewrite Hc; apply Z.mod_small; lia|]. split; [rewrite zlen_jset; auto|]. split.
  - intros j Hj. rewrite (color_of_jset _ _ _ _ n) by lia. destruct (cur s =? j) eqn:E; [lia|]. apply Lo. lia.
  - intros j Hj. rewrite (color_of_jset _ _ _ _ n) by lia. destruct (cur s =? j) eqn:E; [lia|]. apply Hi. lia.
Qed.

(* under a mask-respecting in-spec colour the step type is decided by the node counter alone *)
Lemma legal_step_type n k s a :
  Prog n k s -> 0 <= a < n -> jget false (amask s) a = true ->
  st (snd (step n s a)) = if k + 1 =? n then LAST else MID.
Proof.
  intros P Ha Hm. pose proof (Prog_step_complete n k s a P Ha) as C. unfold step in *. cbn [fst snd colors] in *.
  rewrite Hm, C. cbn [negb]. rewrite orb_false_r. destruct (k + 1 =? n); reflexivity.
Qed.

(* Inv is preserved by EVERY mask-respecting in-spec step, the terminal one included *)
Theorem step_preserves_Inv_legal n s a :
  0 < n -> Inv n s -> 0 <= a < n -> jget false (amask s) a = true -> Inv n (fst (step n s a)).
Proof.
  intros Hn I Ha Hm. pose proof (proj1 (C04_mask_iff_legal n s a Hn I Ha) Hm) as Hl.
  destruct (step_preserves_Inv0 n s a Hn (Inv_Inv0 n s I) Ha) as [G' C' K' M'].
  constructor; auto. destruct I as [G Cw Hcur M P]. unfold step. cbn [fst adj colors].
  assert (L : zlen (colors s) = n) by apply Cw.
  intros i j Hi Hj E.
  rewrite (color_of_jset (colors s) (cur s) a i n), (color_of_jset (colors s) (cur s) a j n) by auto.
  destruct (cur s =? i) eqn:E1; destruct (cur s =? j) eqn:E2; intros Ci Cj.
  - assert (i = j) by lia. subst j. destruct G as (_ & _ & NL & _). rewrite NL in E by lia. discriminate.
  - assert (cur s = i) by lia. subst i. intro Q. apply (Hl j Hj E). congruence.
  - assert (cur s = j) by lia. subst j. intro Q. destruct G as (_ & _ & _ & S).
    rewrite S in E by lia. apply (Hl i Hi E). congruence.
  - apply P; auto.
Qed.

Lemma last_cons_default {A} (l : list A) : forall p d, last (p :: l) d = last l p.
Proof.
  induction l as [|x l IH]; intros p d; [reflexivity|].
  change (last (x :: l) d = last (x :: l) p). rewrite !IH. reflexivity.
Qed.

Lemma step_adj n s a : adj (fst (step n s a)) = adj s.
Proof. reflexivity. Qed.

(* ---------- the mask-respecting episode ---------- *)
Theorem legal_episode n acts : forall k s d,
  0 < n -> Inv n s -> Prog n k s -> inspec n acts -> legal_run n s acts -> n - k <= zlen acts ->
  zlen (run n s acts) = n - k
  /\ st (snd (last (run n s acts) d)) = LAST
  /\ Inv n (fst (last (run n s acts) d))
  /\ adj (fst (last (run n s acts) d)) = adj s
  /\ all_colored (colors (fst (last (run n s acts) d))) = true
  /\ ret (run n s acts) = - colours_used n (colors (fst (last (run n s acts) d))).
Proof.
  induction acts as [|a r IH]; intros k s d Hn I P HA Hl Hlen.
  - destruct P as (Hk & _). unfold zlen in Hlen. cbn in Hlen. lia.
  - inversion HA as [|? ? Ha HA']; subst. destruct Hl as [Hm Hrest].
    pose proof (legal_step_type n k s a P Ha Hm) as Hty.
    pose proof (step_preserves_Inv_legal n s a Hn I Ha Hm) as I'.
    cbn [run]. destruct (k + 1 =? n) eqn:E.
    + rewrite Hty. change (LAST =? LAST) with true. cbv iota. cbn [last].
      split; [rewrite zlen_cons; unfold zlen; cbn [length]; lia|]. split; [auto|]. split; [auto|]. split; [reflexivity|].
      split; [rewrite (Prog_step_complete n k s a P Ha); auto|].
      destruct (valid_last_reward n s a Hm Hty) as [R _]. unfold ret. cbn [map zsum]. rewrite R. cbn [zsum].
      rewrite (distinct_is_colours_used n) by apply I'. lia.
    + rewrite Hty. change (MID =? LAST) with false. cbv iota.
      destruct Hrest as [HL|Hrest]; [rewrite Hty in HL; discriminate HL|].
      assert (P' : Prog n (k + 1) (fst (step n s a))) by (apply Prog_step; auto; destruct P; lia).
      rewrite zlen_cons in Hlen.
      destruct (IH (k + 1) (fst (step n s a)) (step n s a) Hn I' P' HA' Hrest ltac:(lia)) as (A1 & A2 & A3 & A4 & A5 & A6).
      rewrite last_cons_default. rewrite zlen_cons.
      split; [lia|]. split; [auto|]. split; [auto|]. split; [rewrite A4; reflexivity|]. split; [auto|].
      destruct (valid_mid_reward_zero n s a Hty) as (_ & R0 & _).
      unfold ret in *. cbn [map zsum]. rewrite R0. cbn [zsum]. rewrite A6. lia.
Qed.

(* a mask-respecting run shorter than the number of uncoloured nodes never ends *)
Theorem legal_run_short n acts : forall k s,
  Prog n k s -> inspec n acts -> legal_run n s acts -> zlen acts < n - k ->
  Forall (fun p => st (snd p) = MID) (run n s acts) /\ zlen (run n s acts) = zlen acts.
Proof.
  induction acts as [|a r IH]; intros k s P HA Hl Hlen; cbn [run]; [split; [constructor|reflexivity]|].
  inversion HA as [|? ? Ha HA']; subst. destruct Hl as [Hm Hrest]. rewrite zlen_cons in Hlen. pose proof (zlen_nonneg r).
  pose proof (legal_step_type n k s a P Ha Hm) as Hty. destruct (k + 1 =? n) eqn:E; [lia|].
  rewrite Hty. change (MID =? LAST) with false. cbv iota.
  destruct Hrest as [HL|Hrest]; [rewrite Hty in HL; discriminate HL|].
  assert (P' : Prog n (k + 1) (fst (step n s a))) by (apply Prog_step; auto; lia).
  destruct (IH (k + 1) _ P' HA' Hrest ltac:(lia)) as [F L]. split; [constructor; auto|]. rewrite !zlen_cons. lia.
Qed.

Lemma Forall_last {A} (P : A -> Prop) l d : Forall P l -> P d -> P (last l d).
Proof. induction 1 as [|x l Hx Hl IH]; intro Hd; [auto|]. rewrite last_cons_default. clear IH Hd. revert x Hx. induction Hl; intros; auto. rewrite last_cons_default. auto. Qed.

(* the length of a mask-respecting run: min(number of actions, nodes left) *)
Theorem legal_run_length n acts k s :
  0 < n -> Inv n s -> Prog n k s -> inspec n acts -> legal_run n s acts ->
  zlen (run n s acts) = Z.min (zlen acts) (n - k).
Proof.
  intros Hn I P HA Hl. destruct (Z_lt_le_dec (zlen acts) (n - k)) as [Hs|Hg].
  - destruct (legal_run_short n acts k s P HA Hl Hs) as [_ L]. lia.
  - destruct (legal_episode n acts k s (s, no_ts) Hn I P HA Hl Hg) as (L & _). lia.
Qed.

Theorem legal_ended_iff n acts k s :
  0 < n -> Inv n s -> Prog n k s -> inspec n acts -> legal_run n s acts ->
  (ended n s acts <-> n - k <= zlen acts).
Proof.
  intros Hn I P HA Hl. unfold ended. split.
  - intro He. destruct (Z_lt_le_dec (zlen acts) (n - k)) as [Hs|Hg]; [|auto]. exfalso.
    destruct (legal_run_short n acts k s P HA Hl Hs) as [F _].
    assert (st (snd (last (run n s acts) (s, no_ts))) = MID) by (apply (Forall_last (fun p => st (snd p) = MID)); auto).
    rewrite H in He. discriminate He.
  - intro Hg. apply (legal_episode n acts k s (s, no_ts) Hn I P HA Hl Hg).
Qed.

(* ---------- bounds on the number of colours ---------- *)
Lemma count_if_le {A} (f : A -> bool) l : count_if f l <= zlen l.
Proof.
  unfold count_if, zlen. induction l as [|x l IH]; cbn [filter length]; [lia|]. destruct (f x); cbn [length]; lia.
Qed.

Lemma colours_used_bounds n colors :
  0 < n -> colors_wf n colors -> 0 <= color_of colors 0 -> 1 <= colours_used n colors <= n.
Proof.
  intros Hn [L R] H0. split.
  - unfold colours_used, count_if. set (f := fun c => existsb (Z.eqb c) colors).
    assert (Hin : In (color_of colors 0) (filter f (zrange n))).
    { rewrite color_of_nth in * by lia. assert (Hi : In (nth (Z.to_nat 0) colors (-1)) colors) by (apply nth_In; unfold zlen in *; lia).
      rewrite Forall_forall in R. specialize (R _ Hi). apply filter_In. split; [apply in_zrange; lia|].
      unfold f. apply existsb_exists. eexists. split; [exact Hi|lia]. }
    unfold zlen. destruct (filter f (zrange n)); [destruct Hin|cbn [length]; lia].
  - unfold colours_used. pose proof (count_if_le (fun c => existsb (Z.eqb c) colors) (zrange n)) as H.
    rewrite zlen_zrange in H by lia. exact H.
Qed.

(* ---------- C08 / C11 from reset ---------- *)
Theorem C08_return_from_reset n adj0 acts :
  0 < n -> graph_wf n adj0 ->
  let s0 := fst (init n adj0) in
  inspec n acts -> legal_run n s0 acts -> ended n s0 acts ->
  let sf := final n s0 acts in
  ret (run n s0 acts) = - colours_used n (colors sf)
  /\ adj sf = adj0
  /\ (forall j, 0 <= j < n -> 0 <= color_of (colors sf) j < n)
  /\ proper n adj0 (colors sf)
  /\ 1 <= colours_used n (colors sf) <= n
  /\ zlen (run n s0 acts) = n.
Proof.
  intros Hn G s0 HA Hl He sf.
  pose proof (init_Inv n adj0 Hn G) as I. pose proof (init_Prog n adj0 Hn) as P. fold s0 in I, P.
  assert (Hg : n - 0 <= zlen acts) by (apply (legal_ended_iff n acts 0 s0); auto).
  destruct (legal_episode n acts 0 s0 (s0, no_ts) Hn I P HA Hl Hg) as (A1 & A2 & A3 & A4 & A5 & A6).
  fold (final n s0 acts) in A3, A4, A5, A6. fold sf in A3, A4, A5, A6.
  assert (Hcol : forall j, 0 <= j < n -> 0 <= color_of (colors sf) j < n).
  { intros j Hj. destruct A3 as [_ [L R] _ _ _]. pose proof (proj1 (all_colored_spec n (colors sf) L) A5 j Hj) as H0.
    split; [auto|]. rewrite color_of_nth by lia. rewrite Forall_forall in R. apply R. apply nth_In. unfold zlen in *. lia. }
  split; [auto|]. split; [rewrite A4; reflexivity|]. split; [auto|].
  split; [pose proof (inv_proper _ _ A3) as Pr; rewrite A4 in Pr; exact Pr|].
  split; [apply colours_used_bounds; auto; [apply A3 | apply Hcol; lia]|]. lia.
Qed.

(* exactly num_nodes steps under mask-respecting play *)
Theorem C11_exact_from_reset n adj0 acts :
  0 < n -> graph_wf n adj0 ->
  let s0 := fst (init n adj0) in
  inspec n acts -> legal_run n s0 acts ->
  zlen (run n s0 acts) = Z.min (zlen acts) n /\ (ended n s0 acts <-> n <= zlen acts).
Proof.
  intros Hn G s0 HA Hl.
  pose proof (init_Inv n adj0 Hn G) as I. pose proof (init_Prog n adj0 Hn) as P. fold s0 in I, P.
  split.
  - rewrite (legal_run_length n acts 0 s0) by auto. lia.
  - rewrite (legal_ended_iff n acts 0 s0) by auto. lia.
Qed.

(* under ANY in-spec play: n - k in-spec colours always reach a LAST step *)
Theorem inspec_run_ends n acts : forall k s d,
  Seq n k s -> inspec n acts -> n - k <= zlen acts -> st (snd (last (run n s acts) d)) = LAST.
Proof.
  induction acts as [|a r IH]; intros k s d HS HA Hlen.
  - destruct HS as (Hk & _). unfold zlen in Hlen. cbn in Hlen. lia.
  - inversion HA as [|? ? Ha HA']; subst. cbn [run]. rewrite last_cons_default. rewrite zlen_cons in Hlen.
    destruct (step_type_cases n s a) as [Hmid|HL].
    + rewrite Hmid. change (MID =? LAST) with false. cbv iota.
      pose proof (Seq_step n k s a HS Ha Hmid) as HS'. apply (IH (k + 1)); auto. lia.
    + rewrite HL. change (LAST =? LAST) with true. cbv iota. cbn [last]. exact HL.
Qed.

Theorem C11_any_play_from_reset n adj0 acts :
  0 < n -> let s0 := fst (init n adj0) in
  inspec n acts -> zlen (run n s0 acts) <= n /\ (n <= zlen acts -> ended n s0 acts).
Proof.
  intros Hn s0 HA. pose proof (init_Seq n adj0 Hn) as HS. fold s0 in HS. split.
  - pose proof (C11_horizon n acts 0 s0 HS HA). unfold zlen. lia.
  - intro Hg. apply (inspec_run_ends n acts 0 s0); auto. lia.
Qed.
