(* GraphColoring, second layer: a weak invariant closed under EVERY in-spec action (also invalid ones and after LAST),
   declared specs (C01), protocol (C03), the published rules (C09), observation (C12), the exact effect of an invalid
   colour (C05).                                                                                                   *)
Require Import JV.Base.Prelude JV.Base.JaxIndex JV.Base.Codec JV.Base.TimeStep JV.Model.GraphColoring JV.Proofs.GraphColoring.

(* ---------- small helpers ---------- *)
Lemma bool_eq_iff (a b : bool) : (a = true <-> b = true) -> a = b.
Proof. destruct a, b; intros [H1 H2]; auto; try (symmetry; apply H1; reflexivity); try (apply H2; reflexivity). Qed.

Lemma forallb_false_ex {A} (f : A -> bool) l : forallb f l = false -> exists x, In x l /\ f x = false.
Proof.
  induction l as [|x l IH]; cbn [forallb]; intro H; [discriminate H|].
  destruct (f x) eqn:E.
  - cbn [andb] in H. destruct (IH H) as (y & Hy & Fy). exists y. split; [right; auto|auto].
  - exists x. split; [left; auto|auto].
Qed.

Lemma zlen_zrange n : 0 <= n -> zlen (zrange n) = n.
Proof. intro H. unfold zlen, zrange. rewrite zrange_from_length. lia. Qed.

Lemma zlen_map_zrange {A} (f : Z -> A) n : 0 <= n -> zlen (map f (zrange n)) = n.
Proof. intro H. unfold zlen. rewrite map_length. apply zlen_zrange; auto. Qed.

Lemma list_ext_z n (a b : list Z) :
  zlen a = n -> zlen b = n ->
  (forall c, 0 <= c < n -> nth (Z.to_nat c) a (-1) = nth (Z.to_nat c) b (-1)) -> a = b.
Proof.
  intros La Lb H. apply (nth_ext a b (-1) (-1)); [unfold zlen in *; lia|].
  intros k Hk. specialize (H (Z.of_nat k) ltac:(unfold zlen in *; lia)). rewrite Nat2Z.id in H. exact H.
Qed.

(* ---------- colours stay inside [-1, n-1] ---------- *)
Lemma colors_wf_jset n colors i a :
  colors_wf n colors -> -1 <= a < n -> colors_wf n (jset colors i a).
Proof.
  intros [L R] Ha. split; [rewrite zlen_jset; auto|].
  unfold jset. destruct (_ && _); [|auto]. unfold zupd. destruct (_ <? 0); [auto|].
  generalize (Z.to_nat (jnorm (zlen colors) i)) as k. clear L.
  induction colors as [|x l IH]; intros k; destruct k; cbn [upd]; auto; inversion R; subst; constructor; auto; lia.
Qed.

Lemma colors_wf_init n : 0 <= n -> colors_wf n (repeat (-1) (Z.to_nat n)).
Proof.
  intro H. split; [unfold zlen; rewrite repeat_length; lia|]. apply Forall_forall. intros x Hx.
  apply repeat_spec in Hx. lia.
Qed.

(* ---------- the mask computed by the code IS the list of legal colours ---------- *)
Theorem mask_is_legal_set n adj colors node :
  0 < n -> graph_wf n adj -> colors_wf n colors -> 0 <= node < n ->
  valid_actions n node adj colors = map (legal_b n adj colors node) (zrange n).
Proof.
  intros Hn G Cw Hnode. apply (list_ext_b n); [rewrite mask_length; lia | rewrite map_length; unfold zrange; rewrite zrange_from_length; lia |].
  intros c Hc. rewrite (nth_map_zrange _ n c) by lia. apply bool_eq_iff.
  rewrite valid_actions_exact; auto; [|destruct G as (_ & R & _); auto].
  rewrite legal_b_spec. unfold legal. split; intros H j Hj.
  - intro E. rewrite (edge_row n) in E by auto. rewrite color_of_nth by lia. auto.
  - intro E. rewrite <- (edge_row n) in E by auto. rewrite <- color_of_nth by lia. auto.
Qed.

(* ---------- weak invariant: everything in Inv except properness; closed under every in-spec action ---------- *)
Record Inv0 (n : Z) (s : state) : Prop := {
  inv0_graph : graph_wf n (adj s);
  inv0_colors : colors_wf n (colors s);
  inv0_cur : 0 <= cur s < n;
  inv0_mask : amask s = valid_actions n (cur s) (adj s) (colors s) }.

Lemma Inv_Inv0 n s : Inv n s -> Inv0 n s.
Proof. intros [G C K M _]. constructor; auto. Qed.

Lemma init_Inv0 n adj0 : 0 < n -> graph_wf n adj0 -> Inv0 n (fst (init n adj0)).
Proof. intros Hn G. apply Inv_Inv0. apply init_Inv; auto. Qed.

Theorem step_preserves_Inv0 n s a :
  0 < n -> Inv0 n s -> 0 <= a < n -> Inv0 n (fst (step n s a)).
Proof.
  intros Hn [G Cw Hcur M] Ha. unfold step. cbn [fst]. constructor; cbn [adj colors cur amask]; auto.
  - apply colors_wf_jset; auto. lia.
  - apply Z.mod_pos_bound; lia.
Qed.

Theorem mask_iff_legal0 n s c :
  0 < n -> Inv0 n s -> 0 <= c < n ->
  (jget false (amask s) c = true <-> legal n (adj s) (colors s) (cur s) c).
Proof.
  intros Hn [G Cw Hcur M] Hc. rewrite M. rewrite mask_is_legal_set by auto.
  rewrite jget_in_range by (rewrite zlen_map_zrange; lia).
  rewrite (nth_map_zrange _ n c) by lia. apply legal_b_spec.
Qed.

Lemma mask_entry_legal_b n s c :
  0 < n -> Inv0 n s -> 0 <= c < n -> jget false (amask s) c = legal_b n (adj s) (colors s) (cur s) c.
Proof.
  intros Hn I Hc. apply bool_eq_iff. rewrite (mask_iff_legal0 n) by auto. symmetry. apply legal_b_spec.
Qed.

(* ---------- C01: the declared specs ---------- *)
Definition Shape (n : Z) (s : state) : Prop :=
  zlen (adj s) = n /\ Forall (fun r : list bool => zlen r = n) (adj s) /\ colors_wf n (colors s)
  /\ 0 <= cur s < n /\ zlen (amask s) = n.

Lemma ranges_b_spec n s : ranges_b n s = true <-> Shape n s.
Proof.
  unfold ranges_b, Shape, colors_wf. rewrite !andb_true_iff, !forallb_forall, !Forall_forall.
  split.
  - intros ((((((A & B) & C) & D) & E) & F) & G).
    split; [lia|]. split; [intros r Hr; specialize (B r Hr); lia|]. split; [|lia].
    split; [lia|]. intros c Hc. specialize (D c Hc). lia.
  - intros (A & B & (C & D) & E & F).
    repeat split; try lia; try (intros r Hr; specialize (B r Hr); lia); try (intros c Hc; specialize (D c Hc); lia).
Qed.

Lemma graph_wf_rows n adj0 : graph_wf n adj0 -> Forall (fun r : list bool => zlen r = n) adj0.
Proof.
  intros (L & R & _). apply Forall_forall. intros r Hr. apply (In_nth _ _ []) in Hr as (k & Hk & <-).
  specialize (R (Z.of_nat k) ltac:(unfold zlen in *; lia)). unfold row_of in R.
  rewrite jget_in_range in R by (unfold zlen in *; lia). rewrite Nat2Z.id in R. exact R.
Qed.

Lemma Inv0_Shape n s : 0 <= n -> Inv0 n s -> Shape n s.
Proof.
  intros Hn [G Cw Hcur M]. unfold Shape. split; [apply G|]. split; [apply graph_wf_rows; auto|].
  split; [auto|]. split; [auto|]. rewrite M. unfold zlen. rewrite mask_length; lia.
Qed.

(* every step keeps every field inside its declared range: ANY state in the spec (reachable or not, terminal or not),
   any in-spec colour (legal or not) *)
Theorem Shape_step n s a : 0 < n -> Shape n s -> 0 <= a < n -> Shape n (fst (step n s a)).
Proof.
  intros Hn (A & B & C & D & E) Ha. unfold step, Shape. cbn [fst adj colors cur amask].
  split; [auto|]. split; [auto|]. split; [apply colors_wf_jset; auto; lia|].
  split; [apply Z.mod_pos_bound; lia|]. unfold zlen. rewrite mask_length; lia.
Qed.

Theorem C01_step_in_spec n s a :
  0 < n -> ranges_b n s = true -> 0 <= a < n -> ranges_b n (fst (step n s a)) = true.
Proof. intros Hn R Ha. apply ranges_b_spec. apply Shape_step; auto. apply ranges_b_spec; auto. Qed.

Theorem C01_reset_in_spec n adj0 :
  0 < n -> graph_wf n adj0 ->
  ranges_b n (fst (init n adj0)) = true /\ colors (fst (init n adj0)) = repeat (-1) (Z.to_nat n)
  /\ cur (fst (init n adj0)) = 0 /\ amask (fst (init n adj0)) = repeat true (Z.to_nat n).
Proof.
  intros Hn G. split; [|cbn; auto]. apply ranges_b_spec. apply Inv0_Shape; [lia|]. apply init_Inv0; auto.
Qed.

Theorem C01_reset_generated n draw : 0 < n -> ranges_b n (fst (init n (gen_adj n draw))) = true.
Proof. intro Hn. apply C01_reset_in_spec; auto. apply gen_graph_wf. lia. Qed.

(* the node index: +1, and back to 0 (not n) after the last node *)
Theorem C01_node_index n s a :
  0 < n -> 0 <= cur s < n ->
  cur (fst (step n s a)) = (if cur s =? n - 1 then 0 else cur s + 1) /\ 0 <= cur (fst (step n s a)) <= n - 1.
Proof.
  intros Hn Hc. unfold step. cbn [fst cur]. destruct (cur s =? n - 1) eqn:E.
  - assert (cur s + 1 = n) as -> by lia. rewrite Z.mod_same by lia. lia.
  - rewrite Z.mod_small by lia. lia.
Qed.

(* a whole run stays in the spec: every emitted state, including the terminal one, under any in-spec actions *)
Theorem C01_run_in_spec n acts : forall s,
  0 < n -> ranges_b n s = true -> Forall (fun a => 0 <= a < n) acts ->
  Forall (fun p => ranges_b n (fst p) = true) (run n s acts).
Proof.
  induction acts as [|a r IH]; intros s Hn R HA; cbn [run]; [constructor|].
  inversion HA as [|? ? Ha HA']; subst. pose proof (C01_step_in_spec n s a Hn R Ha) as R'.
  constructor; [auto|]. destruct (_ =? LAST); [constructor|]. apply IH; auto.
Qed.

(* ---------- C03: protocol ---------- *)
Theorem C03_step_protocol n s a : step_ok 1 false (snd (step n s a)) = true.
Proof. unfold step. cbn [snd]. destruct (_ || _); reflexivity. Qed.

Theorem C03_init_protocol n adj0 : first_ok 1 (snd (init n adj0)) = true.
Proof. reflexivity. Qed.

(* LAST exactly when the colouring is complete or the colour was masked out; discount 0 on LAST, 1 on MID *)
Theorem C03_last_iff n s a :
  (st (snd (step n s a)) = LAST <->
   all_colored (colors (fst (step n s a))) = true \/ jget false (amask s) a = false)
  /\ discount (snd (step n s a)) = [if st (snd (step n s a)) =? LAST then 0 else 1].
Proof.
  unfold step. cbn [fst snd colors]. destruct (all_colored _); destruct (jget false (amask s) a); cbn; split; try reflexivity;
    split; intro H; auto; try discriminate H; destruct H as [H|H]; discriminate H.
Qed.

(* ---------- C09: the code's step is the published rules ---------- *)
Lemma NoDup_zrange_from s k : NoDup (zrange_from s k).
Proof.
  revert s; induction k as [|k IH]; intro s; cbn [zrange_from]; constructor; auto.
  rewrite in_zrange_from. lia.
Qed.

Lemma NoDup_zrange n : NoDup (zrange n).
Proof. apply NoDup_zrange_from. Qed.

(* the code's unique/count_nonzero = the number of colours of 0..n-1 that some node has *)
Theorem distinct_is_colours_used n colors :
  colors_wf n colors -> distinct_nonneg [] colors = colours_used n colors.
Proof.
  intros [L R]. destruct (distinct_nonneg_spec colors []) as (ds & ND & M & ->).
  unfold colours_used, count_if, zlen. f_equal. rewrite Forall_forall in R.
  set (f := fun c => existsb (Z.eqb c) colors).
  assert (Mf : forall x, In x (filter f (zrange n)) <-> In x ds).
  { intro x. rewrite filter_In, in_zrange, M. unfold f. rewrite existsb_exists. split.
    - intros (Hx & y & Hy & E). assert (x = y) by lia. subst y. split; [auto|]. split; [lia|]. intros [].
    - intros (Hin & Hx & _). specialize (R x Hin). split; [lia|]. exists x. split; [auto|lia]. }
  apply Nat.le_antisymm; apply NoDup_incl_length; auto.
  - intros x Hx. apply Mf; auto.
  - apply NoDup_filter. apply NoDup_zrange.
  - intros x Hx. apply Mf; auto.
Qed.

Lemma paint_is_jset n colors i a :
  0 <= n -> zlen colors = n -> 0 <= i < n -> jset colors i a = paint n colors i a.
Proof.
  intros Hn L Hi. apply (list_ext_z n); [rewrite zlen_jset; auto | unfold paint; apply zlen_map_zrange; auto |].
  intros c Hc. rewrite nth_jset by lia. unfold paint. rewrite (nth_map_zrange _ n c) by lia.
  rewrite color_of_nth by lia. unfold jnorm. destruct (i <? 0) eqn:E; [lia|].
  destruct (i =? c) eqn:E1; destruct (c =? i) eqn:E2; try lia; reflexivity.
Qed.

Lemma next_node_is_mod n i : 0 < n -> 0 <= i < n -> (i + 1) mod n = next_node n i.
Proof.
  intros Hn Hi. unfold next_node. destruct (i + 1 <? n) eqn:E.
  - apply Z.mod_small; lia.
  - assert (i + 1 = n) as -> by lia. apply Z.mod_same; lia.
Qed.

Lemma complete_b_is_all_colored n colors : zlen colors = n -> all_colored colors = complete_b n colors.
Proof.
  intro L. apply bool_eq_iff. rewrite (all_colored_spec n) by auto. unfold complete_b. rewrite forallb_forall. split.
  - intros H j Hj. apply in_zrange in Hj. specialize (H j Hj). lia.
  - intros H j Hj. specialize (H j ltac:(apply in_zrange; lia)). lia.
Qed.

Theorem C09_step_is_rules n s a :
  0 < n -> Inv0 n s -> 0 <= a < n -> step n s a = rules_step n s a.
Proof.
  intros Hn I Ha. pose proof (mask_entry_legal_b n s a Hn I Ha) as Em. destruct I as [G Cw Hcur M].
  assert (L : zlen (colors s) = n) by apply Cw.
  unfold step, rules_step.
  rewrite Em. rewrite (paint_is_jset n) by (auto; lia). rewrite next_node_is_mod by auto.
  set (colors' := paint n (colors s) (cur s) a).
  set (nxt := next_node n (cur s)).
  assert (Cw' : colors_wf n colors').
  { unfold colors'. rewrite <- (paint_is_jset n) by (auto; lia). apply colors_wf_jset; auto. lia. }
  assert (Hnxt : 0 <= nxt < n) by (unfold nxt, next_node; destruct (_ <? _) eqn:E; lia).
  rewrite mask_is_legal_set by auto.
  rewrite (complete_b_is_all_colored n) by apply Cw'.
  rewrite (distinct_is_colours_used n) by auto.
  destruct (legal_b n (adj s) (colors s) (cur s) a); cbn [negb].
  - rewrite orb_false_r. destruct (complete_b n colors'); reflexivity.
  - rewrite orb_true_r. reflexivity.
Qed.

(* what the rules' painted colouring is, pointwise *)
Lemma color_of_paint n colors i a j : 0 <= j < n -> color_of (paint n colors i a) j = if j =? i then a else color_of colors j.
Proof.
  intro Hj. rewrite color_of_nth by lia. unfold paint. rewrite (nth_map_zrange _ n j) by lia. reflexivity.
Qed.

(* ---------- C12: the observation is the view of the emitted state; its mask is the legal set of THAT state ---------- *)
Theorem C12_obs_step_is_view n s a : obs_step n s a = observe (fst (step n s a)).
Proof. reflexivity. Qed.

Theorem C12_obs_init_is_view n adj0 : obs_init n adj0 = observe (fst (init n adj0)).
Proof. reflexivity. Qed.

Theorem C12_observation n s :
  0 < n -> Inv0 n s ->
  observe s = (adj s, colors s, cur s, map (legal_b n (adj s) (colors s) (cur s)) (zrange n)).
Proof.
  intros Hn [G Cw Hcur M]. unfold observe. rewrite M at 1. rewrite mask_is_legal_set by auto. reflexivity.
Qed.

(* the observation emitted by a step (any in-spec colour, legal or not, terminal or not) shows the new colours, the next
   node and the legal colours of the next node under the NEW colours *)
Theorem C12_step_observation n s a :
  0 < n -> Inv0 n s -> 0 <= a < n ->
  let s' := fst (step n s a) in
  obs_step n s a = (adj s, colors s', cur s', map (legal_b n (adj s) (colors s') (cur s')) (zrange n))
  /\ colors s' = paint n (colors s) (cur s) a /\ cur s' = next_node n (cur s).
Proof.
  intros Hn I Ha s'. pose proof (step_preserves_Inv0 n s a Hn I Ha) as I'. fold s' in I'.
  split.
  - rewrite C12_obs_step_is_view. fold s'. rewrite (C12_observation n s') by auto. reflexivity.
  - unfold s'. rewrite C09_step_is_rules by auto. unfold rules_step.
    destruct (negb _); [|destruct (complete_b _ _)]; cbn [fst colors cur]; auto.
Qed.

Theorem C12_reset_observation n adj0 :
  0 < n -> graph_wf n adj0 ->
  obs_init n adj0 = (adj0, repeat (-1) (Z.to_nat n), 0, map (legal_b n adj0 (repeat (-1) (Z.to_nat n)) 0) (zrange n)).
Proof.
  intros Hn G. rewrite C12_obs_init_is_view. rewrite (C12_observation n) by (auto; apply init_Inv0; auto). reflexivity.
Qed.

(* ---------- C05: exactly what an invalid colour does ---------- *)
(* the code's reaction, on ANY state: LAST, reward -n, discount 0; the colour IS written, the node index advances, the mask is
   recomputed; the graph is untouched *)
Theorem C05_invalid_exact n s a :
  jget false (amask s) a = false ->
  step n s a = (mkS (adj s) (jset (colors s) (cur s) a) ((cur s + 1) mod n)
                    (valid_actions n ((cur s + 1) mod n) (adj s) (jset (colors s) (cur s) a)),
                termination 1 [- n]).
Proof. intro H. unfold step. rewrite H. cbn [negb]. rewrite orb_true_r. reflexivity. Qed.

(* the state component of a step does not depend on the validity of the colour at all *)
Theorem C05_state_independent_of_validity n s a :
  fst (step n s a) = mkS (adj s) (jset (colors s) (cur s) a) ((cur s + 1) mod n)
                         (valid_actions n ((cur s + 1) mod n) (adj s) (jset (colors s) (cur s) a)).
Proof. reflexivity. Qed.

(* on a reachable-shaped state: the illegal colour ends up in the colouring, every other node keeps its colour, and the
   emitted terminal colouring is NOT proper: the current node and one of its neighbours share the colour *)
Theorem C05_invalid_colour_is_written n s a :
  0 < n -> Inv0 n s -> 0 <= a < n -> ~ legal n (adj s) (colors s) (cur s) a ->
  let s' := fst (step n s a) in
  snd (step n s a) = termination 1 [- n]
  /\ adj s' = adj s
  /\ color_of (colors s') (cur s) = a
  /\ (forall j, 0 <= j < n -> j <> cur s -> color_of (colors s') j = color_of (colors s) j)
  /\ cur s' = next_node n (cur s)
  /\ (exists j, 0 <= j < n /\ j <> cur s /\ edge (adj s) (cur s) j = true
                /\ color_of (colors s') j = color_of (colors s') (cur s) /\ 0 <= color_of (colors s') j)
  /\ ~ proper n (adj s') (colors s').
Proof.
  intros Hn I Ha Hill s'.
  assert (Hm : jget false (amask s) a = false).
  { destruct (jget false (amask s) a) eqn:E; [|reflexivity]. exfalso. apply Hill. apply (mask_iff_legal0 n s a); auto. }
  assert (Hb : legal_b n (adj s) (colors s) (cur s) a = false).
  { destruct (legal_b n (adj s) (colors s) (cur s) a) eqn:E; [|reflexivity]. exfalso. apply Hill. apply legal_b_spec; auto. }
  pose proof (C09_step_is_rules n s a Hn I Ha) as R. unfold rules_step in R. rewrite Hb in R. cbn [negb] in R.
  destruct I as [G Cw Hcur M].
  subst s'. rewrite R. cbn [fst snd adj colors cur].
  assert (Hex : exists j, 0 <= j < n /\ j <> cur s /\ edge (adj s) (cur s) j = true /\ color_of (colors s) j = a).
  { unfold legal_b in Hb. apply forallb_false_ex in Hb as (j & Hj & Fj). apply in_zrange in Hj.
    apply negb_false_iff in Fj. apply andb_true_iff in Fj as [E C]. exists j. split; [auto|]. split; [|split; [auto|lia]].
    intro Q. subst j. destruct G as (_ & _ & NL & _). rewrite NL in E by lia. discriminate E. }
  split; [reflexivity|]. split; [reflexivity|].
  split; [rewrite color_of_paint by lia; rewrite Z.eqb_refl; reflexivity|].
  split; [intros j Hj Hne; rewrite color_of_paint by lia; destruct (j =? cur s) eqn:E; [lia|reflexivity]|].
  split; [reflexivity|].
  assert (Hex' : exists j, 0 <= j < n /\ j <> cur s /\ edge (adj s) (cur s) j = true
     /\ color_of (paint n (colors s) (cur s) a) j = color_of (paint n (colors s) (cur s) a) (cur s)
     /\ 0 <= color_of (paint n (colors s) (cur s) a) j).
  { destruct Hex as (j & Hj & Hne & E & C). exists j. rewrite !color_of_paint by lia. rewrite Z.eqb_refl.
    destruct (j =? cur s) eqn:E1; [lia|]. repeat split; auto; lia. }
  split; [exact Hex'|].
  intro P. destruct Hex' as (j & Hj & Hne & E & C & C0).
  apply (P (cur s) j Hcur Hj E); lia.
Qed.

(* conversely a legal colour is never punished: reward 0 while nodes remain, minus the colours in use at completion *)
Theorem C05_legal_colour_accepted n s a :
  0 < n -> Inv0 n s -> 0 <= a < n -> legal n (adj s) (colors s) (cur s) a ->
  let s' := fst (step n s a) in
  snd (step n s a) = (if complete_b n (colors s') then termination 1 [- colours_used n (colors s')] else transition 1 [0])
  /\ colors s' = paint n (colors s) (cur s) a.
Proof.
  intros Hn I Ha Hl s'. assert (Hb : legal_b n (adj s) (colors s) (cur s) a = true) by (apply legal_b_spec; auto).
  unfold s'. rewrite (C09_step_is_rules n s a Hn I Ha). unfold rules_step. rewrite Hb. cbn [negb].
  destruct (complete_b n (paint n (colors s) (cur s) a)) eqn:E; cbn [fst snd colors]; rewrite E; auto.
Qed.

(* ---------- the boolean checkers run on implementation states decide the declarative predicates ---------- *)
Theorem proper_b_spec n adj colors : proper_b n adj colors = true <-> proper n adj colors.
Proof.
  unfold proper_b, proper. rewrite forallb_forall. split.
  - intros H i j Hi Hj E Ci Cj Q. specialize (H i ltac:(apply in_zrange; lia)). rewrite forallb_forall in H.
    specialize (H j ltac:(apply in_zrange; lia)). rewrite E in H. apply negb_true_iff in H.
    replace (0 <=? color_of colors i) with true in H by lia. replace (0 <=? color_of colors j) with true in H by lia.
    cbn [andb] in H. lia.
  - intros H i Hi. apply in_zrange in Hi. apply forallb_forall. intros j Hj. apply in_zrange in Hj.
    apply negb_true_iff. destruct (edge adj i j) eqn:E; [|reflexivity].
    destruct (0 <=? color_of colors i) eqn:Ci; [|reflexivity]. destruct (0 <=? color_of colors j) eqn:Cj; [|reflexivity].
    cbn [andb]. specialize (H i j Hi Hj E ltac:(lia) ltac:(lia)). lia.
Qed.

Theorem sym_loopless_b_spec n adj :
  sym_loopless_b n adj = true <->
  (forall i, 0 <= i < n -> edge adj i i = false) /\ (forall i j, 0 <= i < n -> 0 <= j < n -> edge adj i j = edge adj j i).
Proof.
  unfold sym_loopless_b. rewrite forallb_forall. split.
  - intro H. split.
    + intros i Hi. specialize (H i ltac:(apply in_zrange; lia)). apply andb_true_iff in H as [H _]. apply negb_true_iff in H. exact H.
    + intros i j Hi Hj. specialize (H i ltac:(apply in_zrange; lia)). apply andb_true_iff in H as [_ H].
      rewrite forallb_forall in H. specialize (H j ltac:(apply in_zrange; lia)). apply Bool.eqb_prop in H. exact H.
  - intros [NL S] i Hi. apply in_zrange in Hi. apply andb_true_iff. split.
    + apply negb_true_iff. apply NL; auto.
    + apply forallb_forall. intros j Hj. apply in_zrange in Hj. rewrite (S i j Hi Hj). apply Bool.eqb_reflx.
Qed.
