(* JobShop: reset establishes the clock invariant; mask-respecting play keeps it (C06); the return of a finished episode
   is minus the makespan (C08); the structural horizon (C11). *)
Require Import JV.Base.Prelude JV.Base.JaxIndex JV.Base.Codec JV.Base.TimeStep JV.Proofs.TimeStep_laws.
Require Import JV.Model.JobShop JV.Proofs.JobShop_lib JV.Proofs.JobShop_step JV.Proofs.JobShop_sched.

(* ---------------------------------------------------------------- reset *)
Section Init.
Variables (c : cfg) (om od : list (list Z)).
Let s0 := fst (init c om od).
Hypothesis HJ : 0 <= nj c.
Hypothesis HM : 0 <= nm c.
Hypothesis HO : 0 < no c.

Lemma init_pend j k : 0 <= j < nj c -> 0 <= k < no c -> pend s0 j k = real_b s0 j k.
Proof. intros. unfold s0, init, pend, real_b, mach. cbn [fst omask omach]. rewrite gat_tab2 by lia. reflexivity. Qed.
Lemma init_sch j k : 0 <= j < nj c -> 0 <= k < no c -> sch s0 j k = -1.
Proof. intros. unfold s0, init, sch. cbn [fst sched]. rewrite gat_tab2 by lia. reflexivity. Qed.
Lemma init_rem m : 0 <= m < nm c -> rem s0 m = 0.
Proof. intros. unfold s0, init, rem. cbn [fst mrem]. rewrite znth_tab by lia. reflexivity. Qed.
Lemma init_job m : 0 <= m < nm c -> job s0 m = nj c.
Proof. intros. unfold s0, init, job. cbn [fst mjob]. rewrite znth_tab by lia. reflexivity. Qed.
Lemma init_not_scheduled j k : 0 <= j < nj c -> 0 <= k < no c -> ~ scheduled s0 j k.
Proof. intros Hj Hk (R & P). rewrite init_pend in P by auto. apply real_b_spec in R. congruence. Qed.

Theorem init_Inv : rows_ok od (nj c) (no c) -> inst_wf c s0 -> Inv c s0.
Proof.
  intros Hd W. constructor.
  - unfold shape. repeat split; auto; try apply Hd; unfold s0, init; cbn [fst omask]; apply rows_ok_tab2; lia.
  - reflexivity.
  - exact W.
  - cbn. lia.
  - intros j k Hj Hk P. rewrite init_pend in P by auto. apply real_b_spec. auto.
  - intros j k k' Hj Hk Hk' P R. rewrite init_pend by (auto; lia). apply real_b_spec. auto.
  - intros j k Hj Hk. split; [intro Sc; exfalso; exact (init_not_scheduled j k Hj Hk Sc)|]. intros _. apply init_sch; auto.
  - intros j k k' Hj Hk Hk' Sc. exfalso. apply (init_not_scheduled j k Hj ltac:(lia) Sc).
  - intros j k j' k' Hj Hk Hj' Hk' _ Sc. exfalso. exact (init_not_scheduled j k Hj Hk Sc).
  - intros j k Hj Hk Sc. exfalso. exact (init_not_scheduled j k Hj Hk Sc).
  - intros j k Hj Hk Sc. exfalso. exact (init_not_scheduled j k Hj Hk Sc).
  - intros m Hm. rewrite init_rem; auto. lia.
  - intros m Hm P. rewrite init_rem in P; auto. lia.
Qed.

Lemma init_contrib j k : 0 <= j < nj c -> 0 <= k < no c -> contrib s0 j k = if real_b s0 j k then dur s0 j k else 0.
Proof.
  intros Hj Hk. unfold contrib. rewrite init_pend by auto. destruct (real_b s0 j k) eqn:R; auto.
  unfold scheduled_b. rewrite R. reflexivity.
Qed.
End Init.

(* ---------------------------------------------------------------- C06 *)
Theorem Inv_Feasible c s : Inv c s -> Feasible c s.
Proof.
  intro HI. unfold Feasible. split; [|split; [|split]].
  - intros j k k' Hj Hk Hk' (R' & P'). split.
    + apply (wf_prefix c s j k' k); auto; try lia; apply (I_wf c s HI).
    + destruct (pend s j k) eqn:P; auto. rewrite (I_P2 c s HI j k k' Hj Hk Hk' P R') in P'. discriminate.
  - apply (I_S2 c s HI).
  - apply (I_S3 c s HI).
  - apply (I_S1 c s HI).
Qed.

(* completion: the episode is "finished" only when every real operation has been scheduled (and has ended) *)
Theorem finished_Complete c s : finished_b c (omask s) (mrem s) = true -> Complete c s.
Proof.
  unfold finished_b, none_pending_b. rewrite andb_true_iff, forallb_zrange. intros (N & _) j k Hj Hk R.
  specialize (N j Hj). rewrite forallb_zrange in N. specialize (N k Hk). split; auto.
  unfold pend. destruct (gat false (omask s) j k); auto; discriminate.
Qed.

Theorem finished_all_ended c s : Inv c s -> finished_b c (omask s) (mrem s) = true ->
  forall j k, 0 <= j < nj c -> 0 <= k < no c -> scheduled s j k -> fin s j k <= clock s.
Proof.
  intros HI F j k Hj Hk Sc. unfold finished_b, all_free_b in F. apply andb_true_iff in F as (_ & F).
  rewrite forallb_zrange in F. pose proof (I_R1 c s HI j k Hj Hk Sc) as R1.
  destruct Sc as (R & _). pose proof (wf_real c s j k (I_wf c s HI) Hj Hk R) as (Mm & _).
  specialize (F _ Mm). fold (rem s (mach s j k)) in F. lia.
Qed.

(* mask-respecting play (it may even continue after a LAST step) *)
Fixpoint play (c : cfg) (s : state) (acts : list (list Z)) : state :=
  match acts with [] => s | a :: r => play c (fst (step c s a)) r end.
Fixpoint respects (c : cfg) (s : state) (acts : list (list Z)) : Prop :=
  match acts with [] => True | a :: r => in_spec c a /\ valid_action c s a /\ respects c (fst (step c s a)) r end.

Theorem play_Inv c acts : forall s, Inv c s -> respects c s acts -> Inv c (play c s acts).
Proof.
  induction acts as [|a r IH]; intros s HI R; cbn [play]; auto.
  destruct R as (Sp & V & R). apply IH; auto. apply step_preserves_Inv; auto.
Qed.

Theorem play_Feasible c om od acts : 0 <= nj c -> 0 <= nm c -> 0 < no c -> rows_ok od (nj c) (no c) ->
  inst_wf c (fst (init c om od)) -> respects c (fst (init c om od)) acts ->
  Feasible c (play c (fst (init c om od)) acts).
Proof. intros. apply Inv_Feasible. apply play_Inv; auto. apply init_Inv; auto. Qed.

(* ---------------------------------------------------------------- makespan *)
Lemma fold_max_le {A} (f : A -> Z) l T : 0 <= T -> (forall x, In x l -> f x <= T) -> fold_right Z.max 0 (map f l) <= T.
Proof.
  intros HT. induction l as [|a l IH]; intro H; cbn [map fold_right]; [lia|].
  pose proof (H a (or_introl eq_refl)). assert (fold_right Z.max 0 (map f l) <= T) by (apply IH; intros; apply H; right; auto). lia.
Qed.
Lemma fold_max_eq {A} (f : A -> Z) l T : 0 <= T -> (forall x, In x l -> f x <= T) -> (exists x, In x l /\ f x = T) ->
  fold_right Z.max 0 (map f l) = T.
Proof.
  intros HT H (x & Hin & E). pose proof (fold_max_le f l T HT H) as U.
  assert (L : T <= fold_right Z.max 0 (map f l)); [|lia].
  clear U H. induction l as [|a l IH]; [destruct Hin|]. cbn [map fold_right].
  destruct Hin as [->|Hin]; [lia|]. specialize (IH Hin). lia.
Qed.

Lemma makespan_eq c s T : 0 <= T ->
  (forall j k, 0 <= j < nj c -> 0 <= k < no c -> scheduled s j k -> fin s j k <= T) ->
  (exists j k, 0 <= j < nj c /\ 0 <= k < no c /\ scheduled s j k /\ fin s j k = T) -> makespan c s = T.
Proof.
  intros HT U (j & k & Hj & Hk & Sc & E). unfold makespan. apply fold_max_eq; auto.
  - intros [j' k'] Hin. apply in_pairs in Hin as (Hj' & Hk'). destruct (scheduled_b s j' k') eqn:B; [|lia].
    apply U; auto. apply scheduled_b_spec; auto.
  - exists (j, k). split; [apply in_pairs; auto|]. apply scheduled_b_spec in Sc. rewrite Sc. auto.
Qed.

(* the step that finishes the schedule: the clock then reads exactly the makespan *)
Theorem finish_makespan c s act : Inv c s -> in_spec c act -> valid_action c s act ->
  let s' := fst (step c s act) in
  finished_b c (omask s') (mrem s') = true -> all_idle_b c (mjob s') (mrem s') = false ->
  makespan c s' = clock s' /\ Complete c s'.
Proof.
  intros HI Sp V s' F NI. split; [|apply finished_Complete; auto].
  pose proof (step_preserves_Inv c s act HI Sp V) as HI'. fold s' in HI'.
  apply makespan_eq.
  - apply (I_t c s' HI').
  - apply finished_all_ended; auto.
  - destruct (not_idle_witness c s act HI Sp V NI) as (j & k & Hj & Hk & Sc & L). fold s' in Sc, L.
    exists j, k. repeat split; auto; try lia; try apply Sc.
    pose proof (finished_all_ended c s' HI' F j k Hj Hk Sc). lia.
Qed.

(* ---------------------------------------------------------------- episodes (C08, C11) *)
Definition rew1 (p : state * tstep) : Z := hd 0 (reward (snd p)).
Definition ret (tr : list (state * tstep)) : Z := zsum (map rew1 tr).
Fixpoint lastp (tr : list (state * tstep)) : option (state * tstep) :=
  match tr with [] => None | [p] => Some p | _ :: r => lastp r end.

Lemma step_st c s act : st (snd (step c s act)) = MID \/ st (snd (step c s act)) = LAST.
Proof. rewrite step_ts. cbv zeta. unfold cond_done. destruct (_ || _); cbn; auto. Qed.

(* a step that is not LAST was valid, left some machine busy, did not finish, and paid -1 *)
Lemma mid_step c s act : shape c s -> mask_fresh c s -> in_spec c act -> (st (snd (step c s act)) =? LAST) = false ->
  let s' := fst (step c s act) in
  valid_action c s act /\ all_idle_b c (mjob s') (mrem s') = false /\ finished_b c (omask s') (mrem s') = false
  /\ snd (step c s act) = transition 1 [-1].
Proof.
  intros Sh Fr Sp N s'. destruct (invalid_b c s act) eqn:E.
  - exfalso. rewrite step_ts in N. cbv zeta in N. rewrite E in N. cbn in N. discriminate.
  - apply invalid_b_false in E; auto. split; auto.
    pose proof (valid_step_ts c s act Sh Fr Sp E) as T. cbv zeta in T. fold s' in T.
    rewrite T in N |- *. destruct (all_idle_b c (mjob s') (mrem s')); [cbn in N; discriminate|].
    destruct (finished_b c (omask s') (mrem s')); [cbn in N; discriminate|]. auto.
Qed.

(* C08: an episode that ends because the schedule is finished (a LAST step paying -1, the penalty being a different number)
   has return = - makespan of the final schedule = - (number of steps) *)
Theorem return_is_minus_makespan c acts : penalty c <> -1 -> forall s sf tf,
  Inv c s -> Forall (in_spec c) acts -> lastp (run c s acts) = Some (sf, tf) -> tf = termination 1 [-1] ->
  makespan c sf = clock sf /\ Complete c sf /\ Feasible c sf /\ ret (run c s acts) = - (clock sf - clock s)
  /\ clock sf - clock s = Z.of_nat (length (run c s acts)).
Proof.
  intros Pn. induction acts as [|a r IH]; intros s sf tf HI Sp L T; [discriminate|].
  inversion Sp as [|? ? Sa Sr]; subst.
  pose proof (I_shape c s HI) as Sh. pose proof (I_fresh c s HI) as Fr.
  cbn [run] in *. destruct (st (snd (step c s a)) =? LAST) eqn:E.
  - cbn [lastp] in L. assert (L' : step c s a = (sf, termination 1 [-1])) by congruence. clear L.
    assert (V : valid_action c s a).
    { destruct (invalid_b c s a) eqn:I; [|apply invalid_b_false in I; auto].
      exfalso. pose proof (f_equal snd L') as X. cbn [snd] in X. rewrite step_ts in X. cbv zeta in X. rewrite I in X.
      cbn in X. inversion X. congruence. }
    pose proof (valid_step_ts c s a Sh Fr Sa V) as TS. cbv zeta in TS.
    pose proof (f_equal snd L') as X. cbn [snd] in X. pose proof (f_equal fst L') as Y. cbn [fst] in Y.
    rewrite X in TS.
    destruct (all_idle_b c _ _) eqn:Id; [inversion TS; congruence|].
    destruct (finished_b c _ _) eqn:Fi; [|discriminate].
    pose proof (finish_makespan c s a HI Sa V Fi Id) as (Mk & Co). rewrite Y in Mk, Co.
    pose proof (step_preserves_Inv c s a HI Sa V) as HI'. rewrite Y in HI'.
    split; auto. split; auto. split; [apply Inv_Feasible; auto|].
    unfold ret, rew1. cbn [map zsum length]. rewrite X. rewrite <- Y. rewrite step_clock. cbn. split; lia.
  - pose proof (mid_step c s a Sh Fr Sa E) as (V & Id & Fi & TS). cbv zeta in *.
    pose proof (step_preserves_Inv c s a HI Sa V) as HI'.
    assert (L2 : lastp (run c (fst (step c s a)) r) = Some (sf, termination 1 [-1])).
    { cbn [lastp] in L. destruct (run c (fst (step c s a)) r) eqn:Rr; auto.
      assert (L' : step c s a = (sf, termination 1 [-1])) by congruence.
      pose proof (f_equal snd L') as X. cbn [snd] in X. rewrite TS in X. discriminate. }
    specialize (IH _ sf _ HI' Sr L2 eq_refl). destruct IH as (A & B & C0 & D & F).
    split; auto. split; auto. split; auto.
    unfold ret in *. cbn [map zsum length]. unfold rew1 at 1. rewrite TS. cbn [reward transition hd].
    rewrite step_clock in D, F. split; lia.
Qed.

(* ---- sums *)
Lemma zsum_le {A} (f g : A -> Z) l : (forall x, In x l -> f x <= g x) -> zsum (map f l) <= zsum (map g l).
Proof.
  induction l as [|a l IH]; intro H; cbn [map zsum]; [lia|].
  pose proof (H a (or_introl eq_refl)). assert (zsum (map f l) <= zsum (map g l)) by (apply IH; intros; apply H; right; auto). lia.
Qed.
Lemma zsum_lt {A} (f g : A -> Z) l x0 : (forall x, In x l -> f x <= g x) -> In x0 l -> f x0 + 1 <= g x0 ->
  zsum (map f l) + 1 <= zsum (map g l).
Proof.
  induction l as [|a l IH]; intros H Hin S; [destruct Hin|]. cbn [map zsum].
  pose proof (H a (or_introl eq_refl)).
  assert (T : zsum (map f l) <= zsum (map g l)) by (apply zsum_le; intros; apply H; right; auto).
  destruct Hin as [->|Hin]; [lia|]. specialize (IH (fun x Hx => H x (or_intror Hx)) Hin S). lia.
Qed.
Lemma zsum_bound {A} (f : A -> Z) l B : (forall x, In x l -> f x <= B) -> zsum (map f l) <= Z.of_nat (length l) * B.
Proof.
  induction l as [|a l IH]; intro H; cbn [map zsum length]; [lia|].
  pose proof (H a (or_introl eq_refl)). assert (zsum (map f l) <= Z.of_nat (length l) * B) by (apply IH; intros; apply H; right; auto). lia.
Qed.
Lemma zsum_zero {A} (l : list A) : zsum (map (fun _ => 0) l) = 0.
Proof. induction l; cbn [map zsum]; lia. Qed.

Lemma contrib_nonneg c s j k : Inv c s -> 0 <= j < nj c -> 0 <= k < no c -> 0 <= contrib s j k.
Proof.
  intros HI Hj Hk. unfold contrib. destruct (pend s j k) eqn:P.
  - pose proof (wf_real c s j k (I_wf c s HI) Hj Hk (I_P1 c s HI j k Hj Hk P)). lia.
  - destruct (scheduled_b s j k); lia.
Qed.

(* one mask-respecting step that leaves a machine busy consumes at least one unit of work *)
Theorem potential_step c s act : Inv c s -> in_spec c act -> valid_action c s act ->
  let s' := fst (step c s act) in all_idle_b c (mjob s') (mrem s') = false -> potential c s' + 1 <= potential c s.
Proof.
  intros HI Sp V s' NI. destruct (contrib_step_lt c s act HI Sp V NI) as (j0 & k0 & Hj0 & Hk0 & S).
  unfold potential. apply (zsum_lt _ _ _ j0).
  - intros j Hj. apply in_zrange in Hj. apply zsum_le. intros k Hk. apply in_zrange in Hk.
    apply contrib_step_le; auto.
  - apply in_zrange; auto.
  - apply (zsum_lt _ _ _ k0).
    + intros k Hk. apply in_zrange in Hk. apply contrib_step_le; auto.
    + apply in_zrange; auto.
    + exact S.
Qed.

(* an unfinished schedule still has work to do *)
Theorem potential_pos c s : Inv c s -> finished_b c (omask s) (mrem s) = false -> 1 <= potential c s.
Proof.
  intros HI F.
  assert (X : exists j k, 0 <= j < nj c /\ 0 <= k < no c /\ 1 <= contrib s j k).
  { unfold finished_b in F. apply andb_false_iff in F as [F|F].
    - unfold none_pending_b in F. apply forallb_zrange_false in F as (j & Hj & F).
      apply forallb_zrange_false in F as (k & Hk & F). apply negb_false_iff in F. fold (pend s j k) in F.
      exists j, k. split; auto. split; auto. unfold contrib. rewrite F.
      pose proof (wf_real c s j k (I_wf c s HI) Hj Hk (I_P1 c s HI j k Hj Hk F)). lia.
    - unfold all_free_b in F. apply forallb_zrange_false in F as (m & Hm & F). fold (rem s m) in F.
      pose proof (I_R3 c s HI m Hm) as R3. assert (P : 0 < rem s m) by lia.
      destruct (I_R4 c s HI m Hm P) as (j & k & Hj & Hk & Sc & _ & E).
      exists j, k. split; auto. split; auto. unfold contrib. destruct Sc as (R & Pd). rewrite Pd.
      assert (B : scheduled_b s j k = true) by (apply scheduled_b_spec; split; auto). rewrite B. lia. }
  destruct X as (j0 & k0 & Hj0 & Hk0 & S). unfold potential.
  pose proof (zsum_lt (fun _ => 0) (fun j => zsum (map (contrib s j) (zrange (no c)))) (zrange (nj c)) j0) as Q.
  rewrite zsum_zero in Q. apply Q.
  - intros j Hj. apply in_zrange in Hj. pose proof (zsum_le (fun _ => 0) (contrib s j) (zrange (no c))) as Q2.
    rewrite zsum_zero in Q2. apply Q2. intros k Hk. apply in_zrange in Hk. apply (contrib_nonneg c); auto.
  - apply in_zrange; auto.
  - pose proof (zsum_lt (fun _ => 0) (contrib s j0) (zrange (no c)) k0) as Q3. rewrite zsum_zero in Q3. apply Q3.
    + intros k Hk. apply in_zrange in Hk. apply (contrib_nonneg c); auto.
    + apply in_zrange; auto.
    + lia.
Qed.

(* C11: under ANY in-spec actions an episode is no longer than the work of its first state *)
Theorem run_length c acts : forall s, Inv c s -> Forall (in_spec c) acts -> finished_b c (omask s) (mrem s) = false ->
  Z.of_nat (length (run c s acts)) <= potential c s.
Proof.
  induction acts as [|a r IH]; intros s HI Sp F; pose proof (potential_pos c s HI F) as P1; [cbn; lia|].
  inversion Sp as [|? ? Sa Sr]; subst. cbn [run]. destruct (st (snd (step c s a)) =? LAST) eqn:E; [cbn; lia|].
  pose proof (mid_step c s a (I_shape c s HI) (I_fresh c s HI) Sa E) as (V & Id & Fi & _). cbv zeta in *.
  pose proof (step_preserves_Inv c s a HI Sa V) as HI'.
  pose proof (potential_step c s a HI Sa V Id) as D. cbv zeta in D.
  specialize (IH _ HI' Sr Fi). cbn [length]. lia.
Qed.

(* ... and every non-LAST step is one that started an operation or had a busy machine (the potential dropped) *)
Theorem mid_step_consumes c s act : Inv c s -> in_spec c act -> (st (snd (step c s act)) =? LAST) = false ->
  potential c (fst (step c s act)) + 1 <= potential c s.
Proof.
  intros HI Sp E. pose proof (mid_step c s act (I_shape c s HI) (I_fresh c s HI) Sp E) as (V & Id & _). cbv zeta in *.
  apply potential_step; auto.
Qed.

Theorem init_potential_bound c om od : 0 <= nj c -> 0 <= nm c -> 0 < no c -> inst_wf c (fst (init c om od)) ->
  potential c (fst (init c om od)) <= nj c * no c * nd c.
Proof.
  intros HJ HM HO W. unfold potential. set (s0 := fst (init c om od)) in *.
  assert (B : forall j, In j (zrange (nj c)) -> zsum (map (contrib s0 j) (zrange (no c))) <= no c * nd c).
  { intros j Hj. apply in_zrange in Hj.
    pose proof (zsum_bound (contrib s0 j) (zrange (no c)) (nd c)) as Q. rewrite zrange_length in Q.
    replace (Z.of_nat (Z.to_nat (no c))) with (no c) in Q by lia. apply Q.
    intros k Hk. apply in_zrange in Hk. unfold s0. rewrite init_contrib by auto. fold s0.
    destruct (real_b s0 j k) eqn:R.
    - apply real_b_spec in R. pose proof (wf_real c s0 j k W Hj Hk R). lia.
    - destruct (W j Hj) as ((k1 & Hk1 & R1) & A). destruct (A k1 Hk1 R1) as (_ & D & _). lia. }
  pose proof (zsum_bound _ (zrange (nj c)) (no c * nd c) B) as Q. rewrite zrange_length in Q.
  replace (Z.of_nat (Z.to_nat (nj c))) with (nj c) in Q by lia. lia.
Qed.

Lemma init_not_finished c om od : 0 < nj c -> 0 <= nm c -> 0 < no c -> inst_wf c (fst (init c om od)) ->
  finished_b c (omask (fst (init c om od))) (mrem (fst (init c om od))) = false.
Proof.
  intros HJ HM HO W. set (s0 := fst (init c om od)) in *.
  destruct (W 0 ltac:(lia)) as ((k & Hk & R) & _).
  unfold finished_b. apply andb_false_iff. left. unfold none_pending_b. apply forallb_zrange_false. exists 0. split; [lia|].
  apply forallb_zrange_false. exists k. split; auto. apply negb_false_iff. fold (pend s0 0 k).
  unfold s0. rewrite init_pend by lia. apply real_b_spec. exact R.
Qed.

(* C11: from reset, whatever the (in-spec) actions, the episode ends within num_jobs*max_num_ops*max_op_duration steps *)
Theorem episode_within_horizon c om od acts : 0 < nj c -> 0 <= nm c -> 0 < no c -> rows_ok od (nj c) (no c) ->
  inst_wf c (fst (init c om od)) -> Forall (in_spec c) acts ->
  Z.of_nat (length (run c (fst (init c om od)) acts)) <= nj c * no c * nd c.
Proof.
  intros HJ HM HO Hd W Sp.
  pose proof (run_length c acts _ (init_Inv c om od ltac:(lia) HM HO Hd W) Sp (init_not_finished c om od HJ HM HO W)).
  pose proof (init_potential_bound c om od ltac:(lia) HM HO W). lia.
Qed.

(* ---------------------------------------------------------------- the idle penalty is never forced *)
(* In every unfinished state reached by mask-respecting play there is a mask-respecting joint action after which not all
   machines are idle: if a machine is busy, all no-ops; otherwise every machine is free and the next operation of any
   unfinished job is schedulable on its machine.  (So "all machines idle and nothing schedulable" cannot occur; the idle
   termination only punishes a voluntary all-no-op.) *)
Theorem can_progress c s : Inv c s -> finished_b c (omask s) (mrem s) = false ->
  exists act, in_spec c act /\ valid_action c s act /\
    all_idle_b c (mjob (fst (step c s act))) (mrem (fst (step c s act))) = false.
Proof.
  intros HI F. pose proof (I_shape c s HI) as Sh. destruct Sh as (HJ & HM & HO & Sh').
  assert (Sh : shape c s) by (apply (I_shape c s HI)).
  destruct (all_free_b c (mrem s)) eqn:AF.
  - unfold finished_b in F. rewrite AF, andb_true_r in F. unfold none_pending_b in F.
    apply forallb_zrange_false in F as (j & Hj & F). apply forallb_zrange_false in F as (k & Hk & F).
    apply negb_false_iff in F. fold (pend s j k) in F.
    assert (N : is_next c s j (opid s j)) by (apply opid_is_next; eauto).
    pose proof (opid_range c s j Sh Hj) as Ho. destruct N as (_ & T & B).
    pose proof (wf_real c s j _ (I_wf c s HI) Hj Ho (I_P1 c s HI j _ Hj Ho T)) as (Mm & _).
    set (m := mach s j (opid s j)) in *.
    unfold all_free_b in AF. rewrite forallb_zrange in AF.
    assert (R0 : forall m', 0 <= m' < nm c -> rem s m' = 0) by (intros m' Hm'; specialize (AF m' Hm'); unfold rem; lia).
    exists (tab (nm c) (fun m' => if m' =? m then j else nj c)).
    assert (A : forall m', 0 <= m' < nm c -> act_at (tab (nm c) (fun m' => if m' =? m then j else nj c)) m' = if m' =? m then j else nj c).
    { intros m' Hm'. unfold act_at. apply znth_tab; auto. }
    split; [|split].
    + intros m' Hm'. rewrite A by auto. destruct (m' =? m); lia.
    + intros m' Hm'. rewrite A by auto. destruct (m' =? m) eqn:E; [right|left; auto].
      assert (m' = m) by lia. subst m'. split; auto. split; [apply R0; auto|]. split.
      * exists (opid s j). split; [split; [lia|split; auto]|reflexivity].
      * intros m'' Hm'' (_ & P). rewrite R0 in P by auto. lia.
    + unfold all_idle_b. apply forallb_zrange_false. exists m. split; auto.
      match goal with |- (znth 0 (mjob ?s') m =? _) && _ = false => fold (job s' m) end.
      rewrite step_job by auto. rewrite upd_job_job by (rewrite A by auto; rewrite Z.eqb_refl; lia).
      rewrite A by auto. rewrite Z.eqb_refl. replace (j =? nj c) with false by lia. reflexivity.
  - unfold all_free_b in AF. apply forallb_zrange_false in AF as (m & Hm & AF). fold (rem s m) in AF.
    pose proof (I_R3 c s HI m Hm) as R3. assert (P : 0 < rem s m) by lia.
    destruct (I_R4 c s HI m Hm P) as (j & k & Hj & Hk & Sc & Mj & E).
    pose proof (I_R2 c s HI j k Hj Hk Sc) as [R2|R2]; [lia|]. rewrite Mj in R2.
    exists (tab (nm c) (fun _ => nj c)).
    assert (A : forall m', 0 <= m' < nm c -> act_at (tab (nm c) (fun _ => nj c)) m' = nj c).
    { intros m' Hm'. unfold act_at. apply (znth_tab 0 (nm c) (fun _ => nj c) m'); auto. }
    split; [|split].
    + intros m' Hm'. rewrite A by auto. lia.
    + intros m' Hm'. left. auto.
    + unfold all_idle_b. apply forallb_zrange_false. exists m. split; auto.
      match goal with |- (znth 0 (mjob ?s') m =? _) && _ = false => fold (job s' m) end.
      rewrite step_job by auto. rewrite upd_job_noop by auto.
      replace (rem s m =? 0) with false by lia. rewrite R2. replace (j =? nj c) with false by lia. reflexivity.
Qed.
