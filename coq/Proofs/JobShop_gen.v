(* JobShop generators (C10): RandomGenerator over explicit draws, ToyGenerator literal; meaning of the boolean checkers. *)
Require Import JV.Base.Prelude JV.Base.JaxIndex JV.Base.Codec JV.Base.TimeStep JV.Proofs.TimeStep_laws.
Require Import JV.Model.JobShop JV.Proofs.JobShop_lib JV.Proofs.JobShop_step JV.Proofs.JobShop_sched JV.Proofs.JobShop_episode.

(* the boolean well-formedness checker (run on implementation instances) means [inst_wf] *)
Theorem inst_wf_b_spec c s : inst_wf_b c s = true -> inst_wf c s.
Proof.
  unfold inst_wf_b, inst_wf. rewrite forallb_zrange. intros H j Hj. specialize (H j Hj).
  apply andb_true_iff in H as (E & A). apply existsb_zrange in E as (k0 & Hk0 & R0). split.
  - exists k0. split; auto. apply real_b_spec; auto.
  - rewrite forallb_zrange in A. intros k Hk R. specialize (A k Hk). apply real_b_spec in R. rewrite R in A. cbn [negb orb] in A.
    rewrite !andb_true_iff, forallb_zrange in A. destruct A as ((((A1 & A2) & A3) & A4) & A5).
    split; [lia|]. split; [lia|]. intros k' Hk'. apply real_b_spec. apply A5; auto.
Qed.

Section Gen.
Variables (c : cfg) (dm dd : list (list Z)) (nops : list Z).
Hypothesis HJ : 0 <= nj c.
Hypothesis HM : 0 <= nm c.
Hypothesis HO : 0 < no c.
Hypothesis VD : valid_draw_b c dm dd nops = true.
Let om := fst (gen c dm dd nops).
Let od := snd (gen c dm dd nops).
Let s0 := fst (init c om od).

Lemma draw_facts j : 0 <= j < nj c -> 1 <= znth 0 nops j <= no c /\
  forall k, 0 <= k < no c -> 0 <= gat 0 dm j k < nm c /\ 1 <= gat 0 dd j k <= nd c.
Proof.
  intro Hj. unfold valid_draw_b in VD. rewrite forallb_zrange in VD. specialize (VD j Hj).
  rewrite !andb_true_iff, forallb_zrange in VD. destruct VD as ((A & B) & F). split; [lia|].
  intros k Hk. specialize (F k Hk). lia.
Qed.

Lemma gen_mach j k : 0 <= j < nj c -> 0 <= k < no c -> mach s0 j k = if k <? znth 0 nops j then gat 0 dm j k else -1.
Proof. intros. unfold s0, init, mach, om, gen. cbn [fst omach]. rewrite gat_tab2 by lia. reflexivity. Qed.
Lemma gen_dur j k : 0 <= j < nj c -> 0 <= k < no c -> dur s0 j k = if k <? znth 0 nops j then gat 0 dd j k else -1.
Proof. intros. unfold s0, init, dur, od, gen. cbn [fst snd odur]. rewrite gat_tab2 by lia. reflexivity. Qed.

Lemma gen_real j k : 0 <= j < nj c -> 0 <= k < no c -> (real s0 j k <-> k < znth 0 nops j).
Proof.
  intros Hj Hk. unfold real. rewrite gen_mach by auto. pose proof (draw_facts j Hj) as (_ & F). specialize (F k Hk).
  destruct (k <? znth 0 nops j) eqn:E; split; intro; lia.
Qed.

(* machine ids and durations in the declared ranges, a non-empty prefix of real operations per job *)
Theorem gen_inst_wf : inst_wf c s0.
Proof.
  intros j Hj. pose proof (draw_facts j Hj) as (N & F). split.
  - exists 0. split; [lia|]. apply gen_real; auto; lia.
  - intros k Hk R. apply gen_real in R; auto. rewrite gen_mach, gen_dur by auto.
    destruct (k <? znth 0 nops j) eqn:E; [|lia]. specialize (F k Hk). split; [lia|]. split; [lia|].
    intros k' Hk'. apply gen_real; auto; lia.
Qed.

(* ops_mask is prefix-closed: operation k of job j is pending at reset iff k < num_ops(j); padding is -1 in both arrays *)
Theorem gen_ops_mask j k : 0 <= j < nj c -> 0 <= k < no c -> pend s0 j k = (k <? znth 0 nops j).
Proof.
  intros Hj Hk. unfold s0. rewrite init_pend by auto. fold s0. unfold real_b. rewrite gen_mach by auto.
  pose proof (draw_facts j Hj) as (_ & F). specialize (F k Hk). destruct (k <? znth 0 nops j) eqn:E; lia.
Qed.
Theorem gen_padding j k : 0 <= j < nj c -> 0 <= k < no c -> znth 0 nops j <= k -> mach s0 j k = -1 /\ dur s0 j k = -1.
Proof. intros Hj Hk L. rewrite gen_mach, gen_dur by auto. destruct (k <? znth 0 nops j) eqn:E; [lia|auto]. Qed.

Lemma gen_rows : rows_ok od (nj c) (no c).
Proof. unfold od, gen. cbn [snd]. apply rows_ok_tab2; lia. Qed.

(* so reset on a generated instance establishes the clock invariant *)
Theorem gen_init_Inv : Inv c s0.
Proof. apply init_Inv; auto. apply gen_rows. apply gen_inst_wf. Qed.
End Gen.

(* ToyGenerator: the literal instance is well-formed for its declared sizes (5 jobs, 4 machines, 4 ops, duration <= 4) *)
Theorem toy_inst_wf : inst_wf toy_cfg (fst (init toy_cfg toy_mach toy_dur)).
Proof. apply inst_wf_b_spec. vm_compute. reflexivity. Qed.
Theorem toy_init_Inv : Inv toy_cfg (fst (init toy_cfg toy_mach toy_dur)).
Proof.
  apply init_Inv; try (cbn; lia). 2: apply toy_inst_wf.
  split; [reflexivity|]. intros i Hi. cbn in Hi.
  assert (i = 0 \/ i = 1 \/ i = 2 \/ i = 3 \/ i = 4) as [->|[->|[->|[->| ->]]]] by lia; reflexivity.
Qed.

(* the boolean feasibility checker run on implementation states means [Feasible]; likewise [Complete_b] *)
Theorem Feasible_b_spec c s : Feasible_b c s = true -> Feasible c s.
Proof.
  intro H. unfold Feasible_b in H. rewrite forallb_pairs in H.
  assert (HA : forall j k, 0 <= j < nj c -> 0 <= k < no c ->
     (if scheduled_b s j k then (0 <=? sch s j k) && (sch s j k <? clock s) && forallb (scheduled_b s j) (zrange k)
      else sch s j k =? -1) = true).
  { intros j k Hj Hk. specialize (H j k Hj Hk). cbn beta iota in H. apply andb_true_iff in H as (A & _). exact A. }
  assert (HB : forall j k j' k', 0 <= j < nj c -> 0 <= k < no c -> 0 <= j' < nj c -> 0 <= k' < no c ->
     scheduled s j k -> scheduled s j' k' ->
     (if (j =? j') && (k <? k') then fin s j k <=? sch s j' k' else true) = true /\
     (if negb ((j =? j') && (k =? k')) && (mach s j k =? mach s j' k')
      then (fin s j k <=? sch s j' k') || (fin s j' k' <=? sch s j k) else true) = true).
  { intros j k j' k' Hj Hk Hj' Hk' S1 S2. specialize (H j k Hj Hk). cbn beta iota in H. apply andb_true_iff in H as (_ & B).
    rewrite forallb_pairs in B. specialize (B j' k' Hj' Hk'). cbn beta iota in B.
    apply scheduled_b_spec in S1. apply scheduled_b_spec in S2. rewrite S1, S2 in B. cbn [andb negb orb] in B.
    apply andb_true_iff in B. exact B. }
  clear H. unfold Feasible. split; [|split; [|split]].
  - intros j k k' Hj Hk Hk' Sc. specialize (HA j k' Hj ltac:(lia)). apply scheduled_b_spec in Sc. rewrite Sc in HA.
    rewrite !andb_true_iff, forallb_zrange in HA. destruct HA as (_ & F). apply scheduled_b_spec. apply F. lia.
  - intros j k k' Hj Hk Hk' S1 S2. destruct (HB j k j k' Hj ltac:(lia) Hj ltac:(lia) S1 S2) as (B1 & _).
    rewrite Z.eqb_refl in B1. cbn [andb] in B1. destruct (k <? k') eqn:E; lia.
  - intros j k j' k' Hj Hk Hj' Hk' Ne S1 S2 Mm. destruct (HB j k j' k' Hj Hk Hj' Hk' S1 S2) as (_ & B2).
    assert (X : (j =? j') && (k =? k') = false).
    { destruct (j =? j') eqn:E1; auto. destruct (k =? k') eqn:E2; auto. exfalso. apply Ne. f_equal; lia. }
    rewrite X in B2. cbn [negb andb] in B2. rewrite (proj2 (Z.eqb_eq _ _) Mm) in B2. lia.
  - intros j k Hj Hk. specialize (HA j k Hj Hk). split.
    + intro Sc. apply scheduled_b_spec in Sc. rewrite Sc in HA. rewrite !andb_true_iff in HA. lia.
    + intro Ns. apply scheduled_b_false in Ns. rewrite Ns in HA. lia.
Qed.

Theorem Complete_b_spec c s : Complete_b c s = true -> Complete c s.
Proof.
  unfold Complete_b, Complete. rewrite forallb_pairs. intros H j k Hj Hk R. specialize (H j k Hj Hk). cbn beta iota in H.
  apply real_b_spec in R. rewrite R in H. cbn [negb orb] in H. apply scheduled_b_spec. exact H.
Qed.
