(* List / index lemmas used by the JobShop proofs: tabulated arrays, bounded quantifiers over [zrange], first-true index. *)
Require Import JV.Base.Prelude JV.Base.JaxIndex JV.Base.Codec JV.Base.TimeStep JV.Model.JobShop.

Lemma zrange_length n : length (zrange n) = Z.to_nat n.
Proof. unfold zrange. apply zrange_from_length. Qed.

Lemma znth_zrange n i : 0 <= i < n -> znth 0 (zrange n) i = i.
Proof.
  intro H. unfold znth. destruct (i <? 0) eqn:E; [lia|]. unfold zrange.
  rewrite zrange_from_nth by lia. lia.
Qed.

Lemma zlen_tab {A} n (f : Z -> A) : 0 <= n -> zlen (tab n f) = n.
Proof. intro H. unfold zlen, tab. rewrite map_length, zrange_length. lia. Qed.

Lemma length_tab {A} n (f : Z -> A) : length (tab n f) = Z.to_nat n.
Proof. unfold tab. rewrite map_length, zrange_length. reflexivity. Qed.

Lemma znth_tab {A} (d : A) n f i : 0 <= i < n -> znth d (tab n f) i = f i.
Proof.
  intro H. unfold znth, tab. destruct (i <? 0) eqn:E; [lia|].
  rewrite nth_indep with (d' := f 0) by (rewrite map_length, zrange_length; lia).
  rewrite map_nth. f_equal. unfold zrange. rewrite zrange_from_nth by lia. lia.
Qed.

Lemma znth_oob {A} (d : A) l i : i < 0 \/ zlen l <= i -> znth d l i = d.
Proof.
  intros H. unfold znth. destruct (i <? 0) eqn:E; auto.
  apply nth_overflow. unfold zlen in H. lia.
Qed.

Lemma gat_tab2 {A} (d : A) r c f i j : 0 <= i < r -> 0 <= j < c -> gat d (tab2 r c f) i j = f i j.
Proof. intros Hi Hj. unfold gat, tab2. rewrite znth_tab by lia. apply znth_tab; lia. Qed.

Lemma znth_app_l {A} (d : A) a b i : 0 <= i < zlen a -> znth d (a ++ b) i = znth d a i.
Proof.
  intro H. unfold znth. destruct (i <? 0) eqn:E; [lia|]. apply app_nth1. unfold zlen in H. lia.
Qed.

Lemma znth_app_at {A} (d : A) a x : znth d (a ++ [x]) (zlen a) = x.
Proof.
  unfold znth. pose proof (zlen_nonneg a). destruct (zlen a <? 0) eqn:E; [lia|].
  rewrite app_nth2 by (unfold zlen; lia). unfold zlen. rewrite Nat2Z.id, Nat.sub_diag. reflexivity.
Qed.

(* bounded quantifiers *)
Lemma forallb_zrange n f : forallb f (zrange n) = true <-> forall i, 0 <= i < n -> f i = true.
Proof. rewrite forallb_forall. split; intros H i Hi; apply H; apply in_zrange; auto. Qed.

Lemma existsb_zrange n f : existsb f (zrange n) = true <-> exists i, 0 <= i < n /\ f i = true.
Proof.
  rewrite existsb_exists. split; intros (i & Hi & E); exists i; split; auto; apply in_zrange; auto.
Qed.

Lemma forallb_zrange_false n f : forallb f (zrange n) = false <-> exists i, 0 <= i < n /\ f i = false.
Proof.
  split.
  - intro H. destruct (existsb (fun i => negb (f i)) (zrange n)) eqn:E.
    + apply existsb_zrange in E as (i & Hi & E). exists i. split; auto. destruct (f i); auto; discriminate.
    + exfalso. assert (forallb f (zrange n) = true); [|congruence].
      apply forallb_zrange. intros i Hi. destruct (f i) eqn:F; auto.
      assert (existsb (fun i => negb (f i)) (zrange n) = true); [|congruence].
      apply existsb_zrange. exists i. rewrite F. auto.
  - intros (i & Hi & E). destruct (forallb f (zrange n)) eqn:F; auto.
    rewrite forallb_zrange in F. rewrite F in E; auto.
Qed.

Lemma existsb_zrange_false n f : existsb f (zrange n) = false <-> forall i, 0 <= i < n -> f i = false.
Proof.
  split.
  - intros H i Hi. destruct (f i) eqn:F; auto.
    assert (existsb f (zrange n) = true); [|congruence]. apply existsb_zrange. eauto.
  - intro H. destruct (existsb f (zrange n)) eqn:E; auto.
    apply existsb_zrange in E as (i & Hi & E). rewrite H in E; auto.
Qed.

(* pairs *)
Lemma in_pairs c j k : In (j, k) (pairs c) <-> 0 <= j < nj c /\ 0 <= k < no c.
Proof.
  unfold pairs. rewrite in_flat_map. split.
  - intros (j' & Hj & Hin). apply in_map_iff in Hin as (k' & E & Hk). inversion E; subst.
    apply in_zrange in Hj. apply in_zrange in Hk. auto.
  - intros (Hj & Hk). exists j. split; [apply in_zrange; auto|]. apply in_map_iff. exists k. split; auto. apply in_zrange; auto.
Qed.

Lemma forallb_pairs c f : forallb f (pairs c) = true <-> forall j k, 0 <= j < nj c -> 0 <= k < no c -> f (j, k) = true.
Proof.
  rewrite forallb_forall. split.
  - intros H j k Hj Hk. apply H. apply in_pairs. auto.
  - intros H [j k] Hin. apply in_pairs in Hin as (Hj & Hk). auto.
Qed.

(* first True *)
Lemma ftrue_range l : 0 <= ftrue l <= zlen l.
Proof.
  induction l as [|b t IH]; cbn [ftrue]; [unfold zlen; cbn; lia|].
  rewrite zlen_cons. destruct b; lia.
Qed.

Lemma znth_cons_succ {A} (d : A) x l i : 0 <= i -> znth d (x :: l) (1 + i) = znth d l i.
Proof.
  intro H. unfold znth. destruct (1 + i <? 0) eqn:E; [lia|]. destruct (i <? 0) eqn:E2; [lia|].
  replace (Z.to_nat (1 + i)) with (S (Z.to_nat i)) by lia. reflexivity.
Qed.

Lemma ftrue_before l k : 0 <= k < ftrue l -> znth false l k = false.
Proof.
  revert k. induction l as [|b t IH]; intros k H; cbn [ftrue] in H; [lia|].
  destruct b; [lia|].
  destruct (Z.eq_dec k 0) as [->|N]; [reflexivity|].
  replace k with (1 + (k - 1)) by lia. rewrite znth_cons_succ by lia. apply IH. lia.
Qed.

Lemma ftrue_at l : ftrue l < zlen l -> znth false l (ftrue l) = true.
Proof.
  induction l as [|b t IH]; cbn [ftrue]; [unfold zlen; cbn; lia|].
  rewrite zlen_cons. destruct b; [reflexivity|]. intro H.
  pose proof (ftrue_range t). rewrite znth_cons_succ by lia. apply IH. lia.
Qed.

Lemma ftrue_le l k : 0 <= k -> znth false l k = true -> ftrue l <= k.
Proof.
  intros Hk E. destruct (Z_lt_le_dec k (ftrue l)) as [L|L]; [|lia].
  rewrite ftrue_before in E by lia. discriminate.
Qed.

Lemma forallb_negb_false l : forallb negb l = false <-> ftrue l < zlen l.
Proof.
  induction l as [|b t IH]; cbn [forallb ftrue].
  - unfold zlen; cbn. split; [discriminate|lia].
  - rewrite zlen_cons. pose proof (ftrue_range t). destruct b; cbn [negb andb]; [split; auto; lia|].
    rewrite IH. lia.
Qed.

(* the next operation of a row that still has a pending entry *)
Lemma next_op_spec row : forallb negb row = false ->
  0 <= next_op row < zlen row /\ znth false row (next_op row) = true /\
  forall k, 0 <= k < next_op row -> znth false row k = false.
Proof.
  intro H. apply forallb_negb_false in H. unfold next_op.
  pose proof (ftrue_range row).
  destruct (ftrue row <? zlen row) eqn:E; [|lia].
  split; [lia|]. split; [apply ftrue_at; auto|]. intros k Hk. apply ftrue_before; auto.
Qed.

Lemma next_op_range row : 0 < zlen row -> 0 <= next_op row < zlen row.
Proof.
  intro H. unfold next_op. pose proof (ftrue_range row). destruct (ftrue row <? zlen row) eqn:E; lia.
Qed.

Lemma forallb_negb_true_iff row : forallb negb row = true <-> forall k, 0 <= k < zlen row -> znth false row k = false.
Proof.
  split.
  - intros H k Hk. rewrite forallb_forall in H. unfold znth. destruct (k <? 0) eqn:E; [lia|].
    assert (In (nth (Z.to_nat k) row false) row) by (apply nth_In; unfold zlen in Hk; lia).
    apply H in H0. destruct (nth (Z.to_nat k) row false); auto; discriminate.
  - intro H. destruct (forallb negb row) eqn:E; auto. apply next_op_spec in E as (R & T & _).
    rewrite H in T by lia. discriminate.
Qed.
