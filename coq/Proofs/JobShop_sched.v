(* JobShop: the clock invariant (DESIGN A.3) and its preservation by every mask-respecting step (C06). *)
Require Import JV.Base.Prelude JV.Base.JaxIndex JV.Base.Codec JV.Base.TimeStep JV.Model.JobShop.
Require Import JV.Proofs.JobShop_lib JV.Proofs.JobShop_step.

Record Inv (c : cfg) (s : state) : Prop := mkInv {
  I_shape : shape c s;
  I_fresh : mask_fresh c s;
  I_wf : inst_wf c s;
  I_t : 0 <= clock s;
  (* pending operations are real ones, and form a suffix of the job *)
  I_P1 : forall j k, 0 <= j < nj c -> 0 <= k < no c -> pend s j k = true -> real s j k;
  I_P2 : forall j k k', 0 <= j < nj c -> 0 <= k < k' -> k' < no c -> pend s j k = true -> real s j k' -> pend s j k' = true;
  (* start times *)
  I_S1 : forall j k, 0 <= j < nj c -> 0 <= k < no c ->
           (scheduled s j k -> 0 <= sch s j k < clock s) /\ (~ scheduled s j k -> sch s j k = -1);
  I_S2 : forall j k k', 0 <= j < nj c -> 0 <= k < k' -> k' < no c -> scheduled s j k -> scheduled s j k' -> fin s j k <= sch s j k';
  I_S3 : forall j k j' k', 0 <= j < nj c -> 0 <= k < no c -> 0 <= j' < nj c -> 0 <= k' < no c -> (j, k) <> (j', k') ->
           scheduled s j k -> scheduled s j' k' -> mach s j k = mach s j' k' ->
           fin s j k <= sch s j' k' \/ fin s j' k' <= sch s j k;
  (* the clock: an operation still running at time [clock] is the one its machine holds, for exactly [rem] more steps *)
  I_R1 : forall j k, 0 <= j < nj c -> 0 <= k < no c -> scheduled s j k -> fin s j k <= clock s + rem s (mach s j k);
  I_R2 : forall j k, 0 <= j < nj c -> 0 <= k < no c -> scheduled s j k -> fin s j k <= clock s \/ job s (mach s j k) = j;
  I_R3 : forall m, 0 <= m < nm c -> 0 <= rem s m;
  I_R4 : forall m, 0 <= m < nm c -> 0 < rem s m ->
           exists j k, 0 <= j < nj c /\ 0 <= k < no c /\ scheduled s j k /\ mach s j k = m /\ fin s j k = clock s + rem s m }.

Lemma wf_real c s j k : inst_wf c s -> 0 <= j < nj c -> 0 <= k < no c -> real s j k ->
  0 <= mach s j k < nm c /\ 1 <= dur s j k <= nd c.
Proof. intros W Hj Hk R. destruct (W j Hj) as (_ & A). destruct (A k Hk R) as (X & Y & _). auto. Qed.

Lemma wf_prefix c s j k k' : inst_wf c s -> 0 <= j < nj c -> 0 <= k' < k -> k < no c -> real s j k -> real s j k'.
Proof. intros W Hj Hk' Hk R. destruct (W j Hj) as (_ & A). destruct (A k ltac:(lia) R) as (_ & _ & P). apply P; lia. Qed.

Lemma real_b_spec s j k : real_b s j k = true <-> real s j k.
Proof. unfold real_b, real. rewrite negb_true_iff, Z.eqb_neq. tauto. Qed.
Lemma scheduled_b_spec s j k : scheduled_b s j k = true <-> scheduled s j k.
Proof. unfold scheduled_b, scheduled. rewrite andb_true_iff, negb_true_iff, real_b_spec. tauto. Qed.
Lemma scheduled_b_false s j k : scheduled_b s j k = false <-> ~ scheduled s j k.
Proof. rewrite <- scheduled_b_spec. destruct (scheduled_b s j k); split; intro H; try congruence; try discriminate; try (exfalso; apply H; reflexivity). Qed.

Section Preserve.
Variables (c : cfg) (s : state) (act : list Z).
Hypothesis HI : Inv c s.
Hypothesis Sp : in_spec c act.
Hypothesis V : valid_action c s act.
Let s' := fst (step c s act).
Let Sh : shape c s := I_shape c s HI.

Lemma new_facts j k : 0 <= j < nj c -> 0 <= k < no c -> isnew c s act j k = true ->
  k = opid s j /\ pend s j k = true /\ real s j k /\ 0 <= mach s j k < nm c /\ act_at act (mach s j k) = j
  /\ rem s (mach s j k) = 0 /\ (forall m', 0 <= m' < nm c -> ~ (job s m' = j /\ 0 < rem s m'))
  /\ (forall k0, 0 <= k0 < k -> pend s j k0 = false) /\ 1 <= dur s j k.
Proof.
  intros Hj Hk E. unfold isnew in E. apply andb_true_iff in E as (N & K). apply Z.eqb_eq in K.
  apply newb_spec in N as (m & Hm & Am).
  destruct (V m Hm) as [E|(R & L)]; [lia|]. rewrite Am in L. destruct L as (R0 & (k1 & N1 & M1) & B).
  pose proof (is_next_unique c s j k1 Sh Hj N1) as U. subst k1. rewrite <- K in N1, M1.
  destruct N1 as (_ & T & Bf).
  assert (Rl : real s j k) by (apply (I_P1 c s HI); auto).
  pose proof (wf_real c s j k (I_wf c s HI) Hj Hk Rl) as (_ & D & _).
  rewrite M1. repeat split; auto; lia.
Qed.

Lemma job_new m : 0 <= m < nm c -> 0 <= act_at act m < nj c ->
  isnew c s act (act_at act m) (opid s (act_at act m)) = true /\ mach s (act_at act m) (opid s (act_at act m)) = m /\ rem s m = 0.
Proof.
  intros Hm Ha. destruct (V m Hm) as [E|(R & R0 & (k1 & N1 & M1) & B)]; [lia|].
  pose proof (is_next_unique c s _ k1 Sh R N1) as U. subst k1. split; [|auto].
  unfold isnew. rewrite Z.eqb_refl, andb_true_r. apply newb_spec. exists m; auto.
Qed.

Lemma fin_step j k : fin s' j k = sch s' j k + dur s j k.
Proof. reflexivity. Qed.

Lemma sched'_cases j k : 0 <= j < nj c -> 0 <= k < no c -> scheduled s' j k ->
  (scheduled s j k /\ isnew c s act j k = false /\ sch s' j k = sch s j k) \/ (isnew c s act j k = true /\ sch s' j k = clock s).
Proof.
  intros Hj Hk (R & P). unfold s' in *. rewrite step_pend in P by auto. rewrite step_sch by auto.
  destruct (isnew c s act j k) eqn:E.
  - right; auto.
  - left. rewrite andb_true_r in P. split; [split; auto|auto].
Qed.

Lemma sched'_old j k : 0 <= j < nj c -> 0 <= k < no c -> scheduled s j k ->
  scheduled s' j k /\ sch s' j k = sch s j k /\ isnew c s act j k = false.
Proof.
  intros Hj Hk (R & P). destruct (isnew c s act j k) eqn:E.
  - apply new_facts in E; auto. destruct E as (_ & T & _). congruence.
  - unfold s'. rewrite step_sch, E by auto. split; [|auto]. split; [exact R|].
    rewrite step_pend by auto. rewrite P. reflexivity.
Qed.

Lemma sched'_new j k : 0 <= j < nj c -> 0 <= k < no c -> isnew c s act j k = true ->
  scheduled s' j k /\ sch s' j k = clock s.
Proof.
  intros Hj Hk E. pose proof (new_facts j k Hj Hk E) as (_ & _ & R & _).
  unfold s'. rewrite step_sch, E by auto. split; [|auto]. split; [exact R|].
  rewrite step_pend by auto. rewrite E. apply andb_false_r.
Qed.

Lemma mach_cases m : 0 <= m < nm c ->
  (act_at act m = nj c /\ rem s' m = Z.max (rem s m - 1) 0 /\ job s' m = (if rem s m =? 0 then nj c else job s m)) \/
  (0 <= act_at act m < nj c /\ rem s m = 0 /\ rem s' m = Z.max (dur s (act_at act m) (opid s (act_at act m)) - 1) 0
   /\ job s' m = act_at act m /\ isnew c s act (act_at act m) (opid s (act_at act m)) = true
   /\ mach s (act_at act m) (opid s (act_at act m)) = m).
Proof.
  intro Hm. unfold s'. rewrite step_rem, step_job by auto. pose proof (Sp m Hm) as S1.
  destruct (Z.eq_dec (act_at act m) (nj c)) as [E|N].
  - left. rewrite upd_rem_noop, upd_job_noop by auto. auto.
  - right. assert (Ha : 0 <= act_at act m < nj c) by lia.
    pose proof (job_new m Hm Ha) as (A & B & C).
    rewrite upd_rem_job, upd_job_job by auto. repeat split; auto; lia.
Qed.

Lemma rem'_nonneg m : 0 <= m < nm c -> 0 <= rem s' m.
Proof. intro Hm. destruct (mach_cases m Hm) as [(_ & R & _)|(_ & _ & R & _)]; rewrite R; lia. Qed.

Lemma old_ended_if_job_free j k : 0 <= j < nj c -> 0 <= k < no c -> scheduled s j k ->
  (forall m', 0 <= m' < nm c -> ~ (job s m' = j /\ 0 < rem s m')) -> fin s j k <= clock s.
Proof.
  intros Hj Hk Sc B. pose proof (I_R1 c s HI j k Hj Hk Sc) as R1. pose proof (I_R2 c s HI j k Hj Hk Sc) as [R2|R2]; auto.
  destruct Sc as (Rl & _). pose proof (wf_real c s j k (I_wf c s HI) Hj Hk Rl) as (Mm & _).
  pose proof (I_R3 c s HI _ Mm). specialize (B _ Mm). lia.
Qed.

Theorem step_preserves_Inv : Inv c s'.
Proof.
  pose proof (I_wf c s HI) as W.
  constructor.
  - apply step_shape; auto.
  - apply step_mask_fresh.
  - exact W.
  - change (clock s') with (clock s + 1). pose proof (I_t c s HI). lia.
  - (* P1 *) intros j k Hj Hk P. unfold s' in P. rewrite step_pend in P by auto. apply andb_true_iff in P as (P & _).
    exact (I_P1 c s HI j k Hj Hk P).
  - (* P2 *) intros j k k' Hj Hk Hk' P R. unfold s' in *. rewrite step_pend in * by (auto; lia).
    apply andb_true_iff in P as (P & Nn). rewrite (I_P2 c s HI j k k' Hj Hk Hk' P R). cbn [andb].
    destruct (isnew c s act j k') eqn:E; auto.
    apply new_facts in E; auto; [|lia]. destruct E as (_ & _ & _ & _ & _ & _ & _ & Bf & _). rewrite Bf in P by lia. discriminate.
  - (* S1 *) intros j k Hj Hk. split.
    + intro Sc. change (clock s') with (clock s + 1). pose proof (I_t c s HI).
      destruct (sched'_cases j k Hj Hk Sc) as [(So & _ & E)|(_ & E)]; rewrite E; [|lia].
      pose proof (proj1 (I_S1 c s HI j k Hj Hk) So). lia.
    + intro Ns. destruct (isnew c s act j k) eqn:E.
      * exfalso. apply Ns. apply sched'_new; auto.
      * unfold s'. rewrite step_sch, E by auto. apply (I_S1 c s HI j k Hj Hk). intro So. apply Ns. apply sched'_old; auto.
  - (* S2 *) intros j k k' Hj Hk Hk' Sc Sc'. rewrite fin_step.
    destruct (sched'_cases j k Hj ltac:(lia) Sc) as [(So & _ & E)|(Nw & E)];
    destruct (sched'_cases j k' Hj ltac:(lia) Sc') as [(So' & _ & E')|(Nw' & E')]; rewrite E, E'.
    + apply (I_S2 c s HI j k k'); auto.
    + apply new_facts in Nw'; auto; [|lia]. destruct Nw' as (_ & _ & _ & _ & _ & _ & B & _).
      apply old_ended_if_job_free; auto. lia.
    + apply new_facts in Nw; auto; [|lia]. destruct Nw as (_ & P & _). destruct So' as (Rl' & P').
      rewrite (I_P2 c s HI j k k' Hj Hk Hk' P Rl') in P'. discriminate.
    + apply new_facts in Nw; auto; [|lia]. apply new_facts in Nw'; auto; [|lia]. lia.
  - (* S3 *) intros j k j' k' Hj Hk Hj' Hk' Ne Sc Sc' Mm. rewrite !fin_step.
    change (mach s j k = mach s j' k') in Mm.
    destruct (sched'_cases j k Hj Hk Sc) as [(So & _ & E)|(Nw & E)];
    destruct (sched'_cases j' k' Hj' Hk' Sc') as [(So' & _ & E')|(Nw' & E')]; rewrite E, E'.
    + apply (I_S3 c s HI j k j' k'); auto.
    + left. apply new_facts in Nw'; auto. destruct Nw' as (_ & _ & _ & _ & _ & R0 & _).
      pose proof (I_R1 c s HI j k Hj Hk So) as R1. rewrite Mm, R0 in R1. unfold fin in R1. lia.
    + right. apply new_facts in Nw; auto. destruct Nw as (_ & _ & _ & _ & _ & R0 & _).
      pose proof (I_R1 c s HI j' k' Hj' Hk' So') as R1. rewrite <- Mm, R0 in R1. unfold fin in R1. lia.
    + exfalso. apply new_facts in Nw; auto. apply new_facts in Nw'; auto.
      destruct Nw as (K & _ & _ & _ & A & _). destruct Nw' as (K' & _ & _ & _ & A' & _).
      rewrite Mm in A. assert (j = j') by congruence. subst j'. apply Ne. congruence.
  - (* R1 *) intros j k Hj Hk Sc. rewrite fin_step. change (mach s' j k) with (mach s j k).
    change (clock s') with (clock s + 1).
    destruct (sched'_cases j k Hj Hk Sc) as [(So & _ & E)|(Nw & E)]; rewrite E.
    + pose proof (I_R1 c s HI j k Hj Hk So) as R1. unfold fin in R1.
      destruct So as (Rl & _). pose proof (wf_real c s j k W Hj Hk Rl) as (Mm & _).
      destruct (mach_cases _ Mm) as [(_ & R & _)|(_ & R0 & R & _)]; rewrite R; lia.
    + apply new_facts in Nw; auto. destruct Nw as (K & _ & _ & Mm & A & _).
      destruct (mach_cases _ Mm) as [(A' & _)|(_ & _ & R & _)]; [lia|]. rewrite R, A, <- K. lia.
  - (* R2 *) intros j k Hj Hk Sc. rewrite fin_step. change (mach s' j k) with (mach s j k).
    change (clock s') with (clock s + 1).
    destruct (sched'_cases j k Hj Hk Sc) as [(So & _ & E)|(Nw & E)]; rewrite E.
    + pose proof (I_R1 c s HI j k Hj Hk So) as R1. pose proof (I_R2 c s HI j k Hj Hk So) as R2. unfold fin in R1, R2.
      destruct So as (Rl & _). pose proof (wf_real c s j k W Hj Hk Rl) as (Mm & _).
      destruct (Z_le_gt_dec (sch s j k + dur s j k) (clock s + 1)) as [L|G]; [left; auto|right].
      destruct (mach_cases _ Mm) as [(_ & _ & Jb)|(_ & R0 & _)]; [|lia].
      rewrite Jb. destruct (rem s (mach s j k) =? 0) eqn:Z0; lia.
    + right. apply new_facts in Nw; auto. destruct Nw as (K & _ & _ & Mm & A & _).
      destruct (mach_cases _ Mm) as [(A' & _)|(_ & _ & _ & Jb & _)]; [lia|]. congruence.
  - (* R3 *) apply rem'_nonneg.
  - (* R4 *) intros m Hm Pos. change (clock s') with (clock s + 1).
    destruct (mach_cases m Hm) as [(_ & R & _)|(Ha & R0 & R & _ & Nw & Mm)].
    + assert (P0 : 0 < rem s m) by lia.
      destruct (I_R4 c s HI m Hm P0) as (j & k & Hj & Hk & So & Mj & F).
      exists j, k. pose proof (sched'_old j k Hj Hk So) as (Sc & E & _).
      split; [lia|]. split; [lia|]. split; [exact Sc|]. split; [exact Mj|]. rewrite fin_step, E. unfold fin in F. lia.
    + pose proof (opid_range c s _ Sh Ha) as Ho.
      exists (act_at act m), (opid s (act_at act m)).
      pose proof (sched'_new _ _ Ha Ho Nw) as (Sc & E).
      split; [lia|]. split; [lia|]. split; [exact Sc|]. split; [exact Mm|]. rewrite fin_step, E. lia.
Qed.

(* the state after a valid step is "not all idle" exactly when some operation was started or was still running:
   then an operation ends at or after the new clock value *)
Lemma not_idle_witness : all_idle_b c (mjob s') (mrem s') = false ->
  exists j k, 0 <= j < nj c /\ 0 <= k < no c /\ scheduled s' j k /\ clock s' <= fin s' j k.
Proof.
  intro NI. unfold all_idle_b in NI. apply forallb_zrange_false in NI as (m & Hm & E).
  fold (job s' m) in E. fold (rem s' m) in E. change (clock s') with (clock s + 1).
  destruct (mach_cases m Hm) as [(_ & R & Jb)|(Ha & R0 & R & Jb & Nw & Mm)].
  - assert (P0 : 0 < rem s m).
    { pose proof (I_R3 c s HI m Hm). destruct (rem s m =? 0) eqn:Z0; [|lia]. rewrite Jb, R in E. lia. }
    destruct (I_R4 c s HI m Hm P0) as (j & k & Hj & Hk & So & Mj & F).
    exists j, k. pose proof (sched'_old j k Hj Hk So) as (Sc & E' & _).
    split; [lia|]. split; [lia|]. split; [exact Sc|]. rewrite fin_step, E'. unfold fin in F. lia.
  - pose proof (opid_range c s _ Sh Ha) as Ho.
    exists (act_at act m), (opid s (act_at act m)).
    pose proof (sched'_new _ _ Ha Ho Nw) as (Sc & E').
    pose proof (new_facts _ _ Ha Ho Nw) as (_ & _ & _ & _ & _ & _ & _ & _ & D).
    split; [lia|]. split; [lia|]. split; [exact Sc|]. rewrite fin_step, E'. lia.
Qed.
(* C11: the work not yet done never grows, and drops for the operation found above *)
Lemma contrib_step_le j k : 0 <= j < nj c -> 0 <= k < no c -> contrib s' j k <= contrib s j k.
Proof.
  intros Hj Hk. unfold contrib. rewrite fin_step. change (dur s' j k) with (dur s j k). change (clock s') with (clock s + 1).
  unfold s' at 1. rewrite step_pend by auto. destruct (pend s j k) eqn:P; cbn [andb].
  - destruct (isnew c s act j k) eqn:E; cbn [negb]; [|lia].
    pose proof (sched'_new j k Hj Hk E) as (Sc & E'). apply scheduled_b_spec in Sc. rewrite Sc, E'.
    pose proof (new_facts j k Hj Hk E) as (_ & _ & _ & _ & _ & _ & _ & _ & D). lia.
  - destruct (scheduled_b s j k) eqn:B.
    + apply scheduled_b_spec in B. pose proof (sched'_old j k Hj Hk B) as (Sc & E' & _).
      apply scheduled_b_spec in Sc. rewrite Sc, E'. unfold fin. lia.
    + destruct (scheduled_b s' j k) eqn:B'; [|lia]. exfalso.
      apply scheduled_b_spec in B'. apply scheduled_b_false in B.
      destruct (sched'_cases j k Hj Hk B') as [(So & _)|(Nw & _)]; [auto|].
      apply new_facts in Nw; auto. destruct Nw as (_ & T & _). congruence.
Qed.

Lemma contrib_step_lt : all_idle_b c (mjob s') (mrem s') = false ->
  exists j k, 0 <= j < nj c /\ 0 <= k < no c /\ contrib s' j k + 1 <= contrib s j k.
Proof.
  intro NI. destruct (not_idle_witness NI) as (j & k & Hj & Hk & Sc & F).
  exists j, k. split; auto. split; auto. unfold contrib.
  assert (P' : pend s' j k = false) by (destruct Sc; auto).
  rewrite fin_step in *. change (clock s') with (clock s + 1) in *. rewrite P'.
  pose proof Sc as B'. apply scheduled_b_spec in B'. rewrite B'.
  destruct (sched'_cases j k Hj Hk Sc) as [(So & _ & E)|(Nw & E)].
  - assert (P : pend s j k = false) by (destruct So; auto). apply scheduled_b_spec in So. rewrite P, So. unfold fin. lia.
  - apply new_facts in Nw; auto. destruct Nw as (_ & T & _). rewrite T. lia.
Qed.
End Preserve.
