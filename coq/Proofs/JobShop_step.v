(* JobShop: function-view characterisation of [step] (the published rules, C09), mask = legal (C04), invalid actions (C05),
   protocol (C03), ranges (C01), observation (C12). *)
Require Import JV.Base.Prelude JV.Base.JaxIndex JV.Base.Codec JV.Base.TimeStep JV.Model.JobShop.
Require Import JV.Proofs.TimeStep_laws JV.Proofs.JobShop_lib.

Definition rows_ok {A} (g : list (list A)) (r w : Z) : Prop :=
  zlen g = r /\ forall i, 0 <= i < r -> zlen (znth [] g i) = w.
(* the arrays whose length matters for a gather have the configured shapes *)
Definition shape (c : cfg) (s : state) : Prop :=
  0 <= nj c /\ 0 <= nm c /\ 0 < no c /\ rows_ok (omask s) (nj c) (no c) /\ rows_ok (odur s) (nj c) (no c).
(* the mask carried by the state is the one computed from the state's own fields (true after reset and after every step) *)
Definition mask_fresh (c : cfg) (s : state) : Prop :=
  amask s = create_mask c (mjob s) (mrem s) (omach s) (omask s).
Definition in_spec (c : cfg) (act : list Z) : Prop := forall m, 0 <= m < nm c -> 0 <= act_at act m <= nj c.

Lemma jget_znth {A} (d : A) l i : 0 <= i < zlen l -> jget d l i = znth d l i.
Proof. intro H. unfold jget. rewrite jclamp_id by lia. reflexivity. Qed.

Lemma znth_indep {A} (d d' : A) l i : 0 <= i < zlen l -> znth d l i = znth d' l i.
Proof. intro H. unfold znth. destruct (i <? 0) eqn:E; [lia|]. apply nth_indep. unfold zlen in H. lia. Qed.

Lemma rows_ok_tab2 {A} r w (f : Z -> Z -> A) : 0 <= r -> 0 <= w -> rows_ok (tab2 r w f) r w.
Proof.
  intros Hr Hw. split; [apply zlen_tab; auto|]. intros i Hi. unfold tab2. rewrite znth_tab by lia. apply zlen_tab; auto.
Qed.

(* ---------------------------------------------------------------- the successor state, field by field *)
Section StepFields.
Variables (c : cfg) (s : state) (act : list Z).
Let s' := fst (step c s act).

Lemma step_omach : omach s' = omach s. Proof. reflexivity. Qed.
Lemma step_odur : odur s' = odur s. Proof. reflexivity. Qed.
Lemma step_clock : clock s' = clock s + 1. Proof. reflexivity. Qed.
Lemma step_mach j k : mach s' j k = mach s j k. Proof. reflexivity. Qed.
Lemma step_dur j k : dur s' j k = dur s j k. Proof. reflexivity. Qed.

Lemma step_pend j k : 0 <= j < nj c -> 0 <= k < no c ->
  pend s' j k = pend s j k && negb (isnew c s act j k).
Proof. intros. unfold s', step, pend. cbn [fst omask]. rewrite gat_tab2 by lia. reflexivity. Qed.

Lemma step_sch j k : 0 <= j < nj c -> 0 <= k < no c ->
  sch s' j k = if isnew c s act j k then clock s else sch s j k.
Proof. intros. unfold s', step, sch. cbn [fst sched]. rewrite gat_tab2 by lia. reflexivity. Qed.

Lemma step_job m : 0 <= m < nm c -> job s' m = upd_job c s act m.
Proof. intros. unfold s', step, job. cbn [fst mjob]. rewrite znth_tab by lia. reflexivity. Qed.

Lemma step_rem m : 0 <= m < nm c -> rem s' m = upd_rem c s act m.
Proof. intros. unfold s', step, rem. cbn [fst mrem]. rewrite znth_tab by lia. reflexivity. Qed.

Lemma step_mask_fresh : mask_fresh c s'.
Proof. reflexivity. Qed.

Lemma step_shape : shape c s -> shape c s'.
Proof.
  intros (HJ & HM & HO & Hk & Hd). unfold shape. repeat split; auto; try apply Hd.
  - unfold s', step. cbn [fst omask]. apply rows_ok_tab2; lia.
  - unfold s', step. cbn [fst omask]. apply rows_ok_tab2; lia.
Qed.
End StepFields.

(* ---------------------------------------------------------------- machines *)
Lemma upd_job_noop c s act m : act_at act m = nj c ->
  upd_job c s act m = if rem s m =? 0 then nj c else job s m.
Proof. intro E. unfold upd_job, rem, job. rewrite E, Z.eqb_refl. reflexivity. Qed.

Lemma upd_job_job c s act m : act_at act m <> nj c -> upd_job c s act m = act_at act m.
Proof. intro E. unfold upd_job. destruct (act_at act m =? nj c) eqn:F; [lia|reflexivity]. Qed.

Lemma upd_rem_noop c s act m : act_at act m = nj c -> upd_rem c s act m = Z.max (rem s m - 1) 0.
Proof. intro E. unfold upd_rem, rem. rewrite E, Z.eqb_refl. destruct (0 <? znth 0 (mrem s) m) eqn:F; lia. Qed.

Lemma opid_range c s j : shape c s -> 0 <= j < nj c -> 0 <= opid s j < no c.
Proof.
  intros (HJ & HM & HO & (Hl & Hr) & _) Hj. unfold opid. rewrite <- (Hr j Hj). apply next_op_range. rewrite Hr; auto.
Qed.

Lemma upd_rem_job c s act m : shape c s -> 0 <= act_at act m < nj c ->
  upd_rem c s act m = Z.max (dur s (act_at act m) (opid s (act_at act m)) - 1) 0.
Proof.
  intros Sh Ha. pose proof (opid_range c s _ Sh Ha) as Ho.
  destruct Sh as (HJ & HM & HO & _ & (Hl & Hr)).
  unfold upd_rem. set (a := act_at act m) in *.
  destruct (a =? nj c) eqn:E; [lia|].
  assert (G : gget 0 (odur s) a (jget 0 (tab (nj c) (opid s)) a) = dur s a (opid s a)).
  { rewrite jget_znth by (rewrite zlen_tab; lia). rewrite znth_tab by lia.
    unfold gget, dur, gat. rewrite (jget_znth [] (odur s) a) by lia. rewrite jget_znth by (rewrite Hr; lia).
    apply znth_indep. rewrite Hr; lia. }
  rewrite G. destruct (0 <? dur s a (opid s a)) eqn:F; lia.
Qed.

Lemma newb_spec c act j : newb c act j = true <-> exists m, 0 <= m < nm c /\ act_at act m = j.
Proof.
  unfold newb. rewrite existsb_zrange. split; intros (m & Hm & E); exists m; split; auto; lia.
Qed.

(* ---------------------------------------------------------------- next operation, legality *)
Lemma row_len c s j : shape c s -> 0 <= j < nj c -> zlen (znth [] (omask s) j) = no c.
Proof. intros (_ & _ & _ & (_ & Hr) & _) Hj. auto. Qed.

Lemma unfinished_iff c s j : shape c s -> 0 <= j < nj c ->
  forallb negb (znth [] (omask s) j) = false <-> exists k, 0 <= k < no c /\ pend s j k = true.
Proof.
  intros Sh Hj. pose proof (row_len c s j Sh Hj) as L. split.
  - intro H. apply next_op_spec in H as (R & T & _). exists (next_op (znth [] (omask s) j)). split; [lia|exact T].
  - intros (k & Hk & E). destruct (forallb negb (znth [] (omask s) j)) eqn:F; auto.
    rewrite forallb_negb_true_iff in F. unfold pend, gat in E. rewrite F in E by lia. discriminate.
Qed.

Lemma opid_is_next c s j : shape c s -> 0 <= j < nj c ->
  (exists k, 0 <= k < no c /\ pend s j k = true) -> is_next c s j (opid s j).
Proof.
  intros Sh Hj H. apply (unfinished_iff c s j Sh Hj) in H. pose proof (row_len c s j Sh Hj) as L.
  apply next_op_spec in H as (R & T & B). unfold is_next, opid. split; [lia|]. split; [exact T|]. exact B.
Qed.

Lemma is_next_unique c s j k : shape c s -> 0 <= j < nj c -> is_next c s j k -> k = opid s j.
Proof.
  intros Sh Hj (Hk & T & B).
  assert (N : is_next c s j (opid s j)) by (apply opid_is_next; eauto).
  destruct N as (Hk' & T' & B').
  destruct (Z_lt_le_dec k (opid s j)) as [L|L].
  - rewrite B' in T by lia. discriminate.
  - destruct (Z.eq_dec k (opid s j)); auto. rewrite B in T' by lia. discriminate.
Qed.

Lemma job_busy_false M mj mr j : job_busy M mj mr j = false <->
  forall m, 0 <= m < M -> ~ (znth 0 mj m = j /\ 0 < znth 0 mr m).
Proof.
  unfold job_busy. rewrite existsb_zrange_false. split; intros H m Hm; specialize (H m Hm); lia.
Qed.

(* the per-entry test of the code is the rule *)
Lemma valid_b_legal c s m j : shape c s -> 0 <= j < nj c ->
  valid_b c (mjob s) (mrem s) (omach s) (omask s) m j = true <-> legal c s m j.
Proof.
  intros Sh Hj. unfold valid_b, legal. rewrite !andb_true_iff, !negb_true_iff, Z.eqb_eq, Z.eqb_eq, job_busy_false.
  fold (opid s j). fold (mach s j (opid s j)). fold (rem s m). split.
  - intros (((R & Mm) & B) & U). split; auto. split; [|exact B].
    exists (opid s j). split; auto. apply opid_is_next; auto. apply (unfinished_iff c s j); auto.
  - intros (R & (k & N & Mm) & B).
    pose proof (is_next_unique c s j k Sh Hj N) as ->. repeat split; auto.
    apply (unfinished_iff c s j); auto. destruct N as (Hk & T & _). eauto.
Qed.

Lemma legal_b_spec c s m j : legal_b c s m j = true <-> legal c s m j.
Proof.
  unfold legal_b, legal, is_next. rewrite !andb_true_iff, Z.eqb_eq, existsb_zrange, forallb_zrange. split.
  - intros ((R & (k & Hk & E)) & B). rewrite !andb_true_iff, forallb_zrange, Z.eqb_eq in E. destruct E as ((T & F) & Mm).
    split; auto. split.
    + exists k. repeat split; auto; try lia. intros k' Hk'. specialize (F k' Hk'). destruct (pend s j k'); auto; discriminate.
    + intros m' Hm'. specialize (B m' Hm'). lia.
  - intros (R & (k & (Hk & T & F) & Mm) & B). split; [split; auto|].
    + exists k. split; auto. rewrite !andb_true_iff, forallb_zrange, Z.eqb_eq. repeat split; auto.
      intros k' Hk'. rewrite F by lia. reflexivity.
    + intros m' Hm'. specialize (B m' Hm'). lia.
Qed.

(* C04: the mask of a fresh state is exactly the set of legal (machine, job) pairs; the no-op is always allowed *)
Theorem mask_iff_legal c s m j : shape c s -> mask_fresh c s -> 0 <= m < nm c -> 0 <= j < nj c ->
  gat false (amask s) m j = true <-> legal c s m j.
Proof.
  intros Sh Fr Hm Hj. rewrite Fr. unfold create_mask, gat. rewrite znth_tab by lia.
  destruct Sh as (HJ & Sh'). rewrite znth_app_l by (rewrite zlen_tab; lia). rewrite znth_tab by lia.
  apply valid_b_legal; auto. split; auto.
Qed.

Theorem mask_noop c s m : shape c s -> mask_fresh c s -> 0 <= m < nm c -> gat false (amask s) m (nj c) = true.
Proof.
  intros (HJ & _) Fr Hm. rewrite Fr. unfold create_mask, gat. rewrite znth_tab by lia.
  rewrite <- (zlen_tab (nj c) (valid_b c (mjob s) (mrem s) (omach s) (omask s) m)) at 2 by lia.
  apply znth_app_at.
Qed.

Lemma mask_row_len c s m : shape c s -> mask_fresh c s -> 0 <= m < nm c -> zlen (znth [] (amask s) m) = nj c + 1.
Proof.
  intros (HJ & _) Fr Hm. rewrite Fr. unfold create_mask. rewrite znth_tab by lia. rewrite zlen_app, zlen_tab by lia. reflexivity.
Qed.

(* what the verified checker [amask = legal_mask] run on implementation states decides *)
Theorem legal_mask_check c s : 0 <= nj c -> list_eqb (list_eqb Bool.eqb) (amask s) (legal_mask c s) = true ->
  forall m, 0 <= m < nm c -> gat false (amask s) m (nj c) = true /\
    forall j, 0 <= j < nj c -> (gat false (amask s) m j = true <-> legal c s m j).
Proof.
  intros HJ E m Hm. apply (list_eqb_eq (list_eqb Bool.eqb)) in E.
  2:{ apply list_eqb_eq. intros x y. destruct x, y; cbn; split; congruence. }
  rewrite E. unfold legal_mask, gat. rewrite znth_tab by lia. split.
  - rewrite <- (zlen_tab (nj c) (legal_b c s m)) at 2 by lia. apply znth_app_at.
  - intros j Hj. rewrite znth_app_l by (rewrite zlen_tab; lia). rewrite znth_tab by lia. apply legal_b_spec.
Qed.

(* ---------------------------------------------------------------- invalid actions (C05) *)
Definition valid_action (c : cfg) (s : state) (act : list Z) : Prop :=
  forall m, 0 <= m < nm c -> act_at act m = nj c \/ (0 <= act_at act m < nj c /\ legal c s m (act_at act m)).

Lemma invalid_b_false c s act : shape c s -> mask_fresh c s -> in_spec c act ->
  invalid_b c s act = false <-> valid_action c s act.
Proof.
  intros Sh Fr Sp. unfold invalid_b. rewrite negb_false_iff, forallb_zrange. unfold valid_action.
  split; intros H m Hm; specialize (H m Hm); specialize (Sp m Hm).
  - rewrite jget_znth in H by (rewrite (mask_row_len c s m); auto; lia).
    destruct (Z.eq_dec (act_at act m) (nj c)) as [E|N]; [left; auto|right]. split; [lia|].
    apply (mask_iff_legal c s m); auto. lia.
  - rewrite jget_znth by (rewrite (mask_row_len c s m); auto; lia).
    destruct H as [E|(R & L)].
    + rewrite E. apply (mask_noop c s m); auto.
    + apply (mask_iff_legal c s m); auto.
Qed.

Lemma step_ts c s act : snd (step c s act) =
  let s' := fst (step c s act) in
  let bad := invalid_b c s act || all_idle_b c (mjob s') (mrem s') in
  cond_done 1 (bad || finished_b c (omask s') (mrem s')) [if bad then penalty c else -1].
Proof. reflexivity. Qed.

(* an in-spec action that is not entirely inside the mask ends the episode with the documented penalty *)
Theorem invalid_terminates c s act : shape c s -> mask_fresh c s -> in_spec c act -> ~ valid_action c s act ->
  snd (step c s act) = termination 1 [penalty c].
Proof.
  intros Sh Fr Sp N. rewrite step_ts. cbv zeta.
  destruct (invalid_b c s act) eqn:E; [reflexivity|]. apply invalid_b_false in E; auto. contradiction.
Qed.

(* two machines choosing the same job is never inside the mask *)
Theorem same_job_invalid c s act m1 m2 : 0 <= m1 < nm c -> 0 <= m2 < nm c -> m1 <> m2 ->
  act_at act m1 = act_at act m2 -> act_at act m1 <> nj c -> shape c s -> ~ valid_action c s act.
Proof.
  intros H1 H2 N E Nn Sh V.
  destruct (V m1 H1) as [?|(R1 & _ & (k1 & N1 & M1) & _)]; [contradiction|].
  destruct (V m2 H2) as [?|(R2 & _ & (k2 & N2 & M2) & _)]; [congruence|].
  rewrite <- E in N2, M2.
  pose proof (is_next_unique c s _ k1 Sh R1 N1). pose proof (is_next_unique c s _ k2 Sh R1 N2). congruence.
Qed.

(* a valid action is penalised only when it leaves every machine idle; otherwise the reward is -1 *)
Theorem valid_step_ts c s act : shape c s -> mask_fresh c s -> in_spec c act -> valid_action c s act ->
  let s' := fst (step c s act) in
  snd (step c s act) =
    if all_idle_b c (mjob s') (mrem s') then termination 1 [penalty c]
    else if finished_b c (omask s') (mrem s') then termination 1 [-1] else transition 1 [-1].
Proof.
  intros Sh Fr Sp V. rewrite step_ts. cbv zeta. apply invalid_b_false in V; auto. rewrite V. cbn [orb].
  destruct (all_idle_b _ _ _); [reflexivity|]. cbn [orb]. destruct (finished_b _ _ _); reflexivity.
Qed.

(* ---------------------------------------------------------------- protocol (C03) *)
Theorem step_protocol c s act : step_ok 1 false (snd (step c s act)) = true.
Proof. rewrite step_ts. cbv zeta. apply cond_done_step_ok; auto. Qed.
Theorem init_protocol c om od : first_ok 1 (snd (init c om od)) = true.
Proof. apply restart_first_ok. Qed.

(* ---------------------------------------------------------------- init *)
Lemma init_mask_fresh c om od : mask_fresh c (fst (init c om od)).
Proof. reflexivity. Qed.

(* ---------------------------------------------------------------- observation (C12) *)
Theorem observe_step c s act : let s' := fst (step c s act) in
  observe s' = (omach s, odur s, omask s', mjob s', mrem s', create_mask c (mjob s') (mrem s') (omach s') (omask s')).
Proof. reflexivity. Qed.
Theorem observe_init c om od : let s := fst (init c om od) in
  observe s = (om, od, omask s, mjob s, mrem s, create_mask c (mjob s) (mrem s) (omach s) (omask s)).
Proof. reflexivity. Qed.

(* ---------------------------------------------------------------- declared ranges (C01) *)
Lemma ranges_b_spec c s : ranges_b c s = true <->
  (forall j k, 0 <= j < nj c -> 0 <= k < no c -> -1 <= mach s j k <= nm c - 1 /\ -1 <= dur s j k <= nd c) /\
  (forall m, 0 <= m < nm c -> 0 <= job s m <= nj c /\ 0 <= rem s m <= nd c).
Proof.
  unfold ranges_b. rewrite andb_true_iff, forallb_pairs, forallb_zrange. split; intros (A & B); split.
  - intros j k Hj Hk. specialize (A j k Hj Hk). cbn beta iota in A. lia.
  - intros m Hm. specialize (B m Hm). lia.
  - intros j k Hj Hk. specialize (A j k Hj Hk). cbn beta iota. lia.
  - intros m Hm. specialize (B m Hm). lia.
Qed.

Theorem ranges_preserved c s act : shape c s -> in_spec c act -> ranges_b c s = true ->
  ranges_b c (fst (step c s act)) = true.
Proof.
  intros Sh Sp R. apply ranges_b_spec in R as (A & B). apply ranges_b_spec. split.
  - intros j k Hj Hk. rewrite step_mach, step_dur. auto.
  - intros m Hm. rewrite step_job, step_rem by auto. specialize (Sp m Hm). specialize (B m Hm).
    destruct (Z.eq_dec (act_at act m) (nj c)) as [E|N].
    + rewrite upd_job_noop, upd_rem_noop by auto. destruct (rem s m =? 0); lia.
    + rewrite upd_job_job, upd_rem_job by (auto; lia).
      assert (Ha : 0 <= act_at act m < nj c) by lia.
      pose proof (opid_range c s _ Sh Ha) as Ho. specialize (A _ _ Ha Ho). lia.
Qed.

(* ---------------------------------------------------------------- the published rules (C09) *)
Lemma isnew_spec c s act j k : isnew c s act j k = true <-> (exists m, 0 <= m < nm c /\ act_at act m = j) /\ k = opid s j.
Proof. unfold isnew. rewrite andb_true_iff, newb_spec, Z.eqb_eq. tauto. Qed.

(* A mask-respecting joint action: the clock ticks; an idle machine given the no-op stays free and forgets its job, a busy one
   counts down; a machine given job j starts j's next operation (recorded at the current time, no longer pending) and is busy
   for its duration; nothing else changes. *)
Theorem step_rules c s act : shape c s -> in_spec c act -> valid_action c s act ->
  let s' := fst (step c s act) in
  clock s' = clock s + 1 /\ omach s' = omach s /\ odur s' = odur s /\
  (forall m, 0 <= m < nm c ->
     (act_at act m = nj c -> rem s' m = Z.max (rem s m - 1) 0 /\ job s' m = (if rem s m =? 0 then nj c else job s m)) /\
     (act_at act m <> nj c -> let j := act_at act m in let k := opid s j in
        is_next c s j k /\ mach s j k = m /\ rem s m = 0 /\
        rem s' m = Z.max (dur s j k - 1) 0 /\ job s' m = j /\ sch s' j k = clock s /\ pend s' j k = false)) /\
  (forall j k, 0 <= j < nj c -> 0 <= k < no c -> ~ ((exists m, 0 <= m < nm c /\ act_at act m = j) /\ k = opid s j) ->
     sch s' j k = sch s j k /\ pend s' j k = pend s j k).
Proof.
  intros Sh Sp V s'. split; [reflexivity|]. split; [reflexivity|]. split; [reflexivity|]. split.
  - intros m Hm. unfold s'. rewrite step_rem, step_job by auto. split.
    + intro E. rewrite upd_rem_noop, upd_job_noop by auto. auto.
    + intro N. cbv zeta. pose proof (Sp m Hm) as S1. assert (Ha : 0 <= act_at act m < nj c) by lia.
      destruct (V m Hm) as [E|(_ & R0 & (k1 & N1 & M1) & B)]; [contradiction|].
      pose proof (is_next_unique c s _ k1 Sh Ha N1) as U. subst k1.
      pose proof (opid_range c s _ Sh Ha) as Ho.
      rewrite upd_rem_job, upd_job_job by auto.
      assert (Nw : isnew c s act (act_at act m) (opid s (act_at act m)) = true) by (apply isnew_spec; split; eauto).
      rewrite step_sch, step_pend, Nw by auto. rewrite andb_false_r. repeat split; auto; apply N1.
  - intros j k Hj Hk Nn. unfold s'. rewrite step_sch, step_pend by auto.
    destruct (isnew c s act j k) eqn:E; [apply isnew_spec in E; contradiction|]. rewrite andb_true_r. auto.
Qed.
