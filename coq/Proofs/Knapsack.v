(* Knapsack: the mask is exactly {unpacked items with weight <= remaining budget} (C04), an illegal item gives LAST
   with reward 0 and leaves the state untouched (C05), the packed weight never exceeds the budget, for ANY in-spec
   actions (C06), dense and sparse returns equal the packed value (C08), the implementation model equals the declarative
   rules (C09), generated instances are well formed (C10), episodes last at most num_items steps (C11), the observation
   is the documented view (C12), declared ranges / protocol (C01, C03).
   Everything that does not depend on exact arithmetic is proved for an ARBITRARY rounding function [rnd] of the
   budget subtraction (so also for the binary32 rounding [rne24]); the budget identity needs exact arithmetic, which
   float32 provides on dyadic grids ([rne24_small], [float_step_exact]).                                          *)
Require Import JV.Base.Prelude JV.Base.JaxIndex JV.Base.Codec JV.Base.TimeStep JV.Model.Knapsack.

(* ---------- list facts ---------- *)
Lemma znth_nth {A} (d : A) l i : 0 <= i -> znth d l i = nth (Z.to_nat i) l d.
Proof. intro H. unfold znth. destruct (i <? 0) eqn:E; [lia|reflexivity]. Qed.

Lemma jget_znth {A} (d : A) l i : 0 <= i < zlen l -> jget d l i = znth d l i.
Proof. intro H. unfold jget. rewrite jclamp_id by lia. reflexivity. Qed.

Lemma jset_zupd {A} (l : list A) i v : 0 <= i < zlen l -> jset l i v = zupd i v l.
Proof.
  intro H. unfold jset, jnorm. destruct (i <? 0) eqn:E; [lia|].
  replace ((0 <=? i) && (i <? zlen l)) with true by lia. reflexivity.
Qed.

Lemma zupd_upd {A} (l : list A) i v : 0 <= i -> zupd i v l = upd (Z.to_nat i) v l.
Proof. intro H. unfold zupd. destruct (i <? 0) eqn:E; [lia|reflexivity]. Qed.

Lemma zlen_jset {A} (l : list A) i v : zlen (jset l i v) = zlen l.
Proof. unfold zlen. rewrite jset_length. reflexivity. Qed.

Lemma jget_Forall {A} (P : A -> Prop) d l i : P d -> Forall P l -> P (jget d l i).
Proof.
  intros Hd Hl. unfold jget, znth. destruct (_ <? 0); auto.
  destruct (Nat.lt_ge_cases (Z.to_nat (jclamp (zlen l) i)) (length l)) as [L|L].
  - rewrite Forall_forall in Hl. apply Hl. apply nth_In. exact L.
  - rewrite nth_overflow by exact L. exact Hd.
Qed.

Lemma nth_map_zrange {A} (f : Z -> A) n i d : 0 <= i < n -> nth (Z.to_nat i) (map f (zrange n)) d = f i.
Proof.
  intro H. unfold zrange. rewrite nth_indep with (d' := f 0) by (rewrite map_length, zrange_from_length; lia).
  rewrite map_nth. rewrite zrange_from_nth by lia. f_equal. lia.
Qed.

Lemma zrange_length n : length (zrange n) = Z.to_nat n.
Proof. unfold zrange. apply zrange_from_length. Qed.

(* ---------- the mask, entry by entry ---------- *)
Lemma mask_of_length b p w : length p = length w -> length (mask_of b p w) = length p.
Proof.
  revert w; induction p as [|x p IH]; intros [|y w] L; cbn in *; try lia. rewrite IH; lia.
Qed.

Lemma mask_of_nth b p w k :
  length p = length w -> (k < length p)%nat ->
  nth k (mask_of b p w) false = negb (nth k p true) && (nth k w 0 <=? b).
Proof.
  revert w k; induction p as [|x p IH]; intros [|y w] k L Hk; cbn in *; try lia.
  destruct k; [reflexivity|]. apply IH; lia.
Qed.

Lemma legal_b_spec s i : legal_b s i = true <-> legal s i.
Proof. unfold legal_b, legal. destruct (znth true (packed s) i); cbn; split; intros; try lia; intuition (try discriminate; lia). Qed.

Lemma legal_b_nth s i : 0 <= i ->
  legal_b s i = negb (nth (Z.to_nat i) (packed s) true) && (nth (Z.to_nat i) (weights s) 0 <=? budget s).
Proof. intro H. unfold legal_b. rewrite !znth_nth by lia. reflexivity. Qed.

Lemma shape_lens n s : shape n s -> length (weights s) = Z.to_nat n /\ length (values s) = Z.to_nat n /\ length (packed s) = Z.to_nat n /\ 0 <= n.
Proof. unfold shape, zlen. intros (A & B & C). lia. Qed.

Lemma shape_b_spec n s : shape_b n s = true <-> shape n s.
Proof. unfold shape_b, shape. rewrite !andb_true_iff, !Z.eqb_eq. tauto. Qed.

(* C04: mask[i] <=> item i is unpacked and weighs no more than the remaining budget *)
Lemma mask_entry n s i : shape n s -> 0 <= i < n -> jget false (mask s) i = legal_b s i.
Proof.
  intros Sh Hi. destruct (shape_lens n s Sh) as (Lw & Lv & Lp & Hn).
  unfold mask. rewrite jget_in_range by (unfold zlen; rewrite mask_of_length; lia).
  rewrite mask_of_nth by lia. rewrite legal_b_nth by lia. reflexivity.
Qed.

Theorem C04_mask_iff_legal n s i : shape n s -> 0 <= i < n -> (jget false (mask s) i = true <-> legal s i).
Proof. intros Sh Hi. rewrite (mask_entry n) by auto. apply legal_b_spec. Qed.

(* the whole mask is the map of the rule over the items: this is the checker run on implementation states *)
Lemma mask_eq_map n s : shape n s -> mask s = map (legal_b s) (zrange n).
Proof.
  intro Sh. destruct (shape_lens n s Sh) as (Lw & Lv & Lp & Hn).
  apply (nth_ext _ _ false false).
  - unfold mask. rewrite mask_of_length, map_length, zrange_length; lia.
  - intros k Hk. unfold mask in *. rewrite mask_of_length in Hk by lia.
    rewrite mask_of_nth by lia.
    replace k with (Z.to_nat (Z.of_nat k)) at 3 by lia. rewrite nth_map_zrange by lia.
    rewrite legal_b_nth by lia. rewrite Nat2Z.id. reflexivity.
Qed.

Theorem C04_checker n s m : shape n s ->
  (list_eqb Bool.eqb m (map (legal_b s) (zrange n)) = true <-> m = mask s).
Proof.
  intro Sh. rewrite (list_eqb_eq Bool.eqb); [|intros x y; destruct x, y; cbn; split; congruence].
  rewrite (mask_eq_map n s Sh). tauto.
Qed.

(* the environment's own validity test (on the clamped gathers) is the same rule for in-spec actions *)
Lemma valid_legal n s a : shape n s -> 0 <= a < n -> valid s a = legal_b s a.
Proof.
  intros Sh Ha. destruct Sh as (Lw & Lv & Lp). unfold valid, legal_b.
  rewrite !jget_znth by lia. rewrite andb_comm. rewrite !znth_nth by lia.
  rewrite (nth_indep (packed s) true false) by (unfold zlen in *; lia). reflexivity.
Qed.

Theorem C04_mask_iff_accepts n s a : shape n s -> 0 <= a < n -> jget false (mask s) a = valid s a.
Proof. intros Sh Ha. rewrite (mask_entry n), (valid_legal n); auto. Qed.

(* ---------- C05: illegal item => LAST, reward 0, discount 0, the state untouched (for every rounding, both rewards) ---------- *)
Lemma invalid_step rnd sparse s a : valid s a = false -> step_r rnd sparse s a = (s, termination 1 [0]).
Proof.
  intro H. unfold step_r. rewrite H. cbn [negb]. rewrite orb_true_r. unfold cond_done, reward_of.
  rewrite andb_false_r. destruct sparse; reflexivity.
Qed.

Theorem C05_illegal_item n rnd sparse s a :
  shape n s -> 0 <= a < n -> ~ legal s a -> step_r rnd sparse s a = (s, termination 1 [0]).
Proof.
  intros Sh Ha Hl. apply invalid_step. rewrite (valid_legal n) by auto.
  destruct (legal_b s a) eqn:E; [|reflexivity]. apply legal_b_spec in E. contradiction.
Qed.

(* conversely a legal item is accepted: it gets packed and its weight leaves the budget *)
Lemma valid_step_state rnd sparse s a : valid s a = true -> fst (step_r rnd sparse s a) = update_r rnd s a.
Proof. intro H. unfold step_r. rewrite H. reflexivity. Qed.

Lemma update_pack n s a : shape n s -> 0 <= a < n -> update s a = pack s a.
Proof.
  intros (Lw & Lv & Lp) Ha. unfold update, update_r, pack, rid.
  rewrite jset_zupd by lia. rewrite jget_znth by lia. reflexivity.
Qed.

Theorem C05_legal_item_accepted n sparse s a :
  shape n s -> 0 <= a < n -> legal s a -> fst (step sparse s a) = pack s a.
Proof.
  intros Sh Ha Hl. unfold step. rewrite valid_step_state.
  - apply (update_pack n); auto.
  - rewrite (valid_legal n) by auto. apply legal_b_spec; auto.
Qed.

(* ---------- shapes and the problem instance never change ---------- *)
Lemma step_r_instance rnd sparse s a :
  weights (fst (step_r rnd sparse s a)) = weights s /\ values (fst (step_r rnd sparse s a)) = values s.
Proof. unfold step_r. cbn [fst]. destruct (valid s a); cbn; auto. Qed.

Lemma step_r_shape n rnd sparse s a : shape n s -> shape n (fst (step_r rnd sparse s a)).
Proof.
  intros (Lw & Lv & Lp). unfold step_r. cbn [fst]. destruct (valid s a); [|repeat split; auto].
  unfold update_r, shape; cbn [weights values packed]. rewrite zlen_jset. auto.
Qed.

Lemma step_type_cases rnd sparse s a :
  st (snd (step_r rnd sparse s a)) = MID \/ st (snd (step_r rnd sparse s a)) = LAST.
Proof. unfold step_r. cbn [snd]. destruct (_ || _); cbn; auto. Qed.

(* a MID step was a valid one and leaves something to pack *)
Lemma mid_step rnd sparse s a :
  st (snd (step_r rnd sparse s a)) = MID ->
  valid s a = true /\ existsb (fun b => b) (mask (update_r rnd s a)) = true.
Proof.
  unfold step_r. cbn [snd]. destruct (valid s a) eqn:V; cbn [negb].
  - rewrite orb_false_r. destruct (existsb _ _); cbn; [auto|discriminate].
  - rewrite orb_true_r. cbn. discriminate.
Qed.

Lemma last_valid_step rnd sparse s a :
  st (snd (step_r rnd sparse s a)) = LAST -> valid s a = true ->
  existsb (fun b => b) (mask (update_r rnd s a)) = false.
Proof.
  unfold step_r. cbn [snd]. intros H V. rewrite V in H. cbn [negb] in H. rewrite orb_false_r in H.
  destruct (existsb _ _); [cbn in H; discriminate|reflexivity].
Qed.

(* ---------- C06: packed weight + remaining budget = total budget, remaining budget >= 0 ---------- *)
Lemma dotb_upd k p v :
  (k < length p)%nat -> length p = length v ->
  dotb (upd k true p) v = dotb p v + (if nth k p true then 0 else nth k v 0).
Proof.
  revert k v; induction p as [|x p IH]; intros k [|y v] Hk L; cbn in *; try lia.
  destruct k; cbn [upd dotb nth].
  - destruct x; lia.
  - rewrite IH by lia. lia.
Qed.

Lemma dotb_pack n s a (v : list Z) :
  shape n s -> zlen v = n -> 0 <= a < n -> znth true (packed s) a = false ->
  dotb (zupd a true (packed s)) v = dotb (packed s) v + znth 0 v a.
Proof.
  intros (Lw & Lv & Lp) L Ha Hp. rewrite zupd_upd by lia. rewrite znth_nth in Hp by lia. rewrite znth_nth by lia.
  rewrite dotb_upd by (unfold zlen in *; lia). rewrite Hp. reflexivity.
Qed.

Lemma dotb_repeat_false k v : dotb (repeat false k) v = 0.
Proof. revert v; induction k; intros [|y v]; cbn [repeat dotb]; auto; try (rewrite IHk; lia). Qed.

Lemma pack_weight n s a : shape n s -> 0 <= a < n -> legal s a ->
  packed_weight (pack s a) = packed_weight s + znth 0 (weights s) a.
Proof. intros Sh Ha (Hp & _). unfold packed_weight, pack; cbn [packed weights]. apply (dotb_pack n); auto. apply Sh. Qed.

Lemma pack_value n s a : shape n s -> 0 <= a < n -> legal s a ->
  packed_value (pack s a) = packed_value s + znth 0 (values s) a.
Proof. intros Sh Ha (Hp & _). unfold packed_value, pack; cbn [packed values]. apply (dotb_pack n); auto. apply Sh. Qed.

(* for EVERY in-spec action, legal or not *)
Theorem C06_step_preserves_Feasible n total sparse s a :
  shape n s -> 0 <= a < n -> Feasible total s -> Feasible total (fst (step sparse s a)).
Proof.
  intros Sh Ha (Hsum & Hb). unfold step. destruct (valid s a) eqn:V.
  - rewrite valid_step_state by auto. fold (update s a). rewrite (update_pack n) by auto.
    rewrite (valid_legal n) in V by auto. apply legal_b_spec in V.
    unfold Feasible. rewrite (pack_weight n) by auto. destruct V as (_ & Hw). cbn [pack budget]. lia.
  - rewrite invalid_step by auto. cbn [fst]. split; auto.
Qed.

Lemma Feasible_within_budget total s : Feasible total s -> packed_weight s <= total.
Proof. intros (A & B). lia. Qed.

Lemma Feasible_b_spec total s : Feasible_b total s = true <-> Feasible total s.
Proof. unfold Feasible_b, Feasible. lia. Qed.

Lemma init_shape n total w v : 0 <= n -> zlen w = n -> zlen v = n -> shape n (fst (init n total w v)).
Proof. intros Hn Lw Lv. unfold init, shape; cbn. repeat split; auto. unfold zlen. rewrite repeat_length. lia. Qed.

Theorem C06_init_Feasible n total w v : 0 <= total -> Feasible total (fst (init n total w v)).
Proof. intro H. unfold init, Feasible, packed_weight; cbn. rewrite dotb_repeat_false. lia. Qed.

(* float32 (or any rounding that keeps non-negative numbers non-negative): the remaining budget never becomes
   negative, for ANY action index (even out of spec) *)
Theorem C06_budget_nonneg rnd sparse s a :
  (forall x, 0 <= x -> 0 <= rnd x) -> 0 <= budget s -> 0 <= budget (fst (step_r rnd sparse s a)).
Proof.
  intros Hr Hb. unfold step_r. cbn [fst]. destruct (valid s a) eqn:V; [|auto].
  unfold update_r; cbn [budget]. apply Hr. unfold valid in V. lia.
Qed.

(* completion: when a legal item ends the episode nothing more fits (the packing is maximal) *)
Lemma maximal_b_mask n s : shape n s -> maximal_b n s = negb (existsb (fun b => b) (mask s)).
Proof.
  intro Sh. rewrite (mask_eq_map n s Sh). unfold maximal_b.
  induction (zrange n) as [|i l IH]; cbn; auto. rewrite IH. destruct (legal_b s i); reflexivity.
Qed.

Lemma maximal_b_spec n s : maximal_b n s = true <-> forall i, 0 <= i < n -> ~ legal s i.
Proof.
  unfold maximal_b. rewrite forallb_forall. split.
  - intros H i Hi Hl. specialize (H i ltac:(apply in_zrange; lia)). apply legal_b_spec in Hl. rewrite Hl in H. discriminate.
  - intros H i Hi. apply in_zrange in Hi. destruct (legal_b s i) eqn:E; auto. apply legal_b_spec in E. destruct (H i Hi E).
Qed.

Theorem C06_completion_maximal n rnd sparse s a :
  shape n s -> valid s a = true -> st (snd (step_r rnd sparse s a)) = LAST ->
  forall i, 0 <= i < n -> ~ legal (fst (step_r rnd sparse s a)) i.
Proof.
  intros Sh V HL. apply maximal_b_spec. rewrite (maximal_b_mask n) by (apply step_r_shape; auto).
  rewrite valid_step_state by auto. rewrite (last_valid_step rnd sparse s a HL V). reflexivity.
Qed.

(* ---------- float32: the rounding function ---------- *)
Lemma rne24_pos_nonneg m : 0 <= m -> 0 <= rne24_pos m.
Proof.
  intro H. unfold rne24_pos. destruct (m <? 16777216); [lia|].
  assert (P : 0 <= 2 ^ (Z.log2 m - 23)) by (apply Z.pow_nonneg; lia).
  apply Z.mul_nonneg_nonneg; [|exact P].
  assert (0 <= m / 2 ^ (Z.log2 m - 23)).
  { destruct (Z.eq_dec (2 ^ (Z.log2 m - 23)) 0) as [E|E]; [rewrite E, Zdiv_0_r; lia|apply Z.div_pos; lia]. }
  destruct (_ || _); lia.
Qed.

Lemma rne24_nonneg x : 0 <= x -> 0 <= rne24 x.
Proof. intro H. unfold rne24. destruct (x <? 0) eqn:E; [lia|]. apply rne24_pos_nonneg; auto. Qed.

(* binary32 is exact on integers below 2^24: on a dyadic grid of step 2^-k with budgets below 2^(24-k) *)
Lemma rne24_small x : 0 <= x < 16777216 -> rne24 x = x.
Proof. intro H. unfold rne24, rne24_pos. destruct (x <? 0) eqn:E; [lia|]. destruct (x <? 16777216) eqn:F; lia. Qed.

Theorem C06_budget_nonneg_float32 sparse s a : 0 <= budget s -> 0 <= budget (fst (step_r rne24 sparse s a)).
Proof. apply C06_budget_nonneg. exact rne24_nonneg. Qed.

(* on such a grid the float32 step IS the exact step *)
Theorem float_step_exact sparse s a :
  0 <= budget s < 16777216 -> Forall (fun w => 0 <= w) (weights s) ->
  step_r rne24 sparse s a = step sparse s a.
Proof.
  intros Hb Hw. unfold step.
  assert (E : valid s a = true -> update_r rne24 s a = update_r rid s a).
  { intro V. unfold update_r. f_equal. unfold rid. apply rne24_small.
    assert (0 <= jget 0 (weights s) a) by (apply (jget_Forall (fun w => 0 <= w)); [lia|auto]).
    unfold valid in V. lia. }
  unfold step_r. destruct (valid s a) eqn:V; [rewrite (E eq_refl)|]; reflexivity.
Qed.

(* float32 note: OFF the grid the rounded subtraction can hand back budget it has spent.  Scale 2^25:
   budget 1.0, weights [2^-25; 1.0]:  1.0 - 2^-25 is a tie and rounds (to even) back to 1.0, so both items are
   packed: exact packed weight 1 + 2^-25 > 1.0.  Reproduced on the real environment by the harness (recorded as a note). *)
Example float32_overpack :
  let s0 := fst (init 2 33554432 [1; 33554432] [5; 5]) in
  let s1 := fst (step_r rne24 false s0 0) in
  let s2 := fst (step_r rne24 false s1 1) in
  legal s0 0 /\ budget s1 = 33554432 /\ legal s1 1 /\ packed s2 = [true; true] /\ budget s2 = 0
  /\ packed_weight s2 = 33554433 /\ ~ packed_weight s2 <= 33554432
  /\ (* the exact model on the same instance refuses the second item *)
     ~ legal (fst (step false s0 0)) 1.
Proof. vm_compute. repeat split; try reflexivity; try discriminate; intuition (try discriminate). Qed.

(* ---------- C09: the implementation model is the declarative rules, for every in-spec action ---------- *)
Theorem C09_step_is_rules n sparse s a :
  shape n s -> 0 <= a < n -> step sparse s a = step_rules n sparse s a.
Proof.
  intros Sh Ha. unfold step_rules. destruct (legal_b s a) eqn:L.
  - assert (V : valid s a = true) by (rewrite (valid_legal n); auto).
    assert (Sh' : shape n (pack s a)).
    { rewrite <- (update_pack n) by auto. pose proof (step_r_shape n rid sparse s a Sh) as H.
      rewrite valid_step_state in H by auto. exact H. }
    rewrite (maximal_b_mask n) by auto.
    unfold step, step_r. rewrite V. fold (update s a). rewrite (update_pack n) by auto.
    cbn [negb]. rewrite orb_false_r.
    destruct Sh as (Lw & Lv & Lp).
    unfold reward_of. rewrite jget_znth by lia.
    destruct (existsb (fun b => b) (mask (pack s a))); cbn [negb andb cond_done]; destruct sparse; reflexivity.
  - unfold step. apply invalid_step. rewrite (valid_legal n); auto.
Qed.

(* ---------- episodes ---------- *)
(* run stops at the first LAST *)
Fixpoint run (rnd : Z -> Z) (sparse : bool) (s : state) (acts : list Z) : list (state * tstep) :=
  match acts with
  | [] => []
  | a :: r => let p := step_r rnd sparse s a in p :: (if st (snd p) =? LAST then [] else run rnd sparse (fst p) r)
  end.
Definition ret (tr : list (state * tstep)) : Z := zsum (map (fun p => zsum (reward (snd p))) tr).
Definition final (tr : list (state * tstep)) (s : state) : state := fst (last tr (s, mkTS MID [] [])).
Definition ended (tr : list (state * tstep)) : Prop := st (snd (last tr (mkS [] [] [] 0, mkTS MID [] []))) = LAST.
(* mask-respecting play: every chosen item is in-spec and legal *)
Fixpoint legal_run (n : Z) (sparse : bool) (s : state) (acts : list Z) : Prop :=
  match acts with
  | [] => True
  | a :: r => 0 <= a < n /\ legal s a /\ (st (snd (step sparse s a)) = LAST \/ legal_run n sparse (fst (step sparse s a)) r)
  end.

Lemma last_cons_indep {A} (l : list A) x d d' : last (x :: l) d = last (x :: l) d'.
Proof.
  revert x; induction l as [|y l IH]; intro x; [reflexivity|].
  change (last (y :: l) d = last (y :: l) d'). apply IH.
Qed.

Lemma final_cons p tl s s' : final (p :: tl) s = final (p :: tl) s'.
Proof. unfold final. f_equal. apply last_cons_indep. Qed.

(* C06 along whole episodes, for ANY in-spec actions *)
Theorem C06_run_Feasible n total sparse acts : forall s,
  shape n s -> Feasible total s -> Forall (fun a => 0 <= a < n) acts ->
  Forall (fun p => Feasible total (fst p) /\ packed_weight (fst p) <= total) (run rid sparse s acts).
Proof.
  induction acts as [|a r IH]; intros s Sh F HA; cbn [run]; [constructor|].
  inversion HA as [|? ? Ha HA']; subst.
  pose proof (C06_step_preserves_Feasible n total sparse s a Sh Ha F) as F'.
  pose proof (step_r_shape n rid sparse s a Sh) as Sh'.
  constructor; [split; [exact F'|apply Feasible_within_budget; exact F']|].
  destruct (st (snd (step_r rid sparse s a)) =? LAST); [constructor|]. apply IH; auto.
Qed.

(* ---------- C08: the return is the packed value; dense and sparse agree ---------- *)
Lemma dense_reward n s a : shape n s -> 0 <= a < n ->
  reward (snd (step false s a)) = [packed_value (fst (step false s a)) - packed_value s].
Proof.
  intros Sh Ha. rewrite (C09_step_is_rules n) by auto. unfold step_rules.
  destruct (legal_b s a) eqn:L.
  - apply legal_b_spec in L. pose proof (pack_value n s a Sh Ha L) as PV.
    destruct (maximal_b n (pack s a)); cbn [fst snd reward termination transition]; f_equal; lia.
  - cbn [fst snd reward termination]. f_equal. lia.
Qed.

(* dense: for ANY in-spec action sequence the rewards telescope to the value packed during the episode *)
Theorem C08_dense_return n acts : forall s,
  shape n s -> Forall (fun a => 0 <= a < n) acts ->
  ret (run rid false s acts) = packed_value (final (run rid false s acts) s) - packed_value s.
Proof.
  induction acts as [|a r IH]; intros s Sh HA; cbn [run].
  - unfold ret, final; cbn. lia.
  - inversion HA as [|? ? Ha HA']; subst.
    pose proof (dense_reward n s a Sh Ha) as R. unfold step in R.
    pose proof (step_r_shape n rid false s a Sh) as Sh'.
    unfold ret. cbn [map zsum]. rewrite R. cbn [zsum].
    destruct (st (snd (step_r rid false s a)) =? LAST).
    + unfold final; cbn [last fst map zsum]. lia.
    + specialize (IH _ Sh' HA'). unfold ret in IH. rewrite IH.
      destruct (run rid false (fst (step_r rid false s a)) r) as [|p tl] eqn:Er.
      * unfold final; cbn [last fst]. lia.
      * rewrite (final_cons p tl (fst (step_r rid false s a)) s).
        change (final (step_r rid false s a :: p :: tl) s) with (final (p :: tl) s). lia.
Qed.

Lemma sparse_reward n s a : shape n s -> 0 <= a < n -> legal s a ->
  reward (snd (step true s a)) = [if st (snd (step true s a)) =? LAST then packed_value (fst (step true s a)) else 0].
Proof.
  intros Sh Ha L. rewrite (C09_step_is_rules n) by auto. unfold step_rules.
  apply legal_b_spec in L. rewrite L. destruct (maximal_b n (pack s a)); reflexivity.
Qed.

(* sparse: a mask-respecting episode that ends pays exactly the packed value of its final state *)
Theorem C08_sparse_return n acts : forall s,
  shape n s -> legal_run n true s acts -> ended (run rid true s acts) ->
  ret (run rid true s acts) = packed_value (final (run rid true s acts) s).
Proof.
  induction acts as [|a r IH]; intros s Sh HL HE; cbn [run] in *.
  - unfold ended in HE. cbn in HE. discriminate.
  - destruct HL as (Ha & Lg & Hrest).
    pose proof (sparse_reward n s a Sh Ha Lg) as R. unfold step in R, Hrest.
    pose proof (step_r_shape n rid true s a Sh) as Sh'.
    unfold ret. cbn [map zsum]. rewrite R. cbn [zsum].
    destruct (st (snd (step_r rid true s a)) =? LAST) eqn:E.
    + unfold final; cbn [last fst map zsum]. lia.
    + destruct Hrest as [HLa|Hrest]; [rewrite HLa in E; discriminate E|].
      destruct (run rid true (fst (step_r rid true s a)) r) as [|p tl] eqn:Er.
      * unfold ended in HE. cbn [last snd] in HE. rewrite HE in E. discriminate E.
      * assert (HE' : ended (p :: tl)) by exact HE.
        rewrite <- Er in HE'. specialize (IH _ Sh' Hrest HE'). unfold ret in IH. rewrite Er in IH. rewrite IH.
        rewrite (final_cons p tl (fst (step_r rid true s a)) s).
        change (final (step_r rid true s a :: p :: tl) s) with (final (p :: tl) s). lia.
Qed.

(* the two reward functions drive the same states and step types *)
Lemma step_sparse_indep rnd s a :
  fst (step_r rnd true s a) = fst (step_r rnd false s a) /\ st (snd (step_r rnd true s a)) = st (snd (step_r rnd false s a)).
Proof. unfold step_r. cbn [fst snd]. split; [reflexivity|]. destruct (_ || _); reflexivity. Qed.

Lemma run_sparse_indep rnd acts : forall s,
  map fst (run rnd true s acts) = map fst (run rnd false s acts)
  /\ map (fun p => st (snd p)) (run rnd true s acts) = map (fun p => st (snd p)) (run rnd false s acts).
Proof.
  induction acts as [|a r IH]; intro s; cbn [run map]; [auto|].
  destruct (step_sparse_indep rnd s a) as (E1 & E2). rewrite E1, E2.
  destruct (st (snd (step_r rnd false s a)) =? LAST); cbn [map]; [auto|].
  destruct (IH (fst (step_r rnd false s a))) as (I1 & I2). rewrite I1, I2. auto.
Qed.

Lemma last_map {A B} (f : A -> B) l d : last (map f l) (f d) = f (last l d).
Proof. induction l as [|x l IH]; [reflexivity|]. cbn [map]. destruct l; [reflexivity|]. exact IH. Qed.

Lemma final_sparse_indep acts s : final (run rid true s acts) s = final (run rid false s acts) s.
Proof.
  unfold final. rewrite <- !(last_map fst). destruct (run_sparse_indep rid acts s) as (E & _). rewrite E. reflexivity.
Qed.

Lemma legal_run_sparse_indep n acts : forall s, legal_run n true s acts -> legal_run n false s acts.
Proof.
  induction acts as [|a r IH]; intros s H; cbn [legal_run] in *; [auto|].
  destruct H as (Ha & L & Hr). split; [auto|split; [auto|]]. unfold step in *.
  destruct (step_sparse_indep rid s a) as (E1 & E2). rewrite <- E1, <- E2.
  destruct Hr; [left; auto|right; apply IH; auto].
Qed.

Lemma legal_run_in_spec n sparse acts : forall s, legal_run n sparse s acts -> shape n s ->
  exists k, Forall (fun a => 0 <= a < n) (firstn k acts) /\ run rid sparse s acts = run rid sparse s (firstn k acts).
Proof.
  induction acts as [|a r IH]; intros s H Sh; [exists 0%nat; split; [constructor|reflexivity]|].
  destruct H as (Ha & L & Hr). unfold step in Hr. destruct Hr as [HL|Hr].
  - exists 1%nat. cbn [firstn run]. split; [repeat constructor; lia|]. rewrite HL. reflexivity.
  - destruct (IH _ Hr (step_r_shape n rid sparse s a Sh)) as (k & F & E). exists (S k). cbn [firstn run].
    split; [constructor; auto|]. rewrite <- E. reflexivity.
Qed.

(* C08, both reward functions on the same mask-respecting trajectory run to termination from a reset state *)
Theorem C08_return_is_packed_value n total w v acts :
  0 <= n -> zlen w = n -> zlen v = n ->
  let s0 := fst (init n total w v) in
  legal_run n true s0 acts -> ended (run rid true s0 acts) ->
  ret (run rid true s0 acts) = packed_value (final (run rid true s0 acts) s0)
  /\ ret (run rid false s0 acts) = packed_value (final (run rid true s0 acts) s0).
Proof.
  intros Hn Lw Lv s0 HL HE.
  assert (Sh : shape n s0) by (apply init_shape; auto).
  split; [apply (C08_sparse_return n); auto|].
  rewrite final_sparse_indep.
  destruct (legal_run_in_spec n false acts s0 (legal_run_sparse_indep n acts s0 HL) Sh) as (k & F & E).
  rewrite E. rewrite (C08_dense_return n) by auto.
  unfold s0 at 3, init, packed_value; cbn [fst packed]. rewrite dotb_repeat_false. lia.
Qed.

(* ---------- C11: the structural horizon num_items ---------- *)
Lemma count_cons {A} (f : A -> bool) x l : count_if f (x :: l) = (if f x then 1 else 0) + count_if f l.
Proof. unfold count_if. cbn [filter]. destruct (f x); [rewrite zlen_cons|]; lia. Qed.

Lemma count_nonneg {A} (f : A -> bool) l : 0 <= count_if f l.
Proof. unfold count_if. apply zlen_nonneg. Qed.

Lemma count_upd k p : (k < length p)%nat -> nth k p true = false ->
  count_if negb (upd k true p) = count_if negb p - 1.
Proof.
  revert k; induction p as [|x p IH]; intros k Hk Hn; cbn in Hk; [lia|].
  destruct k; cbn [upd nth] in *.
  - subst x. rewrite !count_cons. cbn [negb]. lia.
  - rewrite !count_cons. rewrite IH by (auto; lia). lia.
Qed.

Lemma count_repeat_false k : count_if negb (repeat false k) = Z.of_nat k.
Proof. induction k; [reflexivity|]. cbn [repeat]. rewrite count_cons, IHk. cbn [negb]. lia. Qed.

Lemma mask_some_unpacked b p w : existsb (fun x => x) (mask_of b p w) = true -> 1 <= count_if negb p.
Proof.
  revert w; induction p as [|x p IH]; intros [|y w] H; cbn in H; try discriminate.
  rewrite count_cons. pose proof (count_nonneg negb p).
  destruct x; cbn [negb andb orb] in *; [apply IH in H; lia|lia].
Qed.

Lemma mid_unpacked n rnd sparse s a :
  shape n s -> 0 <= a < n -> st (snd (step_r rnd sparse s a)) = MID ->
  unpacked (fst (step_r rnd sparse s a)) = unpacked s - 1 /\ 1 <= unpacked (fst (step_r rnd sparse s a)).
Proof.
  intros Sh Ha Hm. destruct (mid_step _ _ _ _ Hm) as (V & Ex).
  rewrite valid_step_state by auto. split.
  - unfold unpacked, update_r; cbn [packed]. destruct Sh as (Lw & Lv & Lp).
    rewrite jset_zupd, zupd_upd by lia. apply count_upd; [unfold zlen in *; lia|].
    rewrite (valid_legal n) in V by (unfold shape; auto). rewrite legal_b_nth in V by lia.
    destruct (nth (Z.to_nat a) (packed s) true); [discriminate|reflexivity].
  - unfold mask in Ex. apply mask_some_unpacked in Ex. exact Ex.
Qed.

Lemma run_bound n rnd sparse acts : forall s,
  shape n s -> Forall (fun a => 0 <= a < n) acts ->
  Z.of_nat (length (run rnd sparse s acts)) <= Z.max 1 (unpacked s)
  /\ (~ ended (run rnd sparse s acts) -> Z.of_nat (length (run rnd sparse s acts)) < Z.max 1 (unpacked s)).
Proof.
  induction acts as [|a r IH]; intros s Sh HA; cbn [run length].
  - lia.
  - inversion HA as [|? ? Ha HA']; subst.
    destruct (step_type_cases rnd sparse s a) as [Hmid|HL].
    + assert (Hne : (st (snd (step_r rnd sparse s a)) =? LAST) = false) by (rewrite Hmid; reflexivity).
      rewrite Hne. destruct (mid_unpacked n rnd sparse s a Sh Ha Hmid) as (U1 & U2).
      destruct (IH _ (step_r_shape n rnd sparse s a Sh) HA') as (B1 & B2). cbn [length].
      split; [lia|]. intro NE.
      destruct (run rnd sparse (fst (step_r rnd sparse s a)) r) as [|p tl] eqn:Er; [cbn [length]; lia|].
      assert (~ ended (p :: tl)) by (intro E; apply NE; exact E). specialize (B2 H). cbn [length] in *. lia.
    + assert (He : (st (snd (step_r rnd sparse s a)) =? LAST) = true) by (rewrite HL; reflexivity).
      rewrite He. cbn [length]. split; [lia|]. intro NE. exfalso. apply NE. exact HL.
Qed.

(* never later: an episode has at most max(1, #unpacked items) steps, for every in-spec action sequence and
   every rounding (so also in float32) *)
Theorem C11_horizon n rnd sparse acts s :
  shape n s -> Forall (fun a => 0 <= a < n) acts ->
  Z.of_nat (length (run rnd sparse s acts)) <= Z.max 1 (unpacked s).
Proof. intros Sh HA. apply (run_bound n rnd sparse acts s Sh HA). Qed.

Lemma run_not_ended_length rnd sparse acts : forall s,
  ~ ended (run rnd sparse s acts) -> length (run rnd sparse s acts) = length acts.
Proof.
  induction acts as [|a r IH]; intros s NE; cbn [run length] in *; [reflexivity|].
  destruct (st (snd (step_r rnd sparse s a)) =? LAST) eqn:E.
  - exfalso. apply NE. unfold ended. cbn [last snd]. lia.
  - cbn [length]. f_equal. apply IH. intro En. apply NE.
    destruct (run rnd sparse (fst (step_r rnd sparse s a)) r) as [|p tl] eqn:Er; [cbn in En; discriminate|exact En].
Qed.

Lemma init_unpacked n total w v : 0 <= n -> unpacked (fst (init n total w v)) = n.
Proof. intro H. unfold init, unpacked; cbn [fst packed]. rewrite count_repeat_false. lia. Qed.

(* from a reset state: at most num_items steps, and any num_items in-spec actions DO reach LAST *)
Theorem C11_episode_within_num_items n total w v rnd sparse acts :
  1 <= n -> zlen w = n -> zlen v = n -> Forall (fun a => 0 <= a < n) acts ->
  let tr := run rnd sparse (fst (init n total w v)) acts in
  Z.of_nat (length tr) <= n /\ (n <= Z.of_nat (length acts) -> ended tr).
Proof.
  intros Hn Lw Lv HA tr.
  assert (Sh : shape n (fst (init n total w v))) by (apply init_shape; auto; lia).
  destruct (run_bound n rnd sparse acts _ Sh HA) as (B1 & B2). rewrite init_unpacked in * by lia.
  fold tr in B1, B2. split; [lia|]. intro Hlen.
  destruct (Z.eq_dec (st (snd (last tr (mkS [] [] [] 0, mkTS MID [] [])))) LAST) as [E|E]; [exact E|].
  exfalso. specialize (B2 E). pose proof (run_not_ended_length rnd sparse acts _ E) as L. fold tr in L. lia.
Qed.

(* ---------- C10: generated instances ---------- *)
Lemma forallb_weaken {A} (f g : A -> bool) l : (forall x, f x = true -> g x = true) -> forallb f l = true -> forallb g l = true.
Proof. intros H. rewrite !forallb_forall. auto. Qed.

Theorem C10_init_wf n total sc w v :
  0 <= n -> valid_draw n sc w v = true ->
  let s0 := fst (init n total w v) in
  shape n s0 /\ ranges_b sc s0 = true /\ packed s0 = repeat false (Z.to_nat n) /\ budget s0 = total
  /\ unpacked s0 = n /\ packed_weight s0 = 0 /\ packed_value s0 = 0 /\ snd (init n total w v) = restart 1
  /\ (forall i, 0 <= i < n -> 0 <= znth 0 w i < sc /\ 0 <= znth 0 v i < sc).
Proof.
  intros Hn H s0. unfold valid_draw in H. rewrite !andb_true_iff, !Z.eqb_eq in H. destruct H as (((Lw & Lv) & Fw) & Fv).
  split; [apply init_shape; auto|]. split.
  { unfold ranges_b, s0, init; cbn [fst weights values]. apply andb_true_iff.
    assert (W : forall x, (0 <=? x) && (x <? sc) = true -> (0 <=? x) && (x <=? sc) = true) by (intros x Hx; lia).
    split; [exact (forallb_weaken _ _ w W Fw)|exact (forallb_weaken _ _ v W Fv)]. }
  split; [reflexivity|]. split; [reflexivity|]. split; [apply init_unpacked; auto|].
  split; [unfold packed_weight, s0, init; cbn; apply dotb_repeat_false|].
  split; [unfold packed_value, s0, init; cbn; apply dotb_repeat_false|]. split; [reflexivity|].
  intros i Hi. rewrite forallb_forall in Fw, Fv. rewrite !znth_nth by lia.
  assert (In (nth (Z.to_nat i) w 0) w) by (apply nth_In; unfold zlen in *; lia).
  assert (In (nth (Z.to_nat i) v 0) v) by (apply nth_In; unfold zlen in *; lia).
  apply Fw in H. apply Fv in H0. lia.
Qed.

(* ---------- C12: the observation is the documented view of the state ---------- *)
Theorem C12_observation n s : shape n s ->
  observe s = (weights s, values s, packed s, map (legal_b s) (zrange n)).
Proof. intro Sh. unfold observe. rewrite (mask_eq_map n s Sh). reflexivity. Qed.

(* ---------- C01 / C03: declared ranges and the protocol ---------- *)
Theorem C01_ranges_preserved sc rnd sparse s a :
  ranges_b sc s = true -> ranges_b sc (fst (step_r rnd sparse s a)) = true.
Proof. intro H. unfold ranges_b. destruct (step_r_instance rnd sparse s a) as (E1 & E2). rewrite E1, E2. exact H. Qed.

Theorem C03_step_protocol rnd sparse s a : step_ok 1 false (snd (step_r rnd sparse s a)) = true.
Proof. unfold step_r. cbn [snd]. destruct (_ || _); reflexivity. Qed.

Theorem C03_init_protocol n total w v : first_ok 1 (snd (init n total w v)) = true.
Proof. reflexivity. Qed.

(* ---------- a concrete non-trivial instance (scale 2^10): boundary weight == remaining budget ---------- *)
Example nonvacuous :
  let s0 := fst (init 3 1024 [512; 512; 700] [100; 200; 300]) in
  let s1 := fst (step false s0 1) in
  valid_draw 3 1024 [512; 512; 700] [100; 200; 300] = true /\ shape 3 s0 /\ Feasible 1024 s0
  /\ mask s0 = [true; true; true] /\ legal s0 2
  /\ st (snd (step false s0 1)) = MID /\ reward (snd (step false s0 1)) = [200] /\ reward (snd (step true s0 1)) = [0]
  /\ (* weight 512 == remaining budget 512: still legal; 700 is not; item 1 is packed *)
     budget s1 = 512 /\ mask s1 = [true; false; false] /\ legal s1 0 /\ ~ legal s1 2 /\ ~ legal s1 1
  /\ step true s1 2 = (s1, termination 1 [0]) /\ step false s1 1 = (s1, termination 1 [0])
  /\ st (snd (step true s1 0)) = LAST /\ reward (snd (step true s1 0)) = [300] /\ reward (snd (step false s1 0)) = [100]
  /\ budget (fst (step true s1 0)) = 0 /\ Feasible 1024 (fst (step true s1 0))
  /\ legal_run 3 true s0 [1; 0] /\ ended (run rid true s0 [1; 0])
  /\ ret (run rid true s0 [1; 0]) = 300 /\ ret (run rid false s0 [1; 0]) = 300.
Proof. vm_compute. repeat split; try reflexivity; try discriminate; try lia; intuition (try discriminate; try lia). Qed.

(* out-of-SPEC index note (not covered by any property: the action spec is [0, num_items-1]): JAX clamps the gathers
   and drops the scatter, so action = num_items "packs" the last item's weight and value without marking it packed:
   budget identity broken, the item can be paid for again.  The harness replays such indices against the model too. *)
Example out_of_spec_index_note :
  let s0 := fst (init 2 1024 [100; 300] [7; 9]) in
  let s1 := fst (step false s0 2) in
  packed s1 = [false; false] /\ budget s1 = 724 /\ reward (snd (step false s0 2)) = [9] /\ Feasible_b 1024 s1 = false.
Proof. vm_compute. repeat split; reflexivity. Qed.
