(* Knapsack AS TRANSLATED FROM THE SOURCE (Gen/KnapsackSrc.v: step, _update_state, _state_to_observation, both reward functions) equals
   the hand model Model/Knapsack.v for every state, action, reward function and EVERY rounding function of the budget subtraction
   (identity = exact arithmetic, rne24 = IEEE binary32). *)
Require Import JV.Base.Prelude JV.Base.JaxIndex JV.Base.Codec JV.Base.TimeStep JV.Gen.TimeStepSrc JV.Gen.KnapsackSrc.
Require JV.Model.Knapsack.
Module M := JV.Model.Knapsack.

Definition conv (s : State) : M.state := M.mkS (s_weights s) (s_values s) (s_packed_items s) (s_remaining_budget s).
Definition reward_src (sparse : bool) : State -> Z -> State -> bool -> bool -> Z := if sparse then SparseReward else DenseReward.

Lemma dot_src p v : dot_bf p v = M.dotb p v.
Proof. revert v. induction p as [|x p IH]; intros [|y v]; cbn [dot_bf M.dotb]; try reflexivity; try (rewrite IH; reflexivity). Qed.

Lemma mask_src s : o_action_mask (state_to_observation s) = M.mask (conv s).
Proof.
  unfold state_to_observation, M.mask. cbn [o_action_mask conv M.budget M.packed M.weights].
  generalize (s_remaining_budget s) as b. generalize (s_weights s) as w. generalize (s_packed_items s) as p.
  induction p as [|x p IH]; intros [|y w] b; cbn [map zip_with M.mask_of]; try reflexivity; try (rewrite IH; reflexivity).
Qed.

Lemma update_src rnd s a : conv (update_state rnd s a) = M.update_r rnd (conv s) a.
Proof. reflexivity. Qed.

Lemma reward_fn_src sparse s a s' v d : reward_src sparse s a s' v d = M.reward_of sparse (conv s) a (conv s') v d.
Proof. unfold reward_src, M.reward_of, SparseReward, DenseReward. destruct sparse; cbn [conv M.packed M.values]; [rewrite dot_src|]; reflexivity. Qed.

Theorem step_src rnd sparse s a :
  let r := step rnd (reward_src sparse) s a in
  conv (fst r) = fst (M.step_r rnd sparse (conv s) a) /\ snd r = snd (M.step_r rnd sparse (conv s) a).
Proof.
  cbv zeta. unfold step, M.step_r, M.valid. cbn [conv M.weights M.budget M.packed]. rewrite Z.geb_leb.
  set (v := (jget 0 (s_weights s) a <=? s_remaining_budget s) && negb (jget false (s_packed_items s) a)).
  assert (E : conv (if v then update_state rnd s a else s) = (if v then M.update_r rnd (conv s) a else conv s)) by (destruct v; reflexivity).
  set (s' := if v then update_state rnd s a else s) in *.
  rewrite mask_src, reward_fn_src. cbn [fst snd]. rewrite E. split; [reflexivity|].
  unfold cond_done, termination_src, transition_src, termination, transition, StepType_LAST, StepType_MID, LAST, MID.
  destruct (negb (existsb (fun b : bool => b) (M.mask (if v then M.update_r rnd (conv s) a else conv s))) || negb v); reflexivity.
Qed.

(* ---- the Knapsack theorems, transferred to the translated source ---- *)
Require Import JV.Proofs.Knapsack.
Lemma src_mask_iff_legal n s i : M.shape n (conv s) -> 0 <= i < n ->
  (jget false (o_action_mask (state_to_observation s)) i = true <-> M.legal (conv s) i).
Proof. intros Sh Hi. rewrite mask_src. exact (C04_mask_iff_legal n (conv s) i Sh Hi). Qed.
Lemma src_step_feasible n total sparse s a : M.shape n (conv s) -> 0 <= a < n -> M.Feasible total (conv s) ->
  M.Feasible total (conv (fst (step (fun x => x) (reward_src sparse) s a))).
Proof.
  intros Sh Ha F. destruct (step_src (fun x => x) sparse s a) as [E _]. rewrite E.
  exact (C06_step_preserves_Feasible n total sparse (conv s) a Sh Ha F).
Qed.
Lemma src_float32_budget_nonneg sparse s a : 0 <= s_remaining_budget s ->
  0 <= s_remaining_budget (fst (step M.rne24 (reward_src sparse) s a)).
Proof.
  intros H. destruct (step_src M.rne24 sparse s a) as [E _].
  change (s_remaining_budget (fst (step M.rne24 (reward_src sparse) s a))) with (M.budget (conv (fst (step M.rne24 (reward_src sparse) s a)))).
  rewrite E. exact (C06_budget_nonneg_float32 sparse (conv s) a H).
Qed.

(* C03 on the translated step: never FIRST, MID with discount 1 or LAST with discount 0 (no truncation) -- any state, any action *)
Lemma src_step_protocol rnd sparse s a : step_ok 1 false (snd (step rnd (reward_src sparse) s a)) = true.
Proof. destruct (step_src rnd sparse s a) as [_ E]. rewrite E. apply C03_step_protocol. Qed.
(* C05: an item that is packed already or does not fit ends the episode with zero reward and leaves the state untouched *)
Lemma src_illegal_item n rnd sparse s a : M.shape n (conv s) -> 0 <= a < n -> ~ M.legal (conv s) a ->
  conv (fst (step rnd (reward_src sparse) s a)) = conv s /\ snd (step rnd (reward_src sparse) s a) = termination 1 [0].
Proof.
  intros Sh Ha Hl. destruct (step_src rnd sparse s a) as [E1 E2]. rewrite E1, E2.
  rewrite (C05_illegal_item n rnd sparse (conv s) a Sh Ha Hl). split; reflexivity.
Qed.
(* C12: the translated observation is the state's weights, values and packed flags plus the mask "legal item" *)
Lemma src_observation n s : M.shape n (conv s) ->
  let o := state_to_observation s in
  (o_weights o, o_values o, o_packed_items o, o_action_mask o)
  = (s_weights s, s_values s, s_packed_items s, map (M.legal_b (conv s)) (zrange n)).
Proof.
  intros Sh. cbv zeta. pose proof (C12_observation n (conv s) Sh) as H. unfold M.observe in H.
  rewrite mask_src. injection H as H. rewrite H. reflexivity.
Qed.

(* ---- whole episodes of the translated step: the steps up to and including the first LAST ---- *)
Fixpoint run_src (rnd : Z -> Z) (sparse : bool) (s : State) (acts : list Z) : list (State * tstep) :=
  match acts with
  | [] => []
  | a :: r => let p := step rnd (reward_src sparse) s a in p :: (if st (snd p) =? LAST then [] else run_src rnd sparse (fst p) r)
  end.
Definition cp (p : State * tstep) : M.state * tstep := (conv (fst p), snd p).
Lemma run_src_eq rnd sparse acts : forall s, map cp (run_src rnd sparse s acts) = run rnd sparse (conv s) acts.
Proof.
  induction acts as [|a r IH]; intros s; cbn [run_src run map]; [reflexivity|].
  destruct (step_src rnd sparse s a) as [E1 E2]. unfold cp at 1. rewrite E1, E2, <- surjective_pairing. f_equal.
  destruct (st (snd (M.step_r rnd sparse (conv s) a)) =? LAST); [reflexivity|]. rewrite IH, E1. reflexivity.
Qed.
(* C11: an episode of the translated step lasts at most max(1, number of unpacked items) steps *)
Lemma src_horizon n rnd sparse acts s : M.shape n (conv s) -> Forall (fun a => 0 <= a < n) acts ->
  Z.of_nat (length (run_src rnd sparse s acts)) <= Z.max 1 (M.unpacked (conv s)).
Proof.
  intros Sh F. rewrite <- (map_length cp), run_src_eq. exact (C11_horizon n rnd sparse acts (conv s) Sh F).
Qed.
(* C08: with exact arithmetic the dense return of an episode of the translated step is the value packed by it *)
Lemma src_dense_return n acts s : M.shape n (conv s) -> Forall (fun a => 0 <= a < n) acts ->
  let tr := map cp (run_src M.rid false s acts) in ret tr = M.packed_value (final tr (conv s)) - M.packed_value (conv s).
Proof. intros Sh F. cbv zeta. rewrite run_src_eq. exact (C08_dense_return n acts (conv s) Sh F). Qed.
