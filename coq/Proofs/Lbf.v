(* LevelBasedForaging: list library, protocol / truncation (C03), time limit (C11), the mask is the table of legal
   actions (C04), illegal actions are ignored (C05), the invariant Inv is preserved by EVERY joint action (C07).
   Rewards (C08), generator (C10), observers (C12), rules (C09) are in Lbf_Reward.v / Lbf_Gen.v / Lbf_Obs.v.     *)
From Coq Require Import QArith.
Require Import JV.Base.Prelude JV.Base.JaxIndex JV.Base.Codec JV.Base.TimeStep JV.Proofs.TimeStep_laws JV.Model.Lbf.
Open Scope Z_scope.

(* ---------- list facts ---------- *)
Lemma zlen_map {A B} (f : A -> B) l : zlen (map f l) = zlen l.
Proof. unfold zlen. rewrite map_length. reflexivity. Qed.

Lemma zlen_combine {A B} (a : list A) (b : list B) : zlen a = zlen b -> zlen (combine a b) = zlen a.
Proof. unfold zlen. rewrite combine_length. lia. Qed.

Lemma map2_length {A B C} (f : A -> B -> C) a b : length (map2 f a b) = Nat.min (length a) (length b).
Proof. revert b; induction a as [|x a IH]; intros [|y b]; cbn [map2 length]; auto. rewrite IH. reflexivity. Qed.

Lemma map_fst_combine {A B} (a : list A) (b : list B) : length a = length b -> map fst (combine a b) = a.
Proof. revert b; induction a as [|x a IH]; intros [|y b] H; cbn in *; try lia; auto. f_equal. apply IH. lia. Qed.

Lemma in_combine_fst {A B} (a : list A) (b : list B) x : In x (combine a b) -> In (fst x) a.
Proof. destruct x as [u v]. apply in_combine_l. Qed.

Lemma combine_fun {A B} (a : list A) (b : list B) x y :
  NoDup a -> In x (combine a b) -> In y (combine a b) -> fst x = fst y -> x = y.
Proof.
  revert b. induction a as [|h a IH]; intros [|k b] N Hx Hy E; cbn [combine] in *; try contradiction.
  inversion N as [|? ? Nh Na]; subst.
  destruct Hx as [Hx|Hx], Hy as [Hy|Hy].
  - congruence.
  - subst x. cbn [fst] in E. apply in_combine_fst in Hy. rewrite <- E in Hy. contradiction.
  - subst y. cbn [fst] in E. apply in_combine_fst in Hx. rewrite E in Hx. contradiction.
  - eapply IH; eauto.
Qed.

Lemma NoDup_map_on {A B} (f : A -> B) l :
  NoDup l -> (forall x y, In x l -> In y l -> f x = f y -> x = y) -> NoDup (map f l).
Proof.
  induction 1 as [|h l Nh N IH]; intro Inj; cbn [map]; constructor.
  - intro C. apply in_map_iff in C as [y [E Hy]]. assert (y = h) by (apply Inj; cbn; auto). subst. contradiction.
  - apply IH. intros x y Hx Hy. apply Inj; cbn; auto.
Qed.

Lemma NoDup_map_inj_on {A B} (f : A -> B) l x y :
  NoDup (map f l) -> In x l -> In y l -> f x = f y -> x = y.
Proof.
  induction l as [|h l IH]; intros N Hx Hy E; [contradiction|].
  cbn [map] in N. inversion N as [|? ? Nh Nl]; subst.
  destruct Hx as [Hx|Hx], Hy as [Hy|Hy]; subst; auto.
  - exfalso. apply Nh. rewrite E. apply in_map. exact Hy.
  - exfalso. apply Nh. rewrite <- E. apply in_map. exact Hx.
Qed.

Lemma NoDup_of_map {A B} (f : A -> B) l : NoDup (map f l) -> NoDup l.
Proof.
  induction l as [|h l IH]; intro N; constructor; cbn [map] in N; inversion N as [|? ? Nh Nl]; subst.
  - intro C. apply Nh. apply in_map. exact C.
  - auto.
Qed.

Lemma pos_eqb_eq p q : pos_eqb p q = true <-> p = q.
Proof. destruct p, q. unfold pos_eqb. cbn [fst snd]. split; intro H; [f_equal; lia|inversion H; lia]. Qed.

Lemma pos_eqb_refl p : pos_eqb p p = true.
Proof. apply pos_eqb_eq. reflexivity. Qed.

Lemma count_if_cons {A} (f : A -> bool) x l : count_if f (x :: l) = b2z (f x) + count_if f l.
Proof. unfold count_if. cbn [filter]. destruct (f x); cbn [b2z]; rewrite ?zlen_cons; lia. Qed.

Lemma count_if_nonneg {A} (f : A -> bool) l : 0 <= count_if f l.
Proof. unfold count_if. apply zlen_nonneg. Qed.

Lemma count_if_pos {A B} (g : B -> A) (f : A -> bool) l y : In y l -> f (g y) = true -> 1 <= count_if f (map g l).
Proof.
  induction l as [|h l IH]; intros Hy Fy; [contradiction|]. cbn [map]. rewrite count_if_cons.
  pose proof (count_if_nonneg f (map g l)).
  destruct Hy as [Hy|Hy]; [subst; rewrite Fy; cbn [b2z]; lia|]. specialize (IH Hy Fy). destruct (f (g h)); cbn [b2z]; lia.
Qed.

(* two different members satisfying the test: the count is at least 2 *)
Lemma count_if_two {A B} (g : B -> A) (f : A -> bool) l x y :
  In x l -> In y l -> x <> y -> f (g x) = true -> f (g y) = true -> 2 <= count_if f (map g l).
Proof.
  induction l as [|h l IH]; intros Hx Hy Ne Fx Fy; [contradiction|]. cbn [map]. rewrite count_if_cons.
  destruct Hx as [Hx|Hx], Hy as [Hy|Hy].
  - congruence.
  - subst h. rewrite Fx. pose proof (count_if_pos g f l y Hy Fy). cbn [b2z]. lia.
  - subst h. rewrite Fy. pose proof (count_if_pos g f l x Hx Fx). cbn [b2z]. lia.
  - specialize (IH Hx Hy Ne Fx Fy). destruct (f (g h)); cbn [b2z]; lia.
Qed.

Lemma existsb_false_forall {A} (f : A -> bool) l : existsb f l = false <-> forall x, In x l -> f x = false.
Proof.
  split.
  - intros H x Hx. destruct (f x) eqn:E; auto. assert (existsb f l = true) by (apply existsb_exists; eauto). congruence.
  - intro H. destruct (existsb f l) eqn:E; auto. apply existsb_exists in E as [x [Hx Fx]]. rewrite H in Fx; auto.
Qed.

(* ---------- shape of a step ---------- *)
Lemma step_cnt c s acts : cnt (fst (step c s acts)) = cnt s + 1.
Proof. reflexivity. Qed.
Lemma step_agents_eq c s acts : agents (fst (step c s acts)) = step_agents c s acts.
Proof. reflexivity. Qed.
Lemma step_foods_eq c s acts : foods (fst (step c s acts)) = map (eat (step_agents c s acts)) (foods s).
Proof. reflexivity. Qed.

Lemma step_agents_length c s acts : zlen (agents s) = zlen acts -> zlen (step_agents c s acts) = zlen (agents s).
Proof. intro H. unfold step_agents, move_agents. rewrite zlen_map. apply zlen_combine. exact H. Qed.

Lemma vadd_length u v : length (vadd u v) = Nat.min (length u) (length v).
Proof. apply map2_length. Qed.

Lemma food_reward_length c lt ags f : length (food_reward c lt ags f) = length ags.
Proof. unfold food_reward, adj_levels. rewrite !map_length. reflexivity. Qed.

Lemma rewards_length c ags fs : length (rewards c ags fs) = length ags.
Proof.
  unfold rewards. generalize (zsum (map flvl fs)) at 1. intro lt.
  induction fs as [|f fs IH]; cbn [fold_right]; [apply repeat_length|].
  rewrite vadd_length, food_reward_length, IH. lia.
Qed.

Lemma step_rewards_length c s acts : zlen (agents s) = zlen acts -> zlen (step_rewards c s acts) = zlen (agents s).
Proof.
  intro H. unfold step_rewards. unfold zlen at 1. rewrite rewards_length. fold (zlen (step_agents c s acts)).
  apply step_agents_length. exact H.
Qed.

Definition all_eaten (s : state) : bool := forallb featen (foods s).

Lemma step_ts c s acts :
  snd (step c s acts) =
  let k := Z.to_nat (nag c) in let rw := map Qnum (step_rewards c s acts) in
  if all_eaten (fst (step c s acts)) then termination k rw
  else if tlim c <=? cnt s + 1 then truncation k rw else transition k rw.
Proof. reflexivity. Qed.

(* ---------- C03: FIRST / MID / LAST, truncation exactly at the limit with food left ---------- *)
Theorem C03_first c coop d : first_ok (Z.to_nat (nag c)) (snd (init c coop d)) = true.
Proof. apply restart_first_ok. Qed.

Lemma reward_code_length c s acts :
  zlen (agents s) = nag c -> zlen acts = nag c -> length (map Qnum (step_rewards c s acts)) = Z.to_nat (nag c).
Proof.
  intros Ha Hc. rewrite map_length. pose proof (step_rewards_length c s acts) as L. unfold zlen in *. lia.
Qed.

Theorem C03_step c s acts :
  zlen (agents s) = nag c -> zlen acts = nag c -> 0 < nag c ->
  step_ok (Z.to_nat (nag c)) (tlim c <=? cnt s + 1) (snd (step c s acts)) = true.
Proof.
  intros Ha Hc Hn. rewrite step_ts. cbv zeta. pose proof (reward_code_length c s acts Ha Hc) as L.
  destruct (all_eaten _); [apply termination_step_ok; exact L|].
  destruct (tlim c <=? cnt s + 1); [apply truncation_step_ok; exact L|apply transition_step_ok; [lia|exact L]].
Qed.

(* the step type and the discount, exactly *)
Theorem step_type_exact c s acts :
  st (snd (step c s acts)) = if all_eaten (fst (step c s acts)) || (tlim c <=? cnt s + 1) then LAST else MID.
Proof. rewrite step_ts. cbv zeta. destruct (all_eaten _); [reflexivity|]. destruct (tlim c <=? cnt s + 1); reflexivity. Qed.

Theorem discount_exact c s acts :
  discount (snd (step c s acts)) = repeat (if all_eaten (fst (step c s acts)) then 0 else 1) (Z.to_nat (nag c)).
Proof. rewrite step_ts. cbv zeta. destruct (all_eaten _); [reflexivity|]. destruct (tlim c <=? cnt s + 1); reflexivity. Qed.

(* truncation = LAST with unit discount: exactly at the time limit with uneaten food left *)
Theorem C03_truncation_iff c s acts : 0 < nag c ->
  (st (snd (step c s acts)) = LAST /\ discount (snd (step c s acts)) = repeat 1 (Z.to_nat (nag c)))
  <-> (tlim c <= cnt s + 1 /\ all_eaten (fst (step c s acts)) = false).
Proof.
  intro Hn. rewrite step_type_exact, discount_exact. destruct (all_eaten _); cbn [orb].
  - split; [intros [_ H]|intros [_ H]; discriminate].
    exfalso. destruct (Z.to_nat (nag c)) eqn:E; [lia|]. cbn [repeat] in H. discriminate.
  - destruct (tlim c <=? cnt s + 1) eqn:E; split; intros [H1 H2]; try (unfold LAST, MID in *; lia); split; auto; lia.
Qed.

(* ---------- C11 ---------- *)
Theorem C11_at_limit_last c s acts : tlim c <= cnt s + 1 -> st (snd (step c s acts)) = LAST.
Proof. intro H. rewrite step_type_exact. replace (tlim c <=? cnt s + 1) with true by lia. rewrite orb_true_r. reflexivity. Qed.

Theorem C11_last_cause c s acts :
  st (snd (step c s acts)) = LAST -> tlim c <= cnt s + 1 \/ other_cause c s acts = true.
Proof.
  rewrite step_type_exact. unfold other_cause. fold (all_eaten (fst (step c s acts))).
  destruct (all_eaten _); [auto|]. cbn [orb]. destruct (tlim c <=? cnt s + 1) eqn:E; [left; lia|unfold LAST, MID; lia].
Qed.

Theorem C11_last_iff c s acts :
  st (snd (step c s acts)) = LAST <-> (other_cause c s acts = true \/ tlim c <= cnt s + 1).
Proof.
  split; [intro H; apply C11_last_cause in H; tauto|].
  intros [H|H]; [|apply C11_at_limit_last; exact H].
  rewrite step_type_exact. unfold other_cause in H. unfold all_eaten. rewrite H. reflexivity.
Qed.

Theorem C11_never_later c al : forall s, cnt s < tlim c -> zlen (episode c s al) <= tlim c - cnt s.
Proof.
  induction al as [|a al IH]; intros s H; cbn [episode].
  - change (zlen []) with 0. lia.
  - destruct (st (snd (step c s a)) =? LAST) eqn:E.
    + change (zlen [snd (step c s a)]) with 1. lia.
    + rewrite zlen_cons. destruct (Z_lt_dec (cnt s + 1) (tlim c)) as [Lt|Ge].
      * specialize (IH (fst (step c s a))). rewrite step_cnt in IH. specialize (IH Lt). lia.
      * rewrite (C11_at_limit_last c s a) in E by lia. unfold LAST in E. lia.
Qed.

Theorem C11_exact c al : forall s,
  cnt s < tlim c -> tlim c - cnt s <= zlen al -> no_other c s al = true ->
  zlen (episode c s al) = tlim c - cnt s /\ st (last (episode c s al) (restart 1)) = LAST.
Proof.
  induction al as [|a al IH]; intros s H L NO.
  - change (zlen []) with 0 in L. lia.
  - cbn [no_other] in NO. apply andb_true_iff in NO as [NO1 NO2]. apply negb_true_iff in NO1.
    cbn [episode]. rewrite zlen_cons in L. pose proof (step_type_exact c s a) as ST.
    unfold other_cause in NO1. unfold all_eaten in ST. rewrite NO1 in ST. cbn [orb] in ST.
    destruct (tlim c <=? cnt s + 1) eqn:E; rewrite ST.
    + change (LAST =? LAST) with true. cbv iota. change (zlen [snd (step c s a)]) with 1.
      split; [lia|]. cbn [last]. exact ST.
    + change (MID =? LAST) with false. cbv iota.
      specialize (IH (fst (step c s a))). rewrite step_cnt in IH.
      destruct IH as [I1 I2]; [lia|lia|exact NO2|]. rewrite zlen_cons. split; [lia|].
      destruct (episode c (fst (step c s a)) al) eqn:EP; [change (zlen []) with 0 in I1; lia|exact I2].
Qed.

(* ---------- C04: the mask is the table of legal actions ---------- *)
Lemma negb_existsb {A} (f : A -> bool) l : negb (existsb f l) = forallb (fun x => negb (f x)) l.
Proof. induction l as [|h l IH]; cbn [existsb forallb]; auto. rewrite negb_orb, IH. reflexivity. Qed.

Lemma forallb_ext_in {A} (f g : A -> bool) l : (forall x, In x l -> f x = g x) -> forallb f l = forallb g l.
Proof.
  induction l as [|h l IH]; intro H; cbn [forallb]; auto. rewrite H by (cbn; auto). rewrite IH; auto.
  intros x Hx. apply H. cbn; auto.
Qed.

Lemma oob_in_grid g x y : negb (oob g x y) = in_grid g x y.
Proof. unfold oob, in_grid. lia. Qed.

(* the implementation's three tests = the target is on the grid and free *)
Lemma free_eq g s a x y :
  negb (food_at (foods s) x y || agent_at (agents s) (aid a) x y || oob g x y) = in_grid g x y && cell_free s a x y.
Proof.
  rewrite !negb_orb, oob_in_grid. unfold food_at, agent_at, cell_free. rewrite !negb_existsb.
  rewrite (andb_comm (in_grid g x y)). f_equal. rewrite andb_comm. f_equal.
  - apply forallb_ext_in. intros b _. unfold pos_eqb, apos. cbn [fst snd].
    destruct (ax b =? x), (ay b =? y); cbn [andb negb orb]; rewrite ?orb_true_r, ?orb_false_r; auto.
    rewrite negb_involutive. rewrite Z.eqb_sym. reflexivity.
  - apply forallb_ext_in. intros f _. unfold pos_eqb, fpos. cbn [fst snd].
    destruct (fx f =? x), (fy f =? y), (featen f); reflexivity.
Qed.

Lemma zrange_NoDup n : NoDup (zrange n).
Proof.
  unfold zrange. generalize 0 as s0. induction (Z.to_nat n) as [|k IH]; intro s0; cbn [zrange_from]; constructor.
  - rewrite in_zrange_from. lia.
  - apply IH.
Qed.

Lemma Inv_ids_NoDup c s : Inv c s -> NoDup (map aid (agents s)).
Proof. intros (_ & _ & I & _). rewrite I. apply zrange_NoDup. Qed.

Lemma Inv_agents_NoDup c s : Inv c s -> NoDup (agents s).
Proof. intros (_ & _ & _ & N & _). eapply NoDup_of_map; eauto. Qed.

(* under Inv an agent's own cell is on the grid and holds nobody else and no uneaten food *)
Lemma own_cell_free c s a : Inv c s -> In a (agents s) -> in_grid (gsz c) (ax a) (ay a) && cell_free s a (ax a) (ay a) = true.
Proof.
  intros (_ & _ & _ & N & _ & FA & _) Ha. rewrite Forall_forall in FA. destruct (FA a Ha) as (X & Y & _ & FD).
  unfold in_grid. replace ((0 <=? ax a) && (ax a <? gsz c) && (0 <=? ay a) && (ay a <? gsz c)) with true by lia.
  cbn [andb]. unfold cell_free. apply andb_true_iff. split.
  - apply forallb_forall. intros b Hb. destruct (aid b =? aid a) eqn:E; [reflexivity|]. cbn [orb].
    apply negb_true_iff. destruct (pos_eqb (apos b) (ax a, ay a)) eqn:P; [|reflexivity].
    apply pos_eqb_eq in P. assert (b = a) by (eapply NoDup_map_inj_on; eauto). subst. lia.
  - unfold food_at in FD. rewrite existsb_false_forall in FD. apply forallb_forall. intros f Hf.
    specialize (FD f Hf). unfold pos_eqb, fpos. cbn [fst snd]. destruct (featen f); [reflexivity|].
    cbn [orb negb] in *. rewrite andb_true_r in FD. rewrite FD. reflexivity.
Qed.

Lemma zsum_b2z_nonneg {A} (f : A -> bool) l : 0 <= zsum (map (fun x => b2z (f x)) l).
Proof. induction l as [|h l IH]; cbn [map zsum]; [lia|]. destruct (f h); cbn [b2z]; lia. Qed.

Lemma adjacent_sym x1 y1 x2 y2 : adjacent x1 y1 x2 y2 = adjacent x2 y2 x1 y1.
Proof. unfold adjacent. lia. Qed.

Lemma food_adjacent_existsb fs x y :
  food_adjacent fs x y = existsb (fun f => negb (featen f) && adjacent x y (fx f) (fy f)) fs.
Proof.
  unfold food_adjacent. induction fs as [|f fs IH]; cbn [map zsum existsb]; [reflexivity|].
  pose proof (zsum_b2z_nonneg (fun f => adjacent (fx f) (fy f) x y && negb (featen f)) fs) as N.
  rewrite <- IH. rewrite (adjacent_sym x y). rewrite (andb_comm (negb (featen f))).
  destruct (adjacent (fx f) (fy f) x y && negb (featen f)); cbn [b2z orb]; lia.
Qed.

Theorem mask_iff_legal c s a :
  Inv c s -> In a (agents s) -> mask_agent (gsz c) s a = map (legal_b (gsz c) s a) (zrange 6).
Proof.
  intros I Ha. unfold mask_agent. change (zrange 6) with [0; 1; 2; 3; 4; 5]. cbn [map moves fst snd].
  rewrite !free_eq.
  change (legal_b (gsz c) s a 0) with true.
  change (legal_b (gsz c) s a 1) with (in_grid (gsz c) (ax a + -1) (ay a + 0) && cell_free s a (ax a + -1) (ay a + 0)).
  change (legal_b (gsz c) s a 2) with (in_grid (gsz c) (ax a + 1) (ay a + 0) && cell_free s a (ax a + 1) (ay a + 0)).
  change (legal_b (gsz c) s a 3) with (in_grid (gsz c) (ax a + 0) (ay a + -1) && cell_free s a (ax a + 0) (ay a + -1)).
  change (legal_b (gsz c) s a 4) with (in_grid (gsz c) (ax a + 0) (ay a + 1) && cell_free s a (ax a + 0) (ay a + 1)).
  change (legal_b (gsz c) s a 5) with (existsb (fun f => negb (featen f) && adjacent (ax a) (ay a) (fx f) (fy f)) (foods s)).
  rewrite !Z.add_0_r. rewrite (own_cell_free c s a I Ha).
  rewrite food_adjacent_existsb.
  destruct (existsb _ (foods s)); reflexivity.
Qed.

Lemma list_eqb_refl {A} (eqb : A -> A -> bool) : (forall x, eqb x x = true) -> forall l, list_eqb eqb l l = true.
Proof. intros H l. induction l as [|h l IH]; cbn [list_eqb]; auto. rewrite H, IH. reflexivity. Qed.

Theorem mask_exact c s : Inv c s -> mask_exact_b c s = true.
Proof.
  intro I. unfold mask_exact_b, mask_all.
  rewrite (map_ext_in (mask_agent (gsz c) s) (fun a => map (legal_b (gsz c) s a) (zrange 6))).
  - apply list_eqb_refl. apply list_eqb_refl. intros []; reflexivity.
  - intros a Ha. apply mask_iff_legal; auto.
Qed.

(* the boolean [legal_b] decides the declarative [legal] *)
Lemma dir_cases k : 1 <= k <= 4 -> dir k = (-1, 0) \/ dir k = (1, 0) \/ dir k = (0, -1) \/ dir k = (0, 1).
Proof. intro H. assert (k = 1 \/ k = 2 \/ k = 3 \/ k = 4) as [E|[E|[E|E]]] by lia; subst; cbn; auto. Qed.

Theorem legal_b_spec g s a k : legal_b g s a k = true <-> legal g s a k.
Proof.
  unfold legal_b, legal. destruct (k =? NOOP) eqn:E0; [split; auto; intros _; left; unfold NOOP in *; lia|].
  unfold is_move. destruct ((1 <=? k) && (k <=? 4)) eqn:EM.
  - set (x := ax a + fst (dir k)). set (y := ay a + snd (dir k)). split.
    + intro H. right. left. apply andb_true_iff in H as [G F]. unfold in_grid in G. unfold cell_free in F.
      apply andb_true_iff in F as [FA FF]. rewrite forallb_forall in FA, FF.
      split; [lia|]. split; [lia|]. split; [lia|]. split.
      * intros b Hb Nb C. specialize (FA b Hb). apply orb_true_iff in FA as [FA|FA]; [lia|].
        apply negb_true_iff in FA. rewrite <- C in FA. rewrite pos_eqb_refl in FA. discriminate.
      * intros f Hf Ef C. specialize (FF f Hf). rewrite Ef in FF. cbn [orb] in FF.
        apply negb_true_iff in FF. rewrite <- C in FF. rewrite pos_eqb_refl in FF. discriminate.
    + intros [H|[H|H]]; [unfold NOOP in *; lia| |unfold LOAD in *; lia].
      destruct H as (_ & X & Y & HA & HF). apply andb_true_iff. split; [unfold in_grid; lia|].
      unfold cell_free. apply andb_true_iff. split; apply forallb_forall.
      * intros b Hb. destruct (aid b =? aid a) eqn:E; [reflexivity|]. cbn [orb]. apply negb_true_iff.
        destruct (pos_eqb (apos b) (x, y)) eqn:P; [|reflexivity]. apply pos_eqb_eq in P. exfalso. apply (HA b Hb); [lia|exact P].
      * intros f Hf. destruct (featen f) eqn:Ef; [reflexivity|]. cbn [orb]. apply negb_true_iff.
        destruct (pos_eqb (fpos f) (x, y)) eqn:P; [|reflexivity]. apply pos_eqb_eq in P. exfalso. apply (HF f Hf Ef P).
  - destruct (k =? LOAD) eqn:E5.
    + split.
      * intro H. right. right. split; [unfold LOAD in *; lia|]. apply existsb_exists in H as [f [Hf H]].
        apply andb_true_iff in H as [H1 H2]. exists f. split; auto. split; [destruct (featen f); auto; discriminate|].
        unfold adjacent in H2. lia.
      * intros [H|[H|H]]; [unfold NOOP in *; lia|lia|]. destruct H as (_ & f & Hf & Ef & Ad).
        apply existsb_exists. exists f. split; auto. rewrite Ef. unfold adjacent. cbn [negb andb]. lia.
    + split; [discriminate|]. intros [H|[H|H]]; unfold NOOP, LOAD in *; lia.
Qed.

(* ---------- C05: illegal actions are ignored ---------- *)
Lemma move_of_dir k : 1 <= k <= 4 -> move_of k = dir k.
Proof. intro H. assert (k = 1 \/ k = 2 \/ k = 3 \/ k = 4) as [E|[E|[E|E]]] by lia; subst; reflexivity. Qed.

Lemma sim_move_blocked g s a k :
  1 <= k <= 4 -> legal_b g s a k = false -> sim_move g (agents s) (foods s) (a, k) = apos a.
Proof.
  intros Hk L. unfold sim_move. cbn [fst snd]. rewrite move_of_dir by exact Hk.
  unfold legal_b in L. replace (k =? NOOP) with false in L by (unfold NOOP; lia).
  unfold is_move in L. replace ((1 <=? k) && (k <=? 4)) with true in L by lia.
  rewrite <- free_eq in L. apply negb_false_iff in L.
  destruct (oob g _ _), (agent_at _ _ _ _), (food_at _ _ _); cbn [orb] in *; try reflexivity; discriminate.
Qed.

Lemma sim_move_noop g ags fs a : sim_move g ags fs (a, NOOP) = apos a.
Proof.
  unfold sim_move. cbn [fst snd]. change (move_of NOOP) with (0, 0). cbn [fst snd]. rewrite !Z.add_0_r.
  destruct (_ || _); reflexivity.
Qed.

(* replace every illegal move by NOOP *)
Definition sanitize_one (g : Z) (s : state) (aa : agent * Z) : Z :=
  if is_move (snd aa) && negb (legal_b g s (fst aa) (snd aa)) then NOOP else snd aa.
Definition sanitize (g : Z) (s : state) (acts : list Z) : list Z := map (sanitize_one g s) (combine (agents s) acts).

Lemma combine_map_r {A B} (h : A * B -> B) (a : list A) (b : list B) :
  combine a (map h (combine a b)) = map (fun x => (fst x, h x)) (combine a b).
Proof. revert b; induction a as [|x a IH]; intros [|y b]; cbn [combine map fst]; auto. rewrite IH. reflexivity. Qed.

Lemma sim_move_sanitize g s aa :
  sim_move g (agents s) (foods s) (fst aa, sanitize_one g s aa) = sim_move g (agents s) (foods s) aa.
Proof.
  destruct aa as [a k]. unfold sanitize_one. cbn [fst snd].
  destruct (is_move k && negb (legal_b g s a k)) eqn:E; [|reflexivity].
  apply andb_true_iff in E as [E1 E2]. apply negb_true_iff in E2. unfold is_move in E1.
  rewrite sim_move_noop, sim_move_blocked; auto. lia.
Qed.

Lemma sanitize_load g s aa : (sanitize_one g s aa =? LOAD) = (snd aa =? LOAD).
Proof.
  unfold sanitize_one. destruct (is_move (snd aa) && negb (legal_b g s (fst aa) (snd aa))) eqn:E; [|reflexivity].
  apply andb_true_iff in E as [E _]. unfold is_move in E. unfold NOOP, LOAD. lia.
Qed.

Theorem C05_illegal_moves_ignored c s acts : step c s (sanitize (gsz c) s acts) = step c s acts.
Proof.
  assert (E : step_agents c s (sanitize (gsz c) s acts) = step_agents c s acts).
  { unfold step_agents, move_agents, sanitize. rewrite combine_map_r. rewrite !map_map.
    assert (M : map (fun x => sim_move (gsz c) (agents s) (foods s) (fst x, sanitize_one (gsz c) s x)) (combine (agents s) acts)
                = map (sim_move (gsz c) (agents s) (foods s)) (combine (agents s) acts)).
    { apply map_ext. intro aa. apply sim_move_sanitize. }
    rewrite M. apply map_ext. intro aa. unfold settle. cbn [fst snd]. rewrite sim_move_sanitize, sanitize_load. reflexivity. }
  unfold step, step_rewards. rewrite E. reflexivity.
Qed.

(* an agent playing an illegal move keeps its cell (whatever the others do) *)
Theorem C05_illegal_move_stays c s acts a k :
  In (a, k) (combine (agents s) acts) -> 1 <= k <= 4 -> legal_b (gsz c) s a k = false ->
  let a' := settle (map (sim_move (gsz c) (agents s) (foods s)) (combine (agents s) acts)) (gsz c) (agents s) (foods s) (a, k) in
  In a' (step_agents c s acts) /\ apos a' = apos a /\ aid a' = aid a /\ alvl a' = alvl a /\ aload a' = false.
Proof.
  intros Hin Hk L a'. split; [apply in_map; exact Hin|].
  subst a'. unfold settle. cbn [fst snd]. rewrite sim_move_blocked by auto.
  unfold apos. cbn [ax ay aid alvl aload fst snd]. destruct (dup _ _); cbn [fst snd];
    repeat split; unfold LOAD; lia.
Qed.

(* an agent playing an illegal LOAD keeps its cell and takes part in no loading: its entry in the adjacent-level
   vector of EVERY food is 0, so nothing is eaten and no share is paid on its behalf *)
Lemma sim_move_load g ags fs a : sim_move g ags fs (a, LOAD) = apos a.
Proof.
  unfold sim_move. cbn [fst snd]. change (move_of LOAD) with (0, 0). cbn [fst snd]. rewrite !Z.add_0_r.
  destruct (_ || _); reflexivity.
Qed.

Lemma if_same {A} (b : bool) (x : A) : (if b then x else x) = x.
Proof. destruct b; reflexivity. Qed.

Theorem C05_illegal_load_ignored c s acts a :
  In (a, LOAD) (combine (agents s) acts) -> legal_b (gsz c) s a LOAD = false ->
  let a' := settle (map (sim_move (gsz c) (agents s) (foods s)) (combine (agents s) acts)) (gsz c) (agents s) (foods s) (a, LOAD) in
  In a' (step_agents c s acts) /\ apos a' = apos a
  /\ forall f, In f (foods s) -> (adjacent (ax a') (ay a') (fx f) (fy f) && aload a' && negb (featen f)) = false.
Proof.
  intros Hin L a'. split; [apply in_map; exact Hin|].
  assert (P : apos a' = apos a).
  { subst a'. unfold settle. cbn [fst snd]. rewrite sim_move_load. rewrite if_same. reflexivity. }
  split; [exact P|]. intros f Hf. pose proof (f_equal fst P) as Px. pose proof (f_equal snd P) as Py.
  unfold apos in Px, Py. cbn [fst snd] in Px, Py. rewrite Px, Py.
  change (legal_b (gsz c) s a LOAD) with (existsb (fun f => negb (featen f) && adjacent (ax a) (ay a) (fx f) (fy f)) (foods s)) in L.
  rewrite existsb_false_forall in L. specialize (L f Hf).
  destruct (featen f); cbn [negb andb] in *; [rewrite andb_false_r; reflexivity|]. rewrite L. reflexivity.
Qed.

(* ---------- C07: Inv is preserved by every joint action ---------- *)
Definition final_pos (moved : list (Z * Z)) (g : Z) (ags : list agent) (fs : list food) (aa : agent * Z) : Z * Z :=
  if dup moved (sim_move g ags fs aa) then apos (fst aa) else sim_move g ags fs aa.

Lemma settle_pos moved g ags fs aa : apos (settle moved g ags fs aa) = final_pos moved g ags fs aa.
Proof. unfold settle, final_pos, apos. cbn [ax ay]. destruct (dup _ _); cbn [fst snd]; [reflexivity|]. destruct (sim_move _ _ _ _); reflexivity. Qed.

Lemma sim_move_cases g ags fs aa :
  sim_move g ags fs aa = apos (fst aa)
  \/ exists x y, sim_move g ags fs aa = (x, y) /\ oob g x y = false /\ agent_at ags (aid (fst aa)) x y = false /\ food_at fs x y = false.
Proof.
  unfold sim_move. set (x := ax (fst aa) + fst (move_of (snd aa))). set (y := ay (fst aa) + snd (move_of (snd aa))).
  destruct (oob g x y) eqn:O; cbn [orb]; [left; reflexivity|].
  destruct (agent_at ags (aid (fst aa)) x y) eqn:A; cbn [orb]; [left; reflexivity|].
  destruct (food_at fs x y) eqn:F; [left; reflexivity|]. right. exists x, y. auto.
Qed.

Lemma aa_eq_dec (x y : agent * Z) : {x = y} + {x <> y}.
Proof. decide equality; [apply Z.eq_dec|]. decide equality; try apply Z.eq_dec; apply bool_dec. Qed.

Lemma NoDup_combine_l {A B} (a : list A) (b : list B) : NoDup a -> NoDup (combine a b).
Proof.
  revert b. induction a as [|h a IH]; intros [|k b] N; cbn [combine]; try constructor.
  - inversion N; subst. intro C. apply in_combine_l in C. contradiction.
  - inversion N; subst. apply IH. assumption.
Qed.

Lemma final_pos_inj g ags fs acts x y :
  NoDup (map apos ags) -> NoDup (map aid ags) ->
  let aa := combine ags acts in let moved := map (sim_move g ags fs) aa in
  In x aa -> In y aa -> final_pos moved g ags fs x = final_pos moved g ags fs y -> x = y.
Proof.
  intros NP NI aa moved Hx Hy E.
  assert (NA : NoDup ags) by (eapply NoDup_of_map; eauto).
  assert (F1 : forall u v, In u aa -> In v aa -> apos (fst u) = apos (fst v) -> u = v).
  { intros u v Hu Hv P. apply (combine_fun ags acts); auto.
    apply (NoDup_map_inj_on apos ags); auto; apply (in_combine_fst ags acts); assumption. }
  assert (F2 : forall u v, In u aa -> In v aa -> sim_move g ags fs v <> apos (fst v) ->
                           apos (fst u) = sim_move g ags fs v -> u = v).
  { intros u v Hu Hv Nv P. destruct (sim_move_cases g ags fs v) as [C|(p & q & C & _ & A & _)]; [contradiction|].
    unfold agent_at in A. rewrite existsb_false_forall in A.
    assert (Iu : In (fst u) ags) by (apply (in_combine_fst ags acts); assumption).
    specialize (A (fst u) Iu). rewrite C in P. unfold apos in P. inversion P as [[P1 P2]].
    rewrite P1, P2, !Z.eqb_refl in A. cbn [andb] in A. apply negb_false_iff in A. apply Z.eqb_eq in A. symmetry in A.
    apply (combine_fun ags acts); auto. apply (NoDup_map_inj_on aid ags); auto.
    apply (in_combine_fst ags acts); assumption. }
  unfold final_pos in E.
  destruct (dup moved (sim_move g ags fs x)) eqn:Dx, (dup moved (sim_move g ags fs y)) eqn:Dy.
  - apply F1; auto.
  - destruct (Pos.eq_dec 1 1) as [_|]; [|contradiction].
    destruct (sim_move_cases g ags fs y) as [C|_].
    + apply F1; auto. congruence.
    + destruct (aa_eq_dec x y) as [|Ne]; [assumption|].
      assert (Q : sim_move g ags fs y <> apos (fst y) \/ sim_move g ags fs y = apos (fst y)).
      { destruct (sim_move g ags fs y) as [p q], (apos (fst y)) as [p' q'].
        destruct (Z.eq_dec p p'), (Z.eq_dec q q'); subst; auto; left; congruence. }
      destruct Q as [Q|Q]; [apply F2; auto|apply F1; auto; congruence].
  - destruct (aa_eq_dec x y) as [|Ne]; [assumption|].
    assert (Q : sim_move g ags fs x <> apos (fst x) \/ sim_move g ags fs x = apos (fst x)).
    { destruct (sim_move g ags fs x) as [p q], (apos (fst x)) as [p' q'].
      destruct (Z.eq_dec p p'), (Z.eq_dec q q'); subst; auto; left; congruence. }
    destruct Q as [Q|Q]; [symmetry; apply F2; auto|apply F1; auto; congruence].
  - destruct (aa_eq_dec x y) as [|Ne]; [assumption|]. exfalso.
    unfold dup in Dx. apply negb_false_iff in Dx. apply Z.eqb_eq in Dx.
    pose proof (count_if_two (sim_move g ags fs) (pos_eqb (sim_move g ags fs x)) aa x y Hx Hy Ne) as T.
    rewrite pos_eqb_refl in T. rewrite E, pos_eqb_refl in T. specialize (T eq_refl eq_refl).
    fold moved in T. rewrite E in Dx. lia.
Qed.

Lemma food_at_eat ags fs x y : food_at (map (eat ags) fs) x y = true -> food_at fs x y = true.
Proof.
  unfold food_at. rewrite !existsb_exists. intros [f' [Hf' H]]. apply in_map_iff in Hf' as [f [E Hf]]. subst f'.
  exists f. split; auto. unfold eat in H. cbn [fx fy featen] in H. destruct (featen f); [rewrite orb_true_r in H; auto|].
  apply andb_true_iff in H as [H _]. rewrite H. reflexivity.
Qed.

Lemma map_fpos_eat ags fs : map fpos (map (eat ags) fs) = map fpos fs.
Proof. rewrite map_map. apply map_ext. reflexivity. Qed.

Theorem step_preserves_Inv c s acts : Inv c s -> zlen acts = nag c -> Inv c (fst (step c s acts)).
Proof.
  intros I Hc. pose proof I as (La & Lf & Id & NP & NF & FA & FF & Cn).
  pose proof (Inv_ids_NoDup c s I) as NI.
  assert (Len : length (agents s) = length acts) by (unfold zlen in *; lia).
  unfold Inv. rewrite step_cnt, step_agents_eq, step_foods_eq.
  unfold step_agents, move_agents.
  set (aa := combine (agents s) acts). set (moved := map (sim_move (gsz c) (agents s) (foods s)) aa).
  split; [rewrite zlen_map; unfold aa; rewrite zlen_combine; lia|].
  split; [rewrite zlen_map; exact Lf|].
  split. { rewrite map_map. rewrite <- Id. transitivity (map aid (map fst aa)); [rewrite map_map; reflexivity|].
           unfold aa. rewrite map_fst_combine by exact Len. reflexivity. }
  split.
  { rewrite map_map. rewrite (map_ext _ (final_pos moved (gsz c) (agents s) (foods s))) by (intro; apply settle_pos).
    apply NoDup_map_on.
    - apply NoDup_combine_l. eapply NoDup_of_map; eauto.
    - intros x y Hx Hy E. eapply (final_pos_inj (gsz c) (agents s) (foods s) acts); eauto. }
  split; [rewrite map_fpos_eat; exact NF|].
  split.
  { apply Forall_forall. intros a' Ha'. apply in_map_iff in Ha' as [x [E Hx]]. subst a'.
    rewrite Forall_forall in FA. assert (Ia : In (fst x) (agents s)) by (apply (in_combine_fst (agents s) acts); exact Hx).
    destruct (FA (fst x) Ia) as (X & Y & Lv & FD).
    pose proof (settle_pos moved (gsz c) (agents s) (foods s) x) as SP.
    assert (G : 0 <= fst (final_pos moved (gsz c) (agents s) (foods s) x) < gsz c
             /\ 0 <= snd (final_pos moved (gsz c) (agents s) (foods s) x) < gsz c
             /\ food_at (foods s) (fst (final_pos moved (gsz c) (agents s) (foods s) x)) (snd (final_pos moved (gsz c) (agents s) (foods s) x)) = false).
    { unfold final_pos. destruct (dup moved _); [unfold apos; cbn [fst snd]; auto|].
      destruct (sim_move_cases (gsz c) (agents s) (foods s) x) as [C|(p & q & C & O & _ & F)]; rewrite C.
      - unfold apos; cbn [fst snd]; auto.
      - cbn [fst snd]. unfold oob in O. repeat split; try lia. exact F. }
    rewrite <- SP in G. unfold apos in G. cbn [fst snd] in G. destruct G as (G1 & G2 & G3).
    unfold agent_ok. split; [exact G1|]. split; [exact G2|]. split; [unfold settle; cbn [alvl]; exact Lv|].
    cbn [foods]. match goal with |- ?t = false => destruct t eqn:Q end; [|reflexivity]. apply food_at_eat in Q. congruence. }
  split; [|lia].
  apply Forall_forall. intros f' Hf'. apply in_map_iff in Hf' as [f [E Hf]]. subst f'.
  rewrite Forall_forall in FF. exact (FF f Hf).
Qed.

Theorem reachable_Inv c s0 s : Inv c s0 -> reachable c s0 s -> Inv c s.
Proof. intros I R. induction R; auto using step_preserves_Inv. Qed.

(* eaten food stays eaten; food never moves or changes level; agents keep id and level *)
Theorem food_monotone c s acts f :
  In f (foods s) -> let f' := eat (step_agents c s acts) f in
  In f' (foods (fst (step c s acts))) /\ fid f' = fid f /\ fpos f' = fpos f /\ flvl f' = flvl f /\ (featen f = true -> featen f' = true).
Proof.
  intros Hf f'. split; [rewrite step_foods_eq; apply in_map; exact Hf|]. subst f'. unfold eat, fpos. cbn [fid fx fy flvl featen].
  repeat split; auto. intro E. rewrite E. apply orb_true_r.
Qed.

Theorem mask_znth_iff_legal c s a k :
  Inv c s -> In a (agents s) -> 0 <= k < 6 ->
  (znth false (mask_agent (gsz c) s a) k = true <-> legal (gsz c) s a k).
Proof.
  intros I Ha Hk. rewrite (mask_iff_legal c s a I Ha). rewrite <- legal_b_spec.
  assert (k = 0 \/ k = 1 \/ k = 2 \/ k = 3 \/ k = 4 \/ k = 5) as [E|[E|[E|[E|[E|E]]]]] by lia; subst k; reflexivity.
Qed.

(* ---------- the boolean twin of Inv ---------- *)
Lemma nodup_pos_spec l : nodup_pos l = true <-> NoDup l.
Proof.
  induction l as [|h l IH]; cbn [nodup_pos]; [split; auto; constructor|].
  rewrite andb_true_iff, negb_true_iff, IH. split.
  - intros [E N]. constructor; auto. intro C. rewrite existsb_false_forall in E. specialize (E h C).
    rewrite pos_eqb_refl in E. discriminate.
  - intro N. inversion N as [|? ? Nh Nl]; subst. split; auto. apply existsb_false_forall. intros x Hx.
    destruct (pos_eqb h x) eqn:E; auto. apply pos_eqb_eq in E. subst. contradiction.
Qed.

Lemma agent_ok_b_spec c s a : agent_ok_b c s a = true <-> agent_ok c s a.
Proof.
  unfold agent_ok_b, agent_ok, in_grid. destruct (food_at (foods s) (ax a) (ay a)); cbn [negb]; split; intro H.
  - rewrite andb_false_r in H. discriminate.
  - destruct H as (_ & _ & _ & H). discriminate.
  - repeat split; lia.
  - destruct H as (? & ? & ? & _). lia.
Qed.

Lemma food_ok_b_spec c f : food_ok_b c f = true <-> food_ok c f.
Proof. unfold food_ok_b, food_ok, in_grid. lia. Qed.

Lemma forallb_Forall {A} (f : A -> bool) (P : A -> Prop) l :
  (forall x, f x = true <-> P x) -> (forallb f l = true <-> Forall P l).
Proof.
  intro H. rewrite forallb_forall, Forall_forall. split; intros G x Hx; apply H; auto.
Qed.

Theorem Inv_b_spec c s : Inv_b c s = true <-> Inv c s.
Proof.
  unfold Inv_b, Inv. rewrite !andb_true_iff.
  rewrite (list_eqb_eq Z.eqb Z.eqb_eq), !nodup_pos_spec.
  rewrite (forallb_Forall _ _ _ (agent_ok_b_spec c s)), (forallb_Forall _ _ _ (food_ok_b_spec c)).
  rewrite !Z.eqb_eq, Z.leb_le. tauto.
Qed.
