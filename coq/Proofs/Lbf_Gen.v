(* LevelBasedForaging RandomGenerator (C10) over explicit draws: for EVERY grid size, agent/food count and every draw
   vector accepted by [valid_draws] (food draws have non-zero probability under the running mask, agent draws are distinct
   cells of non-zero probability under the food mask, levels in the sampled ranges) the generated state satisfies Inv,
   food is strictly inside the grid, no two foods share a cell or are 4-adjacent, nothing is eaten / loading, step 0, and
   food levels are at most (with force_coop: exactly) the sum of the three lowest agent levels. *)
From Coq Require Import QArith.
Require Import JV.Base.Prelude JV.Base.JaxIndex JV.Base.Codec JV.Base.TimeStep JV.Model.Lbf JV.Proofs.Lbf.
Open Scope Z_scope.

(* ---------- znth / jset ---------- *)
Lemma znth_nth {A} (d : A) l i : 0 <= i -> znth d l i = nth (Z.to_nat i) l d.
Proof. intro H. unfold znth. destruct (i <? 0) eqn:E; [lia|reflexivity]. Qed.

Lemma znth_zupd {A} (d : A) i j v l :
  0 <= i < zlen l -> 0 <= j -> znth d (zupd i v l) j = if j =? i then v else znth d l j.
Proof.
  intros Hi Hj. rewrite !znth_nth by lia. unfold zupd. destruct (i <? 0) eqn:E; [lia|].
  destruct (j =? i) eqn:E2.
  - assert (j = i) by lia. subst j. apply nth_upd_same. unfold zlen in *. lia.
  - apply nth_upd_other. lia.
Qed.

Lemma zlen_jset {A} (m : list A) i v : zlen (jset m i v) = zlen m.
Proof. unfold zlen. rewrite jset_length. reflexivity. Qed.

(* a cell still True after .at[i].set(False) was True before and is not the (in-range) cell i *)
Lemma znth_jset_true m i q :
  znth false (jset m i false) q = true -> znth false m q = true /\ (0 <= i < zlen m -> q <> i).
Proof.
  intro H. assert (Q : 0 <= q). { destruct (Z_lt_dec q 0) as [N|]; [|lia]. unfold znth in H. replace (q <? 0) with true in H by lia. discriminate. }
  unfold jset, jnorm in H. destruct (i <? 0) eqn:E.
  - destruct ((0 <=? i + zlen m) && (i + zlen m <? zlen m)) eqn:R; [|split; [exact H|lia]].
    rewrite znth_zupd in H by lia. destruct (q =? i + zlen m); [discriminate|]. split; [exact H|lia].
  - destruct ((0 <=? i) && (i <? zlen m)) eqn:R; [|split; [exact H|lia]].
    rewrite znth_zupd in H by lia. destruct (q =? i) eqn:E2; [discriminate|]. split; [exact H|lia].
Qed.

Lemma znth_tab {A} (f : Z -> A) d n q : 0 <= q < n -> znth d (map f (zrange n)) q = f q.
Proof.
  intro H. rewrite znth_nth by lia. rewrite (nth_indep _ d (f 0)).
  2:{ rewrite map_length. unfold zrange. rewrite zrange_from_length. lia. }
  rewrite (map_nth f). unfold zrange. rewrite zrange_from_nth by lia. f_equal. lia.
Qed.

Lemma znth_true_range m q : znth false m q = true -> 0 <= q < zlen m.
Proof.
  intro H. destruct (Z_lt_dec q 0) as [N|N]; [unfold znth in H; replace (q <? 0) with true in H by lia; discriminate|].
  destruct (Z_lt_dec q (zlen m)) as [L|L]; [lia|]. rewrite znth_nth in H by lia. rewrite nth_overflow in H; [discriminate|]. unfold zlen in *. lia.
Qed.

Lemma zlen_zrange n : 0 <= n -> zlen (zrange n) = n.
Proof. intro H. unfold zlen, zrange. rewrite zrange_from_length. lia. Qed.

(* ---------- the food mask ---------- *)
(* separation of two flat indices: not the same cell, not left/right/up/down of each other *)
Definition sep (g p q : Z) : Prop := q <> p /\ q <> p + 1 /\ q <> p - 1 /\ q <> p + g /\ q <> p - g.

Lemma interior_range g q : interior g q = true -> g <= q < g * g - g /\ q mod g <> 0 /\ q mod g <> g - 1.
Proof. unfold interior. lia. Qed.

Lemma block_unfold g m p :
  block g m p = jset (jset (jset (jset (jset m p false) (p + 1) false) (p - 1) false) (p + g) false) (p - g) false.
Proof. reflexivity. Qed.

Lemma zlen_block g m p : zlen (block g m p) = zlen m.
Proof. rewrite block_unfold. rewrite !zlen_jset. reflexivity. Qed.

Lemma block_true g m p q :
  0 < g -> zlen m = g * g -> interior g p = true ->
  znth false (block g m p) q = true -> znth false m q = true /\ sep g p q.
Proof.
  intros G L I H. apply interior_range in I as (I1 & I2 & I3). rewrite block_unfold in H.
  apply znth_jset_true in H as [H H5]. apply znth_jset_true in H as [H H4]. apply znth_jset_true in H as [H H3].
  apply znth_jset_true in H as [H H2]. apply znth_jset_true in H as [H H1].
  rewrite ?zlen_jset in *. split; [exact H|]. unfold sep. assert (0 <= g * g - g) by nia. repeat split; [apply H1|apply H2|apply H3|apply H4|apply H5]; lia.
Qed.

Lemma mask0_true g q : 0 < g -> znth false (food_mask0 g) q = true -> interior g q = true.
Proof.
  intros G H. pose proof (znth_true_range _ _ H) as R. unfold food_mask0 in *. rewrite zlen_map, zlen_zrange in R by nia.
  rewrite znth_tab in H by lia. exact H.
Qed.

Lemma food_draws_sound g : 0 < g -> forall ps m chosen,
  zlen m = g * g ->
  (forall q, znth false m q = true -> interior g q = true /\ forall p, In p chosen -> sep g p q) ->
  food_draws_ok g m ps = true ->
  Forall (fun p => interior g p = true) ps /\ ForallOrdPairs (sep g) ps /\ (forall p q, In p chosen -> In q ps -> sep g p q).
Proof.
  intro G. induction ps as [|p t IH]; intros m chosen L M H.
  - split; [constructor|]. split; [constructor|]. intros p q _ [].
  - cbn [food_draws_ok] in H. apply andb_true_iff in H as [P H]. unfold pickable in P.
    assert (Zp : znth false m p = true) by (apply andb_true_iff in P as [_ P]; exact P). destruct (M p Zp) as [Ip Sp].
    destruct (IH (block g m p) (p :: chosen)) as (A & B & C).
    + rewrite zlen_block. exact L.
    + intros q Hq. apply (block_true g m p q G L Ip) in Hq as [Hq S]. destruct (M q Hq) as [Iq Sq]. split; [exact Iq|].
      intros p' [E|Hp']; [subst; exact S|apply Sq; exact Hp'].
    + exact H.
    + split; [constructor; auto|]. split.
      * constructor; [|exact B]. apply Forall_forall. intros q Hq. apply C; cbn; auto.
      * intros p' q Hp' [E|Hq]; [subst; apply Sp; exact Hp'|apply C; cbn; auto].
Qed.

(* two separated interior cells are different grid cells and not 4-adjacent *)
Lemma sep_2d g p q :
  0 < g -> interior g p = true -> interior g q = true -> sep g p q ->
  (p / g, p mod g) <> (q / g, q mod g) /\ adjacent (p / g) (p mod g) (q / g) (q mod g) = false.
Proof.
  intros G Ip Iq (S0 & S1 & S2 & S3 & S4). apply interior_range in Ip as (_ & P2 & P3). apply interior_range in Iq as (_ & Q2 & Q3).
  pose proof (Z.div_mod p g ltac:(lia)) as Dp. pose proof (Z.div_mod q g ltac:(lia)) as Dq.
  pose proof (Z.mod_pos_bound p g G) as Bp. pose proof (Z.mod_pos_bound q g G) as Bq.
  set (px := p / g) in *. set (py := p mod g) in *. set (qx := q / g) in *. set (qy := q mod g) in *.
  clearbody px py qx qy.
  split.
  - intro E. inversion E as [[E1 E2]]. apply S0. rewrite Dp, Dq, E1, E2. reflexivity.
  - unfold adjacent. apply Z.eqb_neq. intro A.
    assert (C : (px = qx /\ (py = qy + 1 \/ py = qy - 1)) \/ (py = qy /\ (px = qx + 1 \/ px = qx - 1))) by lia.
    destruct C as [[C1 [C2|C2]]|[C1 [C2|C2]]].
    + apply S2. rewrite Dp, Dq, C1, C2. ring.
    + apply S1. rewrite Dp, Dq, C1, C2. ring.
    + apply S4. rewrite Dp, Dq, C1, C2. ring.
    + apply S3. rewrite Dp, Dq, C1, C2. ring.
Qed.

Lemma unravel_inj g p q : 0 < g -> (p / g, p mod g) = (q / g, q mod g) -> p = q.
Proof.
  intros G E. inversion E as [[E1 E2]]. rewrite (Z.div_mod p g), (Z.div_mod q g) by lia. rewrite E1, E2. reflexivity.
Qed.

Lemma agent_mask_true g ps q :
  znth false (agent_mask g ps) q = true -> forall p, In p ps -> 0 <= p < g * g -> q <> p.
Proof.
  unfold agent_mask. set (m0 := repeat true (Z.to_nat (g * g))).
  assert (L0 : zlen m0 = Z.max 0 (g * g)) by (unfold m0, zlen; rewrite repeat_length; lia).
  clearbody m0. revert m0 L0. induction ps as [|p' t IH]; intros m0 L0 H p Hp R; [contradiction|].
  cbn [fold_left] in H. destruct Hp as [E|Hp].
  - subst p'. clear IH. assert (K : forall t m, znth false (fold_left (fun m p => jset m p false) t m) q = true -> znth false m q = true).
    { clear. induction t as [|x t IH]; intros m H; cbn [fold_left] in H; [exact H|]. apply IH in H. apply znth_jset_true in H as [H _]. exact H. }
    apply K in H. apply znth_jset_true in H as [_ H]. apply H. lia.
  - apply (IH (jset m0 p' false)); auto. rewrite zlen_jset. exact L0.
Qed.

(* ---------- map2 plumbing ---------- *)
Lemma map_map2 {A B C D} (h : C -> D) (f : A -> B -> C) a b : map h (map2 f a b) = map2 (fun x y => h (f x y)) a b.
Proof. revert b; induction a as [|x a IH]; intros [|y b]; cbn [map2 map]; auto. rewrite IH. reflexivity. Qed.

Lemma map2_right {A B D} (k : B -> D) (a : list A) b : length a = length b -> map2 (fun _ y => k y) a b = map k b.
Proof. revert b; induction a as [|x a IH]; intros [|y b] H; cbn in *; try lia; auto. rewrite IH by lia. reflexivity. Qed.

Lemma map2_left {A B D} (k : A -> D) (a : list A) (b : list B) : length a = length b -> map2 (fun x _ => k x) a b = map k a.
Proof. revert b; induction a as [|x a IH]; intros [|y b] H; cbn in *; try lia; auto. rewrite IH by lia. reflexivity. Qed.

Lemma Forall_map2 {A B C} (P : C -> Prop) (f : A -> B -> C) a b :
  (forall x y, In x a -> In y b -> P (f x y)) -> Forall P (map2 f a b).
Proof.
  revert b; induction a as [|x a IH]; intros [|y b] H; cbn [map2]; constructor.
  - apply H; cbn; auto.
  - apply IH. intros u v Hu Hv. apply H; cbn; auto.
Qed.

Lemma in_map2 {A B C} (f : A -> B -> C) a b z : In z (map2 f a b) -> exists x y, In x a /\ In y b /\ z = f x y.
Proof.
  revert b; induction a as [|x a IH]; intros [|y b] H; cbn [map2] in H; try contradiction.
  destruct H as [H|H]; [exists x, y; cbn; auto|]. destruct (IH b H) as (u & v & Hu & Hv & E). exists u, v. cbn; auto.
Qed.

Lemma FOP_map2 {A B C} (R : C -> C -> Prop) (f : A -> B -> C) a b :
  ForallOrdPairs (fun y y' => forall x x', R (f x y) (f x' y')) b -> ForallOrdPairs R (map2 f a b).
Proof.
  intro H. revert a. induction H as [|y b Hy H IH]; intros [|x a]; cbn [map2]; try constructor.
  - apply Forall_map2. intros u v _ Hv. rewrite Forall_forall in Hy. apply Hy. exact Hv.
  - apply IH.
Qed.

Lemma FOP_combine {A B} (R : A -> A -> Prop) (a : list A) (b : list B) :
  ForallOrdPairs R a -> ForallOrdPairs (fun u v => R (fst u) (fst v)) (combine a b).
Proof.
  intro H. revert b. induction H as [|x a Hx H IH]; intros [|y b]; cbn [combine]; try constructor.
  - apply Forall_forall. intros [u v] Huv. apply in_combine_l in Huv. rewrite Forall_forall in Hx. apply Hx. exact Huv.
  - apply IH.
Qed.

Lemma FOP_impl {A} (R R' : A -> A -> Prop) l : (forall x y, In x l -> In y l -> R x y -> R' x y) -> ForallOrdPairs R l -> ForallOrdPairs R' l.
Proof.
  intros I H. induction H as [|x l Hx H IH]; constructor.
  - rewrite Forall_forall in *. intros y Hy. apply I; cbn; auto.
  - apply IH. intros u v Hu Hv. apply I; cbn; auto.
Qed.

(* ---------- levels ---------- *)
Lemma insert_Forall (P : Z -> Prop) x l : P x -> Forall P l -> Forall P (insert x l).
Proof. intros Px F. induction F as [|y l Py F IH]; cbn [insert]; [auto|]. destruct (x <=? y); auto. Qed.

Lemma sort_Forall (P : Z -> Prop) l : Forall P l -> Forall P (sort l).
Proof. unfold sort. induction 1 as [|x l Px F IH]; cbn [fold_right]; [constructor|]. apply insert_Forall; auto. Qed.

Lemma insert_length x l : length (insert x l) = S (length l).
Proof. induction l as [|y l IH]; cbn [insert length]; auto. destruct (x <=? y); cbn [length]; auto. Qed.

Lemma sort_length l : length (sort l) = length l.
Proof. unfold sort. induction l as [|x l IH]; cbn [fold_right length]; auto. rewrite insert_length, IH. reflexivity. Qed.

Lemma zsum_firstn_bounds M k l : Forall (fun x => 1 <= x <= M) l -> 0 <= zsum (firstn k l) <= zlen l * M.
Proof.
  intro F. revert k. induction F as [|x l Px F IH]; intro k; [rewrite firstn_nil; cbn; unfold zlen; cbn; lia|].
  destruct k as [|k]; cbn [firstn zsum]; rewrite zlen_cons; [pose proof (zlen_nonneg l); nia|]. specialize (IH k). nia.
Qed.

Lemma max_food_level_bounds M alv : Forall (fun x => 1 <= x <= M) alv -> alv <> [] -> 1 <= max_food_level alv <= zlen alv * M.
Proof.
  intros F N. unfold max_food_level. pose proof (sort_Forall _ _ F) as FS. pose proof (sort_length alv) as LS.
  replace (zlen alv) with (zlen (sort alv)) by (unfold zlen; lia).
  destruct (sort alv) as [|h t] eqn:E; [destruct alv; [congruence|cbn in LS; lia]|].
  split; [|apply zsum_firstn_bounds; exact FS].
  inversion FS as [|? ? Ph Ft]; subst. change (firstn 3 (h :: t)) with (h :: firstn 2 t). cbn [zsum]. pose proof (zsum_firstn_bounds M 2 t Ft). lia.
Qed.

(* ---------- the generated state ---------- *)
Definition gen_props (c : cfg) (coop : bool) (s : state) : Prop :=
  let g := gsz c in
  Inv c s /\ cnt s = 0
  /\ Forall (fun a => aload a = false) (agents s)
  /\ Forall (fun f => featen f = false /\ 1 <= fx f <= g - 2 /\ 1 <= fy f <= g - 2) (foods s)
  /\ ForallOrdPairs (fun f f' => fpos f <> fpos f' /\ adjacent (fx f) (fy f) (fx f') (fy f') = false) (foods s)
  /\ Forall (fun f => 1 <= flvl f <= max_food_level (map alvl (agents s)) /\ (coop = true -> flvl f = max_food_level (map alvl (agents s)))) (foods s).

Lemma interior_2d g p : 0 < g -> interior g p = true -> 1 <= p / g <= g - 2 /\ 1 <= p mod g <= g - 2.
Proof.
  intros G I. apply interior_range in I as (I1 & I2 & I3). pose proof (Z.mod_pos_bound p g G).
  pose proof (Z.div_mod p g ltac:(lia)). split; [|lia]. split; nia.
Qed.

Theorem gen_wellformed c coop d :
  0 < gsz c -> 1 <= nag c -> 0 <= nfood c -> valid_draws c coop d = true -> gen_props c coop (gen c coop d).
Proof.
  intros G NA NF V. unfold valid_draws in V. cbv zeta in V. set (g := gsz c) in *.
  repeat (apply andb_true_iff in V as [V ?]).
  rename H into LvF, H0 into LvA, H1 into ND, H2 into PA, H3 into FD, H4 into L4, H5 into L3, H6 into L2. rename V into L1.
  apply Z.eqb_eq in L1, L2, L3, L4.
  assert (Lz1 : length (zrange (nag c)) = length (combine (d_agent d) (d_alvl d))).
  { unfold zrange. rewrite zrange_from_length, combine_length. unfold zlen in *. lia. }
  assert (Lz2 : length (zrange (nfood c)) = length (combine (d_food d) (d_flvl d))).
  { unfold zrange. rewrite zrange_from_length, combine_length. unfold zlen in *. lia. }
  assert (Lc1 : length (d_agent d) = length (d_alvl d)) by (unfold zlen in *; lia).
  assert (Lc2 : length (d_food d) = length (d_flvl d)) by (unfold zlen in *; lia).
  (* the draws *)
  destruct (food_draws_sound g G (d_food d) (food_mask0 g) []) as (FI & FS & _).
  { unfold food_mask0. rewrite zlen_map, zlen_zrange by nia. reflexivity. }
  { intros q Hq. split; [apply mask0_true; auto|]. intros p []. }
  { exact FD. }
  rewrite forallb_forall in PA, LvA.
  assert (AL : Forall (fun x => 1 <= x <= maxlvl c) (d_alvl d)) by (apply Forall_forall; intros x Hx; specialize (LvA x Hx); lia).
  assert (ALne : d_alvl d <> []) by (destruct (d_alvl d); [unfold zlen in L3; cbn in L3; lia|congruence]).
  pose proof (max_food_level_bounds (maxlvl c) (d_alvl d) AL ALne) as MB. rewrite L3 in MB.
  (* projections of the generated lists *)
  set (s := gen c coop d).
  assert (Eaid : map aid (agents s) = zrange (nag c)).
  { unfold s, gen. cbn [agents]. rewrite map_map2. cbn [aid]. rewrite map2_left by exact Lz1. apply map_id. }
  assert (Eapos : map apos (agents s) = map (fun p => (p / g, p mod g)) (d_agent d)).
  { unfold s, gen. cbn [agents]. rewrite map_map2. unfold apos. cbn [ax ay]. fold g.
    rewrite (map2_right (fun pl : Z * Z => (fst pl / g, fst pl mod g))) by exact Lz1.
    rewrite <- (map_fst_combine (d_agent d) (d_alvl d) Lc1) at 2. rewrite map_map. reflexivity. }
  assert (Ealvl : map alvl (agents s) = d_alvl d).
  { unfold s, gen. cbn [agents]. rewrite map_map2. cbn [alvl]. rewrite (map2_right (fun pl : Z * Z => snd pl)) by exact Lz1.
    clear -Lc1. revert Lc1. generalize (d_alvl d). induction (d_agent d) as [|x a IH]; intros [|y b] H; cbn in *; try lia; auto. f_equal. apply IH. lia. }
  assert (Efpos : map fpos (foods s) = map (fun p => (p / g, p mod g)) (d_food d)).
  { unfold s, gen. cbn [foods]. rewrite map_map2. unfold fpos. cbn [fx fy]. fold g.
    rewrite (map2_right (fun pl : Z * Z => (fst pl / g, fst pl mod g))) by exact Lz2.
    rewrite <- (map_fst_combine (d_food d) (d_flvl d) Lc2) at 2. rewrite map_map. reflexivity. }
  assert (NDa : NoDup (d_agent d)).
  { clear -ND. induction (d_agent d) as [|x l IH]; [constructor|]. cbn [nodup_z] in ND. apply andb_true_iff in ND as [A B].
    constructor; auto. intro C. apply negb_true_iff in A. rewrite existsb_false_forall in A. specialize (A x C). lia. }
  assert (NDf : NoDup (d_food d)).
  { clear -FS. induction FS as [|x l Hx H IH]; constructor; auto. intro C. rewrite Forall_forall in Hx. destruct (Hx x C) as [N _]. congruence. }
  assert (Ffood : forall f, In f (foods s) -> exists p l, In p (d_food d) /\ f = mkF (fid f) (p / g) (p mod g) l false
                                               /\ 1 <= l <= max_food_level (d_alvl d) /\ (coop = true -> l = max_food_level (d_alvl d))).
  { intros f Hf. unfold s, gen in Hf. cbn [foods] in Hf. apply in_map2 in Hf as (i & pl & _ & Hpl & E).
    exists (fst pl), (flvl f). destruct pl as [p l]. pose proof (in_combine_l _ _ _ _ Hpl) as Hp. pose proof (in_combine_r _ _ _ _ Hpl) as Hl.
    split; [exact Hp|]. subst f. cbn [fid flvl fst snd]. fold g. split; [reflexivity|].
    destruct coop; cbn [orb] in LvF; [split; [lia|auto]|]. rewrite forallb_forall in LvF. specialize (LvF l Hl). split; [lia|discriminate]. }
  unfold gen_props. fold g. fold s.
  assert (I : Inv c s).
  { unfold Inv. split.
    { unfold s, gen. cbn [agents]. unfold zlen. rewrite map2_length, <- Lz1. unfold zrange. rewrite zrange_from_length. lia. }
    split. { unfold s, gen. cbn [foods]. unfold zlen. rewrite map2_length, <- Lz2. unfold zrange. rewrite zrange_from_length. lia. }
    split; [exact Eaid|].
    split. { rewrite Eapos. apply NoDup_map_on; [exact NDa|]. intros x y _ _ E. apply (unravel_inj g); auto. }
    split. { rewrite Efpos. apply NoDup_map_on; [exact NDf|]. intros x y _ _ E. apply (unravel_inj g); auto. }
    split.
    { apply Forall_forall. intros a Ha. unfold s, gen in Ha. cbn [agents] in Ha. apply in_map2 in Ha as (i & pl & _ & Hpl & E).
      destruct pl as [p l]. pose proof (in_combine_l _ _ _ _ Hpl) as Hp. pose proof (in_combine_r _ _ _ _ Hpl) as Hl.
      subst a. unfold agent_ok. cbn [ax ay alvl fst snd]. fold g.
      specialize (PA p Hp). unfold pickable in PA.
      assert (Zp : znth false (agent_mask g (d_food d)) p = true) by (apply andb_true_iff in PA as [_ PA]; exact PA).
      assert (Rp : 0 <= p < g * g).
      { pose proof (znth_true_range _ _ Zp) as R. unfold agent_mask in R.
        assert (K : forall t m, zlen (fold_left (fun m p => jset m p false) t m) = zlen m).
        { clear. induction t as [|x t IH]; intro m; cbn [fold_left]; [reflexivity|]. rewrite IH, zlen_jset. reflexivity. }
        rewrite K in R. unfold zlen in R. rewrite repeat_length in R. lia. }
      pose proof (Z.mod_pos_bound p g G). pose proof (Z.div_mod p g ltac:(lia)).
      split; [split; nia|]. split; [lia|]. split; [specialize (LvA l Hl); lia|].
      destruct (food_at (foods s) (p / g) (p mod g)) eqn:FA; [|reflexivity]. exfalso.
      unfold food_at in FA. apply existsb_exists in FA as [f [Hf FA]].
      destruct (Ffood f Hf) as (p' & l' & Hp' & Ef & _). rewrite Ef in FA. cbn [fx fy featen] in FA.
      assert (E : (p' / g, p' mod g) = (p / g, p mod g)) by (f_equal; lia). apply unravel_inj in E; [|exact G]. subst p'.
      rewrite Forall_forall in FI. specialize (FI p Hp'). apply interior_range in FI as (F1 & _).
      apply (agent_mask_true g (d_food d) p Zp p Hp'); [lia|reflexivity]. }
    split; [|unfold s, gen; cbn [cnt]; lia].
    apply Forall_forall. intros f Hf. destruct (Ffood f Hf) as (p & l & Hp & Ef & Ll & _). rewrite Ef. unfold food_ok. cbn [fx fy flvl].
    rewrite Forall_forall in FI. pose proof (interior_2d g p G (FI p Hp)). split; [lia|]. split; [lia|]. nia. }
  split; [exact I|]. split; [reflexivity|].
  split. { unfold s, gen. cbn [agents]. apply Forall_map2. intros; reflexivity. }
  split.
  { apply Forall_forall. intros f Hf. destruct (Ffood f Hf) as (p & l & Hp & Ef & _). rewrite Ef. cbn [featen fx fy].
    rewrite Forall_forall in FI. pose proof (interior_2d g p G (FI p Hp)). split; [reflexivity|lia]. }
  split.
  { unfold s, gen. cbn [foods]. apply FOP_map2.
    apply (FOP_impl (fun u v => sep g (fst u) (fst v))); [|apply FOP_combine; exact FS].
    intros [p l] [q l'] Hu Hv S x x'. cbn [fst snd] in *. unfold fpos. cbn [fx fy]. fold g.
    apply in_combine_l in Hu, Hv. rewrite Forall_forall in FI. apply sep_2d; auto. }
  apply Forall_forall. intros f Hf. destruct (Ffood f Hf) as (p & l & Hp & Ef & Ll & Lc). rewrite Ef, Ealvl. cbn [flvl]. split; [lia|exact Lc].
Qed.

(* force_coop with two or three agents: no single agent can eat a food alone (all levels are positive and the food level is
   the sum of ALL levels); with four or more agents a strong agent can: see the Example in Props/C10_Lbf.v *)
Lemma insert_zsum x l : zsum (insert x l) = x + zsum l.
Proof. induction l as [|y l IH]; cbn [insert zsum]; [lia|]. destruct (x <=? y); cbn [zsum]; lia. Qed.
Lemma sort_zsum l : zsum (sort l) = zsum l.
Proof. unfold sort. induction l as [|x l IH]; cbn [fold_right zsum]; [reflexivity|]. rewrite insert_zsum, IH. reflexivity. Qed.

Lemma zsum_ge_len l : Forall (fun x => 1 <= x) l -> Z.of_nat (length l) <= zsum l.
Proof. induction 1 as [|y l Py F IH]; cbn [length zsum]; lia. Qed.
Lemma in_le_zsum x l : Forall (fun x => 1 <= x) l -> In x l -> x + (Z.of_nat (length l) - 1) <= zsum l.
Proof.
  induction 1 as [|y l Py F IH]; intro Hx; [contradiction|]. cbn [length zsum]. destruct Hx as [E|Hx].
  - subst. pose proof (zsum_ge_len l F). lia.
  - specialize (IH Hx). lia.
Qed.

Theorem coop_needs_everybody alv x :
  (2 <= length alv <= 3)%nat -> Forall (fun l => 1 <= l) alv -> In x alv -> x < max_food_level alv.
Proof.
  intros L F Hx. unfold max_food_level. rewrite firstn_all2 by (rewrite sort_length; lia). rewrite sort_zsum.
  pose proof (in_le_zsum x alv F Hx). lia.
Qed.
