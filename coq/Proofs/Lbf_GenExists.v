(* LevelBasedForaging RandomGenerator (C10), non-vacuity for ALL admitted configurations: under the constructor's own
   assertions  5 <= grid_size, num_agents > 0, num_food > 0, max_agent_level >= 2,
   (grid_size - 2)^2 - num_agents > 5 * num_food  the support of every sampling step is non-empty:
   - food: whatever cells were drawn so far (fewer than num_food of them), the running mask still holds a True cell
     ([food_support_nonempty]; each draw clears at most 5 cells of the (grid_size-2)^2 interior cells);
   - agents: whatever the food cells, at least num_agents cells are True in the agent mask ([agent_support_enough]), which
     is what jax.random.choice(replace=False, p=mask) needs;
   - levels: randint(1, max+1) with max >= 1.
   Hence a valid draw vector exists ([valid_draws_exist]), every valid partial food sampling extends to one
   ([valid_draws_extend]) and [gen_wellformed] is never vacuous ([gen_nonvacuous]). *)
From Coq Require Import QArith.
Require Import JV.Base.Prelude JV.Base.JaxIndex JV.Base.Codec JV.Base.TimeStep JV.Model.Lbf JV.Proofs.Lbf JV.Proofs.Lbf_Gen.
Open Scope Z_scope.

(* RandomGenerator.__init__ *)
Definition constructible (c : cfg) : Prop :=
  5 <= gsz c /\ 1 <= nag c /\ 1 <= nfood c /\ 2 <= maxlvl c /\ (gsz c - 2) * (gsz c - 2) - nag c > 5 * nfood c.

(* at least n distinct True cells *)
Definition avail (m : list bool) (n : Z) : Prop :=
  exists L, NoDup L /\ Forall (fun q => znth false m q = true) L /\ n <= zlen L.

Lemma avail_weaken m n n' : n' <= n -> avail m n -> avail m n'.
Proof. intros H (L & A & B & C). exists L. repeat split; auto. lia. Qed.

Lemma znth_jset_keep m i q :
  znth false m q = true -> q <> jnorm (zlen m) i -> znth false (jset m i false) q = true.
Proof.
  intros H N. pose proof (znth_true_range _ _ H) as R. unfold jset. cbv zeta.
  destruct ((0 <=? jnorm (zlen m) i) && (jnorm (zlen m) i <? zlen m)) eqn:E; [|exact H].
  rewrite znth_zupd by lia. destruct (q =? jnorm (zlen m) i) eqn:E2; [lia|exact H].
Qed.

Lemma filter_ne_length j L : NoDup L -> zlen L - 1 <= zlen (filter (fun q => negb (q =? j)) L).
Proof.
  induction 1 as [|h t Nh N IH]; [cbn; lia|]. cbn [filter]. destruct (h =? j) eqn:E; cbn [negb].
  - assert (h = j) by lia. subst h. rewrite zlen_cons.
    assert (F : filter (fun q => negb (q =? j)) t = t).
    { clear -Nh. induction t as [|x t IH]; [reflexivity|]. cbn [filter]. destruct (x =? j) eqn:E; cbn [negb].
      - exfalso. apply Nh. cbn. lia.
      - rewrite IH; [reflexivity|]. intro C. apply Nh. cbn; auto. }
    rewrite F. lia.
  - rewrite !zlen_cons. lia.
Qed.

Lemma avail_jset m i n : avail m n -> avail (jset m i false) (n - 1).
Proof.
  intros (L & A & B & C). set (j := jnorm (zlen m) i). exists (filter (fun q => negb (q =? j)) L).
  split; [apply NoDup_filter; exact A|]. split.
  - apply Forall_forall. intros q Hq. apply filter_In in Hq as [Hq Ne]. rewrite Forall_forall in B.
    apply znth_jset_keep; [apply B; exact Hq|]. fold j. lia.
  - pose proof (filter_ne_length j L A). lia.
Qed.

Lemma avail_block g m p n : avail m n -> avail (block g m p) (n - 5).
Proof.
  intro H. rewrite block_unfold. replace (n - 5) with (n - 1 - 1 - 1 - 1 - 1) by lia.
  do 5 apply avail_jset. exact H.
Qed.

Lemma avail_pick m n : 0 < n -> avail m n -> exists p, pickable m p = true.
Proof.
  intros P (L & _ & B & C). destruct L as [|p L]; [unfold zlen in C; cbn in C; lia|]. exists p.
  inversion B as [|? ? Hp _]; subst. pose proof (znth_true_range _ _ Hp). unfold pickable. rewrite Hp. lia.
Qed.

(* the (g-2)^2 interior cells *)
Definition icell (g k : Z) : Z := (k / (g - 2) + 1) * g + (k mod (g - 2) + 1).

Lemma icell_coords g k :
  3 <= g -> 0 <= k < (g - 2) * (g - 2) ->
  0 <= k / (g - 2) < g - 2 /\ 0 <= k mod (g - 2) < g - 2 /\ k = (g - 2) * (k / (g - 2)) + k mod (g - 2).
Proof.
  intros G K. pose proof (Z.mod_pos_bound k (g - 2) ltac:(lia)) as B. pose proof (Z.div_mod k (g - 2) ltac:(lia)) as D.
  split; [|split; [exact B|exact D]]. split; [apply Z.div_pos; lia|]. apply Z.div_lt_upper_bound; lia.
Qed.

Lemma icell_interior g k : 3 <= g -> 0 <= k < (g - 2) * (g - 2) -> 0 <= icell g k < g * g /\ interior g (icell g k) = true.
Proof.
  intros G K. destruct (icell_coords g k G K) as (A & B & _). unfold icell.
  set (a := k / (g - 2)) in *. set (b := k mod (g - 2)) in *. clearbody a b.
  assert (M : ((a + 1) * g + (b + 1)) mod g = b + 1).
  { symmetry. apply (Z.mod_unique_pos _ _ (a + 1)); lia. }
  split; [nia|]. unfold interior. rewrite M.
  assert ((a + 1) * g + (b + 1) < g * g - g) by nia. assert (g <= (a + 1) * g + (b + 1)) by nia. lia.
Qed.

Lemma icell_inj g x y :
  3 <= g -> 0 <= x < (g - 2) * (g - 2) -> 0 <= y < (g - 2) * (g - 2) -> icell g x = icell g y -> x = y.
Proof.
  intros G X Y E. destruct (icell_coords g x G X) as (A1 & B1 & D1). destruct (icell_coords g y G Y) as (A2 & B2 & D2).
  unfold icell in E. set (a1 := x / (g - 2)) in *. set (b1 := x mod (g - 2)) in *.
  set (a2 := y / (g - 2)) in *. set (b2 := y mod (g - 2)) in *. clearbody a1 b1 a2 b2.
  assert (a1 = a2) by nia. subst a2. assert (b1 = b2) by lia. subst b2. lia.
Qed.

Lemma avail_mask0 g : 3 <= g -> avail (food_mask0 g) ((g - 2) * (g - 2)).
Proof.
  intro G. exists (map (icell g) (zrange ((g - 2) * (g - 2)))). split; [|split].
  - apply NoDup_map_on; [apply zrange_NoDup|]. intros x y Hx Hy. rewrite in_zrange in Hx, Hy. apply icell_inj; auto.
  - apply Forall_forall. intros q Hq. apply in_map_iff in Hq as [k [E Hk]]. subst q. rewrite in_zrange in Hk.
    destruct (icell_interior g k G Hk) as [R I]. unfold food_mask0. rewrite znth_tab by exact R. exact I.
  - rewrite zlen_map, zlen_zrange by nia. lia.
Qed.

(* ---------- food ---------- *)
Definition mask_after (g : Z) (m : list bool) (ps : list Z) : list bool := fold_left (block g) ps m.

Lemma food_draws_app g ps : forall m qs,
  food_draws_ok g m (ps ++ qs) = food_draws_ok g m ps && food_draws_ok g (mask_after g m ps) qs.
Proof.
  induction ps as [|p ps IH]; intros m qs; cbn [Datatypes.app food_draws_ok mask_after fold_left]; [reflexivity|].
  rewrite IH. unfold mask_after. rewrite andb_assoc. reflexivity.
Qed.

Lemma avail_after g ps : forall m n, avail m n -> avail (mask_after g m ps) (n - 5 * zlen ps).
Proof.
  induction ps as [|p ps IH]; intros m n H; cbn [mask_after fold_left].
  - apply (avail_weaken m n); [unfold zlen; cbn; lia|exact H].
  - apply (avail_weaken _ (n - 5 - 5 * zlen ps)); [rewrite zlen_cons; lia|]. apply (IH (block g m p)). apply avail_block. exact H.
Qed.

(* whatever was drawn so far, the next food draw has a non-empty support *)
Theorem food_support_nonempty c ps :
  constructible c -> zlen ps < nfood c -> exists p, pickable (mask_after (gsz c) (food_mask0 (gsz c)) ps) p = true.
Proof.
  intros (G & A & F & _ & Hc) L.
  apply (avail_pick _ ((gsz c - 2) * (gsz c - 2) - 5 * zlen ps)); [lia|]. apply avail_after. apply avail_mask0. lia.
Qed.

Lemma food_draws_extend c k : forall ps,
  constructible c -> food_draws_ok (gsz c) (food_mask0 (gsz c)) ps = true -> zlen ps + Z.of_nat k <= nfood c ->
  exists qs, length qs = k /\ food_draws_ok (gsz c) (food_mask0 (gsz c)) (ps ++ qs) = true.
Proof.
  induction k as [|k IH]; intros ps Ad H L.
  - exists []. rewrite app_nil_r. auto.
  - destruct (food_support_nonempty c ps Ad ltac:(lia)) as [p Hp].
    destruct (IH (ps ++ [p]) Ad) as (qs & Lq & Hq).
    + rewrite food_draws_app, H. cbn [food_draws_ok andb]. rewrite Hp. reflexivity.
    + unfold zlen in *. rewrite app_length. cbn [length]. lia.
    + exists (p :: qs). split; [cbn [length]; lia|]. rewrite <- app_assoc in Hq. exact Hq.
Qed.

(* ---------- agents ---------- *)
Lemma nth_repeat_true n : forall k, (k < n)%nat -> nth k (repeat true n) false = true.
Proof. induction n as [|n IH]; intros [|k] H; cbn [repeat nth]; try lia; auto. apply IH. lia. Qed.

Lemma avail_all_true n : 0 <= n -> avail (repeat true (Z.to_nat n)) n.
Proof.
  intro N. exists (zrange n). split; [apply zrange_NoDup|]. split; [|rewrite zlen_zrange by lia; lia].
  apply Forall_forall. intros q Hq. rewrite in_zrange in Hq. rewrite znth_nth by lia. apply nth_repeat_true. lia.
Qed.

Lemma avail_agent_mask g fps : 0 <= g * g -> avail (agent_mask g fps) (g * g - zlen fps).
Proof.
  intro G. unfold agent_mask. pose proof (avail_all_true (g * g) G) as H. revert H.
  generalize (repeat true (Z.to_nat (g * g))). generalize (g * g). clear G.
  induction fps as [|p t IH]; intros n m H; cbn [fold_left].
  - apply (avail_weaken m n); [unfold zlen; cbn; lia|exact H].
  - apply (avail_weaken _ (n - 1 - zlen t)); [rewrite zlen_cons; lia|]. apply (IH (n - 1) (jset m p false)). apply avail_jset. exact H.
Qed.

Lemma In_firstn {A} k (l : list A) x : In x (firstn k l) -> In x l.
Proof. revert k. induction l as [|h l IH]; intros [|k] H; cbn [firstn] in H; try contradiction. destruct H; [left; auto|right; eauto]. Qed.

Lemma NoDup_firstn {A} k (l : list A) : NoDup l -> NoDup (firstn k l).
Proof.
  intro N. revert k. induction N as [|h l Nh N IH]; intros [|k]; cbn [firstn]; constructor; auto.
  intro C. apply Nh. eapply In_firstn. exact C.
Qed.

Lemma nodup_z_spec l : nodup_z l = true <-> NoDup l.
Proof.
  induction l as [|x l IH]; cbn [nodup_z]; [split; [constructor|reflexivity]|].
  rewrite andb_true_iff, IH, negb_true_iff, existsb_false_forall. split.
  - intros [A B]. constructor; auto. intro C. specialize (A x C). lia.
  - intro N. inversion N as [|? ? Nx Nl]; subst. split; auto. intros y Hy. apply Z.eqb_neq. intro E. subst. contradiction.
Qed.

(* whatever the food cells, the agent mask keeps at least num_agents True cells *)
Theorem agent_support_enough c fps :
  constructible c -> zlen fps = nfood c ->
  exists L, zlen L = nag c /\ nodup_z L = true /\ forallb (pickable (agent_mask (gsz c) fps)) L = true.
Proof.
  intros (G & A & F & _ & Hc) Lf.
  destruct (avail_agent_mask (gsz c) fps ltac:(nia)) as (L & N & T & Len). rewrite Lf in Len.
  assert (Hn : nag c <= zlen L) by nia.
  exists (firstn (Z.to_nat (nag c)) L). split; [|split].
  - unfold zlen in *. rewrite firstn_length. lia.
  - apply nodup_z_spec. apply NoDup_firstn. exact N.
  - apply forallb_forall. intros p Hp. apply In_firstn in Hp. rewrite Forall_forall in T. specialize (T p Hp).
    pose proof (znth_true_range _ _ T). unfold pickable. rewrite T. lia.
Qed.

(* ---------- levels ---------- *)
Lemma zlen_repeat {A} (x : A) n : zlen (repeat x n) = Z.of_nat n.
Proof. unfold zlen. rewrite repeat_length. reflexivity. Qed.

Lemma Forall_repeat {A} (P : A -> Prop) x n : P x -> Forall P (repeat x n).
Proof. intro H. induction n; cbn [repeat]; constructor; auto. Qed.

(* ---------- the whole draw vector ---------- *)
Theorem valid_draws_extend c coop ps :
  constructible c -> food_draws_ok (gsz c) (food_mask0 (gsz c)) ps = true -> zlen ps <= nfood c ->
  exists d, valid_draws c coop d = true /\ firstn (length ps) (d_food d) = ps.
Proof.
  intros Ad H L. pose proof Ad as (G & A & F & M & Hc).
  destruct (food_draws_extend c (Z.to_nat (nfood c - zlen ps)) ps Ad H ltac:(lia)) as (qs & Lq & Hq).
  assert (Lf : zlen (ps ++ qs) = nfood c) by (unfold zlen in *; rewrite app_length; lia).
  destruct (agent_support_enough c (ps ++ qs) Ad Lf) as (La & LL & ND & PK).
  set (alv := repeat 1 (Z.to_nat (nag c))).
  exists (mkD (ps ++ qs) La alv (repeat 1 (Z.to_nat (nfood c)))). split.
  - unfold valid_draws. cbv zeta. cbn [d_food d_agent d_alvl d_flvl]. rewrite Hq, PK, ND. unfold alv. rewrite !zlen_repeat.
    replace (zlen (ps ++ qs) =? nfood c) with true by lia. replace (zlen La =? nag c) with true by lia.
    replace (Z.of_nat (Z.to_nat (nag c)) =? nag c) with true by lia. replace (Z.of_nat (Z.to_nat (nfood c)) =? nfood c) with true by lia.
    cbn [andb]. apply andb_true_iff. split.
    + apply forallb_forall. intros l Hl. apply repeat_spec in Hl. subst l. lia.
    + apply orb_true_iff. right. apply forallb_forall. intros l Hl. apply repeat_spec in Hl. subst l.
      assert (B : 1 <= max_food_level (repeat 1 (Z.to_nat (nag c))) <= zlen (repeat 1 (Z.to_nat (nag c))) * 1).
      { apply max_food_level_bounds; [apply Forall_repeat; lia|]. destruct (Z.to_nat (nag c)) eqn:E; [lia|cbn [repeat]; congruence]. }
      lia.
  - cbn [d_food]. rewrite firstn_app, Nat.sub_diag, firstn_all. cbn [firstn]. apply app_nil_r.
Qed.

Theorem valid_draws_exist c coop : constructible c -> exists d, valid_draws c coop d = true.
Proof.
  intro Ad. destruct (valid_draws_extend c coop [] Ad eq_refl) as (d & V & _).
  - destruct Ad as (_ & _ & F & _). unfold zlen. cbn [length]. lia.
  - exists d. exact V.
Qed.

(* C10 is never vacuous: every admitted configuration has a draw vector, and what it generates is well formed *)
Theorem gen_nonvacuous c coop : constructible c -> exists d, valid_draws c coop d = true /\ gen_props c coop (gen c coop d).
Proof.
  intro Ad. destruct (valid_draws_exist c coop Ad) as [d V]. exists d. split; [exact V|].
  destruct Ad as (G & A & F & _). apply gen_wellformed; auto; lia.
Qed.
