(* LevelBasedForaging C10: the boolean checker [gen_ok_b] that the harness runs on the implementation's reset states decides
   the Prop [gen_props] proved of the generator ([gen_wellformed]):
   - [gen_ok_b_complete]: gen_props -> gen_ok_b = true, unconditionally;
   - [gen_ok_b_sound] / [gen_ok_b_spec]: gen_ok_b = true <-> gen_props on states whose food ids are pairwise distinct (the
     checker identifies a food with itself through its id); the generator numbers the foods 0..n-1 ([gen_fids]) and the
     harness compares the implementation's reset state, ids included, with the model's;
   - [gen_ok_b_needs_ids]: without distinct ids the checker is strictly weaker (two adjacent foods carrying the same id pass);
   - [gen_ok_ids_b_spec]: the unconditional equivalence for checker-plus-id-test. *)
From Coq Require Import QArith.
Require Import JV.Base.Prelude JV.Base.JaxIndex JV.Base.Codec JV.Base.TimeStep JV.Model.Lbf JV.Proofs.Lbf JV.Proofs.Lbf_Gen JV.Proofs.Lbf_GenExists.
Open Scope Z_scope.

Definition sepf (f f' : food) : Prop := fpos f <> fpos f' /\ adjacent (fx f) (fy f) (fx f') (fy f') = false.

Lemma sepf_sym f f' : sepf f f' -> sepf f' f.
Proof. intros [A B]. split; [congruence|]. rewrite adjacent_sym. exact B. Qed.

Lemma adjacent_irrefl x y : adjacent x y x y = false.
Proof. unfold adjacent. lia. Qed.

(* pairwise over ALL pairs, a food being excused against any food of the same id *)
Definition pair_ok_b (fs : list food) : bool :=
  forallb (fun f => forallb (fun f' => (fid f =? fid f') || negb (adjacent (fx f) (fy f) (fx f') (fy f'))) fs) fs.

Lemma pair_ok_complete fs : NoDup (map fpos fs) -> ForallOrdPairs sepf fs -> pair_ok_b fs = true.
Proof.
  intros N H. unfold pair_ok_b. apply forallb_forall. intros f Hf. apply forallb_forall. intros f' Hf'.
  destruct (ForallOrdPairs_In H f f' Hf Hf') as [E|[S|S]].
  - subst. rewrite Z.eqb_refl. reflexivity.
  - destruct S as [_ S]. rewrite S. apply orb_true_r.
  - apply sepf_sym in S. destruct S as [_ S]. rewrite S. apply orb_true_r.
Qed.

Lemma pair_ok_sound fs : NoDup (map fid fs) -> NoDup (map fpos fs) -> pair_ok_b fs = true -> ForallOrdPairs sepf fs.
Proof.
  unfold pair_ok_b. intros Ni Np H.
  assert (P : forall f f', In f fs -> In f' fs -> fid f = fid f' \/ adjacent (fx f) (fy f) (fx f') (fy f') = false).
  { intros f f' Hf Hf'. rewrite forallb_forall in H. specialize (H f Hf). rewrite forallb_forall in H. specialize (H f' Hf').
    apply orb_true_iff in H as [H|H]; [left; lia|right; apply negb_true_iff; exact H]. }
  clear H. induction fs as [|h t IH]; [constructor|]. cbn [map] in Ni, Np.
  inversion Ni as [|? ? Nih Nit]; subst. inversion Np as [|? ? Nph Npt]; subst. constructor.
  - apply Forall_forall. intros f' Hf'. split.
    + intro E. apply Nph. rewrite E. apply in_map. exact Hf'.
    + destruct (P h f') as [E|E]; cbn; auto. exfalso. apply Nih. rewrite E. apply in_map. exact Hf'.
  - apply IH; auto. intros f f' Hf Hf'. apply P; cbn; auto.
Qed.

Lemma gen_ok_b_unfold c coop s :
  gen_ok_b c coop s
  = Inv_b c s && (cnt s =? 0)
    && forallb (fun a => negb (aload a)) (agents s)
    && forallb (fun f => negb (featen f) && (1 <=? fx f) && (fx f <=? gsz c - 2) && (1 <=? fy f) && (fy f <=? gsz c - 2)) (foods s)
    && pair_ok_b (foods s)
    && forallb (fun f => flvl f <=? max_food_level (map alvl (agents s))) (foods s)
    && (negb coop || forallb (fun f => flvl f =? max_food_level (map alvl (agents s))) (foods s)).
Proof. reflexivity. Qed.

Lemma gen_props_unfold c coop s :
  gen_props c coop s <->
  Inv c s /\ cnt s = 0
  /\ Forall (fun a => aload a = false) (agents s)
  /\ Forall (fun f => featen f = false /\ 1 <= fx f <= gsz c - 2 /\ 1 <= fy f <= gsz c - 2) (foods s)
  /\ ForallOrdPairs sepf (foods s)
  /\ Forall (fun f => 1 <= flvl f <= max_food_level (map alvl (agents s)) /\ (coop = true -> flvl f = max_food_level (map alvl (agents s)))) (foods s).
Proof. reflexivity. Qed.

Theorem gen_ok_b_complete c coop s : gen_props c coop s -> gen_ok_b c coop s = true.
Proof.
  rewrite gen_props_unfold, gen_ok_b_unfold. intros (I & C0 & AL & FI & FP & FL).
  pose proof I as (_ & _ & _ & _ & Np & _).
  rewrite !andb_true_iff. split; [split; [split; [split; [split; [split|]|]|]|]|].
  - apply Inv_b_spec. exact I.
  - lia.
  - apply forallb_forall. intros a Ha. rewrite Forall_forall in AL. rewrite (AL a Ha). reflexivity.
  - apply forallb_forall. intros f Hf. rewrite Forall_forall in FI. destruct (FI f Hf) as (E & ? & ?). rewrite E. cbn [negb]. lia.
  - apply pair_ok_complete; assumption.
  - apply forallb_forall. intros f Hf. rewrite Forall_forall in FL. destruct (FL f Hf) as (? & _). lia.
  - destruct coop; cbn [negb orb]; [|reflexivity]. apply forallb_forall. intros f Hf. rewrite Forall_forall in FL.
    destruct (FL f Hf) as (_ & E). rewrite (E eq_refl). lia.
Qed.

Theorem gen_ok_b_sound c coop s : NoDup (map fid (foods s)) -> gen_ok_b c coop s = true -> gen_props c coop s.
Proof.
  rewrite gen_props_unfold, gen_ok_b_unfold. intros Ni H.
  rewrite !andb_true_iff in H. destruct H as [[[[[[I C0] AL] FI] FP] FL] CO].
  apply Inv_b_spec in I. pose proof I as (_ & _ & _ & _ & Np & _ & FO & _).
  rewrite forallb_forall in AL, FI, FL.
  split; [exact I|]. split; [lia|]. split; [|split; [|split]].
  - apply Forall_forall. intros a Ha. apply negb_true_iff. apply AL. exact Ha.
  - apply Forall_forall. intros f Hf. specialize (FI f Hf). destruct (featen f); cbn [negb andb] in FI; [discriminate|].
    split; [reflexivity|lia].
  - apply pair_ok_sound; assumption.
  - apply Forall_forall. intros f Hf. specialize (FL f Hf). rewrite Forall_forall in FO. destruct (FO f Hf) as (_ & _ & L).
    split; [lia|]. intro E. subst coop. cbn [negb orb] in CO. rewrite forallb_forall in CO. specialize (CO f Hf). lia.
Qed.

(* the checker decides the Prop on states whose food ids are pairwise distinct *)
Theorem gen_ok_b_spec c coop s : NoDup (map fid (foods s)) -> (gen_ok_b c coop s = true <-> gen_props c coop s).
Proof. intro N. split; [apply gen_ok_b_sound; exact N|apply gen_ok_b_complete]. Qed.

(* ... and only there: two adjacent foods carrying the same id pass the checker *)
Theorem gen_ok_b_needs_ids : exists c coop s, gen_ok_b c coop s = true /\ ~ gen_props c coop s.
Proof.
  exists (mkC 5 1 2 1 3 true 0%Q false 2), false,
         (mkS [mkA 0 0 0 1 false] [mkF 0 1 1 1 false; mkF 0 1 2 1 false] 0).
  split; [vm_compute; reflexivity|]. rewrite gen_props_unfold. intros (_ & _ & _ & _ & FP & _).
  inversion FP as [|? ? Hh _]; subst. inversion Hh as [|? ? [_ A] _]; subst. vm_compute in A. discriminate.
Qed.

Definition gen_ok_ids_b (c : cfg) (coop : bool) (s : state) : bool := gen_ok_b c coop s && nodup_z (map fid (foods s)).

Theorem gen_ok_ids_b_spec c coop s :
  gen_ok_ids_b c coop s = true <-> gen_props c coop s /\ NoDup (map fid (foods s)).
Proof.
  unfold gen_ok_ids_b. rewrite andb_true_iff, nodup_z_spec. split; intros [A B]; (split; [|exact B]).
  - apply gen_ok_b_sound; assumption.
  - apply gen_ok_b_complete; assumption.
Qed.

(* the generator numbers the foods 0 .. num_food-1 *)
Lemma gen_fids c coop d :
  zlen (d_food d) = nfood c -> zlen (d_flvl d) = nfood c -> map fid (foods (gen c coop d)) = zrange (nfood c).
Proof.
  intros L1 L2. unfold gen. cbn [foods]. rewrite map_map2. cbn [fid]. rewrite map2_left; [apply map_id|].
  unfold zrange. rewrite zrange_from_length, combine_length. unfold zlen in *. lia.
Qed.

(* every state the model generator produces from a draw vector of non-zero probability passes the checker *)
Theorem gen_passes_checker c coop d :
  0 < gsz c -> 1 <= nag c -> 0 <= nfood c -> valid_draws c coop d = true -> gen_ok_b c coop (gen c coop d) = true.
Proof. intros G A F V. apply gen_ok_b_complete. apply gen_wellformed; assumption. Qed.

Theorem gen_ids_distinct c coop d : valid_draws c coop d = true -> NoDup (map fid (foods (gen c coop d))).
Proof.
  intro V. unfold valid_draws in V. cbv zeta in V. repeat (apply andb_true_iff in V as [V ?]).
  rewrite gen_fids by lia. apply zrange_NoDup.
Qed.
