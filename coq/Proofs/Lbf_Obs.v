(* LevelBasedForaging observers (C12): on every physically consistent state (Inv) with fov >= 1
   - the vector observation of agent a is the declarative [view_spec]: food triplets in food order, the observer, the other
     agents in list (= id) order; coordinates relative to the corner of the field of view clipped to the grid; (-1,-1,0)
     for anything outside the field of view or eaten;
   - the grid observation is the declarative [gview_spec]: cell (dr, dk) of the three (2 fov + 1)^2 windows shows the agent
     level / uneaten food level / accessibility of grid cell (x - fov + dr, y - fov + dk) (0 outside the grid). *)
From Coq Require Import QArith.
Require Import JV.Base.Prelude JV.Base.JaxIndex JV.Base.Codec JV.Base.TimeStep JV.Model.Lbf JV.Proofs.Lbf.
Open Scope Z_scope.

(* ---------- gathers at the indices of the True flags = filter ---------- *)
Lemma jget_app_mid {A} (d : A) pre h t : jget d (pre ++ h :: t) (zlen pre) = h.
Proof.
  rewrite jget_in_range.
  - unfold zlen. rewrite Nat2Z.id. rewrite app_nth2 by lia. rewrite Nat.sub_diag. reflexivity.
  - rewrite zlen_app, zlen_cons. pose proof (zlen_nonneg pre). pose proof (zlen_nonneg t). lia.
Qed.

Lemma gather_true_idx {A B} (d : B) (F : A -> B) (P : A -> bool) l : forall pre,
  map (jget d (map F (pre ++ l))) (true_idx (zlen pre) (map P l)) = map F (filter P l).
Proof.
  induction l as [|h t IH]; intro pre; cbn [map true_idx filter]; [reflexivity|].
  assert (E : pre ++ h :: t = (pre ++ [h]) ++ t) by (rewrite <- app_assoc; reflexivity).
  assert (Z1 : zlen pre + 1 = zlen (pre ++ [h])) by (rewrite zlen_app; unfold zlen; cbn; lia).
  destruct (P h); cbn [map].
  - f_equal.
    + rewrite map_app. cbn [map]. rewrite <- (zlen_map F pre). apply jget_app_mid.
    + rewrite Z1, E. apply IH.
  - rewrite Z1, E. apply IH.
Qed.

Lemma true_idx_length k flags : length (true_idx k flags) = length (filter (fun b => b) flags).
Proof. revert k. induction flags as [|b t IH]; intro k; cbn [true_idx filter]; [reflexivity|]. destruct b; cbn [length]; rewrite IH; reflexivity. Qed.

Lemma filter_map_length {A} (P : A -> bool) l : length (filter (fun b => b) (map P l)) = length (filter P l).
Proof. induction l as [|h t IH]; cbn [map filter]; [reflexivity|]. destruct (P h); cbn [length]; rewrite IH; reflexivity. Qed.

Lemma nonzero_size_exact {A} (P : A -> bool) l k :
  length (filter P l) = k -> nonzero_size k (map P l) = true_idx 0 (map P l).
Proof.
  intro H. unfold nonzero_size. rewrite firstn_app. rewrite true_idx_length, filter_map_length, H, Nat.sub_diag. cbn [firstn].
  rewrite app_nil_r. apply firstn_all2. rewrite true_idx_length, filter_map_length. lia.
Qed.

Lemma filter_self (a : agent) l : NoDup (map aid l) -> In a l -> filter (fun b => aid a =? aid b) l = [a].
Proof.
  induction l as [|h t IH]; intros N Ha; [contradiction|]. cbn [map] in N. inversion N as [|? ? Nh Nt]; subst. cbn [filter].
  destruct Ha as [E|Ha].
  - subst h. rewrite Z.eqb_refl. f_equal. clear IH N Nt. induction t as [|x t IH]; [reflexivity|]. cbn [filter].
    destruct (aid a =? aid x) eqn:E; [exfalso; apply Nh; cbn [map]; left; lia|]. apply IH. intro C. apply Nh. cbn [map]. right. exact C.
  - destruct (aid a =? aid h) eqn:E; [exfalso; apply Nh; replace (aid h) with (aid a) by lia; apply in_map; exact Ha|]. apply IH; auto.
Qed.

Lemma filter_others_length (a : agent) l :
  NoDup (map aid l) -> In a l -> length (filter (fun b => negb (aid a =? aid b)) l) = (length l - 1)%nat.
Proof.
  intros N Ha. pose proof (filter_self a l N Ha) as S.
  assert (T : forall l, (length (filter (fun b => (aid a =? aid b)%Z) l) + length (filter (fun b => negb (aid a =? aid b)%Z) l) = length l)%nat).
  { clear. induction l as [|h t IH]; [reflexivity|]. cbn [filter]. destruct (aid a =? aid h); cbn [negb length]; lia. }
  specialize (T l). rewrite S in T. cbn [length] in T. lia.
Qed.

(* ---------- vector observer ---------- *)
Lemma info_rel fv a x y l b :
  0 <= ax a -> 0 <= ay a -> 0 <= fv ->
  info fv a (visible fv (ax a) (ay a) x y && b) x y l = if in_fov fv a x y && b then rel fv a x y l else hidden.
Proof.
  intros X Y F. unfold info, visible, in_fov, rel, hidden.
  replace ((Z.abs (ax a - x) <=? fv) && (Z.abs (ay a - y) <=? fv)) with ((ax a - fv <=? x) && (x <=? ax a + fv) && (ay a - fv <=? y) && (y <=? ay a + fv)) by lia.
  destruct (_ && b); [|reflexivity]. f_equal; [lia|]. f_equal. lia.
Qed.

Theorem vector_view_spec c s a :
  Inv c s -> In a (agents s) -> 0 <= fov c -> vector_view c s a = view_spec c s a.
Proof.
  intros I Ha Fv. pose proof I as (La & _ & _ & _ & _ & FA & _). pose proof (Inv_ids_NoDup c s I) as NI.
  rewrite Forall_forall in FA. destruct (FA a Ha) as (X & Y & _).
  unfold vector_view, view_spec.
  set (F := fun b => info (fov c) a (visible (fov c) (ax a) (ay a) (ax b) (ay b)) (ax b) (ay b) (alvl b)).
  rewrite (nonzero_size_exact (fun b => aid a =? aid b) (agents s) 1) by (rewrite filter_self; auto).
  rewrite (nonzero_size_exact (fun b => negb (aid a =? aid b)) (agents s) (Z.to_nat (nag c - 1))).
  2:{ rewrite filter_others_length by auto. unfold zlen in La. lia. }
  pose proof (gather_true_idx hidden F (fun b => aid a =? aid b) (agents s) []) as G1.
  pose proof (gather_true_idx hidden F (fun b => negb (aid a =? aid b)) (agents s) []) as G2.
  cbn [app] in G1, G2. change (zlen []) with 0 in G1, G2. unfold hidden in G1, G2. rewrite G1, G2. rewrite filter_self by auto.
  cbn [map concat]. rewrite app_nil_r.
  f_equal; [|f_equal].
  - f_equal. apply map_ext. intro f. apply info_rel; lia.
  - unfold F. rewrite <- (andb_true_r (visible _ _ _ _ _)). rewrite info_rel by lia.
    unfold in_fov. replace ((ax a - fov c <=? ax a) && (ax a <=? ax a + fov c) && (ay a - fov c <=? ay a) && (ay a <=? ay a + fov c) && true) with true by lia.
    reflexivity.
  - f_equal. rewrite (filter_ext (fun b => negb (aid a =? aid b)) (fun b => negb (aid b =? aid a))) by (intro b; rewrite Z.eqb_sym; reflexivity).
    apply map_ext. intro b. unfold F. rewrite <- (andb_true_r (visible _ _ _ _ _)). rewrite info_rel by lia. rewrite andb_true_r. reflexivity.
Qed.

(* ---------- grid observer ---------- *)
Lemma zsum_zero {A} (f : A -> Z) l : (forall x, In x l -> f x = 0) -> zsum (map f l) = 0.
Proof. induction l as [|h t IH]; intro H; cbn [map zsum]; [reflexivity|]. rewrite H by (cbn; auto). rewrite IH; [lia|]. intros x Hx. apply H. cbn; auto. Qed.

(* a sum over entities on pairwise distinct cells picks out the one standing on the cell *)
Lemma zsum_unique {A} (pos : A -> Z * Z) (val : A -> Z) (l : list A) p :
  NoDup (map pos l) ->
  zsum (map (fun b => if pos_eqb (pos b) p then val b else 0) l)
  = match find (fun b => pos_eqb (pos b) p) l with Some b => val b | None => 0 end.
Proof.
  induction l as [|h t IH]; intro N; cbn [map zsum find]; [reflexivity|]. cbn [map] in N. inversion N as [|? ? Nh Nt]; subst.
  destruct (pos_eqb (pos h) p) eqn:E.
  - rewrite zsum_zero; [lia|]. intros x Hx. destruct (pos_eqb (pos x) p) eqn:E2; [|reflexivity].
    apply pos_eqb_eq in E, E2. exfalso. apply Nh. rewrite E, <- E2. apply in_map. exact Hx.
  - rewrite IH by exact Nt. lia.
Qed.

Lemma find_ext_in {A} (f g : A -> bool) l : (forall x, In x l -> f x = g x) -> find f l = find g l.
Proof. induction l as [|h t IH]; intro H; cbn [find]; [reflexivity|]. rewrite H by (cbn; auto). rewrite IH; [reflexivity|]. intros x Hx. apply H. cbn; auto. Qed.

Lemma agent_board_spec c s x y :
  Inv c s -> 0 <= fov c ->
  agent_board (gsz c + 2 * fov c) (fov c) (agents s) (x + fov c) (y + fov c) = agent_level_at s x y.
Proof.
  intros I Fv. pose proof I as (_ & _ & _ & NP & _ & FA & _). rewrite Forall_forall in FA.
  unfold agent_board, agent_level_at. rewrite <- (zsum_unique apos alvl (agents s) (x, y) NP).
  f_equal. apply map_ext_in. intros b Hb. destruct (FA b Hb) as (X & Y & _).
  unfold jnorm, pos_eqb, apos. cbn [fst snd]. replace (ax b + fov c <? 0) with false by lia. replace (ay b + fov c <? 0) with false by lia.
  replace (ax b + fov c =? x + fov c) with (ax b =? x) by lia. replace (ay b + fov c =? y + fov c) with (ay b =? y) by lia. reflexivity.
Qed.

Lemma food_board_spec c s x y :
  Inv c s -> 0 <= fov c ->
  food_board (gsz c + 2 * fov c) (fov c) (foods s) (x + fov c) (y + fov c) = food_level_at s x y.
Proof.
  intros I Fv. pose proof I as (_ & _ & _ & _ & NF & _ & FF & _). rewrite Forall_forall in FF.
  unfold food_board, food_level_at.
  transitivity (zsum (map (fun f => if pos_eqb (fpos f) (x, y) then flvl f * b2z (negb (featen f)) else 0) (foods s))).
  - f_equal. apply map_ext_in. intros f Hf. destruct (FF f Hf) as (X & Y & _).
    unfold jnorm, pos_eqb, fpos. cbn [fst snd]. replace (fx f + fov c <? 0) with false by lia. replace (fy f + fov c <? 0) with false by lia.
    replace (fx f + fov c =? x + fov c) with (fx f =? x) by lia. replace (fy f + fov c =? y + fov c) with (fy f =? y) by lia. reflexivity.
  - rewrite (zsum_unique fpos (fun f => flvl f * b2z (negb (featen f))) (foods s) (x, y) NF).
    clear FF. induction (foods s) as [|h t IH]; cbn [find]; [reflexivity|]. cbn [map] in NF. inversion NF as [|? ? Nh Nt]; subst.
    destruct (pos_eqb (fpos h) (x, y)) eqn:E; cbn [andb].
    + destruct (featen h); cbn [negb b2z]; [|lia].
      rewrite Z.mul_0_r. symmetry. rewrite (find_ext_in _ (fun _ => false)).
      * clear. induction t; cbn [find]; auto.
      * intros f Hf. destruct (pos_eqb (fpos f) (x, y)) eqn:E2; [|reflexivity]. apply pos_eqb_eq in E, E2. exfalso. apply Nh. rewrite E, <- E2. apply in_map. exact Hf.
    + apply IH. exact Nt.
Qed.

Lemma agent_level_at_nonneg c s x y : Inv c s -> 0 <= agent_level_at s x y.
Proof.
  intros (_ & _ & _ & _ & _ & FA & _). rewrite Forall_forall in FA. unfold agent_level_at.
  destruct (find _ (agents s)) as [b|] eqn:E; [|lia]. apply find_some in E as [Hb _]. destruct (FA b Hb) as (_ & _ & L & _). lia.
Qed.

Lemma food_level_at_nonneg c s x y : Inv c s -> 0 <= food_level_at s x y.
Proof.
  intros (_ & _ & _ & _ & _ & _ & FF & _). rewrite Forall_forall in FF. unfold food_level_at.
  destruct (find _ (foods s)) as [f|] eqn:E; [|lia]. apply find_some in E as [Hf _]. destruct (FF f Hf) as (_ & _ & L). lia.
Qed.

Lemma access_board_spec c s x y :
  Inv c s -> 1 <= fov c ->
  access_board (gsz c + 2 * fov c) (fov c) s (x + fov c) (y + fov c)
  = b2z (in_grid (gsz c) x y && (agent_level_at s x y =? 0) && (food_level_at s x y =? 0)).
Proof.
  intros I Fv. unfold access_board. rewrite agent_board_spec, food_board_spec by (auto; lia).
  pose proof (agent_level_at_nonneg c s x y I). pose proof (food_level_at_nonneg c s x y I).
  f_equal. unfold edge, in_grid. replace (fov c =? 0) with false by lia. lia.
Qed.

Lemma window_spec G fv (board h : Z -> Z -> Z) a :
  0 <= fv -> 0 <= ax a <= G - (2 * fv + 1) -> 0 <= ay a <= G - (2 * fv + 1) ->
  (forall x y, board (x + fv) (y + fv) = h x y) ->
  window G fv board a
  = concat (map (fun dr => map (fun dk => h (ax a - fv + dr) (ay a - fv + dk)) (zrange (2 * fv + 1))) (zrange (2 * fv + 1))).
Proof.
  intros Fv X Y H. unfold window, dyn_start, jnorm.
  replace (ax a <? 0) with false by lia. replace (ay a <? 0) with false by lia.
  replace (Z.max 0 (Z.min (G - (2 * fv + 1)) (ax a))) with (ax a) by lia.
  replace (Z.max 0 (Z.min (G - (2 * fv + 1)) (ay a))) with (ay a) by lia.
  f_equal. apply map_ext. intro dr. apply map_ext. intro dk. rewrite <- H. f_equal; lia.
Qed.

Theorem grid_view_spec c s a :
  Inv c s -> In a (agents s) -> 1 <= fov c -> grid_view c s a = gview_spec c s a.
Proof.
  intros I Ha Fv. pose proof I as (_ & _ & _ & _ & _ & FA & _). rewrite Forall_forall in FA. destruct (FA a Ha) as (X & Y & _).
  unfold grid_view, gview_spec.
  rewrite (window_spec _ _ _ (agent_level_at s)) by (try lia; intros; apply agent_board_spec; auto; lia).
  rewrite (window_spec _ _ _ (food_level_at s)) by (try lia; intros; apply food_board_spec; auto; lia).
  rewrite (window_spec _ _ _ (fun x y => b2z (in_grid (gsz c) x y && (agent_level_at s x y =? 0) && (food_level_at s x y =? 0))))
    by (try lia; intros; apply access_board_spec; auto).
  reflexivity.
Qed.

Theorem view_agent_spec c s a : Inv c s -> In a (agents s) -> 1 <= fov c -> view_agent c s a = obs_spec c s a.
Proof.
  intros I Ha Fv. unfold view_agent, obs_spec. destruct (gridobs c); [apply grid_view_spec|apply vector_view_spec]; auto; lia.
Qed.

Theorem view_exact c s : Inv c s -> 1 <= fov c -> view_exact_b c s = true.
Proof.
  intros I Fv. unfold view_exact_b, views. rewrite (map_ext_in (view_agent c s) (obs_spec c s)).
  - apply list_eqb_refl. apply list_eqb_refl. apply Z.eqb_refl.
  - intros a Ha. apply view_agent_spec; auto.
Qed.
