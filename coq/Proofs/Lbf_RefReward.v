(* LevelBasedForaging C09, rewards: the reward VECTOR of the Impl step (get_reward: per-food reward rows from the adjacent
   loading levels, summed over the food axis) equals, entry by entry as rationals, the declarative reference reward of
   [ref_step]: for every agent the sum over the foods of
     - level_a * food_level [/ (sum of the loaders' levels * total food level) when normalising]  if the food is eaten
       in this step and a is one of its adjacent loaders (0 for everybody else),
     - - penalty [/ the same normaliser]  for EVERY agent when the food is loaded by an insufficient positive level,
     - 0 when the food is already eaten or nobody loads it.
   [ref_step_agrees] closes C09: successor state, step type, discount AND rewards of step and ref_step coincide. *)
From Coq Require Import QArith.
Require Import JV.Base.Prelude JV.Base.JaxIndex JV.Base.Codec JV.Base.TimeStep JV.Model.Lbf JV.Proofs.Lbf JV.Proofs.Lbf_Reward JV.Proofs.Lbf_Rules.
Open Scope Z_scope.

(* the (food, agent) entry of get_reward_per_food, as a function of the agent *)
Definition entry (c : cfg) (ltot : Z) (ags : list agent) (f : food) (a : agent) : Q :=
  let l := if adjacent (ax a) (ay a) (fx f) (fy f) && aload a && negb (featen f) then alvl a else 0 in
  let s := zsum (adj_levels ags f) in
  let p := if negb (s =? 0) && (s <? flvl f) then pen c else 0%Q in
  let r := (zq (l * b2z (eaten_now ags f) * flvl f) - p)%Q in
  if norm c then (r / zq (s * ltot))%Q else r.

Lemma adj_levels_map {B} (h : Z -> B) ags f :
  map h (adj_levels ags f)
  = map (fun a => h (if adjacent (ax a) (ay a) (fx f) (fy f) && aload a && negb (featen f) then alvl a else 0)) ags.
Proof. unfold adj_levels. apply map_map. Qed.

Lemma food_reward_entries c ltot ags f : food_reward c ltot ags f = map (entry c ltot ags f) ags.
Proof. unfold food_reward. cbv zeta. rewrite adj_levels_map. reflexivity. Qed.

Lemma Forall2_Qeq_refl l : Forall2 Qeq l l.
Proof. induction l; constructor; auto. reflexivity. Qed.

Lemma Forall2_vadd (F G : agent -> Q) ags : forall acc,
  Forall2 Qeq acc (map G ags) -> Forall2 Qeq (vadd (map F ags) acc) (map (fun a => (F a + G a)%Q) ags).
Proof.
  induction ags as [|a ags IH]; intros acc H; cbn [map] in *; inversion H; subst; unfold vadd; cbn [map2]; constructor.
  - match goal with E : (_ == G a)%Q |- _ => rewrite E end. reflexivity.
  - apply IH. assumption.
Qed.

(* summing the per-food rows over the food axis = for every agent, the sum of its entries *)
Lemma rewards_entries c ags fs ltot :
  Forall2 Qeq (fold_right (fun f acc => vadd (food_reward c ltot ags f) acc) (repeat 0%Q (length ags)) fs)
              (map (fun a => qsum (map (fun f => entry c ltot ags f a) fs)) ags).
Proof.
  induction fs as [|f fs IH]; cbn [fold_right map qsum].
  - clear. induction ags as [|a ags IH]; cbn [length repeat map]; constructor; [reflexivity|exact IH].
  - rewrite food_reward_entries. apply (Forall2_vadd (entry c ltot ags f)). exact IH.
Qed.

Lemma zq0 : zq 0 = 0%Q. Proof. reflexivity. Qed.

(* one (food, agent) entry of the code's reward is the declarative entry *)
Lemma entry_ref c ltot ags f a :
  1 <= flvl f -> (entry c ltot ags f a == ref_reward_food c ltot ags f a)%Q.
Proof.
  intro L. unfold entry, ref_reward_food.
  destruct (featen f) eqn:E; cbn [orb].
  - rewrite adj_levels_eaten by exact E. rewrite andb_false_r. cbn [Z.eqb negb andb Z.mul]. rewrite zq0.
    destruct (norm c); unfold Qdiv; ring.
  - cbn [negb]. rewrite andb_true_r, (andb_comm (adjacent _ _ _ _)). unfold eaten_now. rewrite adj_sum_loaders by exact E.
    set (s := zsum (map alvl (loaders ags f))).
    destruct (s =? 0) eqn:S0; cbn [negb andb].
    + replace (flvl f <=? s) with false by lia. cbn [b2z]. rewrite Z.mul_0_r, Z.mul_0_l, zq0.
      destruct (norm c); unfold Qdiv; ring.
    + destruct (flvl f <=? s) eqn:LE.
      * replace (s <? flvl f) with false by lia. cbn [b2z]. rewrite Z.mul_1_r.
        destruct (aload a && adjacent (ax a) (ay a) (fx f) (fy f)).
        -- destruct (norm c); unfold Qdiv; [ring|]. field.
        -- cbn [Z.mul]. rewrite zq0. destruct (norm c); unfold Qdiv; ring.
      * replace (s <? flvl f) with true by lia. cbn [b2z]. rewrite Z.mul_0_r, Z.mul_0_l, zq0.
        destruct (norm c); unfold Qdiv; [ring|]. field.
Qed.

Lemma Forall2_map_ext {A} (F G : A -> Q) l : (forall x, In x l -> (F x == G x)%Q) -> Forall2 Qeq (map F l) (map G l).
Proof.
  induction l as [|x l IH]; intro H; cbn [map]; constructor; [apply H; cbn; auto|]. apply IH. intros y Hy. apply H. cbn; auto.
Qed.

Lemma Forall2_Qeq_trans a b c : Forall2 Qeq a b -> Forall2 Qeq b c -> Forall2 Qeq a c.
Proof.
  intro H. revert c. induction H as [|x y a b E H IH]; intros c H2; inversion H2; subst; constructor.
  - etransitivity; eassumption.
  - apply IH. assumption.
Qed.

(* the whole reward vector, for any agent list and any foods of positive level *)
Theorem rewards_ref c ags fs :
  Forall (fun f => 1 <= flvl f) fs ->
  Forall2 Qeq (rewards c ags fs)
              (map (fun a => qsum (map (fun f => ref_reward_food c (zsum (map flvl fs)) ags f a) fs)) ags).
Proof.
  intro F. unfold rewards. set (ltot := zsum (map flvl fs)).
  eapply Forall2_Qeq_trans; [apply rewards_entries|].
  apply Forall2_map_ext. intros a _. apply qsum_ext. intros f Hf. apply entry_ref. rewrite Forall_forall in F. exact (F f Hf).
Qed.

Lemma Forall2_Qred a b : Forall2 Qeq a b -> map Qred a = map Qred b.
Proof. induction 1 as [|x y a b E H IH]; cbn [map]; [reflexivity|]. rewrite IH. f_equal. apply Qred_complete. exact E. Qed.

Lemma Inv_food_levels c s : Inv c s -> Forall (fun f => 1 <= flvl f) (foods s).
Proof.
  intros (_ & _ & _ & _ & _ & _ & FF & _). rewrite Forall_forall in *. intros f Hf. destruct (FF f Hf) as (_ & _ & L). lia.
Qed.

(* C09, complete: the declarative reference step and the code's step coincide *)
Theorem ref_step_agrees c s acts :
  Inv c s -> zlen acts = nag c -> Forall (fun k => 0 <= k <= 5) acts ->
  let '(s', t, rw) := ref_step c s acts in
  s' = fst (step c s acts) /\ st t = st (snd (step c s acts)) /\ discount t = discount (snd (step c s acts))
  /\ Forall2 Qeq rw (step_rewards c s acts)
  /\ map Qred rw = map Qred (step_rewards c s acts).
Proof.
  intros I Hc Sp. pose proof (ref_step_state_agrees c s acts I Hc Sp) as H.
  assert (R : Forall2 Qeq (snd (ref_step c s acts)) (step_rewards c s acts)).
  { unfold ref_step. cbv zeta. cbn [snd]. rewrite (ref_agents_agree c s acts I Hc Sp). unfold step_rewards.
    pose proof (rewards_ref c (step_agents c s acts) (foods s) (Inv_food_levels c s I)) as R.
    clear -R. revert R. generalize (rewards c (step_agents c s acts) (foods s)). intros x R.
    induction R; constructor; auto. symmetry. assumption. }
  destruct (ref_step c s acts) as [[s' t] rw]. cbn [snd] in R. destruct H as (H1 & H2 & H3).
  repeat split; auto. apply Forall2_Qred. exact R.
Qed.

(* the reward code carried by the timestep is zero exactly where the reference reward is zero *)
Lemma Qeq_num_zero (x y : Q) : (x == y)%Q -> (Qnum x = 0 <-> Qnum y = 0).
Proof. unfold Qeq. intro E. split; intro H; rewrite H in E; nia. Qed.

Theorem reward_code_zero_iff c s acts :
  Inv c s -> zlen acts = nag c -> Forall (fun k => 0 <= k <= 5) acts ->
  Forall2 (fun x y => x = 0 <-> y = 0) (reward (snd (fst (ref_step c s acts)))) (reward (snd (step c s acts))).
Proof.
  intros I Hc Sp. pose proof (ref_step_agrees c s acts I Hc Sp) as H. rewrite timestep_reward.
  unfold ref_step in *. cbv zeta in *. cbn [fst snd reward]. destruct H as (_ & _ & _ & R & _).
  induction R as [|x y a b E R IH]; cbn [map]; constructor; [apply Qeq_num_zero; exact E|exact IH].
Qed.
