(* LevelBasedForaging rewards (C08 / C09): exact rational arithmetic.
   - [reward_sum_step]: with normalize_reward and no penalty the rewards of a step sum to
     (level of the food eaten in this step) / (total food level);
   - [return_telescopes], [return_is_one]: the return of any action sequence is (eaten level gained) / total, hence 1 when
     the episode goes from nothing eaten to everything eaten;
   - [share_rule], [penalty_rule], [no_load_no_reward]: the per-food, per-agent entries (split proportional to level; an
     attempted but insufficient load costs EVERY agent the penalty, scaled by the normaliser when normalising). *)
From Coq Require Import QArith.
Require Import JV.Base.Prelude JV.Base.JaxIndex JV.Base.Codec JV.Base.TimeStep JV.Model.Lbf JV.Proofs.Lbf.
Open Scope Z_scope.

Lemma zq_plus a b : (zq (a + b) == zq a + zq b)%Q.
Proof. unfold zq. rewrite inject_Z_plus. reflexivity. Qed.
Lemma zq_mult a b : (zq (a * b) == zq a * zq b)%Q.
Proof. unfold zq. rewrite inject_Z_mult. reflexivity. Qed.

Lemma qsum_repeat0 n : (qsum (repeat 0%Q n) == 0)%Q.
Proof. induction n as [|n IH]; cbn [repeat qsum]; [reflexivity|]. rewrite IH. ring. Qed.

Lemma qsum_vadd u : forall v, length u = length v -> (qsum (vadd u v) == qsum u + qsum v)%Q.
Proof.
  induction u as [|x u IH]; intros [|y v] H; cbn [length] in H; try lia; unfold vadd; cbn [map2 qsum]; [ring|].
  fold (vadd u v). rewrite IH by lia. ring.
Qed.

Lemma qsum_rewards c ags fs lt :
  (qsum (fold_right (fun f acc => vadd (food_reward c lt ags f) acc) (repeat 0%Q (length ags)) fs)
   == qsum (map (fun f => qsum (food_reward c lt ags f)) fs))%Q.
Proof.
  induction fs as [|f fs IH]; cbn [fold_right map qsum]; [apply qsum_repeat0|].
  rewrite qsum_vadd.
  - rewrite IH. reflexivity.
  - rewrite food_reward_length. clear IH. induction fs as [|g fs IH]; cbn [fold_right]; [rewrite repeat_length; reflexivity|].
    rewrite vadd_length, food_reward_length, <- IH. lia.
Qed.

(* sum over the agents of one food's rewards, penalty-free *)
Lemma qsum_shares (p d : Q) k adj :
  (p == 0)%Q -> (qsum (map (fun l => (zq (l * k) - p) / d) adj) == zq (zsum adj * k) / d)%Q.
Proof.
  intro Hp. induction adj as [|l adj IH]; cbn [map qsum zsum]; [unfold Qdiv; cbn [Z.mul]; change (zq 0) with 0%Q; ring|].
  rewrite IH. rewrite Z.mul_add_distr_r, zq_plus. rewrite Hp. unfold Qdiv. ring.
Qed.

Lemma adj_levels_eaten ags f : featen f = true -> zsum (adj_levels ags f) = 0.
Proof.
  intro E. unfold adj_levels. rewrite E. cbn [negb]. induction ags as [|a ags IH]; cbn [map zsum]; [reflexivity|].
  rewrite andb_false_r. lia.
Qed.

Lemma eaten_now_fresh ags f : 1 <= flvl f -> eaten_now ags f = true -> featen f = false.
Proof.
  intros L E. destruct (featen f) eqn:F; [|reflexivity]. unfold eaten_now in E. rewrite adj_levels_eaten in E by exact F. lia.
Qed.

Lemma food_reward_sum c lt ags f :
  norm c = true -> (pen c == 0)%Q -> 1 <= flvl f -> 0 < lt ->
  (qsum (food_reward c lt ags f) == zq (if eaten_now ags f then flvl f else 0) / zq lt)%Q.
Proof.
  intros Hn Hp L Lt. unfold food_reward. rewrite Hn.
  set (adj := adj_levels ags f). set (s := zsum adj).
  set (p := if negb (s =? 0) && (s <? flvl f) then pen c else 0%Q).
  assert (P0 : (p == 0)%Q) by (subst p; destruct (negb (s =? 0) && (s <? flvl f)); [exact Hp|reflexivity]).
  rewrite (map_ext _ (fun l => ((zq (l * (b2z (eaten_now ags f) * flvl f)) - p) / zq (s * lt))%Q))
    by (intro l; rewrite Z.mul_assoc; reflexivity).
  rewrite qsum_shares by exact P0. fold s.
  unfold eaten_now. fold adj. fold s. destruct (flvl f <=? s) eqn:E; cbn [b2z].
  - rewrite Z.mul_1_l. rewrite !zq_mult. field. split.
    + intro C. assert (Q : ~ (zq lt == 0)%Q) by (unfold zq, Qeq; cbn; lia). contradiction.
    + unfold zq, Qeq; cbn; lia.
  - rewrite Z.mul_0_l, Z.mul_0_r. unfold Qdiv. unfold zq at 1 3. ring.
Qed.

Lemma eaten_mass_step ags fs :
  Forall (fun f => 1 <= flvl f) fs ->
  eaten_mass (map (eat ags) fs) - eaten_mass fs = zsum (map (fun f => if eaten_now ags f then flvl f else 0) fs).
Proof.
  unfold eaten_mass. induction 1 as [|f fs L F IH]; cbn [map zsum]; [reflexivity|].
  cbn [featen flvl eat]. destruct (eaten_now ags f) eqn:E; cbn [orb].
  - rewrite (eaten_now_fresh ags f L E). lia.
  - destruct (featen f); lia.
Qed.

Lemma zq_zsum_div (g : food -> Z) fs lt :
  (qsum (map (fun f => zq (g f) / zq lt) fs) == zq (zsum (map g fs)) / zq lt)%Q.
Proof.
  induction fs as [|f fs IH]; cbn [map qsum zsum]; [unfold Qdiv; cbn [Z.mul]; change (zq 0) with 0%Q; ring|].
  rewrite IH, zq_plus. unfold Qdiv. ring.
Qed.

Lemma qsum_ext {A} (f g : A -> Q) l : (forall x, In x l -> (f x == g x)%Q) -> (qsum (map f l) == qsum (map g l))%Q.
Proof.
  induction l as [|h l IH]; intro H; cbn [map qsum]; [reflexivity|].
  rewrite (H h) by (cbn; auto). rewrite IH; [reflexivity|]. intros x Hx. apply H. cbn; auto.
Qed.

Lemma total_level_pos fs : Forall (fun f => 1 <= flvl f) fs -> fs <> [] -> 0 < total_level fs.
Proof.
  unfold total_level. intros F N. destruct fs as [|f fs]; [congruence|]. inversion F as [|? ? L F']; subst. cbn [map zsum].
  assert (0 <= zsum (map flvl fs)); [|lia]. clear -F'. induction F' as [|g fs L F IH]; cbn [map zsum]; lia.
Qed.

(* C08, one step *)
Theorem reward_sum_step c s acts :
  norm c = true -> (pen c == 0)%Q -> Forall (fun f => 1 <= flvl f) (foods s) ->
  (qsum (step_rewards c s acts)
   == zq (eaten_mass (foods (fst (step c s acts))) - eaten_mass (foods s)) / zq (total_level (foods s)))%Q.
Proof.
  intros Hn Hp F. unfold step_rewards, rewards. rewrite qsum_rewards. rewrite step_foods_eq.
  rewrite eaten_mass_step by exact F. fold (total_level (foods s)).
  destruct (foods s) as [|f0 fs0] eqn:EF; [cbn; reflexivity|]. rewrite <- EF in *.
  assert (Lt : 0 < total_level (foods s)) by (apply total_level_pos; [exact F|congruence]).
  rewrite <- zq_zsum_div. apply qsum_ext. intros f Hf. rewrite Forall_forall in F.
  apply food_reward_sum; auto.
Qed.

Lemma step_total_level c s acts : total_level (foods (fst (step c s acts))) = total_level (foods s).
Proof. rewrite step_foods_eq. unfold total_level. rewrite map_map. reflexivity. Qed.

Lemma step_levels_pos c s acts :
  Forall (fun f => 1 <= flvl f) (foods s) -> Forall (fun f => 1 <= flvl f) (foods (fst (step c s acts))).
Proof. intro F. rewrite step_foods_eq. rewrite Forall_forall in *. intros f' H. apply in_map_iff in H as [f [E Hf]]. subst. exact (F f Hf). Qed.

(* C08, whole action sequences: the return telescopes to the eaten level gained, over the total level *)
Theorem return_telescopes c al : forall s,
  norm c = true -> (pen c == 0)%Q -> Forall (fun f => 1 <= flvl f) (foods s) ->
  (total_return c s al == zq (eaten_mass (foods (final c s al)) - eaten_mass (foods s)) / zq (total_level (foods s)))%Q.
Proof.
  induction al as [|a al IH]; intros s Hn Hp F; cbn [total_return final].
  - rewrite Z.sub_diag. unfold Qdiv. change (zq 0) with 0%Q. ring.
  - rewrite (IH (fst (step c s a)) Hn Hp (step_levels_pos c s a F)). rewrite reward_sum_step by assumption.
    rewrite step_total_level.
    set (m0 := eaten_mass (foods s)). set (m1 := eaten_mass (foods (fst (step c s a)))).
    set (m2 := eaten_mass (foods (final c (fst (step c s a)) al))).
    replace (m2 - m0) with ((m1 - m0) + (m2 - m1)) by lia. rewrite zq_plus. unfold Qdiv. ring.
Qed.

Lemma all_eaten_mass fs : forallb featen fs = true -> eaten_mass fs = total_level fs.
Proof.
  unfold eaten_mass, total_level. induction fs as [|f fs IH]; cbn [forallb map zsum]; [reflexivity|].
  intro H. apply andb_true_iff in H as [E H]. rewrite E, IH by exact H. reflexivity.
Qed.

Lemma none_eaten_mass fs : forallb (fun f => negb (featen f)) fs = true -> eaten_mass fs = 0.
Proof.
  unfold eaten_mass. induction fs as [|f fs IH]; cbn [forallb map zsum]; [reflexivity|].
  intro H. apply andb_true_iff in H as [E H]. apply negb_true_iff in E. rewrite E, IH by exact H. reflexivity.
Qed.

(* from a fresh instance to "all food collected": the return is exactly 1 *)
Theorem return_is_one c s al :
  norm c = true -> (pen c == 0)%Q -> Forall (fun f => 1 <= flvl f) (foods s) -> foods s <> [] ->
  forallb (fun f => negb (featen f)) (foods s) = true -> all_eaten (final c s al) = true ->
  (total_return c s al == 1)%Q.
Proof.
  intros Hn Hp F NE N0 A. rewrite return_telescopes by assumption.
  rewrite (none_eaten_mass _ N0). unfold all_eaten in A. rewrite (all_eaten_mass _ A).
  assert (TL : total_level (foods (final c s al)) = total_level (foods s)).
  { clear. revert s. induction al as [|a al IH]; intro s; cbn [final]; [reflexivity|]. rewrite IH. apply step_total_level. }
  rewrite TL, Z.sub_0_r. pose proof (total_level_pos _ F NE) as P. field. unfold zq, Qeq; cbn; lia.
Qed.

(* ---------- the per-food, per-agent entries ---------- *)
(* the food is eaten: every agent gets  level_i * food_level  (0 if it is not an adjacent loader), over
   (sum of the loaders' levels * total food level) when normalising: the split is proportional to level *)
Theorem share_rule c lt ags f :
  eaten_now ags f = true ->
  food_reward c lt ags f
  = map (fun l => let r := (zq (l * 1 * flvl f) - 0)%Q in if norm c then (r / zq (zsum (adj_levels ags f) * lt))%Q else r) (adj_levels ags f).
Proof.
  intro E. unfold food_reward. rewrite E. cbn [b2z].
  unfold eaten_now in E. replace (negb (zsum (adj_levels ags f) =? 0) && (zsum (adj_levels ags f) <? flvl f)) with false by lia.
  reflexivity.
Qed.

(* an attempted but insufficient load: EVERY agent (loader or not) is charged the penalty *)
Theorem penalty_rule c lt ags f :
  zsum (adj_levels ags f) <> 0 -> zsum (adj_levels ags f) < flvl f ->
  food_reward c lt ags f
  = map (fun l => let r := (zq (l * 0 * flvl f) - pen c)%Q in if norm c then (r / zq (zsum (adj_levels ags f) * lt))%Q else r) (adj_levels ags f).
Proof.
  intros N L. unfold food_reward, eaten_now.
  replace (flvl f <=? zsum (adj_levels ags f)) with false by lia. cbn [b2z].
  replace (negb (zsum (adj_levels ags f) =? 0) && (zsum (adj_levels ags f) <? flvl f)) with true by lia.
  reflexivity.
Qed.

(* nobody loads the food (or it is already eaten): no reward and no penalty from this food *)
Theorem no_load_no_reward c lt ags f :
  Forall (fun l => l = 0) (adj_levels ags f) -> Forall (fun r => (r == 0)%Q) (food_reward c lt ags f).
Proof.
  intro F. unfold food_reward.
  assert (S0 : zsum (adj_levels ags f) = 0) by (induction F as [|l ls E F IH]; cbn [zsum]; lia).
  rewrite S0. cbn [Z.eqb negb andb]. apply Forall_forall. intros r Hr. apply in_map_iff in Hr as [l [E Hl]]. subst r.
  rewrite Forall_forall in F. rewrite (F l Hl). cbn [Z.mul]. change (zq 0) with 0%Q. destruct (norm c); unfold Qdiv; ring.
Qed.

(* the reward code carried by the shared timestep record is the numerator of the rational reward *)
Theorem timestep_reward c s acts : reward (snd (step c s acts)) = map Qnum (step_rewards c s acts).
Proof. rewrite step_ts. cbv zeta. destruct (all_eaten _); [reflexivity|]. destruct (tlim c <=? cnt s + 1); reflexivity. Qed.
