(* LevelBasedForaging C09: the Impl step follows the published rules.
   - [ref_agents_agree], [ref_step_state_agrees]: on every physically consistent state and every in-spec joint action the
     successor STATE, step type and discount of the Impl step are those of the declarative reference step [ref_step]
     (an agent gets the cell it legally moves to unless another agent legally moves to the same cell: then all of them stay;
     a food is eaten iff the levels of the adjacent agents playing LOAD reach its level);
   - rewards: [share_rule] / [penalty_rule] / [no_load_no_reward] (Lbf_Reward.v) give every per-food, per-agent entry; the equality
     of the reward VECTORS of step and ref_step is proved in Lbf_RefReward.v ([ref_step_agrees]) and also
     correspondence-checked by the harness (lbf_ref_io). *)
From Coq Require Import QArith.
Require Import JV.Base.Prelude JV.Base.JaxIndex JV.Base.Codec JV.Base.TimeStep JV.Model.Lbf JV.Proofs.Lbf.
Open Scope Z_scope.

Lemma count_if_unique {A B} (g : B -> A) (f : A -> bool) l x :
  NoDup l -> In x l -> f (g x) = true -> (forall y, In y l -> y <> x -> f (g y) = false) -> count_if f (map g l) = 1.
Proof.
  induction l as [|h t IH]; intros N Hx Fx O; [contradiction|]. inversion N as [|? ? Nh Nt]; subst. cbn [map]. rewrite count_if_cons.
  destruct Hx as [E|Hx].
  - subst h. rewrite Fx. cbn [b2z].
    assert (Z0 : count_if f (map g t) = 0).
    { clear IH N Nt. induction t as [|y t IH]; [reflexivity|]. cbn [map]. rewrite count_if_cons.
      rewrite (O y) by (cbn; auto; intro C; subst; apply Nh; cbn; auto). cbn [b2z]. rewrite IH; [lia| |].
      - intro C. apply Nh. cbn; auto.
      - intros z Hz. apply O. cbn in *. tauto. }
    lia.
  - rewrite (O h) by (cbn; auto; intro C; subst; contradiction). cbn [b2z]. rewrite IH; auto. intros y Hy. apply O. cbn; auto.
Qed.

Lemma move_of_inspec k : 0 <= k <= 5 -> move_of k = dir k.
Proof. intro H. assert (k = 0 \/ k = 1 \/ k = 2 \/ k = 3 \/ k = 4 \/ k = 5) as [E|[E|[E|[E|[E|E]]]]] by lia; subst; reflexivity. Qed.

Lemma sim_move_legal g s a k :
  1 <= k <= 4 -> legal_b g s a k = true -> sim_move g (agents s) (foods s) (a, k) = target (a, k).
Proof.
  intros Hk L. unfold sim_move, target. cbn [fst snd]. rewrite move_of_dir by exact Hk.
  unfold legal_b in L. replace (k =? NOOP) with false in L by (unfold NOOP; lia).
  unfold is_move in L. replace ((1 <=? k) && (k <=? 4)) with true in L by lia.
  rewrite <- free_eq in L. apply negb_true_iff in L.
  destruct (oob g _ _), (agent_at _ _ _ _), (food_at _ _ _); cbn [orb] in *; try reflexivity; discriminate.
Qed.

Lemma sim_move_stay g s a k : 0 <= k <= 5 -> is_move k = false -> sim_move g (agents s) (foods s) (a, k) = apos a.
Proof.
  intros Hk M. unfold sim_move. cbn [fst snd]. rewrite move_of_inspec by exact Hk.
  assert (E : dir k = (0, 0)). { unfold is_move in M. assert (k = 0 \/ k = 5) as [E|E] by lia; subst; reflexivity. }
  rewrite E. cbn [fst snd]. rewrite !Z.add_0_r. apply if_same.
Qed.

Lemma dir_nonzero k : 1 <= k <= 4 -> dir k <> (0, 0).
Proof. intro H. destruct (dir_cases k H) as [E|[E|[E|E]]]; rewrite E; discriminate. Qed.

(* the collision rule, as the implementation's duplicate flags compute it *)
Lemma ref_pos_agree c s acts a k :
  Inv c s -> zlen acts = nag c -> Forall (fun k => 0 <= k <= 5) acts ->
  let g := gsz c in let aa := combine (agents s) acts in let moved := map (sim_move g (agents s) (foods s)) aa in
  In (a, k) aa ->
  (if wants g s (a, k) && negb (contested g s aa (a, k)) then target (a, k) else apos a)
  = final_pos moved g (agents s) (foods s) (a, k).
Proof.
  intros I Hc Sp g aa moved Hx. pose proof I as (La & _ & _ & NP & _ & FA & _). pose proof (Inv_ids_NoDup c s I) as NI.
  pose proof (Inv_agents_NoDup c s I) as NA.
  assert (NAA : NoDup aa) by (apply NoDup_combine_l; exact NA).
  assert (Ia : In a (agents s)) by (apply (in_combine_l _ _ _ _ Hx)).
  assert (Ik : 0 <= k <= 5). { rewrite Forall_forall in Sp. apply Sp. apply (in_combine_r _ _ _ _ Hx). }
  unfold final_pos. cbn [fst]. unfold wants. cbn [fst snd].
  destruct (is_move k) eqn:M; cbn [andb]; [|rewrite sim_move_stay by auto; rewrite if_same; reflexivity].
  assert (Hk : 1 <= k <= 4) by (unfold is_move in M; lia).
  destruct (legal_b g s a k) eqn:L; cbn [andb]; [|rewrite sim_move_blocked by auto; rewrite if_same; reflexivity].
  rewrite sim_move_legal by auto.
  assert (D : dup moved (target (a, k)) = contested g s aa (a, k)); [|rewrite D; destruct (contested g s aa (a, k)); reflexivity].
  destruct (contested g s aa (a, k)) eqn:C.
  - apply existsb_exists in C as [[b j] [Hb C]]. cbn [fst snd] in C.
    apply andb_true_iff in C as [C C3]. apply andb_true_iff in C as [C1 C2].
    apply negb_true_iff in C1. apply pos_eqb_eq in C3.
    unfold dup. apply negb_true_iff. apply Z.eqb_neq.
    assert (Ne : (a, k) <> (b, j)) by (intro E; inversion E; subst; lia).
    unfold wants in C2. cbn [fst snd] in C2. apply andb_true_iff in C2 as [C2 C4].
    assert (Hj : 1 <= j <= 4) by (unfold is_move in C2; lia).
    pose proof (count_if_two (sim_move g (agents s) (foods s)) (pos_eqb (target (a, k))) aa (a, k) (b, j) Hx Hb Ne) as T.
    rewrite !sim_move_legal in T by auto. rewrite C3, pos_eqb_refl in T. specialize (T eq_refl eq_refl). fold moved in T. lia.
  - unfold dup. apply negb_false_iff. apply Z.eqb_eq. unfold moved.
    apply (count_if_unique (sim_move g (agents s) (foods s)) (pos_eqb (target (a, k))) aa (a, k) NAA Hx);
      [rewrite sim_move_legal by auto; apply pos_eqb_refl|].
    intros [b j] Hb Ne. unfold contested in C. rewrite existsb_false_forall in C. specialize (C (b, j) Hb). cbn [fst snd] in C.
    assert (Ib : In b (agents s)) by (apply (in_combine_l _ _ _ _ Hb)).
    assert (Ij : 0 <= j <= 5) by (rewrite Forall_forall in Sp; apply Sp; apply (in_combine_r _ _ _ _ Hb)).
    assert (Nid : (aid b =? aid a) = false).
    { apply Z.eqb_neq. intro E. apply Ne. apply (combine_fun (agents s) acts); auto. cbn [fst].
      apply (NoDup_map_inj_on aid (agents s)); auto. }
    rewrite Nid in C. cbn [negb andb] in C.
    destruct (pos_eqb (target (a, k)) (sim_move g (agents s) (foods s) (b, j))) eqn:P; [|reflexivity]. exfalso.
    apply pos_eqb_eq in P. unfold wants in C. cbn [fst snd] in C.
    assert (Stay : sim_move g (agents s) (foods s) (b, j) = apos b).
    { destruct (is_move j) eqn:Mj; cbn [andb] in C; [|apply sim_move_stay; auto].
      assert (Hj : 1 <= j <= 4) by (unfold is_move in Mj; lia).
      destruct (legal_b g s b j) eqn:Lj; cbn [andb] in C; [|apply sim_move_blocked; auto].
      exfalso. rewrite sim_move_legal in P by auto. rewrite <- P, pos_eqb_refl in C. discriminate. }
    (* an agent that stays stands on the cell agent a legally moves to: impossible, the cell is free of other agents *)
    rewrite Stay in P. unfold legal_b in L. replace (k =? NOOP) with false in L by (unfold NOOP; lia). rewrite M in L.
    apply andb_true_iff in L as [_ L]. unfold cell_free in L. apply andb_true_iff in L as [L _].
    rewrite forallb_forall in L. specialize (L b Ib). rewrite Nid in L. cbn [orb] in L. apply negb_true_iff in L.
    unfold target in P. cbn [fst snd] in P. rewrite P in L. rewrite pos_eqb_refl in L. discriminate.
Qed.

Theorem ref_agents_agree c s acts :
  Inv c s -> zlen acts = nag c -> Forall (fun k => 0 <= k <= 5) acts ->
  ref_agents (gsz c) s acts = step_agents c s acts.
Proof.
  intros I Hc Sp. unfold ref_agents, step_agents, move_agents. apply map_ext_in. intros [a k] Hx.
  pose proof (ref_pos_agree c s acts a k I Hc Sp Hx) as E. cbv zeta in E. cbn [fst snd]. rewrite E.
  unfold settle, final_pos. cbn [fst snd]. reflexivity.
Qed.

Lemma adj_sum_loaders ags f : featen f = false -> zsum (adj_levels ags f) = zsum (map alvl (loaders ags f)).
Proof.
  intro E. unfold adj_levels, loaders. rewrite E. cbn [negb]. induction ags as [|a t IH]; cbn [map zsum filter]; [reflexivity|].
  rewrite andb_true_r. rewrite (andb_comm (aload a)). destruct (adjacent _ _ _ _ && aload a); cbn [map zsum]; lia.
Qed.

(* the loading rule *)
Theorem load_rule ags f :
  featen (eat ags f) = featen f || (flvl f <=? zsum (map alvl (loaders ags f))).
Proof.
  unfold eat. cbn [featen]. destruct (featen f) eqn:E; [rewrite orb_true_r; reflexivity|]. cbn [orb]. rewrite orb_false_r.
  unfold eaten_now. rewrite adj_sum_loaders by exact E. reflexivity.
Qed.

Theorem ref_step_state_agrees c s acts :
  Inv c s -> zlen acts = nag c -> Forall (fun k => 0 <= k <= 5) acts ->
  let '(s', t, _) := ref_step c s acts in
  s' = fst (step c s acts) /\ st t = st (snd (step c s acts)) /\ discount t = discount (snd (step c s acts)).
Proof.
  intros I Hc Sp. unfold ref_step. rewrite (ref_agents_agree c s acts I Hc Sp). cbv zeta.
  set (ags := step_agents c s acts).
  assert (EF : map (fun f => mkF (fid f) (fx f) (fy f) (flvl f) (featen f || (flvl f <=? zsum (map alvl (loaders ags f))))) (foods s)
               = map (eat ags) (foods s)).
  { apply map_ext. intro f. rewrite <- load_rule. reflexivity. }
  rewrite EF. cbn [st discount]. split; [reflexivity|]. rewrite step_type_exact, discount_exact.
  unfold all_eaten. rewrite step_foods_eq. fold ags. split; reflexivity.
Qed.

(* agents that legally move to the same cell all stay; a legal move that nobody contests is executed *)
Theorem collision_all_stay g ags fs acts x y :
  let aa := combine ags acts in let moved := map (sim_move g ags fs) aa in
  In x aa -> In y aa -> x <> y -> sim_move g ags fs x = sim_move g ags fs y ->
  final_pos moved g ags fs x = apos (fst x) /\ final_pos moved g ags fs y = apos (fst y).
Proof.
  intros aa moved Hx Hy Ne E. unfold final_pos.
  pose proof (count_if_two (sim_move g ags fs) (pos_eqb (sim_move g ags fs x)) aa x y Hx Hy Ne) as T.
  rewrite pos_eqb_refl in T. rewrite E, pos_eqb_refl in T. specialize (T eq_refl eq_refl). fold moved in T.
  assert (D : dup moved (sim_move g ags fs y) = true) by (unfold dup; apply negb_true_iff; lia).
  rewrite E, D. auto.
Qed.
