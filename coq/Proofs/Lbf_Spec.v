(* LevelBasedForaging C01: every observation of a physically consistent state with step_count <= time_limit lies inside the
   declared observation spec: views num_agents x view_len with entries in [-1 (vector) | 0 (grid), max(max_food_level,
   max_agent_level, grid_size)], mask num_agents x 6, step_count in [0, time_limit]. *)
From Coq Require Import QArith.
Require Import JV.Base.Prelude JV.Base.JaxIndex JV.Base.Codec JV.Base.TimeStep JV.Model.Lbf JV.Proofs.Lbf JV.Proofs.Lbf_Obs.
Open Scope Z_scope.

Lemma Forall_concat_map {A B} (P : B -> Prop) (f : A -> list B) l :
  (forall x, In x l -> Forall P (f x)) -> Forall P (concat (map f l)).
Proof. induction l as [|h t IH]; intro H; cbn [map concat]; [constructor|]. apply Forall_app. split; [apply H; cbn; auto|apply IH; intros; apply H; cbn; auto]. Qed.

Lemma zlen_concat_map {A B} (f : A -> list B) l k : (forall x, In x l -> zlen (f x) = k) -> zlen (concat (map f l)) = k * zlen l.
Proof.
  induction l as [|h t IH]; intro H; cbn [map concat]; [unfold zlen; cbn; lia|]. rewrite zlen_app, zlen_cons.
  rewrite H by (cbn; auto). rewrite IH; [lia|]. intros; apply H; cbn; auto.
Qed.

Lemma zlen_zrange n : 0 <= n -> zlen (zrange n) = n.
Proof. intro H. unfold zlen, zrange. rewrite zrange_from_length. lia. Qed.

Definition inb_lo (c : cfg) := if gridobs c then 0 else -1.
Definition entry_ok (c : cfg) (x : Z) : Prop := inb_lo c <= x <= max_ob c.

Lemma max_ob_ge c : gsz c <= max_ob c /\ maxlvl c <= max_ob c /\ nag c * maxlvl c <= max_ob c.
Proof. unfold max_ob. lia. Qed.

Lemma vector_entries c s a :
  Inv c s -> In a (agents s) -> 0 <= fov c -> gridobs c = false -> 0 < gsz c -> 1 <= nag c ->
  zlen (view_spec c s a) = view_len c /\ Forall (entry_ok c) (view_spec c s a).
Proof.
  intros I Ha Fv Go G NA. pose proof I as (La & Lf & _ & _ & _ & FA & FF & _). pose proof (Inv_ids_NoDup c s I) as NI.
  rewrite Forall_forall in FA, FF. destruct (FA a Ha) as (X & Y & LA & _). pose proof (max_ob_ge c) as (M1 & M2 & M3).
  unfold view_spec, view_len, entry_ok, inb_lo. rewrite Go. split.
  - rewrite !zlen_app. rewrite (zlen_concat_map _ _ 3), (zlen_concat_map _ _ 3).
    + unfold rel. change (zlen [_; _; _]) with 3.
      assert (E : zlen (filter (fun b => negb (aid b =? aid a)) (agents s)) = nag c - 1).
      { rewrite (filter_ext _ (fun b => negb (aid a =? aid b))) by (intro b; rewrite Z.eqb_sym; reflexivity).
        unfold zlen. rewrite filter_others_length by auto. unfold zlen in La. lia. }
      rewrite E, Lf. lia.
    + intros b _. destruct (in_fov _ _ _ _); reflexivity.
    + intros f _. destruct (_ && _); reflexivity.
  - assert (MN : nag c * maxlvl c <= max_ob c /\ 0 <= maxlvl c) by (split; lia).
    apply Forall_app. split; [|apply Forall_app; split].
    + apply Forall_concat_map. intros f Hf. destruct (FF f Hf) as (Fx & Fy & Fl).
      destruct (in_fov (fov c) a (fx f) (fy f) && negb (featen f)) eqn:E; [|unfold hidden; repeat constructor; lia].
      apply andb_true_iff in E as [E _]. unfold in_fov in E. unfold rel. repeat constructor; lia.
    + unfold rel. repeat constructor; lia.
    + apply Forall_concat_map. intros b Hb. apply filter_In in Hb as [Hb _]. destruct (FA b Hb) as (Bx & By & Bl & _).
      destruct (in_fov (fov c) a (ax b) (ay b)) eqn:E; [|unfold hidden; repeat constructor; lia].
      unfold in_fov in E. unfold rel. repeat constructor; lia.
Qed.

Lemma grid_cells (h : Z -> Z -> Z) (P : Z -> Prop) w x0 y0 :
  0 <= w -> (forall x y, P (h x y)) ->
  let cells := concat (map (fun dr => map (fun dk => h (x0 + dr) (y0 + dk)) (zrange w)) (zrange w)) in
  zlen cells = w * w /\ Forall P cells.
Proof.
  intros W H cells. subst cells. split.
  - rewrite (zlen_concat_map _ _ w); [rewrite zlen_zrange; lia|]. intros dr _. rewrite zlen_map. apply zlen_zrange. exact W.
  - apply Forall_concat_map. intros dr _. apply Forall_forall. intros v Hv. apply in_map_iff in Hv as [dk [E _]]. subst. apply H.
Qed.

Lemma grid_entries c s a :
  Inv c s -> 0 <= fov c -> gridobs c = true -> 0 < gsz c -> 1 <= nag c ->
  zlen (gview_spec c s a) = view_len c /\ Forall (entry_ok c) (gview_spec c s a).
Proof.
  intros I Fv Go G NA. pose proof I as (_ & _ & _ & _ & _ & FA & FF & _). rewrite Forall_forall in FA, FF.
  pose proof (max_ob_ge c) as (M1 & M2 & M3).
  unfold gview_spec, view_len, entry_ok, inb_lo. rewrite Go. cbv zeta.
  assert (W : 0 <= 2 * fov c + 1) by lia.
  destruct (grid_cells (agent_level_at s) (fun v => 0 <= v <= max_ob c) (2 * fov c + 1) (ax a - fov c) (ay a - fov c) W) as [L1 F1].
  { intros x y. unfold agent_level_at. destruct (find _ (agents s)) as [b|] eqn:E; [|lia]. apply find_some in E as [Hb _]. destruct (FA b Hb) as (_ & _ & L & _). lia. }
  destruct (grid_cells (food_level_at s) (fun v => 0 <= v <= max_ob c) (2 * fov c + 1) (ax a - fov c) (ay a - fov c) W) as [L2 F2].
  { intros x y. unfold food_level_at. destruct (find _ (foods s)) as [f|] eqn:E; [|lia]. apply find_some in E as [Hf _]. destruct (FF f Hf) as (_ & _ & L). lia. }
  destruct (grid_cells (fun x y => b2z (in_grid (gsz c) x y && (agent_level_at s x y =? 0) && (food_level_at s x y =? 0)))
                       (fun v => 0 <= v <= max_ob c) (2 * fov c + 1) (ax a - fov c) (ay a - fov c) W) as [L3 F3].
  { intros x y. destruct (_ && _); cbn [b2z]; lia. }
  split; [rewrite !zlen_app, L1, L2, L3; lia|]. apply Forall_app. split; [exact F1|]. apply Forall_app. split; [exact F2|exact F3].
Qed.

Theorem C01_spec_ok c s :
  Inv c s -> 1 <= fov c -> 0 < gsz c -> 1 <= nag c -> cnt s <= tlim c -> spec_ok_b c s = true.
Proof.
  intros I Fv G NA T. pose proof I as (La & _ & _ & _ & _ & _ & _ & Cn).
  unfold spec_ok_b. repeat (apply andb_true_iff; split); try lia.
  - unfold views. rewrite zlen_map. lia.
  - apply forallb_forall. intros v Hv. unfold views in Hv. apply in_map_iff in Hv as [a [E Ha]]. subst v.
    rewrite view_agent_spec by auto. unfold obs_spec.
    assert (Q : zlen (if gridobs c then gview_spec c s a else view_spec c s a) = view_len c
                /\ Forall (entry_ok c) (if gridobs c then gview_spec c s a else view_spec c s a)).
    { destruct (gridobs c) eqn:Go; [apply grid_entries|apply vector_entries]; auto; lia. }
    destruct Q as [Q1 Q2]. apply andb_true_iff. split; [lia|]. apply forallb_forall. intros x Hx. rewrite Forall_forall in Q2.
    specialize (Q2 x Hx). unfold entry_ok, inb_lo in Q2. destruct (gridobs c); lia.
  - unfold mask_all. rewrite zlen_map. lia.
  - apply forallb_forall. intros m Hm. unfold mask_all in Hm. apply in_map_iff in Hm as [a [E Ha]]. subst m.
    rewrite mask_iff_legal by auto. reflexivity.
Qed.

(* every step from a state below the limit (the terminal step included) emits a conforming observation; a MID step leaves the
   state below the limit, so the argument repeats along the whole episode *)
Theorem C01_step_conforms c s acts :
  Inv c s -> zlen acts = nag c -> 1 <= fov c -> 0 < gsz c -> 1 <= nag c -> cnt s < tlim c ->
  spec_ok_b c (fst (step c s acts)) = true.
Proof. intros I L Fv G NA T. apply C01_spec_ok; auto; [apply step_preserves_Inv; auto|rewrite step_cnt; lia]. Qed.

Theorem C01_mid_below_limit c s acts : st (snd (step c s acts)) = MID -> cnt (fst (step c s acts)) < tlim c.
Proof.
  rewrite step_type_exact, step_cnt. destruct (all_eaten _); cbn [orb]; [unfold LAST, MID; lia|].
  destruct (tlim c <=? cnt s + 1) eqn:E; [unfold LAST, MID; lia|lia].
Qed.
