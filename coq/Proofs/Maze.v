(* Maze: the Impl step equals the declarative rules on every physically consistent state and every
   in-spec action (C09); the mask is exactly the legal moves (C04); illegal moves are ignored (C05);
   Physical is an invariant under ANY in-spec actions (C07); LAST exactly at the limit unless the
   target is reached (C11); reset states from valid draws are well formed (C10).                   *)
Require Import JV.Base.Prelude JV.Base.JaxIndex JV.Base.Codec JV.Base.TimeStep.
Require Import JV.Model.MazeGen JV.Model.Maze JV.Proofs.MazeGen.

(* ---------- mask = legal moves ---------- *)
Lemma move_valid_free rows cols w r c m :
  wf_walls rows cols w -> move_valid rows cols w r c m = free_b rows cols w (r + fst m) (c + snd m).
Proof.
  intro W. unfold move_valid, free_b, inb.
  destruct (0 <=? r + fst m) eqn:E1; cbn [andb]; auto.
  destruct (r + fst m <? rows) eqn:E2; cbn [andb]; auto.
  destruct (0 <=? c + snd m) eqn:E3; cbn [andb]; auto.
  destruct (c + snd m <? cols) eqn:E4; cbn [andb]; auto.
  rewrite (gget_gat rows cols) by (auto; lia). reflexivity.
Qed.

Lemma zrange4 : zrange 4 = [0; 1; 2; 3].
Proof. reflexivity. Qed.

Lemma compute_mask_legal rows cols w r c :
  wf_walls rows cols w -> compute_mask rows cols w r c = map (legal_b rows cols w r c) (zrange 4).
Proof.
  intro W. unfold compute_mask, MOVES. rewrite zrange4. cbn [map].
  rewrite !(move_valid_free rows cols w r c) by auto. reflexivity.
Qed.

Lemma legal_b_spec rows cols w r c a : legal_b rows cols w r c a = true <-> legal rows cols w r c a.
Proof. apply free_b_spec. Qed.

Lemma in_spec_cases a : 0 <= a < 4 -> a = 0 \/ a = 1 \/ a = 2 \/ a = 3.
Proof. lia. Qed.

Lemma mask_lookup (f : Z -> bool) a : 0 <= a < 4 -> jget false (map f (zrange 4)) a = f a.
Proof.
  intro H. rewrite zrange4. destruct (in_spec_cases a H) as [E|[E|[E|E]]]; subst a; reflexivity.
Qed.

Lemma Physical_b_spec rows cols s : Physical_b rows cols s = true <-> Physical rows cols s.
Proof.
  unfold Physical_b, Physical. rewrite !andb_true_iff, wf_walls_b_spec, !free_b_spec.
  rewrite (list_eqb_eq Bool.eqb) by (intros x y; destruct x, y; cbn; intuition congruence).
  intuition lia.
Qed.

(* C04 *)
Theorem mask_iff_legal rows cols s a :
  Physical rows cols s -> 0 <= a < 4 ->
  (jget false (amask s) a = true <-> legal rows cols (walls s) (ar s) (ac s) a).
Proof.
  intros (W & FA & FT & M & _) Ha. rewrite M, mask_lookup by auto. apply legal_b_spec.
Qed.

(* ---------- Impl step = rules ---------- *)
Lemma move_dr_dc r c a : 0 <= a < 4 -> move r c a = (r + dr a, c + dc a).
Proof.
  intro H. destruct (in_spec_cases a H) as [E|[E|[E|E]]]; subst a; unfold move, dr, dc; cbn; f_equal; lia.
Qed.

Lemma no_actions_stuck (f : Z -> bool) l :
  negb (existsb (fun b => b) (map f l)) = forallb (fun k => negb (f k)) l.
Proof. induction l as [|x l IH]; cbn; auto. rewrite negb_orb, IH. reflexivity. Qed.

(* C09 *)
Theorem step_eq_rule rows cols T s a :
  Physical rows cols s -> 0 <= a < 4 -> step rows cols T s a = rule_step rows cols T s a.
Proof.
  intros (W & FA & FT & M & SC) Ha. unfold step, rule_step, effective_action.
  rewrite M, mask_lookup by auto.
  destruct (legal_b rows cols (walls s) (ar s) (ac s) a) eqn:L.
  - replace (Z.max 0 (Z.min 4 a)) with a by lia. rewrite move_dr_dc by auto.
    rewrite compute_mask_legal by auto. rewrite no_actions_stuck.
    set (reached := (ar s + dr a =? tr s) && (ac s + dc a =? tc s)).
    set (stuck := forallb _ _). set (tl := T <=? sc s + 1).
    unfold cond_done. destruct stuck, reached, tl; reflexivity.
  - replace (Z.max 0 (Z.min 4 4)) with 4 by lia. change (move (ar s) (ac s) 4) with (ar s, ac s). cbv beta iota.
    rewrite compute_mask_legal by auto. rewrite no_actions_stuck.
    set (reached := (ar s =? tr s) && (ac s =? tc s)).
    set (stuck := forallb _ _). set (tl := T <=? sc s + 1).
    unfold cond_done. destruct stuck, reached, tl; reflexivity.
Qed.

(* ---------- C07: Physical is invariant under any in-spec action ---------- *)
Theorem rule_step_Physical rows cols T s a :
  Physical rows cols s -> Physical rows cols (fst (rule_step rows cols T s a)).
Proof.
  intros (W & FA & FT & M & SC). unfold rule_step, Physical. cbn [fst ar ac tr tc walls amask sc].
  split; [exact W|]. split; [|split; [exact FT|split; [reflexivity|lia]]].
  destruct (legal_b rows cols (walls s) (ar s) (ac s) a) eqn:L; [apply legal_b_spec in L; exact L | exact FA].
Qed.

Theorem step_Physical rows cols T s a :
  Physical rows cols s -> 0 <= a < 4 -> Physical rows cols (fst (step rows cols T s a)).
Proof. intros P Ha. rewrite step_eq_rule by auto. apply rule_step_Physical; auto. Qed.

Theorem init_Physical rows cols w r c r2 c2 :
  wf_walls rows cols w -> free rows cols w r c -> free rows cols w r2 c2 ->
  Physical rows cols (fst (init rows cols w r c r2 c2)).
Proof.
  intros W F1 F2. unfold init, Physical. cbn [fst ar ac tr tc walls amask sc].
  rewrite compute_mask_legal by auto. split; [exact W|]. split; [exact F1|]. split; [exact F2|]. split; [reflexivity|lia].
Qed.

(* runs under arbitrary in-spec actions *)
Fixpoint run (rows cols T : Z) (s : state) (acts : list Z) : state :=
  match acts with [] => s | a :: r => run rows cols T (fst (step rows cols T s a)) r end.

Theorem run_Physical rows cols T acts : forall s,
  Physical rows cols s -> Forall (fun a => 0 <= a < 4) acts -> Physical rows cols (run rows cols T s acts).
Proof.
  induction acts as [|a r IH]; intros s P F; cbn [run]; auto.
  inversion F; subst. apply IH; auto. apply step_Physical; auto.
Qed.

(* ---------- C05: an illegal move is ignored ---------- *)
Theorem illegal_ignored rows cols T s a :
  Physical rows cols s -> 0 <= a < 4 -> jget false (amask s) a = false ->
  let s' := fst (step rows cols T s a) in
  let t := snd (step rows cols T s a) in
  ar s' = ar s /\ ac s' = ac s /\ tr s' = tr s /\ tc s' = tc s /\ walls s' = walls s /\ amask s' = amask s
  /\ sc s' = sc s + 1
  /\ reward t = [b2z ((ar s =? tr s) && (ac s =? tc s))]
  /\ (st t = LAST <-> ((ar s = tr s /\ ac s = tc s) \/ T <= sc s + 1
                       \/ forall k, 0 <= k < 4 -> ~ legal rows cols (walls s) (ar s) (ac s) k))
  /\ (st t = MID \/ st t = LAST).
Proof.
  intros P Ha Hm. rewrite step_eq_rule by auto.
  destruct P as (W & FA & FT & M & SC).
  assert (L : legal_b rows cols (walls s) (ar s) (ac s) a = false) by (rewrite M, mask_lookup in Hm; auto).
  unfold rule_step. rewrite L. cbn [fst snd ar ac tr tc walls amask sc].
  repeat split; auto.
  - set (reached := (ar s =? tr s) && (ac s =? tc s)). destruct (reached || _ || _); reflexivity.
  - set (reached := (ar s =? tr s) && (ac s =? tc s)).
    set (stuck := forallb _ _). intro H.
    destruct reached eqn:R; [left; unfold reached in R; lia|]. destruct (T <=? sc s + 1) eqn:TL; [right; left; lia|].
    destruct stuck eqn:S; [|cbn in H; unfold MID, LAST in H; cbn in H; discriminate].
    right; right. intros k Hk Lk. unfold stuck in S. rewrite forallb_forall in S.
    specialize (S k (proj2 (in_zrange k 4) Hk)). apply legal_b_spec in Lk. rewrite Lk in S. discriminate.
  - set (reached := (ar s =? tr s) && (ac s =? tc s)).
    set (stuck := forallb _ _). intros [H|[H|H]].
    + replace reached with true by (unfold reached; lia). reflexivity.
    + replace (T <=? sc s + 1) with true by lia. rewrite orb_true_r. reflexivity.
    + replace stuck with true; [rewrite orb_true_r; reflexivity|].
      symmetry. unfold stuck. apply forallb_forall. intros k Hk. apply in_zrange in Hk.
      apply negb_true_iff. destruct (legal_b rows cols (walls s) (ar s) (ac s) k) eqn:E; auto.
      apply legal_b_spec in E. exfalso. apply (H k); auto.
  - set (reached := (ar s =? tr s) && (ac s =? tc s)). destruct (reached || _ || _); [right|left]; reflexivity.
Qed.

(* ---------- C09 (movement) + C11 ---------- *)
Theorem legal_moves rows cols T s a :
  Physical rows cols s -> 0 <= a < 4 -> jget false (amask s) a = true ->
  let s' := fst (step rows cols T s a) in
  ar s' = ar s + dr a /\ ac s' = ac s + dc a /\ free rows cols (walls s) (ar s') (ac s')
  /\ walls s' = walls s /\ tr s' = tr s /\ tc s' = tc s /\ sc s' = sc s + 1.
Proof.
  intros P Ha Hm. rewrite step_eq_rule by auto.
  destruct P as (W & FA & FT & M & SC).
  assert (L : legal_b rows cols (walls s) (ar s) (ac s) a = true) by (rewrite M, mask_lookup in Hm; auto).
  unfold rule_step. rewrite L. cbn [fst ar ac tr tc walls sc]. repeat split; auto; apply legal_b_spec in L; apply L.
Qed.

Definition at_target (s : state) : Prop := ar s = tr s /\ ac s = tc s.
Definition stuck (rows cols : Z) (s : state) : Prop :=
  forall k, 0 <= k < 4 -> ~ legal rows cols (walls s) (ar s) (ac s) k.

(* reward 1 exactly on the target; LAST exactly when target reached, limit reached, or walled in *)
Theorem step_reward_last rows cols T s a :
  Physical rows cols s -> 0 <= a < 4 ->
  let s' := fst (step rows cols T s a) in
  let t := snd (step rows cols T s a) in
  (reward t = [1] <-> at_target s') /\ (reward t = [0] <-> ~ at_target s')
  /\ (st t = LAST <-> (at_target s' \/ T <= sc s + 1 \/ stuck rows cols s'))
  /\ (st t = MID \/ st t = LAST) /\ sc s' = sc s + 1
  /\ discount t = (if st t =? LAST then [0] else [1]).
Proof.
  intros P Ha. rewrite step_eq_rule by auto. unfold rule_step, at_target, stuck.
  cbn [fst snd ar ac tr tc walls amask sc].
  set (r' := if legal_b rows cols (walls s) (ar s) (ac s) a then ar s + dr a else ar s).
  set (c' := if legal_b rows cols (walls s) (ar s) (ac s) a then ac s + dc a else ac s).
  set (reached := (r' =? tr s) && (c' =? tc s)).
  set (stk := forallb _ _).
  assert (S : stk = true <-> forall k, 0 <= k < 4 -> ~ legal rows cols (walls s) r' c' k).
  { unfold stk. rewrite forallb_forall. split.
    - intros H k Hk Lk. specialize (H k (proj2 (in_zrange k 4) Hk)). apply legal_b_spec in Lk. rewrite Lk in H. discriminate.
    - intros H k Hk. apply in_zrange in Hk. apply negb_true_iff.
      destruct (legal_b rows cols (walls s) r' c' k) eqn:E; auto. apply legal_b_spec in E. exfalso; apply (H k); auto. }
  assert (Rc : reached = true <-> r' = tr s /\ c' = tc s) by (unfold reached; lia).
  destruct reached eqn:ER, (T <=? sc s + 1) eqn:ET, stk eqn:ES; cbn [orb b2z termination transition reward st discount repeat];
    unfold MID, LAST; cbn [Z.eqb Pos.eqb];
    (repeat split; try (intros; discriminate); try (intro; congruence); auto; try tauto; try lia;
     try (intros [X|[X|X]]; [apply Rc in X; discriminate | lia | apply S in X; discriminate]);
     try (intro X; exfalso; apply X; apply Rc; reflexivity);
     try (intros _ X; apply Rc in X; discriminate);
     try (intros _; apply Rc; reflexivity);
     try (intros _; left; apply Rc; reflexivity);
     try (intros _; right; left; lia);
     try (intros _; right; right; apply S; reflexivity)).
Qed.

(* the clock: after n in-spec steps from a state the counter advanced by n *)
Lemma run_sc rows cols T acts : forall s,
  Physical rows cols s -> Forall (fun a => 0 <= a < 4) acts -> sc (run rows cols T s acts) = sc s + zlen acts.
Proof.
  induction acts as [|a r IH]; intros s P F; cbn [run]; [unfold zlen; cbn; lia|].
  inversion F; subst. rewrite IH; auto using step_Physical.
  rewrite zlen_cons. pose proof (step_reward_last rows cols T s a P H1) as (_ & _ & _ & _ & E & _). lia.
Qed.

(* connectivity of agent and target is preserved; a connected agent away from its target is never walled in *)
Definition linked (rows cols : Z) (s : state) : Prop := reach rows cols (walls s) (ar s, ac s) (tr s, tc s).

Lemma dr_dc_adj r c a : 0 <= a < 4 -> adj4 (r, c) (r + dr a, c + dc a).
Proof.
  intro H. destruct (in_spec_cases a H) as [E|[E|[E|E]]]; subst a; unfold adj4, dr, dc; cbn; lia.
Qed.

Theorem step_linked rows cols T s a :
  Physical rows cols s -> 0 <= a < 4 -> linked rows cols s -> linked rows cols (fst (step rows cols T s a)).
Proof.
  intros P Ha Lk. rewrite step_eq_rule by auto. unfold linked, rule_step in *. cbn [fst ar ac tr tc walls].
  destruct (legal_b rows cols (walls s) (ar s) (ac s) a) eqn:L; auto.
  apply legal_b_spec in L. eapply reach_trans; [|exact Lk].
  apply reach_one; cbn [fst snd]; auto.
  - eapply (reach_free_l _ _ _ _ _ Lk).
  - apply adj4_sym. apply dr_dc_adj; auto.
Qed.

Theorem linked_not_stuck rows cols s :
  linked rows cols s -> ~ at_target s -> ~ stuck rows cols s.
Proof.
  intros Lk NT S. unfold linked in Lk.
  destruct (reach_neighbour _ _ _ _ _ Lk) as (q & A & F & _).
  { intro E. inversion E. apply NT; split; auto. }
  destruct q as [qr qc]. unfold adj4 in A. cbn [fst snd] in *.
  assert (C : (qr = ar s - 1 /\ qc = ac s) \/ (qr = ar s /\ qc = ac s + 1) \/ (qr = ar s + 1 /\ qc = ac s) \/ (qr = ar s /\ qc = ac s - 1)) by lia.
  destruct C as [[E1 E2]|[[E1 E2]|[[E1 E2]|[E1 E2]]]]; subst qr qc.
  - apply (S 0); [lia|]. unfold legal, dr, dc. cbn. replace (ar s + -1) with (ar s - 1) by lia. replace (ac s + 0) with (ac s) by lia. exact F.
  - apply (S 1); [lia|]. unfold legal, dr, dc. cbn. replace (ar s + 0) with (ar s) by lia. exact F.
  - apply (S 2); [lia|]. unfold legal, dr, dc. cbn. replace (ac s + 0) with (ac s) by lia. exact F.
  - apply (S 3); [lia|]. unfold legal, dr, dc. cbn. replace (ar s + 0) with (ar s) by lia. replace (ac s + -1) with (ac s - 1) by lia. exact F.
Qed.

(* C11: in a maze whose agent and target are connected (every generated maze), the step is LAST
   exactly when the target is reached or the counter reaches the limit *)
Theorem last_iff_limit_or_target rows cols T s a :
  Physical rows cols s -> linked rows cols s -> 0 <= a < 4 ->
  let s' := fst (step rows cols T s a) in
  (st (snd (step rows cols T s a)) = LAST <-> (at_target s' \/ T <= sc s')).
Proof.
  intros P Lk Ha s'.
  pose proof (step_reward_last rows cols T s a P Ha) as (_ & _ & H & _ & E & _). fold s' in H, E.
  rewrite H, E. split; [|tauto].
  intros [X|[X|X]]; auto.
  destruct (Z.eq_dec (ar s') (tr s')) as [E1|N1]; [destruct (Z.eq_dec (ac s') (tc s')) as [E2|N2]|].
  - left; split; auto.
  - exfalso. apply (linked_not_stuck rows cols s'); auto. apply step_linked; auto. unfold at_target; tauto.
  - exfalso. apply (linked_not_stuck rows cols s'); auto. apply step_linked; auto. unfold at_target; tauto.
Qed.

Lemma run_linked rows cols T acts : forall s,
  Physical rows cols s -> linked rows cols s -> Forall (fun a => 0 <= a < 4) acts -> linked rows cols (run rows cols T s acts).
Proof.
  induction acts as [|x r IH]; intros s P Lk F; cbn [run]; auto.
  inversion F; subst. apply IH; auto using step_Physical, step_linked.
Qed.

(* episode view: from a reset state (counter 0), after n steps that did not end, step n+1 is LAST iff
   it reaches the target or n + 1 >= T; in particular it IS LAST when n + 1 = T and it is not LAST
   before the limit unless the target is reached *)
Theorem episode_limit rows cols T s0 acts a :
  Physical rows cols s0 -> linked rows cols s0 -> sc s0 = 0 ->
  Forall (fun a => 0 <= a < 4) acts -> 0 <= a < 4 ->
  let s := run rows cols T s0 acts in
  let n := zlen acts in
  let t := snd (step rows cols T s a) in
  (n + 1 = T -> st t = LAST) /\
  (n + 1 < T -> st t = LAST -> at_target (fst (step rows cols T s a))) /\
  (T <= n + 1 -> st t = LAST).
Proof.
  intros P Lk Z0 F Ha s n t.
  assert (Ps : Physical rows cols s) by (apply run_Physical; auto).
  assert (Ls : linked rows cols s) by (apply run_linked; auto).
  assert (Cs : sc s = n) by (unfold s, n; rewrite run_sc; auto; lia).
  pose proof (last_iff_limit_or_target rows cols T s a Ps Ls Ha) as H.
  pose proof (step_reward_last rows cols T s a Ps Ha) as (_ & _ & _ & _ & E & _).
  cbn zeta in H. fold t in H. rewrite E, Cs in H.
  split; [intros; apply H; right; lia|]. split; [|intros; apply H; right; lia].
  intros H0 H1. apply H in H1. destruct H1; auto. lia.
Qed.

(* default time limit: None (or 0) resolves to rows * cols *)
Lemma resolve_limit_default rows cols : resolve_limit rows cols 0 = rows * cols.
Proof. reflexivity. Qed.
Lemma resolve_limit_given rows cols t : t <> 0 -> resolve_limit rows cols t = t.
Proof. intro H. unfold resolve_limit. destruct (t =? 0) eqn:E; [lia|reflexivity]. Qed.

(* ---------- C10: reset states from valid draws ---------- *)
Theorem gen_init_wf rows cols w i1 i2 :
  0 < cols -> wf_walls rows cols w -> valid_draw rows cols w i1 i2 = true ->
  let s := fst (gen_init rows cols w i1 i2) in
  Physical rows cols s /\ ~ at_target s /\ sc s = 0
  /\ (Connected rows cols w -> linked rows cols s /\ free rows cols w 0 0).
Proof.
  intros Hc W V. unfold valid_draw in V. rewrite !andb_true_iff, !free_b_spec, !inb_spec, negb_true_iff in V.
  destruct V as ((((I1 & I2) & NE) & F1) & F2).
  unfold gen_init, gen_positions. cbn zeta.
  split; [apply init_Physical; auto|]. unfold init, at_target, linked. cbn [fst ar ac tr tc walls sc].
  split; [|split; [reflexivity|]].
  - intros [E1 E2]. assert (i1 = i2); [|lia].
    rewrite (Z.div_mod i1 cols), (Z.div_mod i2 cols) by lia. rewrite E1, E2. reflexivity.
  - intro C. split; [|apply C]. apply (connected_all rows cols w (_, _) (_, _)); auto.
Qed.

(* ---------- C03 / C01 ---------- *)
Theorem step_protocol rows cols T s a : step_ok 1 false (snd (step rows cols T s a)) = true.
Proof.
  unfold step. destruct (move _ _ _) as [r' c']. cbn [snd]. unfold cond_done.
  destruct (_ || _ || _); destruct ((r' =? tr s) && (c' =? tc s)); reflexivity.
Qed.
Theorem init_protocol rows cols w r c r2 c2 : first_ok 1 (snd (init rows cols w r c r2 c2)) = true.
Proof. reflexivity. Qed.

(* observed positions lie inside the declared bounds [0, rows-1] x [0, cols-1]; the mask has 4 entries *)
Theorem Physical_in_spec rows cols s :
  Physical rows cols s ->
  0 <= ar s <= rows - 1 /\ 0 <= ac s <= cols - 1 /\ 0 <= tr s <= rows - 1 /\ 0 <= tc s <= cols - 1
  /\ length (amask s) = 4%nat /\ zlen (walls s) = rows /\ Forall (fun row => zlen row = cols) (walls s).
Proof.
  intros ((L & F) & FA & FT & M & SC). destruct FA as (A1 & A2 & _). destruct FT as (B1 & B2 & _).
  rewrite M. repeat split; auto; lia.
Qed.

(* ---------- non-vacuity ---------- *)
Example toy_run :
  let s0 := fst toy_init in
  Physical_b 5 5 s0 = true /\ connected_b 5 5 toy_walls = true
  /\ amask s0 = [false; false; true; false]
  /\ ar (fst (step 5 5 25 s0 1)) = 0 /\ ac (fst (step 5 5 25 s0 1)) = 0 /\ st (snd (step 5 5 25 s0 1)) = MID
  /\ ar (fst (step 5 5 25 s0 2)) = 1
  /\ st (snd (step 5 5 1 s0 2)) = LAST
  /\ (let s := run 5 5 25 s0 [2;2;2;1;1;0;0;0;1] in (ar s, ac s) = (0, 3) /\
      reward (snd (step 5 5 25 s 1)) = [1] /\ st (snd (step 5 5 25 s 1)) = LAST).
Proof. vm_compute. repeat split; reflexivity. Qed.
