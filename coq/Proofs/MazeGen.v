(* Shared maze facts: [free_b]/[reach] lemmas, soundness of the BFS connectivity checker [connected_b],
   and the parity invariant of the recursive-division generator (walls only on cells with an odd
   coordinate, for every size and every sequence of valid draws).                                *)
Require Import JV.Base.Prelude JV.Base.JaxIndex JV.Base.Codec JV.Model.MazeGen.

(* ---------- basic list / index facts ---------- *)
Lemma znth_nth {A} (d : A) l i : 0 <= i -> znth d l i = nth (Z.to_nat i) l d.
Proof. intro H. unfold znth. destruct (i <? 0) eqn:E; [lia|reflexivity]. Qed.

Lemma znth_indep {A} (d d' : A) l i : 0 <= i < zlen l -> znth d l i = znth d' l i.
Proof. intro H. rewrite !znth_nth by lia. apply nth_indep. unfold zlen in H. lia. Qed.

Lemma jget_znth {A} (d : A) l i : 0 <= i < zlen l -> jget d l i = znth d l i.
Proof. intro H. unfold jget. rewrite jclamp_id by lia. reflexivity. Qed.

Lemma inb_spec n i : inb n i = true <-> 0 <= i < n.
Proof. unfold inb. lia. Qed.

Lemma free_b_spec rows cols w r c : free_b rows cols w r c = true <-> free rows cols w r c.
Proof.
  unfold free_b, free. rewrite !andb_true_iff, !inb_spec, negb_true_iff. tauto.
Qed.

Lemma wf_walls_b_spec rows cols w : wf_walls_b rows cols w = true <-> wf_walls rows cols w.
Proof.
  unfold wf_walls_b, wf_walls. rewrite andb_true_iff, forallb_forall, Forall_forall.
  split; intros [A B]; split; try lia; intros x Hx; specialize (B x Hx); lia.
Qed.

Lemma wf_row rows cols (w : list (list bool)) r :
  wf_walls rows cols w -> 0 <= r < rows -> zlen (znth [] w r) = cols.
Proof.
  intros [L F] H. rewrite znth_nth by lia. rewrite Forall_forall in F. apply F.
  apply nth_In. unfold zlen in L. lia.
Qed.

(* inside the grid the clamping gather and the strict accessor agree *)
Lemma gget_gat rows cols (w : list (list bool)) r c :
  wf_walls rows cols w -> 0 <= r < rows -> 0 <= c < cols -> gget false w r c = gat true w r c.
Proof.
  intros W Hr Hc. unfold gget, gat. pose proof W as [L _].
  rewrite (jget_znth [] w r) by lia.
  pose proof (wf_row rows cols w r W Hr) as Lr.
  rewrite jget_znth by lia. apply znth_indep. lia.
Qed.

(* ---------- reachability ---------- *)
Section Reach.
Variables (rows cols : Z) (w : list (list bool)).
Notation reach := (reach rows cols w).
Notation free := (free rows cols w).

Lemma reach_free_l p t : reach p t -> free (fst p) (snd p).
Proof. intro H; inversion H; auto. Qed.

Lemma reach_free_r p t : reach p t -> free (fst t) (snd t).
Proof. induction 1; auto. Qed.

Lemma reach_trans p q t : reach p q -> reach q t -> reach p t.
Proof. induction 1; intro H2; auto. eapply reach_step; eauto. Qed.

Lemma adj4_sym p q : adj4 p q -> adj4 q p.
Proof. unfold adj4. lia. Qed.

Lemma reach_one p q : free (fst p) (snd p) -> free (fst q) (snd q) -> adj4 p q -> reach p q.
Proof. intros. eapply reach_step; eauto. apply reach_refl; auto. Qed.

Lemma reach_sym p t : reach p t -> reach t p.
Proof.
  induction 1 as [p Hp | p q t Hp Ha Hq IH].
  - apply reach_refl; auto.
  - eapply reach_trans; [exact IH|]. apply reach_one; auto using adj4_sym. eapply reach_free_l; eauto.
Qed.

(* all free cells of a Connected maze are mutually reachable *)
Lemma connected_all p q :
  Connected rows cols w -> free (fst p) (snd p) -> free (fst q) (snd q) -> reach p q.
Proof.
  intros [_ C] Hp Hq. destruct p as [pr pc], q as [qr qc]. cbn in *.
  eapply reach_trans; [apply reach_sym; apply C; auto | apply C; auto].
Qed.

(* a free cell connected to a different cell has a free neighbour *)
Lemma reach_neighbour p t : reach p t -> p <> t -> exists q, adj4 p q /\ free (fst q) (snd q) /\ reach q t.
Proof.
  intros H N. inversion H; subst; [congruence|]. exists q. split; auto. split; auto. eapply reach_free_l; eauto.
Qed.

(* ---------- BFS soundness ---------- *)
Lemma cell_eqb_eq p q : cell_eqb p q = true <-> p = q.
Proof. unfold cell_eqb. destruct p, q; cbn. split; [intro; f_equal; lia | intro E; inversion E; lia]. Qed.

Lemma cmem_In p l : cmem p l = true -> In p l.
Proof.
  unfold cmem. rewrite existsb_exists. intros [x [I E]]. apply cell_eqb_eq in E. subst; auto.
Qed.

Definition R0 (x : Z * Z) : Prop := reach (0, 0) x.

Lemma add_new_inv cands : forall front vis,
  (forall q, In q cands -> free (fst q) (snd q) -> R0 q) ->
  Forall R0 front -> Forall R0 vis ->
  Forall R0 (fst (add_new rows cols w cands front vis)) /\ Forall R0 (snd (add_new rows cols w cands front vis)).
Proof.
  induction cands as [|q r IH]; intros front vis HC HF HV; cbn [add_new]; [cbn; auto|].
  destruct (free_b rows cols w (fst q) (snd q) && negb (cmem q vis)) eqn:E.
  - apply andb_true_iff in E as [E1 _]. apply free_b_spec in E1.
    assert (R0 q) by (apply HC; cbn; auto).
    apply IH.
    + intros; apply HC; cbn; auto.
    + apply Forall_app; split; auto.
    + constructor; auto.
  - apply IH; auto. intros; apply HC; cbn; auto.
Qed.

Lemma nbrs_adj p q : In q (nbrs p) -> adj4 p q.
Proof.
  unfold nbrs, adj4. cbn [In]. intros [H|[H|[H|[H|[]]]]]; subst q; cbn [fst snd]; lia.
Qed.

Lemma bfs_inv fuel : forall front vis, Forall R0 front -> Forall R0 vis -> Forall R0 (bfs rows cols w fuel front vis).
Proof.
  induction fuel as [|f IH]; intros front vis HF HV; cbn [bfs]; auto.
  destruct front as [|p rest]; auto.
  inversion HF as [|? ? Hp Hrest]; subst.
  destruct (add_new rows cols w (nbrs p) rest vis) as [front' vis'] eqn:E.
  pose proof (add_new_inv (nbrs p) rest vis) as A. rewrite E in A. cbn [fst snd] in A.
  destruct A as [A1 A2]; auto.
  intros q Iq Fq. unfold R0 in *. eapply reach_trans; [exact Hp|].
  apply reach_one; auto using nbrs_adj. eapply reach_free_r; eauto.
Qed.

Lemma in_all_cells r c : 0 <= r < rows -> 0 <= c < cols -> In (r, c) (all_cells rows cols).
Proof.
  intros Hr Hc. unfold all_cells. apply in_concat.
  exists (map (fun c => (r, c)) (zrange cols)). split.
  - apply in_map_iff. exists r. split; auto. apply in_zrange; auto.
  - apply in_map_iff. exists c. split; auto. apply in_zrange; auto.
Qed.

(* the checker is sound: true => the origin is free and every free cell is reachable from it *)
Theorem connected_b_sound : connected_b rows cols w = true -> Connected rows cols w.
Proof.
  unfold connected_b. intro H. apply andb_true_iff in H as [H0 H].
  apply free_b_spec in H0. split; auto.
  intros r c F. rewrite forallb_forall in H.
  pose proof F as [Hr [Hc _]].
  specialize (H (r, c) (in_all_cells r c Hr Hc)). cbn [fst snd] in H.
  apply orb_true_iff in H as [H|H].
  - apply negb_true_iff in H. apply free_b_spec in F. congruence.
  - apply cmem_In in H.
    assert (B : Forall R0 (bfs rows cols w (Z.to_nat (rows * cols + 1)) [(0, 0)] [(0, 0)])).
    { assert (R0 (0, 0)) by (unfold R0; apply reach_refl; auto). apply bfs_inv; apply Forall_cons; auto. }
    rewrite Forall_forall in B. apply (B _ H).
Qed.
End Reach.

(* ====================================================================================== *)
(* The recursive-division generator: for every size and every list of valid draws, walls
   appear only on cells that have an odd coordinate.  Hence every (even, even) cell -- in
   particular the origin (0,0) -- is free in every generated maze.                          *)

Lemma znth_zupd_same {A} (d v : A) l i : 0 <= i < zlen l -> znth d (zupd i v l) i = v.
Proof.
  intro H. unfold zupd. destruct (i <? 0) eqn:E; [lia|]. rewrite znth_nth by lia.
  apply nth_upd_same. unfold zlen in H. lia.
Qed.

Lemma znth_zupd_other {A} (d v : A) l i k : 0 <= k -> i <> k -> znth d (zupd i v l) k = znth d l k.
Proof.
  intros Hk N. unfold zupd. destruct (i <? 0) eqn:E; [reflexivity|]. rewrite !znth_nth by lia.
  apply nth_upd_other. lia.
Qed.

Lemma zlen_zupd {A} i (v : A) l : zlen (zupd i v l) = zlen l.
Proof. unfold zlen. rewrite zupd_length. reflexivity. Qed.

Lemma Forall_upd {A} (P : A -> Prop) n v l : Forall P l -> P v -> Forall P (upd n v l).
Proof.
  revert n; induction l as [|h t IH]; intros [|n] F Pv; cbn; auto; inversion F; subst; constructor; auto.
Qed.

Lemma Forall_zupd {A} (P : A -> Prop) i v l : Forall P l -> P v -> Forall P (zupd i v l).
Proof. intros. unfold zupd. destruct (i <? 0); auto using Forall_upd. Qed.

Lemma Forall_jset {A} (P : A -> Prop) i v l : Forall P l -> P v -> Forall P (jset l i v).
Proof. intros. unfold jset. destruct (_ && _); auto using Forall_zupd. Qed.

Lemma Forall_znth {A} (P : A -> Prop) d l i : Forall P l -> P d -> P (znth d l i).
Proof.
  intros F Pd. unfold znth. destruct (i <? 0); auto.
  destruct (Nat.lt_ge_cases (Z.to_nat i) (length l)) as [H|H].
  - rewrite Forall_forall in F. apply F. apply nth_In; auto.
  - rewrite nth_overflow; auto.
Qed.

Lemma Forall_jget {A} (P : A -> Prop) d l i : Forall P l -> P d -> P (jget d l i).
Proof. intros. unfold jget. apply Forall_znth; auto. Qed.

Section Grid.
Variables (rows cols : Z).

Lemma gset_wf (g : list (list bool)) r c v : wf_walls rows cols g -> wf_walls rows cols (gset g r c v).
Proof.
  intros [L F]. unfold gset.
  set (j := jnorm (zlen g) r).
  destruct ((0 <=? j) && (j <? zlen g)) eqn:E1; [|split; auto].
  set (row := znth [] g j).
  assert (Lr : zlen row = cols).
  { unfold row. rewrite znth_nth by lia. rewrite Forall_forall in F. apply F. apply nth_In. unfold zlen in *. lia. }
  destruct ((0 <=? jnorm (zlen row) c) && (jnorm (zlen row) c <? zlen row)) eqn:E2; [|split; auto].
  split; [rewrite zlen_zupd; auto|]. apply Forall_zupd; auto. rewrite zlen_zupd. exact Lr.
Qed.

(* reading a cell after a scatter at non-negative indices *)
Lemma gat_gset (g : list (list bool)) r0 c0 v r c :
  wf_walls rows cols g -> 0 <= r < rows -> 0 <= c < cols -> 0 <= r0 -> 0 <= c0 ->
  gat true (gset g r0 c0 v) r c = if (r0 =? r) && (c0 =? c) then v else gat true g r c.
Proof.
  intros [L F] Hr Hc H0 H1. unfold gset.
  assert (J : jnorm (zlen g) r0 = r0) by (unfold jnorm; destruct (r0 <? 0) eqn:E; lia). rewrite J.
  destruct ((0 <=? r0) && (r0 <? zlen g)) eqn:E1.
  - set (row := znth [] g r0).
    assert (Lr : zlen row = cols).
    { unfold row. rewrite znth_nth by lia. rewrite Forall_forall in F. apply F. apply nth_In. unfold zlen in *. lia. }
    assert (K : jnorm (zlen row) c0 = c0) by (unfold jnorm; destruct (c0 <? 0) eqn:E; lia). rewrite K.
    destruct ((0 <=? c0) && (c0 <? zlen row)) eqn:E2.
    + unfold gat. destruct (r0 =? r) eqn:ER.
      * assert (r0 = r) by lia. subst r0. rewrite znth_zupd_same by lia.
        destruct (c0 =? c) eqn:EC; cbn [andb].
        -- assert (c0 = c) by lia. subst c0. apply znth_zupd_same. lia.
        -- rewrite znth_zupd_other by lia. reflexivity.
      * cbn [andb]. rewrite znth_zupd_other by lia. reflexivity.
    + replace ((r0 =? r) && (c0 =? c)) with false by lia. reflexivity.
  - replace ((r0 =? r) && (c0 =? c)) with false by lia. reflexivity.
Qed.

(* walls only on cells with an odd coordinate *)
Definition EvenFree (g : list (list bool)) : Prop :=
  forall r c, 0 <= r < rows -> 0 <= c < cols -> Z.even r = true -> Z.even c = true -> gat true g r c = false.
Definition GridOK (g : list (list bool)) : Prop := wf_walls rows cols g /\ EvenFree g.

Lemma gset_ok g r0 c0 v :
  GridOK g -> 0 <= r0 -> 0 <= c0 -> (v = false \/ Z.odd r0 = true \/ Z.odd c0 = true) -> GridOK (gset g r0 c0 v).
Proof.
  intros [W E] H0 H1 Hv. split; [apply gset_wf; auto|].
  intros r c Hr Hc Er Ec. rewrite gat_gset by auto.
  destruct ((r0 =? r) && (c0 =? c)) eqn:B; [|apply E; auto].
  assert (r0 = r /\ c0 = c) as [-> ->] by lia.
  destruct Hv as [->|[O|O]]; auto; rewrite <- Z.negb_even in O; [rewrite Er in O|rewrite Ec in O]; discriminate.
Qed.

Lemma fold_ok (f : list (list bool) -> Z -> list (list bool)) (P : Z -> Prop) l : forall g,
  (forall g i, GridOK g -> P i -> GridOK (f g i)) -> Forall P l -> GridOK g -> GridOK (fold_left f l g).
Proof.
  induction l as [|i l IH]; intros g Hf F G; cbn [fold_left]; auto.
  inversion F; subst. apply IH; auto.
Qed.

Lemma zrange_from_ge s n : Forall (fun i => s <= i) (zrange_from s n).
Proof.
  apply Forall_forall. intros x Hx. apply in_zrange_from in Hx. lia.
Qed.

Lemma draw_vwall_ok g x y h : GridOK g -> 0 <= x -> 0 <= y -> Z.odd x = true -> GridOK (draw_vwall g x y h).
Proof.
  intros G Hx Hy O. unfold draw_vwall.
  apply (fold_ok (fun m i => gset m i x true) (fun i => y <= i)); auto using zrange_from_ge.
  intros g' i G' Hi. apply gset_ok; auto; lia.
Qed.

Lemma draw_hwall_ok g x y w : GridOK g -> 0 <= x -> 0 <= y -> Z.odd y = true -> GridOK (draw_hwall g x y w).
Proof.
  intros G Hx Hy O. unfold draw_hwall.
  apply (fold_ok (fun m i => gset m y i true) (fun i => x <= i)); auto using zrange_from_ge.
  intros g' i G' Hi. apply gset_ok; auto; lia.
Qed.

(* chambers kept in the stack array: even, non-negative origin (the zero padding qualifies) *)
Definition ChOK (ch : list Z) : Prop :=
  Z.even (znth 0 ch 0) = true /\ Z.even (znth 0 ch 1) = true /\ 0 <= znth 0 ch 0 /\ 0 <= znth 0 ch 1.
Definition GenOK (g : gstate) : Prop := GridOK (maze g) /\ Forall ChOK (sdata g).

Lemma ChOK_mk x y w h : Z.even x = true -> Z.even y = true -> 0 <= x -> 0 <= y -> ChOK [x; y; w; h].
Proof.
  intros. unfold ChOK. change (znth 0 [x; y; w; h] 0) with x. change (znth 0 [x; y; w; h] 1) with y. auto.
Qed.
Lemma ChOK_zero : ChOK [0; 0; 0; 0].
Proof. apply ChOK_mk; auto; lia. Qed.

Lemma create_chamber_ok st x y w h :
  Forall ChOK (fst st) -> Z.even x = true -> Z.even y = true -> 0 <= x -> 0 <= y ->
  Forall ChOK (fst (create_chamber st x y w h)).
Proof.
  intros F Ex Ey Hx Hy. unfold create_chamber. destruct ((1 <? w) && (1 <? h)); auto.
  unfold stack_push. cbn [fst]. apply Forall_jset; auto. apply ChOK_mk; auto.
Qed.

Lemma valid_odd_spec n d : valid_odd n d = true -> Z.odd d = true /\ 1 <= d.
Proof. unfold valid_odd. rewrite !andb_true_iff. intros [[A B] C]. split; auto; lia. Qed.
Lemma valid_even_spec n d : valid_even n d = true -> Z.even d = true /\ 0 <= d.
Proof. unfold valid_even. rewrite !andb_true_iff. intros [[A B] C]. split; auto; lia. Qed.

Lemma odd_add_even a b : Z.even a = true -> Z.odd b = true -> Z.odd (a + b) = true.
Proof. intros A B. rewrite Z.odd_add, B, <- Z.negb_even, A. reflexivity. Qed.
Lemma even_add_odd_1 a b : Z.even a = true -> Z.odd b = true -> Z.even (a + b + 1) = true.
Proof. intros A B. rewrite !Z.even_add, A. rewrite <- Z.negb_odd, B. reflexivity. Qed.

Theorem split_next_ok g wd pd :
  GenOK g -> valid_pair (stack_top (sdata g) (sidx g)) (wd, pd) = true -> GenOK (split_next g wd pd).
Proof.
  intros [G F] V. unfold split_next.
  set (ch := stack_top (sdata g) (sidx g)) in *.
  assert (C : ChOK ch) by (unfold ch, stack_top; apply Forall_jget; auto using ChOK_zero).
  destruct C as (Ex & Ey & Hx & Hy).
  unfold valid_pair in V. cbn [fst snd] in V.
  set (x := znth 0 ch 0) in *. set (y := znth 0 ch 1) in *. set (w := znth 0 ch 2) in *. set (h := znth 0 ch 3) in *.
  destruct (h <=? w); apply andb_true_iff in V as [V1 V2];
    apply valid_odd_spec in V1 as [O1 P1]; apply valid_even_spec in V2 as [E2 P2].
  - split; cbn [maze sdata].
    + apply gset_ok; auto; try lia. apply draw_vwall_ok; auto; try lia. apply odd_add_even; auto.
    + apply create_chamber_ok; auto; try lia; [|apply even_add_odd_1; auto]. apply create_chamber_ok; auto.
  - split; cbn [maze sdata].
    + apply gset_ok; auto; try lia. apply draw_hwall_ok; auto; try lia. apply odd_add_even; auto.
    + apply create_chamber_ok; auto; try lia; [|apply even_add_odd_1; auto]. apply create_chamber_ok; auto.
Qed.

Lemma gen_loop_ok draws : forall g, GenOK g -> draws_valid g draws = true -> GenOK (fst (gen_loop g draws)).
Proof.
  induction draws as [|d r IH]; intros g G V; cbn [gen_loop draws_valid] in *; auto.
  destruct (sidx g =? 0); auto. apply andb_true_iff in V as [V1 V2].
  apply IH; auto. apply split_next_ok; auto; destruct d; cbn [fst snd]; exact V1.
Qed.
End Grid.

Lemma nth_repeat_any {A} (x d : A) k n : (k < n)%nat -> nth k (repeat x n) d = x.
Proof. revert k; induction n; intros [|k] H; cbn; auto; try lia. apply IHn; lia. Qed.

Lemma gen_start_ok width height : 0 <= width -> 0 <= height -> GenOK height width (gen_start width height).
Proof.
  intros Hw Hh. unfold gen_start, GenOK. cbn [maze sdata fst stack_push]. split; [split|].
  - split; [unfold zlen; rewrite repeat_length; lia|].
    apply Forall_forall. intros row Hr. apply repeat_spec in Hr. subst. unfold zlen. rewrite repeat_length. lia.
  - intros r c Hr Hc _ _. unfold gat. rewrite !znth_nth by lia.
    rewrite (nth_repeat_any _ []) by lia. apply nth_repeat_any. lia.
  - apply Forall_jset; [|apply ChOK_mk; auto; lia].
    apply Forall_forall. intros ch Hc. apply repeat_spec in Hc. subst. apply ChOK_zero.
Qed.

(* C10 (generator, all sizes, all valid draws): every (even, even) cell of the generated maze is free *)
Theorem generate_maze_even_free width height draws :
  0 <= width -> 0 <= height -> draws_valid (gen_start width height) draws = true ->
  let m := maze (fst (generate_maze width height draws)) in
  wf_walls height width m /\
  forall r c, 0 <= r < height -> 0 <= c < width -> Z.even r = true -> Z.even c = true -> free height width m r c.
Proof.
  intros Hw Hh V m.
  pose proof (gen_loop_ok height width draws _ (gen_start_ok width height Hw Hh) V) as [[W E] _].
  split; auto. intros r c Hr Hc Er Ec. unfold free. repeat split; try lia. apply E; auto.
Qed.

Corollary generate_maze_origin_free width height draws :
  0 < width -> 0 < height -> draws_valid (gen_start width height) draws = true ->
  free height width (maze (fst (generate_maze width height draws))) 0 0.
Proof.
  intros Hw Hh V. apply generate_maze_even_free; auto; lia.
Qed.
