(* Connectivity of the recursive-division generator (DESIGN.md A.6), for all sizes and all valid draws.
   Backbone: the (even, even) cells ("e-cells") are never walled; two e-cells at distance 2 are joined when the
   cell between them is free.  Invariant of the loop: every e-cell is connected to the origin through joins and
   "same live chamber" links; live chambers are all-free, pairwise disjoint rectangles with even origin whose
   right/bottom edge is the grid edge or an odd line; every free (odd, odd) cell lies in a live chamber.
   When the stack is empty the links are joins only, hence every free cell is reachable from (0,0).            *)
Require Import JV.Base.Prelude JV.Base.JaxIndex JV.Base.Codec JV.Model.MazeGen JV.Proofs.MazeGen.

Section Conn.
Variables (rows cols : Z).
Notation grid := (list (list bool)).

Definition cellv (m : grid) (p : Z * Z) : bool := gat true m (fst p) (snd p).
Definition ing (p : Z * Z) : Prop := 0 <= fst p < rows /\ 0 <= snd p < cols.
Definition ecell (p : Z * Z) : Prop := ing p /\ Z.even (fst p) = true /\ Z.even (snd p) = true.

Definition cx (ch : list Z) := znth 0 ch 0.
Definition cy (ch : list Z) := znth 0 ch 1.
Definition cw (ch : list Z) := znth 0 ch 2.
Definition chh (ch : list Z) := znth 0 ch 3.
Definition inC (ch : list Z) (p : Z * Z) : Prop :=
  cx ch <= snd p < cx ch + cw ch /\ cy ch <= fst p < cy ch + chh ch.
Definition ChGood (ch : list Z) : Prop :=
  Z.even (cx ch) = true /\ Z.even (cy ch) = true /\ 0 <= cx ch /\ 0 <= cy ch
  /\ cx ch + cw ch <= cols /\ cy ch + chh ch <= rows
  /\ (cx ch + cw ch = cols \/ Z.odd (cx ch + cw ch) = true)
  /\ (cy ch + chh ch = rows \/ Z.odd (cy ch + chh ch) = true)
  /\ 1 <= cw ch /\ 1 <= chh ch /\ (2 <= cw ch \/ 2 <= chh ch).
Definition AllFree (m : grid) (ch : list Z) : Prop := forall p, inC ch p -> cellv m p = false.
Definition disj (a b : list Z) : Prop := forall p, inC a p -> inC b p -> False.
Fixpoint PD (l : list (list Z)) : Prop :=
  match l with [] => True | a :: r => (forall b, In b r -> disj a b) /\ PD r end.

Lemma disj_sym a b : disj a b -> disj b a.
Proof. unfold disj; eauto. Qed.

Lemma PD_app_inv l c : PD (l ++ [c]) -> PD l /\ forall a, In a l -> disj a c.
Proof.
  induction l as [|x l IH]; cbn [app PD]; [intros; split; auto; intros a []|].
  intros [A B]. destruct (IH B) as [B1 B2]. split; [split; auto; intros b Hb; apply A; apply in_or_app; auto|].
  intros a [->|Ha]; auto. apply A. apply in_or_app. right. cbn. auto.
Qed.

Lemma PD_snoc l c : PD l -> (forall a, In a l -> disj a c) -> PD (l ++ [c]).
Proof.
  induction l as [|x l IH]; cbn [app PD]; [intros; split; auto; intros b []|].
  intros [A B] H. split; [|apply IH; auto; intros; apply H; cbn; auto].
  intros b Hb. apply in_app_or in Hb as [Hb|[<-|[]]]; auto. apply H. cbn. auto.
Qed.

(* ---- links between e-cells ---- *)
Inductive elink (m : grid) (S : list (list Z)) : Z * Z -> Z * Z -> Prop :=
| el_h r c : ecell (r, c) -> ecell (r, c + 2) -> gat true m r (c + 1) = false -> elink m S (r, c) (r, c + 2)
| el_v r c : ecell (r, c) -> ecell (r + 2, c) -> gat true m (r + 1) c = false -> elink m S (r, c) (r + 2, c)
| el_c ch p q : In ch S -> ecell p -> ecell q -> inC ch p -> inC ch q -> elink m S p q
| el_sym p q : elink m S p q -> elink m S q p.
Inductive epath (m : grid) (S : list (list Z)) : Z * Z -> Z * Z -> Prop :=
| ep_refl p : epath m S p p
| ep_step p q t : elink m S p q -> epath m S q t -> epath m S p t.

Lemma epath_trans m S p q t : epath m S p q -> epath m S q t -> epath m S p t.
Proof. induction 1; auto. intro. eapply ep_step; eauto. Qed.
Lemma epath_one m S p q : elink m S p q -> epath m S p q.
Proof. intro. eapply ep_step; eauto. apply ep_refl. Qed.
Lemma epath_sym m S p q : epath m S p q -> epath m S q p.
Proof.
  induction 1; [apply ep_refl|]. eapply epath_trans; eauto. apply epath_one. apply el_sym; auto.
Qed.
Lemma epath_map m S m' S' :
  (forall p q, elink m S p q -> epath m' S' p q) -> forall p q, epath m S p q -> epath m' S' p q.
Proof. intros H p q P. induction P; [apply ep_refl|]. eapply epath_trans; eauto. Qed.

(* ---- inside an all-free rectangle with even origin, e-cells are connected by joins ---- *)
Section Rect.
Variables (m : grid) (S : list (list Z)) (R : list Z).
Hypothesis Rfree : AllFree m R.
Hypothesis Ring : forall p, inC R p -> ing p.

Lemma row_walk r c (n : nat) :
  Z.even r = true -> Z.even c = true -> inC R (r, c) -> inC R (r, c + 2 * Z.of_nat n) ->
  epath m S (r, c) (r, c + 2 * Z.of_nat n).
Proof.
  intros Er Ec. revert c Ec. induction n as [|n IH]; intros c Ec I1 I2.
  - replace (c + 2 * Z.of_nat 0) with c by lia. apply ep_refl.
  - assert (I3 : inC R (r, c + 2)) by (unfold inC in *; cbn [fst snd] in *; lia).
    assert (I4 : inC R (r, c + 1)) by (unfold inC in *; cbn [fst snd] in *; lia).
    eapply ep_step.
    + apply el_h; [split; [apply Ring; auto|auto] | split; [apply Ring; auto|] | apply (Rfree (r, c + 1)); auto].
      cbn [fst snd]. split; auto. rewrite Z.even_add, Ec. reflexivity.
    + replace (c + 2 * Z.of_nat (Datatypes.S n)) with ((c + 2) + 2 * Z.of_nat n) in * by lia.
      apply IH; auto. rewrite Z.even_add, Ec. reflexivity.
Qed.

Lemma col_walk r c (n : nat) :
  Z.even r = true -> Z.even c = true -> inC R (r, c) -> inC R (r + 2 * Z.of_nat n, c) ->
  epath m S (r, c) (r + 2 * Z.of_nat n, c).
Proof.
  intros Er Ec. revert r Er. induction n as [|n IH]; intros r Er I1 I2.
  - replace (r + 2 * Z.of_nat 0) with r by lia. apply ep_refl.
  - assert (I3 : inC R (r + 2, c)) by (unfold inC in *; cbn [fst snd] in *; lia).
    assert (I4 : inC R (r + 1, c)) by (unfold inC in *; cbn [fst snd] in *; lia).
    eapply ep_step.
    + apply el_v; [split; [apply Ring; auto|auto] | split; [apply Ring; auto|] | apply (Rfree (r + 1, c)); auto].
      cbn [fst snd]. split; auto. rewrite Z.even_add, Er. reflexivity.
    + replace (r + 2 * Z.of_nat (Datatypes.S n)) with ((r + 2) + 2 * Z.of_nat n) in * by lia.
      apply IH; auto. rewrite Z.even_add, Er. reflexivity.
Qed.

Lemma even_diff a b : Z.even a = true -> Z.even b = true -> a <= b -> exists n : nat, b = a + 2 * Z.of_nat n.
Proof.
  intros A B L. exists (Z.to_nat ((b - a) / 2)).
  rewrite Z2Nat.id by (apply Z.div_pos; lia).
  assert (Z.even (b - a) = true) by (rewrite Z.even_sub, A, B; reflexivity).
  apply Zeven_bool_iff in H. apply Zeven_div2 in H. rewrite Z.div2_div in H. lia.
Qed.

Lemma row_conn r c c' : Z.even r = true -> Z.even c = true -> Z.even c' = true ->
  inC R (r, c) -> inC R (r, c') -> epath m S (r, c) (r, c').
Proof.
  intros Er Ec Ec' I1 I2. destruct (Z_le_gt_dec c c') as [L|L].
  - destruct (even_diff c c' Ec Ec' L) as [n ->]. apply row_walk; auto.
  - destruct (even_diff c' c Ec' Ec ltac:(lia)) as [n ->]. apply epath_sym. apply row_walk; auto.
Qed.
Lemma col_conn r r' c : Z.even r = true -> Z.even r' = true -> Z.even c = true ->
  inC R (r, c) -> inC R (r', c) -> epath m S (r, c) (r', c).
Proof.
  intros Er Er' Ec I1 I2. destruct (Z_le_gt_dec r r') as [L|L].
  - destruct (even_diff r r' Er Er' L) as [n ->]. apply col_walk; auto.
  - destruct (even_diff r' r Er' Er ltac:(lia)) as [n ->]. apply epath_sym. apply col_walk; auto.
Qed.

Lemma rect_conn p q : ecell p -> ecell q -> inC R p -> inC R q -> epath m S p q.
Proof.
  destruct p as [r c], q as [r' c']. intros (_ & Er & Ec) (_ & Er' & Ec') I1 I2. cbn [fst snd] in *.
  assert (I3 : inC R (r, c')) by (unfold inC in *; cbn [fst snd] in *; lia).
  eapply epath_trans; [apply row_conn | apply col_conn]; auto.
Qed.
End Rect.
(* ---- the loop invariant over (maze, list of live chambers) ---- *)
Record AInv (m : grid) (S : list (list Z)) : Prop := mkAInv {
  ai_grid : GridOK rows cols m;
  ai_good : Forall ChGood S;
  ai_free : Forall (AllFree m) S;
  ai_pd : PD S;
  ai_conn : forall p, ecell p -> epath m S (0, 0) p;
  ai_odd : forall p, ing p -> Z.odd (fst p) = true -> Z.odd (snd p) = true -> cellv m p = false ->
           exists ch, In ch S /\ inC ch p }.

Lemma good_ing ch p : ChGood ch -> inC ch p -> ing p.
Proof. unfold ChGood, inC, ing. intros (_ & _ & A & B & C & D & _) [E F]. lia. Qed.

Lemma even_le_succ a b : Z.even a = true -> Z.even b = true -> a <= b + 1 -> a <= b.
Proof. intros A B L. apply Z.even_spec in A as [k ->]. apply Z.even_spec in B as [l ->]. lia. Qed.
Lemma even_odd_false a : Z.even a = true -> Z.odd a = true -> False.
Proof. intros A B. rewrite <- Z.negb_even, A in B. discriminate. Qed.

Section Step.
Variables (m m' : grid) (S0 : list (list Z)) (C C1 C2 : list Z) (big1 big2 : bool).
Let new := (if big1 then [C1] else []) ++ (if big2 then [C2] else []).
Hypothesis HI : AInv m (S0 ++ [C]).
Hypothesis H1 : GridOK rows cols m'.
Hypothesis H2 : forall p, ing p -> cellv m' p = true -> cellv m p = false -> inC C p /\ ~ inC C1 p /\ ~ inC C2 p.
Hypothesis H2b : forall p, ing p -> cellv m p = true -> cellv m' p = true.
Hypothesis H3a : forall p, inC C1 p -> inC C p.
Hypothesis H3b : forall p, inC C2 p -> inC C p.
Hypothesis H3c : disj C1 C2.
Hypothesis H4a : big1 = true -> ChGood C1.
Hypothesis H4b : big2 = true -> ChGood C2.
Hypothesis H5 : forall p q, ecell p -> ecell q -> inC C p -> inC C q -> epath m' (S0 ++ new) p q.
Hypothesis H6 : forall p, inC C p -> Z.odd (fst p) = true -> Z.odd (snd p) = true -> cellv m' p = false ->
                (big1 = true /\ inC C1 p) \/ (big2 = true /\ inC C2 p).

Lemma In_new ch : In ch (S0 ++ new) <-> In ch S0 \/ (big1 = true /\ ch = C1) \/ (big2 = true /\ ch = C2).
Proof.
  unfold new. rewrite !in_app_iff. destruct big1, big2; cbn [In]; intuition (try discriminate; auto).
Qed.

Lemma C_good : ChGood C.
Proof. pose proof (ai_good _ _ HI) as G. rewrite Forall_forall in G. apply G. apply in_or_app. right. cbn. auto. Qed.
Lemma C_free : AllFree m C.
Proof. pose proof (ai_free _ _ HI) as G. rewrite Forall_forall in G. apply G. apply in_or_app. right. cbn. auto. Qed.
Lemma S0_disj a : In a S0 -> disj a C.
Proof. apply (PD_app_inv S0 C (ai_pd _ _ HI)). Qed.

Lemma step_good : Forall ChGood (S0 ++ new).
Proof.
  apply Forall_forall. intros ch H. apply In_new in H as [H|[[B ->]|[B ->]]]; auto.
  pose proof (ai_good _ _ HI) as G. rewrite Forall_forall in G. apply G. apply in_or_app. auto.
Qed.

Lemma step_free : Forall (AllFree m') (S0 ++ new).
Proof.
  apply Forall_forall. intros ch H p Hp. destruct (cellv m' p) eqn:E; auto. exfalso.
  apply In_new in H as [H|[[B ->]|[B ->]]].
  - pose proof (ai_free _ _ HI) as F. rewrite Forall_forall in F.
    pose proof (ai_good _ _ HI) as G. rewrite Forall_forall in G.
    assert (I : In ch (S0 ++ [C])) by (apply in_or_app; auto).
    destruct (H2 p (good_ing ch p (G ch I) Hp) E (F ch I p Hp)) as (X & _). apply (S0_disj ch H p); auto.
  - assert (X : inC C p) by auto. destruct (H2 p (good_ing C p C_good X) E (C_free p X)) as (_ & Y & _). auto.
  - assert (X : inC C p) by auto. destruct (H2 p (good_ing C p C_good X) E (C_free p X)) as (_ & _ & Y). auto.
Qed.

Lemma step_pd : PD (S0 ++ new).
Proof.
  destruct (PD_app_inv S0 C (ai_pd _ _ HI)) as [P D].
  assert (D1 : forall a, In a S0 -> disj a C1) by (intros a Ha p X Y; apply (D a Ha p); auto).
  assert (D2 : forall a, In a S0 -> disj a C2) by (intros a Ha p X Y; apply (D a Ha p); auto).
  unfold new. destruct big1, big2; cbn [app].
  - change (S0 ++ [C1; C2]) with (S0 ++ [C1] ++ [C2]). rewrite app_assoc. apply PD_snoc; [apply PD_snoc; auto|].
    intros a Ha. apply in_app_or in Ha as [Ha|[<-|[]]]; auto.
  - apply PD_snoc; auto.
  - apply PD_snoc; auto.
  - rewrite app_nil_r. auto.
Qed.

Lemma link_step p q : elink m (S0 ++ [C]) p q -> epath m' (S0 ++ new) p q.
Proof.
  pose proof C_good as (Ex & Ey & X0 & Y0 & XW & YH & BX & BY & _).
  induction 1 as [r c E1 E2 F | r c E1 E2 F | ch p q I E1 E2 I1 I2 | p q L IH].
  - destruct (gat true m' r (c + 1)) eqn:G; [|apply epath_one; apply el_h; auto].
    destruct E1 as (G1 & Er & Ec), E2 as (G2 & _ & Ec2). unfold ing in G1, G2. cbn [fst snd] in *.
    destruct (H2 (r, c + 1)) as ((A & B) & _); [unfold ing; cbn [fst snd]; lia | exact G | exact F |].
    cbn [fst snd] in A, B.
    assert (cx C <= c) by (apply even_le_succ; auto; lia).
    assert (c + 2 < cx C + cw C).
    { destruct (Z.eq_dec (c + 2) (cx C + cw C)) as [Q|Q]; [|lia]. exfalso.
      destruct BX as [BX|BX]; [lia|]. rewrite <- Q in BX. apply (even_odd_false (c + 2)); auto. }
    apply H5; unfold ecell, ing, inC; cbn [fst snd]; repeat split; auto; lia.
  - destruct (gat true m' (r + 1) c) eqn:G; [|apply epath_one; apply el_v; auto].
    destruct E1 as (G1 & Er & Ec), E2 as (G2 & Er2 & _). unfold ing in G1, G2. cbn [fst snd] in *.
    destruct (H2 (r + 1, c)) as ((A & B) & _); [unfold ing; cbn [fst snd]; lia | exact G | exact F |].
    cbn [fst snd] in A, B.
    assert (cy C <= r) by (apply even_le_succ; auto; lia).
    assert (r + 2 < cy C + chh C).
    { destruct (Z.eq_dec (r + 2) (cy C + chh C)) as [Q|Q]; [|lia]. exfalso.
      destruct BY as [BY|BY]; [lia|]. rewrite <- Q in BY. apply (even_odd_false (r + 2)); auto. }
    apply H5; unfold ecell, ing, inC; cbn [fst snd]; repeat split; auto; lia.
  - apply in_app_or in I as [I|[<-|[]]]; [|apply H5; auto].
    apply epath_one. apply (el_c m' (S0 ++ new) ch); auto. apply In_new; auto.
  - apply epath_sym; auto.
Qed.

Theorem step_AInv : AInv m' (S0 ++ new).
Proof.
  constructor; auto using step_good, step_free, step_pd.
  - intros p Hp. apply (epath_map m (S0 ++ [C])); [exact link_step|]. apply (ai_conn _ _ HI); auto.
  - intros p G O1 O2 F.
    assert (Fm : cellv m p = false).
    { destruct (cellv m p) eqn:E; auto. rewrite (H2b p G E) in F. discriminate. }
    destruct (ai_odd _ _ HI p G O1 O2 Fm) as (ch & I & X).
    apply in_app_or in I as [I|[<-|[]]].
    + exists ch. split; auto. apply In_new; auto.
    + destruct (H6 p X O1 O2 F) as [[B Y]|[B Y]]; [exists C1|exists C2]; split; auto; apply In_new; auto.
Qed.
End Step.

(* ---- cell values after drawing a wall ---- *)
Lemma fold_vwall x0 r c n : forall (m : grid) y0,
  wf_walls rows cols m -> 0 <= x0 -> 0 <= y0 -> 0 <= r < rows -> 0 <= c < cols ->
  gat true (fold_left (fun m i => gset m i x0 true) (zrange_from y0 n) m) r c
  = ((c =? x0) && (y0 <=? r) && (r <? y0 + Z.of_nat n)) || gat true m r c.
Proof.
  induction n as [|n IH]; intros m y0 W X0 Y0 Hr Hc; cbn [zrange_from fold_left].
  - replace ((c =? x0) && (y0 <=? r) && (r <? y0 + Z.of_nat 0)) with false by lia. reflexivity.
  - rewrite IH by (auto using gset_wf; lia). rewrite (gat_gset rows cols) by (auto; lia).
    destruct ((y0 =? r) && (x0 =? c)) eqn:B.
    + rewrite orb_true_r. replace ((c =? x0) && (y0 <=? r) && (r <? y0 + Z.of_nat (Datatypes.S n))) with true by lia. reflexivity.
    + f_equal. lia.
Qed.
Lemma fold_hwall y0 r c n : forall (m : grid) x0,
  wf_walls rows cols m -> 0 <= x0 -> 0 <= y0 -> 0 <= r < rows -> 0 <= c < cols ->
  gat true (fold_left (fun m i => gset m y0 i true) (zrange_from x0 n) m) r c
  = ((r =? y0) && (x0 <=? c) && (c <? x0 + Z.of_nat n)) || gat true m r c.
Proof.
  induction n as [|n IH]; intros m x0 W X0 Y0 Hr Hc; cbn [zrange_from fold_left].
  - replace ((r =? y0) && (x0 <=? c) && (c <? x0 + Z.of_nat 0)) with false by lia. reflexivity.
  - rewrite IH by (auto using gset_wf; lia). rewrite (gat_gset rows cols) by (auto; lia).
    destruct ((y0 =? r) && (x0 =? c)) eqn:B.
    + rewrite orb_true_r. replace ((r =? y0) && (x0 <=? c) && (c <? x0 + Z.of_nat (Datatypes.S n))) with true by lia. reflexivity.
    + f_equal. lia.
Qed.

Lemma cell_hsplit (m : grid) x y h wd pd r c :
  wf_walls rows cols m -> 0 <= x + wd -> 0 <= y -> 0 <= pd -> 0 <= h -> 0 <= r < rows -> 0 <= c < cols ->
  gat true (gset (draw_vwall m (x + wd) y h) (y + pd) (x + wd) false) r c
  = if (y + pd =? r) && (x + wd =? c) then false
    else ((c =? x + wd) && (y <=? r) && (r <? y + h)) || gat true m r c.
Proof.
  intros W X0 Y0 P0 H0 Hr Hc. rewrite (gat_gset rows cols); auto; try lia.
  - destruct ((y + pd =? r) && (x + wd =? c)); auto. unfold draw_vwall. rewrite fold_vwall; auto.
    rewrite Z2Nat.id by lia. reflexivity.
  - unfold draw_vwall. clear Hr Hc.
    assert (G : forall l (g : grid), wf_walls rows cols g -> wf_walls rows cols (fold_left (fun m i => gset m i (x + wd) true) l g)).
    { induction l; cbn; auto using gset_wf. } apply G; auto.
Qed.
Lemma cell_vsplit (m : grid) x y w wd pd r c :
  wf_walls rows cols m -> 0 <= x -> 0 <= y + wd -> 0 <= pd -> 0 <= w -> 0 <= r < rows -> 0 <= c < cols ->
  gat true (gset (draw_hwall m x (y + wd) w) (y + wd) (x + pd) false) r c
  = if (y + wd =? r) && (x + pd =? c) then false
    else ((r =? y + wd) && (x <=? c) && (c <? x + w)) || gat true m r c.
Proof.
  intros W X0 Y0 P0 H0 Hr Hc. rewrite (gat_gset rows cols); auto; try lia.
  - destruct ((y + wd =? r) && (x + pd =? c)); auto. unfold draw_hwall. rewrite fold_hwall; auto.
    rewrite Z2Nat.id by lia. reflexivity.
  - unfold draw_hwall. clear Hr Hc.
    assert (G : forall l (g : grid), wf_walls rows cols g -> wf_walls rows cols (fold_left (fun m i => gset m (y + wd) i true) l g)).
    { induction l; cbn; auto using gset_wf. } apply G; auto.
Qed.

Lemma even_mod a : Z.even a = (a mod 2 =? 0).
Proof. rewrite Zeven_mod. unfold Zeq_bool. rewrite Z.eqb_compare. reflexivity. Qed.
Lemma odd_mod a : Z.odd a = (a mod 2 =? 1).
Proof. rewrite Zodd_mod. unfold Zeq_bool. rewrite Z.eqb_compare. reflexivity. Qed.

Lemma inC_mk a b c d p : inC [a; b; c; d] p = (a <= snd p < a + c /\ b <= fst p < b + d).
Proof. reflexivity. Qed.
Lemma ChGood_mk a b c d : ChGood [a; b; c; d] =
  (Z.even a = true /\ Z.even b = true /\ 0 <= a /\ 0 <= b /\ a + c <= cols /\ b + d <= rows
   /\ (a + c = cols \/ Z.odd (a + c) = true) /\ (b + d = rows \/ Z.odd (b + d) = true)
   /\ 1 <= c /\ 1 <= d /\ (2 <= c \/ 2 <= d)).
Proof. reflexivity. Qed.

Lemma AInv_top m S0 C : AInv m (S0 ++ [C]) -> ChGood C /\ AllFree m C.
Proof.
  intro A. pose proof (ai_good _ _ A) as G. pose proof (ai_free _ _ A) as F.
  rewrite Forall_forall in G, F. split; [apply G|apply F]; apply in_or_app; right; cbn; auto.
Qed.

(* split_horizontally: vertical wall in column cx + wd, passage in row cy + pd *)
Theorem hsplit_AInv m S0 C wd pd :
  AInv m (S0 ++ [C]) -> chh C <= cw C -> valid_odd (cw C) wd = true -> valid_even (chh C) pd = true ->
  AInv (gset (draw_vwall m (cx C + wd) (cy C) (chh C)) (cy C + pd) (cx C + wd) false)
       (S0 ++ (if (1 <? wd) && (1 <? chh C) then [[cx C; cy C; wd; chh C]] else [])
           ++ (if (1 <? cw C - wd - 1) && (1 <? chh C) then [[cx C + wd + 1; cy C; cw C - wd - 1; chh C]] else [])).
Proof.
  intros A HW V1 V2.
  destruct (AInv_top m S0 C A) as [(Ex & Ey & X0 & Y0 & XW & YH & BX & BY & W1 & H1 & DIM) CF].
  pose proof (ai_grid _ _ A) as [Wf EF].
  unfold valid_odd in V1. unfold valid_even in V2.
  apply andb_true_iff in V1 as [V1 V1c]. apply andb_true_iff in V1 as [O1 V1b].
  apply andb_true_iff in V2 as [V2 V2c]. apply andb_true_iff in V2 as [E2 V2b].
  rewrite even_mod in Ex, Ey, E2. rewrite odd_mod in O1, BX, BY.
  set (x := cx C) in *. set (y := cy C) in *. set (w := cw C) in *. set (h := chh C) in *.
  set (m' := gset _ _ _ _).
  assert (Cf : forall r c, 0 <= r < rows -> 0 <= c < cols ->
               gat true m' r c = if (y + pd =? r) && (x + wd =? c) then false
                                 else ((c =? x + wd) && (y <=? r) && (r <? y + h)) || gat true m r c).
  { intros. unfold m'. apply cell_hsplit; auto; lia. }
  assert (CF' : forall r c, x <= c < x + w -> y <= r < y + h -> gat true m r c = false).
  { intros r c ? ?. apply (CF (r, c)). unfold inC. cbn [fst snd]. fold x y w h. lia. }
  assert (AF1 : AllFree m' [x; y; wd; h]).
  { intros [r c] I. rewrite inC_mk in I. unfold cellv. cbn [fst snd] in *. rewrite Cf by lia.
    destruct ((y + pd =? r) && (x + wd =? c)); auto.
    replace ((c =? x + wd) && (y <=? r) && (r <? y + h)) with false by lia. apply CF'; lia. }
  assert (AF2 : AllFree m' [x + wd + 1; y; w - wd - 1; h]).
  { intros [r c] I. rewrite inC_mk in I. unfold cellv. cbn [fst snd] in *. rewrite Cf by lia.
    destruct ((y + pd =? r) && (x + wd =? c)); auto.
    replace ((c =? x + wd) && (y <=? r) && (r <? y + h)) with false by lia. apply CF'; lia. }
  assert (R1 : forall p, inC [x; y; wd; h] p -> ing p).
  { intros [r c] I. rewrite inC_mk in I. unfold ing. cbn [fst snd] in *. lia. }
  assert (R2 : forall p, inC [x + wd + 1; y; w - wd - 1; h] p -> ing p).
  { intros [r c] I. rewrite inC_mk in I. unfold ing. cbn [fst snd] in *. lia. }
  apply (step_AInv m m' S0 C [x; y; wd; h] [x + wd + 1; y; w - wd - 1; h]); auto.
  - (* GridOK *) unfold m'. apply gset_ok; try lia; auto. apply draw_vwall_ok; try lia; [split; auto|].
    rewrite odd_mod. lia.
  - (* H2 *) intros [r c] G T F. unfold ing, cellv in *. cbn [fst snd] in *. rewrite Cf in T by lia.
    destruct ((y + pd =? r) && (x + wd =? c)) eqn:B; [discriminate|]. rewrite F, orb_false_r in T.
    rewrite !inC_mk. unfold inC. cbn [fst snd]. fold x y w h. lia.
  - (* H2b *) intros [r c] G T. unfold ing, cellv in *. cbn [fst snd] in *. rewrite Cf by lia.
    destruct ((y + pd =? r) && (x + wd =? c)) eqn:B; [|rewrite T, orb_true_r; reflexivity].
    rewrite CF' in T by lia. discriminate.
  - intros [r c] I. rewrite inC_mk in I. unfold inC. cbn [fst snd] in *. fold x y w h. lia.
  - intros [r c] I. rewrite inC_mk in I. unfold inC. cbn [fst snd] in *. fold x y w h. lia.
  - intros [r c] I J. rewrite inC_mk in I, J. cbn [fst snd] in *. lia.
  - intro B. rewrite ChGood_mk, !even_mod, !odd_mod. lia.
  - intro B. rewrite ChGood_mk, !even_mod, !odd_mod. replace (x + wd + 1 + (w - wd - 1)) with (x + w) by lia. lia.
  - (* H5 *)
    set (S' := S0 ++ _ ++ _).
    assert (X : forall r c r' c', ecell (r, c) -> ecell (r', c') -> inC C (r, c) -> inC C (r', c') ->
                c < x + wd -> x + wd < c' -> epath m' S' (r, c) (r', c')).
    { intros r c r' c' (G1 & Er & Ec) (G2 & Er' & Ec') I1 I2 L1 L2.
      unfold ing, inC in *. cbn [fst snd] in *. fold x y w h in I1, I2. rewrite even_mod in Er, Ec, Er', Ec'.
      eapply epath_trans; [apply (rect_conn m' S' [x; y; wd; h] AF1 R1 (r, c) (y + pd, x + wd - 1))|].
      1-4: unfold ecell, ing; rewrite ?inC_mk; cbn [fst snd]; rewrite ?even_mod; lia.
      eapply ep_step; [apply (el_h m' S' (y + pd) (x + wd - 1))|].
      1-2: unfold ecell, ing; cbn [fst snd]; rewrite ?even_mod; lia.
      { rewrite Cf by lia. replace ((y + pd =? y + pd) && (x + wd =? x + wd - 1 + 1)) with true by lia. reflexivity. }
      apply (rect_conn m' S' [x + wd + 1; y; w - wd - 1; h] AF2 R2).
      1-4: unfold ecell, ing; rewrite ?inC_mk; cbn [fst snd]; rewrite ?even_mod; lia. }
    intros [r c] [r' c'] Ep Eq Ip Iq.
    pose proof Ep as (G1 & Er & Ec). pose proof Eq as (G2 & Er' & Ec').
    pose proof Ip as Ip'. pose proof Iq as Iq'.
    unfold ing, inC in G1, G2, Ip', Iq'. cbn [fst snd] in *. fold x y w h in Ip', Iq'. rewrite even_mod in Er, Ec, Er', Ec'.
    destruct (Z_lt_ge_dec c (x + wd)) as [L1|L1], (Z_lt_ge_dec c' (x + wd)) as [L2|L2].
    + apply (rect_conn m' S' [x; y; wd; h] AF1 R1); auto; rewrite inC_mk; cbn [fst snd]; lia.
    + apply X; auto; lia.
    + apply epath_sym. apply X; auto; lia.
    + apply (rect_conn m' S' [x + wd + 1; y; w - wd - 1; h] AF2 R2); auto; rewrite inC_mk; cbn [fst snd]; lia.
  - (* H6 *) intros [r c] I Or Oc F. unfold inC in I. unfold cellv in F. cbn [fst snd] in *. fold x y w h in I.
    rewrite odd_mod in Or, Oc. rewrite Cf in F by lia.
    destruct ((y + pd =? r) && (x + wd =? c)) eqn:B; [lia|]. apply orb_false_iff in F as [F _].
    rewrite !inC_mk. cbn [fst snd]. lia.
Qed.

(* split_vertically: horizontal wall in row cy + wd, passage in column cx + pd *)
Theorem vsplit_AInv m S0 C wd pd :
  AInv m (S0 ++ [C]) -> cw C < chh C -> valid_odd (chh C) wd = true -> valid_even (cw C) pd = true ->
  AInv (gset (draw_hwall m (cx C) (cy C + wd) (cw C)) (cy C + wd) (cx C + pd) false)
       (S0 ++ (if (1 <? cw C) && (1 <? wd) then [[cx C; cy C; cw C; wd]] else [])
           ++ (if (1 <? cw C) && (1 <? chh C - wd - 1) then [[cx C; cy C + wd + 1; cw C; chh C - wd - 1]] else [])).
Proof.
  intros A HW V1 V2.
  destruct (AInv_top m S0 C A) as [(Ex & Ey & X0 & Y0 & XW & YH & BX & BY & W1 & H1 & DIM) CF].
  pose proof (ai_grid _ _ A) as [Wf EF].
  unfold valid_odd in V1. unfold valid_even in V2.
  apply andb_true_iff in V1 as [V1 V1c]. apply andb_true_iff in V1 as [O1 V1b].
  apply andb_true_iff in V2 as [V2 V2c]. apply andb_true_iff in V2 as [E2 V2b].
  rewrite even_mod in Ex, Ey, E2. rewrite odd_mod in O1, BX, BY.
  set (x := cx C) in *. set (y := cy C) in *. set (w := cw C) in *. set (h := chh C) in *.
  set (m' := gset _ _ _ _).
  assert (Cf : forall r c, 0 <= r < rows -> 0 <= c < cols ->
               gat true m' r c = if (y + wd =? r) && (x + pd =? c) then false
                                 else ((r =? y + wd) && (x <=? c) && (c <? x + w)) || gat true m r c).
  { intros. unfold m'. apply cell_vsplit; auto; lia. }
  assert (CF' : forall r c, x <= c < x + w -> y <= r < y + h -> gat true m r c = false).
  { intros r c ? ?. apply (CF (r, c)). unfold inC. cbn [fst snd]. fold x y w h. lia. }
  assert (AF1 : AllFree m' [x; y; w; wd]).
  { intros [r c] I. rewrite inC_mk in I. unfold cellv. cbn [fst snd] in *. rewrite Cf by lia.
    destruct ((y + wd =? r) && (x + pd =? c)); auto.
    replace ((r =? y + wd) && (x <=? c) && (c <? x + w)) with false by lia. apply CF'; lia. }
  assert (AF2 : AllFree m' [x; y + wd + 1; w; h - wd - 1]).
  { intros [r c] I. rewrite inC_mk in I. unfold cellv. cbn [fst snd] in *. rewrite Cf by lia.
    destruct ((y + wd =? r) && (x + pd =? c)); auto.
    replace ((r =? y + wd) && (x <=? c) && (c <? x + w)) with false by lia. apply CF'; lia. }
  assert (R1 : forall p, inC [x; y; w; wd] p -> ing p).
  { intros [r c] I. rewrite inC_mk in I. unfold ing. cbn [fst snd] in *. lia. }
  assert (R2 : forall p, inC [x; y + wd + 1; w; h - wd - 1] p -> ing p).
  { intros [r c] I. rewrite inC_mk in I. unfold ing. cbn [fst snd] in *. lia. }
  apply (step_AInv m m' S0 C [x; y; w; wd] [x; y + wd + 1; w; h - wd - 1]); auto.
  - (* GridOK *) unfold m'. apply gset_ok; try lia; auto. apply draw_hwall_ok; try lia; [split; auto|].
    rewrite odd_mod. lia.
  - (* H2 *) intros [r c] G T F. unfold ing, cellv in *. cbn [fst snd] in *. rewrite Cf in T by lia.
    destruct ((y + wd =? r) && (x + pd =? c)) eqn:B; [discriminate|]. rewrite F, orb_false_r in T.
    rewrite !inC_mk. unfold inC. cbn [fst snd]. fold x y w h. lia.
  - (* H2b *) intros [r c] G T. unfold ing, cellv in *. cbn [fst snd] in *. rewrite Cf by lia.
    destruct ((y + wd =? r) && (x + pd =? c)) eqn:B; [|rewrite T, orb_true_r; reflexivity].
    rewrite CF' in T by lia. discriminate.
  - intros [r c] I. rewrite inC_mk in I. unfold inC. cbn [fst snd] in *. fold x y w h. lia.
  - intros [r c] I. rewrite inC_mk in I. unfold inC. cbn [fst snd] in *. fold x y w h. lia.
  - intros [r c] I J. rewrite inC_mk in I, J. cbn [fst snd] in *. lia.
  - intro B. rewrite ChGood_mk, !even_mod, !odd_mod. lia.
  - intro B. rewrite ChGood_mk, !even_mod, !odd_mod. replace (y + wd + 1 + (h - wd - 1)) with (y + h) by lia. lia.
  - (* H5 *)
    set (S' := S0 ++ _ ++ _).
    assert (X : forall r c r' c', ecell (r, c) -> ecell (r', c') -> inC C (r, c) -> inC C (r', c') ->
                r < y + wd -> y + wd < r' -> epath m' S' (r, c) (r', c')).
    { intros r c r' c' (G1 & Er & Ec) (G2 & Er' & Ec') I1 I2 L1 L2.
      unfold ing, inC in *. cbn [fst snd] in *. fold x y w h in I1, I2. rewrite even_mod in Er, Ec, Er', Ec'.
      eapply epath_trans; [apply (rect_conn m' S' [x; y; w; wd] AF1 R1 (r, c) (y + wd - 1, x + pd))|].
      1-4: unfold ecell, ing; rewrite ?inC_mk; cbn [fst snd]; rewrite ?even_mod; lia.
      eapply ep_step; [apply (el_v m' S' (y + wd - 1) (x + pd))|].
      1-2: unfold ecell, ing; cbn [fst snd]; rewrite ?even_mod; lia.
      { rewrite Cf by lia. replace ((y + wd =? y + wd - 1 + 1) && (x + pd =? x + pd)) with true by lia. reflexivity. }
      apply (rect_conn m' S' [x; y + wd + 1; w; h - wd - 1] AF2 R2).
      1-4: unfold ecell, ing; rewrite ?inC_mk; cbn [fst snd]; rewrite ?even_mod; lia. }
    intros [r c] [r' c'] Ep Eq Ip Iq.
    pose proof Ep as (G1 & Er & Ec). pose proof Eq as (G2 & Er' & Ec').
    pose proof Ip as Ip'. pose proof Iq as Iq'.
    unfold ing, inC in G1, G2, Ip', Iq'. cbn [fst snd] in *. fold x y w h in Ip', Iq'. rewrite even_mod in Er, Ec, Er', Ec'.
    destruct (Z_lt_ge_dec r (y + wd)) as [L1|L1], (Z_lt_ge_dec r' (y + wd)) as [L2|L2].
    + apply (rect_conn m' S' [x; y; w; wd] AF1 R1); auto; rewrite inC_mk; cbn [fst snd]; lia.
    + apply X; auto; lia.
    + apply epath_sym. apply X; auto; lia.
    + apply (rect_conn m' S' [x; y + wd + 1; w; h - wd - 1] AF2 R2); auto; rewrite inC_mk; cbn [fst snd]; lia.
  - (* H6 *) intros [r c] I Or Oc F. unfold inC in I. unfold cellv in F. cbn [fst snd] in *. fold x y w h in I.
    rewrite odd_mod in Or, Oc. rewrite Cf in F by lia.
    destruct ((y + wd =? r) && (x + pd =? c)) eqn:B; [lia|]. apply orb_false_iff in F as [F _].
    rewrite !inC_mk. cbn [fst snd]. lia.
Qed.
End Conn.

(* ---------------- the array stack refines the list of live chambers ---------------- *)
Lemma firstn_succ_nth {A} (d : A) l n : (n < length l)%nat -> firstn (S n) l = firstn n l ++ [nth n l d].
Proof.
  revert n; induction l as [|x l IH]; intros [|n] H; cbn in *; try lia; auto. rewrite IH by lia. reflexivity.
Qed.
Lemma firstn_upd_snoc {A} (v : A) l n : (n < length l)%nat -> firstn (S n) (upd n v l) = firstn n l ++ [v].
Proof.
  revert n; induction l as [|x l IH]; intros [|n] H; cbn in *; try lia; auto. rewrite IH by lia. reflexivity.
Qed.

Definition livel (data : list (list Z)) (idx : Z) : list (list Z) := firstn (Z.to_nat idx) data.
Definition live (g : gstate) : list (list Z) := livel (sdata g) (sidx g).

Lemma cc_live st x y w h :
  0 <= snd st < zlen (fst st) ->
  let st' := create_chamber st x y w h in
  livel (fst st') (snd st') = livel (fst st) (snd st) ++ (if (1 <? w) && (1 <? h) then [[x; y; w; h]] else [])
  /\ zlen (fst st') = zlen (fst st) /\ snd st <= snd st' <= snd st + 1.
Proof.
  destruct st as [data k]. cbn [fst snd]. intro H. unfold create_chamber. cbn [fst snd].
  destruct ((1 <? w) && (1 <? h)); cbn [stack_push fst snd].
  - split; [|split; [unfold zlen; rewrite jset_length; reflexivity | lia]].
    unfold livel. rewrite jset_in_range by lia. replace (Z.to_nat (k + 1)) with (S (Z.to_nat k)) by lia.
    apply firstn_upd_snoc. unfold zlen in H. lia.
  - rewrite app_nil_r. split; auto. split; auto. lia.
Qed.

Section Refine.
Variables (rows cols : Z).
Definition RInv (g : gstate) : Prop := 0 <= sidx g <= zlen (sdata g) /\ AInv rows cols (maze g) (live g).

Theorem split_next_R g wd pd :
  RInv g -> sidx g <> 0 -> sidx g + 1 <= zlen (sdata g) ->
  valid_pair (stack_top (sdata g) (sidx g)) (wd, pd) = true -> RInv (split_next g wd pd).
Proof.
  intros [B A] NZ CAP V.
  set (C := stack_top (sdata g) (sidx g)) in *.
  assert (L : live g = livel (sdata g) (sidx g - 1) ++ [C]).
  { unfold live, livel, C, stack_top. rewrite jget_in_range by lia.
    replace (Z.to_nat (sidx g)) with (S (Z.to_nat (sidx g - 1))) by lia.
    apply firstn_succ_nth. unfold zlen in *. lia. }
  rewrite L in A. set (S0 := livel (sdata g) (sidx g - 1)) in *.
  unfold valid_pair in V. cbn [fst snd] in V.
  unfold split_next. fold C.
  change (znth 0 C 0) with (cx C) in *. change (znth 0 C 1) with (cy C) in *.
  change (znth 0 C 2) with (cw C) in *. change (znth 0 C 3) with (chh C) in *.
  destruct (chh C <=? cw C) eqn:D; apply andb_true_iff in V as [V1 V2].
  - pose proof (cc_live (sdata g, sidx g - 1) (cx C) (cy C) wd (chh C)) as P1. cbn [fst snd] in P1.
    destruct P1 as (P1 & Z1 & I1); [lia|].
    set (st1 := create_chamber (sdata g, sidx g - 1) (cx C) (cy C) wd (chh C)) in *.
    pose proof (cc_live st1 (cx C + wd + 1) (cy C) (cw C - wd - 1) (chh C)) as P2.
    destruct P2 as (P2 & Z2 & I2); [lia|].
    set (st2 := create_chamber st1 (cx C + wd + 1) (cy C) (cw C - wd - 1) (chh C)) in *.
    split; cbn [maze sdata sidx]; [lia|]. unfold live. cbn [sdata sidx]. rewrite P2, P1, <- app_assoc.
    apply hsplit_AInv; auto. lia.
  - pose proof (cc_live (sdata g, sidx g - 1) (cx C) (cy C) (cw C) wd) as P1. cbn [fst snd] in P1.
    destruct P1 as (P1 & Z1 & I1); [lia|].
    set (st1 := create_chamber (sdata g, sidx g - 1) (cx C) (cy C) (cw C) wd) in *.
    pose proof (cc_live st1 (cx C) (cy C + wd + 1) (cw C) (chh C - wd - 1)) as P2.
    destruct P2 as (P2 & Z2 & I2); [lia|].
    set (st2 := create_chamber st1 (cx C) (cy C + wd + 1) (cw C) (chh C - wd - 1)) in *.
    split; cbn [maze sdata sidx]; [lia|]. unfold live. cbn [sdata sidx]. rewrite P2, P1, <- app_assoc.
    apply vsplit_AInv; auto. lia.
Qed.

Lemma gen_loop_R draws : forall g,
  RInv g -> draws_valid g draws = true -> cap_ok g draws = true -> RInv (fst (gen_loop g draws)).
Proof.
  induction draws as [|d r IH]; intros g R V K; cbn [gen_loop draws_valid cap_ok] in *; auto.
  destruct (sidx g =? 0) eqn:E; auto.
  apply andb_true_iff in V as [V1 V2]. apply andb_true_iff in K as [K1 K2].
  apply IH; auto. apply split_next_R; auto; try lia; destruct d; exact V1.
Qed.

(* with an empty stack the links are joins: every free cell is reachable from the origin *)
Lemma ecell_free m p : GridOK rows cols m -> ecell rows cols p -> free rows cols m (fst p) (snd p).
Proof. intros [W EF] ((A & B) & E1 & E2). split; [lia|split; [lia|apply EF; auto]]. Qed.

Lemma elink_reach m p q : GridOK rows cols m -> elink rows cols m [] p q -> reach rows cols m p q.
Proof.
  intros G L. induction L as [r c E1 E2 F | r c E1 E2 F | ch p q I | p q L IH].
  - pose proof (ecell_free m _ G E1) as F1. pose proof (ecell_free m _ G E2) as F2.
    destruct E1 as (G1 & _), E2 as (G2 & _). unfold ing in *. cbn [fst snd] in *.
    assert (FM : free rows cols m r (c + 1)) by (split; [lia|split; [lia|exact F]]).
    apply (reach_step _ _ _ (r, c) (r, c + 1)); cbn [fst snd]; auto; [unfold adj4; cbn [fst snd]; lia|].
    apply reach_one; cbn [fst snd]; auto. unfold adj4; cbn [fst snd]; lia.
  - pose proof (ecell_free m _ G E1) as F1. pose proof (ecell_free m _ G E2) as F2.
    destruct E1 as (G1 & _), E2 as (G2 & _). unfold ing in *. cbn [fst snd] in *.
    assert (FM : free rows cols m (r + 1) c) by (split; [lia|split; [lia|exact F]]).
    apply (reach_step _ _ _ (r, c) (r + 1, c)); cbn [fst snd]; auto; [unfold adj4; cbn [fst snd]; lia|].
    apply reach_one; cbn [fst snd]; auto. unfold adj4; cbn [fst snd]; lia.
  - destruct I.
  - apply reach_sym; auto.
Qed.

Lemma epath_reach m p q :
  GridOK rows cols m -> free rows cols m (fst p) (snd p) -> epath rows cols m [] p q -> reach rows cols m p q.
Proof.
  intros G F P. induction P as [p | p q t L P IH]; [apply reach_refl; auto|].
  pose proof (elink_reach m p q G L) as R. eapply reach_trans; [exact R|]. apply IH. eapply reach_free_r; eauto.
Qed.

Theorem AInv_nil_Connected m : 0 < rows -> 0 < cols -> AInv rows cols m [] -> Connected rows cols m.
Proof.
  intros Hr Hc A. pose proof (ai_grid _ _ _ _ A) as G. destruct G as [W EF].
  assert (F0 : free rows cols m 0 0) by (split; [lia|split; [lia|apply EF; auto; lia]]).
  split; auto. intros r c F. pose proof F as (Gr & Gc & Fv).
  assert (EC : forall a b, 0 <= a < rows -> 0 <= b < cols -> Z.even a = true -> Z.even b = true ->
               reach rows cols m (0, 0) (a, b)).
  { intros a b Ga Gb Ea Eb. apply epath_reach; [split; auto | exact F0 |].
    apply (ai_conn _ _ _ _ A). unfold ecell, ing. cbn [fst snd]. auto. }
  destruct (Z.even r) eqn:Er, (Z.even c) eqn:Ec.
  - apply EC; auto.
  - rewrite even_mod in Er, Ec.
    assert (E' : Z.even (c - 1) = true) by (rewrite even_mod; lia).
    eapply reach_trans; [apply (EC r (c - 1)); auto; try lia; rewrite even_mod; lia|].
    apply reach_one; cbn [fst snd]; auto; [split; [lia|split; [lia|apply EF; auto; try lia; rewrite even_mod; lia]] | unfold adj4; cbn; lia].
  - rewrite even_mod in Er, Ec.
    assert (E' : Z.even (r - 1) = true) by (rewrite even_mod; lia).
    eapply reach_trans; [apply (EC (r - 1) c); auto; try lia; rewrite even_mod; lia|].
    apply reach_one; cbn [fst snd]; auto; [split; [lia|split; [lia|apply EF; auto; try lia; rewrite even_mod; lia]] | unfold adj4; cbn; lia].
  - exfalso. destruct (ai_odd _ _ _ _ A (r, c)) as (ch & [] & _); unfold ing, cellv; cbn [fst snd]; auto.
    + rewrite <- Z.negb_even, Er. reflexivity.
    + rewrite <- Z.negb_even, Ec. reflexivity.
Qed.
End Refine.

Lemma gat_repeat_false w h r c : 0 <= r < h -> 0 <= c < w ->
  gat true (repeat (repeat false (Z.to_nat w)) (Z.to_nat h)) r c = false.
Proof.
  intros Hr Hc. unfold gat. rewrite !znth_nth by lia.
  rewrite (nth_repeat_any _ []) by lia. apply nth_repeat_any. lia.
Qed.

Lemma gen_start_R width height :
  1 <= width -> 1 <= height -> (2 <= width \/ 2 <= height) -> RInv height width (gen_start width height).
Proof.
  intros Hw Hh D.
  pose proof (gen_start_ok width height ltac:(lia) ltac:(lia)) as [G _].
  assert (LV : live (gen_start width height) = [[0; 0; width; height]]).
  { unfold live, livel, gen_start, stack_push. cbn [sdata sidx fst snd].
    rewrite jset_in_range by (unfold zlen; rewrite repeat_length; nia).
    change (Z.to_nat (0 + 1)) with 1%nat. change (Z.to_nat 0) with 0%nat.
    destruct (Z.to_nat (width * height)) eqn:E; [nia|]. reflexivity. }
  split.
  - unfold gen_start, stack_push. cbn [sdata sidx fst snd]. unfold zlen. rewrite jset_length, repeat_length. nia.
  - rewrite LV. unfold gen_start. cbn [maze] in *.
    assert (RI : forall p, ing height width p -> inC [0; 0; width; height] p).
    { intros [r c] [A B]. rewrite inC_mk. cbn [fst snd] in *. lia. }
    constructor; auto.
    + constructor; auto. rewrite ChGood_mk. repeat split; auto; lia.
    + constructor; auto. intros [r c] I. rewrite inC_mk in I. cbn [fst snd] in I. unfold cellv. cbn [fst snd].
      apply gat_repeat_false; lia.
    + cbn. split; auto. intros b [].
    + intros p E. apply epath_one. apply (el_c _ _ _ _ [0; 0; width; height]); cbn; auto.
      * unfold ecell, ing. cbn. repeat split; auto; lia.
      * apply RI. unfold ing. cbn. lia.
      * apply RI. apply E.
    + intros p I _ _ _. exists [0; 0; width; height]. split; cbn; auto.
Qed.

(* C10, all sizes, all valid draws: when the loop has emptied the stack (and never overflowed its array),
   the generated maze is Connected: origin free, every free cell reachable from (0,0). *)
Theorem generate_maze_connected width height draws :
  1 <= width -> 1 <= height -> (2 <= width \/ 2 <= height) ->
  draws_valid (gen_start width height) draws = true ->
  cap_ok (gen_start width height) draws = true ->
  sidx (fst (generate_maze width height draws)) = 0 ->
  Connected height width (maze (fst (generate_maze width height draws))).
Proof.
  intros Hw Hh D V K Z.
  pose proof (gen_loop_R height width draws _ (gen_start_R width height Hw Hh D) V K) as [_ A].
  unfold generate_maze in *. unfold live, livel in A. rewrite Z in A. cbn [Z.to_nat firstn] in A.
  apply AInv_nil_Connected; auto; lia.
Qed.
