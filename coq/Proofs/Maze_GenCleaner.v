(* Cleaner on top of the shared recursive-division generator: the grid of the reset state built from ANY generated maze
   (generator.py: maze = generate_maze(num_cols, num_rows, key); grid = _adapt_values(maze); grid[0,0] = CLEAN) has
   every non-wall cell reachable from the agents' start (0,0) by a sequence of legal moves -- for all sizes and all
   valid draw sequences (unconditional; uses Proofs/Maze_GenTotal.v).
   This file bridges two models (MazeGen's boolean maze / Cleaner's integer grid); Cleaner names are qualified. *)
Require Import JV.Base.Prelude JV.Base.JaxIndex JV.Base.Codec JV.Base.TimeStep JV.Model.MazeGen JV.Proofs.MazeGen JV.Proofs.MazeGenConn JV.Proofs.Maze_GenTotal.
Require JV.Model.Cleaner JV.Proofs.Cleaner.
Module CM := JV.Model.Cleaner.
Module CP := JV.Proofs.Cleaner.

(* the int8 maze (EMPTY = 0, WALL = 1) handed to the Cleaner generator *)
Definition zmaze (w : list (list bool)) : list (list Z) := map (map b2z) w.

Lemma zlen_map' {A B} (f : A -> B) l : zlen (map f l) = zlen l.
Proof. unfold zlen. rewrite map_length. reflexivity. Qed.

Lemma zmaze_dims R C w : wf_walls R C w -> CM.dims (zmaze w) R C.
Proof.
  intros [L F]. split; [unfold zmaze; rewrite zlen_map'; exact L|].
  apply Forall_forall. intros row Hr. apply in_map_iff in Hr as [r0 [E I]]. subst row. rewrite zlen_map'.
  rewrite Forall_forall in F. apply F. exact I.
Qed.

Lemma zmaze_ok w : Forall (Forall CP.maze_ok) (zmaze w).
Proof.
  apply Forall_forall. intros row Hr. apply in_map_iff in Hr as [r0 [E I]]. subst row.
  apply Forall_forall. intros v Hv. apply in_map_iff in Hv as [b [E _]]. subst v. unfold CP.maze_ok. destruct b; cbn; auto.
Qed.

Lemma gat_zmaze R C w r k : wf_walls R C w -> 0 <= r < R -> 0 <= k < C -> gat 0 (zmaze w) r k = b2z (gat true w r k).
Proof.
  intros W Hr Hk. pose proof W as [L F]. pose proof (wf_row R C w r W Hr) as Lr.
  unfold gat, zmaze. rewrite !znth_nth by lia.
  rewrite (nth_indep _ [] (map b2z [])) by (rewrite map_length; unfold zlen in L; lia).
  rewrite map_nth. rewrite znth_nth in Lr by lia.
  rewrite (nth_indep _ 0 (b2z true)) by (rewrite map_length; unfold zlen in Lr; lia).
  rewrite map_nth. reflexivity.
Qed.

Section Bridge.
Variables (c : CM.cfg) (w : list (list bool)).
Let R := CM.rows c.
Let C := CM.cols c.
Let g := CM.grid (fst (CM.init c (zmaze w))).
Hypothesis W : wf_walls R C w.
Hypothesis F0 : free R C w 0 0.

Lemma init_free r k : free R C w r k -> 0 <= r < R /\ 0 <= k < C /\ CM.free g r k = true.
Proof.
  intros (Hr & Hk & V). split; auto. split; auto. unfold CM.free, g.
  rewrite (CP.C10_init_cells c (zmaze w) r k (zmaze_dims R C w W) (zmaze_ok w) Hr Hk).
  destruct ((r =? 0) && (k =? 0)); [reflexivity|].
  rewrite (gat_zmaze R C w r k W Hr Hk), V. reflexivity.
Qed.

Lemma init_nonwall r k : 0 <= r < R -> 0 <= k < C -> gat 0 g r k <> CM.WALL -> free R C w r k.
Proof.
  intros Hr Hk NW. split; auto. split; auto. unfold g in NW.
  rewrite (CP.C10_init_cells c (zmaze w) r k (zmaze_dims R C w W) (zmaze_ok w) Hr Hk) in NW.
  destruct ((r =? 0) && (k =? 0)) eqn:E.
  - assert (r = 0 /\ k = 0) as [-> ->] by lia. apply F0.
  - rewrite (gat_zmaze R C w r k W Hr Hk) in NW. destruct (gat true w r k); [|reflexivity].
    exfalso. apply NW. reflexivity.
Qed.

(* a path of free cells of the maze is a sequence of legal Cleaner moves *)
Lemma reach_bridge p t : reach R C w p t -> CP.reach R C g p -> CP.reach R C g t.
Proof.
  induction 1 as [p Fp | p q t Fp A Hq IH]; auto.
  intro Rp. apply IH.
  pose proof (reach_free_l _ _ _ _ _ Hq) as Fq. destruct (init_free _ _ Fq) as (Qr & Qk & Qf).
  destruct p as [pr pc], q as [qr qc]. unfold adj4 in A. cbn [fst snd] in *.
  assert (Cs : (qr = pr - 1 /\ qc = pc) \/ (qr = pr /\ qc = pc + 1) \/ (qr = pr + 1 /\ qc = pc) \/ (qr = pr /\ qc = pc - 1)) by lia.
  destruct Cs as [[E1 E2]|[[E1 E2]|[[E1 E2]|[E1 E2]]]]; subst qr qc.
  - apply (CP.reach_nbr R C g _ _ pr pc 0); auto; try lia. unfold CM.padd, CM.dir. cbn. f_equal; lia.
  - apply (CP.reach_nbr R C g _ _ pr pc 1); auto; try lia. unfold CM.padd, CM.dir. cbn. f_equal; lia.
  - apply (CP.reach_nbr R C g _ _ pr pc 2); auto; try lia. unfold CM.padd, CM.dir. cbn. f_equal; lia.
  - apply (CP.reach_nbr R C g _ _ pr pc 3); auto; try lia. unfold CM.padd, CM.dir. cbn. f_equal; lia.
Qed.

Theorem connected_all_reachable :
  Connected R C w -> forall r k, 0 <= r < R -> 0 <= k < C -> gat 0 g r k <> CM.WALL -> CP.reach R C g (r, k).
Proof.
  intros [_ Cn] r k Hr Hk NW.
  apply (reach_bridge (0, 0)); [apply Cn; apply init_nonwall; auto|].
  destruct (init_free 0 0 F0) as (A & B & Fr). apply CP.reach_start; [lia|lia|exact Fr].
Qed.
End Bridge.

(* C10 Cleaner, unconditional: every instance produced from the recursive-division generator satisfies the reset
   invariant and has EVERY non-wall tile reachable from the start by legal moves (so it can be cleaned entirely) *)
Theorem cleaner_generated_all_reachable c draws :
  1 <= CM.rows c -> 1 <= CM.cols c ->
  draws_valid (gen_start (CM.cols c) (CM.rows c)) draws = true -> gen_fuel (CM.cols c) (CM.rows c) <= zlen draws ->
  let mz := zmaze (maze (fst (generate_maze (CM.cols c) (CM.rows c) draws))) in
  let s := fst (CM.init c mz) in
  CM.dims mz (CM.rows c) (CM.cols c) /\ Forall (Forall CP.maze_ok) mz
  /\ forall r k, 0 <= r < CM.rows c -> 0 <= k < CM.cols c -> gat 0 (CM.grid s) r k <> CM.WALL ->
                 CP.reach (CM.rows c) (CM.cols c) (CM.grid s) (r, k).
Proof.
  intros Hr Hc V L mz s.
  destruct (generate_maze_connected_total _ _ draws Hc Hr V L) as [_ Cn].
  destruct (generate_maze_even_free (CM.cols c) (CM.rows c) draws ltac:(lia) ltac:(lia) V) as [W _].
  split; [apply zmaze_dims; exact W|]. split; [apply zmaze_ok|].
  apply connected_all_reachable; auto. apply Cn.
Qed.
