(* The recursive-division generator is TOTAL and never overflows its fixed-capacity chamber stack
   (jumanji/environments/commons/maze_utils: create_chambers_stack allocates width*height rows).
   Measure: total area (width*height) of the live chambers.  It starts at width*height = the capacity, every
   live chamber has area >= 2, and one iteration replaces the popped chamber (w x h, split along its longer side)
   by sub-chambers of total area <= (w-1)*h resp. w*(h-1): the measure drops by at least 1 per iteration.
   Hence  (1) #live chambers <= capacity/2, so the two pushes of an iteration always fit ([cap_ok] holds);
          (2) the loop stops with an empty stack after at most width*height iterations; a finer measure
              ((w/2)*(h/2) per chamber) gives the tight fuel max 1 ((width/2)*(height/2)) ([gen_fuel]);
          (3) with Proofs/MazeGenConn.v: every generated maze is Connected -- unconditionally.               *)
Require Import JV.Base.Prelude JV.Base.JaxIndex JV.Base.Codec JV.Base.TimeStep JV.Model.MazeGen JV.Model.Maze JV.Proofs.MazeGen JV.Proofs.MazeGenConn JV.Proofs.Maze.

Definition area (ch : list Z) : Z := cw ch * chh ch.
Fixpoint sum_area (S : list (list Z)) : Z := match S with [] => 0 | ch :: r => area ch + sum_area r end.

Lemma sum_area_app a b : sum_area (a ++ b) = sum_area a + sum_area b.
Proof. induction a as [|x a IH]; cbn [app sum_area]; lia. Qed.

(* the sub-chambers pushed when chamber C is split with wall offset wd *)
Definition children (C : list Z) (wd : Z) : list (list Z) :=
  if chh C <=? cw C then
    (if (1 <? wd) && (1 <? chh C) then [[cx C; cy C; wd; chh C]] else [])
    ++ (if (1 <? cw C - wd - 1) && (1 <? chh C) then [[cx C + wd + 1; cy C; cw C - wd - 1; chh C]] else [])
  else
    (if (1 <? cw C) && (1 <? wd) then [[cx C; cy C; cw C; wd]] else [])
    ++ (if (1 <? cw C) && (1 <? chh C - wd - 1) then [[cx C; cy C + wd + 1; cw C; chh C - wd - 1]] else []).

Lemma area_mk a b c d : area [a; b; c; d] = c * d.
Proof. reflexivity. Qed.

Section Total.
Variables (rows cols : Z).

Lemma area_ge2 ch : ChGood rows cols ch -> 2 <= area ch.
Proof. unfold ChGood, area. intros (_ & _ & _ & _ & _ & _ & _ & _ & A & B & D). nia. Qed.

Lemma sum_area_ge S : Forall (ChGood rows cols) S -> 2 * zlen S <= sum_area S.
Proof.
  induction 1 as [|ch S G F IH]; [cbn; lia|].
  cbn [sum_area]. pose proof (area_ge2 ch G). unfold zlen in *. cbn [length]. lia.
Qed.

(* one iteration strictly decreases the total area *)
Lemma children_area C wd pd :
  ChGood rows cols C -> valid_pair C (wd, pd) = true -> sum_area (children C wd) + 1 <= area C.
Proof.
  intros (_ & _ & _ & _ & _ & _ & _ & _ & W1 & H1 & D) V.
  unfold valid_pair in V. cbn [fst snd] in V.
  change (znth 0 C 2) with (cw C) in V. change (znth 0 C 3) with (chh C) in V.
  unfold children, area. set (w := cw C) in *. set (h := chh C) in *.
  destruct (h <=? w) eqn:E; apply andb_true_iff in V as [V1 _]; unfold valid_odd in V1;
    apply andb_true_iff in V1 as [V1 V1c]; apply andb_true_iff in V1 as [_ V1b].
  - assert (B : 1 <= wd <= w - 1) by lia.
    rewrite sum_area_app.
    destruct ((1 <? wd) && (1 <? h)); destruct ((1 <? w - wd - 1) && (1 <? h));
      cbn [sum_area]; rewrite ?area_mk; nia.
  - assert (B : 1 <= wd <= h - 1) by lia.
    rewrite sum_area_app.
    destruct ((1 <? w) && (1 <? wd)); destruct ((1 <? w) && (1 <? h - wd - 1));
      cbn [sum_area]; rewrite ?area_mk; nia.
Qed.

(* the array stack after one iteration, as a list of live chambers *)
Lemma split_next_live g wd pd :
  0 <= sidx g <= zlen (sdata g) -> sidx g <> 0 -> sidx g + 1 <= zlen (sdata g) ->
  let C := stack_top (sdata g) (sidx g) in
  live g = livel (sdata g) (sidx g - 1) ++ [C]
  /\ live (split_next g wd pd) = livel (sdata g) (sidx g - 1) ++ children C wd
  /\ zlen (sdata (split_next g wd pd)) = zlen (sdata g).
Proof.
  intros B NZ CAP C.
  assert (L : live g = livel (sdata g) (sidx g - 1) ++ [C]).
  { unfold live, livel, C, stack_top. rewrite jget_in_range by lia.
    replace (Z.to_nat (sidx g)) with (S (Z.to_nat (sidx g - 1))) by lia.
    apply firstn_succ_nth. unfold zlen in *. lia. }
  split; [exact L|].
  unfold split_next, children. fold C.
  change (znth 0 C 0) with (cx C) in *. change (znth 0 C 1) with (cy C) in *.
  change (znth 0 C 2) with (cw C) in *. change (znth 0 C 3) with (chh C) in *.
  destruct (chh C <=? cw C) eqn:D.
  - pose proof (cc_live (sdata g, sidx g - 1) (cx C) (cy C) wd (chh C)) as P1. cbn [fst snd] in P1.
    destruct P1 as (P1 & Z1 & I1); [lia|].
    set (st1 := create_chamber (sdata g, sidx g - 1) (cx C) (cy C) wd (chh C)) in *.
    pose proof (cc_live st1 (cx C + wd + 1) (cy C) (cw C - wd - 1) (chh C)) as P2.
    destruct P2 as (P2 & Z2 & I2); [lia|].
    set (st2 := create_chamber st1 (cx C + wd + 1) (cy C) (cw C - wd - 1) (chh C)) in *.
    unfold live. cbn [maze sdata sidx]. rewrite P2, P1, <- app_assoc. split; [reflexivity | lia].
  - pose proof (cc_live (sdata g, sidx g - 1) (cx C) (cy C) (cw C) wd) as P1. cbn [fst snd] in P1.
    destruct P1 as (P1 & Z1 & I1); [lia|].
    set (st1 := create_chamber (sdata g, sidx g - 1) (cx C) (cy C) (cw C) wd) in *.
    pose proof (cc_live st1 (cx C) (cy C + wd + 1) (cw C) (chh C - wd - 1)) as P2.
    destruct P2 as (P2 & Z2 & I2); [lia|].
    set (st2 := create_chamber st1 (cx C) (cy C + wd + 1) (cw C) (chh C - wd - 1)) in *.
    unfold live. cbn [maze sdata sidx]. rewrite P2, P1, <- app_assoc. split; [reflexivity | lia].
Qed.

Lemma live_len g : 0 <= sidx g <= zlen (sdata g) -> zlen (live g) = sidx g.
Proof. intro B. unfold live, livel, zlen in *. rewrite firstn_length. lia. Qed.

(* invariant: the connectivity invariant + the area budget against the fixed capacity [cap] *)
Definition TInv (cap : Z) (g : gstate) : Prop :=
  RInv rows cols g /\ zlen (sdata g) = cap /\ sum_area (live g) <= cap.

(* (1) the budget implies that the two pushes of the next iteration fit *)
Lemma TInv_room cap g : 2 <= cap -> TInv cap g -> sidx g + 1 <= zlen (sdata g).
Proof.
  intros C2 ((B & A) & Z & M).
  pose proof (sum_area_ge (live g) (ai_good _ _ _ _ A)) as G. rewrite live_len in G by lia. lia.
Qed.

Lemma TInv_pos cap g : TInv cap g -> sidx g <> 0 -> 2 <= sum_area (live g).
Proof.
  intros ((B & A) & Z & M) NZ.
  pose proof (sum_area_ge (live g) (ai_good _ _ _ _ A)) as G. rewrite live_len in G by lia. lia.
Qed.

Lemma TInv_step cap g wd pd :
  2 <= cap -> TInv cap g -> sidx g <> 0 -> valid_pair (stack_top (sdata g) (sidx g)) (wd, pd) = true ->
  TInv cap (split_next g wd pd) /\ sum_area (live (split_next g wd pd)) + 1 <= sum_area (live g).
Proof.
  intros C2 T NZ V. pose proof (TInv_room cap g C2 T) as CAP. destruct T as (R & Z & M).
  pose proof R as [B A].
  destruct (split_next_live g wd pd B NZ CAP) as (L1 & L2 & Z').
  assert (CG : ChGood rows cols (stack_top (sdata g) (sidx g))).
  { rewrite L1 in A. apply (AInv_top rows cols _ _ _ A). }
  pose proof (children_area _ wd pd CG V) as CA.
  assert (D : sum_area (live (split_next g wd pd)) + 1 <= sum_area (live g)).
  { rewrite L1, L2, !sum_area_app. cbn [sum_area]. lia. }
  split; [|exact D]. split; [apply split_next_R; auto|]. split; lia.
Qed.

Lemma gen_loop_T cap draws : forall g,
  2 <= cap -> TInv cap g -> draws_valid g draws = true ->
  cap_ok g draws = true
  /\ TInv cap (fst (gen_loop g draws))
  /\ (sum_area (live g) <= zlen draws -> sidx (fst (gen_loop g draws)) = 0).
Proof.
  induction draws as [|d r IH]; intros g C2 T V; cbn [gen_loop draws_valid cap_ok fst] in *.
  - split; auto. split; auto. intro M. destruct (Z.eq_dec (sidx g) 0) as [E|E]; auto.
    pose proof (TInv_pos cap g T E). unfold zlen in M. cbn [length] in M. lia.
  - destruct (sidx g =? 0) eqn:E; [cbn [fst]; split; [reflexivity|]; split; [exact T|]; intros _; lia|].
    apply andb_true_iff in V as [V1 V2]. destruct d as [wd pd]. cbn [fst snd] in *.
    destruct (TInv_step cap g wd pd C2 T ltac:(lia) V1) as [T' D].
    destruct (IH _ C2 T' V2) as (K & T'' & F).
    split; [|split; auto].
    + pose proof (TInv_room cap g C2 T). rewrite K. replace (sidx g + 1 <=? zlen (sdata g)) with true by lia. reflexivity.
    + intro M. apply F. unfold zlen in *. cbn [length] in M. lia.
Qed.
End Total.

Lemma gen_start_T width height :
  1 <= width -> 1 <= height -> (2 <= width \/ 2 <= height) ->
  TInv height width (width * height) (gen_start width height) /\ sum_area (live (gen_start width height)) = width * height.
Proof.
  intros Hw Hh D.
  assert (LV : live (gen_start width height) = [[0; 0; width; height]]).
  { unfold live, livel, gen_start, stack_push. cbn [sdata sidx fst snd].
    rewrite jset_in_range by (unfold zlen; rewrite repeat_length; nia).
    change (Z.to_nat (0 + 1)) with 1%nat.
    destruct (Z.to_nat (width * height)) eqn:E; [nia|]. reflexivity. }
  assert (SA : sum_area (live (gen_start width height)) = width * height).
  { rewrite LV. cbn [sum_area]. rewrite area_mk. lia. }
  split; [|exact SA]. split; [apply gen_start_R; auto|]. split; [|lia].
  unfold gen_start, stack_push. cbn [sdata fst]. unfold zlen. rewrite jset_length, repeat_length. nia.
Qed.

(* (1) the chamber stack never overflows: for every size except 1x1 and every sequence of valid draws *)
Theorem generate_maze_cap_ok width height draws :
  1 <= width -> 1 <= height -> (2 <= width \/ 2 <= height) ->
  draws_valid (gen_start width height) draws = true -> cap_ok (gen_start width height) draws = true.
Proof.
  intros Hw Hh D V. destruct (gen_start_T width height Hw Hh D) as [T _].
  apply (gen_loop_T height width (width * height) draws _ ltac:(nia) T V).
Qed.

(* (2) termination: width*height draws always suffice to empty the stack *)
Theorem generate_maze_terminates width height draws :
  1 <= width -> 1 <= height -> (2 <= width \/ 2 <= height) ->
  draws_valid (gen_start width height) draws = true -> width * height <= zlen draws ->
  sidx (fst (generate_maze width height draws)) = 0.
Proof.
  intros Hw Hh D V L. destruct (gen_start_T width height Hw Hh D) as [T SA].
  apply (gen_loop_T height width (width * height) draws _ ltac:(nia) T V). lia.
Qed.

(* the degenerate 1x1 grid: capacity 1; the single iteration pops the 1x1 chamber, its wall and passage writes fall
   outside the grid (dropped scatters), nothing is pushed.  [cap_ok] (which conservatively reserves room for two
   pushes) is false here although nothing overflows; the maze is the single free cell. *)
Lemma generate_maze_1x1 draws :
  draws_valid (gen_start 1 1) draws = true -> 1 <= zlen draws ->
  sidx (fst (generate_maze 1 1 draws)) = 0 /\ maze (fst (generate_maze 1 1 draws)) = [[false]].
Proof.
  destruct draws as [|[wd pd] r]; [unfold zlen; cbn; lia|]. intros V _.
  cbn [draws_valid] in V. change (sidx (gen_start 1 1) =? 0) with false in V. cbv iota in V.
  apply andb_true_iff in V as [V _].
  assert (E : wd = 1 /\ pd = 0).
  { change (stack_top (sdata (gen_start 1 1)) (sidx (gen_start 1 1))) with [0; 0; 1; 1] in V.
    unfold valid_pair in V. cbn [fst snd] in V. change (znth 0 [0; 0; 1; 1] 2) with 1 in V.
    change (znth 0 [0; 0; 1; 1] 3) with 1 in V. change (1 <=? 1) with true in V. cbv iota in V.
    unfold valid_odd, valid_even in V. change (1 / 2) with 0 in V. change ((1 + 1) / 2) with 1 in V.
    apply andb_true_iff in V as [V1 V2]. apply andb_true_iff in V1 as [V1 V1c]. apply andb_true_iff in V1 as [_ V1b].
    apply andb_true_iff in V2 as [V2 V2c]. apply andb_true_iff in V2 as [_ V2b]. lia. }
  destruct E as [-> ->]. unfold generate_maze. cbn [gen_loop fst snd].
  change (sidx (gen_start 1 1) =? 0) with false. cbv iota.
  assert (G : split_next (gen_start 1 1) 1 0 = mkG [[false]] [[0; 0; 1; 1]] 0) by (vm_compute; reflexivity).
  rewrite G. destruct r; cbn [gen_loop sidx maze fst]; auto.
Qed.

(* the form instantiated by recorded runs (exactly as many draws as the real loop made iterations): whenever the
   loop has emptied the stack the maze is Connected -- no capacity hypothesis, every size *)
Theorem generate_maze_connected_finished width height draws :
  1 <= width -> 1 <= height ->
  draws_valid (gen_start width height) draws = true ->
  sidx (fst (generate_maze width height draws)) = 0 ->
  Connected height width (maze (fst (generate_maze width height draws))).
Proof.
  intros Hw Hh V Z0.
  destruct (Z_le_gt_dec 2 width) as [A|A]; [|destruct (Z_le_gt_dec 2 height) as [B|B]].
  - apply generate_maze_connected; auto. apply generate_maze_cap_ok; auto.
  - apply generate_maze_connected; auto. apply generate_maze_cap_ok; auto.
  - assert (width = 1) by lia. assert (height = 1) by lia. subst.
    destruct draws as [|d r]; [vm_compute in Z0; discriminate|].
    destruct (generate_maze_1x1 (d :: r) V ltac:(unfold zlen; cbn [length]; lia)) as [_ M]. rewrite M.
    apply connected_b_sound. vm_compute. reflexivity.
Qed.

(* ---------------- a tight fuel bound ---------------- *)
(* measure: (w/2)*(h/2) per live chamber.  Every pushed chamber has w, h >= 2 (create_chamber), an odd wall offset wd
   gives wd/2 + (w-wd-1)/2 = w/2 - 1, so one iteration on a chamber with w, h >= 2 lowers the measure by h/2 >= 1
   (resp. w/2).  A thin initial chamber (width or height 1) is popped by the first iteration and pushes nothing. *)
Definition hcells (ch : list Z) : Z := (cw ch / 2) * (chh ch / 2).
Fixpoint sum_h (S : list (list Z)) : Z := match S with [] => 0 | ch :: r => hcells ch + sum_h r end.
Definition Big (ch : list Z) : Prop := 2 <= cw ch /\ 2 <= chh ch.
Definition gen_fuel (width height : Z) : Z := Z.max 1 ((width / 2) * (height / 2)).

Lemma sum_h_app a b : sum_h (a ++ b) = sum_h a + sum_h b.
Proof. induction a as [|x a IH]; cbn [app sum_h]; lia. Qed.

Lemma hcells_mk a b c d : hcells [a; b; c; d] = (c / 2) * (d / 2).
Proof. reflexivity. Qed.
Lemma Big_mk a b c d : Big [a; b; c; d] <-> 2 <= c /\ 2 <= d.
Proof. reflexivity. Qed.

Lemma sum_h_ge S : Forall Big S -> zlen S <= sum_h S.
Proof.
  induction 1 as [|ch S [A B] F IH]; [cbn; lia|].
  cbn [sum_h]. unfold zlen in *. cbn [length]. unfold hcells.
  assert (1 <= cw ch / 2) by lia. assert (1 <= chh ch / 2) by lia. nia.
Qed.

Lemma children_big C wd : Forall Big (children C wd).
Proof.
  unfold children. destruct (chh C <=? cw C); apply Forall_app; split;
    match goal with |- Forall _ (if ?b then _ else _) => destruct b eqn:E end; constructor; auto;
    rewrite Big_mk; lia.
Qed.

Lemma children_thin C wd : cw C <= 1 \/ chh C <= 1 -> children C wd = [].
Proof.
  intro T. unfold children. destruct (chh C <=? cw C) eqn:E.
  - replace ((1 <? wd) && (1 <? chh C)) with false by lia.
    replace ((1 <? cw C - wd - 1) && (1 <? chh C)) with false by lia. reflexivity.
  - replace ((1 <? cw C) && (1 <? wd)) with false by lia.
    replace ((1 <? cw C) && (1 <? chh C - wd - 1)) with false by lia. reflexivity.
Qed.

Lemma children_h C wd pd : Big C -> valid_pair C (wd, pd) = true -> sum_h (children C wd) + 1 <= hcells C.
Proof.
  intros [W2 H2] V.
  unfold valid_pair in V. cbn [fst snd] in V.
  change (znth 0 C 2) with (cw C) in V. change (znth 0 C 3) with (chh C) in V.
  unfold children, hcells. set (w := cw C) in *. set (h := chh C) in *.
  destruct (h <=? w) eqn:E; apply andb_true_iff in V as [V1 _]; unfold valid_odd in V1;
    apply andb_true_iff in V1 as [V1 V1c]; apply andb_true_iff in V1 as [O1 V1b]; rewrite odd_mod in O1.
  - assert (B : 1 <= wd <= w - 1) by lia.
    assert (K : wd / 2 + (w - wd - 1) / 2 = w / 2 - 1) by lia.
    assert (0 <= wd / 2) by lia. assert (0 <= (w - wd - 1) / 2) by lia. assert (1 <= h / 2) by lia.
    rewrite sum_h_app.
    destruct ((1 <? wd) && (1 <? h)); destruct ((1 <? w - wd - 1) && (1 <? h));
      cbn [sum_h]; rewrite ?hcells_mk; nia.
  - assert (B : 1 <= wd <= h - 1) by lia.
    assert (K : wd / 2 + (h - wd - 1) / 2 = h / 2 - 1) by lia.
    assert (0 <= wd / 2) by lia. assert (0 <= (h - wd - 1) / 2) by lia. assert (1 <= w / 2) by lia.
    rewrite sum_h_app.
    destruct ((1 <? w) && (1 <? wd)); destruct ((1 <? w) && (1 <? h - wd - 1));
      cbn [sum_h]; rewrite ?hcells_mk; nia.
Qed.

Section Tight.
Variables (rows cols : Z).

Lemma gen_loop_tight cap draws : forall g,
  2 <= cap -> TInv rows cols cap g -> Forall Big (live g) -> draws_valid g draws = true ->
  sum_h (live g) <= zlen draws -> sidx (fst (gen_loop g draws)) = 0.
Proof.
  induction draws as [|d r IH]; intros g C2 T BG V M; cbn [gen_loop draws_valid fst] in *.
  - pose proof (sum_h_ge _ BG) as G. destruct T as ((B & _) & _). rewrite live_len in G by lia.
    unfold zlen in M. cbn [length] in M. lia.
  - destruct (sidx g =? 0) eqn:E; [cbn [fst]; lia|].
    apply andb_true_iff in V as [V1 V2]. destruct d as [wd pd]. cbn [fst snd] in *.
    destruct (TInv_step rows cols cap g wd pd C2 T ltac:(lia) V1) as [T' _].
    pose proof (TInv_room rows cols cap g C2 T) as CAP. pose proof T as ((B & _) & _).
    destruct (split_next_live g wd pd B ltac:(lia) CAP) as (L1 & L2 & _).
    rewrite L1 in BG. apply Forall_app in BG as [BG0 BGC]. inversion BGC as [|? ? BC _]; subst.
    pose proof (children_h _ wd pd BC V1) as CH.
    apply IH; auto.
    + rewrite L2. apply Forall_app. split; auto using children_big.
    + rewrite L2, sum_h_app. rewrite L1, sum_h_app in M. cbn [sum_h] in M. unfold zlen in *. cbn [length] in M. lia.
Qed.

(* a thin chamber alone on the stack: one iteration empties the stack *)
Lemma thin_one_step cap g wd pd C0 :
  2 <= cap -> TInv rows cols cap g -> live g = [C0] -> (cw C0 <= 1 \/ chh C0 <= 1) ->
  valid_pair (stack_top (sdata g) (sidx g)) (wd, pd) = true -> sidx (split_next g wd pd) = 0.
Proof.
  intros C2 T LV TH V. pose proof T as ((B & _) & _).
  assert (S1 : sidx g = 1) by (rewrite <- (live_len _ B), LV; reflexivity).
  destruct (TInv_step rows cols cap g wd pd C2 T ltac:(lia) V) as [T' _].
  pose proof (TInv_room rows cols cap g C2 T) as CAP.
  destruct (split_next_live g wd pd B ltac:(lia) CAP) as (L1 & L2 & _).
  replace (livel (sdata g) (sidx g - 1)) with (@nil (list Z)) in L1, L2 by (rewrite S1; reflexivity).
  rewrite LV in L1. cbn [app] in L1, L2. inversion L1 as [E]. rewrite <- E in L2.
  rewrite children_thin in L2 by exact TH.
  destruct T' as ((B' & _) & _). rewrite <- (live_len _ B'). rewrite L2. reflexivity.
Qed.
End Tight.

Lemma gen_start_live width height : 1 <= width -> 1 <= height -> live (gen_start width height) = [[0; 0; width; height]].
Proof.
  intros Hw Hh. unfold live, livel, gen_start, stack_push. cbn [sdata sidx fst snd].
  rewrite jset_in_range by (unfold zlen; rewrite repeat_length; nia).
  change (Z.to_nat (0 + 1)) with 1%nat.
  destruct (Z.to_nat (width * height)) eqn:E; [nia|]. reflexivity.
Qed.

Lemma gen_fuel_le width height : 1 <= width -> 1 <= height -> gen_fuel width height <= width * height.
Proof.
  intros Hw Hh. unfold gen_fuel. assert (0 <= width / 2 <= width) by lia. assert (0 <= height / 2 <= height) by lia. nia.
Qed.

(* (2') termination within the tight fuel max 1 ((width/2)*(height/2)), every size *)
Theorem generate_maze_terminates_tight width height draws :
  1 <= width -> 1 <= height ->
  draws_valid (gen_start width height) draws = true -> gen_fuel width height <= zlen draws ->
  sidx (fst (generate_maze width height draws)) = 0.
Proof.
  intros Hw Hh V L. pose proof (gen_start_live width height Hw Hh) as LV.
  destruct (Z_le_gt_dec 2 width) as [A|A]; [destruct (Z_le_gt_dec 2 height) as [B|B]|destruct (Z_le_gt_dec 2 height) as [B|B]].
  - (* both >= 2 *)
    destruct (gen_start_T width height Hw Hh (or_introl A)) as [T _].
    apply (gen_loop_tight height width (width * height) draws _ ltac:(nia) T); auto.
    + rewrite LV. constructor; auto. rewrite Big_mk. lia.
    + rewrite LV. cbn [sum_h]. rewrite hcells_mk. unfold gen_fuel in L. lia.
  - (* height = 1 *)
    destruct (gen_start_T width height Hw Hh (or_introl A)) as [T _].
    destruct draws as [|[wd pd] r]; [unfold gen_fuel, zlen in L; cbn [length] in L; lia|].
    unfold generate_maze. cbn [gen_loop draws_valid fst snd] in *.
    change (sidx (gen_start width height) =? 0) with false in *. cbv iota in *.
    apply andb_true_iff in V as [V1 _].
    assert (Z1 : sidx (split_next (gen_start width height) wd pd) = 0).
    { apply (thin_one_step height width (width * height) _ wd pd [0; 0; width; height]); auto; try nia.
      right. change (chh [0; 0; width; height]) with height. lia. }
    destruct r as [|e r]; cbn [gen_loop fst]; [exact Z1|]. rewrite Z1. cbn [Z.eqb fst]. exact Z1.
  - (* width = 1 *)
    destruct (gen_start_T width height Hw Hh (or_intror B)) as [T _].
    destruct draws as [|[wd pd] r]; [unfold gen_fuel, zlen in L; cbn [length] in L; lia|].
    unfold generate_maze. cbn [gen_loop draws_valid fst snd] in *.
    change (sidx (gen_start width height) =? 0) with false in *. cbv iota in *.
    apply andb_true_iff in V as [V1 _].
    assert (Z1 : sidx (split_next (gen_start width height) wd pd) = 0).
    { apply (thin_one_step height width (width * height) _ wd pd [0; 0; width; height]); auto; try nia.
      left. change (cw [0; 0; width; height]) with width. lia. }
    destruct r as [|e r]; cbn [gen_loop fst]; [exact Z1|]. rewrite Z1. cbn [Z.eqb fst]. exact Z1.
  - assert (width = 1) by lia. assert (height = 1) by lia. subst.
    apply generate_maze_1x1; [exact V|]. change (gen_fuel 1 1) with 1 in L. exact L.
Qed.

(* (3) C10, unconditional: for EVERY size >= 1x1 and EVERY sequence of valid draws of length >= gen_fuel width height
   (= max 1 ((width/2)*(height/2)) <= width*height) the loop finishes and the generated maze is Connected
   (origin free, every free cell reachable from it). *)
Theorem generate_maze_connected_total width height draws :
  1 <= width -> 1 <= height ->
  draws_valid (gen_start width height) draws = true -> gen_fuel width height <= zlen draws ->
  sidx (fst (generate_maze width height draws)) = 0
  /\ Connected height width (maze (fst (generate_maze width height draws))).
Proof.
  intros Hw Hh V L. pose proof (generate_maze_terminates_tight width height draws Hw Hh V L) as Z0.
  split; auto. apply generate_maze_connected_finished; auto.
Qed.

(* the conservative checker [cap_ok] (room for TWO pushes before every iteration) is false on 1x1 although the real
   stack (capacity 1) does not overflow: nothing is pushed by the only iteration *)
Lemma cap_ok_1x1_conservative : cap_ok (gen_start 1 1) [(1, 0)] = false /\ sidx (fst (generate_maze 1 1 [(1, 0)])) = 0.
Proof. vm_compute. split; reflexivity. Qed.

(* the loop consumes at most width*height draws: whatever follows is left over untouched *)
Lemma gen_loop_app draws : forall g extra,
  sidx (fst (gen_loop g draws)) = 0 -> fst (gen_loop g (draws ++ extra)) = fst (gen_loop g draws).
Proof.
  induction draws as [|d r IH]; intros g extra Z0; cbn [gen_loop app fst] in *.
  - destruct extra as [|e x]; cbn [gen_loop fst]; auto. rewrite Z0. reflexivity.
  - destruct (sidx g =? 0); auto.
Qed.

(* ---------------- Maze: reset on a generated maze ---------------- *)
(* RandomGenerator.__call__: walls = generate_maze(num_cols, num_rows, key); agent/target = two distinct free cells.
   For every size, every valid generator draws (>= gen_fuel cols rows of them) and every valid position draw, the reset state is
   Physical, the agent is not on the target and IS LINKED to it (a path of free cells exists). *)
Theorem generated_reset_linked rows cols draws i1 i2 :
  1 <= rows -> 1 <= cols ->
  draws_valid (gen_start cols rows) draws = true -> gen_fuel cols rows <= zlen draws ->
  let w := maze (fst (generate_maze cols rows draws)) in
  valid_draw rows cols w i1 i2 = true ->
  let s := fst (gen_init rows cols w i1 i2) in
  wf_walls rows cols w /\ Connected rows cols w
  /\ Physical rows cols s /\ ~ at_target s /\ sc s = 0 /\ linked rows cols s.
Proof.
  intros Hr Hc V L w VD s.
  destruct (generate_maze_connected_total cols rows draws Hc Hr V L) as [_ C]. fold w in C.
  destruct (generate_maze_even_free cols rows draws ltac:(lia) ltac:(lia) V) as [W _]. fold w in W.
  destruct (gen_init_wf rows cols w i1 i2 ltac:(lia) W VD) as (P & NT & S0 & K). fold s in P, NT, S0, K.
  destruct (K C) as [Lk _]. auto 10.
Qed.

(* hence (C11) an episode on a generated maze ends exactly on the target or at the time limit, never because the
   agent is walled in *)
Theorem generated_episode_limit rows cols T draws i1 i2 acts a :
  1 <= rows -> 1 <= cols ->
  draws_valid (gen_start cols rows) draws = true -> gen_fuel cols rows <= zlen draws ->
  let w := maze (fst (generate_maze cols rows draws)) in
  valid_draw rows cols w i1 i2 = true ->
  Forall (fun a => 0 <= a < 4) acts -> 0 <= a < 4 ->
  let s := run rows cols T (fst (gen_init rows cols w i1 i2)) acts in
  let n := zlen acts in
  let t := snd (step rows cols T s a) in
  (n + 1 = T -> st t = LAST) /\
  (n + 1 < T -> st t = LAST -> at_target (fst (step rows cols T s a))) /\
  (T <= n + 1 -> st t = LAST).
Proof.
  intros Hr Hc V L w VD F Ha.
  destruct (generated_reset_linked rows cols draws i1 i2 Hr Hc V L VD) as (_ & _ & P & _ & S0 & Lk).
  apply episode_limit; auto.
Qed.
