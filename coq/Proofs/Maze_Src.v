(* The Maze environment AS TRANSLATED FROM THE SOURCE (Gen/MazeSrc.v: step, _compute_action_mask, _observation_from_state, reset,
   Position.__eq__, MOVES) equals the hand model Model/Maze.v on every maze, state and action. *)
Require Import JV.Base.Prelude JV.Base.JaxIndex JV.Base.Codec JV.Base.TimeStep JV.Gen.TimeStepSrc JV.Gen.MazeSrc.
Require JV.Model.Maze.
Module M := JV.Model.Maze.

Definition conv (s : State) : M.state :=
  M.mkS (fst (s_agent_position s)) (snd (s_agent_position s)) (fst (s_target_position s)) (snd (s_target_position s))
        (s_walls s) (s_action_mask s) (s_step_count s).
Definition obs_flat (o : Observation) : list Z :=
  [fst (o_agent_position o); snd (o_agent_position o); fst (o_target_position o); snd (o_target_position o)]
  ++ concat (map unbools (o_walls o)) ++ [o_step_count o] ++ unbools (o_action_mask o).

Lemma moves_src : MOVES = M.MOVES.  Proof. reflexivity. Qed.

Lemma mask_src rows cols w p : compute_action_mask rows cols w p = M.compute_mask rows cols w (fst p) (snd p).
Proof.
  unfold compute_action_mask, M.compute_mask. rewrite moves_src. apply map_ext. intros [dr dc].
  unfold M.move_valid. cbn [fst snd]. rewrite !Z.geb_leb. reflexivity.
Qed.

Lemma switch_src (k : Z) (p : Z * Z) : 0 <= k <= 4 ->
  lax_switch k [(fun position : Z * Z => (fst position - 1, snd position)); (fun position => (fst position, snd position + 1));
                (fun position => (fst position + 1, snd position)); (fun position => (fst position, snd position - 1));
                (fun position => position)] (fun position => position) p
  = M.move (fst p) (snd p) k.
Proof.
  intros H. assert (K : k = 0 \/ k = 1 \/ k = 2 \/ k = 3 \/ k = 4) by lia.
  destruct p as [r c]. destruct K as [->|[->|[->|[->| ->]]]]; reflexivity.
Qed.

Lemma observe_src s : obs_flat (observation_from_state s) = M.observe (conv s).
Proof. reflexivity. Qed.

Theorem step_src rows cols T s a :
  let r := step rows cols T s a in
  conv (fst r) = fst (M.step rows cols T (conv s) a) /\ snd r = snd (M.step rows cols T (conv s) a).
Proof.
  cbv zeta. unfold step, M.step, M.effective_action.
  cbn [conv M.amask M.ar M.ac M.tr M.tc M.walls M.sc].
  set (a' := if jget false (s_action_mask s) a then a else 4).
  set (k := Z.max 0 (Z.min 4 a')).
  assert (Hk : 0 <= k <= 4) by (unfold k; lia).
  assert (E : lax_switch a' [(fun position : Z * Z => (fst position - 1, snd position)); (fun position => (fst position, snd position + 1));
                (fun position => (fst position + 1, snd position)); (fun position => (fst position, snd position - 1));
                (fun position => position)] (fun position => position) (s_agent_position s)
              = M.move (fst (s_agent_position s)) (snd (s_agent_position s)) k).
  { rewrite <- (switch_src k (s_agent_position s) Hk). unfold lax_switch.
    replace (zlen [(fun position : Z * Z => (fst position - 1, snd position)); (fun position => (fst position, snd position + 1));
                (fun position => (fst position + 1, snd position)); (fun position => (fst position, snd position - 1));
                (fun position : Z * Z => position)] - 1) with 4 by reflexivity.
    replace (Z.max 0 (Z.min 4 k)) with (Z.max 0 (Z.min 4 a')) by (unfold k; lia). reflexivity. }
  rewrite E. destruct (M.move (fst (s_agent_position s)) (snd (s_agent_position s)) k) as [r' c'] eqn:Em.
  cbn [fst snd s_agent_position s_target_position s_walls s_action_mask s_step_count conv].
  rewrite (mask_src rows cols (s_walls s) (r', c')). cbn [fst snd].
  unfold Position_eq. cbn [fst snd]. rewrite Z.geb_leb.
  set (mk := M.compute_mask rows cols (s_walls s) r' c').
  set (reached := (r' =? fst (s_target_position s)) && (c' =? snd (s_target_position s))).
  split; [reflexivity|].
  unfold cond_done, termination_src, transition_src, termination, transition, StepType_LAST, StepType_MID, LAST, MID.
  destruct (negb (existsb (fun b : bool => b) mk) || reached || (T <=? s_step_count s + 1)); reflexivity.
Qed.

Theorem reset_src rows cols s :
  let r := reset_from rows cols s in
  s_step_count s = 0 ->
  conv (fst r) = fst (M.init rows cols (s_walls s) (fst (s_agent_position s)) (snd (s_agent_position s))
                             (fst (s_target_position s)) (snd (s_target_position s)))
  /\ snd r = snd (M.init rows cols (s_walls s) (fst (s_agent_position s)) (snd (s_agent_position s))
                         (fst (s_target_position s)) (snd (s_target_position s))).
Proof.
  cbv zeta. intros H0. unfold reset_from, M.init. cbn [fst snd conv s_agent_position s_target_position s_walls s_action_mask s_step_count].
  rewrite mask_src, H0. split; reflexivity.
Qed.

(* ---- the Maze theorems, transferred to the translated source ---- *)
Require Import JV.Model.MazeGen JV.Proofs.MazeGen JV.Proofs.Maze.
Lemma src_step_follows_rules rows cols T s a :
  M.Physical rows cols (conv s) -> 0 <= a < 4 ->
  let r := step rows cols T s a in
  (conv (fst r), snd r) = M.rule_step rows cols T (conv s) a.
Proof.
  intros P Ha. cbv zeta. destruct (step_src rows cols T s a) as [E1 E2]. rewrite E1, E2.
  rewrite <- (step_eq_rule rows cols T (conv s) a P Ha). destruct (M.step rows cols T (conv s) a); reflexivity.
Qed.
Lemma src_mask_iff_legal rows cols T s a b :
  M.Physical rows cols (conv s) -> 0 <= a < 4 -> 0 <= b < 4 ->
  let s' := fst (step rows cols T s a) in
  (jget false (s_action_mask s') b = true <-> M.legal rows cols (s_walls s') (fst (s_agent_position s')) (snd (s_agent_position s')) b).
Proof.
  intros P Ha Hb. cbv zeta.
  assert (P' : M.Physical rows cols (conv (fst (step rows cols T s a)))).
  { destruct (step_src rows cols T s a) as [E1 _]. rewrite E1. apply step_Physical; assumption. }
  exact (mask_iff_legal rows cols (conv (fst (step rows cols T s a))) b P' Hb).
Qed.

(* C03 on the translated step: never FIRST, MID with discount 1 or LAST with discount 0 (no truncation) -- any state, any action *)
Lemma src_step_protocol rows cols T s a : step_ok 1 false (snd (step rows cols T s a)) = true.
Proof. destruct (step_src rows cols T s a) as [_ E]. rewrite E. exact (step_protocol rows cols T (conv s) a). Qed.

(* ---- whole runs of the translated step (any action sequence, played through) ---- *)
Fixpoint run_src (rows cols T : Z) (s : State) (acts : list Z) : State :=
  match acts with [] => s | a :: r => run_src rows cols T (fst (step rows cols T s a)) r end.
Lemma run_src_eq rows cols T acts : forall s, conv (run_src rows cols T s acts) = run rows cols T (conv s) acts.
Proof.
  induction acts as [|a r IH]; intros s; cbn [run_src run]; [reflexivity|].
  rewrite IH. destruct (step_src rows cols T s a) as [E1 _]. rewrite E1. reflexivity.
Qed.
(* C07: physical consistency along any in-spec action sequence of the translated step *)
Lemma src_run_Physical rows cols T acts s :
  M.Physical rows cols (conv s) -> Forall (fun a => 0 <= a < 4) acts -> M.Physical rows cols (conv (run_src rows cols T s acts)).
Proof. intros P F. rewrite run_src_eq. exact (run_Physical rows cols T acts (conv s) P F). Qed.
(* C11: an episode of the translated step from a fresh state ends exactly at the time limit unless the target is reached earlier *)
Lemma src_episode_limit rows cols T s0 acts a :
  M.Physical rows cols (conv s0) -> linked rows cols (conv s0) -> s_step_count s0 = 0 ->
  Forall (fun a => 0 <= a < 4) acts -> 0 <= a < 4 ->
  let s := run_src rows cols T s0 acts in
  let n := zlen acts in
  let t := snd (step rows cols T s a) in
  (n + 1 = T -> st t = LAST) /\
  (n + 1 < T -> st t = LAST -> at_target (conv (fst (step rows cols T s a)))) /\
  (T <= n + 1 -> st t = LAST).
Proof.
  intros P L H0 F Ha. cbv zeta.
  destruct (step_src rows cols T (run_src rows cols T s0 acts) a) as [E1 E2]. rewrite E1, E2, run_src_eq.
  exact (episode_limit rows cols T (conv s0) acts a P L H0 F Ha).
Qed.
(* C05: an in-spec action whose stored mask entry is False leaves everything but the step counter untouched *)
Lemma src_illegal_ignored rows cols T s a :
  M.Physical rows cols (conv s) -> 0 <= a < 4 -> jget false (s_action_mask s) a = false ->
  let s' := conv (fst (step rows cols T s a)) in
  let t := snd (step rows cols T s a) in
  M.ar s' = M.ar (conv s) /\ M.ac s' = M.ac (conv s) /\ M.tr s' = M.tr (conv s) /\ M.tc s' = M.tc (conv s) /\ M.walls s' = M.walls (conv s)
  /\ M.amask s' = M.amask (conv s) /\ M.sc s' = M.sc (conv s) + 1
  /\ reward t = [b2z ((M.ar (conv s) =? M.tr (conv s)) && (M.ac (conv s) =? M.tc (conv s)))]
  /\ (st t = LAST <-> ((M.ar (conv s) = M.tr (conv s) /\ M.ac (conv s) = M.tc (conv s)) \/ T <= M.sc (conv s) + 1
                       \/ forall k, 0 <= k < 4 -> ~ M.legal rows cols (M.walls (conv s)) (M.ar (conv s)) (M.ac (conv s)) k))
  /\ (st t = MID \/ st t = LAST).
Proof.
  intros P Ha Hm. cbv zeta. destruct (step_src rows cols T s a) as [E1 E2]. rewrite E1, E2.
  exact (illegal_ignored rows cols T (conv s) a P Ha Hm).
Qed.
