(* The Maze environment AS TRANSLATED FROM THE SOURCE (Gen/MazeSrc.v: step, _compute_action_mask, _observation_from_state, reset,
   Position.__eq__, MOVES) equals the hand model Model/Maze.v on every maze, state and action. *)
Require Import JV.Base.Prelude JV.Base.JaxIndex JV.Base.Codec JV.Base.TimeStep JV.Gen.TimeStepSrc JV.Gen.MazeSrc.
Require JV.Model.Maze.
Module M := JV.Model.Maze.

Definition conv (s : State) : M.state :=
  M.mkS (fst (s_agent_position s)) (snd (s_agent_position s)) (fst (s_target_position s)) (snd (s_target_position s))
        (s_walls s) (s_action_mask s) (s_step_count s).
Definition obs_flat (o : Observation) : list Z :=
  [fst (o_agent_position o); snd (o_agent_position o); fst (o_target_position o); snd (o_target_position o)]
  ++ concat (map unbools (o_walls o)) ++ [o_step_count o] ++ unbools (o_action_mask o).

Lemma moves_src : MOVES = M.MOVES.  Proof. reflexivity. Qed.

Lemma mask_src rows cols w p : compute_action_mask rows cols w p = M.compute_mask rows cols w (fst p) (snd p).
Proof.
  unfold compute_action_mask, M.compute_mask. rewrite moves_src. apply map_ext. intros [dr dc].
  unfold M.move_valid. cbn [fst snd]. rewrite !Z.geb_leb. reflexivity.
Qed.

Lemma switch_src (k : Z) (p : Z * Z) : 0 <= k <= 4 ->
  lax_switch k [(fun position : Z * Z => (fst position - 1, snd position)); (fun position => (fst position, snd position + 1));
                (fun position => (fst position + 1, snd position)); (fun position => (fst position, snd position - 1));
                (fun position => position)] (fun position => position) p
  = M.move (fst p) (snd p) k.
Proof.
  intros H. assert (K : k = 0 \/ k = 1 \/ k = 2 \/ k = 3 \/ k = 4) by lia.
  destruct p as [r c]. destruct K as [->|[->|[->|[->| ->]]]]; reflexivity.
Qed.

Lemma observe_src s : obs_flat (observation_from_state s) = M.observe (conv s).
Proof. reflexivity. Qed.

Theorem step_src rows cols T s a :
  let r := step rows cols T s a in
  conv (fst r) = fst (M.step rows cols T (conv s) a) /\ snd r = snd (M.step rows cols T (conv s) a).
Proof.
  cbv zeta. unfold step, M.step, M.effective_action.
  cbn [conv M.amask M.ar M.ac M.tr M.tc M.walls M.sc].
  set (a' := if jget false (s_action_mask s) a then a else 4).
  set (k := Z.max 0 (Z.min 4 a')).
  assert (Hk : 0 <= k <= 4) by (unfold k; lia).
  assert (E : lax_switch a' [(fun position : Z * Z => (fst position - 1, snd position)); (fun position => (fst position, snd position + 1));
                (fun position => (fst position + 1, snd position)); (fun position => (fst position, snd position - 1));
                (fun position => position)] (fun position => position) (s_agent_position s)
              = M.move (fst (s_agent_position s)) (snd (s_agent_position s)) k).
  { rewrite <- (switch_src k (s_agent_position s) Hk). unfold lax_switch.
    replace (zlen [(fun position : Z * Z => (fst position - 1, snd position)); (fun position => (fst position, snd position + 1));
                (fun position => (fst position + 1, snd position)); (fun position => (fst position, snd position - 1));
                (fun position : Z * Z => position)] - 1) with 4 by reflexivity.
    replace (Z.max 0 (Z.min 4 k)) with (Z.max 0 (Z.min 4 a')) by (unfold k; lia). reflexivity. }
  rewrite E. destruct (M.move (fst (s_agent_position s)) (snd (s_agent_position s)) k) as [r' c'] eqn:Em.
  cbn [fst snd s_agent_position s_target_position s_walls s_action_mask s_step_count conv].
  rewrite (mask_src rows cols (s_walls s) (r', c')). cbn [fst snd].
  unfold Position_eq. cbn [fst snd]. rewrite Z.geb_leb.
  set (mk := M.compute_mask rows cols (s_walls s) r' c').
  set (reached := (r' =? fst (s_target_position s)) && (c' =? snd (s_target_position s))).
  split; [reflexivity|].
  unfold cond_done, termination_src, transition_src, termination, transition, StepType_LAST, StepType_MID, LAST, MID.
  destruct (negb (existsb (fun b : bool => b) mk) || reached || (T <=? s_step_count s + 1)); reflexivity.
Qed.

Theorem reset_src rows cols s :
  let r := reset_from rows cols s in
  s_step_count s = 0 ->
  conv (fst r) = fst (M.init rows cols (s_walls s) (fst (s_agent_position s)) (snd (s_agent_position s))
                             (fst (s_target_position s)) (snd (s_target_position s)))
  /\ snd r = snd (M.init rows cols (s_walls s) (fst (s_agent_position s)) (snd (s_agent_position s))
                         (fst (s_target_position s)) (snd (s_target_position s))).
Proof.
  cbv zeta. intros H0. unfold reset_from, M.init. cbn [fst snd conv s_agent_position s_target_position s_walls s_action_mask s_step_count].
  rewrite mask_src, H0. split; reflexivity.
Qed.

(* ---- the Maze theorems, transferred to the translated source ---- *)
Require Import JV.Model.MazeGen JV.Proofs.MazeGen JV.Proofs.Maze.
Lemma src_step_follows_rules rows cols T s a :
  M.Physical rows cols (conv s) -> 0 <= a < 4 ->
  let r := step rows cols T s a in
  (conv (fst r), snd r) = M.rule_step rows cols T (conv s) a.
Proof.
  intros P Ha. cbv zeta. destruct (step_src rows cols T s a) as [E1 E2]. rewrite E1, E2.
  rewrite <- (step_eq_rule rows cols T (conv s) a P Ha). destruct (M.step rows cols T (conv s) a); reflexivity.
Qed.
Lemma src_mask_iff_legal rows cols T s a b :
  M.Physical rows cols (conv s) -> 0 <= a < 4 -> 0 <= b < 4 ->
  let s' := fst (step rows cols T s a) in
  (jget false (s_action_mask s') b = true <-> M.legal rows cols (s_walls s') (fst (s_agent_position s')) (snd (s_agent_position s')) b).
Proof.
  intros P Ha Hb. cbv zeta.
  assert (P' : M.Physical rows cols (conv (fst (step rows cols T s a)))).
  { destruct (step_src rows cols T s a) as [E1 _]. rewrite E1. apply step_Physical; assumption. }
  exact (mask_iff_legal rows cols (conv (fst (step rows cols T s a))) b P' Hb).
Qed.

(* C03 on the translated step: never FIRST, MID with discount 1 or LAST with discount 0 (no truncation) -- any state, any action *)
Lemma src_step_protocol rows cols T s a : step_ok 1 false (snd (step rows cols T s a)) = true.
Proof. destruct (step_src rows cols T s a) as [_ E]. rewrite E. exact (step_protocol rows cols T (conv s) a). Qed.
