(* Minesweeper: state invariants and the property theorems.
   Phys  = shape + the mine list is a valid draw (num_mines distinct flat locations inside the board) + every revealed
           square shows the true number of mined neighbours.   Preserved by EVERY in-spec action (legal or not).
   Live  = no revealed mine + step_count = number of revealed squares < rows*cols - num_mines (the state of a running episode).
   C04 mask = unexplored = not yet played; C05 explored square / mine => LAST with the configured reward, board untouched;
   C07 invariants; C08 return = safe squares revealed; C09 step = published rules; C10 reset; C11 horizon; C01/C03/C12. *)
Require Import JV.Base.Prelude JV.Base.JaxIndex JV.Base.Codec JV.Base.TimeStep JV.Model.Minesweeper.
Require Import JV.Proofs.Minesweeper_lists JV.Proofs.Minesweeper_count.

(* ---------- grids ---------- *)
Definition shaped (rows cols : Z) (b : list (list Z)) : Prop := zlen b = rows /\ Forall (fun row => zlen row = cols) b.

Lemma shaped_row rows cols b r : shaped rows cols b -> 0 <= r < rows -> zlen (znth [] b r) = cols.
Proof.
  intros [L F] Hr. rewrite Forall_forall in F. apply F. rewrite znth_nth by lia. apply nth_In. unfold zlen in L; lia.
Qed.

Lemma shape_b_spec rows cols b : shape_b rows cols b = true <-> shaped rows cols b.
Proof.
  unfold shape_b, shaped. rewrite andb_true_iff, forallb_forall, Forall_forall. split.
  - intros [A B]. split; [lia|]. intros x Hx. specialize (B x Hx). lia.
  - intros [A B]. split; [lia|]. intros x Hx. specialize (B x Hx). lia.
Qed.

Lemma gget_cell rows cols b r c : shaped rows cols b -> 0 <= r < rows -> 0 <= c < cols -> gget 0 b r c = cell b r c.
Proof.
  intros S Hr Hc. pose proof (shaped_row _ _ _ _ S Hr) as Lr. destruct S as [L _].
  unfold gget, cell, gat, jget. rewrite L, (jclamp_id rows r) by lia. rewrite Lr, (jclamp_id cols c) by lia. reflexivity.
Qed.

Lemma gset_in rows cols (b : list (list Z)) r c v : shaped rows cols b -> 0 <= r < rows -> 0 <= c < cols ->
  gset b r c v = zupd r (zupd c v (znth [] b r)) b.
Proof.
  intros S Hr Hc. pose proof (shaped_row _ _ _ _ S Hr) as Lr. destruct S as [L _].
  unfold gset. cbv zeta. rewrite L. unfold jnorm. destruct (r <? 0) eqn:E; [lia|].
  replace ((0 <=? r) && (r <? rows)) with true by lia. rewrite Lr.
  destruct (c <? 0) eqn:E2; [lia|]. replace ((0 <=? c) && (c <? cols)) with true by lia. reflexivity.
Qed.

Lemma Forall_upd {A} (P : A -> Prop) n v l : Forall P l -> P v -> Forall P (upd n v l).
Proof.
  revert n; induction l as [|x l IH]; intros [|n] F Pv; cbn [upd]; auto; inversion F; subst; constructor; auto.
Qed.

Lemma gset_shaped rows cols (b : list (list Z)) r c v :
  shaped rows cols b -> 0 <= r < rows -> 0 <= c < cols -> shaped rows cols (gset b r c v).
Proof.
  intros S Hr Hc. rewrite (gset_in rows cols) by auto. pose proof (shaped_row _ _ _ _ S Hr) as Lr. destruct S as [L F].
  split; [rewrite zlen_zupd; auto|]. unfold zupd at 1. destruct (r <? 0); auto.
  apply Forall_upd; auto. rewrite zlen_zupd. auto.
Qed.

Lemma cell_gset rows cols b r c v r' c' :
  shaped rows cols b -> 0 <= r < rows -> 0 <= c < cols -> 0 <= r' < rows -> 0 <= c' ->
  cell (gset b r c v) r' c' = if (r' =? r) && (c' =? c) then v else cell b r' c'.
Proof.
  intros S Hr Hc Hr' Hc'. rewrite (gset_in rows cols) by auto. pose proof (shaped_row _ _ _ _ S Hr) as Lr. destruct S as [L _].
  unfold cell, gat. rewrite znth_zupd by lia. destruct (r' =? r) eqn:E; cbn [andb]; [|reflexivity].
  rewrite znth_zupd by lia. replace r' with r by lia. reflexivity.
Qed.

Lemma gset_same rows cols b r c : shaped rows cols b -> 0 <= r < rows -> 0 <= c < cols -> gset b r c (cell b r c) = b.
Proof.
  intros S Hr Hc. rewrite (gset_in rows cols) by auto. unfold cell, gat.
  rewrite zupd_same by lia. apply zupd_same. lia.
Qed.

(* ---------- sums over the board ---------- *)
Lemma sum_cells_ext rows cols f g :
  (forall r c, 0 <= r < rows -> 0 <= c < cols -> f r c = g r c) -> sum_cells rows cols f = sum_cells rows cols g.
Proof.
  intro H. unfold sum_cells. apply zsum_map_ext. intros r Hr. apply in_zrange in Hr.
  apply zsum_map_ext. intros c Hc. apply in_zrange in Hc. auto.
Qed.

Lemma sum_cells_le rows cols f g :
  (forall r c, 0 <= r < rows -> 0 <= c < cols -> f r c <= g r c) -> sum_cells rows cols f <= sum_cells rows cols g.
Proof.
  intro H. unfold sum_cells. apply zsum_map_le. intros r Hr. apply in_zrange in Hr.
  apply zsum_map_le. intros c Hc. apply in_zrange in Hc. auto.
Qed.

Lemma sum_cells_le_eq rows cols f g :
  (forall r c, 0 <= r < rows -> 0 <= c < cols -> f r c <= g r c) -> sum_cells rows cols f = sum_cells rows cols g ->
  forall r c, 0 <= r < rows -> 0 <= c < cols -> f r c = g r c.
Proof.
  intros H E r c Hr Hc. unfold sum_cells in E.
  pose proof (zsum_map_le_eq (fun r => zsum (map (fun c => f r c) (zrange cols))) (fun r => zsum (map (fun c => g r c) (zrange cols))) (zrange rows)) as P.
  cbv beta in P. specialize (P ltac:(intros x Hx; apply in_zrange in Hx; apply zsum_map_le; intros y Hy; apply in_zrange in Hy; auto) E r ltac:(apply in_zrange; auto)).
  apply (zsum_map_le_eq (fun c => f r c) (fun c => g r c) (zrange cols)); auto.
  - intros y Hy. apply in_zrange in Hy. auto.
  - apply in_zrange; auto.
Qed.

Lemma sum_cells_add rows cols f g : sum_cells rows cols (fun r c => f r c + g r c) = sum_cells rows cols f + sum_cells rows cols g.
Proof.
  unfold sum_cells. rewrite <- zsum_map_add. apply zsum_map_ext. intros r _. apply zsum_map_add.
Qed.

Lemma sum_cells_zero rows cols : sum_cells rows cols (fun _ _ => 0) = 0.
Proof.
  unfold sum_cells. rewrite (zsum_map_ext _ (fun _ => 0)); [apply zsum_map_zero|]. intros r _. apply zsum_map_zero.
Qed.

Lemma zsum_const (k : Z) n : 0 <= n -> zsum (map (fun _ => k) (zrange n)) = n * k.
Proof.
  intro H. unfold zrange. assert (G : forall m z, zsum (map (fun _ => k) (zrange_from z m)) = Z.of_nat m * k).
  { induction m; intro z; cbn [zrange_from map zsum]; [lia|]. rewrite IHm. lia. }
  rewrite G. rewrite Z2Nat.id by lia. reflexivity.
Qed.

Lemma sum_cells_const rows cols : 0 <= rows -> 0 <= cols -> sum_cells rows cols (fun _ _ => 1) = rows * cols.
Proof.
  intros Hr Hc. unfold sum_cells. rewrite (zsum_map_ext _ (fun _ => cols)).
  - apply zsum_const; auto.
  - intros r _. rewrite zsum_const by auto. lia.
Qed.

Lemma sum_cells_point rows cols f g r0 c0 :
  0 <= r0 < rows -> 0 <= c0 < cols ->
  (forall r c, 0 <= r < rows -> 0 <= c < cols -> r <> r0 \/ c <> c0 -> f r c = g r c) ->
  sum_cells rows cols f = sum_cells rows cols g + f r0 c0 - g r0 c0.
Proof.
  intros Hr Hc H. unfold sum_cells.
  rewrite (zsum_point (fun r => zsum (map (fun c => f r c) (zrange cols))) (fun r => zsum (map (fun c => g r c) (zrange cols))) rows r0); auto.
  - cbv beta. rewrite (zsum_point (fun c => f r0 c) (fun c => g r0 c) cols c0); auto. lia.
  - intros r Hr' Hne. apply zsum_map_ext. intros c Hc'. apply in_zrange in Hc'. apply H; auto.
Qed.

(* a sum of a function of the cell value, after one square is written *)
Lemma sum_cells_gset rows cols b r0 c0 v (h : Z -> Z -> Z -> Z) :
  shaped rows cols b -> 0 <= r0 < rows -> 0 <= c0 < cols ->
  sum_cells rows cols (fun r c => h (cell (gset b r0 c0 v) r c) r c)
  = sum_cells rows cols (fun r c => h (cell b r c) r c) + h v r0 c0 - h (cell b r0 c0) r0 c0.
Proof.
  intros S Hr Hc.
  rewrite (sum_cells_point rows cols _ (fun r c => h (cell b r c) r c) r0 c0); auto.
  - cbv beta. rewrite (cell_gset rows cols) by (auto; lia). replace ((r0 =? r0) && (c0 =? c0)) with true by lia. reflexivity.
  - intros r c Hr' Hc' Hne. cbv beta. rewrite (cell_gset rows cols) by (auto; lia).
    replace ((r =? r0) && (c =? c0)) with false by lia. reflexivity.
Qed.

Lemma zsum_map_as_range {A} (d : A) (F : A -> Z) l : zsum (map F l) = zsum (map (fun i => F (znth d l i)) (zrange (zlen l))).
Proof. rewrite (list_as_map d l) at 1. rewrite map_map. reflexivity. Qed.

(* (board >= 0).sum() is the number of revealed squares *)
Lemma num_explored_revealed rows cols b : shaped rows cols b -> num_explored b = revealed rows cols b.
Proof.
  intro S. unfold num_explored, revealed, sum_cells. rewrite (zsum_map_as_range []). destruct S as [L F] eqn:ES. rewrite L.
  apply zsum_map_ext. intros r Hr. apply in_zrange in Hr. rewrite count_if_zsum.
  rewrite (zsum_map_as_range 0). rewrite (shaped_row rows cols b r) by auto. reflexivity.
Qed.

Lemma forallb2_range rows cols (P : Z -> Z -> bool) :
  forallb (fun r => forallb (fun c => P r c) (zrange cols)) (zrange rows) = true
  <-> forall r c, 0 <= r < rows -> 0 <= c < cols -> P r c = true.
Proof.
  rewrite forallb_forall. split.
  - intros H r c Hr Hc. specialize (H r ltac:(apply in_zrange; auto)). rewrite forallb_forall in H. apply H. apply in_zrange; auto.
  - intros H r Hr. apply in_zrange in Hr. apply forallb_forall. intros c Hc. apply in_zrange in Hc. auto.
Qed.

(* ---------- mines ---------- *)
Definition mines_ok (rows cols nm : Z) (ms : list Z) : Prop := zlen ms = nm /\ in_board rows cols ms /\ NoDup ms.

Lemma existsb_eqb_In x l : existsb (Z.eqb x) l = true <-> In x l.
Proof.
  rewrite existsb_exists. split.
  - intros (y & Hy & E). replace x with y by lia. auto.
  - intro H. exists x. split; auto. lia.
Qed.

Lemma nodup_b_spec l : nodup_b l = true <-> NoDup l.
Proof.
  induction l as [|x l IH]; cbn [nodup_b].
  - split; auto. constructor.
  - rewrite andb_true_iff, IH, negb_true_iff. split.
    + intros [A B]. constructor; auto. intro Hin. apply existsb_eqb_In in Hin. congruence.
    + intro H. inversion H; subst. split; auto. destruct (existsb (Z.eqb x) l) eqn:E; auto. apply existsb_eqb_In in E. tauto.
Qed.

Lemma valid_draw_spec rows cols nm ms : valid_draw rows cols nm ms = true <-> mines_ok rows cols nm ms.
Proof.
  unfold valid_draw, mines_ok, in_board. rewrite !andb_true_iff, nodup_b_spec, forallb_forall, Forall_forall. unfold inb. split.
  - intros [[A B] C]. split; [lia|]. split; auto. intros x Hx. specialize (B x Hx). lia.
  - intros [A [B C]]. split; [split; [lia|]|auto]. intros x Hx. specialize (B x Hx). lia.
Qed.

(* exactly one square per flat location *)
Lemma sum_cells_flat_indicator rows cols x : 0 <= x < rows * cols -> 0 < cols ->
  sum_cells rows cols (fun r c => b2z (r * cols + c =? x)) = 1.
Proof.
  intros Hx Hc. unfold sum_cells.
  rewrite (zsum_map_ext _ (fun r => b2z (r =? x / cols))).
  - rewrite zsum_indicator. unfold inb. replace ((0 <=? x / cols) && (x / cols <? rows)) with true; [reflexivity|].
    assert (0 <= x / cols < rows) by (split; [apply Z.div_pos; lia | apply Z.div_lt_upper_bound; lia]). lia.
  - intros r Hr. apply in_zrange in Hr.
    rewrite (zsum_map_ext _ (fun c => b2z (c =? x - r * cols))) by (intros c _; f_equal; lia).
    rewrite zsum_indicator. unfold inb. f_equal.
    pose proof (Z.div_mod x cols ltac:(lia)). pose proof (Z.mod_pos_bound x cols Hc).
    destruct (r =? x / cols) eqn:E.
    + assert (r = x / cols) by lia. subst r. lia.
    + assert (r <> x / cols) by lia.
      destruct ((0 <=? x - r * cols) && (x - r * cols <? cols)) eqn:E2; auto. exfalso.
      assert (x / cols = r); [|lia]. symmetry. apply (Z.div_unique x cols r (x - r * cols)); lia.
Qed.

(* C10 / C07: num_mines distinct locations inside the board mine exactly num_mines squares *)
Lemma mined_squares_count rows cols ms : 0 < cols -> in_board rows cols ms -> NoDup ms ->
  mined_squares rows cols ms = zlen ms.
Proof.
  intros Hc F ND. unfold mined_squares.
  rewrite (sum_cells_ext _ _ _ (fun r c => b2z (existsb (Z.eqb (r * cols + c)) ms))).
  2:{ intros r c Hr Hcc. unfold is_mine, inb. replace ((0 <=? r) && (r <? rows)) with true by lia.
      replace ((0 <=? c) && (c <? cols)) with true by lia. reflexivity. }
  induction ms as [|x ms IH].
  - cbn [existsb b2z]. apply sum_cells_zero.
  - inversion F; subst. inversion ND; subst. rewrite zlen_cons.
    rewrite (sum_cells_ext _ _ _ (fun r c => b2z (r * cols + c =? x) + b2z (existsb (Z.eqb (r * cols + c)) ms))).
    + rewrite sum_cells_add, sum_cells_flat_indicator, IH by auto. reflexivity.
    + intros r c Hr Hcc. cbn [existsb]. destruct (r * cols + c =? x) eqn:E; cbn [orb b2z]; [|lia].
      assert (r * cols + c = x) by lia. subst x.
      destruct (existsb (Z.eqb (r * cols + c)) ms) eqn:E2; [|reflexivity]. apply existsb_eqb_In in E2. tauto.
Qed.

(* ---------- the invariants ---------- *)
Record Phys (rows cols nm : Z) (s : state) : Prop := {
  ph_shape : shaped rows cols (board s);
  ph_mines : mines_ok rows cols nm (mines s);
  ph_cells : forall r c, 0 <= r < rows -> 0 <= c < cols ->
             cell (board s) r c = -1 \/ cell (board s) r c = adj_count rows cols (mines s) r c }.

Record Live (rows cols : Z) (s : state) : Prop := {
  lv_nomine : forall r c, 0 <= r < rows -> 0 <= c < cols -> 0 <= cell (board s) r c -> is_mine rows cols (mines s) r c = false;
  lv_count : step_count s = revealed rows cols (board s);
  lv_open : revealed rows cols (board s) < rows * cols - zlen (mines s) }.

(* the boolean checkers run on implementation states decide these predicates *)
Theorem Phys_b_spec rows cols nm s : Phys_b rows cols nm s = true <-> Phys rows cols nm s.
Proof.
  unfold Phys_b. rewrite !andb_true_iff, shape_b_spec, valid_draw_spec, forallb2_range. split.
  - intros [[A B] C]. constructor; auto. intros r c Hr Hc. specialize (C r c Hr Hc). lia.
  - intros [A B C]. split; [split; auto|]. intros r c Hr Hc. specialize (C r c Hr Hc). lia.
Qed.

Theorem Safe_b_spec rows cols s : Safe_b rows cols s = true <-> Live rows cols s.
Proof.
  unfold Safe_b. rewrite !andb_true_iff, forallb2_range. split.
  - intros [[A B] C]. constructor; try lia. intros r c Hr Hc Hv. specialize (A r c Hr Hc).
    destruct (is_mine rows cols (mines s) r c); auto. lia.
  - intros [A B C]. split; [split|]; try lia. intros r c Hr Hc. specialize (A r c Hr Hc).
    destruct (0 <=? cell (board s) r c) eqn:E; auto. rewrite A by lia. reflexivity.
Qed.

(* ---------- the step, unfolded inside the board ---------- *)
Definition next_board (rows cols : Z) (s : state) (r c : Z) : list (list Z) :=
  gset (board s) r c (adj_count rows cols (mines s) r c).
Definition solved_after (rows cols : Z) (s : state) (r c : Z) : bool :=
  revealed rows cols (next_board rows cols s r c) =? rows * cols - zlen (mines s).

Lemma step_unfold rc rows cols nm s r c :
  Phys rows cols nm s -> 0 <= r < rows -> 0 <= c < cols ->
  step rc rows cols s r c =
  (mkS (next_board rows cols s r c) (step_count s + 1) (mines s),
   cond_done 1 (negb (legal_b (board s) r c) || is_mine rows cols (mines s) r c || solved_after rows cols s r c)
             [reward_fn rc (legal_b (board s) r c) (is_mine rows cols (mines s) r c)]).
Proof.
  intros [S (Lm & Fm & ND) Cl] Hr Hc. unfold step, next_board, solved_after, is_solved, is_valid_action, legal_b.
  rewrite count_adjacent_eq, explored_mine_eq by auto. rewrite (gget_cell rows cols) by auto.
  rewrite (num_explored_revealed rows cols) by (apply gset_shaped; auto). reflexivity.
Qed.

Lemma revealed_next rows cols nm s r c :
  Phys rows cols nm s -> 0 <= r < rows -> 0 <= c < cols ->
  revealed rows cols (next_board rows cols s r c) = revealed rows cols (board s) + b2z (legal_b (board s) r c).
Proof.
  intros [S M Cl] Hr Hc. unfold revealed, next_board.
  rewrite (sum_cells_gset rows cols (board s) r c _ (fun v _ _ => b2z (0 <=? v))) by auto. cbv beta.
  pose proof (adj_count_range rows cols (mines s) r c). unfold legal_b.
  destruct (Cl r c Hr Hc) as [E|E]; rewrite E.
  - replace (0 <=? adj_count rows cols (mines s) r c) with true by lia. cbn. lia.
  - replace (adj_count rows cols (mines s) r c =? -1) with false by lia. cbn [b2z]. lia.
Qed.

(* an explored square is re-written with the value it already shows *)
Lemma next_board_illegal rows cols nm s r c :
  Phys rows cols nm s -> 0 <= r < rows -> 0 <= c < cols -> legal_b (board s) r c = false ->
  next_board rows cols s r c = board s.
Proof.
  intros [S M Cl] Hr Hc Hl. unfold next_board, legal_b in *. destruct (Cl r c Hr Hc) as [E|E]; [lia|].
  rewrite <- E. apply (gset_same rows cols); auto.
Qed.

(* ---------- C09: the code's step IS the published rules ---------- *)
Theorem step_eq_rules rc rows cols nm s r c :
  Phys rows cols nm s -> 0 <= r < rows -> 0 <= c < cols ->
  step rc rows cols s r c = rules_step rc rows cols s r c.
Proof.
  intros P Hr Hc. rewrite (step_unfold rc rows cols nm) by auto. unfold rules_step, reward_fn, cond_done.
  destruct (legal_b (board s) r c) eqn:Hl; cbn [negb orb].
  - fold (next_board rows cols s r c). destruct (is_mine rows cols (mines s) r c); cbn [orb]; [reflexivity|].
    fold (solved_after rows cols s r c). destruct (solved_after rows cols s r c); reflexivity.
  - rewrite (next_board_illegal rows cols nm) by auto. reflexivity.
Qed.

(* ---------- C07: Phys is preserved by every in-spec action; the mines never change ---------- *)
Theorem step_mines rc rows cols s r c : mines (fst (step rc rows cols s r c)) = mines s.
Proof. reflexivity. Qed.

Theorem step_Phys rc rows cols nm s r c :
  Phys rows cols nm s -> 0 <= r < rows -> 0 <= c < cols -> Phys rows cols nm (fst (step rc rows cols s r c)).
Proof.
  intros P Hr Hc. rewrite (step_unfold rc rows cols nm) by auto. destruct P as [S M Cl]. cbn [fst].
  constructor; cbn [board mines]; auto.
  - apply gset_shaped; auto.
  - intros r' c' Hr' Hc'. unfold next_board. rewrite (cell_gset rows cols) by (auto; lia).
    destruct ((r' =? r) && (c' =? c)) eqn:E; auto. right. f_equal; lia.
Qed.

Lemma cell_repeat rows cols r c : 0 <= r < rows -> 0 <= c < cols ->
  cell (repeat (repeat (-1) (Z.to_nat cols)) (Z.to_nat rows)) r c = -1.
Proof. intros Hr Hc. unfold cell, gat. rewrite znth_repeat by lia. apply znth_repeat. lia. Qed.

Lemma revealed_init rows cols : revealed rows cols (repeat (repeat (-1) (Z.to_nat cols)) (Z.to_nat rows)) = 0.
Proof.
  unfold revealed. rewrite (sum_cells_ext _ _ _ (fun _ _ => 0)); [apply sum_cells_zero|].
  intros r c Hr Hc. rewrite cell_repeat by auto. reflexivity.
Qed.

Theorem init_Phys rows cols nm locs :
  0 <= rows -> 0 <= cols -> valid_draw rows cols nm locs = true -> Phys rows cols nm (fst (init rows cols locs)).
Proof.
  intros Hr Hc V. apply valid_draw_spec in V. unfold init. cbn [fst]. constructor; cbn [board mines]; auto.
  - split; [unfold zlen; rewrite repeat_length; lia|]. apply Forall_forall. intros x Hx. apply repeat_spec in Hx. subst.
    unfold zlen; rewrite repeat_length; lia.
  - intros r c Hr' Hc'. left. apply cell_repeat; auto.
Qed.

Theorem init_Live rows cols nm locs :
  valid_draw rows cols nm locs = true -> nm < rows * cols -> Live rows cols (fst (init rows cols locs)).
Proof.
  intros V Hn. apply valid_draw_spec in V. destruct V as (L & _). unfold init. cbn [fst].
  constructor; cbn [board mines step_count].
  - intros r c Hr Hc Hv. rewrite cell_repeat in Hv by auto. lia.
  - rewrite revealed_init. reflexivity.
  - rewrite revealed_init. lia.
Qed.

(* C10: the reset state: all squares unexplored, step 0, exactly num_mines mined squares (given the sampler's contract) *)
Theorem init_mines rows cols nm locs :
  0 < cols -> valid_draw rows cols nm locs = true ->
  mines (fst (init rows cols locs)) = locs /\ NoDup locs /\ zlen locs = nm /\ in_board rows cols locs
  /\ mined_squares rows cols locs = nm.
Proof.
  intros Hc V. apply valid_draw_spec in V. destruct V as (L & F & ND). repeat split; auto.
  rewrite mined_squares_count; auto.
Qed.

Theorem Phys_mined_squares rows cols nm s : 0 < cols -> Phys rows cols nm s -> mined_squares rows cols (mines s) = nm.
Proof. intros Hc [_ (L & F & ND) _]. rewrite mined_squares_count; auto. Qed.

(* ---------- step type ---------- *)
Lemma st_cond_done d r : st (cond_done 1 d r) = if d then LAST else MID.
Proof. destruct d; reflexivity. Qed.
Lemma reward_cond_done d r : reward (cond_done 1 d r) = r.
Proof. destruct d; reflexivity. Qed.

(* the step is LAST exactly for: an explored square, a mine, or the last safe square *)
Theorem step_type_spec rc rows cols nm s r c :
  Phys rows cols nm s -> 0 <= r < rows -> 0 <= c < cols ->
  st (snd (step rc rows cols s r c)) =
  if negb (legal_b (board s) r c) || is_mine rows cols (mines s) r c
     || (revealed rows cols (board s) + b2z (legal_b (board s) r c) =? rows * cols - zlen (mines s)) then LAST else MID.
Proof.
  intros P Hr Hc. rewrite (step_unfold rc rows cols nm) by auto. cbn [snd]. rewrite st_cond_done.
  unfold solved_after. rewrite (revealed_next rows cols nm) by auto. reflexivity.
Qed.

Theorem step_Live rc rows cols nm s r c :
  Phys rows cols nm s -> Live rows cols s -> 0 <= r < rows -> 0 <= c < cols ->
  st (snd (step rc rows cols s r c)) = MID ->
  Live rows cols (fst (step rc rows cols s r c)) /\ legal_b (board s) r c = true /\ is_mine rows cols (mines s) r c = false
  /\ revealed rows cols (board (fst (step rc rows cols s r c))) = revealed rows cols (board s) + 1.
Proof.
  intros P [Nm Ct Op] Hr Hc Hmid. rewrite (step_type_spec rc rows cols nm) in Hmid by auto.
  destruct (legal_b (board s) r c) eqn:Hl; cbn [negb orb] in Hmid; [|discriminate Hmid].
  destruct (is_mine rows cols (mines s) r c) eqn:Hm; cbn [orb] in Hmid; [discriminate Hmid|].
  destruct (revealed rows cols (board s) + b2z true =? rows * cols - zlen (mines s)) eqn:Hs; [discriminate Hmid|].
  cbn [b2z] in Hs. rewrite (step_unfold rc rows cols nm) by auto. cbn [fst board].
  pose proof (revealed_next rows cols nm s r c P Hr Hc) as Rv. rewrite Hl in Rv. cbn [b2z] in Rv.
  split; [|auto]. constructor; cbn [board mines step_count]; try lia.
  intros r' c' Hr' Hc' Hv. destruct P as [S M Cl]. unfold next_board in Hv. rewrite (cell_gset rows cols) in Hv by (auto; lia).
  destruct ((r' =? r) && (c' =? c)) eqn:E; [|auto]. replace r' with r by lia. replace c' with c by lia. auto.
Qed.

(* ---------- C04: mask = unexplored squares = squares not yet played ---------- *)
Theorem mask_iff_legal rows cols b r c :
  shaped rows cols b -> 0 <= r < rows -> 0 <= c < cols ->
  (gat false (action_mask b) r c = true <-> legal b r c).
Proof.
  intros S Hr Hc. pose proof (shaped_row _ _ _ _ S Hr) as Lr. destruct S as [L _].
  unfold gat, action_mask, legal, cell, gat. rewrite (znth_map _ b r [] []) by lia.
  rewrite (znth_map _ _ c 0 false) by lia. lia.
Qed.

Theorem legal_b_spec b r c : legal_b b r c = true <-> legal b r c.
Proof. unfold legal_b, legal. lia. Qed.

(* the environment's own reaction: the action is treated as invalid exactly when the mask entry is False *)
Theorem mask_iff_valid rows cols b r c :
  shaped rows cols b -> 0 <= r < rows -> 0 <= c < cols ->
  is_valid_action b r c = gat false (action_mask b) r c.
Proof.
  intros S Hr Hc. unfold is_valid_action. rewrite (gget_cell rows cols) by auto.
  destruct (gat false (action_mask b) r c) eqn:E.
  - apply (mask_iff_legal rows cols) in E; auto. unfold legal in E. lia.
  - destruct (cell b r c =? -1) eqn:E2; auto. assert (legal b r c) by (unfold legal; lia).
    apply (mask_iff_legal rows cols) in H; auto. congruence.
Qed.

(* playing a list of in-spec actions from s (whatever the step types) *)
Fixpoint play (rc : rcfg) (rows cols : Z) (s : state) (acts : list (Z * Z)) : state :=
  match acts with [] => s | a :: rest => play rc rows cols (fst (step rc rows cols s (fst a) (snd a))) rest end.

Definition in_spec_p (rows cols : Z) (a : Z * Z) : Prop := 0 <= fst a < rows /\ 0 <= snd a < cols.

Lemma in_spec_spec rows cols a : in_spec rows cols a = true <-> in_spec_p rows cols a.
Proof. unfold in_spec, in_spec_p, inb. lia. Qed.

Theorem play_Phys rc rows cols nm acts : forall s,
  Phys rows cols nm s -> Forall (in_spec_p rows cols) acts -> Phys rows cols nm (play rc rows cols s acts).
Proof.
  induction acts as [|a rest IH]; intros s P F; cbn [play]; auto. inversion F as [|? ? [Ha1 Ha2] F']; subst.
  apply IH; auto. apply step_Phys; auto.
Qed.

(* a square is explored exactly when it was explored before or has been played since *)
Theorem explored_iff_played rc rows cols nm acts : forall s r c,
  Phys rows cols nm s -> Forall (in_spec_p rows cols) acts -> 0 <= r < rows -> 0 <= c < cols ->
  (cell (board (play rc rows cols s acts)) r c <> -1 <-> (cell (board s) r c <> -1 \/ In (r, c) acts)).
Proof.
  induction acts as [|a rest IH]; intros s r c P F Hr Hc; cbn [play In]; [tauto|].
  inversion F as [|? ? [Ha1 Ha2] F']; subst. destruct a as [ar ac]. cbn [fst snd] in *.
  rewrite IH by (auto; apply step_Phys; auto).
  rewrite (step_unfold rc rows cols nm) by auto. cbn [fst board]. unfold next_board.
  destruct P as [S M Cl]. rewrite (cell_gset rows cols) by (auto; lia).
  pose proof (adj_count_range rows cols (mines s) ar ac).
  destruct ((r =? ar) && (c =? ac)) eqn:E.
  - assert (ar = r /\ ac = c) as [-> ->] by lia. split; [auto|]. intros _. left. lia.
  - split; [intros [H1|H1]; auto|]. intros [H1|[H1|H1]]; auto. inversion H1; lia.
Qed.

(* C04 from reset: the mask entry of a square is True exactly when the square has not been played yet *)
Theorem mask_iff_not_played rc rows cols nm locs acts r c :
  0 <= rows -> 0 <= cols -> valid_draw rows cols nm locs = true -> Forall (in_spec_p rows cols) acts ->
  0 <= r < rows -> 0 <= c < cols ->
  (gat false (action_mask (board (play rc rows cols (fst (init rows cols locs)) acts))) r c = true <-> ~ In (r, c) acts).
Proof.
  intros H0 H1 V F Hr Hc. pose proof (init_Phys rows cols nm locs H0 H1 V) as P.
  pose proof (play_Phys rc rows cols nm acts _ P F) as P'.
  rewrite (mask_iff_legal rows cols) by (auto; apply P'). unfold legal.
  pose proof (explored_iff_played rc rows cols nm acts _ r c P F Hr Hc) as E.
  cbn [init fst board] in E. rewrite cell_repeat in E by auto.
  destruct (Z.eq_dec (cell (board (play rc rows cols (fst (init rows cols locs)) acts)) r c) (-1)); tauto.
Qed.

(* ---------- C05: an explored square or a mine ends the episode with the configured reward ---------- *)
Theorem explored_terminates rc rows cols nm s r c :
  Phys rows cols nm s -> 0 <= r < rows -> 0 <= c < cols -> cell (board s) r c <> -1 ->
  step rc rows cols s r c = (mkS (board s) (step_count s + 1) (mines s), termination 1 [r_invalid rc]).
Proof.
  intros P Hr Hc Hv. rewrite (step_unfold rc rows cols nm) by auto.
  assert (Hl : legal_b (board s) r c = false) by (unfold legal_b; lia).
  rewrite (next_board_illegal rows cols nm) by auto. rewrite Hl. reflexivity.
Qed.

Theorem mine_terminates rc rows cols nm s r c :
  Phys rows cols nm s -> 0 <= r < rows -> 0 <= c < cols -> cell (board s) r c = -1 -> is_mine rows cols (mines s) r c = true ->
  snd (step rc rows cols s r c) = termination 1 [r_mine rc]
  /\ mines (fst (step rc rows cols s r c)) = mines s
  /\ forall r' c', 0 <= r' < rows -> 0 <= c' < cols -> (r', c') <> (r, c) ->
       cell (board (fst (step rc rows cols s r c))) r' c' = cell (board s) r' c'.
Proof.
  intros P Hr Hc Hv Hm. rewrite (step_unfold rc rows cols nm) by auto. cbn [fst snd board mines].
  assert (Hl : legal_b (board s) r c = true) by (unfold legal_b; lia). rewrite Hl, Hm. split; [reflexivity|]. split; [reflexivity|].
  intros r' c' Hr' Hc' Hne. unfold next_board. destruct P as [S _ _]. rewrite (cell_gset rows cols) by (auto; lia).
  destruct ((r' =? r) && (c' =? c)) eqn:E; auto. exfalso. apply Hne. f_equal; lia.
Qed.

(* conversely: the episode continues only after an unexplored, unmined square, which pays the empty-square reward *)
Theorem mid_means_safe_reveal rc rows cols nm s r c :
  Phys rows cols nm s -> 0 <= r < rows -> 0 <= c < cols -> st (snd (step rc rows cols s r c)) = MID ->
  cell (board s) r c = -1 /\ is_mine rows cols (mines s) r c = false /\ reward (snd (step rc rows cols s r c)) = [r_empty rc]
  /\ discount (snd (step rc rows cols s r c)) = [1].
Proof.
  intros P Hr Hc. rewrite (step_unfold rc rows cols nm) by auto. cbn [snd]. unfold legal_b, reward_fn.
  destruct (cell (board s) r c =? -1) eqn:Hl; cbn [negb orb]; [|intro H; discriminate H].
  destruct (is_mine rows cols (mines s) r c); cbn [orb]; [intro H; discriminate H|].
  destruct (solved_after rows cols s r c); cbn; intro H; [discriminate H|]. repeat split; auto. lia.
Qed.

(* ---------- C08: rewards telescope to the squares revealed ---------- *)
Lemma safe_revealed_next rows cols nm s r c k :
  Phys rows cols nm s -> 0 <= r < rows -> 0 <= c < cols ->
  safe_revealed rows cols (mkS (next_board rows cols s r c) k (mines s))
  = safe_revealed rows cols s + b2z (legal_b (board s) r c && negb (is_mine rows cols (mines s) r c)).
Proof.
  intros [S M Cl] Hr Hc. unfold safe_revealed, next_board. cbn [board mines].
  rewrite (sum_cells_gset rows cols (board s) r c _ (fun v r c => b2z ((0 <=? v) && negb (is_mine rows cols (mines s) r c)))) by auto.
  cbv beta. pose proof (adj_count_range rows cols (mines s) r c). unfold legal_b.
  destruct (Cl r c Hr Hc) as [E|E]; rewrite E.
  - replace (0 <=? adj_count rows cols (mines s) r c) with true by lia. cbn [andb]. replace (0 <=? -1) with false by lia.
    replace (-1 =? -1) with true by lia. cbn [andb b2z]. lia.
  - replace (adj_count rows cols (mines s) r c =? -1) with false by lia. cbn [andb b2z]. lia.
Qed.

Lemma mine_revealed_next rows cols nm s r c k :
  Phys rows cols nm s -> 0 <= r < rows -> 0 <= c < cols ->
  mine_revealed rows cols (mkS (next_board rows cols s r c) k (mines s))
  = mine_revealed rows cols s + b2z (legal_b (board s) r c && is_mine rows cols (mines s) r c).
Proof.
  intros [S M Cl] Hr Hc. unfold mine_revealed, next_board. cbn [board mines].
  rewrite (sum_cells_gset rows cols (board s) r c _ (fun v r c => b2z ((0 <=? v) && is_mine rows cols (mines s) r c))) by auto.
  cbv beta. pose proof (adj_count_range rows cols (mines s) r c). unfold legal_b.
  destruct (Cl r c Hr Hc) as [E|E]; rewrite E.
  - replace (0 <=? adj_count rows cols (mines s) r c) with true by lia. cbn [andb]. replace (0 <=? -1) with false by lia.
    replace (-1 =? -1) with true by lia. cbn [andb b2z]. lia.
  - replace (adj_count rows cols (mines s) r c =? -1) with false by lia. cbn [andb b2z]. lia.
Qed.

(* one step: the reward is the configured price of what the step revealed *)
Theorem step_reward rc rows cols nm s r c :
  Phys rows cols nm s -> 0 <= r < rows -> 0 <= c < cols ->
  reward (snd (step rc rows cols s r c)) =
  [ r_empty rc * (safe_revealed rows cols (fst (step rc rows cols s r c)) - safe_revealed rows cols s)
    + r_mine rc * (mine_revealed rows cols (fst (step rc rows cols s r c)) - mine_revealed rows cols s)
    + r_invalid rc * b2z (negb (legal_b (board s) r c)) ].
Proof.
  intros P Hr Hc. rewrite (step_unfold rc rows cols nm) by auto. cbn [fst snd]. rewrite reward_cond_done.
  rewrite (safe_revealed_next rows cols nm), (mine_revealed_next rows cols nm) by auto. unfold reward_fn.
  destruct (legal_b (board s) r c); destruct (is_mine rows cols (mines s) r c); cbn [andb negb b2z]; f_equal; lia.
Qed.

Lemma last_cons_indep {A} (l : list A) : forall x d d', last (x :: l) d = last (x :: l) d'.
Proof.
  induction l as [|y l IH]; intros x d d'; [reflexivity|].
  change (last (y :: l) d = last (y :: l) d'). apply IH.
Qed.

Lemma final_cons s p tr : final s (p :: tr) = final (fst p) tr.
Proof.
  unfold final. destruct tr as [|q tr]; [reflexivity|].
  change (fst (last (q :: tr) (s, restart 1)) = fst (last (q :: tr) (fst p, restart 1))). f_equal. apply last_cons_indep.
Qed.

(* number of explored squares selected along an episode (0 or 1: such a selection ends it) *)
Fixpoint n_invalid (rc : rcfg) (rows cols : Z) (s : state) (acts : list (Z * Z)) : Z :=
  match acts with
  | [] => 0
  | a :: rest => let p := step rc rows cols s (fst a) (snd a) in
                 b2z (negb (legal_b (board s) (fst a) (snd a)))
                 + (if st (snd p) =? LAST then 0 else n_invalid rc rows cols (fst p) rest)
  end.

Theorem return_decomposition rc rows cols nm acts : forall s,
  Phys rows cols nm s -> Forall (in_spec_p rows cols) acts ->
  ret (run rc rows cols s acts) =
    r_empty rc * (safe_revealed rows cols (final s (run rc rows cols s acts)) - safe_revealed rows cols s)
  + r_mine rc * (mine_revealed rows cols (final s (run rc rows cols s acts)) - mine_revealed rows cols s)
  + r_invalid rc * n_invalid rc rows cols s acts.
Proof.
  induction acts as [|a rest IH]; intros s P F; cbn [run n_invalid].
  - unfold ret, final. cbn. lia.
  - inversion F as [|? ? [Ha1 Ha2] F']; subst. cbv zeta. rewrite final_cons.
    set (p := step rc rows cols s (fst a) (snd a)).
    pose proof (step_reward rc rows cols nm s (fst a) (snd a) P Ha1 Ha2) as R. fold p in R.
    pose proof (step_Phys rc rows cols nm s (fst a) (snd a) P Ha1 Ha2) as P'. fold p in P'.
    unfold ret. cbn [map zsum]. rewrite R. cbn [zsum].
    destruct (st (snd p) =? LAST).
    + cbn [map zsum]. unfold final. cbn [last fst]. lia.
    + specialize (IH (fst p) P' F'). unfold ret in IH. rewrite IH. lia.
Qed.

Lemma safe_revealed_init rows cols locs : safe_revealed rows cols (fst (init rows cols locs)) = 0.
Proof.
  unfold safe_revealed, init. cbn [fst board mines]. rewrite (sum_cells_ext _ _ _ (fun _ _ => 0)); [apply sum_cells_zero|].
  intros r c Hr Hc. rewrite cell_repeat by auto. reflexivity.
Qed.

(* C08: with the default reward constants (1, 0, 0) the return of ANY episode from reset -- whatever ends it --
   is the number of safe squares revealed in its final state *)
Theorem return_is_safe_revealed rows cols nm locs acts :
  0 <= rows -> 0 <= cols -> valid_draw rows cols nm locs = true -> Forall (in_spec_p rows cols) acts ->
  let s0 := fst (init rows cols locs) in
  ret (run default_rcfg rows cols s0 acts) = safe_revealed rows cols (final s0 (run default_rcfg rows cols s0 acts)).
Proof.
  intros H0 H1 V F s0. unfold s0. rewrite (return_decomposition default_rcfg rows cols nm) by (auto using init_Phys).
  rewrite safe_revealed_init. cbn [default_rcfg r_empty r_mine r_invalid]. lia.
Qed.

(* ---------- C11: the structural horizon ---------- *)
Theorem horizon rc rows cols nm acts : forall s,
  Phys rows cols nm s -> Live rows cols s -> Forall (in_spec_p rows cols) acts ->
  Z.of_nat (length (run rc rows cols s acts)) <= rows * cols - zlen (mines s) - revealed rows cols (board s).
Proof.
  induction acts as [|a rest IH]; intros s P L F; cbn [run length].
  - destruct L as [_ _ Op]. lia.
  - inversion F as [|? ? [Ha1 Ha2] F']; subst. cbv zeta.
    destruct (st (snd (step rc rows cols s (fst a) (snd a))) =? LAST) eqn:E.
    + destruct L as [_ _ Op]. cbn [length]. lia.
    + assert (Hmid : st (snd (step rc rows cols s (fst a) (snd a))) = MID).
      { rewrite (step_type_spec rc rows cols nm) in * by auto. destruct (_ || _) in *; [discriminate E|reflexivity]. }
      destruct (step_Live rc rows cols nm s (fst a) (snd a) P L Ha1 Ha2 Hmid) as (L' & _ & _ & Rv).
      pose proof (step_Phys rc rows cols nm s (fst a) (snd a) P Ha1 Ha2) as P'.
      specialize (IH _ P' L' F'). rewrite step_mines in IH. rewrite Rv in IH. cbn [length]. lia.
Qed.

Theorem horizon_from_reset rc rows cols nm locs acts :
  0 <= rows -> 0 <= cols -> valid_draw rows cols nm locs = true -> nm < rows * cols -> Forall (in_spec_p rows cols) acts ->
  Z.of_nat (length (run rc rows cols (fst (init rows cols locs)) acts)) <= rows * cols - nm.
Proof.
  intros H0 H1 V Hn F. pose proof (horizon rc rows cols nm acts _ (init_Phys rows cols nm locs H0 H1 V) (init_Live rows cols nm locs V Hn) F) as H.
  change (mines (fst (init rows cols locs))) with locs in H.
  change (board (fst (init rows cols locs))) with (repeat (repeat (-1) (Z.to_nat cols)) (Z.to_nat rows)) in H.
  rewrite revealed_init in H. apply valid_draw_spec in V. destruct V as (L & _). lia.
Qed.

(* an episode that ends without an explored square or a mine being selected ends on the solved board:
   every safe square is revealed *)
Theorem solved_means_complete rc rows cols nm s r c :
  0 < cols -> Phys rows cols nm s -> Live rows cols s -> 0 <= r < rows -> 0 <= c < cols ->
  st (snd (step rc rows cols s r c)) = LAST -> cell (board s) r c = -1 -> is_mine rows cols (mines s) r c = false ->
  forall r' c', 0 <= r' < rows -> 0 <= c' < cols -> is_mine rows cols (mines s) r' c' = false ->
  0 <= cell (board (fst (step rc rows cols s r c))) r' c'.
Proof.
  intros Hcols P L Hr Hc HL Hv Hm r' c' Hr' Hc' Hs.
  assert (Hl : legal_b (board s) r c = true) by (unfold legal_b; lia).
  rewrite (step_type_spec rc rows cols nm) in HL by auto. rewrite Hl, Hm in HL. cbn [negb orb b2z] in HL.
  destruct (revealed rows cols (board s) + 1 =? rows * cols - zlen (mines s)) eqn:E; [|discriminate HL].
  pose proof (revealed_next rows cols nm s r c P Hr Hc) as Rv. rewrite Hl in Rv. cbn [b2z] in Rv.
  rewrite (step_unfold rc rows cols nm) by auto. cbn [fst board].
  set (b' := next_board rows cols s r c) in *.
  (* no mine is revealed in b' *)
  assert (NM : forall i j, 0 <= i < rows -> 0 <= j < cols -> 0 <= cell b' i j -> is_mine rows cols (mines s) i j = false).
  { intros i j Hi Hj Hv'. unfold b', next_board in Hv'. destruct P as [S _ _]. rewrite (cell_gset rows cols) in Hv' by (auto; lia).
    destruct ((i =? r) && (j =? c)) eqn:E2; [replace i with r by lia; replace j with c by lia; auto|]. destruct L as [Nm _ _]. auto. }
  pose proof (Phys_mined_squares rows cols nm s Hcols P) as MS. unfold mined_squares in MS.
  destruct P as [S (Lm & _) _].
  (* revealed b' + mined = rows*cols, and revealed + mined <= 1 pointwise *)
  pose proof (sum_cells_const rows cols ltac:(lia) ltac:(lia)) as T.
  pose proof (sum_cells_le_eq rows cols
     (fun i j => b2z (0 <=? cell b' i j) + b2z (is_mine rows cols (mines s) i j)) (fun _ _ => 1)) as Q.
  cbv beta in Q. rewrite sum_cells_add in Q. fold (revealed rows cols b') in Q.
  specialize (Q ltac:(intros i j Hi Hj; destruct (0 <=? cell b' i j) eqn:E3; [rewrite (NM i j Hi Hj) by lia; cbn; lia|
                         pose proof (b2z_range (is_mine rows cols (mines s) i j)); cbn [b2z]; lia]) ltac:(lia) r' c' Hr' Hc').
  rewrite Hs in Q. cbn [b2z] in Q. destruct (0 <=? cell b' r' c') eqn:E4; cbn [b2z] in Q; lia.
Qed.

(* never earlier: an unexplored, unmined square that is not the last safe one keeps the episode running *)
Theorem safe_step_continues rc rows cols nm s r c :
  Phys rows cols nm s -> 0 <= r < rows -> 0 <= c < cols -> cell (board s) r c = -1 -> is_mine rows cols (mines s) r c = false ->
  revealed rows cols (board s) + 1 < rows * cols - zlen (mines s) -> st (snd (step rc rows cols s r c)) = MID.
Proof.
  intros P Hr Hc Hv Hm Hlt. rewrite (step_type_spec rc rows cols nm) by auto.
  assert (Hl : legal_b (board s) r c = true) by (unfold legal_b; lia). rewrite Hl, Hm. cbn [negb orb b2z].
  replace (revealed rows cols (board s) + 1 =? rows * cols - zlen (mines s)) with false by lia. reflexivity.
Qed.

(* every state of an episode is physically consistent; every state from which it continues is Live *)
Theorem run_states rc rows cols nm acts : forall s,
  Phys rows cols nm s -> Live rows cols s -> Forall (in_spec_p rows cols) acts ->
  Forall (fun p => Phys rows cols nm (fst p) /\ (st (snd p) = MID -> Live rows cols (fst p))) (run rc rows cols s acts).
Proof.
  induction acts as [|a rest IH]; intros s P L F; cbn [run]; [constructor|].
  inversion F as [|? ? [Ha1 Ha2] F']; subst. cbv zeta.
  pose proof (step_Phys rc rows cols nm s (fst a) (snd a) P Ha1 Ha2) as P'.
  constructor.
  - split; auto. intro Hmid. apply (step_Live rc rows cols nm s (fst a) (snd a) P L Ha1 Ha2 Hmid).
  - destruct (st (snd (step rc rows cols s (fst a) (snd a))) =? LAST) eqn:E; [constructor|].
    assert (Hmid : st (snd (step rc rows cols s (fst a) (snd a))) = MID).
    { rewrite (step_type_spec rc rows cols nm) in * by auto. destruct (_ || _) in *; [discriminate E|reflexivity]. }
    apply IH; auto. apply (step_Live rc rows cols nm s (fst a) (snd a) P L Ha1 Ha2 Hmid).
Qed.

(* at most one explored square is ever selected in an episode (it ends it) *)
Theorem n_invalid_range rc rows cols nm acts : forall s,
  Phys rows cols nm s -> Forall (in_spec_p rows cols) acts -> 0 <= n_invalid rc rows cols s acts <= 1.
Proof.
  induction acts as [|a rest IH]; intros s P F; cbn [n_invalid]; [lia|].
  inversion F as [|? ? [Ha1 Ha2] F']; subst. cbv zeta.
  pose proof (step_Phys rc rows cols nm s (fst a) (snd a) P Ha1 Ha2) as P'. specialize (IH _ P' F').
  rewrite (step_type_spec rc rows cols nm) by auto.
  destruct (legal_b (board s) (fst a) (snd a)); cbn [negb orb b2z].
  - destruct (_ || _); cbv iota; [change (LAST =? LAST) with true | change (MID =? LAST) with false]; cbv iota; lia.
  - cbv iota. change (LAST =? LAST) with true. cbv iota. lia.
Qed.

(* ---------- C01: value ranges of the observation spec, including terminal states ---------- *)
Theorem step_spec_ok rc rows cols nm s r c :
  Phys rows cols nm s -> Live rows cols s -> 0 <= r < rows -> 0 <= c < cols ->
  spec_ok_b rows cols nm (fst (step rc rows cols s r c)) = true.
Proof.
  intros P L Hr Hc. pose proof (step_Phys rc rows cols nm s r c P Hr Hc) as [S' _ Cl'].
  unfold spec_ok_b. rewrite !andb_true_iff, forallb2_range. split; [split|].
  - intros i j Hi Hj. pose proof (adj_count_range rows cols (mines (fst (step rc rows cols s r c))) i j).
    destruct (Cl' i j Hi Hj) as [E|E]; rewrite E; lia.
  - destruct L as [_ Ct _]. cbn [step fst step_count]. rewrite Ct.
    assert (0 <= revealed rows cols (board s)); [|lia].
    unfold revealed. rewrite <- (sum_cells_zero rows cols). apply sum_cells_le. intros. apply b2z_range.
  - destruct L as [_ Ct Op]. destruct P as [_ (Lm & _) _]. cbn [step fst step_count]. lia.
Qed.

Theorem init_spec_ok rows cols nm locs :
  nm <= rows * cols -> spec_ok_b rows cols nm (fst (init rows cols locs)) = true.
Proof.
  intro H. unfold spec_ok_b, init. cbn [fst board step_count]. rewrite !andb_true_iff, forallb2_range. split; [split|]; try lia.
  intros i j Hi Hj. rewrite cell_repeat by auto. lia.
Qed.

(* ---------- C03: protocol ---------- *)
Theorem step_protocol rc rows cols s r c : step_ok 1 false (snd (step rc rows cols s r c)) = true.
Proof. unfold step. cbn [snd]. destruct (_ || _); reflexivity. Qed.

Theorem init_protocol rows cols locs : first_ok 1 (snd (init rows cols locs)) = true.
Proof. reflexivity. Qed.

(* ---------- C12: the observation's mask plane is the view "board == -1" of the state's board ---------- *)
Theorem obs_mask_view rows cols b r c :
  shaped rows cols b -> 0 <= r < rows -> 0 <= c < cols ->
  gat false (action_mask b) r c = (cell b r c =? -1)
  /\ zlen (action_mask b) = rows /\ zlen (znth [] (action_mask b) r) = cols.
Proof.
  intros S Hr Hc. pose proof (shaped_row _ _ _ _ S Hr) as Lr. destruct S as [L _].
  unfold action_mask. rewrite zlen_map. rewrite (znth_map _ b r [] []) by lia. rewrite zlen_map.
  split; [|auto]. unfold gat, cell, gat. rewrite (znth_map _ b r [] []) by lia. rewrite (znth_map _ _ c 0 false) by lia. reflexivity.
Qed.

Theorem enc_obs_fields nm s :
  enc_obs nm s = concat (board s) ++ concat (map unbools (action_mask (board s))) ++ [nm; step_count s].
Proof. reflexivity. Qed.

(* ---------- non-vacuity: a 2 x 3 board with mines at flat locations 1 and 5 ---------- *)
Definition ex_locs : list Z := [1; 5].
Definition ex_s0 : state := fst (init 2 3 ex_locs).
Definition ex_acts : list (Z * Z) := [(0, 0); (1, 1); (1, 0); (0, 2)].

Example nonvacuous :
  valid_draw 2 3 2 ex_locs = true
  /\ Phys_b 2 3 2 ex_s0 = true /\ Safe_b 2 3 ex_s0 = true
  /\ map (fun p => st (snd p)) (run default_rcfg 2 3 ex_s0 ex_acts) = [MID; MID; MID; LAST]
  /\ ret (run default_rcfg 2 3 ex_s0 ex_acts) = 4
  /\ board (final ex_s0 (run default_rcfg 2 3 ex_s0 ex_acts)) = [[1; -1; 2]; [1; 2; -1]]
  /\ snd (step default_rcfg 2 3 (fst (step default_rcfg 2 3 ex_s0 0 0)) 0 0) = termination 1 [0]
  /\ snd (step (mkR 6 (-2) (-9)) 2 3 ex_s0 0 1) = termination 1 [-2]
  /\ count_adjacent 2 3 ex_locs 1 1 = 2 /\ adj_count 2 3 ex_locs 1 1 = 2
  /\ mined_squares 2 3 ex_locs = 2.
Proof. vm_compute. repeat split; reflexivity. Qed.
