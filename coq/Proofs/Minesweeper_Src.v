(* Minesweeper AS TRANSLATED FROM THE SOURCE (Gen/MinesweeperSrc.v: the whole step, every utils.py function it uses, the default done
   and reward functions, the observation, the reset after the generator call) equals the hand model Model/Minesweeper.v on every board
   of the declared shape, mine list, action (in range or not) and reward constants.  The source reads the sizes off the arrays
   (`board.shape`), the hand model takes rows / cols as parameters: the tie is under `shaped rows cols board` and 0 < rows. *)
Require Import JV.Base.Prelude JV.Base.JaxIndex JV.Base.Codec JV.Base.TimeStep JV.Gen.TimeStepSrc JV.Gen.MinesweeperSrc.
Require JV.Model.Minesweeper.
Require Import JV.Proofs.Minesweeper_lists JV.Proofs.Minesweeper.
Module M := JV.Model.Minesweeper.

Definition conv (s : State) : M.state := M.mkS (s_board s) (s_step_count s) (s_flat_mine_locations s).

Lemma hd_len rows cols (b : list (list Z)) : shaped rows cols b -> 0 < rows -> zlen (hd [] b) = cols.
Proof.
  intros [L F] H. destruct b as [|x b]; [unfold zlen in L; cbn in L; lia|]. cbn [hd]. inversion F as [|? ? H1 H2]. exact H1.
Qed.

Lemma zlen_map {A B} (f : A -> B) l : zlen (map f l) = zlen l.
Proof. unfold zlen. rewrite map_length. reflexivity. Qed.
Lemma zlen_zrange n : 0 <= n -> zlen (zrange n) = n.
Proof. intros H. unfold zlen, zrange. rewrite zrange_from_length. lia. Qed.

Lemma gset_shaped_any rows cols (b : list (list Z)) r c v : shaped rows cols b -> shaped rows cols (gset b r c v).
Proof.
  intros S. unfold gset. cbv zeta. destruct S as [L F].
  destruct ((0 <=? jnorm (zlen b) r) && (jnorm (zlen b) r <? zlen b)) eqn:E1; [|split; assumption].
  set (j := jnorm (zlen b) r) in *. set (row := znth [] b j).
  destruct ((0 <=? jnorm (zlen row) c) && (jnorm (zlen row) c <? zlen row)) eqn:E2; [|split; assumption].
  assert (Lr : zlen row = cols) by (apply (shaped_row rows cols b j); [split; assumption | lia]).
  split; [rewrite zlen_zupd; assumption|]. unfold zupd at 1. destruct (j <? 0); [assumption|].
  apply Forall_upd; [assumption|]. rewrite zlen_zupd. exact Lr.
Qed.

Lemma zsum_app a b : zsum (a ++ b) = zsum a + zsum b.
Proof. induction a as [|x a IH]; cbn [app zsum]; [lia | rewrite IH; lia]. Qed.

Lemma explored_count_src (b : list (list Z)) : m_sum (m_map (fun x_ : Z => Z.geb x_ 0) b) = M.num_explored b.
Proof.
  unfold m_sum, m_map, M.num_explored. induction b as [|row b IH]; cbn [map concat zsum]; [reflexivity|].
  rewrite map_app, zsum_app, IH. f_equal. clear. unfold count_if.
  induction row as [|x row IHr]; cbn [map zsum filter]; [reflexivity|]. rewrite IHr, Z.geb_leb.
  destruct (0 <=? x); cbn [b2z]; [rewrite zlen_cons; reflexivity | lia].
Qed.

Section Tie.
  Variables rows cols : Z.
  Variable s : State.
  Hypothesis Sh : shaped rows cols (s_board s).
  Hypothesis Hr : 0 < rows.
  Let Lb : zlen (s_board s) = rows. Proof. exact (proj1 Sh). Qed.
  Let Lh : zlen (hd [] (s_board s)) = cols. Proof. exact (hd_len rows cols _ Sh Hr). Qed.
  Let Hc : 0 <= cols. Proof. rewrite <- Lh. apply zlen_nonneg. Qed.

  Lemma mined_src : get_mined_board s = M.mined_flat rows cols (s_flat_mine_locations s).
  Proof. unfold get_mined_board, M.mined_flat, scatter_const, IS_MINE. rewrite Lb, Lh, (Z.mul_comm cols rows). reflexivity. Qed.

  Lemma explored_src a : explored_mine s a = M.explored_mine rows cols (s_flat_mine_locations s) (fst a) (snd a).
  Proof.
    destruct a as [r c]. unfold explored_mine, M.explored_mine, IS_MINE. cbv zeta. rewrite mined_src, Lh.
    (* the flat index up to arithmetic (col + row * n, row * n + col, ...) *)
    cbn [fst snd]. match goal with |- (jget 0 ?X ?i =? 1) = (jget 0 ?X ?j =? 1) => replace i with j by lia; reflexivity end.
  Qed.

  Lemma valid_src a : is_valid_action s a = M.is_valid_action (s_board s) (fst a) (snd a).
  Proof. reflexivity. Qed.

  Lemma grid_shape f : zlen (M.reshape rows cols f) = rows /\ zlen (hd [] (M.reshape rows cols f)) = cols.
  Proof.
    unfold M.reshape. split; [rewrite zlen_map; apply zlen_zrange; lia|].
    unfold zrange. destruct (Z.to_nat rows) as [|n] eqn:E; [lia|]. cbn [zrange_from map hd]. rewrite zlen_map. unfold zlen. rewrite zrange_from_length. lia.
  Qed.

  Lemma count_src a : count_adjacent_mines s a = M.count_adjacent rows cols (s_flat_mine_locations s) (fst a) (snd a).
  Proof.
    destruct a as [r c]. unfold count_adjacent_mines, M.count_adjacent, M.mined_grid, PATCH_SIZE. cbv zeta. cbn [fst snd].
    rewrite mined_src, Lb, Lh. change (reshape2 rows cols) with (M.reshape rows cols).
    set (g := M.reshape rows cols _). destruct (grid_shape (M.mined_flat rows cols (s_flat_mine_locations s))) as [G1 G2]. fold g in G1, G2.
    unfold pad2, M.pad. rewrite G1, G2. change (3 - 1) with 2. unfold dyn_slice, M.dslice. rewrite map_map. reflexivity.
  Qed.

  Lemma solved_src (b' : list (list Z)) : shaped rows cols b' ->
    is_solved (mkState b' (s_step_count s + 1) (s_flat_mine_locations s)) = M.is_solved rows cols b' (s_flat_mine_locations s).
  Proof.
    intros S'. unfold is_solved, M.is_solved. cbv zeta. cbn [s_board s_flat_mine_locations].
    rewrite explored_count_src, (proj1 S'), (hd_len rows cols b' S' Hr). reflexivity.
  Qed.

  (* the whole step, with the shipped done function and the shipped reward function on ANY three constants *)
  Theorem step_src nm re rm ri a :
    let r := step nm (DefaultRewardFn_call re rm ri) DefaultDoneFn_call s a in
    let m := M.step (M.mkR re rm ri) rows cols (conv s) (fst a) (snd a) in
    conv (fst r) = fst m /\ snd r = snd m.
  Proof.
    cbv zeta. unfold step, M.step, DefaultDoneFn_call, DefaultRewardFn_call. cbv zeta. cbn [fst snd conv M.board M.step_count M.mines].
    rewrite count_src, explored_src, valid_src.
    rewrite (solved_src _ (gset_shaped_any rows cols _ (fst a) (snd a) _ Sh)).
    cbn [s_board s_step_count s_flat_mine_locations]. split; [reflexivity|].
    unfold M.reward_fn, cond_done, termination_src, transition_src, termination, transition, StepType_LAST, StepType_MID, LAST, MID.
    cbn [M.r_empty M.r_mine M.r_invalid].
    destruct (negb (M.is_valid_action (s_board s) (fst a) (snd a)) || _ || _); reflexivity.
  Qed.

  (* the observation of the source is the state's board, the unexplored-mask of the hand model, num_mines and the step count *)
  Lemma obs_src nm : let o := state_to_observation nm s in
    o_board o = s_board s /\ o_action_mask o = M.action_mask (s_board s) /\ o_num_mines o = nm /\ o_step_count o = s_step_count s.
  Proof. cbv zeta. unfold state_to_observation, M.action_mask, m_map, UNEXPLORED_ID. cbn. repeat split; reflexivity. Qed.
End Tie.

Lemma default_constants_src : default_reward_quarters = (4 * M.r_empty M.default_rcfg, 4 * M.r_mine M.default_rcfg, 4 * M.r_invalid M.default_rcfg).
Proof. reflexivity. Qed.

(* reset after the generator call: the generator's state unchanged + a FIRST timestep; on the generator's output (unexplored board,
   step count 0) this is the hand model's init *)
Lemma reset_src rows cols nm locs :
  let s0 := mkState (repeat (repeat (-1) (Z.to_nat cols)) (Z.to_nat rows)) 0 locs in
  conv (fst (reset_from nm s0)) = fst (M.init rows cols locs) /\ snd (reset_from nm s0) = snd (M.init rows cols locs).
Proof. cbv zeta. unfold reset_from, M.init. cbn [fst snd conv s_board s_step_count s_flat_mine_locations]. split; reflexivity. Qed.

(* ---- the Minesweeper theorems, transferred to the translated source ---- *)
Section Transfer.
  Variables rows cols nm re rm ri : Z.
  Local Notation rc := (M.mkR re rm ri).
  Local Notation sstep := (step nm (DefaultRewardFn_call re rm ri) DefaultDoneFn_call).

  Lemma src_step_follows_rules s a : Phys rows cols nm (conv s) -> 0 <= fst a < rows -> 0 <= snd a < cols ->
    (conv (fst (sstep s a)), snd (sstep s a)) = M.rules_step rc rows cols (conv s) (fst a) (snd a).
  Proof.
    intros P Hr Hc. destruct (step_src rows cols s (ph_shape _ _ _ _ P) ltac:(lia) nm re rm ri a) as [E1 E2]. rewrite E1, E2.
    rewrite <- (step_eq_rules rc rows cols nm (conv s) (fst a) (snd a) P Hr Hc). destruct (M.step _ _ _ _ _ _); reflexivity.
  Qed.
  Lemma src_step_consistent s a : Phys rows cols nm (conv s) -> 0 <= fst a < rows -> 0 <= snd a < cols -> Phys rows cols nm (conv (fst (sstep s a))).
  Proof.
    intros P Hr Hc. destruct (step_src rows cols s (ph_shape _ _ _ _ P) ltac:(lia) nm re rm ri a) as [E1 _]. rewrite E1.
    exact (step_Phys rc rows cols nm (conv s) (fst a) (snd a) P Hr Hc).
  Qed.
  (* the mask the source step hands out (in the observation of the NEW state) is exactly the set of legal squares of the new board *)
  Lemma src_obs_mask_iff_legal s a r c : Phys rows cols nm (conv s) -> 0 <= fst a < rows -> 0 <= snd a < cols -> 0 <= r < rows -> 0 <= c < cols ->
    let s' := fst (sstep s a) in
    (gat false (o_action_mask (state_to_observation nm s')) r c = true <-> M.legal (s_board s') r c).
  Proof.
    intros P Hr Hc Hr' Hc'. cbv zeta. destruct (obs_src (fst (sstep s a)) nm) as (_ & E & _). rewrite E.
    apply (mask_iff_legal rows cols). - exact (ph_shape _ _ _ _ (src_step_consistent s a P Hr Hc)). - exact Hr'. - exact Hc'.
  Qed.
  Lemma src_obs_view s : let o := state_to_observation nm s in
    o_board o = s_board s /\ o_action_mask o = M.action_mask (s_board s) /\ o_num_mines o = nm /\ o_step_count o = s_step_count s.
  Proof. exact (obs_src s nm). Qed.
  (* C05: an already explored square terminates with the invalid-action reward, the board untouched *)
  Lemma src_explored_terminates s a : Phys rows cols nm (conv s) -> 0 <= fst a < rows -> 0 <= snd a < cols -> M.cell (s_board s) (fst a) (snd a) <> -1 ->
    conv (fst (sstep s a)) = M.mkS (s_board s) (s_step_count s + 1) (s_flat_mine_locations s) /\ snd (sstep s a) = termination 1 [ri].
  Proof.
    intros P Hr Hc Hx. destruct (step_src rows cols s (ph_shape _ _ _ _ P) ltac:(lia) nm re rm ri a) as [E1 E2]. rewrite E1, E2.
    rewrite (explored_terminates rc rows cols nm (conv s) (fst a) (snd a) P Hr Hc Hx). split; reflexivity.
  Qed.
End Transfer.

(* C03 on the translated step: never FIRST, MID with discount 1 or LAST with discount 0 (no truncation) -- any action, in range or not *)
Lemma src_step_protocol rows cols nm re rm ri s a : shaped rows cols (s_board s) -> 0 < rows ->
  step_ok 1 false (snd (step nm (DefaultRewardFn_call re rm ri) DefaultDoneFn_call s a)) = true.
Proof.
  intros Sh Hr. destruct (step_src rows cols s Sh Hr nm re rm ri a) as [_ E]. rewrite E. apply step_protocol.
Qed.

(* ---- whole episodes of the translated step ---- *)
Section Episodes.
  Variables rows cols nm re rm ri : Z.
  Hypothesis Hrows : 0 < rows.
  Local Notation rc := (M.mkR re rm ri).
  Local Notation sstep := (step nm (DefaultRewardFn_call re rm ri) DefaultDoneFn_call).

  (* any action sequence, played through (also past LAST) *)
  Fixpoint play_src (s : State) (acts : list (Z * Z)) : State :=
    match acts with [] => s | a :: rest => play_src (fst (sstep s a)) rest end.
  (* an episode: the steps up to and including the first LAST *)
  Fixpoint run_src (s : State) (acts : list (Z * Z)) : list (State * tstep) :=
    match acts with
    | [] => []
    | a :: rest => let p := sstep s a in p :: (if st (snd p) =? LAST then [] else run_src (fst p) rest)
    end.
  Definition cp (p : State * tstep) : M.state * tstep := (conv (fst p), snd p).

  Lemma play_src_eq acts : forall s, Phys rows cols nm (conv s) -> Forall (in_spec_p rows cols) acts ->
    conv (play_src s acts) = play rc rows cols (conv s) acts.
  Proof.
    induction acts as [|a rest IH]; intros s P F; cbn [play_src play]; [reflexivity|].
    inversion F as [|? ? [Ha1 Ha2] F']; subst.
    destruct (step_src rows cols s (ph_shape _ _ _ _ P) Hrows nm re rm ri a) as [E1 _].
    rewrite IH; [rewrite E1; reflexivity | rewrite E1; apply step_Phys; assumption | assumption].
  Qed.

  Lemma run_src_eq acts : forall s, Phys rows cols nm (conv s) -> Forall (in_spec_p rows cols) acts ->
    map cp (run_src s acts) = M.run rc rows cols (conv s) acts.
  Proof.
    induction acts as [|a rest IH]; intros s P F; cbn [run_src M.run map]; [reflexivity|].
    inversion F as [|? ? [Ha1 Ha2] F']; subst.
    destruct (step_src rows cols s (ph_shape _ _ _ _ P) Hrows nm re rm ri a) as [E1 E2].
    unfold cp at 1. rewrite E1, E2. rewrite <- surjective_pairing. f_equal.
    destruct (st (snd (M.step rc rows cols (conv s) (fst a) (snd a))) =? LAST); [reflexivity|].
    rewrite IH; [rewrite E1; reflexivity | rewrite E1; apply step_Phys; assumption | assumption].
  Qed.

  (* C07: every state reached by the translated step under in-spec actions is physically consistent *)
  Lemma src_any_actions s acts : Phys rows cols nm (conv s) -> Forall (in_spec_p rows cols) acts -> Phys rows cols nm (conv (play_src s acts)).
  Proof. intros P F. rewrite (play_src_eq acts s P F). exact (play_Phys rc rows cols nm acts (conv s) P F). Qed.

  (* C08: the return of an episode of the translated step telescopes into the documented objective *)
  Lemma src_return_decomposition s acts : Phys rows cols nm (conv s) -> Forall (in_spec_p rows cols) acts ->
    let tr := map cp (run_src s acts) in
    M.ret tr = re * (M.safe_revealed rows cols (M.final (conv s) tr) - M.safe_revealed rows cols (conv s))
             + rm * (M.mine_revealed rows cols (M.final (conv s) tr) - M.mine_revealed rows cols (conv s))
             + ri * n_invalid rc rows cols (conv s) acts.
  Proof. intros P F. cbv zeta. rewrite (run_src_eq acts s P F). exact (return_decomposition rc rows cols nm acts (conv s) P F). Qed.

  (* C04, history form: from the generator's state the mask handed out after ANY in-spec action sequence is True exactly on the
     squares not played yet *)
  Lemma src_mask_iff_not_played locs acts r c : 0 <= cols -> M.valid_draw rows cols nm locs = true -> Forall (in_spec_p rows cols) acts ->
    0 <= r < rows -> 0 <= c < cols ->
    let s0 := fst (reset_from nm (mkState (repeat (repeat (-1) (Z.to_nat cols)) (Z.to_nat rows)) 0 locs)) in
    (gat false (o_action_mask (state_to_observation nm (play_src s0 acts))) r c = true <-> ~ In (r, c) acts).
  Proof.
    intros Hc V F Hr Hc'. cbv zeta. destruct (reset_src rows cols nm locs) as [E0 _]. cbv zeta in E0.
    set (s0 := fst (reset_from nm (mkState (repeat (repeat (-1) (Z.to_nat cols)) (Z.to_nat rows)) 0 locs))) in *.
    assert (P0 : Phys rows cols nm (conv s0)) by (rewrite E0; apply init_Phys; [lia | assumption | assumption]).
    destruct (obs_src (play_src s0 acts) nm) as (_ & E & _). rewrite E.
    change (s_board (play_src s0 acts)) with (M.board (conv (play_src s0 acts))). rewrite (play_src_eq acts s0 P0 F), E0.
    exact (mask_iff_not_played rc rows cols nm locs acts r c ltac:(lia) Hc V F Hr Hc').
  Qed.
End Episodes.

(* C10 on the translated reset: the state handed out after the generator call is the generator's state, and for a valid draw it is
   physically consistent *)
Lemma src_reset_wellformed rows cols nm locs : 0 <= rows -> 0 <= cols -> M.valid_draw rows cols nm locs = true ->
  let s0 := fst (reset_from nm (mkState (repeat (repeat (-1) (Z.to_nat cols)) (Z.to_nat rows)) 0 locs)) in
  Phys rows cols nm (conv s0) /\ s_flat_mine_locations s0 = locs /\ first_ok 1 (snd (reset_from nm (mkState (repeat (repeat (-1) (Z.to_nat cols)) (Z.to_nat rows)) 0 locs))) = true.
Proof.
  intros Hr Hc V. cbv zeta. destruct (reset_src rows cols nm locs) as [E0 E1]. cbv zeta in E0, E1. rewrite E0, E1.
  split; [exact (init_Phys rows cols nm locs Hr Hc V)|]. split; reflexivity.
Qed.
