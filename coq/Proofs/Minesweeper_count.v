(* Minesweeper, C09 core: the number the code reveals -- scatter of the flat mine locations, reshape, jnp.pad by 2,
   two dynamic_slice_in_dim of size 3 at (row+1, col+1), sum, minus the centre -- is the number of mined squares
   among the (at most) 8 neighbours, for every board size, every mine list inside the board and every square. *)
Require Import JV.Base.Prelude JV.Base.JaxIndex JV.Base.Codec JV.Base.TimeStep JV.Model.Minesweeper.
Require Import JV.Proofs.Minesweeper_lists.

Definition in_board (rows cols : Z) (ms : list Z) : Prop := Forall (fun i => 0 <= i < rows * cols) ms.

Lemma scatter_length (ms : list Z) : forall base, length (fold_left (fun b i => jset b i 1) ms base) = length base.
Proof. induction ms as [|m ms IH]; intro base; cbn [fold_left]; auto. rewrite IH, jset_length. reflexivity. Qed.

Lemma scatter_nth (N : Z) (ms : list Z) : forall base i,
  zlen base = N -> Forall (fun m => 0 <= m < N) ms -> 0 <= i < N ->
  nth (Z.to_nat i) (fold_left (fun b j => jset b j 1) ms base) 0
  = if existsb (Z.eqb i) ms then 1 else nth (Z.to_nat i) base 0.
Proof.
  induction ms as [|m ms IH]; intros base i L F Hi; cbn [fold_left existsb]; auto.
  inversion F as [|? ? Hm F']; subst.
  rewrite IH by (try rewrite zlen_jset; auto). rewrite nth_jset by lia.
  unfold jnorm. destruct (m <? 0) eqn:E; [lia|].
  destruct (existsb (Z.eqb i) ms); [rewrite orb_true_r; reflexivity|]. rewrite orb_false_r.
  rewrite (Z.eqb_sym i m). reflexivity.
Qed.

Lemma zlen_mined_flat rows cols ms : 0 <= rows * cols -> zlen (mined_flat rows cols ms) = rows * cols.
Proof. intro H. unfold mined_flat, zlen. rewrite scatter_length, repeat_length. lia. Qed.

Lemma mined_flat_nth rows cols ms i :
  in_board rows cols ms -> 0 <= i < rows * cols ->
  znth 0 (mined_flat rows cols ms) i = b2z (existsb (Z.eqb i) ms).
Proof.
  intros F Hi. rewrite znth_nth by lia. unfold mined_flat.
  rewrite (scatter_nth (rows * cols)); auto; [|unfold zlen; rewrite repeat_length; lia].
  destruct (existsb (Z.eqb i) ms); [reflexivity|]. cbn [b2z].
  rewrite <- znth_nth by lia. apply znth_repeat. lia.
Qed.

Lemma flat_index_range rows cols r c : 0 <= r < rows -> 0 <= c < cols -> 0 <= r * cols + c < rows * cols.
Proof. intros. nia. Qed.

(* the reshaped mined board, read strictly *)
Lemma mined_grid_cell rows cols ms r c :
  in_board rows cols ms -> 0 <= r < rows -> 0 <= c < cols ->
  gat 0 (mined_grid rows cols ms) r c = b2z (is_mine rows cols ms r c).
Proof.
  intros F Hr Hc. unfold gat, mined_grid, reshape.
  rewrite (znth_map_zrange _ rows r []) by lia. rewrite (znth_map_zrange _ cols c 0) by lia.
  rewrite mined_flat_nth by (auto using flat_index_range).
  unfold is_mine, inb. replace ((0 <=? r) && (r <? rows)) with true by lia.
  replace ((0 <=? c) && (c <? cols)) with true by lia. reflexivity.
Qed.

Lemma is_mine_out rows cols ms r c : inb rows r && inb cols c = false -> is_mine rows cols ms r c = false.
Proof. intro H. unfold is_mine. rewrite H. reflexivity. Qed.

Lemma zlen_mined_grid rows cols ms : 0 <= rows -> zlen (mined_grid rows cols ms) = rows.
Proof. intro H. unfold mined_grid, reshape. apply zlen_map_zrange; auto. Qed.

Lemma mined_grid_row_len rows cols ms r : 0 <= r < rows -> 0 <= cols -> zlen (znth [] (mined_grid rows cols ms) r) = cols.
Proof.
  intros Hr Hc. unfold mined_grid, reshape. rewrite (znth_map_zrange _ rows r []) by lia.
  apply zlen_map_zrange; auto.
Qed.

(* the gather mined_board[tuple(action)] inside the board *)
Lemma mined_grid_gget rows cols ms r c :
  in_board rows cols ms -> 0 <= r < rows -> 0 <= c < cols ->
  gget 0 (mined_grid rows cols ms) r c = b2z (is_mine rows cols ms r c).
Proof.
  intros F Hr Hc. rewrite <- mined_grid_cell by auto. unfold gget, gat, jget.
  rewrite zlen_mined_grid by lia. rewrite (jclamp_id rows r) by lia.
  rewrite mined_grid_row_len by lia. rewrite (jclamp_id cols c) by lia. reflexivity.
Qed.

(* the padded board: entry (i, j) is the mine indicator of square (i-2, j-2), zero outside the board *)
Definition pad_row (rows cols : Z) (ms : list Z) (i : Z) : list Z :=
  map (fun j => if inb rows (i - 2) && inb cols (j - 2) then gat 0 (mined_grid rows cols ms) (i - 2) (j - 2) else 0)
      (zrange (cols + 2 * 2)).

Lemma pad_row_entry rows cols ms i j :
  in_board rows cols ms -> 0 <= j < cols + 4 ->
  znth 0 (pad_row rows cols ms i) j = b2z (is_mine rows cols ms (i - 2) (j - 2)).
Proof.
  intros F Hj. unfold pad_row. rewrite (znth_map_zrange _ (cols + 2 * 2) j 0) by lia.
  destruct (inb rows (i - 2) && inb cols (j - 2)) eqn:E.
  - unfold inb in E. apply mined_grid_cell; auto; lia.
  - rewrite is_mine_out by auto. reflexivity.
Qed.

Lemma zlen_pad_row rows cols ms i : 0 <= cols -> zlen (pad_row rows cols ms i) = cols + 4.
Proof. intro H. unfold pad_row. rewrite zlen_map_zrange by lia. lia. Qed.

Lemma pad_rows rows cols ms : pad 2 rows cols (mined_grid rows cols ms) = map (pad_row rows cols ms) (zrange (rows + 2 * 2)).
Proof. reflexivity. Qed.

Lemma dslice_window {A} (d : A) l k : 0 <= k -> k + 3 <= zlen l ->
  dslice l k 3 = [znth d l k; znth d l (k + 1); znth d l (k + 2)].
Proof. intros. unfold dslice. apply dslice3; auto. Qed.

(* one 3-window of a padded row *)
Lemma pad_row_window rows cols ms i c :
  in_board rows cols ms -> 0 <= c < cols ->
  zsum (dslice (pad_row rows cols ms i) (c + 1) 3)
  = b2z (is_mine rows cols ms (i - 2) (c - 1)) + b2z (is_mine rows cols ms (i - 2) c) + b2z (is_mine rows cols ms (i - 2) (c + 1)).
Proof.
  intros F Hc. rewrite (dslice_window 0) by (try rewrite zlen_pad_row; lia).
  rewrite !pad_row_entry by (auto; lia). cbn [zsum].
  replace (c + 1 - 2) with (c - 1) by lia. replace (c + 1 + 1 - 2) with c by lia. replace (c + 1 + 2 - 2) with (c + 1) by lia. lia.
Qed.

(* C09: count_adjacent_mines computes the number of mined neighbours *)
Theorem count_adjacent_eq rows cols ms r c :
  in_board rows cols ms -> 0 <= r < rows -> 0 <= c < cols ->
  count_adjacent rows cols ms r c = adj_count rows cols ms r c.
Proof.
  intros F Hr Hc. unfold count_adjacent. cbv zeta. rewrite pad_rows, mined_grid_gget by auto.
  rewrite (dslice_window [] (map _ _)) by (try rewrite zlen_map_zrange; lia).
  rewrite !(znth_map_zrange _ (rows + 2 * 2) _ []) by lia.
  cbn [map zsum]. rewrite !pad_row_window by auto.
  unfold adj_count, offsets8. cbn [map zsum fst snd].
  replace (r + 1 - 2) with (r + -1) by lia. replace (r + 1 + 1 - 2) with r by lia. replace (r + 1 + 2 - 2) with (r + 1) by lia.
  replace (c - 1) with (c + -1) by lia. replace (r + 0) with r by lia. replace (c + 0) with c by lia. lia.
Qed.

Lemma adj_count_range rows cols ms r c : 0 <= adj_count rows cols ms r c <= 8.
Proof.
  unfold adj_count, offsets8. cbn [map zsum fst snd].
  repeat match goal with |- context [b2z ?b] => let H := fresh in pose proof (b2z_range b) as H; generalize dependent (b2z b); intros end.
  lia.
Qed.

(* explored_mine: the gather on the flat mined board *)
Theorem explored_mine_eq rows cols ms r c :
  in_board rows cols ms -> 0 <= r < rows -> 0 <= c < cols ->
  explored_mine rows cols ms r c = is_mine rows cols ms r c.
Proof.
  intros F Hr Hc. pose proof (flat_index_range rows cols r c Hr Hc) as Hi.
  unfold explored_mine, jget. rewrite zlen_mined_flat by lia.
  replace (c + r * cols) with (r * cols + c) by lia. rewrite jclamp_id by lia.
  rewrite mined_flat_nth by auto. unfold is_mine, inb.
  replace ((0 <=? r) && (r <? rows)) with true by lia. replace ((0 <=? c) && (c <? cols)) with true by lia.
  destruct (existsb _ ms); reflexivity.
Qed.
