(* Generic list / zrange / grid lemmas used by the Minesweeper proofs (kept in this environment's own files). *)
Require Import JV.Base.Prelude JV.Base.JaxIndex.

Lemma znth_nth {A} (d : A) l i : 0 <= i -> znth d l i = nth (Z.to_nat i) l d.
Proof. intro H. unfold znth. destruct (i <? 0) eqn:E; [lia|reflexivity]. Qed.

Lemma zrange_length n : length (zrange n) = Z.to_nat n.
Proof. unfold zrange. apply zrange_from_length. Qed.

Lemma zlen_zrange n : 0 <= n -> zlen (zrange n) = n.
Proof. intro H. unfold zlen. rewrite zrange_length. lia. Qed.

Lemma nth_zrange i n : 0 <= i < n -> nth (Z.to_nat i) (zrange n) 0 = i.
Proof. intro H. unfold zrange. rewrite zrange_from_nth by lia. lia. Qed.

Lemma nth_map_zrange {A} (f : Z -> A) n i d : 0 <= i < n -> nth (Z.to_nat i) (map f (zrange n)) d = f i.
Proof.
  intro H. rewrite (nth_indep _ d (f 0)) by (rewrite map_length, zrange_length; lia).
  rewrite map_nth, nth_zrange by lia. reflexivity.
Qed.

Lemma znth_map_zrange {A} (f : Z -> A) n i d : 0 <= i < n -> znth d (map f (zrange n)) i = f i.
Proof. intro H. rewrite znth_nth by lia. apply nth_map_zrange; auto. Qed.

Lemma zlen_map {A B} (f : A -> B) l : zlen (map f l) = zlen l.
Proof. unfold zlen. rewrite map_length. reflexivity. Qed.

Lemma zlen_map_zrange {A} (f : Z -> A) n : 0 <= n -> zlen (map f (zrange n)) = n.
Proof. intro H. rewrite zlen_map. apply zlen_zrange; auto. Qed.

Lemma znth_map {A B} (f : A -> B) l i d d' : 0 <= i < zlen l -> znth d' (map f l) i = f (znth d l i).
Proof.
  intro H. rewrite !znth_nth by lia. rewrite (nth_indep _ d' (f d)) by (rewrite map_length; unfold zlen in H; lia).
  apply map_nth.
Qed.

(* a list is the table of its own entries *)
Lemma list_as_map {A} (d : A) l : l = map (fun i => znth d l i) (zrange (zlen l)).
Proof.
  apply (nth_ext _ _ d d).
  - rewrite map_length, zrange_length. unfold zlen. lia.
  - intros k Hk. replace k with (Z.to_nat (Z.of_nat k)) by lia.
    rewrite nth_map_zrange by (unfold zlen; lia). rewrite znth_nth by lia. reflexivity.
Qed.

Lemma znth_repeat {A} (d x : A) n i : 0 <= i < Z.of_nat n -> znth d (repeat x n) i = x.
Proof.
  intro H. rewrite znth_nth by lia.
  assert (G : forall k m, (k < m)%nat -> nth k (repeat x m) d = x).
  { intros k m; revert k; induction m; intros [|k] Hk; cbn; auto; try lia. apply IHm; lia. }
  apply G; lia.
Qed.

(* ---------- sums ---------- *)
Lemma zsum_map_ext {A} (f g : A -> Z) l : (forall x, In x l -> f x = g x) -> zsum (map f l) = zsum (map g l).
Proof.
  induction l as [|x l IH]; intro H; cbn [map zsum]; auto.
  rewrite (H x) by (left; auto). rewrite IH; auto. intros y Hy; apply H; right; auto.
Qed.

Lemma zsum_map_zero {A} (l : list A) : zsum (map (fun _ => 0) l) = 0.
Proof. induction l; cbn [map zsum]; lia. Qed.

Lemma zsum_map_add {A} (f g : A -> Z) l : zsum (map (fun x => f x + g x) l) = zsum (map f l) + zsum (map g l).
Proof. induction l; cbn [map zsum]; lia. Qed.

Lemma zsum_map_scale {A} (k : Z) (f : A -> Z) l : zsum (map (fun x => k * f x) l) = k * zsum (map f l).
Proof. induction l; cbn [map zsum]; lia. Qed.

Lemma zsum_map_le {A} (f g : A -> Z) l : (forall x, In x l -> f x <= g x) -> zsum (map f l) <= zsum (map g l).
Proof.
  induction l as [|x l IH]; intro H; cbn [map zsum]; [lia|].
  pose proof (H x (or_introl eq_refl)). assert (zsum (map f l) <= zsum (map g l)) by (apply IH; intros; apply H; right; auto). lia.
Qed.

(* pointwise <= with equal sums: pointwise equal *)
Lemma zsum_map_le_eq {A} (f g : A -> Z) l :
  (forall x, In x l -> f x <= g x) -> zsum (map f l) = zsum (map g l) -> forall x, In x l -> f x = g x.
Proof.
  induction l as [|y l IH]; intros H E x Hx; [destruct Hx|]. cbn [map zsum] in E.
  pose proof (H y (or_introl eq_refl)) as Hy.
  assert (Hl : zsum (map f l) <= zsum (map g l)) by (apply zsum_map_le; intros; apply H; right; auto).
  destruct Hx as [->|Hx]; [lia|]. apply IH; auto; [intros; apply H; right; auto | lia].
Qed.

Lemma zsum_map_map {A B} (f : B -> Z) (g : A -> B) l : zsum (map f (map g l)) = zsum (map (fun x => f (g x)) l).
Proof. rewrite map_map. reflexivity. Qed.

Lemma zsum_point_from (f g : Z -> Z) k : forall m s,
  (forall i, s <= i < s + Z.of_nat m -> i <> k -> f i = g i) ->
  zsum (map f (zrange_from s m)) = zsum (map g (zrange_from s m))
                                  + (if (s <=? k) && (k <? s + Z.of_nat m) then f k - g k else 0).
Proof.
  induction m as [|m IH]; intros s H; cbn [zrange_from map zsum].
  - destruct ((s <=? k) && (k <? s + Z.of_nat 0)) eqn:E; lia.
  - rewrite IH by (intros i Hi Hk; apply H; lia).
    destruct (Z.eq_dec s k) as [->|Hne].
    + replace ((k + 1 <=? k) && (k <? k + 1 + Z.of_nat m)) with false by lia.
      replace ((k <=? k) && (k <? k + Z.of_nat (S m))) with true by lia. lia.
    + rewrite (H s) by lia.
      destruct ((s + 1 <=? k) && (k <? s + 1 + Z.of_nat m)) eqn:E1;
        destruct ((s <=? k) && (k <? s + Z.of_nat (S m))) eqn:E2; lia.
Qed.

(* two tables that differ in one entry *)
Lemma zsum_point (f g : Z -> Z) n k :
  0 <= k < n -> (forall i, 0 <= i < n -> i <> k -> f i = g i) ->
  zsum (map f (zrange n)) = zsum (map g (zrange n)) + f k - g k.
Proof.
  intros Hk H. unfold zrange. rewrite (zsum_point_from f g k) by (intros; apply H; lia).
  replace ((0 <=? k) && (k <? 0 + Z.of_nat (Z.to_nat n))) with true by lia. lia.
Qed.

Lemma zsum_indicator n k : zsum (map (fun i => b2z (i =? k)) (zrange n)) = b2z (inb n k).
Proof.
  unfold inb. destruct ((0 <=? k) && (k <? n)) eqn:E.
  - rewrite (zsum_point _ (fun _ => 0) n k) by (try lia; intros i Hi Hne; replace (i =? k) with false by lia; reflexivity).
    rewrite zsum_map_zero. replace (k =? k) with true by lia. reflexivity.
  - rewrite (zsum_map_ext _ (fun _ => 0)); [apply zsum_map_zero|].
    intros i Hi. apply in_zrange in Hi. replace (i =? k) with false by lia. reflexivity.
Qed.

Lemma count_if_zsum {A} (p : A -> bool) l : count_if p l = zsum (map (fun x => b2z (p x)) l).
Proof.
  unfold count_if. induction l as [|x l IH]; cbn [filter map zsum]; [reflexivity|].
  destruct (p x); cbn [b2z]; [rewrite zlen_cons|]; lia.
Qed.

Lemma b2z_range b : 0 <= b2z b <= 1.
Proof. destruct b; cbn; lia. Qed.

(* ---------- updates ---------- *)
Lemma znth_zupd {A} (d : A) l i v j :
  0 <= i < zlen l -> 0 <= j -> znth d (zupd i v l) j = if j =? i then v else znth d l j.
Proof.
  intros Hi Hj. rewrite !znth_nth by lia. unfold zupd. destruct (i <? 0) eqn:E; [lia|].
  destruct (j =? i) eqn:E2.
  - assert (j = i) by lia. subst. apply nth_upd_same. unfold zlen in Hi. lia.
  - apply nth_upd_other. lia.
Qed.

Lemma zlen_zupd {A} i (v : A) l : zlen (zupd i v l) = zlen l.
Proof. unfold zlen. rewrite zupd_length. reflexivity. Qed.

Lemma upd_nth_same {A} (d : A) l n : upd n (nth n l d) l = l.
Proof. revert n; induction l as [|x l IH]; intros [|n]; cbn; auto. f_equal. apply IH. Qed.

Lemma zupd_same {A} (d : A) l i : 0 <= i -> zupd i (znth d l i) l = l.
Proof. intro H. unfold zupd. rewrite znth_nth by lia. destruct (i <? 0) eqn:E; [lia|]. apply upd_nth_same. Qed.

Lemma nth_jset {A} (l : list A) i v c d :
  0 <= c < zlen l ->
  nth (Z.to_nat c) (jset l i v) d = if jnorm (zlen l) i =? c then v else nth (Z.to_nat c) l d.
Proof.
  intro Hc. unfold jset. set (j := jnorm (zlen l) i).
  destruct ((0 <=? j) && (j <? zlen l)) eqn:R.
  - unfold zupd. destruct (j <? 0) eqn:E; [lia|].
    destruct (j =? c) eqn:E2.
    + assert (j = c) by lia. subst c. apply nth_upd_same. unfold zlen in *. lia.
    + apply nth_upd_other. lia.
  - destruct (j =? c) eqn:E2; [lia|reflexivity].
Qed.

Lemma zlen_jset {A} (l : list A) i v : zlen (jset l i v) = zlen l.
Proof. unfold zlen. rewrite jset_length. reflexivity. Qed.

(* a window of three consecutive entries *)
Lemma firstn3_skipn {A} (d : A) : forall k l, (k + 3 <= length l)%nat ->
  firstn 3 (skipn k l) = [nth k l d; nth (S k) l d; nth (S (S k)) l d].
Proof.
  induction k as [|k IH]; intros l H.
  - destruct l as [|a [|b [|c l]]]; cbn in H; try lia. reflexivity.
  - destruct l as [|a l]; cbn in H; [lia|]. cbn [skipn nth]. apply IH. lia.
Qed.

Lemma dslice3 {A} (d : A) l k : 0 <= k -> k + 3 <= zlen l ->
  firstn_z 3 (skipn_z (dyn_start (zlen l) 3 k) l) = [znth d l k; znth d l (k + 1); znth d l (k + 2)].
Proof.
  intros H0 H1. unfold dyn_start, jnorm. destruct (k <? 0) eqn:E; [lia|].
  replace (Z.max 0 (Z.min (zlen l - 3) k)) with k by lia.
  unfold firstn_z, skipn_z. change (Z.to_nat 3) with 3%nat.
  rewrite (firstn3_skipn d) by (unfold zlen in H1; lia).
  rewrite !znth_nth by lia. repeat f_equal; lia.
Qed.
