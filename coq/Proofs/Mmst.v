(* MMST: tie-break analysis, the state invariant [Inv] (active edges = base graph minus foreign utility nodes,
   utility exclusivity, routes connected) and its preservation by EVERY step (any actions, any permutation draw);
   mask = legal moves (C04), illegal moves (C05), hard constraints (C06), episode protocol (C03, C11).        *)
Require Import JV.Base.Prelude JV.Base.JaxIndex JV.Base.Codec JV.Base.TimeStep JV.Model.Mmst JV.Proofs.Mmst_lib.

(* ================= tie-break loop ================= *)
Section TieBreak.
Variables (A : Z) (nodes acts : list Z).
Hypothesis Hn : zlen nodes = A.
Hypothesis Hr : forall k, 0 <= k < A -> -1 <= znth (-1) nodes k.

Definition won (newa : list Z) (k : Z) : Prop := znth (-1) newa k <> -1 /\ znth (-1) newa k <> -2.

Record TB (st : list Z * list Z) : Prop := {
  tb_la : zlen (fst st) = A;
  tb_ln : zlen (snd st) = A;
  tb1 : forall k, 0 <= k < A -> won (snd st) k -> znth 0 (fst st) k = znth (-1) nodes k /\ 0 <= znth (-1) nodes k;
  tb2 : forall k l, 0 <= k < A -> 0 <= l < A -> k <> l -> 0 <= znth 0 (fst st) k -> znth 0 (fst st) k <> znth 0 (fst st) l }.

Lemma hit_jget i k : hit A i k = true -> jget (-1) nodes i = znth (-1) nodes k.
Proof.
  unfold hit. intro H. unfold jget, jclamp. rewrite Hn. f_equal. lia.
Qed.

Lemma hit_unique i k l : hit A i k = true -> hit A i l = true -> k = l.
Proof. unfold hit. lia. Qed.

Lemma tb_step_TB st i : TB st -> TB (tb_step nodes acts st i).
Proof.
  destruct st as [added newa]. intros [La Ln T1 T2]. cbn [fst snd] in *. unfold tb_step.
  set (v := jget (-1) nodes i).
  destruct (v =? -1) eqn:Ev; [constructor; auto|].
  destruct (existsb (Z.eqb v) added) eqn:Ex; cbn [negb].
  - constructor; cbn [fst snd]; unfold INVALID_TIE_BREAK.
    + rewrite zlen_jset; auto.
    + rewrite zlen_jset; auto.
    + intros k Hk [W1 W2]. rewrite znth_jset in W1, W2 by lia. rewrite znth_jset by lia. rewrite Ln in *. rewrite La.
      destruct (hit A i k) eqn:Hh; [congruence|]. apply T1; auto. split; auto.
    + intros k l Hk Hl Hkl. rewrite !znth_jset by lia. rewrite La.
      destruct (hit A i k) eqn:Hh; [lia|]. intro P.
      destruct (hit A i l) eqn:Hh2; [lia|]. apply T2; auto.
  - assert (Hnot : forall l, 0 <= l < A -> znth 0 added l <> v).
    { intros l Hl. apply (proj1 (existsb_eqb_false v added) Ex). lia. }
    constructor; cbn [fst snd].
    + rewrite zlen_jset; auto.
    + rewrite zlen_jset; auto.
    + intros k Hk [W1 W2]. rewrite znth_jset in W1, W2 by lia. rewrite znth_jset by lia. rewrite Ln in *. rewrite La.
      destruct (hit A i k) eqn:Hh.
      * pose proof (hit_jget i k Hh) as Q. fold v in Q. split; [auto|]. specialize (Hr k Hk). lia.
      * apply T1; auto. split; auto.
    + intros k l Hk Hl Hkl. rewrite !znth_jset by lia. rewrite La.
      destruct (hit A i k) eqn:Hh.
      * destruct (hit A i l) eqn:Hh2; [pose proof (hit_unique i k l Hh Hh2); lia|].
        intros _ E. apply (Hnot l Hl). auto.
      * destruct (hit A i l) eqn:Hh2.
        -- intros _ E. apply (Hnot k Hk). auto.
        -- apply T2; auto.
Qed.

Lemma tie_break_TB perm : 0 <= A -> TB (tie_break A nodes acts perm).
Proof.
  intro HA. unfold tie_break.
  assert (T0 : TB (repeat DUMMY_NODE (Z.to_nat A), repeat INVALID_CHOICE (Z.to_nat A))).
  { constructor; cbn [fst snd].
    - rewrite zlen_repeat. lia.
    - rewrite zlen_repeat. lia.
    - intros k Hk [W _]. exfalso. apply W. unfold INVALID_CHOICE. apply (znth_repeat (-1)).
    - intros k l Hk Hl _ P. exfalso. unfold DUMMY_NODE in P.
      rewrite znth_nth in P by lia. rewrite (nth_indep _ 0 (-10)) in P by (rewrite repeat_length; lia).
      rewrite <- znth_nth in P by lia. rewrite (znth_repeat (-10)) in P. lia. }
  revert T0. generalize (repeat DUMMY_NODE (Z.to_nat A), repeat INVALID_CHOICE (Z.to_nat A)).
  induction perm as [|i r IH]; intros st T; cbn [fold_left]; auto. apply IH. apply tb_step_TB; auto.
Qed.

(* two distinct winners never aim at the same node *)
Lemma winners_distinct perm k l :
  0 <= A -> 0 <= k < A -> 0 <= l < A -> k <> l ->
  won (snd (tie_break A nodes acts perm)) k -> won (snd (tie_break A nodes acts perm)) l ->
  znth (-1) nodes k <> znth (-1) nodes l.
Proof.
  intros HA Hk Hl Hkl Wk Wl. destruct (tie_break_TB perm HA) as [La Ln T1 T2].
  destruct (T1 k Hk Wk) as [E1 P1]. destruct (T1 l Hl Wl) as [E2 P2].
  rewrite <- E1, <- E2. apply T2; auto. lia.
Qed.

(* an agent whose target is invalid keeps the INVALID_CHOICE code, whatever the permutation *)
Lemma invalid_keeps perm a :
  0 <= A -> 0 <= a < A -> znth (-1) nodes a = -1 -> znth (-1) (snd (tie_break A nodes acts perm)) a = -1.
Proof.
  intros HA Ha Hv. unfold tie_break.
  assert (P0 : zlen (snd (repeat DUMMY_NODE (Z.to_nat A), repeat INVALID_CHOICE (Z.to_nat A))) = A
               /\ znth (-1) (snd (repeat DUMMY_NODE (Z.to_nat A), repeat INVALID_CHOICE (Z.to_nat A))) a = -1).
  { cbn [snd]. split; [rewrite zlen_repeat; lia|apply (znth_repeat (-1))]. }
  revert P0. generalize (repeat DUMMY_NODE (Z.to_nat A), repeat INVALID_CHOICE (Z.to_nat A)).
  induction perm as [|i r IH]; intros st [L P]; cbn [fold_left]; auto. apply IH.
  destruct st as [added newa]. cbn [snd] in *. unfold tb_step.
  destruct (jget (-1) nodes i =? -1) eqn:Ev; [cbn [snd]; auto|].
  assert (Hh : hit A i a = false).
  { destruct (hit A i a) eqn:Hh; auto. pose proof (hit_jget i a Hh). lia. }
  destruct (negb (existsb (Z.eqb (jget (-1) nodes i)) added)); cbn [snd];
    (split; [rewrite zlen_jset; auto|rewrite znth_jset by lia; rewrite L, Hh; auto]).
Qed.
End TieBreak.

(* ================= well-formedness and the invariant ================= *)
Record WF (c : cfg) (s : state) : Prop := {
  wf_A : 0 <= cA c;
  wf_N : 0 < cN c;
  wf_nt : zlen (ntypes s) = cN c;
  wf_e : zlen (edges s) = cA c;
  wf_e1 : forall a, 0 <= a < cA c -> zlen (znth [] (edges s) a) = cN c;
  wf_e2 : forall a i, 0 <= a < cA c -> 0 <= i < cN c -> zlen (znth [] (znth [] (edges s) a) i) = cN c;
  wf_ci : zlen (cidx s) = cA c;
  wf_ci1 : forall a, 0 <= a < cA c -> zlen (znth [] (cidx s) a) = cN c;
  wf_pos : zlen (pos s) = cA c;
  wf_pos1 : forall a, 0 <= a < cA c -> 0 <= znth 0 (pos s) a < cN c }.

Record Inv (c : cfg) (start : Z -> Z) (s : state) : Prop := {
  inv_wf : WF c s;
  inv_E : forall a i j, 0 <= a < cA c -> 0 <= i < cN c -> 0 <= j < cN c ->
          eat s a i j = if base_adj s i j && negb (blocked (cA c) s a j) then j else -1;
  inv_V : forall a j, 0 <= a < cA c -> 0 <= j < cN c -> gat (-1) (cidx s) a j = -1 \/ gat (-1) (cidx s) a j = j;
  inv_P : forall a, 0 <= a < cA c -> visited s a (znth 0 (pos s) a) = true;
  inv_X : Excl (cA c) (cN c) s;
  inv_R : forall a x, 0 <= a < cA c -> In x (znth [] (conn s) a) -> x <> -1 -> 0 <= x < cN c /\ visited s a x = true;
  inv_C : forall a j, 0 <= a < cA c -> 0 <= j < cN c -> visited s a j = true ->
          conn_from (base_adj s) (visited s a) (start a) j }.

Lemma conn_from_mono adj vis vis' st j :
  (forall x, vis x = true -> vis' x = true) -> conn_from adj vis st j -> conn_from adj vis' st j.
Proof.
  intros M H. induction H as [H|u v H IH Hv Ha].
  - apply cf_start. auto.
  - eapply cf_step; eauto.
Qed.

Lemma blocked_spec A s a j :
  blocked A s a j = true <-> utility s j = true /\ exists b, 0 <= b < A /\ b <> a /\ visited s b j = true.
Proof.
  unfold blocked. rewrite andb_true_iff, existsb_zrange. split.
  - intros [U [b [Hb Q]]]. split; auto. exists b. repeat split; try lia. apply andb_true_iff in Q. tauto.
  - intros [U [b [Hb [Hn Q]]]]. split; auto. exists b. split; auto. rewrite Q. replace (b =? a) with false by lia. reflexivity.
Qed.

(* ================= one step ================= *)
Section Step.
Variables (c : cfg) (start : Z -> Z) (s : state) (acts perm : list Z).
Hypothesis HI : Inv c start s.
Let A := cA c.
Let N := cN c.
Let HW : WF c s := inv_wf c start s HI.

Definition nodeF (a : Z) : Z := target s acts a.
Definition newaL : list Z := snd (tie_break A (nodes_of c s acts) acts perm).
Definition faF (a : Z) : Z := final_act s (nodes_of c s acts) newaL a.
Definition mvF (a : Z) : bool := moves (faF a) (nodeF a).
Definition s' : state := fst (step c s acts perm).

Lemma A_nonneg : 0 <= A. Proof. apply (wf_A c s HW). Qed.
Lemma N_pos : 0 < N. Proof. apply (wf_N c s HW). Qed.

Lemma nodes_len : zlen (nodes_of c s acts) = A.
Proof. unfold nodes_of. apply zlen_tab. apply A_nonneg. Qed.

Lemma nodes_nth a : 0 <= a < A -> znth (-1) (nodes_of c s acts) a = nodeF a.
Proof. intro H. unfold nodes_of. apply znth_tab; auto. Qed.

Lemma nodeF_eat a : 0 <= a < A -> nodeF a = eat s a (znth 0 (pos s) a) (jclamp N (znth 0 acts a)).
Proof.
  intro Ha. unfold nodeF, target, gget, eat.
  pose proof (wf_pos1 c s HW a Ha) as Hp. pose proof (wf_e1 c s HW a Ha) as L1.
  pose proof (wf_e2 c s HW a _ Ha Hp) as L2. pose proof N_pos.
  rewrite (jget_in [] _ (znth 0 (pos s) a)) by (fold N in L1; lia).
  unfold jget at 1. fold N in L2. rewrite L2. reflexivity.
Qed.

Lemma nodeF_cases a : 0 <= a < A ->
  nodeF a = -1 \/ (0 <= nodeF a < N /\ base_adj s (znth 0 (pos s) a) (nodeF a) = true /\ blocked A s a (nodeF a) = false).
Proof.
  intro Ha. rewrite (nodeF_eat a Ha). pose proof N_pos. pose proof (jclamp_range N (znth 0 acts a) H) as Hj.
  rewrite (inv_E c start s HI a _ _ Ha (wf_pos1 c s HW a Ha) Hj). fold A.
  destruct (base_adj s (znth 0 (pos s) a) (jclamp N (znth 0 acts a))) eqn:E1; cbn [andb]; auto.
  destruct (blocked A s a (jclamp N (znth 0 acts a))) eqn:E2; cbn [negb]; auto.
Qed.

Lemma nodeF_range a : 0 <= a < A -> -1 <= nodeF a < N.
Proof. intro Ha. pose proof N_pos. destruct (nodeF_cases a Ha) as [E|[R _]]; lia. Qed.

Lemma mvF_node a : 0 <= a < A -> mvF a = true -> 0 <= nodeF a < N.
Proof.
  intros Ha M. unfold mvF, moves in M. pose proof (nodeF_range a Ha). lia.
Qed.

(* why an agent moves: it is not finished, its target is a real node, and it either won the tie-break or
   already has the node in its route *)
Lemma mvF_why a : 0 <= a < A -> mvF a = true ->
  znth false (fin s) a = false /\ (visited s a (nodeF a) = true \/ won newaL a).
Proof.
  intros Ha M. pose proof (mvF_node a Ha M) as Hn. unfold mvF, moves, faF, final_act in M.
  destruct (znth false (fin s) a) eqn:F; [cbn in M; lia|]. split; auto.
  rewrite (nodes_nth a Ha) in M. replace (nodeF a =? -1) with false in M by lia. cbn [negb andb] in M.
  rewrite jget_in in M by (rewrite (wf_ci1 c s HW a Ha); fold N; lia).
  unfold visited, gat.
  destruct (negb (znth (-1) (znth [] (cidx s) a) (nodeF a) =? -1)) eqn:V; [left; auto|right].
  unfold won. unfold INVALID_CHOICE, INVALID_TIE_BREAK in M. lia.
Qed.

(* ---- projections of the successor state ---- *)
Lemma pos_s' : pos s' = tab A (fun a => if mvF a then nodeF a else znth 0 (pos s) a).
Proof.
  unfold s', step. cbn [fst pos]. apply tab_ext. intros a Ha. unfold mvF, faF, newaL, finals_of.
  fold A. rewrite (znth_tab (-1)) by auto. rewrite (nodes_nth a Ha). reflexivity.
Qed.

Lemma cidx_s' : cidx s' = tab A (fun a => if mvF a then jset (znth [] (cidx s) a) (nodeF a) (nodeF a) else znth [] (cidx s) a).
Proof.
  unfold s', step. cbn [fst cidx]. apply tab_ext. intros a Ha. unfold mvF, faF, newaL, finals_of.
  fold A. rewrite (znth_tab (-1)) by auto. rewrite (nodes_nth a Ha). reflexivity.
Qed.

Lemma conn_s' : conn s' = tab A (fun a => if mvF a then jset (znth [] (conn s) a) (znth 0 (pidx s) a + 1) (nodeF a) else znth [] (conn s) a).
Proof.
  unfold s', step. cbn [fst conn]. apply tab_ext. intros a Ha. unfold mvF, faF, newaL, finals_of.
  fold A. rewrite (znth_tab (-1)) by auto. rewrite (nodes_nth a Ha). reflexivity.
Qed.

Lemma pidx_s' : pidx s' = tab A (fun a => if mvF a then znth 0 (pidx s) a + 1 else znth 0 (pidx s) a).
Proof.
  unfold s', step. cbn [fst pidx]. apply tab_ext. intros a Ha. unfold mvF, faF, newaL, finals_of.
  fold A. rewrite (znth_tab (-1)) by auto. rewrite (nodes_nth a Ha). reflexivity.
Qed.

Lemma edges_s' : edges s' = update_active A (ntypes s) (pos s') (edges s).
Proof. rewrite pos_s'. unfold s', step. cbn [fst edges]. fold A. f_equal. apply tab_ext. intros a Ha.
  unfold mvF, faF, newaL, finals_of. fold A. rewrite (znth_tab (-1)) by auto. rewrite (nodes_nth a Ha). reflexivity. Qed.

Lemma amask_s' : amask s' = make_mask A (edges s') (pos s') (fin s').
Proof. reflexivity. Qed.

Lemma static_s' : ntypes s' = ntypes s /\ adjm s' = adjm s /\ ntc s' = ntc s /\ sc s' = sc s + 1.
Proof. unfold s', step. cbn [fst ntypes adjm ntc sc]. auto. Qed.

Lemma pos'_nth a : 0 <= a < A -> znth 0 (pos s') a = if mvF a then nodeF a else znth 0 (pos s) a.
Proof. intro Ha. rewrite pos_s'. apply znth_tab; auto. Qed.

Lemma pos'_range a : 0 <= a < A -> 0 <= znth 0 (pos s') a < N.
Proof.
  intro Ha. rewrite (pos'_nth a Ha). destruct (mvF a) eqn:M; [apply mvF_node; auto|apply (wf_pos1 c s HW a Ha)].
Qed.

Lemma base_adj_s' i j : base_adj s' i j = base_adj s i j.
Proof. unfold base_adj. destruct static_s' as [_ [E _]]. rewrite E. reflexivity. Qed.

Lemma utility_s' j : utility s' j = utility s j.
Proof. unfold utility. destruct static_s' as [E _]. rewrite E. reflexivity. Qed.

Lemma cidx'_gat a j : 0 <= a < A -> 0 <= j < N ->
  gat (-1) (cidx s') a j = if mvF a && (nodeF a =? j) then j else gat (-1) (cidx s) a j.
Proof.
  intros Ha Hj. unfold gat. rewrite cidx_s'. rewrite (znth_tab []) by auto.
  destruct (mvF a) eqn:M; cbn [andb]; auto.
  pose proof (mvF_node a Ha M) as Hn. pose proof (wf_ci1 c s HW a Ha) as L. fold N in L.
  rewrite znth_jset by lia. rewrite L, hit_id by lia.
  destruct (nodeF a =? j) eqn:E; auto. lia.
Qed.

Lemma visited'_eq a j : 0 <= a < A -> 0 <= j < N ->
  visited s' a j = visited s a j || (mvF a && (nodeF a =? j)).
Proof.
  intros Ha Hj. unfold visited. rewrite (cidx'_gat a j Ha Hj).
  destruct (mvF a && (nodeF a =? j)) eqn:E.
  - rewrite orb_true_r. lia.
  - rewrite orb_false_r. reflexivity.
Qed.

Lemma visited_mono a j : 0 <= a < A -> 0 <= j < N -> visited s a j = true -> visited s' a j = true.
Proof. intros Ha Hj V. rewrite visited'_eq, V by auto. reflexivity. Qed.

Lemma visited_range a j : 0 <= a < A -> visited s a j = true -> 0 <= j < N.
Proof.
  intros Ha V. unfold visited, gat in V. pose proof (wf_ci1 c s HW a Ha) as L. fold N in L.
  destruct (Z_lt_dec j 0); [rewrite znth_neg in V by lia; cbn in V; lia|].
  destruct (Z_lt_dec j N); [lia|]. rewrite znth_oob in V by lia. cbn in V. lia.
Qed.

(* ---- update_active_edges ---- *)
Lemma blockers_In v b : 0 <= b < A ->
  In v (blockers A (ntypes s) (pos s') b) <->
  exists a, 0 <= a < A /\ a <> b /\ znth 0 (pos s') a = v /\ utility s v = true.
Proof.
  intro Hb. unfold blockers. rewrite in_map_iff. split.
  - intros [a [E Hf]]. apply filter_In in Hf as [Hin Q]. apply in_zrange in Hin.
    apply andb_true_iff in Q as [Q1 Q2]. exists a. repeat split; try lia; auto.
    pose proof (pos'_range a Hin) as R. rewrite jget_in in Q2 by (rewrite (wf_nt c s HW); fold N; lia).
    unfold utility. rewrite <- E. exact Q2.
  - intros [a [Ha [Hn [E U]]]]. exists a. split; auto. apply filter_In. split; [apply in_zrange; auto|].
    apply andb_true_iff. split; [lia|].
    pose proof (pos'_range a Ha) as R. rewrite jget_in by (rewrite (wf_nt c s HW); fold N; lia).
    unfold utility in U. rewrite E. exact U.
Qed.

Lemma eat_s' b i j : 0 <= b < A -> 0 <= i < N -> 0 <= j < N ->
  eat s' b i j = if existsb (Z.eqb (eat s b i j)) (blockers A (ntypes s) (pos s') b) then -1 else eat s b i j.
Proof.
  intros Hb Hi Hj. unfold eat. rewrite edges_s'. unfold update_active. rewrite (znth_tab []) by auto.
  unfold mask_edges. pose proof (wf_e1 c s HW b Hb) as L1. pose proof (wf_e2 c s HW b i Hb Hi) as L2. fold N in L1, L2.
  rewrite (znth_map _ []) by lia. rewrite (znth_map _ (-1)) by lia. reflexivity.
Qed.

Lemma WF_s' : WF c s'.
Proof.
  pose proof A_nonneg as HA. pose proof N_pos as HN.
  constructor; auto.
  - destruct static_s' as [E _]. rewrite E. apply (wf_nt c s HW).
  - rewrite edges_s'. apply zlen_tab; auto.
  - intros a Ha. rewrite edges_s'. unfold update_active. rewrite (znth_tab []) by auto.
    unfold mask_edges. rewrite zlen_map. apply (wf_e1 c s HW a Ha).
  - intros a i Ha Hi. rewrite edges_s'. unfold update_active. rewrite (znth_tab []) by auto.
    unfold mask_edges. pose proof (wf_e1 c s HW a Ha) as L1. rewrite (znth_map _ []) by lia.
    rewrite zlen_map. apply (wf_e2 c s HW a i Ha Hi).
  - rewrite cidx_s'. apply zlen_tab; auto.
  - intros a Ha. rewrite cidx_s'. rewrite (znth_tab []) by auto.
    destruct (mvF a); [rewrite zlen_jset|]; apply (wf_ci1 c s HW a Ha).
  - rewrite pos_s'. apply zlen_tab; auto.
  - intros a Ha. apply pos'_range; auto.
Qed.

Lemma P_s' a : 0 <= a < A -> visited s' a (znth 0 (pos s') a) = true.
Proof.
  intro Ha. pose proof (pos'_range a Ha) as R. rewrite visited'_eq by auto. rewrite (pos'_nth a Ha) in R |- *.
  destruct (mvF a) eqn:M; cbn [andb].
  - rewrite Z.eqb_refl. apply orb_true_r.
  - rewrite (inv_P c start s HI a Ha). reflexivity.
Qed.

(* a newly entered node was not blocked: nobody else had it *)
Lemma new_node_free a b j : 0 <= a < A -> 0 <= b < A -> a <> b -> mvF a = true -> nodeF a = j ->
  utility s j = true -> visited s b j = false.
Proof.
  intros Ha Hb Hab M E U. destruct (nodeF_cases a Ha) as [F|[R [_ B]]].
  - pose proof (mvF_node a Ha M). lia.
  - rewrite E in B. destruct (visited s b j) eqn:V; auto.
    assert (blocked A s a j = true) by (apply blocked_spec; split; auto; exists b; repeat split; auto; lia). congruence.
Qed.

Lemma X_s' : Excl A N s'.
Proof.
  intros j a b Hj Ha Hb U Va Vb. rewrite utility_s' in U.
  destruct (Z.eq_dec a b) as [|Hab]; auto. exfalso.
  rewrite visited'_eq in Va, Vb by auto.
  destruct (visited s a j) eqn:Oa; destruct (visited s b j) eqn:Ob; cbn [orb] in Va, Vb.
  - apply Hab. apply (inv_X c start s HI j a b); auto.
  - apply andb_true_iff in Vb as [Mb Eb].
    rewrite (new_node_free b a j Hb Ha ltac:(lia) Mb ltac:(lia) U) in Oa. discriminate.
  - apply andb_true_iff in Va as [Ma Ea].
    rewrite (new_node_free a b j Ha Hb Hab Ma ltac:(lia) U) in Ob. discriminate.
  - apply andb_true_iff in Va as [Ma Ea]. apply andb_true_iff in Vb as [Mb Eb].
    destruct (mvF_why a Ha Ma) as [_ [V|Wa]]; [replace (nodeF a) with j in V by lia; congruence|].
    destruct (mvF_why b Hb Mb) as [_ [V|Wb]]; [replace (nodeF b) with j in V by lia; congruence|].
    assert (Q := winners_distinct A (nodes_of c s acts) acts nodes_len
                   (fun k Hk => ltac:(rewrite (nodes_nth k Hk); pose proof (nodeF_range k Hk); lia))
                   perm a b A_nonneg Ha Hb Hab Wa Wb).
    rewrite (nodes_nth a Ha), (nodes_nth b Hb) in Q. lia.
Qed.

Lemma blocked_s' b j : 0 <= b < A -> 0 <= j < N ->
  blocked A s' b j = blocked A s b j || existsb (Z.eqb j) (blockers A (ntypes s) (pos s') b).
Proof.
  intros Hb Hj. apply eq_true_iff_eq. rewrite orb_true_iff, !blocked_spec, existsb_eqb_true, (blockers_In j b Hb).
  rewrite utility_s'. split.
  - intros [U [a [Ha [Hn V]]]]. rewrite visited'_eq in V by auto.
    destruct (visited s a j) eqn:O; [left; split; auto; exists a; auto|right].
    cbn [orb] in V. apply andb_true_iff in V as [M E]. exists a. split; [auto|]. split; [auto|]. split; [|auto].
    rewrite (pos'_nth a Ha), M. lia.
  - intros [[U [a [Ha [Hn V]]]]|[a [Ha [Hn [E U]]]]].
    + split; auto. exists a. split; [auto|]. split; [auto|]. apply visited_mono; auto.
    + split; auto. exists a. split; [auto|]. split; [auto|]. rewrite <- E. apply P_s'; auto.
Qed.

Lemma E_s' a i j : 0 <= a < A -> 0 <= i < N -> 0 <= j < N ->
  eat s' a i j = if base_adj s' i j && negb (blocked A s' a j) then j else -1.
Proof.
  intros Ha Hi Hj. rewrite (eat_s' a i j Ha Hi Hj), base_adj_s', (blocked_s' a j Ha Hj).
  rewrite (inv_E c start s HI a i j Ha Hi Hj). fold A.
  destruct (base_adj s i j) eqn:B; cbn [andb].
  - destruct (blocked A s a j) eqn:K; cbn [negb orb].
    + destruct (existsb (Z.eqb (-1)) _); reflexivity.
    + destruct (existsb (Z.eqb j) _); reflexivity.
  - destruct (existsb (Z.eqb (-1)) _); reflexivity.
Qed.

Lemma V_s' a j : 0 <= a < A -> 0 <= j < N -> gat (-1) (cidx s') a j = -1 \/ gat (-1) (cidx s') a j = j.
Proof.
  intros Ha Hj. rewrite cidx'_gat by auto. destruct (mvF a && (nodeF a =? j)); auto.
  apply (inv_V c start s HI a j Ha Hj).
Qed.

Lemma R_s' a x : 0 <= a < A -> In x (znth [] (conn s') a) -> x <> -1 -> 0 <= x < N /\ visited s' a x = true.
Proof.
  intros Ha Hin Hx. rewrite conn_s' in Hin. rewrite (znth_tab []) in Hin by auto.
  assert (Old : In x (znth [] (conn s) a) -> 0 <= x < N /\ visited s' a x = true).
  { intro H. destruct (inv_R c start s HI a x Ha H Hx) as [R V]. split; auto. apply visited_mono; auto. }
  destruct (mvF a) eqn:M; auto.
  apply In_jset in Hin as [H| ->]; auto.
  pose proof (mvF_node a Ha M) as R. split; auto. rewrite visited'_eq by auto. rewrite M, Z.eqb_refl. apply orb_true_r.
Qed.

Lemma C_s' a j : 0 <= a < A -> 0 <= j < N -> visited s' a j = true ->
  conn_from (base_adj s') (visited s' a) (start a) j.
Proof.
  intros Ha Hj V.
  assert (Mono : forall x, visited s a x = true -> visited s' a x = true).
  { intros x Vx. apply visited_mono; auto. apply (visited_range a x Ha Vx). }
  assert (Eadj : forall st k, conn_from (base_adj s) (visited s' a) st k -> conn_from (base_adj s') (visited s' a) st k).
  { intros st k H. induction H; [apply cf_start; auto|eapply cf_step; eauto; rewrite base_adj_s'; auto]. }
  apply Eadj. rewrite visited'_eq in V by auto.
  destruct (visited s a j) eqn:O.
  - apply (conn_from_mono _ (visited s a)); auto. apply (inv_C c start s HI a j Ha Hj O).
  - cbn [orb] in V. apply andb_true_iff in V as [M E]. assert (nodeF a = j) by lia.
    pose proof (wf_pos1 c s HW a Ha) as Rp.
    eapply cf_step.
    + apply (conn_from_mono _ (visited s a)); auto.
      apply (inv_C c start s HI a _ Ha Rp (inv_P c start s HI a Ha)).
    + rewrite visited'_eq by auto. rewrite M, E. apply orb_true_r.
    + destruct (nodeF_cases a Ha) as [F|[_ [B _]]]; [lia|]. rewrite <- H. exact B.
Qed.

(* EVERY step preserves the invariant: any actions (in or out of spec), any permutation draw *)
Theorem step_Inv : Inv c start s'.
Proof.
  constructor.
  - apply WF_s'.
  - apply E_s'.
  - apply V_s'.
  - apply P_s'.
  - apply X_s'.
  - apply R_s'.
  - apply C_s'.
Qed.

(* C04: the new mask = (not finished in the NEW state) && legal move in the new state *)
Theorem mask_s' a j : 0 <= a < A -> 0 <= j < N ->
  gat false (amask s') a j = negb (znth false (fin s') a) && legal_move A s' a j.
Proof.
  intros Ha Hj. unfold gat. rewrite amask_s'. unfold make_mask. rewrite (znth_tab []) by auto.
  pose proof (pos'_range a Ha) as Rp. pose proof WF_s' as W'.
  rewrite jget_in by (rewrite (wf_e1 c s' W' a Ha); fold N; lia).
  rewrite (znth_map _ (-1)) by (rewrite (wf_e2 c s' W' a _ Ha Rp); fold N; lia).
  fold (eat s' a (znth 0 (pos s') a) j). rewrite (E_s' a _ j Ha Rp Hj). unfold legal_move.
  destruct (base_adj s' (znth 0 (pos s') a) j && negb (blocked A s' a j)) eqn:L.
  - replace (j =? -1) with false by lia. cbn [negb andb]. rewrite andb_true_r. reflexivity.
  - cbn. rewrite andb_false_r. reflexivity.
Qed.
End Step.
