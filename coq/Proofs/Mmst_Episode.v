(* MMST: illegal moves (C05), completion => connected routes (C06), episode protocol (C03, C11). *)
Require Import JV.Base.Prelude JV.Base.JaxIndex JV.Base.Codec JV.Base.TimeStep JV.Model.Mmst JV.Proofs.Mmst_lib JV.Proofs.Mmst.

(* the reward of a step is the sum of the per-agent terms *)
Definition rew_term (c : cfg) (s : state) (acts perm : list Z) (a : Z) : Z :=
  agent_reward c (znth [] (ntc s) a) (faF c s acts perm a) (znth 0 (pos (s' c s acts perm)) a) (znth false (fin s) a).

Lemma reward_sum c start s acts perm : Inv c start s ->
  reward (snd (step c s acts perm)) = [zsum (tab (cA c) (rew_term c s acts perm))].
Proof.
  intro HI. unfold step. cbn [snd].
  match goal with |- reward (cond_done 1 ?d [?r]) = _ => assert (E : reward (cond_done 1 d [r]) = [r]) by (destruct d; reflexivity); rewrite E end.
  f_equal. f_equal. apply tab_ext. intros a Ha. unfold rew_term. f_equal.
  unfold faF, newaL, finals_of. rewrite (znth_tab (-1)) by auto. reflexivity.
Qed.

(* C05: an illegal move of an unfinished agent: the agent stays, its route is untouched, its action code is
   INVALID_CHOICE and its reward term is time-step + noop penalty (the documented "-1.0 and an extra -1.0"). *)
Theorem illegal_move c start s acts perm a :
  Inv c start s -> 0 <= a < cA c -> znth false (fin s) a = false ->
  legal_move (cA c) s a (jclamp (cN c) (znth 0 acts a)) = false ->
  let t := s' c s acts perm in
  znth 0 (pos t) a = znth 0 (pos s) a /\ znth [] (conn t) a = znth [] (conn s) a
  /\ znth [] (cidx t) a = znth [] (cidx s) a /\ znth 0 (pidx t) a = znth 0 (pidx s) a
  /\ faF c s acts perm a = INVALID_CHOICE
  /\ rew_term c s acts perm a = rt c + rn c.
Proof.
  intros HI Ha F L t.
  pose proof (inv_wf c start s HI) as HW. pose proof (wf_N c s HW) as HN. pose proof (wf_A c s HW) as HA.
  assert (Nd : nodeF s acts a = -1).
  { rewrite (nodeF_eat c start s acts HI a Ha).
    rewrite (inv_E c start s HI a _ _ Ha (wf_pos1 c s HW a Ha) (jclamp_range _ _ HN)).
    unfold legal_move in L. rewrite L. reflexivity. }
  assert (Fa : faF c s acts perm a = INVALID_CHOICE).
  { unfold faF, final_act. rewrite F. rewrite (nodes_nth c s acts a Ha), Nd. cbn [Z.eqb negb andb].
    unfold newaL. apply invalid_keeps; auto.
    - apply (nodes_len c start s acts HI).
    - intros k Hk. rewrite (nodes_nth c s acts k Hk). pose proof (nodeF_range c start s acts HI k Hk). lia.
    - rewrite (nodes_nth c s acts a Ha). exact Nd. }
  assert (M : mvF c s acts perm a = false).
  { unfold mvF, moves. rewrite Nd. cbn. apply andb_false_r. }
  subst t. rewrite (pos_s' c s acts perm), (conn_s' c s acts perm),
    (cidx_s' c s acts perm), (pidx_s' c s acts perm).
  rewrite (znth_tab 0), !(znth_tab []), (znth_tab 0) by auto. rewrite M.
  repeat split; auto.
  unfold rew_term. rewrite Fa, F. unfold agent_reward, INVALID_CHOICE, INVALID_TIE_BREAK.
  cbn [Z.ltb Z.eqb Z.compare b2z Pos.eqb Pos.compare Pos.compare_cont]. rewrite andb_false_r. lia.
Qed.

(* C06 completion: a finished agent has all its required nodes in one connected visited set containing its start *)
Theorem finished_connected c start s a :
  Inv c start s -> 0 <= a < cA c -> zlen (znth [] (ntc s) a) = cK c ->
  (forall k, In k (znth [] (ntc s) a) -> k <> -1) ->
  finished_agent (cK c) (znth [] (ntc s) a) (znth [] (conn s) a) = true ->
  forall k, In k (znth [] (ntc s) a) ->
    visited s a k = true /\ conn_from (base_adj s) (visited s a) (start a) k.
Proof.
  intros HI Ha LK Hne Fin k Hk. unfold finished_agent in Fin.
  assert (Q : count_if (fun k0 => existsb (Z.eqb k0) (znth [] (conn s) a)) (znth [] (ntc s) a) = zlen (znth [] (ntc s) a)) by lia.
  pose proof (count_if_all _ _ Q k Hk) as E. cbn beta in E. apply existsb_eqb_true in E.
  destruct (inv_R c start s HI a k Ha E (Hne k Hk)) as [R V]. split; auto.
  apply (inv_C c start s HI a k Ha R V).
Qed.

(* ================= C11 / C03 ================= *)
Lemma step_type c s acts perm :
  st (snd (step c s acts perm)) = if all_true (fin (fst (step c s acts perm))) || (cT c <=? sc s + 1) then LAST else MID.
Proof.
  unfold step. cbn [fst snd fin].
  match goal with |- st (cond_done 1 ?d _) = _ => destruct d; reflexivity end.
Qed.

Lemma step_count c s acts perm : sc (fst (step c s acts perm)) = sc s + 1.
Proof. reflexivity. Qed.

Lemma step_protocol c s acts perm :
  let t := snd (step c s acts perm) in
  (st t = MID /\ discount t = [1] \/ st t = LAST /\ discount t = [0]) /\ length (reward t) = 1%nat.
Proof.
  unfold step. cbn [snd].
  match goal with |- context [cond_done 1 ?d _] => destruct d end; cbn; auto.
Qed.

Lemma init_protocol c base adj0 comps :
  let t := snd (init c base adj0 comps) in st t = FIRST /\ reward t = [0] /\ discount t = [1] /\ sc (fst (init c base adj0 comps)) = 0.
Proof. cbn. auto. Qed.

(* a whole episode: the list of (actions, permutation draw) pairs *)
Fixpoint run (c : cfg) (s : state) (l : list (list Z * list Z)) : state :=
  match l with [] => s | (a, p) :: r => run c (fst (step c s a p)) r end.

Lemma run_count c s l : sc (run c s l) = sc s + zlen l.
Proof.
  revert s; induction l as [|[a p] r IH]; intro s; cbn [run].
  - unfold zlen; cbn; lia.
  - rewrite IH, step_count, zlen_cons. lia.
Qed.

Lemma run_Inv c start s l : Inv c start s -> Inv c start (run c s l).
Proof.
  revert s; induction l as [|[a p] r IH]; intros s HI; cbn [run]; auto.
  apply IH. apply (step_Inv c start s a p HI).
Qed.

(* the step taken after [l] earlier steps from a state with step_count 0:
   LAST exactly when the time limit is reached (step number = |l|+1 >= T) or every agent is finished *)
Theorem time_limit_exact c s0 l a p :
  sc s0 = 0 ->
  let s := run c s0 l in
  let n := zlen l + 1 in       (* number of this step *)
  (st (snd (step c s a p)) = LAST <-> (cT c <= n \/ all_true (fin (fst (step c s a p))) = true)).
Proof.
  intros H0 s n. rewrite step_type. subst s. rewrite run_count, H0.
  destruct (all_true (fin (fst (step c (run c s0 l) a p)))) eqn:F; cbn [orb].
  - split; auto.
  - subst n. destruct (cT c <=? 0 + zlen l + 1) eqn:E; split; intro H; try reflexivity; try lia.
    all: try (unfold LAST, MID in H; lia). all: destruct H; [lia|discriminate].
Qed.
