(* MMST: concrete instance (path 0-1-2-3-4-5, two agents) used for non-vacuity examples and refutation witnesses. *)
Require Import JV.Base.Prelude JV.Base.JaxIndex JV.Base.Codec JV.Base.TimeStep JV.Model.Mmst JV.Proofs.Mmst_lib JV.Proofs.Mmst JV.Proofs.Mmst_Episode.

Definition ex_cfg : cfg := mkC 2 6 2 4 4 10 (-1) (-1).
Definition ex_adj : list (list Z) := tab 6 (fun i => tab 6 (fun j => if (Z.abs (i - j) =? 1) then 1 else 0)).
Definition ex_base : list (list Z) := tab 6 (fun i => tab 6 (fun j => if (Z.abs (i - j) =? 1) then j else -1)).
Definition ex_comps : list (list Z) := [[0; 1]; [5; 3]].
Definition ex_s0 : state := fst (init ex_cfg ex_base ex_adj ex_comps).
(* agent 0 moves 0 -> 1 (connects its second node and finishes), agent 1 moves 5 -> 4 (utility) *)
Definition ex_s1 : state := fst (step ex_cfg ex_s0 [1; 4] [0; 1]).

Example ex_instance_ok : instance_ok_b 2 6 2 ex_adj ex_comps = true.
Proof. vm_compute. reflexivity. Qed.

Example ex_reset :
  ntypes ex_s0 = [0; 0; -1; 1; -1; 1] /\ pos ex_s0 = [0; 5]
  /\ amask ex_s0 = [[false; true; false; false; false; false]; [false; false; false; false; true; false]]
  /\ obs_types ex_cfg ex_s0 = [0; 1; -1; 3; -1; 2].
Proof. vm_compute. repeat split; reflexivity. Qed.

Example ex_step1 :
  pos ex_s1 = [1; 4] /\ fin ex_s1 = [true; false] /\ reward (snd (step ex_cfg ex_s0 [1; 4] [0; 1])) = [10 + -1]
  /\ st (snd (step ex_cfg ex_s0 [1; 4] [0; 1])) = MID
  /\ obs_types ex_cfg ex_s1 = [0; 0; -1; 3; 2; 2]
  /\ edges_ok_b 2 6 ex_s1 = true /\ excl_b 2 6 ex_s1 = true /\ route_connected_b 2 6 ex_s1 = true.
Proof. vm_compute. repeat split; reflexivity. Qed.

(* both agents aim at utility node 2 from 1 and 3: the permutation decides, the loser stays with reward 0 *)
Example ex_tie_break :
  let s2 := fst (step ex_cfg (fst (step ex_cfg ex_s0 [1; 4] [0; 1])) [0; 3] [0; 1]) in
  pos s2 = [1; 3] /\
  pos (fst (step ex_cfg (mkS (ntypes s2) (adjm s2) (conn s2) (cidx s2) (ntc s2) (edges s2) (pos s2) (pidx s2) (amask s2) [false; false] (sc s2)) [2; 2] [1; 0])) = [1; 2]
  /\ finals_of ex_cfg (mkS (ntypes s2) (adjm s2) (conn s2) (cidx s2) (ntc s2) (edges s2) (pos s2) (pidx s2) (amask s2) [false; false] (sc s2)) [2; 2] [1; 0] = [-2; 2].
Proof. vm_compute. repeat split; reflexivity. Qed.

(* C04 (after fix aa74bf17): after step 1 agent 0 is finished and its mask row is empty although nodes 0 and 2
   are adjacent and free; the unfinished agent 1 keeps exactly its legal moves (3 and 5 from node 4) *)
Theorem fresh_mask_example :
  znth false (fin ex_s1) 0 = true /\ legal_move 2 ex_s1 0 2 = true
  /\ amask ex_s1 = [[false; false; false; false; false; false]; [false; false; false; true; false; true]]
  /\ znth 0 (pos (fst (step ex_cfg ex_s1 [2; 3] [0; 1]))) 0 = znth 0 (pos ex_s1) 0.
Proof. vm_compute. repeat split; reflexivity. Qed.

(* C05 (after fix 49322d14): agent 1 stands on node N-1 = 5 and plays the illegal node 0, agent 0 plays the illegal
   node 3: both are charged time step + noop penalty = -1 + -1 *)
Theorem penalty_example :
  legal_move 2 ex_s0 1 0 = false /\ legal_move 2 ex_s0 0 3 = false
  /\ visited ex_s0 1 5 = true
  /\ rew_term ex_cfg ex_s0 [3; 0] [0; 1] 1 = -1 + -1
  /\ rew_term ex_cfg ex_s0 [3; 0] [0; 1] 0 = -1 + -1
  /\ reward (snd (step ex_cfg ex_s0 [3; 0] [0; 1])) = [-4]
  /\ pos (fst (step ex_cfg ex_s0 [3; 0] [0; 1])) = pos ex_s0.
Proof. vm_compute. repeat split; reflexivity. Qed.

Example ex_time_limit :
  let run4 := run ex_cfg ex_s0 [([0;5],[0;1]); ([0;5],[0;1]); ([0;5],[0;1])] in
  sc run4 = 3 /\ st (snd (step ex_cfg run4 [0; 5] [0; 1])) = LAST
  /\ st (snd (step ex_cfg (run ex_cfg ex_s0 [([0;5],[0;1]); ([0;5],[0;1])]) [0; 5] [0; 1])) = MID.
Proof. vm_compute. repeat split; reflexivity. Qed.
