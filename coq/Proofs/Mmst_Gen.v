(* MMST generator (C10): soundness of the BFS connectivity checker, meaning of the instance certificate
   (disjoint blocks, each connected and containing its agent's required nodes), refutation witnesses for the
   advertised degree bound / edge count.  The generator pieces over explicit draws (random_walk, merge_graphs)
   are tied to the code by correspondence only.                                                           *)
Require Import JV.Base.Prelude JV.Base.JaxIndex JV.Base.Codec JV.Base.TimeStep JV.Model.Mmst JV.Proofs.Mmst_lib.

Section BFS.
Variables (N : Z) (adj : Z -> Z -> bool) (vis : Z -> bool) (st : Z).

Lemma bfs_round_sound R : (forall x, In x R -> conn_from adj vis st x) ->
  forall x, In x (bfs_round N adj vis R) -> conn_from adj vis st x.
Proof.
  intros H x Hx. unfold bfs_round in Hx. apply in_app_or in Hx as [Hx|Hx]; auto.
  apply filter_In in Hx as [_ Q]. apply andb_true_iff in Q as [Q1 Q3]. apply andb_true_iff in Q1 as [Q1 _].
  apply existsb_exists in Q3 as [u [Hu Au]]. eapply cf_step; eauto.
Qed.

Lemma bfs_sound fuel : forall R, (forall x, In x R -> conn_from adj vis st x) ->
  forall x, In x (bfs fuel N adj vis R) -> conn_from adj vis st x.
Proof.
  induction fuel as [|f IH]; intros R H x Hx; cbn [bfs] in Hx; auto.
  apply (IH _ (bfs_round_sound R H) x Hx).
Qed.

Theorem connected_b_sound : connected_b N adj vis st = true ->
  forall v, 0 <= v < N -> vis v = true -> conn_from adj vis st v.
Proof.
  unfold connected_b. intros H v Hv Vv. apply andb_true_iff in H as [S H].
  rewrite forallb_zrange in H. specialize (H v Hv). rewrite Vv in H. cbn [negb orb] in H.
  apply existsb_eqb_true in H. eapply bfs_sound; [|exact H].
  intros x [<-|[]]. apply cf_start; auto.
Qed.
End BFS.

(* ---- array_split blocks ---- *)
Lemma split_lo_mono A N a b : 0 < A -> 0 <= N -> 0 <= a -> a <= b -> split_lo A N a <= split_lo A N b.
Proof.
  intros HA HN Ha Hab. unfold split_lo. assert (0 <= N / A) by (apply Z.div_pos; lia).
  assert (a * (N / A) <= b * (N / A)) by nia. lia.
Qed.

Lemma split_lo_top A N : 0 < A -> 0 <= N -> split_lo A N A = N.
Proof.
  intros HA HN. unfold split_lo. pose proof (Z.mod_pos_bound N A HA).
  rewrite Z.min_r by lia. pose proof (Z.div_mod N A ltac:(lia)). lia.
Qed.

Lemma split_lo_0 A N : 0 < A -> split_lo A N 0 = 0.
Proof. intro HA. unfold split_lo. pose proof (Z.mod_pos_bound N A HA). rewrite Z.min_l by lia. lia. Qed.

Lemma in_block_range A N a v : 0 < A -> 0 <= N -> 0 <= a < A -> in_block A N a v = true -> 0 <= v < N.
Proof.
  intros HA HN Ha H. unfold in_block in H.
  pose proof (split_lo_mono A N 0 a HA HN ltac:(lia) ltac:(lia)). rewrite split_lo_0 in H0 by auto.
  pose proof (split_lo_mono A N (a + 1) A HA HN ltac:(lia) ltac:(lia)). rewrite split_lo_top in H1 by auto. lia.
Qed.

Lemma blocks_disjoint A N a b v : 0 < A -> 0 <= N -> 0 <= a -> 0 <= b ->
  in_block A N a v = true -> in_block A N b v = true -> a = b.
Proof.
  intros HA HN Ha Hb H1 H2. unfold in_block in *.
  destruct (Z.lt_trichotomy a b) as [L|[E|L]]; auto; exfalso.
  - pose proof (split_lo_mono A N (a + 1) b HA HN ltac:(lia) ltac:(lia)). lia.
  - pose proof (split_lo_mono A N (b + 1) a HA HN ltac:(lia) ltac:(lia)). lia.
Qed.

(* C10: an instance that passes the verified certificate is structurally solvable: the agents own pairwise disjoint
   blocks of nodes, each block induces a connected sub-graph, and each agent's K distinct required nodes lie in its
   own block -- every agent can connect its nodes inside its block without ever touching another agent's block *)
Theorem instance_solvable A N K adj comps :
  0 < A -> 0 <= N -> instance_ok_b A N K adj comps = true ->
  forall a, 0 <= a < A ->
    zlen (znth [] comps a) = K /\
    forall k, In k (znth [] comps a) ->
      0 <= k < N /\ in_block A N a k = true
      /\ conn_from (fun i j => gat 0 adj i j =? 1) (in_block A N a) (split_lo A N a) k.
Proof.
  intros HA HN H a Ha. unfold instance_ok_b in H.
  apply andb_true_iff in H as [H H3]. apply andb_true_iff in H as [H1 H2].
  unfold comps_ok_b in H3. apply andb_true_iff in H3 as [_ H3]. rewrite forallb_zrange in H3.
  specialize (H3 a Ha). cbn zeta in H3. apply andb_true_iff in H3 as [H3 H5]. apply andb_true_iff in H3 as [H3 H4].
  split; [unfold len_is in H3; lia|].
  intros k Hk. rewrite forallb_forall in H5. specialize (H5 k Hk).
  pose proof (in_block_range A N a k HA HN Ha H5) as R. repeat split; try lia; auto.
  unfold blocks_connected_b in H2. rewrite forallb_zrange in H2.
  apply (connected_b_sound N _ _ _ (H2 a Ha) k R H5).
Qed.

Theorem sym_loopless_sound N adj : sym_loopless_b N adj = true ->
  forall i j, 0 <= i < N -> 0 <= j < N -> gat 0 adj i i = 0 /\ gat 0 adj i j = gat 0 adj j i /\ (gat 0 adj i j = 0 \/ gat 0 adj i j = 1).
Proof.
  unfold sym_loopless_b. intros H i j Hi Hj. rewrite forallb_zrange in H. specialize (H i Hi).
  apply andb_true_iff in H as [H1 H2]. rewrite forallb_zrange in H2. specialize (H2 j Hj). cbn zeta in H2. lia.
Qed.

(* ---- the advertised bounds fail (faithful model of utils.add_edge / add_random_edges) ---- *)
(* max_degree = 1: node 0 reaches degree 2 because add_edge only refuses when the degree is ALREADY > max_degree *)
Theorem degree_bound_refuted :
  exists n ne maxd start wd ed, let g := random_walk n ne maxd start wd ed in
    maxd < max_degree_of n (adj_of_edges n (g_edges g)).
Proof. exists 3, 2, 1, 0, [1; 0; 2], []. vm_compute. reflexivity. Qed.

(* (1,0) is accepted after (0,1): the graph asked to have 3 edges has 2 distinct ones *)
Theorem num_edges_refuted :
  exists n ne maxd start wd ed, let g := random_walk n ne maxd start wd ed in
    zlen (g_edges g) = ne /\ num_edges_of n (adj_of_edges n (g_edges g)) < ne.
Proof. exists 3, 3, 5, 0, [1; 2], [(1, 0)]. vm_compute. split; reflexivity. Qed.
