(* MMST generator (C10), part 2: utils.multi_random_walk / SplitRandomGenerator._generate_graph over explicit draws.
   [gen_graph] composes the model pieces of Model/Mmst.v (random_walk per block, offset_graph, merge_graphs) exactly as
   multi_random_walk does; the per-stage edge-count targets are FREE parameters of the draws (the theorem holds for every
   choice, in particular for the ones the code computes).
   Main theorem [gen_instance_ok]: if  ceil(N/A) - 2 <= max_degree  then for ALL valid draws the generated instance passes
   the verified certificate [instance_ok_b].  Without that hypothesis the statement is FALSE ([walk_disconnected_refuted]):
   an edge refused by the degree test during the spanning walk leaves the walk standing on an unmarked node, the next
   "new node" is linked to it (or to itself: a self loop) instead of to the tree.                                    *)
Require Import JV.Base.Prelude JV.Base.JaxIndex JV.Base.Codec JV.Base.TimeStep JV.Model.Mmst JV.Proofs.Mmst_lib JV.Proofs.Mmst_Gen JV.Proofs.Mmst_GenWalk.

(* draws of one block: requested number of edges, start node, neighbour draws of the spanning loop, pair draws *)
Record sub_draw := mkSD { sd_ne : Z; sd_start : Z; sd_w : list Z; sd_e : list (Z * Z) }.
(* draws of one merge: requested total number of edges, the cross edge, pair draws *)
Record mrg_draw := mkMD { md_total : Z; md_cross : Z * Z; md_e : list (Z * Z) }.

Definition bsize (A N a : Z) : Z := split_lo A N (a + 1) - split_lo A N a.
Definition sub_graph (A N maxd a : Z) (d : sub_draw) : graph :=
  random_walk (bsize A N a) (sd_ne d) maxd (sd_start d) (sd_w d) (sd_e d).
Fixpoint merge_all (A N maxd : Z) (g : graph) (a : Z) (subs : list sub_draw) (ms : list mrg_draw) : graph :=
  match subs, ms with
  | sd :: subs', md :: ms' =>
      merge_all A N maxd
        (merge_graphs maxd (md_total md) g (offset_graph (split_lo A N a) (sub_graph A N maxd a sd)) (md_cross md) (md_e md))
        (a + 1) subs' ms'
  | _, _ => g
  end.
Definition gen_graph (A N maxd : Z) (subs : list sub_draw) (ms : list mrg_draw) : graph :=
  match subs with
  | [] => init_graph 0
  | sd :: r => merge_all A N maxd (sub_graph A N maxd 0 sd) 1 r ms
  end.

(* valid draws: ranges of jax.random.randint / choice, choice(replace=False) gives distinct pairs, the cross edge joins
   the graph built so far to the new block, and the spanning loop has exited (every node of the block marked) *)
Definition walk_done (maxd n : Z) (d : sub_draw) : bool :=
  all_true (snd (fst (walk maxd (sd_w d) (jset (repeat false (Z.to_nat n)) (sd_start d) true) (init_graph n) (sd_start d)))).
Definition sub_valid_b (maxd n : Z) (d : sub_draw) : bool :=
  (0 <=? sd_start d) && (sd_start d <? n) && forallb (fun x => (0 <=? x) && (x <? n)) (sd_w d)
  && forallb (eok_b n) (sd_e d) && walk_done maxd n d.
Definition mrg_valid_b (lo hi : Z) (d : mrg_draw) : bool :=
  (0 <=? fst (md_cross d)) && (fst (md_cross d) <? lo) && (lo <=? snd (md_cross d)) && (snd (md_cross d) <? hi)
  && forallb (eok_b hi) (md_e d).
Fixpoint subs_valid_b (A N maxd a : Z) (subs : list sub_draw) : bool :=
  match subs with [] => true | d :: r => sub_valid_b maxd (bsize A N a) d && subs_valid_b A N maxd (a + 1) r end.
Fixpoint mrgs_valid_b (A N a : Z) (ms : list mrg_draw) : bool :=
  match ms with [] => true
  | d :: r => mrg_valid_b (split_lo A N a) (split_lo A N (a + 1)) d && mrgs_valid_b A N (a + 1) r end.
Definition gen_valid_b (A N maxd : Z) (subs : list sub_draw) (ms : list mrg_draw) : bool :=
  (zlen subs =? A) && (zlen ms =? A - 1) && subs_valid_b A N maxd 0 subs && mrgs_valid_b A N 1 ms.

(* ---------- blocks ---------- *)
Lemma bsize_bounds A N a : 0 < A -> 0 <= N -> 0 <= a -> N / A <= bsize A N a <= (N + A - 1) / A.
Proof.
  intros HA HN Ha. unfold bsize, split_lo.
  pose proof (Z.mod_pos_bound N A HA) as R. pose proof (Z.div_mod N A ltac:(lia)) as DM.
  assert (E : (N + A - 1) / A = N / A + (if N mod A =? 0 then 0 else 1)).
  { destruct (N mod A =? 0) eqn:Q.
    - symmetry. rewrite Z.add_0_r. apply (Z.div_unique (N + A - 1) A (N / A) (A - 1)); lia.
    - symmetry. apply (Z.div_unique (N + A - 1) A (N / A + 1) (N mod A - 1)); lia. }
  rewrite E. destruct (N mod A =? 0) eqn:Q; lia.
Qed.

Lemma forallb_Forall {X} (f : X -> bool) (P : X -> Prop) l :
  (forall x, f x = true -> P x) -> forallb f l = true -> Forall P l.
Proof. intros H F. rewrite forallb_forall in F. apply Forall_forall. auto. Qed.

(* ---------- one block, shifted ---------- *)
Definition shiftE (off : Z) (e : Z * Z) : Z * Z := (fst e + off, snd e + off).

Lemma offset_edges off g : g_edges (offset_graph off g) = map (shiftE off) (g_edges g).
Proof. reflexivity. Qed.

Lemma adjE_shift off es u v : adjE es u v = true -> adjE (map (shiftE off) es) (u + off) (v + off) = true.
Proof.
  intro H. apply adjE_spec in H. apply adjE_spec.
  destruct H as [H|H]; [left|right]; apply in_map_iff; eexists; (split; [|exact H]); reflexivity.
Qed.

Section Gen.
Variables (A N maxd : Z).
Hypothesis HA : 0 < A.
Hypothesis HAN : A <= N.
Hypothesis Hmax : (N + A - 1) / A - 2 <= maxd.

Let lo := split_lo A N.

Lemma lo_step a : 0 <= a -> lo (a + 1) = lo a + bsize A N a.
Proof. intro Ha. unfold bsize, lo. lia. Qed.

Lemma bsize_pos a : 0 <= a -> 0 < bsize A N a.
Proof.
  intro Ha. pose proof (bsize_bounds A N a HA ltac:(lia) Ha) as B.
  assert (1 <= N / A) by (apply Z.div_le_lower_bound; lia). lia.
Qed.

Lemma lo_nonneg a : 0 <= a -> 0 <= lo a.
Proof.
  intro Ha. pose proof (split_lo_mono A N 0 a HA ltac:(lia) ltac:(lia) Ha) as M.
  rewrite split_lo_0 in M by auto. exact M.
Qed.

Lemma sub_block a d : 0 <= a -> sub_valid_b maxd (bsize A N a) d = true ->
  let es := map (shiftE (lo a)) (g_edges (sub_graph A N maxd a d)) in
  (forall e, In e es -> eok (lo (a + 1)) e) /\
  (forall u v, in_block A N a u = true -> in_block A N a v = true -> conn_from (adjE es) (in_block A N a) u v).
Proof.
  intros Ha V es. unfold sub_valid_b in V.
  apply andb_true_iff in V as [V V5]. apply andb_true_iff in V as [V V4]. apply andb_true_iff in V as [V V3].
  apply andb_true_iff in V as [V1 V2].
  set (n := bsize A N a) in *. pose proof (bsize_pos a Ha) as Pn. fold n in Pn.
  pose proof (bsize_bounds A N a HA ltac:(lia) Ha) as Bn. fold n in Bn.
  assert (W : Forall (fun x => 0 <= x < n) (sd_w d)) by (apply (forallb_Forall (fun x => (0 <=? x) && (x <? n)) _ (sd_w d)); [intros x Q; lia|exact V3]).
  assert (E : Forall (eok n) (sd_e d)) by (apply (forallb_Forall _ _ _ (fun x => proj1 (eok_b_spec n x)) V4)).
  destruct (random_walk_connected maxd n (sd_start d) Pn ltac:(lia) (sd_ne d) (sd_w d) (sd_e d) ltac:(lia) W E V5) as [EK CN].
  fold (sub_graph A N maxd a d) in EK, CN. pose proof (lo_nonneg a Ha) as L0. pose proof (lo_step a Ha) as LS. fold n in LS.
  split.
  - intros e Hin. unfold es in Hin. apply in_map_iff in Hin as [e0 [<- Hin]]. destruct (EK e0 Hin) as [E1 [E2 E3]].
    unfold eok, shiftE. cbn [fst snd]. lia.
  - intros u v Bu Bv. unfold in_block in Bu, Bv. fold lo in Bu, Bv.
    assert (Q : conn_from (adjE es) (in_block A N a) ((fun x => x + lo a) (u - lo a)) ((fun x => x + lo a) (v - lo a))).
    { apply (conn_from_map (adjE (g_edges (sub_graph A N maxd a d))) (inb n) (adjE es) (in_block A N a) (fun x => x + lo a) (u - lo a) (v - lo a)).
      - intros x y _ _ Q. apply adjE_shift. exact Q.
      - intros x Q. unfold inb in Q. unfold in_block. fold lo. lia.
      - apply CN; lia. }
    cbn beta in Q. replace (u - lo a + lo a) with u in Q by lia. replace (v - lo a + lo a) with v in Q by lia. exact Q.
Qed.

(* ---------- merging ---------- *)
Definition GInv (a : Z) (g : graph) : Prop :=
  (forall e, In e (g_edges g) -> eok (lo a) e) /\
  (forall b u v, 0 <= b < a -> in_block A N b u = true -> in_block A N b v = true ->
                 conn_from (adjE (g_edges g)) (in_block A N b) u v).

Lemma eok_mono n m e : n <= m -> eok n e -> eok m e.
Proof. unfold eok. lia. Qed.

Lemma merge_GInv a g sd md : 0 < a -> GInv a g -> sub_valid_b maxd (bsize A N a) sd = true ->
  mrg_valid_b (lo a) (lo (a + 1)) md = true ->
  GInv (a + 1) (merge_graphs maxd (md_total md) g (offset_graph (lo a) (sub_graph A N maxd a sd)) (md_cross md) (md_e md)).
Proof.
  intros Ha [GE GC] VS VM. destruct (sub_block a sd ltac:(lia) VS) as [SE SC].
  unfold mrg_valid_b in VM. apply andb_true_iff in VM as [VM M5]. apply andb_true_iff in VM as [VM M4].
  apply andb_true_iff in VM as [VM M3]. apply andb_true_iff in VM as [M1 M2].
  assert (E : Forall (eok (lo (a + 1))) (md_e md)) by (apply (forallb_Forall _ _ _ (fun x => proj1 (eok_b_spec _ x)) M5)).
  pose proof (lo_step a ltac:(lia)) as LS. pose proof (bsize_pos a ltac:(lia)) as BP.
  set (gb := offset_graph (lo a) (sub_graph A N maxd a sd)).
  assert (E0 : g_edges (merge_init g gb) = g_edges g ++ map (shiftE (lo a)) (g_edges (sub_graph A N maxd a sd))) by reflexivity.
  assert (K0 : forall e, In e (g_edges (merge_init g gb)) -> eok (lo (a + 1)) e).
  { intros e Hin. rewrite E0 in Hin. apply in_app_or in Hin as [Hin|Hin]; auto.
    apply (eok_mono (lo a)); [lia|auto]. }
  unfold merge_graphs. split.
  - apply add_random_eok; auto. apply add_edge_eok; auto.
    destruct (md_cross md) as [c1 c2]. unfold eok. cbn [fst snd] in *. lia.
  - assert (I : incl (g_edges (merge_init g gb))
                     (g_edges (fst (add_random maxd (md_total md) (md_e md)
                                      (fst (add_edge maxd (merge_init g gb) (fst (md_cross md)) (snd (md_cross md)))))))).
    { eapply incl_tran; [apply add_edge_incl|apply add_random_incl]. }
    intros b u v Hb Bu Bv. apply (conn_from_mono_adj (adjE (g_edges (merge_init g gb)))).
    { intros x y. apply adjE_incl. exact I. }
    rewrite E0. destruct (Z.eq_dec b a) as [->|Q].
    + apply (conn_from_mono_adj (adjE (map (shiftE (lo a)) (g_edges (sub_graph A N maxd a sd))))).
      { intros x y. apply adjE_incl. apply incl_appr, incl_refl. }
      apply SC; auto.
    + apply (conn_from_mono_adj (adjE (g_edges g))).
      { intros x y. apply adjE_incl. apply incl_appl, incl_refl. }
      apply GC; auto. lia.
Qed.

Lemma merge_all_GInv : forall subs ms a g, 0 < a -> GInv a g -> zlen ms = zlen subs ->
  subs_valid_b A N maxd a subs = true -> mrgs_valid_b A N a ms = true ->
  GInv (a + zlen subs) (merge_all A N maxd g a subs ms).
Proof.
  induction subs as [|sd r IH]; intros ms a g Ha G L VS VM.
  - cbn [merge_all]. replace (a + zlen []) with a by (unfold zlen; cbn; lia). destruct ms; exact G.
  - destruct ms as [|md ms']; [exfalso; unfold zlen in L; cbn [length] in L; lia|].
    cbn [merge_all subs_valid_b mrgs_valid_b] in *.
    apply andb_true_iff in VS as [VS1 VS2]. apply andb_true_iff in VM as [VM1 VM2].
    rewrite zlen_cons. replace (a + (1 + zlen r)) with ((a + 1) + zlen r) by lia.
    apply IH; auto; [lia|apply merge_GInv; auto|rewrite !zlen_cons in L; lia].
Qed.

Theorem gen_graph_GInv subs ms : gen_valid_b A N maxd subs ms = true -> GInv A (gen_graph A N maxd subs ms).
Proof.
  unfold gen_valid_b. intro V. apply andb_true_iff in V as [V V4]. apply andb_true_iff in V as [V V3].
  apply andb_true_iff in V as [V1 V2].
  destruct subs as [|sd r]; [unfold zlen in V1; cbn [length] in V1; lia|].
  cbn [gen_graph subs_valid_b] in *. apply andb_true_iff in V3 as [S1 S2].
  rewrite zlen_cons in V1. replace A with (1 + zlen r) at 1 by lia.
  apply merge_all_GInv; auto; [lia| |lia].
  destruct (sub_block 0 sd ltac:(lia) S1) as [SE SC].
  assert (Z0 : lo 0 = 0) by (apply split_lo_0; auto).
  assert (ID : map (shiftE (lo 0)) (g_edges (sub_graph A N maxd 0 sd)) = g_edges (sub_graph A N maxd 0 sd)).
  { rewrite Z0. rewrite <- (map_id (g_edges _)) at 2. apply map_ext. intros [x y]. unfold shiftE. cbn [fst snd]. f_equal; lia. }
  rewrite ID in SE, SC. split.
  - exact SE.
  - intros b u v Hb. replace b with 0 by lia. apply SC.
Qed.

(* C10: for all valid draws the generated instance passes the verified certificate *)
Theorem gen_instance_ok K subs ms comps :
  gen_valid_b A N maxd subs ms = true -> comps_ok_b A N K comps = true ->
  instance_ok_b A N K (adj_of_edges N (g_edges (gen_graph A N maxd subs ms))) comps = true.
Proof.
  intros V C. destruct (gen_graph_GInv subs ms V) as [GE GC].
  assert (LA : lo A = N) by (apply split_lo_top; lia). rewrite LA in GE.
  set (es := g_edges (gen_graph A N maxd subs ms)) in *.
  pose proof (adj_of_edges_spec N es ltac:(lia) (fun e He => eok_inr N e (GE e He))) as AD.
  unfold instance_ok_b. rewrite C, andb_true_r. apply andb_true_iff. split.
  - unfold sym_loopless_b. apply forallb_zrange. intros i Hi. apply andb_true_iff. split.
    + rewrite AD by auto. rewrite (adjE_irrefl N es i GE). reflexivity.
    + apply forallb_zrange. intros j Hj. cbn zeta. rewrite !AD by auto. rewrite (adjE_sym es j i).
      destruct (adjE es i j); reflexivity.
  - unfold blocks_connected_b. apply forallb_zrange. intros a Ha.
    assert (B0 : in_block A N a (lo a) = true).
    { unfold in_block. fold lo. pose proof (lo_step a ltac:(lia)). pose proof (bsize_pos a ltac:(lia)). lia. }
    apply connected_b_complete.
    + intros v Bv. apply (in_block_range A N a v); auto; lia.
    + exact B0.
    + intros v Bv. apply (conn_from_mono_adj (adjE es)).
      * intros x y Q. pose proof (proj1 (adjE_spec es x y) Q) as I.
        assert (Rx : 0 <= x < N /\ 0 <= y < N).
        { destruct I as [I|I]; destruct (GE _ I) as [E1 [E2 _]]; cbn [fst snd] in *; lia. }
        rewrite AD by lia. rewrite Q. reflexivity.
      * apply GC; auto.
Qed.
End Gen.

(* ... hence it is solvable block by block (meaning of the certificate: Mmst_Gen.instance_solvable) *)
Theorem gen_solvable A N maxd :
  0 < A -> A <= N -> (N + A - 1) / A - 2 <= maxd ->
  forall K subs ms comps,
    gen_valid_b A N maxd subs ms = true -> comps_ok_b A N K comps = true ->
    let adj := adj_of_edges N (g_edges (gen_graph A N maxd subs ms)) in
    forall a, 0 <= a < A ->
      zlen (znth [] comps a) = K /\
      forall k, In k (znth [] comps a) ->
        0 <= k < N /\ in_block A N a k = true
        /\ conn_from (fun i j => gat 0 adj i j =? 1) (in_block A N a) (split_lo A N a) k.
Proof.
  intros HA HAN Hm K subs ms comps V C adj. apply (instance_solvable A N K adj comps); [lia|lia|].
  apply gen_instance_ok; auto.
Qed.

(* ---------- the hypothesis on max_degree is needed ---------- *)
(* A block of the DEFAULT configuration (12 nodes, 12 edges, max_degree 5): the walk 0-1-0-2-...-0-6 gives node 0 degree 6;
   the edge 0-7 is then REFUSED (6 > 5) but the walk moves to the unmarked node 7; drawing 7 again adds the self loop 7-7 and
   marks 7; 8..11 are chained to 7.  Every node is marked, the loop exits, {7..11} is cut off from {0..6}. *)
Definition bad_sub : sub_draw := mkSD 12 0 [1; 0; 2; 0; 3; 0; 4; 0; 5; 0; 6; 0; 7; 7; 8; 9; 10; 11] [(1, 2)].

Theorem walk_disconnected_refuted :
  exists n maxd d, sub_valid_b maxd n d = true /\
    let g := random_walk n (sd_ne d) maxd (sd_start d) (sd_w d) (sd_e d) in
    zlen (g_edges g) = sd_ne d /\ In (7, 7) (g_edges g) /\
    connected_b n (fun i j => gat 0 (adj_of_edges n (g_edges g)) i j =? 1) (inb n) 0 = false.
Proof. exists 12, 5, bad_sub. vm_compute. repeat split; auto 20. Qed.

(* the same at the level of the whole generator: N = 36, A = 3, max_degree = 5 (default sizes), all draws valid,
   block 0 of the generated adjacency matrix is not connected and the matrix has a self loop *)
Definition chain (n : Z) : list Z := map (fun i => i + 1) (zrange (n - 1)).
Definition good_sub (n : Z) : sub_draw := mkSD (n - 1) 0 (chain n) [].
Definition bad_subs : list sub_draw := [bad_sub; good_sub 12; good_sub 12].
Definition bad_ms : list mrg_draw := [mkMD 24 (0, 12) []; mkMD 36 (0, 24) []].

Theorem gen_not_solvable_refuted :
  gen_valid_b 3 36 5 bad_subs bad_ms = true /\
  let adj := adj_of_edges 36 (g_edges (gen_graph 3 36 5 bad_subs bad_ms)) in
  blocks_connected_b 3 36 adj = false /\ sym_loopless_b 36 adj = false /\ gat 0 adj 7 7 = 1.
Proof. vm_compute. repeat split; reflexivity. Qed.

(* The same phenomenon on the REAL generator: default MMST, reset(PRNGKey(60800)), block 0.  The draws below were recovered
   from the real key stream; the real utils.random_walk returns exactly this edge list (node 7 reaches degree 6, the edge
   7-1 is refused, the self loop 1-1 is added); in the generated state node 1 is cut off from the rest of block 0. *)
Definition seed60800_sub : sub_draw :=
  mkSD 12 7 [0; 7; 4; 0; 7; 5; 3; 5; 10; 10; 3; 10; 6; 9; 9; 6; 6; 7; 2; 10; 7; 11; 2; 6; 9; 7; 5; 11; 7; 8; 7; 8; 2; 0; 7; 2; 0;
             6; 3; 4; 9; 5; 7; 8; 8; 5; 8; 6; 4; 3; 9; 2; 9; 0; 6; 5; 2; 3; 10; 9; 0; 0; 7; 11; 11; 3; 10; 5; 3; 8; 9; 11; 5; 6; 4;
             2; 7; 1; 1] [(0, 7); (2, 5)].

Example seed60800_block0 :
  sub_valid_b 5 12 seed60800_sub = true /\
  let g := sub_graph 3 36 5 0 seed60800_sub in
  g_edges g = [(0, 7); (4, 7); (5, 7); (3, 5); (5, 10); (6, 10); (6, 9); (2, 7); (7, 11); (7, 8); (1, 1); (2, 5)] /\
  connected_b 12 (fun i j => gat 0 (adj_of_edges 12 (g_edges g)) i j =? 1) (inb 12) 0 = false.
Proof. vm_compute. repeat split; reflexivity. Qed.
