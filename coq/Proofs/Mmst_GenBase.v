(* MMST generator (C10), part 3: for ALL valid draws (no hypothesis on max_degree) the node_edges table of the generated
   graph is the adjacency list view of the adjacency matrix built from its edge list: node_edges[i][j] = j if {i,j} is an
   edge, else -1 (self loops included) -- [base_consistent_b], one of the hypotheses of the reset invariant.        *)
Require Import JV.Base.Prelude JV.Base.JaxIndex JV.Base.Codec JV.Base.TimeStep JV.Model.Mmst JV.Proofs.Mmst_lib JV.Proofs.Mmst_Gen JV.Proofs.Mmst_GenWalk JV.Proofs.Mmst_GenAll.

Definition NE (n : Z) (g : graph) : Prop :=
  g_n g = n /\ sq n (g_ne g) /\ (forall e, In e (g_edges g) -> inr n e) /\
  forall i j, 0 <= i < n -> 0 <= j < n -> gat (-1) (g_ne g) i j = if adjE (g_edges g) i j then j else -1.

Lemma adjE_app es es' u v : adjE (es ++ es') u v = adjE es u v || adjE es' u v.
Proof. unfold adjE. apply existsb_app. Qed.

Lemma adjE_out n es u v : (forall e, In e es -> inr n e) -> ~ (0 <= u < n /\ 0 <= v < n) -> adjE es u v = false.
Proof.
  intros H Q. destruct (adjE es u v) eqn:E; auto. exfalso. apply Q. apply adjE_spec in E.
  destruct E as [E|E]; destruct (H _ E) as [A B]; cbn [fst snd] in *; lia.
Qed.

Lemma NE_init n : 0 <= n -> NE n (init_graph n).
Proof.
  intro Hn. unfold NE, init_graph. cbn [g_n g_ne g_edges].
  split; [reflexivity|]. split; [split|split].
  - rewrite zlen_repeat. lia.
  - intros i Hi. rewrite znth_rep by lia. rewrite zlen_repeat. lia.
  - intros e [].
  - intros i j Hi Hj. unfold gat. rewrite znth_rep by lia. cbn [adjE existsb]. apply znth_rep. lia.
Qed.

Lemma add_edge_NE maxd n g a b : 0 <= a < n -> 0 <= b < n -> NE n g -> NE n (fst (add_edge maxd g a b)).
Proof.
  intros Ha Hb [GN [S [R G]]]. unfold add_edge. destruct (_ && _ && _); cbn [fst]; [|unfold NE; auto].
  unfold NE. cbn [g_n g_ne g_edges].
  destruct (gset_sq (-1) n (g_ne g) a b b S Ha Hb) as [S1 G1]. destruct (gset_sq (-1) n _ b a a S1 Hb Ha) as [S2 G2].
  split; [auto|]. split; [auto|]. split.
  - intros e Hin. apply in_app_or in Hin as [Hin|[<-|[]]]; [apply R; auto|]. unfold inr. cbn [fst snd]. lia.
  - intros i j Hi Hj. rewrite G2, G1, G by auto. rewrite adjE_app.
    assert (SE : adjE [(a, b)] i j = ((a =? i) && (b =? j)) || ((a =? j) && (b =? i)))
      by (unfold adjE; cbn [existsb fst snd]; apply orb_false_r).
    rewrite SE. destruct (adjE (g_edges g) i j); cbn [orb].
    + destruct ((b =? i) && (a =? j)) eqn:Q1; [lia|]. destruct ((a =? i) && (b =? j)) eqn:Q2; [lia|]. reflexivity.
    + destruct ((b =? i) && (a =? j)) eqn:Q1; destruct ((a =? i) && (b =? j)) eqn:Q2; cbn [orb];
        try (destruct ((a =? j) && (b =? i)) eqn:Q3); try lia; reflexivity.
Qed.

Lemma add_random_NE maxd total n : forall draws g, Forall (inr n) draws -> NE n g -> NE n (fst (add_random maxd total draws g)).
Proof.
  induction draws as [|[a b] r IH]; intros g HD H; cbn [add_random fst]; auto.
  destruct (zlen (g_edges g) <? total); cbn [fst]; auto.
  inversion HD as [|x l Hx Hl]; subst. destruct Hx as [Hx1 Hx2]. cbn [fst snd] in *. apply IH; auto. apply add_edge_NE; auto.
Qed.

Lemma walk_NE maxd n : forall draws intree g cur, 0 <= cur < n -> Forall (fun d => 0 <= d < n) draws -> NE n g ->
  NE n (fst (fst (walk maxd draws intree g cur))).
Proof.
  induction draws as [|nb r IH]; intros intree g cur Hc HD H; cbn [walk fst]; auto.
  inversion HD as [|x l Hx Hl]; subst.
  destruct (all_true intree); cbn [fst]; auto.
  destruct (negb (jget true intree nb)); [|apply IH; auto].
  pose proof (add_edge_NE maxd n g (Z.min cur nb) (Z.max cur nb) ltac:(lia) ltac:(lia) H) as Q.
  destruct (add_edge maxd g (Z.min cur nb) (Z.max cur nb)) as [g' ok]. cbn [fst] in Q. apply IH; auto.
Qed.

Lemma forall_eok_inr n l : Forall (eok n) l -> Forall (inr n) l.
Proof. intro H. eapply Forall_impl; [|exact H]. apply eok_inr. Qed.

Lemma random_walk_NE n ne maxd start wd ed : 0 <= start < n -> Forall (fun d => 0 <= d < n) wd -> Forall (eok n) ed ->
  NE n (random_walk n ne maxd start wd ed).
Proof.
  intros Hs HW HE. unfold random_walk.
  pose proof (walk_NE maxd n wd (jset (repeat false (Z.to_nat n)) start true) (init_graph n) start Hs HW (NE_init n ltac:(lia))) as Q.
  destruct (walk maxd wd _ (init_graph n) start) as [[g1 it] rest]. cbn [fst] in Q.
  apply add_random_NE; auto. apply forall_eok_inr; auto.
Qed.

(* ---------- block-diagonal merge ---------- *)
Lemma znth_app1 {X} (d : X) l1 l2 i : 0 <= i < zlen l1 -> znth d (l1 ++ l2) i = znth d l1 i.
Proof. intro H. rewrite !znth_nth by lia. apply app_nth1. unfold zlen in H. lia. Qed.

Lemma znth_app2 {X} (d : X) l1 l2 i : zlen l1 <= i -> znth d (l1 ++ l2) i = znth d l2 (i - zlen l1).
Proof.
  intro H. pose proof (zlen_nonneg l1). rewrite !znth_nth by lia. rewrite app_nth2 by (unfold zlen in H; lia).
  f_equal. unfold zlen. lia.
Qed.

Lemma adjE_shift_iff off es u v : adjE (map (shiftE off) es) u v = adjE es (u - off) (v - off).
Proof.
  unfold adjE. induction es as [|[a b] r IH]; cbn [map existsb]; auto. rewrite IH. f_equal.
  unfold shiftE. cbn [fst snd].
  destruct ((a =? u - off) && (b =? v - off)) eqn:Q1; destruct ((a =? v - off) && (b =? u - off)) eqn:Q2; lia.
Qed.

Lemma merge_init_NE na nb ga gb : 0 <= na -> 0 <= nb -> NE na ga -> NE nb gb ->
  NE (na + nb) (merge_init ga (offset_graph na gb)).
Proof.
  intros Hna Hnb [NA [[LA RA] [EA GA]]] [NB [[LB RB] [EB GB]]].
  unfold NE, merge_init, offset_graph. cbn [g_n g_ne g_edges]. rewrite NA, NB.
  change (map (fun e : Z * Z => (fst e + na, snd e + na)) (g_edges gb)) with (map (shiftE na) (g_edges gb)).
  set (sh := fun v : Z => if v =? -1 then -1 else v + na).
  set (top := map (fun r => r ++ repeat (-1) (Z.to_nat nb)) (g_ne ga)).
  set (bot := map (fun r => repeat (-1) (Z.to_nat na) ++ r) (map (map sh) (g_ne gb))).
  assert (LT : zlen top = na) by (unfold top; rewrite zlen_map; auto).
  assert (LBt : zlen bot = nb) by (unfold bot; rewrite !zlen_map; auto).
  assert (RT : forall i, 0 <= i < na -> znth [] (top ++ bot) i = znth [] (g_ne ga) i ++ repeat (-1) (Z.to_nat nb)).
  { intros i Hi. rewrite znth_app1 by lia. unfold top. rewrite (znth_map _ []) by lia. reflexivity. }
  assert (RBt : forall i, na <= i < na + nb ->
            znth [] (top ++ bot) i = repeat (-1) (Z.to_nat na) ++ map sh (znth [] (g_ne gb) (i - na))).
  { intros i Hi. rewrite znth_app2 by lia. rewrite LT. unfold bot.
    rewrite (znth_map _ []) by (rewrite zlen_map; lia). rewrite (znth_map _ []) by lia. reflexivity. }
  assert (EBs : forall e, In e (map (shiftE na) (g_edges gb)) -> na <= fst e < na + nb /\ na <= snd e < na + nb).
  { intros e Hin. apply in_map_iff in Hin as [e0 [<- Hin]]. destruct (EB e0 Hin). unfold shiftE. cbn [fst snd]. lia. }
  split; [reflexivity|]. split; [|split].
  - split; [rewrite zlen_app; lia|]. intros i Hi. destruct (Z.lt_ge_cases i na) as [C|C].
    + rewrite RT by lia. rewrite zlen_app, zlen_repeat, RA by lia. lia.
    + rewrite RBt by lia. rewrite zlen_app, zlen_repeat, zlen_map, RB by lia. lia.
  - intros e Hin. apply in_app_or in Hin as [Hin|Hin].
    + destruct (EA e Hin). unfold inr. lia.
    + destruct (EBs e Hin). unfold inr. lia.
  - intros i j Hi Hj. rewrite adjE_app. unfold gat.
    assert (OA : ~ (0 <= i < na /\ 0 <= j < na) -> adjE (g_edges ga) i j = false) by (apply (adjE_out na); auto).
    assert (OB : ~ (na <= i /\ na <= j) -> adjE (map (shiftE na) (g_edges gb)) i j = false).
    { intro Q. destruct (adjE (map (shiftE na) (g_edges gb)) i j) eqn:E; auto. exfalso. apply Q. apply adjE_spec in E.
      destruct E as [E|E]; destruct (EBs _ E); cbn [fst snd] in *; lia. }
    destruct (Z.lt_ge_cases i na) as [Ci|Ci]; destruct (Z.lt_ge_cases j na) as [Cj|Cj].
    + rewrite RT by lia. rewrite znth_app1 by (rewrite RA; lia). rewrite OB by lia. rewrite orb_false_r.
      apply (GA i j); lia.
    + rewrite RT by lia. rewrite znth_app2 by (rewrite RA; lia). rewrite RA by lia. rewrite znth_rep by lia.
      rewrite OA, OB by lia. reflexivity.
    + rewrite RBt by lia. rewrite znth_app1 by (rewrite zlen_repeat; lia). rewrite znth_rep by lia.
      rewrite OA, OB by lia. reflexivity.
    + rewrite RBt by lia. rewrite znth_app2 by (rewrite zlen_repeat; lia). rewrite zlen_repeat.
      replace (j - Z.of_nat (Z.to_nat na)) with (j - na) by lia.
      rewrite (znth_map _ (-1)) by (rewrite RB; lia). rewrite OA by lia. cbn [orb]. rewrite adjE_shift_iff.
      pose proof (GB (i - na) (j - na) ltac:(lia) ltac:(lia)) as Q. unfold gat in Q. rewrite Q. unfold sh.
      destruct (adjE (g_edges gb) (i - na) (j - na)); [|reflexivity].
      destruct (j - na =? -1) eqn:T; lia.
Qed.

Lemma merge_graphs_NE maxd total na nb ga gb cross ed : 0 <= na -> 0 <= nb -> NE na ga -> NE nb gb ->
  inr (na + nb) cross -> Forall (inr (na + nb)) ed ->
  NE (na + nb) (merge_graphs maxd total ga (offset_graph na gb) cross ed).
Proof.
  intros Hna Hnb A B [C1 C2] E. unfold merge_graphs. apply add_random_NE; auto. apply add_edge_NE; auto.
  apply merge_init_NE; auto.
Qed.

Section GenBase.
Variables (A N maxd : Z).
Hypothesis HA : 0 < A.
Hypothesis HAN : A <= N.
Let lo := split_lo A N.

Lemma lo_nonneg' a : 0 <= a -> 0 <= lo a.
Proof.
  intro Ha. pose proof (split_lo_mono A N 0 a HA ltac:(lia) ltac:(lia) Ha) as M.
  rewrite split_lo_0 in M by auto. exact M.
Qed.

Lemma bsize_nonneg a : 0 <= a -> 0 <= bsize A N a.
Proof.
  intro Ha. pose proof (bsize_bounds A N a HA ltac:(lia) Ha) as B.
  assert (0 <= N / A) by (apply Z.div_pos; lia). lia.
Qed.

Lemma sub_NE a d : 0 <= a -> sub_valid_b maxd (bsize A N a) d = true -> NE (bsize A N a) (sub_graph A N maxd a d).
Proof.
  intros Ha V. unfold sub_valid_b in V.
  apply andb_true_iff in V as [V V5]. apply andb_true_iff in V as [V V4]. apply andb_true_iff in V as [V V3].
  apply andb_true_iff in V as [V1 V2]. set (n := bsize A N a) in *.
  unfold sub_graph. fold n. apply random_walk_NE; [lia| |].
  - apply (forallb_Forall (fun x => (0 <=? x) && (x <? n)) _ (sd_w d)); [intros x Q; lia|exact V3].
  - apply (forallb_Forall _ _ _ (fun x => proj1 (eok_b_spec n x)) V4).
Qed.

Lemma merge_all_NE : forall subs ms a g, 0 < a -> NE (lo a) g -> zlen ms = zlen subs ->
  subs_valid_b A N maxd a subs = true -> mrgs_valid_b A N a ms = true ->
  NE (lo (a + zlen subs)) (merge_all A N maxd g a subs ms).
Proof.
  induction subs as [|sd r IH]; intros ms a g Ha G L VS VM.
  - cbn [merge_all]. replace (a + zlen []) with a by (unfold zlen; cbn [length]; lia). destruct ms; exact G.
  - destruct ms as [|md ms']; [exfalso; unfold zlen in L; cbn [length] in L; lia|].
    cbn [merge_all subs_valid_b mrgs_valid_b] in *.
    apply andb_true_iff in VS as [VS1 VS2]. apply andb_true_iff in VM as [VM1 VM2].
    rewrite zlen_cons. replace (a + (1 + zlen r)) with ((a + 1) + zlen r) by lia.
    apply IH; auto; [lia| |rewrite !zlen_cons in L; lia].
    assert (LS : lo (a + 1) = lo a + bsize A N a) by (unfold bsize, lo; lia). rewrite LS.
    unfold mrg_valid_b in VM1. apply andb_true_iff in VM1 as [VM1 M5]. apply andb_true_iff in VM1 as [VM1 M4].
    apply andb_true_iff in VM1 as [VM1 M3]. apply andb_true_iff in VM1 as [M1 M2]. fold lo in M1, M2, M3, M4, M5.
    apply merge_graphs_NE; auto.
    + apply lo_nonneg'. lia.
    + apply bsize_nonneg. lia.
    + apply sub_NE; auto. lia.
    + pose proof (lo_nonneg' a ltac:(lia)). unfold inr, lo in *. lia.
    + apply forall_eok_inr. fold lo. rewrite <- LS. apply (forallb_Forall _ _ _ (fun x => proj1 (eok_b_spec _ x)) M5).
Qed.

Theorem gen_graph_NE subs ms : gen_valid_b A N maxd subs ms = true -> NE N (gen_graph A N maxd subs ms).
Proof.
  unfold gen_valid_b. intro V. apply andb_true_iff in V as [V V4]. apply andb_true_iff in V as [V V3].
  apply andb_true_iff in V as [V1 V2].
  destruct subs as [|sd r]; [unfold zlen in V1; cbn [length] in V1; lia|].
  cbn [gen_graph subs_valid_b] in *. apply andb_true_iff in V3 as [S1 S2].
  rewrite zlen_cons in V1.
  assert (E : lo (1 + zlen r) = N) by (replace (1 + zlen r) with A by lia; apply split_lo_top; lia).
  assert (G0 : NE (lo 1) (sub_graph A N maxd 0 sd)).
  { replace (lo 1) with (bsize A N 0) by (unfold bsize, lo; rewrite (split_lo_0 A N HA); cbn; lia).
    apply sub_NE; auto. lia. }
  pose proof (merge_all_NE r ms 1 (sub_graph A N maxd 0 sd) ltac:(lia) G0 ltac:(lia) S2 V4) as Q.
  rewrite E in Q. exact Q.
Qed.

(* the generated node_edges table is an N x N grid consistent with the generated adjacency matrix, for all valid draws *)
Theorem gen_base_consistent subs ms : gen_valid_b A N maxd subs ms = true ->
  let g := gen_graph A N maxd subs ms in
  zlen (g_ne g) = N /\ (forall i, 0 <= i < N -> zlen (znth [] (g_ne g) i) = N) /\
  base_consistent_b N (adj_of_edges N (g_edges g)) (g_ne g) = true.
Proof.
  intros V g. destruct (gen_graph_NE subs ms V) as [_ [[L R] [E G]]]. fold g in L, R, E, G.
  split; auto. split; auto. unfold base_consistent_b. apply forallb_zrange. intros i Hi. apply forallb_zrange. intros j Hj.
  rewrite G by auto. rewrite (adj_of_edges_spec N (g_edges g) ltac:(lia) E i j Hi Hj).
  destruct (adjE (g_edges g) i j); cbn; lia.
Qed.
End GenBase.
