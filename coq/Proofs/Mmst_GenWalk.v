(* MMST generator (C10), part 1: utils.random_walk over explicit draws.
   - code2 (twice the Cantor code) is injective on naturals;
   - the spanning walk: as long as NO edge is refused, every iteration that meets a new node links it to the tree, so
     when the loop exits (every node marked) the graph is connected; under  n - 2 <= max_degree  no edge of the walk can
     be refused (a node of the tree has degree <= #edges = #marked - 1 <= n - 2, the new node has degree 0 and the
     ordered pair cannot have been used);
   - add_random_edges only appends edges;
   - completeness of the BFS connectivity checker [connected_b];
   - the adjacency matrix build_adjecency_matrix produces from an edge list ([adj_of_edges]).                       *)
Require Import JV.Base.Prelude JV.Base.JaxIndex JV.Base.Codec JV.Base.TimeStep JV.Model.Mmst JV.Proofs.Mmst_lib JV.Proofs.Mmst_Gen.

(* ================= edge lists as graphs ================= *)
Definition adjE (es : list (Z * Z)) (u v : Z) : bool :=
  existsb (fun e => ((fst e =? u) && (snd e =? v)) || ((fst e =? v) && (snd e =? u))) es.
Definition eok_b (n : Z) (e : Z * Z) : bool :=
  (0 <=? fst e) && (fst e <? n) && (0 <=? snd e) && (snd e <? n) && negb (fst e =? snd e).
Definition eok (n : Z) (e : Z * Z) : Prop := 0 <= fst e < n /\ 0 <= snd e < n /\ fst e <> snd e.

Definition inr (n : Z) (e : Z * Z) : Prop := 0 <= fst e < n /\ 0 <= snd e < n.
Lemma eok_inr n e : eok n e -> inr n e.
Proof. unfold eok, inr. tauto. Qed.

Lemma eok_b_spec n e : eok_b n e = true <-> eok n e.
Proof. unfold eok_b, eok. lia. Qed.

Lemma adjE_spec es u v : adjE es u v = true <-> (In (u, v) es \/ In (v, u) es).
Proof.
  unfold adjE. rewrite existsb_exists. split.
  - intros [[a b] [Hin H]]. cbn [fst snd] in H.
    destruct ((a =? u) && (b =? v)) eqn:E; [left|right]; (replace (_, _) with (a, b); [exact Hin|f_equal; lia]).
  - intros [H|H]; eexists; (split; [exact H|]); cbn [fst snd]; lia.
Qed.

Lemma adjE_sym es u v : adjE es u v = adjE es v u.
Proof.
  destruct (adjE es u v) eqn:E, (adjE es v u) eqn:F; auto.
  - apply adjE_spec in E. assert (adjE es v u = true) by (apply adjE_spec; tauto). congruence.
  - apply adjE_spec in F. assert (adjE es u v = true) by (apply adjE_spec; tauto). congruence.
Qed.

Lemma adjE_incl es es' u v : incl es es' -> adjE es u v = true -> adjE es' u v = true.
Proof. intros H E. apply adjE_spec in E. apply adjE_spec. destruct E; [left|right]; apply H; auto. Qed.

Lemma adjE_irrefl n es u : (forall e, In e es -> eok n e) -> adjE es u u = false.
Proof.
  intro H. destruct (adjE es u u) eqn:E; auto. apply adjE_spec in E.
  assert (In (u, u) es) by tauto. destruct (H _ H0) as [_ [_ Q]]. cbn [fst snd] in Q. congruence.
Qed.

(* ================= conn_from: generic facts ================= *)
Section ConnFrom.
Variables (adj : Z -> Z -> bool) (vis : Z -> bool).

Lemma conn_from_vis st v : conn_from adj vis st v -> vis v = true.
Proof. intro H. destruct H; auto. Qed.

Lemma conn_from_vis_st st v : conn_from adj vis st v -> vis st = true.
Proof. intro H. induction H; auto. Qed.

Lemma conn_from_trans a b c : conn_from adj vis a b -> conn_from adj vis b c -> conn_from adj vis a c.
Proof. intros H1 H2. induction H2; auto. eapply cf_step; eauto. Qed.

Lemma conn_from_sym a b : (forall u v, adj u v = adj v u) -> conn_from adj vis a b -> conn_from adj vis b a.
Proof.
  intros S H. induction H as [Hs|u v H IH Hv Ha].
  - apply cf_start; auto.
  - apply (conn_from_trans v u a); auto.
    apply (cf_step adj vis v v u); [apply cf_start; auto|apply (conn_from_vis a u H)|rewrite S; auto].
Qed.
End ConnFrom.

Lemma conn_from_map adj vis adj' vis' (f : Z -> Z) st v :
  (forall u w, vis u = true -> vis w = true -> adj u w = true -> adj' (f u) (f w) = true) ->
  (forall u, vis u = true -> vis' (f u) = true) ->
  conn_from adj vis st v -> conn_from adj' vis' (f st) (f v).
Proof.
  intros HA HV H. induction H as [Hs|u w H IH Hw Ha].
  - apply cf_start; auto.
  - eapply cf_step; [exact IH|auto|]. apply HA; auto. apply (conn_from_vis _ _ _ _ H).
Qed.

Lemma conn_from_mono_adj adj adj' vis st v :
  (forall u w, adj u w = true -> adj' u w = true) -> conn_from adj vis st v -> conn_from adj' vis st v.
Proof.
  intros HA H. induction H as [Hs|u w H IH Hw Ha].
  - apply cf_start; auto.
  - eapply cf_step; [exact IH|auto|auto].
Qed.

(* ================= the Cantor code ================= *)
Lemma code2_inj a b c d : 0 <= a -> 0 <= b -> 0 <= c -> 0 <= d -> code2 a b = code2 c d -> a = c /\ b = d.
Proof.
  unfold code2. intros Ha Hb Hc Hd H.
  assert (S : a + b = c + d).
  { destruct (Z.lt_trichotomy (a + b) (c + d)) as [L|[E|L]]; auto; exfalso.
    - assert ((a + b + 1) * (a + b + 2) <= (c + d) * (c + d + 1)) by nia. nia.
    - assert ((c + d + 1) * (c + d + 2) <= (a + b) * (a + b + 1)) by nia. nia. }
  rewrite S in H. lia.
Qed.

(* ================= counting marked nodes ================= *)
Definition cnt (l : list bool) : Z := count_if (fun b : bool => b) l.

Lemma cnt_upd : forall (l : list bool) (k : nat), (k < length l)%nat -> nth k l false = false ->
  cnt (upd k true l) = cnt l + 1.
Proof.
  unfold cnt, count_if, zlen. induction l as [|x l IH]; intros k Hk Hn; cbn [length] in Hk; [lia|].
  destruct k as [|k]; cbn [upd nth] in *.
  - subst x. cbn [filter length]. lia.
  - cbn [filter]. specialize (IH k ltac:(lia) Hn). destruct x; cbn [length]; lia.
Qed.

Lemma cnt_jset l i : 0 <= i < zlen l -> znth false l i = false -> cnt (jset l i true) = cnt l + 1.
Proof.
  intros Hi Hn. rewrite jset_in_range by auto. apply cnt_upd; [unfold zlen in Hi; lia|].
  rewrite znth_nth in Hn by lia. exact Hn.
Qed.

Lemma cnt_repeat_false n : cnt (repeat false n) = 0.
Proof. unfold cnt, count_if, zlen. induction n; cbn [repeat filter]; auto. Qed.

Lemma cnt_not_all l : all_true l = false -> cnt l + 1 <= zlen l.
Proof.
  unfold all_true, cnt, count_if, zlen. induction l as [|x l IH]; cbn [forallb]; intro H; [discriminate|].
  destruct x; cbn [filter length andb] in *.
  - specialize (IH H). lia.
  - pose proof (count_if_le (fun b : bool => b) l) as Q. unfold count_if, zlen in Q. lia.
Qed.

Lemma znth_indep {X} (d d' : X) l i : 0 <= i < zlen l -> znth d l i = znth d' l i.
Proof. intro H. rewrite !znth_nth by lia. apply nth_indep. unfold zlen in H. lia. Qed.

Lemma all_true_znth l i : all_true l = true -> 0 <= i < zlen l -> znth false l i = true.
Proof.
  intros H Hi. unfold all_true in H. rewrite forallb_forall in H. apply H. apply znth_In; auto.
Qed.

(* ================= add_edge ================= *)
Lemma add_edge_cases maxd g a b :
  (add_edge maxd g a b = (g, false)) \/
  (exists g', add_edge maxd g a b = (g', true) /\ g_edges g' = g_edges g ++ [(a, b)] /\ g_n g' = g_n g).
Proof.
  unfold add_edge. destruct (_ && _ && _); [right|left; auto].
  eexists. split; [reflexivity|]. cbn [g_edges g_n]. auto.
Qed.

Lemma add_edge_incl maxd g a b : incl (g_edges g) (g_edges (fst (add_edge maxd g a b))).
Proof.
  destruct (add_edge_cases maxd g a b) as [E|[g' [E [H _]]]]; rewrite E; cbn [fst].
  - apply incl_refl.
  - rewrite H. apply incl_appl, incl_refl.
Qed.

Lemma add_edge_eok maxd n g a b : eok n (a, b) -> (forall e, In e (g_edges g) -> eok n e) ->
  forall e, In e (g_edges (fst (add_edge maxd g a b))) -> eok n e.
Proof.
  intros Hab H e. destruct (add_edge_cases maxd g a b) as [E|[g' [E [Hg _]]]]; rewrite E; cbn [fst]; auto.
  rewrite Hg. intro Hin. apply in_app_or in Hin as [Hin|[<-|[]]]; auto.
Qed.

Lemma add_random_incl maxd total : forall draws g, incl (g_edges g) (g_edges (fst (add_random maxd total draws g))).
Proof.
  induction draws as [|[a b] r IH]; intro g; cbn [add_random fst]; [apply incl_refl|].
  destruct (zlen (g_edges g) <? total); cbn [fst]; [|apply incl_refl].
  eapply incl_tran; [apply (add_edge_incl maxd g a b)|apply IH].
Qed.

Lemma add_random_eok maxd total n : forall draws g, Forall (eok n) draws -> (forall e, In e (g_edges g) -> eok n e) ->
  forall e, In e (g_edges (fst (add_random maxd total draws g))) -> eok n e.
Proof.
  induction draws as [|[a b] r IH]; intros g HD H; cbn [add_random fst]; auto.
  destruct (zlen (g_edges g) <? total); cbn [fst]; auto.
  inversion HD as [|x l Hx Hl]; subst. apply IH; auto. apply add_edge_eok; auto.
Qed.

(* ================= the spanning walk ================= *)
Section Walk.
Variables (maxd n start : Z).
Hypothesis Hn : 0 < n.
Hypothesis Hmax : n - 2 <= maxd.

Record WInv (g : graph) (intree : list bool) (cur : Z) : Prop := {
  wi_len : zlen intree = n;
  wi_dlen : zlen (g_deg g) = n;
  wi_codes : g_codes g = map (fun e => code2 (fst e) (snd e)) (g_edges g);
  wi_edges : forall e, In e (g_edges g) ->
               0 <= fst e /\ fst e < snd e /\ snd e < n /\ znth false intree (fst e) = true /\ znth false intree (snd e) = true;
  wi_deg : forall v, 0 <= v < n -> znth 0 (g_deg g) v <= zlen (g_edges g);
  wi_cnt : zlen (g_edges g) + 1 = cnt intree;
  wi_cur : 0 <= cur < n /\ znth false intree cur = true;
  wi_conn : forall v, 0 <= v < n -> znth false intree v = true -> conn_from (adjE (g_edges g)) (inb n) start v }.

Lemma WInv_init : 0 <= start < n ->
  WInv (init_graph n) (jset (repeat false (Z.to_nat n)) start true) start.
Proof.
  intro Hs. assert (L : zlen (repeat false (Z.to_nat n)) = n) by (rewrite zlen_repeat; lia).
  constructor; cbn [init_graph g_deg g_edges g_codes map].
  - rewrite zlen_jset. auto.
  - rewrite zlen_repeat. lia.
  - reflexivity.
  - intros e [].
  - intros v Hv. rewrite (znth_repeat 0). cbn. lia.
  - rewrite cnt_jset by (rewrite ?L; auto; apply (znth_repeat false)). rewrite cnt_repeat_false. reflexivity.
  - split; auto. rewrite znth_jset by lia. rewrite L, hit_id by auto. rewrite Z.eqb_refl. reflexivity.
  - intros v Hv T. rewrite znth_jset in T by lia. rewrite L, hit_id in T by auto.
    destruct (start =? v) eqn:E; [|rewrite (znth_repeat false) in T; discriminate].
    assert (v = start) by lia. subst v. apply cf_start. unfold inb. lia.
Qed.

(* one iteration that meets a new node: the edge is accepted and the invariant carries over *)
Lemma walk_new g intree cur nb : WInv g intree cur -> 0 <= nb < n -> all_true intree = false ->
  znth false intree nb = false ->
  exists g', add_edge maxd g (Z.min cur nb) (Z.max cur nb) = (g', true) /\ WInv g' (jset intree nb true) nb.
Proof.
  intros W Hnb NA F. destruct W as [L DL CO ED DG CN [Hc Tc] CF].
  assert (Hne : cur <> nb) by (intro; subst; congruence).
  set (a := Z.min cur nb). set (b := Z.max cur nb).
  assert (Hab : 0 <= a /\ a < b /\ b < n) by (unfold a, b; lia).
  pose proof (cnt_not_all intree NA) as CB.
  assert (Cd : existsb (Z.eqb (code2 a b)) (g_codes g) = false).
  { destruct (existsb (Z.eqb (code2 a b)) (g_codes g)) eqn:E; auto. exfalso.
    apply existsb_eqb_true in E. rewrite CO in E. apply in_map_iff in E as [e [He Hin]].
    destruct (ED e Hin) as [E1 [E2 [E3 [E4 E5]]]].
    apply code2_inj in He as [He1 He2]; try lia.
    assert (nb = fst e \/ nb = snd e) by (unfold a, b in *; lia). destruct H; subst nb; congruence. }
  assert (Da : maxd <? jget 0 (g_deg g) a = false).
  { rewrite jget_in by lia. pose proof (DG a ltac:(lia)). lia. }
  assert (Db : maxd <? jget 0 (g_deg g) b = false).
  { rewrite jget_in by lia. pose proof (DG b ltac:(lia)). lia. }
  unfold add_edge. rewrite Cd, Da, Db. cbn [negb andb].
  eexists. split; [reflexivity|].
  assert (TT : forall v, 0 <= v < n -> znth false intree v = true -> znth false (jset intree nb true) v = true).
  { intros v Hv T. rewrite znth_jset by lia. destruct (hit (zlen intree) nb v); auto. }
  assert (Tn : znth false (jset intree nb true) nb = true).
  { rewrite znth_jset by lia. rewrite hit_id by lia. rewrite Z.eqb_refl. reflexivity. }
  constructor; cbn [g_deg g_edges g_codes].
  - rewrite zlen_jset. auto.
  - rewrite !zlen_jset. auto.
  - rewrite map_app, CO. reflexivity.
  - intros e Hin. apply in_app_or in Hin as [Hin|[<-|[]]].
    + destruct (ED e Hin) as [E1 [E2 [E3 [E4 E5]]]]. repeat split; auto; apply TT; auto; lia.
    + cbn [fst snd]. repeat split; try lia.
      * destruct (Z.eq_dec a nb) as [->|Q]; auto. apply TT; [lia|]. replace a with cur by (unfold a, b in *; lia). auto.
      * destruct (Z.eq_dec b nb) as [->|Q]; auto. apply TT; [lia|]. replace b with cur by (unfold a, b in *; lia). auto.
  - intros v Hv. rewrite zlen_app. cbn [zlen length]. pose proof (DG v Hv) as Q.
    rewrite znth_jset by (rewrite zlen_jset; lia). rewrite zlen_jset.
    destruct (hit (zlen (g_deg g)) b v) eqn:H1.
    + rewrite jget_in by lia. pose proof (DG b ltac:(lia)). unfold zlen in *. cbn [length]. lia.
    + rewrite znth_jset by lia. destruct (hit (zlen (g_deg g)) a v) eqn:H2.
      * rewrite jget_in by lia. pose proof (DG a ltac:(lia)). unfold zlen in *. cbn [length]. lia.
      * unfold zlen in *. cbn [length]. lia.
  - rewrite cnt_jset by (auto; lia). rewrite zlen_app. unfold zlen in *. cbn [length]. lia.
  - split; auto.
  - intros v Hv T.
    assert (M : forall u w, adjE (g_edges g) u w = true -> adjE (g_edges g ++ [(a, b)]) u w = true).
    { intros u w. apply adjE_incl. apply incl_appl, incl_refl. }
    destruct (Z.eq_dec v nb) as [->|Q].
    + apply (cf_step _ _ _ cur nb).
      * apply (conn_from_mono_adj _ _ _ _ _ M). apply CF; auto.
      * unfold inb. lia.
      * apply adjE_spec. unfold a, b. destruct (Z.lt_trichotomy cur nb) as [C|[C|C]]; [left|lia|right].
        -- rewrite Z.min_l, Z.max_r by lia. apply in_or_app. right. left. reflexivity.
        -- rewrite Z.min_r, Z.max_l by lia. apply in_or_app. right. left. reflexivity.
    + apply (conn_from_mono_adj _ _ _ _ _ M). apply CF; auto.
      rewrite znth_jset in T by lia. rewrite hit_id in T by lia. destruct (nb =? v) eqn:E; [lia|auto].
Qed.

Lemma walk_WInv : forall draws intree g cur, WInv g intree cur -> Forall (fun d => 0 <= d < n) draws ->
  exists cur', WInv (fst (fst (walk maxd draws intree g cur))) (snd (fst (walk maxd draws intree g cur))) cur'.
Proof.
  induction draws as [|nb r IH]; intros intree g cur W HD; cbn [walk].
  - exists cur. exact W.
  - inversion HD as [|x l Hx Hl]; subst.
    destruct (all_true intree) eqn:NA; [exists cur; exact W|].
    pose proof (wi_len _ _ _ W) as L.
    rewrite jget_in by lia. rewrite (znth_indep true false) by lia.
    destruct (znth false intree nb) eqn:F; cbn [negb].
    + apply IH; auto. destruct W; constructor; auto.
    + destruct (walk_new g intree cur nb W Hx NA F) as [g' [E W']]. rewrite E. apply IH; auto.
Qed.

(* utils.random_walk: when the spanning loop has exited (every node marked) the graph is connected *)
Theorem random_walk_connected ne wd ed :
  0 <= start < n -> Forall (fun d => 0 <= d < n) wd -> Forall (eok n) ed ->
  all_true (snd (fst (walk maxd wd (jset (repeat false (Z.to_nat n)) start true) (init_graph n) start))) = true ->
  let g := random_walk n ne maxd start wd ed in
  (forall e, In e (g_edges g) -> eok n e) /\
  (forall u v, 0 <= u < n -> 0 <= v < n -> conn_from (adjE (g_edges g)) (inb n) u v).
Proof.
  intros Hs HW HE Hall g.
  destruct (walk_WInv wd _ _ _ (WInv_init Hs) HW) as [cur' W].
  unfold g, random_walk.
  destruct (walk maxd wd (jset (repeat false (Z.to_nat n)) start true) (init_graph n) start) as [[g1 it1] rest] eqn:E.
  cbn [fst snd] in *.
  split.
  - apply add_random_eok; auto. intros e Hin. destruct (wi_edges _ _ _ W e Hin) as [E1 [E2 [E3 _]]].
    unfold eok. lia.
  - assert (C : forall v, 0 <= v < n -> conn_from (adjE (g_edges (fst (add_random maxd ne ed g1)))) (inb n) start v).
    { intros v Hv. apply (conn_from_mono_adj (adjE (g_edges g1))).
      - intros u w. apply adjE_incl. apply add_random_incl.
      - apply (wi_conn _ _ _ W v Hv). apply all_true_znth; auto. rewrite (wi_len _ _ _ W). auto. }
    intros u v Hu Hv. apply (conn_from_trans _ _ u start v); [|apply C; auto].
    apply conn_from_sym; [apply adjE_sym|apply C; auto].
Qed.
End Walk.

(* ================= completeness of the BFS checker ================= *)
Section BFSc.
Variables (N : Z) (adj : Z -> Z -> bool) (vis : Z -> bool).
Hypothesis vis_range : forall v, vis v = true -> 0 <= v < N.

Definition closed (R : list Z) : Prop :=
  forall u v, In u R -> vis v = true -> adj u v = true -> In v R.
Definition fresh (R : list Z) : list Z :=
  filter (fun v => vis v && negb (existsb (Z.eqb v) R) && existsb (fun u => adj u v) R) (zrange N).

Lemma bfs_round_eq R : bfs_round N adj vis R = R ++ fresh R.
Proof. reflexivity. Qed.

Lemma fresh_nil_closed R : fresh R = [] -> closed R.
Proof.
  intros F u v Hu Vv A. destruct (existsb (Z.eqb v) R) eqn:E; [apply existsb_eqb_true in E; auto|].
  exfalso. assert (In v (fresh R)); [|rewrite F in H; destruct H].
  apply filter_In. split; [apply in_zrange; auto|]. rewrite Vv, E. cbn [negb andb].
  apply existsb_exists. exists u. auto.
Qed.

Lemma closed_fresh_nil R : closed R -> fresh R = [].
Proof.
  intro C. destruct (fresh R) as [|v r] eqn:F; auto. exfalso.
  assert (Hin : In v (fresh R)) by (rewrite F; left; auto).
  apply filter_In in Hin as [_ Q]. apply andb_true_iff in Q as [Q Q3]. apply andb_true_iff in Q as [Q1 Q2].
  apply existsb_exists in Q3 as [u [Hu A]]. pose proof (C u v Hu Q1 A) as I.
  apply existsb_eqb_true in I. rewrite I in Q2. discriminate.
Qed.

Lemma closed_bfs fuel : forall R, closed R -> bfs fuel N adj vis R = R.
Proof.
  induction fuel as [|f IH]; intros R C; cbn [bfs]; auto.
  rewrite bfs_round_eq, (closed_fresh_nil R C), app_nil_r. auto.
Qed.

Lemma NoDup_zrange_from : forall k s, NoDup (zrange_from s k).
Proof.
  induction k as [|k IH]; intro s; cbn [zrange_from]; constructor; auto.
  rewrite in_zrange_from. lia.
Qed.

Lemma NoDup_app_intro {X} (a b : list X) : NoDup a -> NoDup b -> (forall x, In x a -> In x b -> False) -> NoDup (a ++ b).
Proof.
  induction a as [|x a IH]; intros Ha Hb D; cbn [Datatypes.app]; auto.
  inversion Ha as [|y l Hx Hl]; subst. constructor.
  - intro Hin. apply in_app_or in Hin as [Hin|Hin]; [auto|apply (D x); [left; auto|auto]].
  - apply IH; auto. intros z Hz. apply D. right; auto.
Qed.

Lemma round_nodup R : NoDup R -> incl R (zrange N) -> NoDup (R ++ fresh R) /\ incl (R ++ fresh R) (zrange N).
Proof.
  intros ND I. split.
  - apply NoDup_app_intro; auto.
    + apply NoDup_filter. apply NoDup_zrange_from.
    + intros x Hx Hf. apply filter_In in Hf as [_ Q]. apply andb_true_iff in Q as [Q _]. apply andb_true_iff in Q as [_ Q].
      assert (existsb (Z.eqb x) R = true) by (apply existsb_eqb_true; auto). rewrite H in Q. discriminate.
  - apply incl_app; auto. intros x Hx. apply filter_In in Hx as [Hx _]. auto.
Qed.

Lemma bfs_closed : forall fuel R, NoDup R -> incl R (zrange N) -> (Z.to_nat N < length R + fuel)%nat ->
  closed (bfs fuel N adj vis R).
Proof.
  induction fuel as [|f IH]; intros R ND I Hl.
  - exfalso. pose proof (NoDup_incl_length ND I) as Q. unfold zrange in Q. rewrite zrange_from_length in Q. lia.
  - cbn [bfs]. rewrite bfs_round_eq. destruct (fresh R) as [|x r] eqn:F.
    + rewrite app_nil_r. rewrite closed_bfs; apply fresh_nil_closed; auto.
    + rewrite <- F. destruct (round_nodup R ND I) as [ND' I']. apply IH; auto.
      rewrite app_length, F. cbn [length]. lia.
Qed.

Lemma bfs_mono fuel : forall R x, In x R -> In x (bfs fuel N adj vis R).
Proof.
  induction fuel as [|f IH]; intros R x Hx; cbn [bfs]; auto. apply IH. rewrite bfs_round_eq. apply in_or_app. auto.
Qed.

Theorem connected_b_complete st : vis st = true ->
  (forall v, vis v = true -> conn_from adj vis st v) -> connected_b N adj vis st = true.
Proof.
  intros Vs H. unfold connected_b. rewrite Vs. cbn [andb].
  pose proof (vis_range st Vs) as Rs.
  assert (C : closed (bfs (Z.to_nat N) N adj vis [st])).
  { apply bfs_closed.
    - constructor; [intros []|constructor].
    - intros x [<-|[]]. apply in_zrange; auto.
    - cbn [length]. lia. }
  assert (Q : forall v, conn_from adj vis st v -> In v (bfs (Z.to_nat N) N adj vis [st])).
  { intros v Hv. induction Hv as [_|u v Hu IH Vv A].
    - apply bfs_mono. left; auto.
    - apply (C u v); auto. }
  apply forallb_zrange. intros v Hv. destruct (vis v) eqn:Vv; cbn [negb orb]; auto.
  apply existsb_eqb_true. apply Q. apply H. auto.
Qed.
End BFSc.

(* ================= the adjacency matrix of an edge list ================= *)
Lemma gset_in {X} (g : grid X) a b (v : X) : 0 <= a < zlen g -> 0 <= b < zlen (znth [] g a) ->
  gset g a b v = jset g a (jset (znth [] g a) b v).
Proof.
  intros Ha Hb. unfold gset, jset, jnorm. cbn zeta.
  replace (a <? 0) with false by lia. replace (b <? 0) with false by lia.
  assert (E1 : (0 <=? a) && (a <? zlen g) = true) by lia.
  assert (E2 : (0 <=? b) && (b <? zlen (znth [] g a)) = true) by lia.
  rewrite E1, E2. reflexivity.
Qed.

Definition sq {X} (n : Z) (m : list (list X)) : Prop := zlen m = n /\ forall i, 0 <= i < n -> zlen (znth [] m i) = n.

Lemma gset_sq {X} (d : X) n (m : list (list X)) a b v : sq n m -> 0 <= a < n -> 0 <= b < n ->
  sq n (gset m a b v) /\
  forall i j, 0 <= i < n -> 0 <= j < n ->
    gat d (gset m a b v) i j = if (a =? i) && (b =? j) then v else gat d m i j.
Proof.
  intros [L R] Ha Hb. rewrite gset_in by (rewrite ?R; lia).
  split.
  - split; [rewrite zlen_jset; auto|]. intros i Hi. rewrite znth_jset by lia. rewrite L, hit_id by auto.
    destruct (a =? i); [rewrite zlen_jset; apply R; auto|apply R; auto].
  - intros i j Hi Hj. unfold gat. rewrite znth_jset by lia. rewrite L, hit_id by auto.
    destruct (a =? i) eqn:Q; cbn [andb]; auto.
    assert (a = i) by lia. subst i. rewrite znth_jset by (rewrite R; auto). rewrite R, hit_id by auto. reflexivity.
Qed.

Lemma adj_fold n : forall es m, sq n m -> (forall e, In e es -> inr n e) ->
  let m' := fold_left (fun m e => gset (gset m (fst e) (snd e) 1) (snd e) (fst e) 1) es m in
  sq n m' /\ forall i j, 0 <= i < n -> 0 <= j < n -> gat 0 m' i j = if adjE es i j then 1 else gat 0 m i j.
Proof.
  induction es as [|[a b] r IH]; intros m S H; cbn [fold_left].
  - split; auto.
  - destruct (H (a, b) ltac:(left; auto)) as [Ha Hb]. cbn [fst snd] in *.
    destruct (gset_sq 0 n m a b 1 S Ha Hb) as [S1 G1]. destruct (gset_sq 0 n _ b a 1 S1 Hb Ha) as [S2 G2].
    destruct (IH _ S2 (fun e He => H e (or_intror He))) as [S3 G3]. split; auto.
    intros i j Hi Hj. rewrite G3, G2, G1 by auto. unfold adjE. cbn [existsb fst snd].
    fold (adjE r i j). destruct (adjE r i j); [rewrite orb_true_r; auto|]. rewrite orb_false_r.
    destruct ((a =? i) && (b =? j)) eqn:Q1, ((b =? i) && (a =? j)) eqn:Q2; cbn [orb];
      try reflexivity; destruct ((a =? j) && (b =? i)) eqn:Q3; try reflexivity; lia.
Qed.

Lemma znth_rep {X} (d x : X) n i : 0 <= i < Z.of_nat n -> znth d (repeat x n) i = x.
Proof.
  intro H. rewrite (znth_indep d x) by (rewrite zlen_repeat; lia). apply znth_repeat.
Qed.

Theorem adj_of_edges_spec n es : 0 <= n -> (forall e, In e es -> inr n e) ->
  forall i j, 0 <= i < n -> 0 <= j < n -> gat 0 (adj_of_edges n es) i j = if adjE es i j then 1 else 0.
Proof.
  intros Hn H i j Hi Hj. unfold adj_of_edges.
  assert (S : sq n (repeat (repeat 0 (Z.to_nat n)) (Z.to_nat n))).
  { split; [rewrite zlen_repeat; lia|]. intros k Hk. rewrite znth_rep by lia. rewrite zlen_repeat. lia. }
  destruct (adj_fold n es _ S H) as [_ G]. rewrite G by auto.
  destruct (adjE es i j); auto. unfold gat. rewrite znth_rep by lia. apply znth_rep. lia.
Qed.
