(* MMST: the reset state of every well-formed instance satisfies the invariant. *)
Require Import JV.Base.Prelude JV.Base.JaxIndex JV.Base.Codec JV.Base.TimeStep JV.Model.Mmst JV.Proofs.Mmst_lib JV.Proofs.Mmst.

Lemma znth_repeat_in {X} (d x : X) n i : 0 <= i < Z.of_nat n -> znth d (repeat x n) i = x.
Proof.
  intro H. rewrite znth_nth by lia. rewrite (nth_indep _ d x) by (rewrite repeat_length; lia).
  rewrite <- znth_nth by lia. apply znth_repeat.
Qed.

Definition nonneg_mono (t t' : list Z) : Prop :=
  zlen t' = zlen t /\ forall k, 0 <= k < zlen t -> 0 <= znth 0 t k -> 0 <= znth 0 t' k.

Lemma set_row_spec a : 0 <= a -> forall comp t,
  let t' := fold_left (fun t k => jset t k a) comp t in
  nonneg_mono t t' /\ forall k, In k comp -> 0 <= k < zlen t -> 0 <= znth 0 t' k.
Proof.
  intro Ha. induction comp as [|k0 r IH]; intro t; cbn [fold_left].
  - split; [split; auto|intros k []].
  - destruct (IH (jset t k0 a)) as [[L M] S]. rewrite zlen_jset in L, M, S.
    assert (J : forall k, 0 <= k < zlen t -> 0 <= znth 0 t k \/ hit (zlen t) k0 k = true -> 0 <= znth 0 (jset t k0 a) k).
    { intros k Hk H. rewrite znth_jset by auto. destruct (hit (zlen t) k0 k); [lia|]. destruct H; [auto|discriminate]. }
    split; [split; auto; intros k Hk P; apply M; auto; apply J; auto|].
    intros k [->|Hin] Hk; [|apply S; auto]. apply M; auto. apply J; auto. right. rewrite hit_id by auto. lia.
Qed.

Lemma set_types_spec : forall comps t a0, 0 <= a0 ->
  let t' := fst (fold_left (fun (st : list Z * Z) comp => let (t, a) := st in (fold_left (fun t k => jset t k a) comp t, a + 1)) comps (t, a0)) in
  nonneg_mono t t' /\ forall comp k, In comp comps -> In k comp -> 0 <= k < zlen t -> 0 <= znth 0 t' k.
Proof.
  induction comps as [|cp r IH]; intros t a0 Ha; cbn [fold_left fst].
  - split; [split; auto|intros comp k []].
  - destruct (set_row_spec a0 Ha cp t) as [[L1 M1] S1].
    destruct (IH (fold_left (fun t k => jset t k a0) cp t) (a0 + 1) ltac:(lia)) as [[L2 M2] S2].
    split; [split; [lia|]|].
    + intros k Hk P. apply M2; [lia|]. apply M1; auto.
    + intros comp k [<-|Hin] Hk Hr; [apply M2; [lia|]; apply S1; auto|apply (S2 comp k); auto; lia].
Qed.

Record instance_wf (c : cfg) (base adj0 comps : list (list Z)) : Prop := {
  iw_A : 0 <= cA c;
  iw_N : 0 < cN c;
  iw_b0 : zlen base = cN c;
  iw_b1 : forall i, 0 <= i < cN c -> zlen (znth [] base i) = cN c;
  iw_cons : forall i j, 0 <= i < cN c -> 0 <= j < cN c -> gat (-1) base i j = if gat 0 adj0 i j =? 1 then j else -1;
  iw_comps : zlen comps = cA c;
  iw_row : forall a, 0 <= a < cA c -> 0 < zlen (znth [] comps a);
  iw_rng : forall a k, 0 <= a < cA c -> In k (znth [] comps a) -> 0 <= k < cN c }.

Section Init.
Variables (c : cfg) (base adj0 comps : list (list Z)).
Hypothesis HW : instance_wf c base adj0 comps.
Let A := cA c.
Let N := cN c.
Let start (a : Z) : Z := jget 0 (znth [] comps a) 0.
Let s0 : state := fst (init c base adj0 comps).
Let nty := set_types (repeat (-1) (Z.to_nat N)) comps.

Lemma HA : 0 <= A. Proof. apply (iw_A _ _ _ _ HW). Qed.
Lemma HN : 0 < N. Proof. apply (iw_N _ _ _ _ HW). Qed.

Lemma start_in a : 0 <= a < A -> In (start a) (znth [] comps a) /\ 0 <= start a < N.
Proof.
  intro Ha. pose proof (iw_row _ _ _ _ HW a Ha) as R. unfold start. rewrite jget_in by lia.
  assert (In (znth 0 (znth [] comps a) 0) (znth [] comps a)) by (apply znth_In; lia).
  split; auto. apply (iw_rng _ _ _ _ HW a _ Ha H).
Qed.

Lemma nty_len : zlen nty = N.
Proof.
  unfold nty, set_types. destruct (set_types_spec comps (repeat (-1) (Z.to_nat N)) 0 ltac:(lia)) as [[L _] _].
  rewrite L, zlen_repeat. pose proof HN. lia.
Qed.

Lemma start_typed a : 0 <= a < A -> 0 <= znth 0 nty (start a).
Proof.
  intro Ha. destruct (start_in a Ha) as [Hin R].
  unfold nty, set_types. destruct (set_types_spec comps (repeat (-1) (Z.to_nat N)) 0 ltac:(lia)) as [_ S].
  apply (S (znth [] comps a) (start a)); auto.
  - apply znth_In. rewrite (iw_comps _ _ _ _ HW). auto.
  - rewrite zlen_repeat. lia.
Qed.

Lemma s0_fields :
  ntypes s0 = nty /\ adjm s0 = adj0 /\ pos s0 = tab A start
  /\ cidx s0 = tab A (fun a => jset (repeat (-1) (Z.to_nat N)) (start a) (start a))
  /\ conn s0 = tab A (fun a => jset (repeat (-1) (Z.to_nat (cM c))) 0 (start a))
  /\ edges s0 = update_active A nty (tab A start) (repeat base (Z.to_nat A)).
Proof. unfold s0, init. cbn [fst ntypes adjm pos cidx conn edges]. repeat split; reflexivity. Qed.

Lemma utility_start a : 0 <= a < A -> utility s0 (start a) = false.
Proof.
  intro Ha. unfold utility. destruct s0_fields as [E _]. rewrite E. pose proof (start_typed a Ha). lia.
Qed.

Lemma visited0 a j : 0 <= a < A -> 0 <= j < N -> visited s0 a j = (start a =? j).
Proof.
  intros Ha Hj. unfold visited, gat. destruct s0_fields as [_ [_ [_ [E _]]]]. rewrite E.
  rewrite (znth_tab []) by auto. destruct (start_in a Ha) as [_ R].
  rewrite znth_jset by (rewrite zlen_repeat; lia). rewrite zlen_repeat. rewrite hit_id by lia.
  destruct (start a =? j) eqn:Q; [lia|]. rewrite (znth_repeat (-1)). reflexivity.
Qed.

Lemma blocked0 a j : 0 <= a < A -> 0 <= j < N -> blocked A s0 a j = false.
Proof.
  intros Ha Hj. destruct (blocked A s0 a j) eqn:B; auto. apply blocked_spec in B as [U [b [Hb [_ V]]]].
  rewrite visited0 in V by auto. assert (start b = j) by lia. subst j. rewrite utility_start in U by auto. discriminate.
Qed.

Lemma no_blockers v b : existsb (Z.eqb v) (blockers A nty (tab A start) b) = false.
Proof.
  destruct (existsb (Z.eqb v) (blockers A nty (tab A start) b)) eqn:E; auto.
  apply existsb_eqb_true in E. unfold blockers in E. apply in_map_iff in E as [a [_ Hf]].
  apply filter_In in Hf as [Hin Q]. apply in_zrange in Hin. apply andb_true_iff in Q as [_ Q].
  rewrite (znth_tab 0) in Q by auto. destruct (start_in a Hin) as [_ R].
  rewrite jget_in in Q by (rewrite nty_len; lia). pose proof (start_typed a Hin). lia.
Qed.

Lemma eat0 a i j : 0 <= a < A -> 0 <= i < N -> 0 <= j < N -> eat s0 a i j = gat (-1) base i j.
Proof.
  intros Ha Hi Hj. unfold eat. destruct s0_fields as [_ [_ [_ [_ [_ E]]]]]. rewrite E.
  unfold update_active. rewrite (znth_tab []) by auto. rewrite znth_repeat_in by lia.
  unfold mask_edges. rewrite (znth_map _ []) by (rewrite (iw_b0 _ _ _ _ HW); auto).
  rewrite (znth_map _ (-1)) by (rewrite (iw_b1 _ _ _ _ HW i Hi); auto).
  rewrite no_blockers. reflexivity.
Qed.

Theorem init_Inv : Inv c start s0.
Proof.
  pose proof HA as HA'. pose proof HN as HN'. destruct s0_fields as [E1 [E2 [E3 [E4 [E5 E6]]]]].
  constructor.
  - constructor; auto.
    + rewrite E1. apply nty_len.
    + rewrite E6. apply zlen_tab; auto.
    + intros a Ha. rewrite E6. unfold update_active. rewrite (znth_tab []) by auto. rewrite znth_repeat_in by (fold A; lia).
      unfold mask_edges. rewrite zlen_map. apply (iw_b0 _ _ _ _ HW).
    + intros a i Ha Hi. rewrite E6. unfold update_active. rewrite (znth_tab []) by auto. rewrite znth_repeat_in by (fold A; lia).
      unfold mask_edges. rewrite (znth_map _ []) by (rewrite (iw_b0 _ _ _ _ HW); auto). rewrite zlen_map.
      apply (iw_b1 _ _ _ _ HW i Hi).
    + rewrite E4. apply zlen_tab; auto.
    + intros a Ha. rewrite E4. rewrite (znth_tab []) by auto. rewrite zlen_jset, zlen_repeat. fold N. lia.
    + rewrite E3. apply zlen_tab; auto.
    + intros a Ha. rewrite E3. rewrite (znth_tab 0) by auto. apply start_in; auto.
  - intros a i j Ha Hi Hj. rewrite eat0 by auto. fold A. rewrite blocked0 by auto.
    rewrite (iw_cons _ _ _ _ HW i j Hi Hj). unfold base_adj. rewrite E2.
    destruct (gat 0 adj0 i j =? 1); reflexivity.
  - intros a j Ha Hj. pose proof (visited0 a j Ha Hj) as V. unfold visited in V.
    destruct (start a =? j) eqn:Q.
    + right. unfold gat in *. rewrite E4 in *. rewrite (znth_tab []) in * by auto. destruct (start_in a Ha) as [_ R].
      rewrite znth_jset by (rewrite zlen_repeat; fold N; lia). rewrite zlen_repeat. rewrite hit_id by (fold N; lia).
      rewrite Q. lia.
    + left. lia.
  - intros a Ha. rewrite E3. rewrite (znth_tab 0) by auto. destruct (start_in a Ha) as [_ R].
    rewrite visited0 by auto. lia.
  - intros j a b Hj Ha Hb U Va Vb. rewrite visited0 in Va by auto. assert (start a = j) by lia. subst j.
    rewrite utility_start in U by auto. discriminate.
  - intros a x Ha Hin Hx. rewrite E5 in Hin. rewrite (znth_tab []) in Hin by auto.
    apply In_jset in Hin as [H| ->].
    + apply repeat_spec in H. lia.
    + destruct (start_in a Ha) as [_ R]. split; auto. rewrite visited0 by auto. lia.
  - intros a j Ha Hj V. rewrite visited0 in V by auto. assert (start a = j) by lia. subst j.
    apply cf_start. rewrite visited0 by auto. lia.
Qed.
End Init.
