(* MMST: the boolean instance checks the harness runs on every generated instance (mmst_instance_io: base_consistent_b,
   comps_ok_b; mmst_check_io: shape_ok_b on the reset state) imply [instance_wf], the hypothesis of [init_Inv];
   the path example satisfies it; generated instances (Mmst_GenAll) are linked to the reset invariant.            *)
Require Import JV.Base.Prelude JV.Base.JaxIndex JV.Base.Codec JV.Base.TimeStep JV.Model.Mmst JV.Proofs.Mmst_lib JV.Proofs.Mmst JV.Proofs.Mmst_Episode JV.Proofs.Mmst_Gen JV.Proofs.Mmst_Init JV.Proofs.Mmst_Examples JV.Proofs.Mmst_GenWalk JV.Proofs.Mmst_GenAll JV.Proofs.Mmst_GenBase.

Definition grid_shape_b (n : Z) (m : list (list Z)) : bool := len_is n m && forallb (len_is n) m.

Lemma len_is_spec {X} n (l : list X) : len_is n l = true <-> zlen l = n.
Proof. unfold len_is. lia. Qed.

Lemma forallb_znth {X} (f : list X -> bool) (m : list (list X)) i :
  forallb f m = true -> 0 <= i < zlen m -> f (znth [] m i) = true.
Proof. intros H Hi. rewrite forallb_forall in H. apply H. apply znth_In; auto. Qed.

Theorem base_consistent_sound N adj base : base_consistent_b N adj base = true ->
  forall i j, 0 <= i < N -> 0 <= j < N -> gat (-1) base i j = if gat 0 adj i j =? 1 then j else -1.
Proof.
  unfold base_consistent_b. intros H i j Hi Hj. rewrite forallb_zrange in H. specialize (H i Hi).
  rewrite forallb_zrange in H. specialize (H j Hj). lia.
Qed.

Theorem comps_ok_sound A N K comps : 0 < A -> 0 <= N -> comps_ok_b A N K comps = true ->
  zlen comps = A /\ forall a, 0 <= a < A ->
    zlen (znth [] comps a) = K /\ nodup_b (znth [] comps a) = true
    /\ forall k, In k (znth [] comps a) -> in_block A N a k = true /\ 0 <= k < N.
Proof.
  intros HA HN H. unfold comps_ok_b in H. apply andb_true_iff in H as [H1 H2]. apply len_is_spec in H1.
  split; auto. intros a Ha. rewrite forallb_zrange in H2. specialize (H2 a Ha). cbn zeta in H2.
  apply andb_true_iff in H2 as [H2 H4]. apply andb_true_iff in H2 as [H2 H3]. apply len_is_spec in H2.
  repeat split; auto; rewrite forallb_forall in H4.
  - apply H4; auto.
  - apply (in_block_range A N a k); auto; lia.
  - apply (in_block_range A N a k); auto; lia.
Qed.

(* the checks of mmst_instance_io (the codec delivers base as an N x N grid) *)
Theorem instance_checks_wf c base adj comps :
  0 < cA c -> 0 < cN c -> 0 < cK c ->
  grid_shape_b (cN c) base = true -> base_consistent_b (cN c) adj base = true ->
  comps_ok_b (cA c) (cN c) (cK c) comps = true ->
  instance_wf c base adj comps.
Proof.
  intros HA HN HK S B C. unfold grid_shape_b in S. apply andb_true_iff in S as [S1 S2]. apply len_is_spec in S1.
  destruct (comps_ok_sound (cA c) (cN c) (cK c) comps HA ltac:(lia) C) as [C1 C2].
  constructor.
  - lia.
  - lia.
  - auto.
  - intros i Hi. apply len_is_spec. apply forallb_znth; auto. lia.
  - apply base_consistent_sound; auto.
  - auto.
  - intros a Ha. destruct (C2 a Ha) as [L _]. lia.
  - intros a k Ha Hin. destruct (C2 a Ha) as [_ [_ R]]. apply R; auto.
Qed.

(* the shape check of mmst_check_io on the RESET state already carries the shape of base and of comps *)
Theorem reset_shape_wf c base adj comps :
  0 < cA c -> 0 < cN c -> 0 < cK c ->
  shape_ok_b c (fst (init c base adj comps)) = true -> base_consistent_b (cN c) adj base = true ->
  instance_wf c base adj comps.
Proof.
  intros HA HN HK S B. unfold shape_ok_b in S. cbn zeta in S.
  repeat match goal with H : _ && _ = true |- _ => apply andb_true_iff in H; destruct H end.
  unfold init in *. cbn [fst ntypes adjm conn cidx ntc edges pos pidx amask fin sc] in *.
  repeat match goal with H : len_is _ _ = true |- _ => apply len_is_spec in H end.
  match goal with H : forallb (fun e => len_is (cN c) e && forallb (len_is (cN c)) e) _ = true |- _ => rename H into HE end.
  match goal with H : forallb (len_is (cK c)) comps = true |- _ => rename H into HC end.
  match goal with H : forallb (forallb _) comps = true |- _ => rename H into HR end.
  match goal with H : zlen comps = cA c |- _ => rename H into LC end.
  (* agent 0's active edges = the masked base *)
  pose proof (forallb_znth _ _ 0 HE ltac:(unfold update_active; rewrite zlen_tab; lia)) as E0. cbn beta in E0.
  unfold update_active in E0. rewrite (znth_tab []) in E0 by lia. rewrite znth_repeat_in in E0 by lia.
  apply andb_true_iff in E0 as [E1 E2]. apply len_is_spec in E1. unfold mask_edges in E1, E2. rewrite zlen_map in E1.
  constructor.
  - lia.
  - lia.
  - lia.
  - intros i Hi. rewrite forallb_forall in E2.
    match type of E2 with forall x, In x (map ?f base) -> _ => specialize (E2 (f (znth [] base i)) (in_map f base _ (znth_In [] base i ltac:(lia)))) end.
    apply len_is_spec in E2. rewrite zlen_map in E2. exact E2.
  - apply base_consistent_sound; auto.
  - auto.
  - intros a Ha. pose proof (forallb_znth _ _ a HC ltac:(lia)) as Q. apply len_is_spec in Q. lia.
  - intros a k Ha Hin. pose proof (forallb_znth _ _ a HR ltac:(lia)) as Q. rewrite forallb_forall in Q. specialize (Q k Hin). lia.
Qed.

(* the path example 0-1-2-3-4-5 is a well-formed instance, hence its reset state satisfies the invariant *)
Example ex_instance_wf : instance_wf ex_cfg ex_base ex_adj ex_comps.
Proof. apply instance_checks_wf; vm_compute; reflexivity. Qed.

Example ex_reset_shape : shape_ok_b ex_cfg ex_s0 = true /\ base_consistent_b 6 ex_adj ex_base = true.
Proof. vm_compute. split; reflexivity. Qed.

Example ex_reset_Inv : Inv ex_cfg (fun a => jget 0 (znth [] ex_comps a) 0) ex_s0.
Proof. apply init_Inv. exact ex_instance_wf. Qed.

(* valid generator draws for N = 6, A = 2, max_degree = 1 (= ceil(6/2) - 2): two 3-node paths joined by the cross edge
   2-3; the generated adjacency matrix is the path example *)
Definition ex_subs : list sub_draw := [mkSD 2 0 [1; 2] []; mkSD 2 0 [1; 2] []].
Definition ex_ms : list mrg_draw := [mkMD 5 (2, 3) []].
Example ex_gen_valid :
  gen_valid_b 2 6 1 ex_subs ex_ms = true /\ comps_ok_b 2 6 2 ex_comps = true /\
  adj_of_edges 6 (g_edges (gen_graph 2 6 1 ex_subs ex_ms)) = ex_adj.
Proof. vm_compute. repeat split; reflexivity. Qed.

(* EVERY generated instance (all valid draws, no hypothesis on max_degree or num_edges) is a well-formed instance, so its
   reset state satisfies the invariant [Inv] and all the step theorems (C04, C05, C06, C11, C12) apply to it *)
Theorem gen_reset_Inv c maxd subs ms comps :
  0 < cA c -> cA c <= cN c -> 0 < cK c ->
  gen_valid_b (cA c) (cN c) maxd subs ms = true -> comps_ok_b (cA c) (cN c) (cK c) comps = true ->
  let g := gen_graph (cA c) (cN c) maxd subs ms in
  let adj := adj_of_edges (cN c) (g_edges g) in
  instance_wf c (g_ne g) adj comps /\
  Inv c (fun a => jget 0 (znth [] comps a) 0) (fst (init c (g_ne g) adj comps)).
Proof.
  intros HA HAN HK V C g adj.
  destruct (gen_base_consistent (cA c) (cN c) maxd HA HAN subs ms V) as [L [R B]]. fold g in L, R, B. fold adj in B.
  destruct (comps_ok_sound (cA c) (cN c) (cK c) comps HA ltac:(lia) C) as [C1 C2].
  assert (W : instance_wf c (g_ne g) adj comps).
  { constructor.
    - lia.
    - lia.
    - auto.
    - auto.
    - apply base_consistent_sound; auto.
    - auto.
    - intros a Ha. destruct (C2 a Ha) as [Lk _]. lia.
    - intros a k Ha Hin. destruct (C2 a Ha) as [_ [_ Rk]]. apply Rk; auto. }
  split; auto. apply init_Inv. exact W.
Qed.
