(* MMST: the node_types observation is the declarative relabelling [view] (C12) and lies in the declared range (C01). *)
Require Import JV.Base.Prelude JV.Base.JaxIndex JV.Base.Codec JV.Base.TimeStep JV.Model.Mmst JV.Proofs.Mmst_lib.

Lemma combine_map_zrange_from {X} (g : Z -> X) (d : Z) n : forall st (row : list Z), length row = n ->
  combine (map g (zrange_from st n)) row = map (fun j => (g j, nth (Z.to_nat (j - st)) row d)) (zrange_from st n).
Proof.
  induction n as [|n IH]; intros st row L; cbn [zrange_from map combine]; auto.
  destruct row as [|x row]; [discriminate|]. cbn [combine]. f_equal.
  - replace (st - st) with 0 by lia. reflexivity.
  - rewrite IH by (cbn in L; lia). apply map_ext_in. intros j Hj. apply in_zrange_from in Hj.
    f_equal. replace (Z.to_nat (j - st)) with (S (Z.to_nat (j - (st + 1)))) by lia. reflexivity.
Qed.

Lemma combine_tab {X} (g : Z -> X) N (row : list Z) : 0 <= N -> zlen row = N ->
  combine (tab N g) row = tab N (fun j => (g j, znth (-1) row j)).
Proof.
  intros HN L. unfold tab, zrange. rewrite (combine_map_zrange_from g (-1)) by (unfold zlen in L; lia).
  apply map_ext_in. intros j Hj. apply in_zrange_from in Hj. rewrite znth_nth by lia. f_equal. f_equal. f_equal. lia.
Qed.

Definition lab (A : Z) (s : state) (o : option Z) (j : Z) : Z :=
  match o with Some a => 2 * a | None => let t := znth (-1) (ntypes s) j in if t =? -1 then -1 else 2 * t + 1 end.

Section Obs.
Variables (c : cfg) (s : state).
Let A := cA c.
Let N := cN c.
Hypothesis HA : 0 <= A.
Hypothesis HN : 0 <= N.
Hypothesis Hnt : zlen (ntypes s) = N.
Hypothesis Hty : forall j, 0 <= j < N -> -1 <= znth (-1) (ntypes s) j < A.
Hypothesis Hci : forall a, 0 <= a < A -> zlen (znth [] (cidx s) a) = N.

Definition obs_step (nt : list Z) (a : Z) : list Z :=
  map (fun p : Z * Z => if negb (snd p =? -1) then 2 * (a mod A) else fst p) (combine nt (znth [] (cidx s) a)).

Lemma obs_fold (l : list Z) : (forall a, In a l -> 0 <= a < A) ->
  forall (g : Z -> Z) (o : Z -> option Z), (forall j, 0 <= j < N -> g j = lab A s (o j) j) ->
  fold_left obs_step l (tab N g)
  = tab N (fun j => lab A s (fold_left (fun o a => if visited s a j then Some a else o) l (o j)) j).
Proof.
  induction l as [|a r IH]; intros Hl g o Hg; cbn [fold_left].
  - apply tab_ext. auto.
  - assert (Ha : 0 <= a < A) by (apply Hl; left; auto).
    assert (E : obs_step (tab N g) a = tab N (fun j => if visited s a j then 2 * a else g j)).
    { unfold obs_step. rewrite (combine_tab g N _ HN (Hci a Ha)). unfold tab. rewrite map_map.
      apply map_ext_in. intros j Hj. cbn [fst snd]. unfold visited, gat.
      destruct (negb (znth (-1) (znth [] (cidx s) a) j =? -1)); auto. rewrite Z.mod_small by lia. reflexivity. }
    rewrite E. rewrite (IH (fun a' H => Hl a' (or_intror H)) _ (fun j => if visited s a j then Some a else o j)).
    + reflexivity.
    + intros j Hj. cbn beta. destruct (visited s a j); auto. 
Qed.

(* C12: the observed node_types are exactly the declarative relabelling *)
Theorem obs_types_view : obs_types c s = tab N (view A s).
Proof.
  unfold obs_types. fold A.
  assert (E0 : map (obs_base A) (ntypes s) = tab N (fun j => lab A s None j)).
  { apply (list_ext_z (-1)).
    - rewrite zlen_map, zlen_tab; auto.
    - intros i Hi. rewrite zlen_map in Hi. rewrite (znth_map _ (-1)) by lia. rewrite znth_tab by lia.
      unfold lab, obs_base. specialize (Hty i ltac:(lia)).
      destruct (znth (-1) (ntypes s) i =? -1) eqn:E; auto. rewrite Z.mod_small by lia. lia. }
  rewrite E0. change (fold_left _ (zrange A) ?x) with (fold_left obs_step (zrange A) x).
  rewrite (obs_fold (zrange A) (fun a H => proj1 (in_zrange a A) H) _ (fun _ => None)) by auto.
  apply tab_ext. intros j Hj. unfold view, last_visitor, lab. reflexivity.
Qed.

(* what the relabelling means *)
Lemma last_visitor_spec l j : forall o,
  match fold_left (fun o a => if visited s a j then Some a else o) l o with
  | Some a => (In a l /\ visited s a j = true) \/ (Some a = o /\ forall b, In b l -> visited s b j = false)
  | None => o = None /\ forall b, In b l -> visited s b j = false
  end.
Proof.
  induction l as [|a r IH]; intro o; cbn [fold_left].
  - destruct o; [right|]; split; auto; intros b [].
  - specialize (IH (if visited s a j then Some a else o)).
    destruct (fold_left _ r _) as [x|].
    + destruct IH as [[H1 H2]|[H1 H2]].
      * left. split; auto. right; auto.
      * destruct (visited s a j) eqn:V.
        -- inversion H1; subst. left. split; auto. left; auto.
        -- right. split; auto. intros b [->|Hb]; auto.
    + destruct IH as [H1 H2]. destruct (visited s a j) eqn:V; [discriminate|].
      split; auto. intros b [->|Hb]; auto.
Qed.

(* nodes nobody has connected keep their base label: -1 utility, 2t+1 for a node of agent t (1 = agent 0's own) *)
Theorem view_unvisited j : (forall a, 0 <= a < A -> visited s a j = false) ->
  view A s j = (let t := znth (-1) (ntypes s) j in if t =? -1 then -1 else 2 * t + 1).
Proof.
  intro H. unfold view, last_visitor. pose proof (last_visitor_spec (zrange A) j None) as Q.
  destruct (fold_left _ (zrange A) None) as [x|]; auto.
  destruct Q as [[H1 H2]|[H1 _]]; [|discriminate]. apply in_zrange in H1. rewrite H in H2 by auto. discriminate.
Qed.

(* a node connected by agent a (and by no later agent) is labelled 2a (0 = agent 0's own route) *)
Theorem view_visited a j : 0 <= a < A -> visited s a j = true ->
  (forall b, a < b < A -> visited s b j = false) -> view A s j = 2 * a.
Proof.
  intros Ha V H. unfold view, last_visitor.
  assert (G : forall l o, (forall b, In b l -> 0 <= b < A) ->
            (exists b, (In b l \/ o = Some b) /\ fold_left (fun o a => if visited s a j then Some a else o) l o = Some b) \/
            (o = None /\ fold_left (fun o a => if visited s a j then Some a else o) l o = None)).
  { induction l as [|x r IH]; intros o Hl; cbn [fold_left].
    - destruct o as [b|]; [left; exists b; auto|right; auto].
    - destruct (IH (if visited s x j then Some x else o) (fun b Hb => Hl b (or_intror Hb))) as [[b [[H1|H1] H2]]|[H1 H2]].
      + left. exists b. split; auto. left. right. auto.
      + left. exists b. split; auto. destruct (visited s x j); [inversion H1; left; left; auto|right; auto].
      + right. destruct (visited s x j); [discriminate|auto]. }
  (* split the range at a: zrange A = zrange (a+1) ++ rest *)
  assert (S : exists r, zrange A = zrange a ++ a :: r /\ forall b, In b r -> a < b < A).
  { unfold zrange. exists (zrange_from (a + 1) (Z.to_nat (A - a - 1))).
    replace (Z.to_nat A) with (Z.to_nat a + S (Z.to_nat (A - a - 1)))%nat by lia. split.
    - generalize (Z.to_nat (A - a - 1)). intro m. 
      assert (forall n st k, zrange_from st (n + k) = zrange_from st n ++ zrange_from (st + Z.of_nat n) k) as App.
      { induction n as [|n IHn]; intros st k; cbn [zrange_from Nat.add Datatypes.app].
        - f_equal. lia.
        - f_equal. rewrite IHn. f_equal. f_equal. lia. }
      rewrite App. f_equal. cbn [zrange_from]. f_equal; [lia|f_equal; lia].
    - intros b Hb. apply in_zrange_from in Hb. lia. }
  destruct S as [r [E Hr]]. rewrite E, fold_left_app. cbn [fold_left]. rewrite V.
  assert (K : forall l, (forall b, In b l -> visited s b j = false) ->
                        fold_left (fun o a0 => if visited s a0 j then Some a0 else o) l (Some a) = Some a).
  { induction l as [|x l IH]; intro Hl; cbn [fold_left]; auto. rewrite (Hl x) by (left; auto). apply IH.
    intros b Hb. apply Hl. right; auto. }
  rewrite K; auto.
Qed.

(* C01: the labels lie in the declared range [-1, 2A-1] *)
Theorem view_range j : 0 <= j < N -> -1 <= view A s j <= 2 * A - 1.
Proof.
  intro Hj. unfold view, last_visitor. pose proof (last_visitor_spec (zrange A) j None) as Q.
  destruct (fold_left _ (zrange A) None) as [x|].
  - destruct Q as [[H1 _]|[H1 _]]; [|discriminate]. apply in_zrange in H1. lia.
  - specialize (Hty j Hj). destruct (znth (-1) (ntypes s) j =? -1); lia.
Qed.
End Obs.
