(* MMST (C08): the step reward is the sum of the per-agent terms of DenseRewardFn, each term has the documented closed
   form, and the return of an episode is the double sum of the terms.  (The docs give no objective that could be
   recomputed from the final state alone: the return depends on the history of invalid / losing choices.)            *)
Require Import JV.Base.Prelude JV.Base.JaxIndex JV.Base.Codec JV.Base.TimeStep JV.Model.Mmst JV.Proofs.Mmst_lib JV.Proofs.Mmst JV.Proofs.Mmst_Episode.

(* docs: "+10.0 if it gets a valid connection, -1.0 if it does not connect and an extra -1.0 if it chooses an invalid
   action"; code: nothing for a finished agent and for the loser of a tie-break *)
Theorem agent_reward_cases c nt fa p f :
  agent_reward c nt fa p f =
    if f then 0
    else if fa =? INVALID_TIE_BREAK then 0
    else if fa =? INVALID_CHOICE then rt c + rn c
    else if (0 <=? fa) && existsb (Z.eqb p) nt then rc c
    else rt c.
Proof.
  unfold agent_reward, INVALID_TIE_BREAK, INVALID_CHOICE, b2z. destruct f; auto.
  destruct (existsb (Z.eqb p) nt); rewrite ?andb_true_r, ?andb_false_r; cbn [andb];
    destruct (fa =? -2) eqn:E2; destruct (fa =? -1) eqn:E1; destruct (-1 <? fa) eqn:Q; destruct (0 <=? fa) eqn:P;
    cbv iota; lia.
Qed.

(* return of the steps [l] played from [s]; the same with the per-agent terms *)
Fixpoint ret (c : cfg) (s : state) (l : list (list Z * list Z)) : Z :=
  match l with [] => 0 | (a, p) :: r => zsum (reward (snd (step c s a p))) + ret c (fst (step c s a p)) r end.
Fixpoint ret_terms (c : cfg) (s : state) (l : list (list Z * list Z)) : Z :=
  match l with [] => 0
  | (a, p) :: r => zsum (tab (cA c) (rew_term c s a p)) + ret_terms c (fst (step c s a p)) r end.

Theorem return_formula c start : forall l s, Inv c start s -> ret c s l = ret_terms c s l.
Proof.
  induction l as [|[a p] r IH]; intros s HI; cbn [ret ret_terms]; auto.
  rewrite (reward_sum c start s a p HI). cbn [zsum]. rewrite (IH (fst (step c s a p)) (step_Inv c start s a p HI)). lia.
Qed.
