(* MMST: list / index lemmas used by the proofs (znth, jget, jset, tab, existsb, count_if). *)
Require Import JV.Base.Prelude JV.Base.JaxIndex JV.Base.Codec JV.Base.TimeStep JV.Model.Mmst.

Lemma znth_nth {A} (d : A) l i : 0 <= i -> znth d l i = nth (Z.to_nat i) l d.
Proof. intro H. unfold znth. destruct (i <? 0) eqn:E; [lia|reflexivity]. Qed.

Lemma znth_oob {A} (d : A) l i : zlen l <= i -> znth d l i = d.
Proof.
  intro H. pose proof (zlen_nonneg l). rewrite znth_nth by lia. apply nth_overflow. unfold zlen in H. lia.
Qed.

Lemma znth_neg {A} (d : A) l i : i < 0 -> znth d l i = d.
Proof. intro H. unfold znth. destruct (i <? 0) eqn:E; [reflexivity|lia]. Qed.

Lemma znth_In {A} (d : A) l i : 0 <= i < zlen l -> In (znth d l i) l.
Proof. intro H. rewrite znth_nth by lia. apply nth_In. unfold zlen in H. lia. Qed.

Lemma In_znth {A} (d : A) l x : In x l -> exists i, 0 <= i < zlen l /\ znth d l i = x.
Proof.
  intro H. destruct (In_nth l x d H) as [k [Hk E]]. exists (Z.of_nat k). split; [unfold zlen; lia|].
  rewrite znth_nth by lia. rewrite Nat2Z.id. exact E.
Qed.

Lemma zlen_zrange n : 0 <= n -> zlen (zrange n) = n.
Proof. intro H. unfold zlen, zrange. rewrite zrange_from_length. lia. Qed.

Lemma znth_zrange n i : 0 <= i < n -> znth 0 (zrange n) i = i.
Proof.
  intro H. rewrite znth_nth by lia. unfold zrange. rewrite zrange_from_nth by lia. lia.
Qed.

Lemma zlen_tab {A} n (f : Z -> A) : 0 <= n -> zlen (tab n f) = n.
Proof. intro H. unfold tab, zlen. rewrite map_length. fold (zlen (zrange n)). apply zlen_zrange; auto. Qed.

Lemma znth_tab {A} (d : A) n f i : 0 <= i < n -> znth d (tab n f) i = f i.
Proof.
  intro H. unfold tab. rewrite znth_nth by lia.
  rewrite (nth_indep _ d (f 0)) by (rewrite map_length; unfold zrange; rewrite zrange_from_length; lia).
  rewrite map_nth. f_equal. rewrite <- znth_nth by lia. apply znth_zrange; auto.
Qed.

Lemma zlen_map {A B} (f : A -> B) l : zlen (map f l) = zlen l.
Proof. unfold zlen. rewrite map_length. reflexivity. Qed.

Lemma znth_map {A B} (f : A -> B) d d' l i : 0 <= i < zlen l -> znth d' (map f l) i = f (znth d l i).
Proof.
  intro H. rewrite !znth_nth by lia. rewrite (nth_indep _ d' (f d)) by (rewrite map_length; unfold zlen in H; lia).
  apply map_nth.
Qed.

Lemma zlen_repeat {A} (x : A) n : zlen (repeat x n) = Z.of_nat n.
Proof. unfold zlen. rewrite repeat_length. reflexivity. Qed.

Lemma znth_repeat {A} (x : A) n i : znth x (repeat x n) i = x.
Proof.
  unfold znth. destruct (i <? 0); auto. generalize (Z.to_nat i). clear i.
  induction n; intros [|k]; cbn; auto.
Qed.

Lemma zlen_jset {A} (l : list A) i v : zlen (jset l i v) = zlen l.
Proof. unfold zlen. rewrite jset_length. reflexivity. Qed.

(* in-range normalised index of a scatter *)
Definition hit (n i k : Z) : bool := (0 <=? jnorm n i) && (jnorm n i <? n) && (jnorm n i =? k).

Lemma znth_jset {A} (d : A) l i v k :
  0 <= k < zlen l -> znth d (jset l i v) k = if hit (zlen l) i k then v else znth d l k.
Proof.
  intro Hk. unfold jset, hit. set (j := jnorm (zlen l) i).
  destruct ((0 <=? j) && (j <? zlen l)) eqn:R; cbn [andb].
  - unfold zupd. destruct (j <? 0) eqn:E; [lia|].
    rewrite !znth_nth by lia.
    destruct (j =? k) eqn:E2.
    + assert (j = k) by lia. subst k. apply nth_upd_same. unfold zlen in *. lia.
    + apply nth_upd_other. lia.
  - reflexivity.
Qed.

Lemma hit_id n i k : 0 <= i < n -> hit n i k = (i =? k).
Proof. intro H. unfold hit, jnorm. destruct (i <? 0) eqn:E; [lia|]. destruct (i =? k) eqn:E2; lia. Qed.

Lemma In_jset {A} (l : list A) i v x : In x (jset l i v) -> In x l \/ x = v.
Proof.
  intro H. destruct (In_nth _ _ x H) as [k [Hk E]]. rewrite jset_length in Hk.
  assert (Hz : 0 <= Z.of_nat k < zlen l) by (unfold zlen; lia).
  pose proof (znth_jset x l i v (Z.of_nat k) Hz) as Q. rewrite znth_nth in Q by lia. rewrite Nat2Z.id in Q.
  rewrite E in Q. destruct (hit (zlen l) i (Z.of_nat k)); [right; auto|left]. rewrite Q. apply znth_In; auto.
Qed.

Lemma In_jset_keep {A} (d : A) (l : list A) i v x : In x l -> x <> znth d l (jnorm (zlen l) i) -> In x (jset l i v).
Proof.
  intros H Hne. destruct (In_znth d l x H) as [k [Hk E]].
  assert (Q := znth_jset d l i v k Hk). unfold hit in Q.
  destruct ((0 <=? jnorm (zlen l) i) && (jnorm (zlen l) i <? zlen l) && (jnorm (zlen l) i =? k)) eqn:T.
  - assert (jnorm (zlen l) i = k) by lia. subst k. congruence.
  - rewrite <- E, <- Q. apply znth_In. rewrite zlen_jset. auto.
Qed.

Lemma jget_in {A} (d : A) l i : 0 <= i < zlen l -> jget d l i = znth d l i.
Proof. intro H. unfold jget. rewrite jclamp_id by lia. reflexivity. Qed.

Lemma jget_m1 {A} (d : A) l : 0 < zlen l -> jget d l (-1) = znth d l (zlen l - 1).
Proof. intro H. unfold jget, jclamp, jnorm. cbn [Z.ltb]. f_equal. replace (-1 <? 0) with true by lia. lia. Qed.

Lemma existsb_eqb_false (v : Z) l : existsb (Z.eqb v) l = false <-> forall k, 0 <= k < zlen l -> znth 0 l k <> v.
Proof.
  split.
  - intros H k Hk E. assert (In v l) by (rewrite <- E; apply znth_In; auto).
    assert (existsb (Z.eqb v) l = true) by (apply existsb_exists; exists v; split; auto; lia). congruence.
  - intro H. destruct (existsb (Z.eqb v) l) eqn:E; auto. apply existsb_exists in E as [x [Hx Ex]].
    destruct (In_znth 0 l x Hx) as [k [Hk Ek]]. exfalso. apply (H k Hk). lia.
Qed.

Lemma existsb_eqb_true (v : Z) l : existsb (Z.eqb v) l = true <-> In v l.
Proof.
  rewrite existsb_exists. split; [intros [x [H E]]; assert (x = v) by lia; subst; auto | intro H; exists v; split; auto; lia].
Qed.

Lemma count_if_le {A} (f : A -> bool) l : count_if f l <= zlen l.
Proof. unfold count_if, zlen. induction l as [|x l IH]; cbn; [lia|]. destruct (f x); cbn [length]; lia. Qed.

Lemma count_if_all {A} (f : A -> bool) l : count_if f l = zlen l -> forall x, In x l -> f x = true.
Proof.
  unfold count_if, zlen. induction l as [|y l IH]; intros H x Hx; [destruct Hx|].
  cbn [filter] in H. pose proof (count_if_le f l) as Q. unfold count_if, zlen in Q.
  destruct (f y) eqn:E; cbn [length] in H.
  - destruct Hx as [->|Hx]; auto. apply IH; auto. lia.
  - lia.
Qed.

Lemma forallb_zrange (f : Z -> bool) n : forallb f (zrange n) = true <-> forall i, 0 <= i < n -> f i = true.
Proof. rewrite forallb_forall. split; intros H i Hi; apply H; apply in_zrange; auto. Qed.

Lemma existsb_zrange (f : Z -> bool) n : existsb f (zrange n) = true <-> exists i, 0 <= i < n /\ f i = true.
Proof.
  rewrite existsb_exists. split; intros [i [H1 H2]]; exists i; split; auto; apply in_zrange; auto.
Qed.

Lemma tab_ext {A} n (f g : Z -> A) : (forall i, 0 <= i < n -> f i = g i) -> tab n f = tab n g.
Proof. intro H. unfold tab. apply map_ext_in. intros i Hi. apply H. apply in_zrange; auto. Qed.

Lemma list_ext_z {A} (d : A) (a b : list A) :
  zlen a = zlen b -> (forall i, 0 <= i < zlen a -> znth d a i = znth d b i) -> a = b.
Proof.
  intros L H. apply (nth_ext a b d d); [unfold zlen in L; lia|].
  intros k Hk. specialize (H (Z.of_nat k) ltac:(unfold zlen; lia)). rewrite !znth_nth in H by lia.
  rewrite Nat2Z.id in H. exact H.
Qed.
