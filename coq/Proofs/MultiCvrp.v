(* Proofs about the MultiCVRP model (coq/Model/MultiCvrp.v).  Everything is for ALL sizes (customers n, vehicles V),
   states and joint actions, an ABSTRACT distance oracle [dist] and, where a rounding function appears, every [rnd]. *)
Require Import JV.Base.Prelude JV.Base.JaxIndex JV.Base.Codec JV.Base.TimeStep JV.Model.MultiCvrp.

(* ---------- list / index helpers ---------- *)
Lemma znth_nth {A} (d : A) l i : 0 <= i -> znth d l i = nth (Z.to_nat i) l d.
Proof. intro H. unfold znth. destruct (i <? 0) eqn:E; [lia|reflexivity]. Qed.

Lemma znth_indep {A} (d d' : A) l i : 0 <= i < zlen l -> znth d l i = znth d' l i.
Proof. intro H. rewrite !znth_nth by lia. apply nth_indep. unfold zlen in H. lia. Qed.

Lemma znth_oob {A} (d : A) l i : zlen l <= i -> znth d l i = d.
Proof.
  intro H. pose proof (zlen_nonneg l). rewrite znth_nth by lia. apply nth_overflow. unfold zlen in H. lia.
Qed.

Lemma znth_cons_0 {A} (d x : A) l : znth d (x :: l) 0 = x.
Proof. reflexivity. Qed.

Lemma znth_cons_S {A} (d x : A) l i : 0 < i -> znth d (x :: l) i = znth d l (i - 1).
Proof.
  intro H. rewrite !znth_nth by lia. replace (Z.to_nat i) with (S (Z.to_nat (i - 1))) by lia. reflexivity.
Qed.

Lemma jget_znth {A} (d : A) l i : 0 <= i < zlen l -> jget d l i = znth d l i.
Proof. intro H. unfold jget. rewrite jclamp_id by lia. reflexivity. Qed.

Lemma jset_zupd {A} (l : list A) i v : 0 <= i < zlen l -> jset l i v = zupd i v l.
Proof.
  intro H. unfold jset, jnorm. destruct (i <? 0) eqn:E; [lia|].
  replace ((0 <=? i) && (i <? zlen l)) with true by lia. reflexivity.
Qed.

Lemma zlen_jset {A} (l : list A) i v : zlen (jset l i v) = zlen l.
Proof. unfold zlen. rewrite jset_length. reflexivity. Qed.

Lemma znth_zupd_same {A} (d : A) l i v : 0 <= i < zlen l -> znth d (zupd i v l) i = v.
Proof.
  intro H. rewrite znth_nth by lia. unfold zupd. destruct (i <? 0) eqn:E; [lia|].
  apply nth_upd_same. unfold zlen in H. lia.
Qed.

Lemma znth_zupd_other {A} (d : A) l i j v : i <> j -> 0 <= j -> znth d (zupd i v l) j = znth d l j.
Proof.
  intros N H. rewrite !znth_nth by lia. unfold zupd. destruct (i <? 0) eqn:E; [reflexivity|].
  apply nth_upd_other. lia.
Qed.

Lemma znth_jset {A} (d : A) l i j v : 0 <= i < zlen l -> 0 <= j ->
  znth d (jset l i v) j = if j =? i then v else znth d l j.
Proof.
  intros Hi Hj. rewrite jset_zupd by lia. destruct (j =? i) eqn:E.
  - assert (j = i) by lia. subst. apply znth_zupd_same. lia.
  - apply znth_zupd_other; lia.
Qed.

Lemma zlen_repeat {A} (x : A) k : zlen (repeat x k) = Z.of_nat k.
Proof. unfold zlen. rewrite repeat_length. reflexivity. Qed.

Lemma nth_repeat_any {A} (d x : A) k i : (i < k)%nat -> nth i (repeat x k) d = x.
Proof. revert i; induction k as [|k IH]; intros [|i] H; cbn [repeat nth]; try lia; auto. apply IH; lia. Qed.

Lemma znth_repeat {A} (d x : A) k i : 0 <= i < Z.of_nat k -> znth d (repeat x k) i = x.
Proof. intro H. rewrite znth_nth by lia. apply nth_repeat_any. lia. Qed.

Lemma zlen_map {A B} (f : A -> B) l : zlen (map f l) = zlen l.
Proof. unfold zlen. rewrite map_length. reflexivity. Qed.

Lemma znth_map {A B} (f : A -> B) da db l i : 0 <= i < zlen l -> znth db (map f l) i = f (znth da l i).
Proof.
  intro H. rewrite !znth_nth by lia. rewrite (nth_indep _ db (f da)) by (rewrite map_length; unfold zlen in H; lia).
  apply map_nth.
Qed.

Lemma map2_length {A B C} (f : A -> B -> C) a b : length a = length b -> length (map2 f a b) = length a.
Proof. revert b; induction a as [|x a IH]; intros [|y b] H; cbn in *; try lia. rewrite IH; lia. Qed.

Lemma zlen_map2 {A B C} (f : A -> B -> C) a b : zlen a = zlen b -> zlen (map2 f a b) = zlen a.
Proof. unfold zlen. intro H. rewrite map2_length; lia. Qed.

Lemma nth_map2 {A B C} (f : A -> B -> C) a b i da db dc :
  (i < length a)%nat -> length a = length b -> nth i (map2 f a b) dc = f (nth i a da) (nth i b db).
Proof.
  revert b i; induction a as [|x a IH]; intros [|y b] [|i] H E; cbn in *; try lia; auto. apply IH; lia.
Qed.

Lemma znth_map2 {A B C} (f : A -> B -> C) da db dc a b i :
  zlen a = zlen b -> 0 <= i < zlen a -> znth dc (map2 f a b) i = f (znth da a i) (znth db b i).
Proof.
  intros E H. rewrite !znth_nth by lia. apply nth_map2; unfold zlen in *; lia.
Qed.

Lemma In_znth (l : list Z) x : In x l -> exists i, 0 <= i < zlen l /\ znth 0 l i = x.
Proof.
  intro H. apply (In_nth _ _ 0) in H as (k & Hk & E). exists (Z.of_nat k). split; [unfold zlen; lia|].
  rewrite znth_nth by lia. rewrite Nat2Z.id. exact E.
Qed.

Lemma znth_In (l : list Z) i : 0 <= i < zlen l -> In (znth 0 l i) l.
Proof. intro H. rewrite znth_nth by lia. apply nth_In. unfold zlen in H. lia. Qed.

Lemma mem_In l i : mem l i = true <-> In i l.
Proof.
  unfold mem. rewrite existsb_exists. split.
  - intros (x & Hx & E). assert (i = x) by lia. subst. exact Hx.
  - intro H. exists i. split; [exact H | lia].
Qed.

Lemma mem_app a b i : mem (a ++ b) i = mem a i || mem b i.
Proof. unfold mem. apply existsb_app. Qed.

Lemma in_customers h i : In i (customers h) <-> In i h /\ i <> 0.
Proof. unfold customers. rewrite filter_In. split; intros [H1 H2]; (split; [exact H1 | lia]). Qed.

Lemma customers_app a b : customers (a ++ b) = customers a ++ customers b.
Proof. unfold customers. apply filter_app. Qed.

Lemma customers_cons a h : customers (a :: h) = if a =? 0 then customers h else a :: customers h.
Proof. unfold customers. cbn [filter]. destruct (a =? 0); reflexivity. Qed.

Lemma NoDup_app_intro {A} (a b : list A) : NoDup a -> NoDup b -> (forall x, In x a -> ~ In x b) -> NoDup (a ++ b).
Proof.
  induction a as [|x a IH]; intros Na Nb D; cbn [app]; [exact Nb|].
  inversion Na; subst. constructor.
  - rewrite in_app_iff. intros [H|H]; [contradiction|]. apply (D x); [left; reflexivity | exact H].
  - apply IH; auto. intros y Hy. apply D. right. exact Hy.
Qed.

Lemma zsum_app a b : zsum (a ++ b) = zsum a + zsum b.
Proof. induction a as [|x a IH]; cbn [app zsum]; lia. Qed.

Lemma fsum_rid l : fsum rid l = zsum l.
Proof.
  unfold fsum, rid. assert (G : forall acc, fold_left (fun a x => a + x) l acc = acc + zsum l).
  { induction l as [|x l IH]; intro acc; cbn [fold_left zsum]; [lia|]. rewrite IH. lia. }
  rewrite G. lia.
Qed.

Lemma zsum_zero_nonneg l : (forall i, 0 <= znth 0 l i) -> zsum l = 0 -> forall i, znth 0 l i = 0.
Proof.
  induction l as [|x l IH]; intros NN S i.
  - unfold znth. destruct (i <? 0); [reflexivity|]. destruct (Z.to_nat i); reflexivity.
  - cbn [zsum] in S.
    assert (Hx : 0 <= x) by (specialize (NN 0); rewrite znth_cons_0 in NN; exact NN).
    assert (NL : forall j, 0 <= znth 0 l j).
    { intro j. destruct (Z_lt_le_dec j 0) as [L|L].
      - unfold znth. replace (j <? 0) with true by lia. lia.
      - specialize (NN (j + 1)). rewrite znth_cons_S in NN by lia. replace (j + 1 - 1) with j in NN by lia. exact NN. }
    assert (SL : 0 <= zsum l).
    { clear -NL. induction l as [|y l IH]; cbn [zsum]; [lia|].
      assert (0 <= y) by (specialize (NL 0); rewrite znth_cons_0 in NL; exact NL).
      assert (0 <= zsum l).
      { apply IH. intro j. destruct (Z_lt_le_dec j 0) as [L|L].
        - unfold znth. replace (j <? 0) with true by lia. lia.
        - specialize (NL (j + 1)). rewrite znth_cons_S in NL by lia. replace (j + 1 - 1) with j in NL by lia. exact NL. }
      lia. }
    destruct (Z_lt_le_dec i 0) as [L|L]; [unfold znth; replace (i <? 0) with true by lia; reflexivity|].
    destruct (Z.eq_dec i 0) as [->|N]; [rewrite znth_cons_0; lia|].
    rewrite znth_cons_S by lia. apply IH; [exact NL | lia].
Qed.

(* ---------- jnp.int16 ---------- *)
Lemma wrap16_id a : -32768 <= a < 32768 -> wrap16 a = a.
Proof. intro H. unfold wrap16. rewrite Z.mod_small by lia. lia. Qed.

Lemma wrap16_range a : -32768 <= wrap16 a < 32768.
Proof. unfold wrap16. pose proof (Z.mod_pos_bound (a + 32768) 65536 ltac:(lia)). lia. Qed.

Lemma wrap16_idem a : wrap16 (wrap16 a) = wrap16 a.
Proof. apply wrap16_id, wrap16_range. Qed.

(* ---------- sanitising one vehicle's choice ---------- *)
Lemma legal_b_spec n s v a : legal_b n s v a = true <-> legal n s v a.
Proof.
  unfold legal_b, legal. rewrite orb_true_iff, !andb_true_iff. lia.
Qed.

Lemma san_cases dem c a : san dem c a = a \/ san dem c a = 0.
Proof. unfold san. destruct (_ && _); auto. Qed.

Lemma san_zero dem c : san dem c 0 = 0.
Proof. unfold san. destruct (_ && _); reflexivity. Qed.

Lemma san_idem dem c a : san dem c (san dem c a) = san dem c a.
Proof. destruct (san_cases dem c a) as [E|E]; rewrite E; [exact E | apply san_zero]. Qed.

(* the environment's own reaction agrees with the rules: a legal choice is kept, an illegal one becomes the depot *)
Lemma san_legal n s v a : zlen (demands s) = n + 1 -> 0 <= a <= n ->
  san (demands s) (znth 0 (cap s) v) a = if legal_b n s v a then a else 0.
Proof.
  intros L Ha. unfold san, legal_b. rewrite jget_znth by lia.
  destruct (a =? 0) eqn:E.
  - assert (a = 0) by lia. subst. cbn [orb]. destruct (_ && _); reflexivity.
  - cbn [orb]. replace (1 <=? a) with true by lia. replace (a <=? n) with true by lia. cbn [andb].
    rewrite andb_comm. reflexivity.
Qed.

(* ---------- de-duplication (jnp.unique + scatter) ---------- *)
Lemma dedup_from_length seen l : length (dedup_from seen l) = length l.
Proof. revert seen; induction l as [|x l IH]; intro seen; cbn [dedup_from length]; [reflexivity|]. rewrite IH. reflexivity. Qed.

Lemma dedup_from_znth seen l i : 0 <= i < zlen l ->
  znth 0 (dedup_from seen l) i = znth 0 l i \/ znth 0 (dedup_from seen l) i = 0.
Proof.
  revert seen i; induction l as [|x l IH]; intros seen i H; [unfold zlen in H; cbn in H; lia|].
  cbn [dedup_from]. destruct (Z.eq_dec i 0) as [->|N].
  - rewrite !znth_cons_0. destruct (mem seen x); auto.
  - rewrite zlen_cons in H. rewrite !znth_cons_S by lia. apply IH. lia.
Qed.

(* the first occurrence of a fresh value survives *)
Lemma dedup_from_first seen l i : 0 <= i < zlen l -> ~ In (znth 0 l i) seen ->
  (forall j, 0 <= j < i -> znth 0 l j <> znth 0 l i) -> znth 0 (dedup_from seen l) i = znth 0 l i.
Proof.
  revert seen i; induction l as [|x l IH]; intros seen i H NS F; [unfold zlen in H; cbn in H; lia|].
  cbn [dedup_from]. destruct (Z.eq_dec i 0) as [->|N].
  - rewrite !znth_cons_0 in *. destruct (mem seen x) eqn:E; [apply mem_In in E; contradiction | reflexivity].
  - rewrite zlen_cons in H. rewrite !znth_cons_S in * by lia. apply IH; [lia| |].
    + intros [E|I]; [|contradiction]. apply (F 0); [lia|]. rewrite znth_cons_0. exact E.
    + intros j Hj. specialize (F (j + 1) ltac:(lia)). rewrite znth_cons_S in F by lia.
      replace (j + 1 - 1) with j in F by lia. exact F.
Qed.

Lemma dedup_from_customers seen l :
  NoDup (customers (dedup_from seen l)) /\ (forall y, In y (customers (dedup_from seen l)) -> ~ In y seen /\ In y l).
Proof.
  revert seen; induction l as [|x l IH]; intro seen; cbn [dedup_from].
  - split; [constructor | intros y []].
  - destruct (IH (x :: seen)) as [ND D]. rewrite customers_cons.
    destruct (mem seen x) eqn:M.
    + cbn [Z.eqb]. split; [exact ND|]. intros y Hy. destruct (D y Hy) as [D1 D2].
      split; [intro I; apply D1; right; exact I | right; exact D2].
    + destruct (x =? 0) eqn:Z0.
      * split; [exact ND|]. intros y Hy. destruct (D y Hy) as [D1 D2].
        split; [intro I; apply D1; right; exact I | right; exact D2].
      * split.
        -- constructor; [|exact ND]. intro I. destruct (D x I) as [D1 _]. apply D1. left. reflexivity.
        -- intros y [E|Hy].
           ++ subst y. split; [|left; reflexivity]. intro I. apply mem_In in I. congruence.
           ++ destruct (D y Hy) as [D1 D2]. split; [intro I; apply D1; right; exact I | right; exact D2].
Qed.

Lemma dedup_length l : zlen (dedup l) = zlen l.
Proof. unfold zlen, dedup. rewrite dedup_from_length. reflexivity. Qed.

Lemma dedup_nodup l : NoDup (customers (dedup l)).
Proof. apply (dedup_from_customers [] l). Qed.

Lemma dedup_znth l i : 0 <= i < zlen l -> znth 0 (dedup l) i = znth 0 l i \/ znth 0 (dedup l) i = 0.
Proof. apply dedup_from_znth. Qed.

(* ---------- the sanitised joint move ---------- *)
Definition sans (s : state) (acts : list Z) : list Z := map2 (san (demands s)) (cap s) (map wrap16 acts).

Lemma next_nodes_sans s acts : next_nodes s acts = dedup (sans s acts).
Proof. reflexivity. Qed.

Lemma sans_idem s : forall acts, sans s (sans s acts) = sans s acts.
Proof.
  unfold sans. generalize (cap s) as cs. intros cs acts. revert cs.
  induction acts as [|a acts IH]; intros [|c cs]; cbn [map map2]; try reflexivity.
  rewrite IH. f_equal.
  destruct (san_cases (demands s) c (wrap16 a)) as [E|E]; rewrite E.
  - rewrite wrap16_idem. exact E.
  - rewrite (wrap16_id 0) by lia. apply san_zero.
Qed.

Section NEXT.
  Variables (n V : Z) (s : state) (acts : list Z).
  Hypothesis Hn : n < 32768.
  Hypothesis Ld : zlen (demands s) = n + 1.
  Hypothesis Lc : zlen (cap s) = V.
  Hypothesis La : zlen acts = V.
  Hypothesis Ra : Forall (fun a => 0 <= a <= n) acts.

  Lemma act_range v : 0 <= v < V -> 0 <= znth 0 acts v <= n.
  Proof. intro H. rewrite Forall_forall in Ra. apply Ra. apply znth_In. lia. Qed.

  Lemma sans_len : zlen (sans s acts) = V.
  Proof. unfold sans. rewrite zlen_map2; [lia | rewrite zlen_map; lia]. Qed.

  Lemma sans_znth v : 0 <= v < V ->
    znth 0 (sans s acts) v = if legal_b n s v (znth 0 acts v) then znth 0 acts v else 0.
  Proof.
    intro H. pose proof (act_range v H) as R. unfold sans.
    rewrite (znth_map2 _ 0 0 0) by (rewrite ?zlen_map; lia).
    rewrite (znth_map _ 0 0) by lia. rewrite wrap16_id by lia. apply (san_legal n); [exact Ld | exact R].
  Qed.

  Lemma nn_len : zlen (next_nodes s acts) = V.
  Proof. rewrite next_nodes_sans, dedup_length. apply sans_len. Qed.

  (* every vehicle either goes to the depot or to the customer it chose, which is then legal for it *)
  Lemma nn_cases v : 0 <= v < V ->
    znth 0 (next_nodes s acts) v = 0
    \/ (znth 0 (next_nodes s acts) v = znth 0 acts v /\ znth 0 acts v <> 0 /\ legal n s v (znth 0 acts v)).
  Proof.
    intro H. rewrite next_nodes_sans.
    destruct (dedup_znth (sans s acts) v) as [E|E]; [rewrite sans_len; lia | | left; exact E].
    rewrite E, sans_znth by lia. destruct (legal_b n s v (znth 0 acts v)) eqn:L; [|left; reflexivity].
    destruct (Z.eq_dec (znth 0 acts v) 0) as [Z0|NZ]; [left; exact Z0|].
    right. repeat split; auto. apply legal_b_spec. exact L.
  Qed.

  Lemma nn_illegal_depot v : 0 <= v < V -> ~ legal n s v (znth 0 acts v) -> znth 0 (next_nodes s acts) v = 0.
  Proof. intros H NL. destruct (nn_cases v H) as [E|(_ & _ & L)]; [exact E | contradiction]. Qed.

  Lemma nn_range : Forall (fun a => 0 <= a <= n) (next_nodes s acts).
  Proof.
    rewrite Forall_forall. intros x Hx. apply In_znth in Hx as (v & Hv & E). rewrite nn_len in Hv. subst x.
    destruct (nn_cases v Hv) as [E|(E & _ & _)]; rewrite E; [|apply act_range; exact Hv].
    pose proof (act_range v Hv). lia.
  Qed.

  Lemma nn_nodup : NoDup (customers (next_nodes s acts)).
  Proof. rewrite next_nodes_sans. apply dedup_nodup. Qed.

  (* a customer chosen by several vehicles for which it is legal is served by exactly the first of them *)
  Lemma nn_first_wins v : 0 <= v < V -> znth 0 acts v <> 0 -> legal n s v (znth 0 acts v) ->
    (forall u, 0 <= u < v -> znth 0 acts u <> znth 0 acts v \/ ~ legal n s u (znth 0 acts u)) ->
    znth 0 (next_nodes s acts) v = znth 0 acts v.
  Proof.
    intros H NZ L F. rewrite next_nodes_sans.
    assert (E : znth 0 (sans s acts) v = znth 0 acts v).
    { rewrite sans_znth by lia. apply legal_b_spec in L. rewrite L. reflexivity. }
    unfold dedup. rewrite dedup_from_first; [exact E | rewrite sans_len; lia | intros [] |].
    intros j Hj. rewrite E, sans_znth by lia. destruct (F j Hj) as [D|NL].
    - destruct (legal_b n s j (znth 0 acts j)); [exact D | intro X; apply NZ; symmetry; exact X].
    - destruct (legal_b n s j (znth 0 acts j)) eqn:LB; [apply legal_b_spec in LB; contradiction|].
      intro X. apply NZ. symmetry. exact X.
  Qed.
End NEXT.

(* ---------- the scatter demands.at[next].set(0) ---------- *)
Lemma zero_fold_len l : forall d, zlen (fold_left (fun d x => jset d x 0) l d) = zlen d.
Proof. induction l as [|x l IH]; intro d; cbn [fold_left]; [reflexivity|]. rewrite IH. apply zlen_jset. Qed.

Lemma zero_fold_znth n l : forall d, zlen d = n + 1 -> Forall (fun a => 0 <= a <= n) l -> forall i, 0 <= i <= n ->
  znth 0 (fold_left (fun d x => jset d x 0) l d) i = if mem l i then 0 else znth 0 d i.
Proof.
  induction l as [|x l IH]; intros d Ld F i Hi; cbn [fold_left]; [reflexivity|].
  inversion F as [|? ? Fx Fl]; subst.
  rewrite IH; [| rewrite zlen_jset; exact Ld | exact Fl | exact Hi].
  unfold mem. cbn [existsb]. fold (mem l i). destruct (mem l i) eqn:M.
  - rewrite orb_true_r. reflexivity.
  - rewrite orb_false_r. rewrite znth_jset by lia. reflexivity.
Qed.

(* ---------- projections of update ---------- *)
Section UPD.
  Variables (rnd : Z -> Z) (mc : Z) (dist : Z -> Z -> Z) (s : state) (acts : list Z).
  Let s' := update rnd mc dist s acts.
  Lemma upd_pos : pos s' = next_nodes s acts. Proof. reflexivity. Qed.
  Lemma upd_scount : scount s' = scount s + 1. Proof. reflexivity. Qed.
  Lemma upd_ins : ins s' = ins s. Proof. reflexivity. Qed.
  Lemma upd_demands : demands s' = fold_left (fun d x => jset d x 0) (next_nodes s acts) (demands s). Proof. reflexivity. Qed.
  Lemma upd_cap : cap s' = map2 (fun c x => if x =? 0 then mc else c - jget 0 (demands s) x) (cap s) (next_nodes s acts).
  Proof. reflexivity. Qed.
  Lemma upd_amask : amask s' = create_mask (demands s') (cap s'). Proof. reflexivity. Qed.
  Lemma upd_vdist : vdist s' = map2 (fun x d => rnd (x + d)) (vdist s) (map2 dist (pos s) (next_nodes s acts)). Proof. reflexivity. Qed.
End UPD.

(* ---------- ghost history ---------- *)
Lemma route_cons row H v : route (row :: H) v = znth 0 row v :: route H v.
Proof. reflexivity. Qed.

Lemma load_nonneg d0 h : (forall i, 0 <= znth 0 d0 i) -> 0 <= load d0 h.
Proof. intro NN. induction h as [|a h IH]; cbn [load]; [lia|]. destruct (a =? 0); [lia|]. specialize (NN a). lia. Qed.

(* ---------- C06: the invariant is preserved by EVERY joint action with node indices in [0, n] ---------- *)
Theorem step_Inv rnd n V mc dist d0 s H acts : n < 32768 -> 0 <= mc -> Inv n V mc d0 s H ->
  zlen acts = V -> Forall (fun a => 0 <= a <= n) acts ->
  Inv n V mc d0 (update rnd mc dist s acts) (next_nodes s acts :: H).
Proof.
  intros Hn Hmc (I1 & I2 & I3 & I4 & I5 & I6 & I7 & I8 & I9 & I10 & I11 & I12 & I13 & I14) La Ra.
  pose proof (nn_len V s acts I6 La) as NL.
  pose proof (nn_range n V s acts Hn I2 I6 La Ra) as NR.
  pose proof (nn_nodup s acts) as ND.
  assert (LIVE : forall v, 0 <= v < V -> znth 0 (next_nodes s acts) v <> 0 ->
            let x := znth 0 (next_nodes s acts) v in
            1 <= x <= n /\ 0 < znth 0 (demands s) x <= znth 0 (cap s) v /\ znth 0 (demands s) x = znth 0 d0 x /\ ~ In x (concat H)).
  { intros v Hv NZ x. subst x. destruct (nn_cases n V s acts Hn I2 I6 La Ra v Hv) as [E|(E & NZa & L)]; [contradiction|].
    rewrite E in *. destruct L as [L|(L1 & L2 & L3)]; [contradiction|].
    assert (NM : mem (concat H) (znth 0 acts v) = false).
    { destruct (mem (concat H) (znth 0 acts v)) eqn:M; [|reflexivity].
      rewrite (I5 (znth 0 acts v)) in L2 by lia. rewrite M in L2. lia. }
    repeat split; try lia.
    - rewrite (I5 (znth 0 acts v)) by lia. rewrite NM. reflexivity.
    - intro I. apply mem_In in I. congruence. }
  unfold Inv. rewrite upd_pos, upd_scount, upd_amask, upd_demands, upd_cap.
  assert (LD' : zlen (fold_left (fun d x => jset d x 0) (next_nodes s acts) (demands s)) = n + 1)
    by (rewrite zero_fold_len; exact I2).
  assert (C5 : forall i, 0 <= i <= n ->
     znth 0 (fold_left (fun d x => jset d x 0) (next_nodes s acts) (demands s)) i
     = if mem (concat (next_nodes s acts :: H)) i then 0 else znth 0 d0 i).
  { intros i Hi. rewrite (zero_fold_znth n) by auto. cbn [concat]. rewrite mem_app.
    destruct (mem (next_nodes s acts) i); [reflexivity|]. cbn [orb]. apply I5. exact Hi. }
  assert (C6 : zlen (map2 (fun c x => if x =? 0 then mc else c - jget 0 (demands s) x) (cap s) (next_nodes s acts)) = V)
    by (rewrite zlen_map2; lia).
  assert (C9 : forall v, 0 <= v < V ->
     znth 0 (map2 (fun c x => if x =? 0 then mc else c - jget 0 (demands s) x) (cap s) (next_nodes s acts)) v
       = mc - load d0 (route (next_nodes s acts :: H) v)
     /\ 0 <= znth 0 (map2 (fun c x => if x =? 0 then mc else c - jget 0 (demands s) x) (cap s) (next_nodes s acts)) v).
  { intros v Hv. destruct (I9 v Hv) as [C1 C2]. rewrite route_cons. cbn [load].
    rewrite (znth_map2 _ 0 0 0) by lia.
    destruct (znth 0 (next_nodes s acts) v =? 0) eqn:E; [lia|].
    destruct (LIVE v Hv ltac:(lia)) as (R & (D1 & D2) & D3 & _).
    rewrite jget_znth by lia. lia. }
  assert (C10 : NoDup (customers (concat (next_nodes s acts :: H)))).
  { cbn [concat]. rewrite customers_app. apply NoDup_app_intro; auto.
    intros x Hx Hx'. apply in_customers in Hx as [Hx NZ]. apply in_customers in Hx' as [Hx' _].
    apply In_znth in Hx as (v & Hv & E). rewrite NL in Hv. subst x.
    destruct (LIVE v Hv NZ) as (_ & _ & _ & NI). contradiction. }
  assert (C11 : Forall (fun a => 0 <= a <= n) (concat (next_nodes s acts :: H))).
  { cbn [concat]. apply Forall_app. split; auto. }
  assert (C13 : scount s + 1 = 1 + zlen (next_nodes s acts :: H)) by (rewrite zlen_cons; lia).
  split; [exact I1|]. split; [exact LD'|]. split; [exact I3|]. split; [exact I4|]. split; [exact C5|].
  split; [exact C6|]. split; [exact NL|]. split; [constructor; [exact NL | exact I8]|]. split; [exact C9|].
  split; [exact C10|]. split; [exact C11|]. split; [reflexivity|]. split; [exact C13 | reflexivity].
Qed.

(* the reset state of ANY instance with non-negative demands and no depot demand *)
Theorem init_Inv_gen n V mc dem I od : 0 <= V -> 0 <= mc -> zlen dem = n + 1 -> znth 0 dem 0 = 0 -> (forall i, 0 <= znth 0 dem i) ->
  let z := repeat 0 (Z.to_nat V) in let caps := repeat mc (Z.to_nat V) in
  Inv n V mc dem (mkS dem I z caps z z z od 1 (create_mask dem caps)) [].
Proof.
  intros HV Hmc L D0 NN z caps. unfold Inv. cbn [demands cap pos scount amask concat hd].
  repeat split; auto.
  - subst caps. rewrite zlen_repeat. lia.
  - subst z. rewrite zlen_repeat. lia.
  - subst caps. rewrite znth_repeat by lia. cbn. lia.
  - subst caps. rewrite znth_repeat by lia. lia.
  - constructor.
Qed.

Theorem C06_load_within_capacity n V mc d0 s H v : Inv n V mc d0 s H -> 0 <= v < V ->
  load d0 (route H v) = mc - znth 0 (cap s) v /\ load d0 (route H v) <= mc /\ 0 <= znth 0 (cap s) v.
Proof.
  intros (I1 & I2 & I3 & I4 & I5 & I6 & I7 & I8 & I9 & _) Hv. destruct (I9 v Hv). lia.
Qed.

Theorem C06_no_customer_twice n V mc d0 s H : Inv n V mc d0 s H ->
  NoDup (customers (concat H))
  /\ (forall i, 1 <= i <= n -> 0 < znth 0 d0 i -> (In i (concat H) <-> znth 0 (demands s) i = 0)).
Proof.
  intros (I1 & I2 & I3 & I4 & I5 & I6 & I7 & I8 & I9 & I10 & _). split; [exact I10|].
  intros i Hi P. rewrite (I5 i) by lia. destruct (mem (concat H) i) eqn:M.
  - apply mem_In in M. tauto.
  - split; [intro X; apply mem_In in X; congruence | lia].
Qed.

(* completion (the first disjunct of is_done): every customer that had demand has been served (exactly once, by the
   previous theorem) and every vehicle is back at the depot *)
Theorem C06_completion n V mc d0 s H : Inv n V mc d0 s H -> complete s = true ->
  (forall i, 1 <= i <= n -> 0 < znth 0 d0 i -> In i (concat H)) /\ (forall v, 0 <= v < V -> znth 0 (pos s) v = 0).
Proof.
  intros (I1 & I2 & I3 & I4 & I5 & I6 & I7 & _) C. unfold complete in C. apply andb_true_iff in C as [C1 C2].
  assert (NN : forall i, 0 <= znth 0 (demands s) i).
  { intro i. destruct (Z_lt_le_dec i 0); [unfold znth; replace (i <? 0) with true by lia; lia|].
    destruct (Z_lt_le_dec n i); [rewrite znth_oob by lia; lia|].
    rewrite I5 by lia. destruct (mem (concat H) i); [lia | apply I4]. }
  pose proof (zsum_zero_nonneg (demands s) NN ltac:(lia)) as Z0. split.
  - intros i Hi P. specialize (Z0 i). rewrite I5 in Z0 by lia. destruct (mem (concat H) i) eqn:M; [apply mem_In; exact M | lia].
  - intros v Hv. rewrite forallb_forall in C2. specialize (C2 (znth 0 (pos s) v) (znth_In (pos s) v ltac:(lia))). lia.
Qed.
