(* MultiCVRP: in exact arithmetic each vehicle's distance accumulator is the length of the route it actually drove
   (sum of the oracle distances along its column of the joint history, starting at the depot). *)
Require Import JV.Base.Prelude JV.Base.JaxIndex JV.Base.Codec JV.Base.TimeStep JV.Model.MultiCvrp JV.Proofs.MultiCvrp.

Definition DistInv (V : Z) (dist : Z -> Z -> Z) (s : state) (H : list (list Z)) : Prop :=
  zlen (vdist s) = V /\ zlen (pos s) = V /\ pos s = hd (repeat 0 (Z.to_nat V)) H
  /\ forall v, 0 <= v < V -> znth 0 (vdist s) v = rlen dist (route H v).

Lemma hd_route H V v : 0 <= v < V -> hd 0 (route H v) = znth 0 (hd (repeat 0 (Z.to_nat V)) H) v.
Proof.
  intro Hv. destruct H as [|row H]; cbn [route map hd]; [|reflexivity].
  rewrite znth_repeat by lia. reflexivity.
Qed.

Theorem step_DistInv V mc dist s H acts : DistInv V dist s H -> zlen (next_nodes s acts) = V ->
  DistInv V dist (update rid mc dist s acts) (next_nodes s acts :: H).
Proof.
  intros (D1 & D2 & D3 & D4) NL. unfold DistInv. rewrite upd_pos, upd_vdist.
  assert (LM : zlen (map2 dist (pos s) (next_nodes s acts)) = V) by (rewrite zlen_map2; lia).
  split; [rewrite zlen_map2; lia|]. split; [exact NL|]. split; [reflexivity|].
  intros v Hv. rewrite (znth_map2 _ 0 0 0) by lia. rewrite (znth_map2 _ 0 0 0) by lia.
  rewrite route_cons. cbn [rlen]. rewrite (hd_route H V v Hv), <- D3, D4 by exact Hv. unfold rid. lia.
Qed.

Theorem init_DistInv V dist dem I c od k m : 0 <= V ->
  DistInv V dist (mkS dem I (repeat 0 (Z.to_nat V)) c (repeat 0 (Z.to_nat V)) (repeat 0 (Z.to_nat V)) (repeat 0 (Z.to_nat V)) od k m) [].
Proof.
  intro HV. unfold DistInv. cbn [vdist pos hd route map rlen]. rewrite !zlen_repeat.
  repeat split; try lia. intros v Hv. apply znth_repeat. lia.
Qed.
