(* MultiCVRP: mask, illegal choices, protocol, horizon, rewards, generator, observation, checker soundness, refutations.
   For ALL sizes / states / joint actions; [dist] abstract. *)
Require Import JV.Base.Prelude JV.Base.JaxIndex JV.Base.Codec JV.Base.TimeStep JV.Model.MultiCvrp JV.Proofs.MultiCvrp.

(* ---------- C04: the mask ---------- *)
Theorem create_mask_legal n s v a : zlen (demands s) = n + 1 -> amask s = create_mask (demands s) (cap s) ->
  0 <= v < zlen (cap s) -> 0 <= a <= n -> znth false (znth [] (amask s) v) a = legal_b n s v a.
Proof.
  intros L M Hv Ha. rewrite M. unfold create_mask.
  rewrite (znth_map _ 0 []) by lia.
  rewrite znth_jset by (rewrite ?zlen_map; lia).
  unfold legal_b. destruct (a =? 0) eqn:E; [reflexivity|]. cbn [orb].
  rewrite (znth_map _ 0 false) by lia.
  replace (1 <=? a) with true by lia. replace (a <=? n) with true by lia. cbn [andb]. apply andb_comm.
Qed.

Theorem C04_mask_iff_legal n V mc d0 s H v a : Inv n V mc d0 s H -> 0 <= v < V -> 0 <= a <= n ->
  (znth false (znth [] (amask s) v) a = true <-> legal n s v a).
Proof.
  intros (I1 & I2 & I3 & I4 & I5 & I6 & I7 & I8 & I9 & I10 & I11 & I12 & I13 & I14) Hv Ha.
  rewrite (create_mask_legal n s v a) by (auto; lia). apply legal_b_spec.
Qed.

(* the mask judged by the environment's own reaction: a masked-in choice is kept by the sanitiser, a masked-out one is
   replaced by the depot *)
Theorem C04_mask_iff_accepts n V mc d0 s H v a : Inv n V mc d0 s H -> 0 <= v < V -> 0 <= a <= n ->
  san (demands s) (znth 0 (cap s) v) a = if znth false (znth [] (amask s) v) a then a else 0.
Proof.
  intros (I1 & I2 & I3 & I4 & I5 & I6 & I7 & I8 & I9 & I10 & I11 & I12 & I13 & I14) Hv Ha.
  rewrite (create_mask_legal n s v a) by (auto; lia). apply san_legal; auto.
Qed.

(* ---------- C05: an illegal choice is exactly a depot choice ---------- *)
Theorem C05_step_sanitised rnd sp n mc dist s acts :
  step_r rnd sp n mc dist s (sans s acts) = step_r rnd sp n mc dist s acts.
Proof.
  unfold step_r, update. rewrite !next_nodes_sans, sans_idem. reflexivity.
Qed.

Theorem C05_illegal_goes_to_depot rnd n V mc dist d0 s H acts v : n < 32768 -> 0 <= mc -> Inv n V mc d0 s H ->
  zlen acts = V -> Forall (fun a => 0 <= a <= n) acts -> 0 <= v < V -> ~ legal n s v (znth 0 acts v) ->
  let s' := update rnd mc dist s acts in
  znth 0 (pos s') v = 0 /\ znth 0 (cap s') v = mc /\ load d0 (route (next_nodes s acts :: H) v) = 0.
Proof.
  intros Hn Hmc I La Ra Hv NL s'.
  pose proof (step_Inv rnd n V mc dist d0 s H acts Hn Hmc I La Ra) as I'.
  destruct I as (I1 & I2 & I3 & I4 & I5 & I6 & _).
  pose proof (nn_illegal_depot n V s acts Hn I2 I6 La Ra v Hv NL) as E.
  destruct (C06_load_within_capacity _ _ _ _ _ _ v I' Hv) as (L1 & _).
  assert (L0 : load d0 (route (next_nodes s acts :: H) v) = 0) by (rewrite route_cons, E; reflexivity).
  subst s'. rewrite upd_pos. repeat split; auto. fold (update rnd mc dist s acts). lia.
Qed.

(* ---------- C03 / C11 ---------- *)
Lemma step_fst rnd sp n mc dist s acts : fst (step_r rnd sp n mc dist s acts) = update rnd mc dist s acts.
Proof. reflexivity. Qed.

Lemma step_st rnd sp n mc dist s acts :
  st (snd (step_r rnd sp n mc dist s acts)) = if is_done n (update rnd mc dist s acts) then LAST else MID.
Proof. unfold step_r, cond_done. cbn [snd]. destruct (is_done _ _); reflexivity. Qed.

Theorem C03_step_protocol rnd sp n mc dist s acts : step_ok 1 false (snd (step_r rnd sp n mc dist s acts)) = true.
Proof. unfold step_r, cond_done. cbn [snd]. destruct (is_done _ _); reflexivity. Qed.

Theorem C03_init_protocol rnd n V mc maxd wl r ws ce cl : first_ok 1 (snd (init_r rnd n V mc maxd wl r ws ce cl)) = true.
Proof. reflexivity. Qed.

Theorem C11_limit_is_last rnd sp n mc dist s acts : 2 * n <= scount s ->
  st (snd (step_r rnd sp n mc dist s acts)) = LAST.
Proof.
  intro H. rewrite step_st. unfold is_done, at_limit. rewrite upd_scount.
  replace (2 * n <? scount s + 1) with true by lia. rewrite orb_true_r. reflexivity.
Qed.

Theorem C11_before_limit rnd sp n mc dist s acts : scount s < 2 * n ->
  (st (snd (step_r rnd sp n mc dist s acts)) = LAST <-> complete (update rnd mc dist s acts) = true).
Proof.
  intro H. rewrite step_st. unfold is_done, at_limit. rewrite upd_scount.
  replace (2 * n <? scount s + 1) with false by lia. rewrite orb_false_r.
  destruct (complete _); unfold LAST, MID; split; intro; congruence.
Qed.

Fixpoint run (rnd : Z -> Z) (sp : bool) (n mc : Z) (dist : Z -> Z -> Z) (s : state) (al : list (list Z)) : list (state * tstep) :=
  match al with
  | [] => []
  | a :: r => let p := step_r rnd sp n mc dist s a in p :: run rnd sp n mc dist (fst p) r
  end.
Definition dflt : state * tstep := (mkS [] (mkI [] [] [] []) [] [] [] [] [] [] 0 [], mkTS MID [] []).

(* whatever the vehicles do, a LAST step comes within max(1, 2n + 1 - step_count) steps: 2n steps from reset *)
Theorem C11_horizon rnd sp n mc dist : forall (k : nat) al s, 2 * n <= scount s + Z.of_nat k -> (k < length al)%nat ->
  exists j, (j <= k)%nat /\ st (snd (nth j (run rnd sp n mc dist s al) dflt)) = LAST.
Proof.
  induction k as [|k IH]; intros al s H L; (destruct al as [|a r]; [cbn in L; lia|]).
  - exists O. split; [lia|]. cbn [run nth]. apply C11_limit_is_last. lia.
  - destruct (IH r (fst (step_r rnd sp n mc dist s a))) as (j & Hj & E).
    + rewrite step_fst, upd_scount. lia.
    + cbn in L. lia.
    + exists (S j). split; [lia|]. cbn [run nth]. exact E.
Qed.

Lemma run_states rnd n mc dist : forall al s, map fst (run rnd true n mc dist s al) = map fst (run rnd false n mc dist s al).
Proof. induction al as [|a r IH]; intro s; cbn [run map]; [reflexivity|]. rewrite !step_fst. f_equal. apply IH. Qed.

Theorem C06_run_Inv rnd sp n V mc dist d0 : forall al s H, n < 32768 -> 0 <= mc -> Inv n V mc d0 s H ->
  Forall (fun acts => zlen acts = V /\ Forall (fun a => 0 <= a <= n) acts) al ->
  Forall (fun p => exists H', Inv n V mc d0 (fst p) H') (run rnd sp n mc dist s al).
Proof.
  induction al as [|a r IH]; intros s H Hn Hmc I F; cbn [run]; constructor.
  - inversion F as [|? ? [La Ra] Fr]; subst. exists (next_nodes s a :: H). rewrite step_fst. apply step_Inv; auto.
  - inversion F as [|? ? [La Ra] Fr]; subst. apply (IH _ (next_nodes s a :: H)); auto. rewrite step_fst. apply step_Inv; auto.
Qed.

(* ---------- C08: rewards in exact arithmetic ---------- *)
(* the documented objective read from the state: total distance driven + total time penalties (code at scale 2^96) *)
Definition obj (s : state) : Z := zsum (vdist s) * cs + zsum (vpen s).

Lemma dense_reward n dist s s' : at_limit n s' = false -> reward_of rid false n dist s s' = obj s - obj s'.
Proof. intro L. unfold reward_of, obj. rewrite L, !fsum_rid. unfold rid. ring. Qed.

Lemma sparse_reward_done n dist s s' : at_limit n s' = false -> is_done n s' = true -> reward_of rid true n dist s s' = - obj s'.
Proof. intros L D. unfold reward_of, obj. rewrite D, L, !fsum_rid. unfold rid. ring. Qed.

Lemma sparse_reward_mid n dist s s' : is_done n s' = false -> reward_of rid true n dist s s' = 0.
Proof. intro D. unfold reward_of. rewrite D. reflexivity. Qed.

Definition ret (tr : list (state * tstep)) : Z := zsum (map (fun p => zsum (reward (snd p))) tr).
Definition final (s : state) (tr : list (state * tstep)) : state := fst (last tr (s, mkTS MID [] [])).

Lemma step_reward rnd sp n mc dist s a :
  reward (snd (step_r rnd sp n mc dist s a)) = [reward_of rnd sp n dist s (update rnd mc dist s a)].
Proof. unfold step_r, cond_done. cbn [snd]. destruct (is_done _ _); reflexivity. Qed.

Lemma last_cons_indep {A} (tr : list A) : forall q d d', last (q :: tr) d = last (q :: tr) d'.
Proof. induction tr as [|x tr IH]; intros q d d'; [reflexivity|]. cbn [last] in *. apply (IH x). Qed.

Lemma last_map_f {A B} (f : A -> B) l d : last (map f l) (f d) = f (last l d).
Proof. induction l as [|x l IH]; [reflexivity|]. cbn [map last]. destruct l as [|y l]; [reflexivity|]. exact IH. Qed.

Lemma removelast_map_f {A B} (f : A -> B) l : removelast (map f l) = map f (removelast l).
Proof. induction l as [|x l IH]; [reflexivity|]. cbn [map removelast]. destruct l as [|y l]; [reflexivity|]. cbn [map] in *. rewrite IH. reflexivity. Qed.

Lemma final_cons s p tr : final s (p :: tr) = final (fst p) tr.
Proof.
  unfold final. destruct tr as [|q tr]; [reflexivity|].
  change (last (p :: q :: tr) (s, mkTS MID [] [])) with (last (q :: tr) (s, mkTS MID [] [])).
  f_equal. apply last_cons_indep.
Qed.

(* dense: as long as the step limit is not hit, the rewards telescope to minus the increase of the objective *)
Theorem C08_dense_return n mc dist : forall al s,
  Forall (fun p => at_limit n (fst p) = false) (run rid false n mc dist s al) ->
  ret (run rid false n mc dist s al) = obj s - obj (final s (run rid false n mc dist s al)).
Proof.
  induction al as [|a r IH]; intros s F; cbn [run] in *.
  - unfold ret, final. cbn. lia.
  - inversion F as [|? ? F1 Fr]; subst. unfold ret in *. cbn [map zsum]. rewrite IH by exact Fr.
    rewrite final_cons, step_reward, step_fst. rewrite step_fst in F1. cbn [zsum]. rewrite dense_reward by exact F1. lia.
Qed.

(* sparse: zero until the episode ends; if it ends before the step limit the last reward is minus the objective *)
Theorem C08_sparse_return n mc dist : forall al s, al <> [] ->
  Forall (fun p => at_limit n (fst p) = false) (run rid true n mc dist s al) ->
  Forall (fun p => is_done n (fst p) = false) (removelast (run rid true n mc dist s al)) ->
  is_done n (final s (run rid true n mc dist s al)) = true ->
  ret (run rid true n mc dist s al) = - obj (final s (run rid true n mc dist s al)).
Proof.
  induction al as [|a r IH]; intros s NE F M D; [congruence|]. cbn [run] in *.
  inversion F as [|? ? F1 Fr]; subst. rewrite final_cons in *. unfold ret in *. cbn [map zsum].
  rewrite step_reward, step_fst in *. cbn [zsum].
  destruct r as [|b r'].
  - cbn [run map zsum] in *. unfold final in *. cbn [last fst] in *. rewrite sparse_reward_done by auto. lia.
  - rewrite IH; try congruence; auto.
    + cbn [run removelast] in M. inversion M as [|? ? M1 Mr]; subst. rewrite step_fst in M1.
      rewrite sparse_reward_mid by exact M1. lia.
    + cbn [run removelast] in M. cbn [run]. inversion M as [|? ? M1 Mr]; subst. exact Mr.
Qed.

(* on an episode that ends (by completion) before the step limit both reward functions return minus the objective of the
   final state (the reset state has objective 0) *)
Theorem C08_dense_equals_sparse n mc dist al s : al <> [] -> obj s = 0 ->
  Forall (fun p => at_limit n (fst p) = false) (run rid false n mc dist s al) ->
  Forall (fun p => is_done n (fst p) = false) (removelast (run rid false n mc dist s al)) ->
  is_done n (final s (run rid false n mc dist s al)) = true ->
  ret (run rid false n mc dist s al) = - obj (final s (run rid false n mc dist s al))
  /\ ret (run rid true n mc dist s al) = ret (run rid false n mc dist s al).
Proof.
  intros NE O F M D.
  assert (ST := run_states rid n mc dist al s).
  assert (FE : final s (run rid true n mc dist s al) = final s (run rid false n mc dist s al)).
  { unfold final. rewrite <- !(last_map_f fst). rewrite ST. reflexivity. }
  assert (Fs : Forall (fun p => at_limit n (fst p) = false) (run rid true n mc dist s al)).
  { rewrite Forall_forall in *. intros p Hp. apply (in_map fst) in Hp. rewrite ST in Hp.
    apply in_map_iff in Hp as (q & E & Hq). rewrite <- E. apply F. exact Hq. }
  assert (Ms : Forall (fun p => is_done n (fst p) = false) (removelast (run rid true n mc dist s al))).
  { rewrite Forall_forall in *. intros p Hp. apply (in_map fst) in Hp. rewrite <- removelast_map_f, ST, removelast_map_f in Hp.
    apply in_map_iff in Hp as (q & E & Hq). rewrite <- E. apply M. exact Hq. }
  rewrite C08_dense_return by exact F. rewrite C08_sparse_return by (auto; rewrite FE; auto). rewrite FE. lia.
Qed.

(* ---------- C10: the generator ---------- *)
Lemma gen_demands_len total maxd r : zlen (gen_demands total maxd r) = zlen r.
Proof. unfold gen_demands. rewrite zlen_map, zlen_jset. reflexivity. Qed.

Lemma znth_jset0 r i : 0 <= i -> 0 <= znth 0 r i -> 0 <= znth 0 (jset r 0 0) i.
Proof.
  intros Hi H. destruct (Z_lt_le_dec 0 (zlen r)).
  - rewrite znth_jset by lia. destruct (i =? 0); lia.
  - unfold jset, jnorm. cbn. replace (0 <? zlen r) with false by lia. cbn. exact H.
Qed.

Theorem C10_gen_demands total maxd r : 0 <= total -> 0 <= maxd -> Forall (fun d => 0 <= d) r ->
  let q := gen_demands total maxd r in
  zlen q = zlen r /\ (forall i, 0 <= znth 0 q i <= maxd) /\ (0 < zlen r -> znth 0 q 0 = 0).
Proof.
  intros HT HM F q. split; [apply gen_demands_len|].
  assert (R0 : Forall (fun d => 0 <= d) (jset r 0 0)).
  { unfold jset, jnorm. cbn. destruct (0 <? zlen r) eqn:E; cbn; [|exact F].
    unfold zupd. cbn. destruct r as [|x r]; [constructor|]. cbn. inversion F; subst. constructor; [lia|auto]. }
  assert (S0 : 0 <= zsum (jset r 0 0)).
  { induction R0 as [|x l Hx Hl IH]; cbn [zsum]; lia. }
  split.
  - intro i. subst q. unfold gen_demands.
    destruct (Z_lt_le_dec i 0); [unfold znth; replace (i <? 0) with true by lia; lia|].
    destruct (Z_lt_le_dec i (zlen (jset r 0 0))).
    + rewrite (znth_map _ 0 0) by lia.
      assert (0 <= znth 0 (jset r 0 0) i) by (rewrite Forall_forall in R0; apply R0, znth_In; lia).
      assert (0 <= znth 0 (jset r 0 0) i * total / zsum (jset r 0 0)).
      { destruct (Z.eq_dec (zsum (jset r 0 0)) 0) as [->|]; [rewrite Zdiv_0_r; lia|]. apply Z.div_pos; nia. }
      lia.
    + rewrite znth_oob by (rewrite zlen_map; lia). lia.
  - intro P. subst q. unfold gen_demands. rewrite (znth_map _ 0 0) by (rewrite zlen_jset; lia).
    rewrite znth_jset by lia. cbn. lia.
Qed.

(* the reset state satisfies the invariant with the generated demands as the original instance *)
Theorem C10_init_Inv rnd n V mc maxd wl r ws ce cl : 0 <= V -> 0 <= mc -> 0 <= maxd -> zlen r = n + 1 -> 0 <= n ->
  Forall (fun d => 0 <= d) r ->
  let s0 := fst (init_r rnd n V mc maxd wl r ws ce cl) in
  Inv n V mc (demands s0) s0 [] /\ (forall i, 0 <= znth 0 (demands s0) i <= maxd) /\ obj s0 = 0 /\ scount s0 = 1.
Proof.
  intros HV Hmc HM L Hn F s0.
  destruct (C10_gen_demands (mc * V) maxd r ltac:(nia) HM F) as (G1 & G2 & G3).
  subst s0. unfold init_r. cbn [fst demands]. split; [|split; [exact G2|split; [|reflexivity]]].
  - apply init_Inv_gen; auto; try lia; try (intro i; apply G2).
  - unfold obj. cbn [vdist vpen].
    assert (Z0 : forall k, zsum (repeat 0 k) = 0) by (induction k; cbn; lia). rewrite !Z0. reflexivity.
Qed.

(* ---------- C12 / C01 ---------- *)
Theorem C12_observation n V mc d0 s H : 0 <= n -> Inv n V mc d0 s H ->
  observe s = (demands s, pos s, ltime s, cap s, create_mask (demands s) (cap s)).
Proof.
  intros Hn (I1 & I2 & I3 & I4 & I5 & I6 & I7 & I8 & I9 & I10 & I11 & I12 & I13 & I14).
  unfold observe. rewrite I14. repeat f_equal.
  assert (R : Forall (fun a => 0 <= a <= n) (pos s)).
  { rewrite I12. destruct H as [|row H]; cbn [hd].
    - rewrite Forall_forall. intros x Hx. apply repeat_spec in Hx. lia.
    - cbn [concat] in I11. apply Forall_app in I11 as [I11 _]. exact I11. }
  rewrite I2. clear -R. induction R as [|x l Hx Hl IH]; cbn [map]; [reflexivity|].
  rewrite IH. rewrite jclamp_id by lia. reflexivity.
Qed.

Theorem C01_ranges n V mc d0 s H : Inv n V mc d0 s H -> (forall i, znth 0 d0 i <= mc) ->
  (forall i, 0 <= i <= n -> 0 <= znth 0 (demands s) i <= mc) /\ (forall v, 0 <= v < V -> 0 <= znth 0 (cap s) v <= mc)
  /\ zlen (demands s) = n + 1 /\ zlen (cap s) = V /\ zlen (pos s) = V.
Proof.
  intros (I1 & I2 & I3 & I4 & I5 & I6 & I7 & I8 & I9 & _) B. repeat split; auto.
  - rewrite I5 by lia. destruct (mem (concat H) i); [lia | apply I4].
  - rewrite I5 by lia. destruct (mem (concat H) i); [specialize (B 0); specialize (I4 0); lia | apply B].
  - destruct (I9 v H0); lia.
  - destruct (I9 v H0) as [E _]. pose proof (load_nonneg d0 (route H v) I4). lia.
Qed.

(* ---------- the boolean checker run on implementation states is sound ---------- *)
Lemma nodup_b_NoDup l : nodup_b l = true -> NoDup l.
Proof.
  induction l as [|x l IH]; cbn [nodup_b]; intro H; constructor; apply andb_true_iff in H as [H1 H2].
  - intro I. apply mem_In in I. rewrite I in H1. discriminate.
  - apply IH. exact H2.
Qed.

Lemma forallb_zrange (f : Z -> bool) k : forallb f (zrange k) = true -> forall i, 0 <= i < k -> f i = true.
Proof. intros H i Hi. rewrite forallb_forall in H. apply H. apply in_zrange. exact Hi. Qed.

Theorem Inv_b_sound n V mc d0 s H : Inv_b n V mc d0 s H = true -> Inv n V mc d0 s H.
Proof.
  unfold Inv_b. rewrite !andb_true_iff.
  intros (((((((((((((B1 & B2) & B3) & B4) & B5) & B6) & B7) & B8) & B9) & B10) & B11) & B12) & B13) & B14).
  unfold Inv. split; [lia|]. split; [lia|]. split; [lia|].
  assert (NN : forall i, 0 <= znth 0 d0 i).
  { intro i. destruct (Z_lt_le_dec i 0); [unfold znth; replace (i <? 0) with true by lia; lia|].
    destruct (Z_lt_le_dec i (zlen d0)); [|rewrite znth_oob by lia; lia].
    rewrite forallb_forall in B4. specialize (B4 _ (znth_In d0 i ltac:(lia))). lia. }
  split; [exact NN|]. split.
  { intros i Hi. pose proof (forallb_zrange _ _ B5 i ltac:(lia)) as E. cbn beta in E. lia. }
  split; [lia|]. split; [lia|]. split.
  { rewrite Forall_forall. intros row Hr. rewrite forallb_forall in B8. specialize (B8 row Hr). lia. }
  split.
  { intros v Hv. pose proof (forallb_zrange _ _ B9 v Hv) as E. cbn beta in E. lia. }
  split; [apply nodup_b_NoDup; exact B10|]. split.
  { rewrite Forall_forall. intros a Ha. rewrite forallb_forall in B11. specialize (B11 a Ha). lia. }
  split; [apply (list_eqb_eq Z.eqb Z.eqb_eq); exact B12|]. split; [lia|].
  apply (list_eqb_eq (list_eqb Bool.eqb)); [|exact B14].
  apply list_eqb_eq. intros x y. apply Bool.eqb_true_iff.
Qed.

Theorem Feasible_b_sound n V mc d0 s : Feasible_b n V mc d0 s = true -> Inv n V mc d0 s (hist_of s).
Proof. apply Inv_b_sound. Qed.

(* ---------- refutations (faithful model, concrete witnesses) ---------- *)
Definition dlin (i j : Z) : Z := 10 * Z.abs (i - j).
Definition st0 (dem : list Z) (V mc n : Z) : state :=
  let z := repeat 0 (Z.to_nat V) in let caps := repeat mc (Z.to_nat V) in let zn := repeat 0 (Z.to_nat (n + 1)) in
  mkS dem (mkI zn zn zn zn) z caps z z z (repeat (repeat 0 (Z.to_nat (2 * n))) (Z.to_nat V)) 1 (create_mask dem caps).

(* ---------- C01: every in-spec joint action is handled ---------- *)
Lemma in_spec_b_spec n V acts : in_spec_b n V acts = true <-> in_spec n V acts.
Proof.
  unfold in_spec_b, in_spec. rewrite andb_true_iff, forallb_forall, Forall_forall. split.
  - intros [L F]. split; [lia|]. intros a Ha. specialize (F a Ha). lia.
  - intros [L F]. split; [lia|]. intros a Ha. specialize (F a Ha). lia.
Qed.

(* in-spec = one node index 0..n per vehicle; the step keeps the invariant and moves every vehicle to a node 0..n *)
Theorem C01_in_spec_handled rnd n V mc dist d0 s H acts : n < 32768 -> 0 <= mc -> Inv n V mc d0 s H -> in_spec n V acts ->
  let s' := update rnd mc dist s acts in
  Inv n V mc d0 s' (next_nodes s acts :: H) /\ zlen (pos s') = V /\ Forall (fun a => 0 <= a <= n) (pos s').
Proof.
  intros Hn Hmc I [La Ra] s'. unfold action_spec_max in Ra.
  pose proof (step_Inv rnd n V mc dist d0 s H acts Hn Hmc I La Ra) as I'. split; [exact I'|].
  destruct I as (I1 & I2 & I3 & I4 & I5 & I6 & _). subst s'. rewrite upd_pos. split.
  - apply (nn_len V s acts I6 La).
  - apply (nn_range n V s acts Hn I2 I6 La Ra).
Qed.

(* generate_value() = all zeros is in-spec *)
Lemma generate_value_in_spec n V : 0 <= n -> 0 <= V -> in_spec n V (repeat 0 (Z.to_nat V)).
Proof.
  intros Hn HV. split; [rewrite zlen_repeat; lia|]. rewrite Forall_forall. intros a Ha. apply repeat_spec in Ha.
  unfold action_spec_max. lia.
Qed.

(* the bound is tight: the OUT-of-spec index num_customers+1 (allowed by the spec before the fix bb8f8cd9) is not handled.
   Two customers, two vehicles of capacity 5, demands 2 and 3: the joint move [2; 3] makes BOTH vehicles pay customer 2's
   demand, puts the second one on node 3 (which does not exist) and no history explains the successor state *)
Theorem action_spec_max_tight :
  exists (s : state) (acts : list Z), Inv 2 2 5 [0; 2; 3] s [] /\ Forall (fun a => 0 <= a <= action_spec_max 2 + 1) acts
  /\ in_spec_b 2 2 acts = false
  /\ let s' := update rid 5 dlin s acts in
     pos s' = [2; 3] /\ cap s' = [2; 2] /\ demands s' = [0; 2; 0]
     /\ ~ (exists H', Inv 2 2 5 [0; 2; 3] s' H').
Proof.
  exists (st0 [0; 2; 3] 2 5 2), [2; 3]. split; [|split; [|split]].
  - apply Inv_b_sound. vm_compute. reflexivity.
  - unfold action_spec_max. repeat constructor; lia.
  - vm_compute. reflexivity.
  - cbv zeta. split; [vm_compute; reflexivity|]. split; [vm_compute; reflexivity|]. split; [vm_compute; reflexivity|].
    intros (H' & I). destruct I as (_ & _ & _ & _ & _ & _ & _ & _ & _ & _ & I11 & I12 & I13 & _).
    assert (P : pos (update rid 5 dlin (st0 [0; 2; 3] 2 5 2) [2; 3]) = [2; 3]) by (vm_compute; reflexivity).
    rewrite P in I12. destruct H' as [|row H']; cbn [hd] in I12; [vm_compute in I12; discriminate|].
    subst row. cbn [concat] in I11. inversion I11 as [|? ? _ I11']; subst. inversion I11' as [|? ? X _]; subst. lia.
Qed.

(* the reward at the step limit.  One customer (demand 1) at distance 10, one vehicle: serve it, drive home - the tour is
   complete exactly on step 2n = 2.  Objective: 20 driven.  Sparse return 0, dense return -10. *)
Theorem limit_reward_refuted :
  let s0 := st0 [0; 1] 1 1 1 in
  let al := [[1]; [0]] in
  let d := run rid false 1 1 dlin s0 al in let sp := run rid true 1 1 dlin s0 al in
  Inv 1 1 1 [0; 1] s0 [] /\ all_legal_b 1 s0 [1] = true /\ all_legal_b 1 (fst (nth 0 d dflt)) [0] = true
  /\ map (fun p => st (snd p)) d = [MID; LAST] /\ complete (final s0 d) = true
  /\ obj (final s0 d) = 20 * cs /\ ret sp = 0 /\ ret d = - (10 * cs).
Proof.
  cbv zeta. split; [apply Inv_b_sound; vm_compute; reflexivity|].
  vm_compute. repeat split; reflexivity.
Qed.

(* ---------- C09: the code's sanitise-and-deduplicate is the published rule ---------- *)
Lemma list_ext_z (a b : list Z) : zlen a = zlen b -> (forall i, 0 <= i < zlen a -> znth 0 a i = znth 0 b i) -> a = b.
Proof.
  intros L E. apply (nth_ext _ _ 0 0); [unfold zlen in L; lia|].
  intros k Hk. specialize (E (Z.of_nat k) ltac:(unfold zlen; lia)). rewrite !znth_nth in E by lia.
  rewrite Nat2Z.id in E. exact E.
Qed.

Lemma znth_zrange k i : 0 <= i < k -> znth 0 (zrange k) i = i.
Proof. intro H. rewrite znth_nth by lia. unfold zrange. rewrite zrange_from_nth by lia. lia. Qed.

Lemma zlen_zrange k : 0 <= k -> zlen (zrange k) = k.
Proof. intro H. unfold zlen, zrange. rewrite zrange_from_length. lia. Qed.

Theorem C09_next_is_rules n V s acts : n < 32768 -> zlen (demands s) = n + 1 -> zlen (cap s) = V -> zlen acts = V ->
  Forall (fun a => 0 <= a <= n) acts -> next_nodes s acts = rules_next n s acts.
Proof.
  intros Hn Ld Lc La Ra. rewrite next_nodes_sans. unfold rules_next. f_equal.
  pose proof (zlen_nonneg (cap s)) as NV. rewrite Lc.
  apply list_ext_z.
  - rewrite (sans_len V s acts Lc La), zlen_map, zlen_zrange; lia.
  - intros i Hi. rewrite (sans_len V s acts Lc La) in Hi.
    rewrite (sans_znth n V s acts Hn Ld Lc La Ra i Hi).
    rewrite (znth_map _ 0 0) by (rewrite zlen_zrange; lia). rewrite znth_zrange by lia. reflexivity.
Qed.
