(* PacMan: basic facts about the model (field projections of step, protocol, clock, observation). *)
Require Import JV.Base.Prelude JV.Base.JaxIndex JV.Base.Codec JV.Base.TimeStep JV.Gen.PacManConsts JV.Model.PacMan.

(* the wrap moduli read from the source: rows wrap by the number of rows, columns by the number of columns *)
Lemma xmod_is xs ys : xmod xs ys = xs. Proof. reflexivity. Qed.
Lemma ymod_is xs ys : ymod xs ys = ys. Proof. reflexivity. Qed.

Lemma clamp04_range a : 0 <= clamp04 a <= 4. Proof. unfold clamp04; lia. Qed.
Lemma clamp04_id a : 0 <= a <= 4 -> clamp04 a = a. Proof. unfold clamp04; lia. Qed.
Lemma clamp04_idem a : clamp04 (clamp04 a) = clamp04 a. Proof. unfold clamp04; lia. Qed.

Lemma player_step_eq xs ys x y a :
  player_step xs ys x y a 1 = ((x + dx (clamp04 a)) mod xs, (y + dy (clamp04 a)) mod ys).
Proof.
  unfold player_step. rewrite xmod_is, ymod_is. pose proof (clamp04_range a) as R.
  unfold dx, dy.
  destruct (clamp04 a =? 0) eqn:E0; [replace (clamp04 a) with 0 by lia; cbn; f_equal; f_equal; lia|].
  destruct (clamp04 a =? 1) eqn:E1; [replace (clamp04 a) with 1 by lia; cbn; f_equal; f_equal; lia|].
  destruct (clamp04 a =? 2) eqn:E2; [replace (clamp04 a) with 2 by lia; cbn; f_equal; f_equal; lia|].
  destruct (clamp04 a =? 3) eqn:E3; [replace (clamp04 a) with 3 by lia; cbn; f_equal; f_equal; lia|].
  f_equal; f_equal; lia.
Qed.

(* the player's next cell *)
Definition nxy (xs ys : Z) (s : state) (a : Z) : Z * Z :=
  check_wall (grid s) (px s) (py s) (fst (player_step xs ys (px s) (py s) a 1)) (snd (player_step xs ys (px s) (py s) a 1)).
Definition paths (xs ys : Z) (s : state) (d : list Z) : list pos :=
  map (fun i => ghost_path xs ys (fst (gpos (ghosts s) i)) (snd (gpos (ghosts s) i)) (znth 0 (g_starts s) i) (znth 0 d i)) idx4.
Definition cols (xs ys : Z) (s : state) (a : Z) (d : list Z) : list (pos * bool * Z * bool) :=
  map (fun i => ghost_col (fright s) (px s) (py s) (fst (nxy xs ys s a)) (snd (nxy xs ys s a)) (gpos (paths xs ys s d) i)
                          (gpos (old_ghosts s) i) (gpos (init_ghosts s) i) (znth false (g_eaten s) i)) idx4.
Definition died (xs ys : Z) (s : state) (a : Z) (d : list Z) : bool := existsb (fun q => snd (fst (fst q))) (cols xs ys s a d).
Definition ghost_rew (xs ys : Z) (s : state) (a : Z) (d : list Z) : Z := zsum (map (fun q => snd (fst q)) (cols xs ys s a d)).
Definition ate (xs ys : Z) (s : state) (a : Z) : bool := existsb (hit (fst (nxy xs ys s a)) (snd (nxy xs ys s a))) (pellet_locs s).
Definition eat (xs ys : Z) (s : state) (a : Z) : bool := existsb (hit (fst (nxy xs ys s a)) (snd (nxy xs ys s a))) (pu_locs s).
Definition rew (xs ys : Z) (s : state) (a : Z) (d : list Z) : Z :=
  PELLET_REWARD * b2z (ate xs ys s a) + POWER_UP_REWARD * b2z (eat xs ys s a) + ghost_rew xs ys s a d.
Definition done (xs ys T : Z) (s : state) (a : Z) (d : list Z) : bool :=
  (T <=? sc s + 1) || died xs ys s a d || (pellets s - b2z (ate xs ys s a) =? 0).

(* step written with projections instead of pattern-matching lets *)
Lemma step_eq xs ys T s a d :
  step xs ys T s a d =
  (mkS (grid s) (pellets s - b2z (ate xs ys s a)) (if eat xs ys s a then FRIGHT_TIME else fright s - 1)
       (wipe (fst (nxy xs ys s a)) (snd (nxy xs ys s a)) (pellet_locs s))
       (wipe (fst (nxy xs ys s a)) (snd (nxy xs ys s a)) (pu_locs s))
       (fst (nxy xs ys s a)) (snd (nxy xs ys s a))
       (map (fun q => fst (fst (fst q))) (cols xs ys s a d))
       (init_ghosts s) (init_targets s) (ghosts s) (map (fun v => v - 1) (g_init_steps s))
       (map (fun i => znth 0 d i) idx4) a (died xs ys s a d) (map (fun v => v - 1) (g_starts s)) (scatter s) (sc s + 1)
       (map (fun q => snd q) (cols xs ys s a d)) (score s + rew xs ys s a d),
   cond_done 1 (done xs ys T s a d) [rew xs ys s a d]).
Proof.
  unfold step, done, rew, ghost_rew, died, ate, eat, cols, paths, nxy.
  destruct (player_step xs ys (px s) (py s) a 1) as [nx0 ny0]. cbn [fst snd].
  destruct (check_wall (grid s) (px s) (py s) nx0 ny0) as [nx ny]. cbn [fst snd].
  reflexivity.
Qed.

(* ---------- C03 ---------- *)
Theorem step_protocol xs ys T s a d : step_ok 1 false (snd (step xs ys T s a d)) = true.
Proof. rewrite step_eq. cbn [snd]. unfold cond_done. destruct (done xs ys T s a d); reflexivity. Qed.
Theorem init_protocol maze : first_ok 1 (snd (init maze)) = true.
Proof. reflexivity. Qed.

(* ---------- C11 ---------- *)
Lemma step_sc xs ys T s a d : sc (fst (step xs ys T s a d)) = sc s + 1.
Proof. rewrite step_eq. reflexivity. Qed.
Lemma step_dead xs ys T s a d : dead (fst (step xs ys T s a d)) = died xs ys s a d.
Proof. rewrite step_eq. reflexivity. Qed.
Lemma step_pellets xs ys T s a d : pellets (fst (step xs ys T s a d)) = pellets s - b2z (ate xs ys s a).
Proof. rewrite step_eq. reflexivity. Qed.

(* a step is LAST exactly when the clock reaches the limit, the player was caught, or no pellet is left *)
Theorem last_iff xs ys T s a d :
  let s' := fst (step xs ys T s a d) in
  st (snd (step xs ys T s a d)) = LAST <-> (T <= sc s' \/ dead s' = true \/ pellets s' = 0).
Proof.
  cbn zeta. rewrite step_sc, step_dead, step_pellets. rewrite step_eq. cbn [snd]. unfold cond_done, done.
  destruct (T <=? sc s + 1) eqn:E1; destruct (died xs ys s a d) eqn:E2; destruct (pellets s - b2z (ate xs ys s a) =? 0) eqn:E3;
    cbn [orb st termination transition]; unfold LAST, MID; split; intro H; try lia; try reflexivity; try discriminate;
    try (left; lia); try (right; left; reflexivity); try (right; right; lia).
Qed.

Fixpoint run (xs ys T : Z) (s : state) (acts : list (Z * list Z)) : state :=
  match acts with [] => s | (a, d) :: r => run xs ys T (fst (step xs ys T s a d)) r end.
Lemma run_sc xs ys T acts : forall s, sc (run xs ys T s acts) = sc s + zlen acts.
Proof.
  induction acts as [|[a d] r IH]; intro s; cbn [run].
  - unfold zlen; cbn; lia.
  - rewrite IH, step_sc, zlen_cons. lia.
Qed.
(* from reset (clock 0): step number T is LAST; an earlier LAST has another cause; no MID at or after step T *)
Theorem episode_limit xs ys T s0 acts a d :
  sc s0 = 0 ->
  let s := run xs ys T s0 acts in
  let n := zlen acts in
  let t := snd (step xs ys T s a d) in
  let s' := fst (step xs ys T s a d) in
  (T <= n + 1 -> st t = LAST) /\
  (n + 1 < T -> st t = LAST -> dead s' = true \/ pellets s' = 0).
Proof.
  intros H0. cbn zeta. pose proof (run_sc xs ys T acts s0) as R.
  pose proof (last_iff xs ys T (run xs ys T s0 acts) a d) as L. cbn zeta in L. rewrite step_sc in L.
  split.
  - intro H. apply L. left. lia.
  - intros H H1. apply L in H1. destruct H1 as [H1 | H1]; [lia | exact H1].
Qed.
Lemma resolve_limit_default : resolve_limit 0 = 1000. Proof. reflexivity. Qed.
Lemma resolve_limit_given t : t <> 0 -> resolve_limit t = t.
Proof. intro H. unfold resolve_limit. destruct (t =? 0) eqn:E; [lia | reflexivity]. Qed.

(* ---------- C12 ---------- *)
Theorem observe_view s :
  observe s = concat (grid s) ++ [px s; py s] ++ enc_pos (ghosts s) ++ enc_pos (pu_locs s) ++ [fright s]
              ++ enc_pos (pellet_locs s) ++ unbools (compute_mask (grid s) (px s) (py s)) ++ [score s].
Proof. reflexivity. Qed.
