(* PacMan: pellet / power-up / ghost / score bookkeeping.
   [Book]: the maze passes maze_ok_b, the player stands on a free cell, the pellet counter is the number of live
   (not yet wiped) pellet entries, live pellets and live power-ups are pairwise distinct, four ghost_eaten flags.
   It holds at reset and is preserved by EVERY action and EVERY ghost draw (permitted or not); along the way the
   quantity  score + 10 * pellets + 50 * live power-ups + 200 * ghosts not yet eaten  is conserved, which gives the
   C08 statement: the return of an episode is the score recomputed from the final state. *)
Require Import JV.Base.Prelude JV.Base.JaxIndex JV.Base.Codec JV.Base.TimeStep JV.Gen.PacManConsts JV.Model.PacMan JV.Proofs.PacMan JV.Proofs.PacMan_Inv.

(* ---------- lists of positions ---------- *)
Definition same_b (p q : pos) : bool := (fst p =? fst q) && (snd p =? snd q).
Lemma nodup_cons p l : nodup_b (p :: l) = negb (existsb (same_b p) l) && nodup_b l.
Proof. reflexivity. Qed.
Lemma live_cons p l : live (p :: l) = if is_zp p then live l else p :: live l.
Proof. unfold live. cbn [filter]. destruct (is_zp p); reflexivity. Qed.

Lemma is_zp_nohit x y p : hit x y zp = false -> is_zp p = true -> hit x y p = false.
Proof.
  unfold hit, is_zp, zp. cbn [fst snd]. intros H Z.
  assert (fst p = 0) as E1 by lia. assert (snd p = 0) as E2 by lia. rewrite E1, E2. exact H.
Qed.

Lemma live_wipe x y l : hit x y zp = false ->
  live (wipe x y l) = filter (fun p => negb (hit x y p)) (live l).
Proof.
  intro Z0. induction l as [|p l IH]; [reflexivity|].
  unfold wipe. cbn [map]. fold (wipe x y l). rewrite !live_cons.
  destruct (hit x y p) eqn:H.
  - assert (is_zp p = false) as NZ.
    { destruct (is_zp p) eqn:E; [|reflexivity]. rewrite (is_zp_nohit x y p Z0 E) in H. discriminate. }
    rewrite NZ. cbn [filter]. rewrite H. cbn [negb]. change (is_zp zp) with true. cbv iota. exact IH.
  - destruct (is_zp p) eqn:E; [exact IH|]. cbn [filter]. rewrite H. cbn [negb]. f_equal. exact IH.
Qed.

Lemma existsb_live x y l : hit x y zp = false -> existsb (hit x y) (live l) = existsb (hit x y) l.
Proof.
  intro Z0. induction l as [|p l IH]; [reflexivity|]. rewrite live_cons. cbn [existsb].
  destruct (is_zp p) eqn:E.
  - rewrite (is_zp_nohit x y p Z0 E). cbn [orb]. exact IH.
  - cbn [existsb]. rewrite IH. reflexivity.
Qed.

Lemma existsb_filter_false {A} (f g : A -> bool) l : existsb f l = false -> existsb f (filter g l) = false.
Proof.
  induction l as [|p l IH]; cbn [existsb filter]; intro H; [reflexivity|].
  apply orb_false_iff in H as [H1 H2]. destruct (g p); cbn [existsb]; [rewrite H1|]; auto.
Qed.
Lemma nodup_filter f l : nodup_b l = true -> nodup_b (filter f l) = true.
Proof.
  induction l as [|p l IH]; [reflexivity|]. rewrite nodup_cons. intro H. apply andb_true_iff in H as [H1 H2].
  cbn [filter]. destruct (f p); [|auto]. rewrite nodup_cons. rewrite (IH H2), andb_true_r.
  apply negb_true_iff in H1. rewrite (existsb_filter_false _ f l H1). reflexivity.
Qed.

Lemma hit_same x y p l : hit x y p = true -> existsb (same_b p) l = false -> existsb (hit x y) l = false.
Proof.
  intros H. induction l as [|q l IH]; cbn [existsb]; intro E; [reflexivity|].
  apply orb_false_iff in E as [E1 E2]. rewrite (IH E2), orb_false_r.
  unfold hit in *. unfold same_b in E1. lia.
Qed.

Lemma count_filter_hit x y l : nodup_b l = true ->
  zlen (filter (fun p => negb (hit x y p)) l) = zlen l - b2z (existsb (hit x y) l).
Proof.
  induction l as [|p l IH]; [reflexivity|]. rewrite nodup_cons. intro H. apply andb_true_iff in H as [H1 H2].
  apply negb_true_iff in H1. specialize (IH H2). cbn [filter existsb]. destruct (hit x y p) eqn:E; cbn [negb orb].
  - rewrite IH, (hit_same x y p l E H1), zlen_cons. cbn [b2z]. lia.
  - rewrite !zlen_cons, IH. lia.
Qed.

(* wiping the entries under the player keeps the live entries distinct and removes exactly one when one is hit *)
Lemma wipe_book x y l : hit x y zp = false -> nodup_b (live l) = true ->
  nodup_b (live (wipe x y l)) = true /\ zlen (live (wipe x y l)) = zlen (live l) - b2z (existsb (hit x y) l).
Proof.
  intros Z0 N. rewrite (live_wipe x y l Z0). split.
  - apply nodup_filter; exact N.
  - rewrite (count_filter_hit x y _ N), (existsb_live x y l Z0). reflexivity.
Qed.

(* ---------- ghosts: 200 per ghost whose edible flag is consumed ---------- *)
Definition cnt (l : list bool) : Z := zsum (map b2z l).
Lemma ghost_col_pay fr x y nx ny gp og2 og e :
  snd (fst (ghost_col fr x y nx ny gp og2 og e)) = 200 * (b2z e - b2z (snd (ghost_col fr x y nx ny gp og2 og e))).
Proof.
  unfold ghost_col. destruct (ghost_cond x y nx ny gp og2); destruct (0 <? fr); destruct e; reflexivity.
Qed.
Lemma cnt4 l : length l = 4%nat ->
  cnt l = b2z (znth false l 0) + b2z (znth false l 1) + b2z (znth false l 2) + b2z (znth false l 3).
Proof.
  intro H. destruct l as [|e0 [|e1 [|e2 [|e3 [|]]]]]; try discriminate. unfold cnt. cbn [map zsum].
  change (znth false [e0; e1; e2; e3] 0) with e0. change (znth false [e0; e1; e2; e3] 1) with e1.
  change (znth false [e0; e1; e2; e3] 2) with e2. change (znth false [e0; e1; e2; e3] 3) with e3. lia.
Qed.
Lemma ghost_rew_cnt xs ys s a d : length (g_eaten s) = 4%nat ->
  ghost_rew xs ys s a d = 200 * (cnt (g_eaten s) - cnt (map (fun q => snd q) (cols xs ys s a d))).
Proof.
  intro L. rewrite (cnt4 _ L). unfold ghost_rew, cols, cnt, idx4. cbn [map zsum]. rewrite !ghost_col_pay. lia.
Qed.

(* ---------- the invariant ---------- *)
Definition Book (xs ys : Z) (s : state) : Prop :=
  maze_ok_b xs ys (grid s) = true /\ free xs ys (grid s) (px s) (py s)
  /\ pellets_ok_b s = true /\ nodup_b (live (pu_locs s)) = true /\ length (g_eaten s) = 4%nat.

(* what the code pays, recomputed from a state: 10 per pellet gone, 50 per power-up gone, 200 per ghost eaten *)
Definition potential (s : state) : Z :=
  score s + 10 * pellets s + 50 * zlen (live (pu_locs s)) + 200 * cnt (g_eaten s).

Lemma nxy_hit_zp xs ys s a :
  maze_ok_b xs ys (grid s) = true -> free xs ys (grid s) (px s) (py s) ->
  hit (fst (nxy xs ys s a)) (snd (nxy xs ys s a)) zp = false.
Proof.
  intros M F. pose proof (nxy_free xs ys s a (maze_ok_wf _ _ _ M) F) as (R & C & G).
  pose proof (maze_ok_origin _ _ _ M) as O.
  unfold hit, zp. cbn [fst snd].
  destruct (0 =? snd (nxy xs ys s a)) eqn:E1; destruct (0 =? fst (nxy xs ys s a)) eqn:E2; try reflexivity.
  exfalso. apply O. assert (fst (nxy xs ys s a) = 0) as Q1 by lia. assert (snd (nxy xs ys s a) = 0) as Q2 by lia.
  rewrite Q1, Q2 in G. exact G.
Qed.

Lemma pellets_ok_unpack s :
  pellets_ok_b s = true <-> pellets s = zlen (live (pellet_locs s)) /\ nodup_b (live (pellet_locs s)) = true.
Proof. unfold pellets_ok_b. rewrite andb_true_iff. split; intros [H1 H2]; split; try assumption; lia. Qed.

(* every action, every ghost draw *)
Theorem step_Book xs ys T s a d :
  Book xs ys s ->
  Book xs ys (fst (step xs ys T s a d)) /\ potential (fst (step xs ys T s a d)) = potential s.
Proof.
  intros (M & F & P & NU & LE). apply pellets_ok_unpack in P as [PC PN].
  pose proof (nxy_hit_zp xs ys s a M F) as Z0.
  destruct (wipe_book _ _ (pellet_locs s) Z0 PN) as [PN' PC'].
  destruct (wipe_book _ _ (pu_locs s) Z0 NU) as [NU' UC'].
  pose proof (ghost_rew_cnt xs ys s a d LE) as GR.
  rewrite step_eq. unfold Book, potential.
  cbn [fst grid px py pellets pellet_locs pu_locs g_eaten score].
  split; [split; [exact M|]; split; [apply nxy_free; [exact (maze_ok_wf _ _ _ M) | exact F]|]; split; [|split]|].
  - apply pellets_ok_unpack. cbn [pellets pellet_locs]. split; [|exact PN']. rewrite PC'. unfold ate. lia.
  - exact NU'.
  - rewrite map_length. unfold cols. rewrite map_length. reflexivity.
  - rewrite UC'. unfold rew, ate, eat, PELLET_REWARD, POWER_UP_REWARD. rewrite GR. unfold eat. lia.
Qed.

Theorem run_Book xs ys T acts : forall s,
  Book xs ys s -> Book xs ys (run xs ys T s acts) /\ potential (run xs ys T s acts) = potential s.
Proof.
  induction acts as [|[a d] r IH]; intros s B; cbn [run]; [split; [exact B | reflexivity]|].
  destruct (step_Book xs ys T s a d B) as [B' E']. destruct (IH _ B') as [B'' E'']. split; [exact B''|]. lia.
Qed.

(* the physical invariant implies the part of Book that does not concern counters *)
Lemma Inv_Book xs ys s :
  Inv xs ys s -> pellets_ok_b s = true -> nodup_b (live (pu_locs s)) = true -> Book xs ys s.
Proof.
  intros I P N. destruct (Inv_unpack xs ys s I) as (M & F & (_ & _ & _ & _ & _ & L6 & _) & _ & _).
  repeat split; try assumption; apply F.
Qed.
Theorem default_reset_Book : Book X_SIZE Y_SIZE (gen_state DEFAULT_MAZE_ASCII).
Proof. apply Inv_Book; [exact default_reset_Inv | vm_compute; reflexivity | vm_compute; reflexivity]. Qed.

(* ---------- C08: return = objective recomputed from the final state ---------- *)
(* the return: the sum of the rewards carried by the emitted timesteps *)
Fixpoint ret (xs ys T : Z) (s : state) (acts : list (Z * list Z)) : Z :=
  match acts with
  | [] => 0
  | (a, d) :: r => zsum (reward (snd (step xs ys T s a d))) + ret xs ys T (fst (step xs ys T s a d)) r
  end.

Lemma step_reward xs ys T s a d : reward (snd (step xs ys T s a d)) = [rew xs ys s a d].
Proof. rewrite step_eq. cbn [snd]. unfold cond_done. destruct (done xs ys T s a d); reflexivity. Qed.
Lemma step_score xs ys T s a d : score (fst (step xs ys T s a d)) = score s + rew xs ys s a d.
Proof. rewrite step_eq. reflexivity. Qed.

(* the score field accumulates the rewards (any state, any actions, any draws) *)
Theorem ret_score xs ys T acts : forall s, ret xs ys T s acts = score (run xs ys T s acts) - score s.
Proof.
  induction acts as [|[a d] r IH]; intro s; cbn [ret run]; [lia|].
  rewrite IH, step_reward, step_score. cbn [zsum]. lia.
Qed.

Theorem return_is_objective xs ys T acts s :
  Book xs ys s ->
  let f := run xs ys T s acts in
  ret xs ys T s acts
  = 10 * (pellets s - pellets f) + 50 * (zlen (live (pu_locs s)) - zlen (live (pu_locs f)))
    + 200 * (cnt (g_eaten s) - cnt (g_eaten f))
  /\ pellets f = zlen (live (pellet_locs f)) /\ pellets s = zlen (live (pellet_locs s)).
Proof.
  intros B. cbn zeta. destruct (run_Book xs ys T acts s B) as [(_ & _ & P' & _) E].
  destruct B as (_ & _ & P & _). apply pellets_ok_unpack in P as [P _]. apply pellets_ok_unpack in P' as [P' _].
  rewrite ret_score. unfold potential in E. split; [lia|]. split; assumption.
Qed.

(* from the reset of the default maze: 318 pellets, 4 power-ups, 4 edible ghosts *)
Theorem default_return xs ys T acts :
  xs = X_SIZE -> ys = Y_SIZE ->
  let f := run xs ys T (gen_state DEFAULT_MAZE_ASCII) acts in
  ret xs ys T (gen_state DEFAULT_MAZE_ASCII) acts
  = 10 * (318 - zlen (live (pellet_locs f))) + 50 * (4 - zlen (live (pu_locs f))) + 200 * (4 - cnt (g_eaten f))
  /\ score f = ret xs ys T (gen_state DEFAULT_MAZE_ASCII) acts.
Proof.
  intros -> ->. cbn zeta.
  destruct (return_is_objective X_SIZE Y_SIZE T acts _ default_reset_Book) as (E & P & _). cbn zeta in E, P.
  rewrite <- P. split.
  - rewrite E. f_equal. 
  - rewrite ret_score. change (score (gen_state DEFAULT_MAZE_ASCII)) with 0. lia.
Qed.

(* ---------- LAST iff no pellet is left on the map, or dead, or time limit ---------- *)
Lemma live_nil_len (l : list pos) : zlen (live l) = 0 <-> live l = [].
Proof. destruct (live l); [split; reflexivity|]. rewrite zlen_cons. pose proof (zlen_nonneg l0). split; [lia | discriminate]. Qed.

Theorem last_iff_board xs ys T s a d :
  Book xs ys s ->
  let s' := fst (step xs ys T s a d) in
  st (snd (step xs ys T s a d)) = LAST <-> (T <= sc s' \/ dead s' = true \/ live (pellet_locs s') = []).
Proof.
  intro B. cbn zeta. destruct (step_Book xs ys T s a d B) as [(_ & _ & P' & _) _].
  apply pellets_ok_unpack in P' as [P' _]. rewrite <- live_nil_len, <- P'. exact (last_iff xs ys T s a d).
Qed.

(* ---------- the pellets eaten are exactly those on the cells the player has been on ---------- *)
Fixpoint trail (xs ys T : Z) (s : state) (acts : list (Z * list Z)) : list (Z * Z) :=
  match acts with
  | [] => []
  | (a, d) :: r => nxy xs ys s a :: trail xs ys T (fst (step xs ys T s a d)) r
  end.
Definition visited (tr : list (Z * Z)) (p : pos) : bool := existsb (fun v => hit (fst v) (snd v) p) tr.

Lemma filter_filter {A} (f g : A -> bool) l : filter f (filter g l) = filter (fun x => g x && f x) l.
Proof.
  induction l as [|x l IH]; [reflexivity|]. cbn [filter]. destruct (g x); cbn [filter andb]; [destruct (f x)|]; rewrite IH; reflexivity.
Qed.
Lemma filter_ext' {A} (f g : A -> bool) l : (forall x, f x = g x) -> filter f l = filter g l.
Proof. intro H. induction l as [|x l IH]; [reflexivity|]. cbn [filter]. rewrite H, IH. reflexivity. Qed.

Lemma step_px xs ys T s a d : (px (fst (step xs ys T s a d)), py (fst (step xs ys T s a d))) = nxy xs ys s a.
Proof. rewrite step_eq. cbn [fst px py]. destruct (nxy xs ys s a); reflexivity. Qed.
Lemma step_grid xs ys T s a d : grid (fst (step xs ys T s a d)) = grid s.
Proof. rewrite step_eq. reflexivity. Qed.
Lemma run_grid xs ys T acts : forall s, grid (run xs ys T s acts) = grid s.
Proof. induction acts as [|[a d] r IH]; intro s; cbn [run]; [reflexivity|]. rewrite IH. apply step_grid. Qed.

Theorem run_pellets xs ys T acts : forall s,
  Book xs ys s ->
  live (pellet_locs (run xs ys T s acts))
  = filter (fun p => negb (visited (trail xs ys T s acts) p)) (live (pellet_locs s))
  /\ live (pu_locs (run xs ys T s acts))
  = filter (fun p => negb (visited (trail xs ys T s acts) p)) (live (pu_locs s))
  /\ Forall (fun v => free xs ys (grid s) (fst v) (snd v)) (trail xs ys T s acts).
Proof.
  induction acts as [|[a d] r IH]; intros s B; cbn [run trail].
  - unfold visited. cbn [existsb negb]. repeat split; [| |constructor];
      (induction (live _) as [|x l IHl]; [reflexivity|]; cbn [filter]; f_equal; exact IHl).
  - destruct (step_Book xs ys T s a d B) as [B' _]. destruct (IH _ B') as (E1 & E2 & E3).
    destruct B as (M & F & _).
    pose proof (nxy_hit_zp xs ys s a M F) as Z0.
    rewrite E1, E2. rewrite step_grid in E3.
    assert (pellet_locs (fst (step xs ys T s a d)) = wipe (fst (nxy xs ys s a)) (snd (nxy xs ys s a)) (pellet_locs s)) as W1
      by (rewrite step_eq; reflexivity).
    assert (pu_locs (fst (step xs ys T s a d)) = wipe (fst (nxy xs ys s a)) (snd (nxy xs ys s a)) (pu_locs s)) as W2
      by (rewrite step_eq; reflexivity).
    rewrite W1, W2, !live_wipe by exact Z0. rewrite !filter_filter.
    split; [|split].
    + apply filter_ext'. intro p. unfold visited. cbn [existsb]. rewrite negb_orb. reflexivity.
    + apply filter_ext'. intro p. unfold visited. cbn [existsb]. rewrite negb_orb. reflexivity.
    + constructor; [|exact E3]. apply nxy_free; [exact (maze_ok_wf _ _ _ M) | exact F].
Qed.

(* default maze: at reset there is one pellet on every free cell and nowhere else *)
Lemma default_pellets_cover :
  live (pellet_locs (gen_state DEFAULT_MAZE_ASCII)) = pellet_locs (gen_state DEFAULT_MAZE_ASCII)
  /\ forallb (fun r => forallb (fun c => Bool.eqb (free_b X_SIZE Y_SIZE MAZE r c)
                                            (existsb (same_b (c, r)) (pellet_locs (gen_state DEFAULT_MAZE_ASCII))))
                               (zrange Y_SIZE)) (zrange X_SIZE) = true
  /\ forallb (fun p => free_b X_SIZE Y_SIZE MAZE (snd p) (fst p)) (pellet_locs (gen_state DEFAULT_MAZE_ASCII)) = true.
Proof. vm_compute. repeat split; reflexivity. Qed.

Lemma existsb_same_In p l : existsb (same_b p) l = true <-> In p l.
Proof.
  rewrite existsb_exists. split.
  - intros [q [I E]]. unfold same_b in E. destruct p, q. cbn [fst snd] in E.
    assert (z = z1) by lia. assert (z0 = z2) by lia. subst. exact I.
  - intro I. exists p. split; [exact I|]. unfold same_b. lia.
Qed.

(* from the reset of the default maze, after ANY actions and ghost draws: the cell (row r, column c) still carries a
   pellet exactly when it is a free cell that the player has not been on since the reset *)
Theorem default_pellets_are_unvisited_cells T acts r c :
  let s0 := gen_state DEFAULT_MAZE_ASCII in
  In (c, r) (live (pellet_locs (run X_SIZE Y_SIZE T s0 acts)))
  <-> free X_SIZE Y_SIZE MAZE r c /\ visited (trail X_SIZE Y_SIZE T s0 acts) (c, r) = false.
Proof.
  cbn zeta. destruct (run_pellets X_SIZE Y_SIZE T acts _ default_reset_Book) as (E & _ & _).
  destruct default_pellets_cover as (L & C & P).
  rewrite E, L, filter_In, negb_true_iff. rewrite <- existsb_same_In.
  assert (free X_SIZE Y_SIZE MAZE r c <-> existsb (same_b (c, r)) (pellet_locs (gen_state DEFAULT_MAZE_ASCII)) = true) as Q.
  { rewrite <- free_b_spec. split; intro H.
    - pose proof H as H'. unfold free_b, inb in H'.
      rewrite forallb_forall in C. assert (In r (zrange X_SIZE)) as Ir by (apply in_zrange; lia).
      specialize (C r Ir). rewrite forallb_forall in C. assert (In c (zrange Y_SIZE)) as Ic by (apply in_zrange; lia).
      specialize (C c Ic). apply eqb_prop in C. rewrite <- C. exact H.
    - apply existsb_same_In in H. rewrite forallb_forall in P. exact (P (c, r) H). }
  split; intros [H1 H2]; (split; [apply Q; exact H1 | exact H2]).
Qed.

(* the counters after a step, spelled out *)
Theorem step_counters xs ys T s a d :
  Book xs ys s ->
  let s' := fst (step xs ys T s a d) in
  Book xs ys s' /\ pellets_ok_b s' = true /\ pellets s' = zlen (live (pellet_locs s')) /\ potential s' = potential s.
Proof.
  intro B. destruct (step_Book xs ys T s a d B) as [B' E]. cbn zeta. split; [exact B'|]. destruct B' as (_ & _ & P & _).
  split; [exact P|]. split; [exact (proj1 (proj1 (pellets_ok_unpack _) P)) | exact E].
Qed.

(* ---------- a cleared board: the maximal scores ---------- *)
Lemma filter_none {A} (f : A -> bool) l : (forall x, In x l -> f x = false) -> filter f l = [].
Proof.
  induction l as [|x l IH]; intro H; [reflexivity|]. cbn [filter]. rewrite (H x (or_introl eq_refl)). apply IH.
  intros y I. apply H. right. exact I.
Qed.
Lemma cnt_range l : length l = 4%nat -> 0 <= cnt l <= 4.
Proof. intro H. rewrite (cnt4 l H). destruct (znth false l 0), (znth false l 1), (znth false l 2), (znth false l 3); cbn [b2z]; lia. Qed.
Lemma default_pu_free :
  live (pu_locs (gen_state DEFAULT_MAZE_ASCII)) = pu_locs (gen_state DEFAULT_MAZE_ASCII)
  /\ forallb (fun p => free_b X_SIZE Y_SIZE MAZE (snd p) (fst p)) (pu_locs (gen_state DEFAULT_MAZE_ASCII)) = true.
Proof. vm_compute. split; reflexivity. Qed.

(* default maze: when no pellet is left (the board-cleared cause of LAST) every power-up is gone too and the return is
   10 * 318 + 50 * 4 + 200 per ghost eaten: between 3380 and 4180 *)
Theorem default_cleared_return T acts :
  let s0 := gen_state DEFAULT_MAZE_ASCII in
  let f := run X_SIZE Y_SIZE T s0 acts in
  live (pellet_locs f) = [] ->
  live (pu_locs f) = []
  /\ ret X_SIZE Y_SIZE T s0 acts = 3380 + 200 * (4 - cnt (g_eaten f))
  /\ 3380 <= ret X_SIZE Y_SIZE T s0 acts <= 4180.
Proof.
  cbn zeta. intro E.
  destruct (run_pellets X_SIZE Y_SIZE T acts _ default_reset_Book) as (_ & EU & _).
  destruct default_pu_free as [LU FU].
  assert (live (pu_locs (run X_SIZE Y_SIZE T (gen_state DEFAULT_MAZE_ASCII) acts)) = []) as U.
  { rewrite EU, LU. apply filter_none. intros [c r] I. apply negb_false_iff.
    destruct (visited (trail X_SIZE Y_SIZE T (gen_state DEFAULT_MAZE_ASCII) acts) (c, r)) eqn:V; [reflexivity|]. exfalso.
    rewrite forallb_forall in FU. specialize (FU _ I). cbn [fst snd] in FU. apply free_b_spec in FU.
    pose proof (proj2 (default_pellets_are_unvisited_cells T acts r c) (conj FU V)) as Q. cbn zeta in Q. rewrite E in Q. exact Q. }
  split; [exact U|].
  destruct (default_return X_SIZE Y_SIZE T acts eq_refl eq_refl) as [R _]. cbn zeta in R. rewrite E, U in R.
  destruct (run_Book X_SIZE Y_SIZE T acts _ default_reset_Book) as [(_ & _ & _ & _ & L4) _].
  pose proof (cnt_range _ L4) as C.
  change (zlen (@nil pos)) with 0 in R. split; lia.
Qed.
