(* PacMan: the exact choice set of ghost_move (Model/PacManGhost.v): declarative reading (argmin of the masked distances),
   it is never empty, it is contained in the superset ghost_draw_ok used by the physical invariant -- hence under the
   EXACT ghost behaviour ghosts never stand on walls and never leave the grid. *)
Require Import JV.Base.Prelude JV.Base.JaxIndex JV.Base.Codec JV.Base.TimeStep JV.Gen.PacManConsts JV.Model.PacMan JV.Model.PacManGhost JV.Proofs.PacMan JV.Proofs.PacMan_Inv.

(* ---------- argmin over the valid entries ---------- *)
Lemma min_valid_none valid dist l : min_valid valid dist l = None <-> forall q, In q l -> valid q = false.
Proof.
  induction l as [|p t IH]; cbn [min_valid].
  - split; [intros _ q []| reflexivity].
  - destruct (valid p) eqn:V.
    + split; [discriminate|]. intro H. specialize (H p (or_introl eq_refl)). congruence.
    + rewrite IH. split; intros H q.
      * intros [<-|I]; [exact V | exact (H q I)].
      * intro I. apply H. right. exact I.
Qed.
Lemma min_valid_some valid dist l : forall m, min_valid valid dist l = Some m ->
  (exists q, In q l /\ valid q = true /\ dist q = m) /\ (forall q, In q l -> valid q = true -> m <= dist q).
Proof.
  induction l as [|p t IH]; cbn [min_valid]; intros m H; [discriminate|].
  destruct (valid p) eqn:V.
  - destruct (min_valid valid dist t) as [v|] eqn:E.
    + destruct (IH v eq_refl) as [[q (I & Vq & Dq)] L]. injection H as <-. split.
      * destruct (Z.min_spec (dist p) v) as [[_ ->]|[_ ->]].
        -- exists p. repeat split; [left; reflexivity | exact V].
        -- exists q. repeat split; [right; exact I | exact Vq | exact Dq].
      * intros q' [<-|I'] Vq'; [lia|]. specialize (L q' I' Vq'). lia.
    + injection H as <-. split.
      * exists p. repeat split; [left; reflexivity | exact V].
      * intros q' [<-|I'] Vq'; [lia|]. pose proof (proj1 (min_valid_none valid dist t) E) as E0. rewrite (E0 q' I') in Vq'. discriminate.
  - destruct (IH m H) as [[q (I & Vq & Dq)] L]. split.
    + exists q. repeat split; [right; exact I | exact Vq | exact Dq].
    + intros q' [<-|I'] Vq'; [congruence | exact (L q' I' Vq')].
Qed.

Lemma nth_map_false {A} (f : A -> bool) l n dp : (n < length l)%nat -> nth n (map f l) false = f (nth n l dp).
Proof. intro H. rewrite (nth_indep _ false (f dp)) by (rewrite map_length; exact H). apply map_nth. Qed.

(* entry n of the candidate flags is set iff no neighbour is valid, or neighbour n is valid and nearest among the valid ones *)
Theorem cands_spec valid dist l n dp : (n < length l)%nat ->
  (nth n (cands valid dist l) false = true <->
   (forall q, In q l -> valid q = false) \/
   (valid (nth n l dp) = true /\ forall q, In q l -> valid q = true -> dist (nth n l dp) <= dist q)).
Proof.
  intro N. unfold cands. destruct (min_valid valid dist l) as [m|] eqn:E.
  - rewrite (nth_map_false _ l n dp N). destruct (min_valid_some valid dist l m E) as [[q0 (I0 & V0 & D0)] L].
    rewrite andb_true_iff. split.
    + intros [V D]. right. split; [exact V|]. intros q I Vq. specialize (L q I Vq). lia.
    + intros [H|[V H]].
      * rewrite (H q0 I0) in V0. discriminate.
      * split; [exact V|]. specialize (H q0 I0 V0). specialize (L _ (nth_In l dp N) V). lia.
  - rewrite (nth_map_false _ l n dp N). split; [|reflexivity]. intros _. left. exact (proj1 (min_valid_none valid dist l) E).
Qed.

Theorem cands_nonempty valid dist l : l <> [] -> existsb (fun b => b) (cands valid dist l) = true.
Proof.
  intro NE. unfold cands. destruct (min_valid valid dist l) as [m|] eqn:E.
  - destruct (min_valid_some valid dist l m E) as [[q (I & V & D)] _].
    apply existsb_exists. exists true. split; [|reflexivity]. apply in_map_iff. exists q. split; [|exact I].
    rewrite V. cbn [andb]. lia.
  - destruct l as [|p t]; [congruence|]. reflexivity.
Qed.
Lemma cands_length valid dist l : length (cands valid dist l) = length l.
Proof. unfold cands. destruct (min_valid valid dist l); apply map_length. Qed.

(* ---------- the exact set, read declaratively ---------- *)
Definition nbr (c r k : Z) : pos := nth (Z.to_nat k) (ghost_nbrs c r) zp.

Theorem ghost_exact_spec xs ys s a i d :
  let c := fst (gpos (ghosts s) i) in let r := snd (gpos (ghosts s) i) in
  let valid := nb_valid (grid s) (fst (gpos (old_ghosts s) i)) (snd (gpos (old_ghosts s) i)) in
  let dist := ghost_dist xs ys s a i c r in
  ghost_exact xs ys s a i d = true <->
  (0 <= znth 0 (g_starts s) i /\ d = 4) \/
  (znth 0 (g_starts s) i < 0 /\ in_tunnel (ghost_valids (grid s) c r) = true /\ d = znth 0 (g_actions s) i) \/
  (znth 0 (g_starts s) i < 0 /\ in_tunnel (ghost_valids (grid s) c r) = false /\ 0 <= d < 4 /\
   ((forall k, 0 <= k < 4 -> valid (nbr c r k) = false) \/
    (valid (nbr c r d) = true /\ forall k, 0 <= k < 4 -> valid (nbr c r k) = true -> dist (nbr c r d) <= dist (nbr c r k)))).
Proof.
  cbn zeta. unfold ghost_exact.
  set (c := fst (gpos (ghosts s) i)). set (r := snd (gpos (ghosts s) i)).
  set (valid := nb_valid (grid s) (fst (gpos (old_ghosts s) i)) (snd (gpos (old_ghosts s) i))).
  set (dist := ghost_dist xs ys s a i c r).
  assert (forall P : pos -> Prop, (forall q, In q (ghost_nbrs c r) -> P q) <-> (forall k, 0 <= k < 4 -> P (nbr c r k))) as Q.
  { intro P. unfold nbr, ghost_nbrs. split.
    - intros H k K. apply H. assert (k = 0 \/ k = 1 \/ k = 2 \/ k = 3) as [-> | [-> | [-> | ->]]] by lia; cbn; tauto.
    - intros H q [<-|[<-|[<-|[<-|[]]]]]; [apply (H 0)|apply (H 1)|apply (H 2)|apply (H 3)]; lia. }
  destruct (znth 0 (g_starts s) i <? 0) eqn:S.
  - destruct (in_tunnel (ghost_valids (grid s) c r)) eqn:Tn.
    + split; [intro H; right; left; repeat split; lia|]. intros [[H _]|[(_ & _ & H)|(_ & H & _)]]; [lia | lia | discriminate].
    + rewrite !andb_true_iff. split.
      * intros [[D1 D2] H]. right. right. split; [lia|]. split; [reflexivity|]. split; [lia|].
        unfold ghost_cands in H. fold c r valid dist in H. rewrite znth_nth in H by lia.
        apply (cands_spec valid dist (ghost_nbrs c r) (Z.to_nat d) zp) in H; [|cbn; lia].
        rewrite (Q (fun q => valid q = false)) in H. rewrite (Q (fun q => valid q = true -> dist (nth (Z.to_nat d) (ghost_nbrs c r) zp) <= dist q)) in H.
        exact H.
      * intros [[H _]|[(_ & H & _)|(_ & _ & D & H)]]; [lia | discriminate |]. split; [lia|].
        unfold ghost_cands. fold c r valid dist. rewrite znth_nth by lia.
        apply (cands_spec valid dist (ghost_nbrs c r) (Z.to_nat d) zp); [cbn; lia|].
        rewrite (Q (fun q => valid q = false)). rewrite (Q (fun q => valid q = true -> dist (nth (Z.to_nat d) (ghost_nbrs c r) zp) <= dist q)).
        exact H.
  - split; [intro H; left; lia|]. intros [[_ H]|[(H & _)|(H & _)]]; lia.
Qed.

(* ---------- exact  ==>  permitted (the superset of Model/PacMan.v) ---------- *)
Lemma nb_is_map g c r oc orw : ghost_nb g c r oc orw = map (fun p => gget 0 g (fst p) (snd p) * b2z (negb ((fst p =? orw) && (snd p =? oc)))) (ghost_nbrs c r).
Proof. reflexivity. Qed.

Theorem exact_is_permitted xs ys s a i d :
  ghost_exact xs ys s a i d = true ->
  ghost_draw_ok (grid s) (fst (gpos (ghosts s) i)) (snd (gpos (ghosts s) i)) (fst (gpos (old_ghosts s) i)) (snd (gpos (old_ghosts s) i))
                (znth 0 (g_starts s) i) (znth 0 (g_actions s) i) d = true.
Proof.
  unfold ghost_exact, ghost_draw_ok.
  set (c := fst (gpos (ghosts s) i)). set (r := snd (gpos (ghosts s) i)).
  set (oc := fst (gpos (old_ghosts s) i)). set (orw := snd (gpos (old_ghosts s) i)).
  destruct (znth 0 (g_starts s) i <? 0); [|exact (fun H => H)].
  destruct (in_tunnel (ghost_valids (grid s) c r)); [exact (fun H => H)|].
  rewrite !andb_true_iff. intros [[D1 D2] H]. split; [split; assumption|].
  unfold ghost_cands in H. fold c r oc orw in H. rewrite znth_nth in H by lia.
  apply (cands_spec _ _ (ghost_nbrs c r) (Z.to_nat d) zp) in H; [|cbn; lia].
  rewrite nb_is_map. apply orb_true_iff. destruct H as [H|[H _]].
  - right. apply forallb_forall. intros v Hv. apply in_map_iff in Hv as [q [<- I]]. specialize (H q I).
    unfold nb_valid in H. rewrite H. reflexivity.
  - left. set (f := fun p : Z * Z => gget 0 (grid s) (fst p) (snd p) * b2z (negb ((fst p =? orw) && (snd p =? oc)))).
    rewrite znth_nth by lia. rewrite (nth_indep _ 0 (f zp)) by (rewrite map_length; cbn; lia).
    rewrite map_nth. exact H.
Qed.

Theorem exact_draw_valid xs ys s a d : exact_draw xs ys s a d = true -> valid_draw s d = true.
Proof.
  unfold exact_draw, valid_draw, draws_exact, draws_ok. rewrite !forallb_forall. intros H b Hb.
  apply in_map_iff in Hb as [i [<- I]]. apply (exact_is_permitted xs ys s a i). apply H. apply in_map_iff. exists i. split; [reflexivity | exact I].
Qed.

(* ---------- the exact set is never empty: the code always returns something the model allows ---------- *)
Fixpoint first_true (l : list bool) : Z := match l with [] => 0 | b :: t => if b then 0 else 1 + first_true t end.
Lemma first_true_spec l : existsb (fun b => b) l = true -> 0 <= first_true l < zlen l /\ znth false l (first_true l) = true.
Proof.
  induction l as [|b t IH]; cbn [existsb first_true]; [discriminate|]. rewrite zlen_cons. pose proof (zlen_nonneg t).
  destruct b; cbn [orb]; intro Hx.
  - split; [lia | reflexivity].
  - destruct (IH Hx) as [R E]. split; [lia|]. rewrite znth_nth by lia. rewrite znth_nth in E by lia.
    replace (Z.to_nat (1 + first_true t)) with (S (Z.to_nat (first_true t))) by lia. exact E.
Qed.
Definition pick (xs ys : Z) (s : state) (a i : Z) : Z :=
  if znth 0 (g_starts s) i <? 0 then
    if in_tunnel (ghost_valids (grid s) (fst (gpos (ghosts s) i)) (snd (gpos (ghosts s) i))) then znth 0 (g_actions s) i
    else first_true (ghost_cands xs ys s a i)
  else 4.
Lemma pick_exact xs ys s a i : ghost_exact xs ys s a i (pick xs ys s a i) = true.
Proof.
  unfold ghost_exact, pick. destruct (znth 0 (g_starts s) i <? 0); [|reflexivity].
  destruct (in_tunnel _); [lia|].
  assert (existsb (fun b => b) (ghost_cands xs ys s a i) = true) as NE by (apply cands_nonempty; discriminate).
  destruct (first_true_spec _ NE) as [R E].
  assert (zlen (ghost_cands xs ys s a i) = 4) as L by (unfold zlen, ghost_cands; rewrite cands_length; reflexivity).
  rewrite E. lia.
Qed.
Theorem exact_draw_exists xs ys s a : exists d, exact_draw xs ys s a d = true.
Proof.
  exists [pick xs ys s a 0; pick xs ys s a 1; pick xs ys s a 2; pick xs ys s a 3].
  unfold exact_draw, draws_exact, idx4. cbn [map forallb].
  change (znth 0 [pick xs ys s a 0; pick xs ys s a 1; pick xs ys s a 2; pick xs ys s a 3] 0) with (pick xs ys s a 0).
  change (znth 0 [pick xs ys s a 0; pick xs ys s a 1; pick xs ys s a 2; pick xs ys s a 3] 1) with (pick xs ys s a 1).
  change (znth 0 [pick xs ys s a 0; pick xs ys s a 1; pick xs ys s a 2; pick xs ys s a 3] 2) with (pick xs ys s a 2).
  change (znth 0 [pick xs ys s a 0; pick xs ys s a 1; pick xs ys s a 2; pick xs ys s a 3] 3) with (pick xs ys s a 3).
  rewrite !pick_exact. reflexivity.
Qed.

(* ---------- the physical invariant under the exact ghost behaviour ---------- *)
Theorem step_Inv_exact xs ys T s a d :
  Inv xs ys s -> exact_draw xs ys s a d = true -> Inv xs ys (fst (step xs ys T s a d)).
Proof. intros I E. apply step_Inv; [exact I | exact (exact_draw_valid xs ys s a d E)]. Qed.

Fixpoint draws_exact_run (xs ys T : Z) (s : state) (acts : list (Z * list Z)) : Prop :=
  match acts with
  | [] => True
  | (a, d) :: r => exact_draw xs ys s a d = true /\ draws_exact_run xs ys T (fst (step xs ys T s a d)) r
  end.
Lemma draws_exact_valid xs ys T acts : forall s, draws_exact_run xs ys T s acts -> draws_valid xs ys T s acts.
Proof.
  induction acts as [|[a d] r IH]; intros s H; cbn [draws_valid draws_exact_run] in *; [exact I|].
  destruct H as [H1 H2]. split; [exact (exact_draw_valid xs ys s a d H1) | exact (IH _ H2)].
Qed.
(* along any run in which the ghosts move as the code moves them: every ghost is inside the grid on a free cell *)
Theorem ghosts_on_free_cells xs ys T acts s :
  Inv xs ys s -> draws_exact_run xs ys T s acts ->
  let f := run xs ys T s acts in
  Inv xs ys f /\
  forall i, 0 <= i < 4 ->
    0 <= snd (gpos (ghosts f) i) < xs /\ 0 <= fst (gpos (ghosts f) i) < ys
    /\ gat 0 (grid f) (snd (gpos (ghosts f) i)) (fst (gpos (ghosts f) i)) = 1.
Proof.
  intros I D. cbn zeta. pose proof (run_Inv xs ys T acts s I (draws_exact_valid xs ys T acts s D)) as I'.
  split; [exact I'|]. intros i Hi. destruct (Inv_physical xs ys _ I') as (_ & G & _). exact (G i Hi).
Qed.
