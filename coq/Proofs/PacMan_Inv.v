(* PacMan: the physical invariant (C07), mask = legal moves (C04), ignored moves (C05), ranges (C01). *)
Require Import JV.Base.Prelude JV.Base.JaxIndex JV.Base.Codec JV.Base.TimeStep JV.Gen.PacManConsts JV.Model.PacMan JV.Proofs.PacMan.

(* ---------- grids ---------- *)
Definition wf_grid (xs ys : Z) (g : list (list Z)) : Prop :=
  0 < xs /\ 0 < ys /\ zlen g = xs /\ (forall row, In row g -> zlen row = ys /\ forall v, In v row -> v = 0 \/ v = 1).

Lemma wf_grid_spec xs ys g : wf_grid_b xs ys g = true -> wf_grid xs ys g.
Proof.
  unfold wf_grid_b, wf_grid. intro H.
  apply andb_true_iff in H as [H H4]. apply andb_true_iff in H as [H H3]. apply andb_true_iff in H as [H1 H2].
  repeat split; try lia.
  - rewrite forallb_forall in H4. specialize (H4 row H). apply andb_true_iff in H4 as [H4 _]. lia.
  - rewrite forallb_forall in H4. specialize (H4 row H). apply andb_true_iff in H4 as [_ H4].
    intros v Hv. rewrite forallb_forall in H4. specialize (H4 v Hv). lia.
Qed.

Lemma znth_nth {A} (d : A) l i : 0 <= i -> znth d l i = nth (Z.to_nat i) l d.
Proof. intro H. unfold znth. destruct (i <? 0) eqn:E; [lia | reflexivity]. Qed.

Lemma gget_gat xs ys g r c : wf_grid xs ys g -> 0 <= r < xs -> 0 <= c < ys -> gget 0 g r c = gat 0 g r c.
Proof.
  intros (Hx & Hy & Hl & Hr) R C. unfold gget, gat.
  rewrite (jget_in_range [] g r) by lia. rewrite (znth_nth [] g r) by lia.
  assert (In (nth (Z.to_nat r) g []) g) as I by (apply nth_In; unfold zlen in Hl; lia).
  destruct (Hr _ I) as [Hrow _].
  rewrite jget_in_range by lia. rewrite znth_nth by lia. reflexivity.
Qed.

Lemma free_b_spec xs ys g r c : free_b xs ys g r c = true <-> free xs ys g r c.
Proof. unfold free_b, free, inb. split; intro H; lia. Qed.

Lemma maze_ok_wf xs ys g : maze_ok_b xs ys g = true -> wf_grid xs ys g.
Proof.
  unfold maze_ok_b. intro H. apply andb_true_iff in H as [H _]. apply andb_true_iff in H as [H _].
  apply wf_grid_spec; exact H.
Qed.
Lemma maze_ok_origin xs ys g : maze_ok_b xs ys g = true -> gat 0 g 0 0 <> 1.
Proof.
  unfold maze_ok_b. intro H. apply andb_true_iff in H as [H _]. apply andb_true_iff in H as [_ H]. lia.
Qed.
Lemma maze_ok_cell xs ys g r c :
  maze_ok_b xs ys g = true -> 0 <= r < xs -> 0 <= c < ys -> cell_ok_b xs ys g r c = true.
Proof.
  unfold maze_ok_b. intros H R C. apply andb_true_iff in H as [_ H].
  rewrite forallb_forall in H. specialize (H r (proj2 (in_zrange r xs) R)).
  rewrite forallb_forall in H. exact (H c (proj2 (in_zrange c ys) C)).
Qed.

(* the four facts packed in cell_ok_b at a free cell *)
Lemma cell_ok_inv xs ys g r c :
  cell_ok_b xs ys g r c = true -> free_b xs ys g r c = true ->
  (forall k, 0 <= k <= 4 -> ghost_free_b xs ys g (ghost_target xs ys c r k) = true ->
             corridor_ok_b xs ys g (ghost_target xs ys c r k) k = true)
  /\ two_valid (ghost_valids g c r) = true
  /\ (forall k, 0 <= k < 4 -> znth 0 (ghost_valids g c r) k = 1 -> ghost_free_b xs ys g (ghost_target xs ys c r k) = true)
  /\ (forall a, 0 <= a < 4 -> z2b (gget 0 g (r + dx a) (c + dy a)) = free_b xs ys g ((r + dx a) mod xs) ((c + dy a) mod ys)).
Proof.
  unfold cell_ok_b. intros H F. rewrite F in H. cbn [negb orb] in H.
  apply andb_true_iff in H as [H H4]. apply andb_true_iff in H as [H H3]. apply andb_true_iff in H as [H1 H2].
  rewrite forallb_forall in H1, H3, H4.
  repeat split.
  - intros k K Fq. assert (In k [0;1;2;3;4]) as I by (cbn; lia). specialize (H1 k I). cbn zeta in H1.
    rewrite Fq in H1. exact H1.
  - exact H2.
  - intros k K V. assert (In k idx4) as I by (unfold idx4; cbn; lia). specialize (H3 k I).
    rewrite V in H3. exact H3.
  - intros a A. assert (In a idx4) as I by (unfold idx4; cbn; lia). specialize (H4 a I).
    apply eqb_prop in H4. exact H4.
Qed.

(* ---------- the player ---------- *)
Lemma nxy_cases xs ys s a :
  wf_grid xs ys (grid s) ->
  let tx := (px s + dx (clamp04 a)) mod xs in let ty := (py s + dy (clamp04 a)) mod ys in
  (nxy xs ys s a = (tx, ty) /\ free xs ys (grid s) tx ty) \/
  (nxy xs ys s a = (px s, py s) /\ ~ free xs ys (grid s) tx ty).
Proof.
  intros W. cbn zeta. unfold nxy. rewrite player_step_eq. cbn [fst snd]. unfold check_wall.
  pose proof W as (Hx & Hy & W').
  assert (0 <= (px s + dx (clamp04 a)) mod xs < xs) as R by (apply Z.mod_pos_bound; lia).
  assert (0 <= (py s + dy (clamp04 a)) mod ys < ys) as C by (apply Z.mod_pos_bound; lia).
  rewrite (gget_gat xs ys _ _ _ W R C).
  destruct (gat 0 (grid s) _ _ =? 1) eqn:E.
  - left. split; [reflexivity|]. unfold free. lia.
  - right. split; [reflexivity|]. unfold free. lia.
Qed.

Lemma nxy_free xs ys s a :
  wf_grid xs ys (grid s) -> free xs ys (grid s) (px s) (py s) ->
  free xs ys (grid s) (fst (nxy xs ys s a)) (snd (nxy xs ys s a)).
Proof.
  intros W F. destruct (nxy_cases xs ys s a W) as [[E H] | [E H]]; rewrite E; cbn [fst snd]; assumption.
Qed.

(* the player's move follows the rule: legal moves are taken, everything else leaves it in place *)
Lemma legal_b_spec xs ys g x y a : legal_b xs ys g x y a = true <-> legal xs ys g x y a.
Proof.
  unfold legal_b, legal. rewrite <- free_b_spec. rewrite !andb_true_iff. split; intro H.
  - destruct H as [[H1 H2] H3]. split; [lia | exact H3].
  - destruct H as [H1 H3]. repeat split; try lia; exact H3.
Qed.

Theorem nxy_rule xs ys s a :
  wf_grid xs ys (grid s) -> free xs ys (grid s) (px s) (py s) -> 0 <= a <= 4 ->
  nxy xs ys s a = rule_player xs ys (grid s) (px s) (py s) a.
Proof.
  intros W [Rp [Cp _]] A. unfold rule_player. pose proof (nxy_cases xs ys s a W) as N. cbn zeta in N.
  rewrite clamp04_id in N by lia.
  destruct (legal_b xs ys (grid s) (px s) (py s) a) eqn:L.
  - apply legal_b_spec in L. destruct L as [A' F]. destruct N as [[E _] | [_ NF]]; [exact E | contradiction].
  - destruct N as [[E F] | [E _]]; [|exact E].
    destruct (Z.eq_dec a 4) as [->|Na].
    + rewrite E. unfold dx, dy. cbn. rewrite !Z.add_0_r. rewrite !Z.mod_small by lia. reflexivity.
    + exfalso. assert (legal xs ys (grid s) (px s) (py s) a) as L' by (split; [lia | exact F]).
      apply legal_b_spec in L'. congruence.
Qed.

(* ---------- C04: the mask is the set of legal moves ---------- *)
Lemma legal_b_move xs ys g x y a :
  0 <= a < 4 -> legal_b xs ys g x y a = free_b xs ys g ((x + dx a) mod xs) ((y + dy a) mod ys).
Proof.
  intro A. unfold legal_b. replace (0 <=? a) with true by lia. replace (a <? 4) with true by lia. reflexivity.
Qed.

Theorem mask_legal xs ys g x y :
  maze_ok_b xs ys g = true -> free xs ys g x y ->
  compute_mask g x y = map (legal_b xs ys g x y) [0; 1; 2; 3; 4].
Proof.
  intros M F. pose proof F as (R & C & _). apply free_b_spec in F.
  destruct (cell_ok_inv xs ys g x y (maze_ok_cell xs ys g x y M R C) F) as (_ & _ & _ & M4).
  pose proof (M4 0 ltac:(lia)) as E0. pose proof (M4 1 ltac:(lia)) as E1.
  pose proof (M4 2 ltac:(lia)) as E2. pose proof (M4 3 ltac:(lia)) as E3.
  rewrite <- legal_b_move in E0, E1, E2, E3 by lia.
  cbn [map]. rewrite <- E0, <- E1, <- E2, <- E3.
  assert (legal_b xs ys g x y 4 = false) as E4 by reflexivity. rewrite E4.
  unfold compute_mask, move_valid. cbv - [gget Z.add z2b].
  repeat match goal with |- context [if ?b then _ else _] => destruct b end; reflexivity.
Qed.

(* the environment's own reaction: a masked-in move is taken (to the wrapped target cell), a masked-out one is ignored *)
Theorem mask_reaction xs ys s a :
  maze_ok_b xs ys (grid s) = true -> free xs ys (grid s) (px s) (py s) -> 0 <= a <= 4 ->
  (znth false (compute_mask (grid s) (px s) (py s)) a = true ->
     0 <= a < 4 /\ nxy xs ys s a = ((px s + dx a) mod xs, (py s + dy a) mod ys)) /\
  (znth false (compute_mask (grid s) (px s) (py s)) a = false -> nxy xs ys s a = (px s, py s)).
Proof.
  intros M F A. rewrite (mask_legal xs ys _ _ _ M F).
  rewrite (nxy_rule xs ys s a (maze_ok_wf _ _ _ M) F A). unfold rule_player.
  assert (znth false (map (legal_b xs ys (grid s) (px s) (py s)) [0; 1; 2; 3; 4]) a = legal_b xs ys (grid s) (px s) (py s) a) as E.
  { assert (a = 0 \/ a = 1 \/ a = 2 \/ a = 3 \/ a = 4) as [-> | [-> | [-> | [-> | ->]]]] by lia; reflexivity. }
  rewrite E. split; intro L; rewrite L; [|reflexivity].
  split; [|reflexivity]. apply legal_b_spec in L. destruct L; assumption.
Qed.

(* ---------- C05: a move into a wall has exactly the effect of the no-op ---------- *)
Definition with_last_dir (s : state) (v : Z) : state :=
  mkS (grid s) (pellets s) (fright s) (pellet_locs s) (pu_locs s) (px s) (py s) (ghosts s) (init_ghosts s) (init_targets s)
      (old_ghosts s) (g_init_steps s) (g_actions s) v (dead s) (g_starts s) (scatter s) (sc s) (g_eaten s) (score s).

Lemma nxy_ignored xs ys s a :
  wf_grid xs ys (grid s) -> free xs ys (grid s) (px s) (py s) -> 0 <= a <= 4 ->
  legal_b xs ys (grid s) (px s) (py s) a = false -> nxy xs ys s a = (px s, py s).
Proof. intros W F A L. rewrite (nxy_rule xs ys s a W F A). unfold rule_player. rewrite L. reflexivity. Qed.

Theorem illegal_is_noop xs ys T s a d :
  wf_grid xs ys (grid s) -> free xs ys (grid s) (px s) (py s) -> 0 <= a <= 4 ->
  legal_b xs ys (grid s) (px s) (py s) a = false ->
  fst (step xs ys T s a d) = with_last_dir (fst (step xs ys T s 4 d)) a
  /\ snd (step xs ys T s a d) = snd (step xs ys T s 4 d)
  /\ px (fst (step xs ys T s a d)) = px s /\ py (fst (step xs ys T s a d)) = py s.
Proof.
  intros W F A L.
  pose proof (nxy_ignored xs ys s a W F A L) as Ea.
  pose proof (nxy_ignored xs ys s 4 W F ltac:(lia) ltac:(reflexivity)) as E4.
  rewrite !step_eq. unfold with_last_dir, done, rew, ghost_rew, died, ate, eat, cols. cbn [fst snd grid pellets fright pellet_locs pu_locs px py
    ghosts init_ghosts init_targets old_ghosts g_init_steps g_actions last_dir dead g_starts scatter sc g_eaten score].
  rewrite Ea, E4. cbn [fst snd]. repeat split; reflexivity.
Qed.

Lemma wipe_nohit x y l : existsb (hit x y) l = false -> wipe x y l = l.
Proof.
  induction l as [|p l IH]; cbn [existsb wipe map]; intro H; [reflexivity|].
  apply orb_false_iff in H as [H1 H2]. rewrite H1. fold (wipe x y l). rewrite IH by exact H2. reflexivity.
Qed.

(* when nothing lies under the player, an ignored move eats nothing and pays nothing for pellets / power-ups *)
Theorem illegal_eats_nothing xs ys T s a d :
  wf_grid xs ys (grid s) -> free xs ys (grid s) (px s) (py s) -> 0 <= a <= 4 ->
  legal_b xs ys (grid s) (px s) (py s) a = false ->
  existsb (hit (px s) (py s)) (pellet_locs s) = false -> existsb (hit (px s) (py s)) (pu_locs s) = false ->
  let s' := fst (step xs ys T s a d) in
  pellet_locs s' = pellet_locs s /\ pu_locs s' = pu_locs s /\ pellets s' = pellets s
  /\ reward (snd (step xs ys T s a d)) = [ghost_rew xs ys s a d].
Proof.
  intros W F A L H1 H2. cbn zeta.
  pose proof (nxy_ignored xs ys s a W F A L) as Ea.
  rewrite step_eq. cbn [fst snd pellet_locs pu_locs pellets]. unfold rew, ate, eat. rewrite Ea. cbn [fst snd].
  rewrite H1, H2. rewrite !wipe_nohit by assumption. repeat split; try reflexivity.
  - cbn [b2z]. lia.
  - unfold cond_done. destruct (done xs ys T s a d); cbn [reward termination transition b2z]; f_equal; lia.
Qed.

(* after any step nothing is left under the player: the start cell of the reset state is the only place where the
   player can stand on a pellet *)
Lemma wipe_clean x y l : hit x y zp = false -> existsb (hit x y) (wipe x y l) = false.
Proof.
  intro Z0. induction l as [|p l IH]; cbn [wipe map existsb]; [reflexivity|].
  fold (wipe x y l). rewrite IH. destruct (hit x y p) eqn:E; [rewrite Z0|rewrite E]; reflexivity.
Qed.
Theorem nothing_under_player_after_step xs ys T s a d :
  maze_ok_b xs ys (grid s) = true -> free xs ys (grid s) (px s) (py s) ->
  let s' := fst (step xs ys T s a d) in
  existsb (hit (px s') (py s')) (pellet_locs s') = false /\ existsb (hit (px s') (py s')) (pu_locs s') = false.
Proof.
  intros M F. cbn zeta. rewrite step_eq. cbn [fst px py pellet_locs pu_locs].
  pose proof (nxy_free xs ys s a (maze_ok_wf _ _ _ M) F) as (R & C & G).
  pose proof (maze_ok_origin _ _ _ M) as O.
  assert (hit (fst (nxy xs ys s a)) (snd (nxy xs ys s a)) zp = false) as Z0.
  { unfold hit, zp. cbn [fst snd]. destruct (0 =? snd (nxy xs ys s a)) eqn:E1; destruct (0 =? fst (nxy xs ys s a)) eqn:E2; try reflexivity.
    exfalso. apply O. assert (fst (nxy xs ys s a) = 0) as Q1 by lia. assert (snd (nxy xs ys s a) = 0) as Q2 by lia.
    rewrite Q1, Q2 in G. exact G. }
  split; apply wipe_clean; exact Z0.
Qed.

(* ---------- C07: ghosts stay on free cells ---------- *)
Lemma ghost_target_clamp xs ys c r k : ghost_target xs ys c r (clamp04 k) = ghost_target xs ys c r k.
Proof. unfold ghost_target. rewrite clamp04_idem. reflexivity. Qed.
Lemma corridor_clamp xs ys g p k : corridor_ok_b xs ys g p (clamp04 k) = corridor_ok_b xs ys g p k.
Proof. unfold corridor_ok_b. rewrite ghost_target_clamp. reflexivity. Qed.
Lemma ghost_target_noop xs ys c r : 0 <= c < ys -> 0 <= r < xs -> ghost_target xs ys c r 4 = (c, r).
Proof.
  intros C R. unfold ghost_target. change (clamp04 4) with 4. cbn [Z.eqb Pos.eqb].
  rewrite !Z.mod_small by lia. reflexivity.
Qed.

Lemma valids4 g c r :
  ghost_valids g c r = [gget 0 g r (c - 1); gget 0 g (r - 1) c; gget 0 g r (c + 1); gget 0 g (r + 1) c].
Proof. reflexivity. Qed.
Lemma nb4 g c r oc orw :
  ghost_nb g c r oc orw =
  [gget 0 g r (c - 1) * b2z (negb ((r =? orw) && (c - 1 =? oc)));
   gget 0 g (r - 1) c * b2z (negb ((r - 1 =? orw) && (c =? oc)));
   gget 0 g r (c + 1) * b2z (negb ((r =? orw) && (c + 1 =? oc)));
   gget 0 g (r + 1) c * b2z (negb ((r + 1 =? orw) && (c =? oc)))].
Proof. reflexivity. Qed.
Lemma two_valid4 a b c d :
  two_valid [a; b; c; d] =
  (((a =? 1) && (b =? 1)) || ((a =? 1) && (c =? 1)) || ((a =? 1) && (d =? 1)) || ((b =? 1) && (c =? 1)) || ((b =? 1) && (d =? 1)) || ((c =? 1) && (d =? 1))).
Proof. reflexivity. Qed.
Lemma znth4 {A} (dflt a b c d : A) :
  znth dflt [a; b; c; d] 0 = a /\ znth dflt [a; b; c; d] 1 = b /\ znth dflt [a; b; c; d] 2 = c /\ znth dflt [a; b; c; d] 3 = d.
Proof. repeat split; reflexivity. Qed.

(* away from corridors the permitted draw is a neighbour that the clamping gather sees free *)
Lemma draw_sees_free g c r oc orw d :
  two_valid (ghost_valids g c r) = true ->
  0 <= d < 4 ->
  (znth 0 (ghost_nb g c r oc orw) d =? 1) || forallb (fun v => negb (v =? 1)) (ghost_nb g c r oc orw) = true ->
  znth 0 (ghost_valids g c r) d = 1.
Proof.
  rewrite valids4, nb4, two_valid4.
  remember (gget 0 g r (c - 1)) as v0. remember (gget 0 g (r - 1) c) as v1.
  remember (gget 0 g r (c + 1)) as v2. remember (gget 0 g (r + 1) c) as v3.
  intros TV D H.
  destruct (znth4 0 v0 v1 v2 v3) as (Z0 & Z1 & Z2 & Z3).
  destruct (znth4 0 (v0 * b2z (negb ((r =? orw) && (c - 1 =? oc)))) (v1 * b2z (negb ((r - 1 =? orw) && (c =? oc))))
                    (v2 * b2z (negb ((r =? orw) && (c + 1 =? oc)))) (v3 * b2z (negb ((r + 1 =? orw) && (c =? oc))))) as (N0 & N1 & N2 & N3).
  cbn [forallb] in H.
  destruct ((r =? orw) && (c - 1 =? oc)) eqn:Q0; destruct ((r - 1 =? orw) && (c =? oc)) eqn:Q1;
  destruct ((r =? orw) && (c + 1 =? oc)) eqn:Q2; destruct ((r + 1 =? orw) && (c =? oc)) eqn:Q3;
  cbn [negb b2z] in *;
  assert (d = 0 \/ d = 1 \/ d = 2 \/ d = 3) as [-> | [-> | [-> | ->]]] by lia;
  rewrite ?Z0, ?Z1, ?Z2, ?Z3; rewrite ?N0, ?N1, ?N2, ?N3 in H; lia.
Qed.

Lemma ghost_move_ok xs ys g c r oc orw start ga d :
  maze_ok_b xs ys g = true ->
  ghost_ok_b xs ys g (c, r) ga = true ->
  ghost_draw_ok g c r oc orw start ga d = true ->
  ghost_ok_b xs ys g (ghost_path xs ys c r start d) d = true.
Proof.
  intros M G D.
  unfold ghost_ok_b in G. apply andb_true_iff in G as [F K].
  unfold ghost_free_b in F. cbn [fst snd] in F. pose proof F as F'. apply free_b_spec in F' as (R & C & _).
  destruct (cell_ok_inv xs ys g r c (maze_ok_cell xs ys g r c M R C) F) as (M1 & M2 & M3 & _).
  assert (forall k, 0 <= k <= 4 -> ghost_free_b xs ys g (ghost_target xs ys c r k) = true ->
                    ghost_ok_b xs ys g (ghost_target xs ys c r k) k = true) as arrive.
  { intros k Kk Fq. unfold ghost_ok_b. rewrite Fq, (M1 k Kk Fq). reflexivity. }
  assert (ghost_ok_b xs ys g (c, r) 4 = true) as stay.
  { pose proof (arrive 4 ltac:(lia)) as A4. rewrite (ghost_target_noop xs ys c r C R) in A4. apply A4.
    unfold ghost_free_b. cbn [fst snd]. exact F. }
  unfold ghost_draw_ok in D. unfold ghost_path.
  destruct (start <? 0) eqn:S.
  - replace (start <=? 0) with true by lia.
    destruct (in_tunnel (ghost_valids g c r)) eqn:Tn.
    + assert (d = ga) as -> by lia.
      unfold corridor_ok_b in K. cbn [fst snd] in K. rewrite Tn in K. cbn [negb orb] in K.
      rewrite <- ghost_target_clamp in K |- *.
      pose proof (arrive (clamp04 ga) (clamp04_range ga) K) as A.
      unfold ghost_ok_b in A |- *. rewrite corridor_clamp in A. exact A.
    + apply andb_true_iff in D as [D D3]. apply andb_true_iff in D as [D1 D2].
      assert (0 <= d < 4) as Dr by lia.
      pose proof (draw_sees_free g c r oc orw d M2 Dr D3) as V.
      apply arrive; [lia|]. apply M3; assumption.
  - assert (d = 4) as -> by lia.
    destruct (start <=? 0); [rewrite (ghost_target_noop xs ys c r C R)|]; exact stay.
Qed.

(* after the collision check the ghost is where it moved to, or back on its spawn cell *)
Lemma ghost_col_ok xs ys g fr x y nx ny gp og2 og edible d :
  ghost_ok_b xs ys g gp d = true -> spawn_ok_b xs ys g og = true ->
  ghost_ok_b xs ys g (fst (fst (fst (ghost_col fr x y nx ny gp og2 og edible)))) d = true.
Proof.
  intros G S. unfold ghost_col.
  destruct (ghost_cond x y nx ny gp og2); [destruct ((0 <? fr) && true)|]; cbn [fst]; try exact G.
  unfold spawn_ok_b in S. apply andb_true_iff in S as [S1 S2].
  unfold ghost_ok_b, corridor_ok_b. rewrite S1, S2. reflexivity.
Qed.

Lemma Inv_unpack xs ys s :
  Inv xs ys s ->
  maze_ok_b xs ys (grid s) = true /\ free xs ys (grid s) (px s) (py s)
  /\ (length (ghosts s) = 4 /\ length (g_actions s) = 4 /\ length (init_ghosts s) = 4 /\ length (old_ghosts s) = 4
      /\ length (g_starts s) = 4 /\ length (g_eaten s) = 4 /\ length (g_init_steps s) = 4)%nat
  /\ (forall i, 0 <= i < 4 -> ghost_ok_b xs ys (grid s) (gpos (ghosts s) i) (znth 0 (g_actions s) i) = true)
  /\ (forall og, In og (init_ghosts s) -> spawn_ok_b xs ys (grid s) og = true).
Proof.
  unfold Inv, Inv_b. intro H. apply andb_true_iff in H as [M H]. unfold Inv_rest_b, len4 in H.
  repeat (apply andb_true_iff in H as [H ?]).
  repeat match goal with X : Nat.eqb _ _ = true |- _ => apply Nat.eqb_eq in X end.
  split; [assumption|]. split; [unfold free, inb in *; lia|]. split; [tauto|]. split.
  - intros i Hi. match goal with X : forallb _ idx4 = true |- _ => rewrite forallb_forall in X; apply X end.
    unfold idx4. cbn. lia.
  - intros og Hog. match goal with X : forallb _ (init_ghosts s) = true |- _ => rewrite forallb_forall in X; apply X end. exact Hog.
Qed.

Lemma znth_map_idx4 {A} (dflt : A) (f : Z -> A) i : 0 <= i < 4 -> znth dflt (map f idx4) i = f i.
Proof. intro H. assert (i = 0 \/ i = 1 \/ i = 2 \/ i = 3) as [-> | [-> | [-> | ->]]] by lia; reflexivity. Qed.

Lemma gpos_in (l : list pos) i : (length l = 4)%nat -> 0 <= i < 4 -> In (gpos l i) l.
Proof.
  intros L I. unfold gpos. rewrite znth_nth by lia. apply nth_In. lia.
Qed.

(* C07: the invariant is preserved by EVERY action (in spec or not) and every permitted ghost draw *)
Theorem step_Inv xs ys T s a d :
  Inv xs ys s -> valid_draw s d = true -> Inv xs ys (fst (step xs ys T s a d)).
Proof.
  intros I V. destruct (Inv_unpack xs ys s I) as (M & F & (L1 & L2 & L3 & L4 & L5 & L6 & L7) & G & Sp).
  assert (forall i, 0 <= i < 4 ->
            ghost_ok_b xs ys (grid s) (fst (fst (fst (ghost_col (fright s) (px s) (py s) (fst (nxy xs ys s a)) (snd (nxy xs ys s a))
                 (ghost_path xs ys (fst (gpos (ghosts s) i)) (snd (gpos (ghosts s) i)) (znth 0 (g_starts s) i) (znth 0 d i))
                 (gpos (old_ghosts s) i) (gpos (init_ghosts s) i) (znth false (g_eaten s) i))))) (znth 0 d i) = true) as GI.
  { intros i Hi. apply ghost_col_ok; [|apply Sp, gpos_in; assumption].
    unfold valid_draw, draws_ok in V. rewrite forallb_forall in V.
    eapply ghost_move_ok; [exact M | | ].
    - rewrite <- surjective_pairing. apply G; exact Hi.
    - apply (V _). apply in_map_iff. exists i. split; [reflexivity|]. unfold idx4. cbn. lia. }
  pose proof (nxy_free xs ys s a (maze_ok_wf _ _ _ M) F) as NF. apply free_b_spec in NF.
  rewrite step_eq. unfold Inv, Inv_b, Inv_rest_b. cbn [fst grid px py ghosts g_actions init_ghosts old_ghosts g_starts g_eaten g_init_steps].
  rewrite M, NF. unfold len4. rewrite !map_length. unfold cols. rewrite !map_length. rewrite L1, L3, L5, L7.
  change (length idx4) with 4%nat. cbn [andb Nat.eqb].
  assert (forallb (spawn_ok_b xs ys (grid s)) (init_ghosts s) = true) as SpB by (apply forallb_forall; exact Sp).
  rewrite SpB, andb_true_r.
  apply forallb_forall. intros i Hi. assert (0 <= i < 4) as Hi' by (unfold idx4 in Hi; cbn in Hi; lia).
  rewrite map_map. unfold gpos at 1. rewrite !znth_map_idx4 by exact Hi'.
  unfold paths. unfold gpos at 1. rewrite znth_map_idx4 by exact Hi'.
  apply GI; exact Hi'.
Qed.

(* the reset state of every maze whose checks pass satisfies the invariant; in particular the default maze *)
Theorem default_reset_Inv : Inv X_SIZE Y_SIZE (gen_state DEFAULT_MAZE_ASCII).
Proof. vm_compute. reflexivity. Qed.
Theorem default_maze_ok : maze_ok_b X_SIZE Y_SIZE MAZE = true.
Proof. vm_compute. reflexivity. Qed.

(* along any run with permitted ghost draws *)
Fixpoint draws_valid (xs ys T : Z) (s : state) (acts : list (Z * list Z)) : Prop :=
  match acts with
  | [] => True
  | (a, d) :: r => valid_draw s d = true /\ draws_valid xs ys T (fst (step xs ys T s a d)) r
  end.
Theorem run_Inv xs ys T acts : forall s, Inv xs ys s -> draws_valid xs ys T s acts -> Inv xs ys (run xs ys T s acts).
Proof.
  induction acts as [|[a d] r IH]; intros s I V; cbn [run]; [exact I|].
  destruct V as [V1 V2]. apply IH; [apply step_Inv; assumption | exact V2].
Qed.

(* what the invariant says in plain terms *)
Theorem Inv_physical xs ys s :
  Inv xs ys s ->
  free xs ys (grid s) (px s) (py s)
  /\ (forall i, 0 <= i < 4 -> free xs ys (grid s) (snd (gpos (ghosts s) i)) (fst (gpos (ghosts s) i)))
  /\ length (ghosts s) = 4%nat.
Proof.
  intro I. destruct (Inv_unpack xs ys s I) as (M & F & (L1 & _) & G & _).
  split; [exact F|]. split; [|exact L1].
  intros i Hi. specialize (G i Hi). unfold ghost_ok_b in G. apply andb_true_iff in G as [G _].
  unfold ghost_free_b in G. apply free_b_spec in G. exact G.
Qed.

(* ---------- C01: observed values lie in the declared bounds ---------- *)
Theorem Inv_in_spec xs ys s :
  Inv xs ys s ->
  0 <= px s <= xs - 1 /\ 0 <= py s <= ys - 1
  /\ zlen (grid s) = xs /\ (forall row, In row (grid s) -> zlen row = ys /\ forall v, In v row -> 0 <= v <= 1)
  /\ length (compute_mask (grid s) (px s) (py s)) = 5%nat /\ length (ghosts s) = 4%nat.
Proof.
  intro I. destruct (Inv_unpack xs ys s I) as (M & (R & C & _) & (L1 & _) & _ & _).
  destruct (maze_ok_wf _ _ _ M) as (_ & _ & Hl & Hr).
  split; [lia|]. split; [lia|]. split; [exact Hl|]. split.
  - intros row Hrow. destruct (Hr row Hrow) as [Hz Hv]. split; [exact Hz|].
    intros v Hin. destruct (Hv v Hin); lia.
  - split; [reflexivity | exact L1].
Qed.
