(* PacMan: the reset state of ANY ASCII maze keeps the books: generate_maze_from_ascii lists every cell once, in
   row-major order, so pellets (one per non-'X' cell), power-ups ('O') ... are pairwise distinct positions; the pellet
   counter is their number.  Together with the decidable maze conditions this gives Book at reset for every maze. *)
Require Import JV.Base.Prelude JV.Base.JaxIndex JV.Base.Codec JV.Base.TimeStep JV.Gen.PacManConsts JV.Model.PacMan JV.Proofs.PacMan JV.Proofs.PacMan_Inv JV.Proofs.PacMan_Book.

Definition rowcells (r s : Z) (row : list Z) : list (pos * Z) :=
  map (fun yc => ((fst yc, r), snd yc)) (combine (zrange_from s (length row)) row).
Definition allcells (r0 : Z) (maze : list (list Z)) : list (pos * Z) :=
  concat (map (fun xr => rowcells (fst xr) 0 (snd xr)) (combine (zrange_from r0 (length maze)) maze)).
Definition selc (f : Z -> bool) (l : list (pos * Z)) : list pos := map fst (filter (fun pc => f (snd pc)) l).

Lemma cells_all maze : cells maze = allcells 0 maze.
Proof.
  unfold cells, allcells, zrange, zlen. rewrite Nat2Z.id. f_equal. apply map_ext. intros [r row]. cbn [fst snd].
  unfold rowcells. rewrite Nat2Z.id. reflexivity.
Qed.
Lemma sel_selc f maze : sel f maze = selc f (allcells 0 maze).
Proof. unfold sel, selc. rewrite cells_all. reflexivity. Qed.

Lemma rowcells_cons r s ch row : rowcells r s (ch :: row) = ((s, r), ch) :: rowcells r (s + 1) row.
Proof. reflexivity. Qed.
Lemma allcells_cons r0 row maze : allcells r0 (row :: maze) = rowcells r0 0 row ++ allcells (r0 + 1) maze.
Proof. reflexivity. Qed.
Lemma selc_app f a b : selc f (a ++ b) = selc f a ++ selc f b.
Proof. unfold selc. rewrite filter_app, map_app. reflexivity. Qed.
Lemma selc_cons f p ch l : selc f ((p, ch) :: l) = if f ch then p :: selc f l else selc f l.
Proof. unfold selc. cbn [filter snd]. destruct (f ch); reflexivity. Qed.
Lemma selc_in f l p : In p (selc f l) <-> exists ch, In (p, ch) l /\ f ch = true.
Proof.
  unfold selc. rewrite in_map_iff. split.
  - intros [[q ch] [E I]]. cbn [fst] in E. subst q. apply filter_In in I as [I F]. exists ch. split; assumption.
  - intros [ch [I F]]. exists (p, ch). split; [reflexivity|]. apply filter_In. split; assumption.
Qed.

Lemma znth_cons {A} (d x : A) l i : 0 <= i -> znth d (x :: l) i = if i =? 0 then x else znth d l (i - 1).
Proof.
  intro H. rewrite !znth_nth by lia. destruct (i =? 0) eqn:E.
  - replace i with 0 by lia. reflexivity.
  - rewrite znth_nth by lia. replace (Z.to_nat i) with (S (Z.to_nat (i - 1))) by lia. reflexivity.
Qed.

(* which cells are listed, with which character *)
Lemma rowcells_in r row : forall s c r' ch,
  In ((c, r'), ch) (rowcells r s row) <-> r' = r /\ s <= c < s + zlen row /\ ch = znth 0 row (c - s).
Proof.
  induction row as [|x row IH]; intros s c r' ch.
  - cbn. unfold zlen. cbn. split; [tauto | lia].
  - rewrite rowcells_cons, zlen_cons. cbn [In]. rewrite IH. pose proof (zlen_nonneg row). split.
    + intros [E|(E1 & E2 & E3)].
      * injection E as <- <- <-. replace (s - s) with 0 by lia. repeat split; try lia.
      * rewrite znth_cons by lia. replace (c - s =? 0) with false by lia. replace (c - s - 1) with (c - (s + 1)) by lia.
        repeat split; try lia; exact E3.
    + intros (E1 & E2 & E3). destruct (Z.eq_dec c s) as [->|N].
      * left. rewrite E3, E1. replace (s - s) with 0 by lia. reflexivity.
      * right. rewrite znth_cons in E3 by lia. replace (c - s =? 0) with false in E3 by lia.
        replace (c - s - 1) with (c - (s + 1)) in E3 by lia. repeat split; try lia; try exact E3.
Qed.
Lemma allcells_in maze : forall r0 c r ch,
  In ((c, r), ch) (allcells r0 maze) <->
  r0 <= r < r0 + zlen maze /\ 0 <= c < zlen (znth [] maze (r - r0)) /\ ch = znth 0 (znth [] maze (r - r0)) c.
Proof.
  induction maze as [|row maze IH]; intros r0 c r ch.
  - cbn. unfold zlen. cbn. split; [tauto | lia].
  - rewrite allcells_cons, zlen_cons, in_app_iff, IH, rowcells_in. pose proof (zlen_nonneg maze). split.
    + intros [(E1 & E2 & E3)|(E1 & E2 & E3)].
      * subst r. replace (r0 - r0) with 0 by lia. change (znth [] (row :: maze) 0) with row.
        replace (c - 0) with c in E3 by lia. repeat split; try lia; try exact E3.
      * rewrite znth_cons by lia. replace (r - r0 =? 0) with false by lia. replace (r - r0 - 1) with (r - (r0 + 1)) by lia.
        repeat split; try lia; assumption.
    + intros (E1 & E2 & E3). destruct (Z.eq_dec r r0) as [->|N].
      * left. replace (r0 - r0) with 0 in * by lia. change (znth [] (row :: maze) 0) with row in *.
        replace (c - 0) with c by lia. repeat split; try lia; try exact E3.
      * right. rewrite znth_cons in E2, E3 by lia. replace (r - r0 =? 0) with false in * by lia.
        replace (r - r0 - 1) with (r - (r0 + 1)) in * by lia. repeat split; try lia; assumption.
Qed.

(* every selection of cells is duplicate-free *)
Lemma existsb_none {A} (g : A -> bool) l : (forall q, In q l -> g q = false) -> existsb g l = false.
Proof.
  induction l as [|x l IH]; intro H; [reflexivity|]. cbn [existsb]. rewrite (H x (or_introl eq_refl)). cbn [orb].
  apply IH. intros q I. apply H. right. exact I.
Qed.
Lemma nodup_app a b :
  nodup_b a = true -> nodup_b b = true -> (forall p q, In p a -> In q b -> same_b p q = false) -> nodup_b (a ++ b) = true.
Proof.
  induction a as [|x a IH]; intros Na Nb D; [exact Nb|]. cbn [Datatypes.app]. rewrite nodup_cons in *.
  apply andb_true_iff in Na as [N1 N2]. rewrite IH; [|exact N2|exact Nb|intros p q Ip Iq; apply D; [right; exact Ip | exact Iq]].
  rewrite andb_true_r. apply negb_true_iff in N1. apply negb_true_iff. rewrite existsb_app, N1. cbn [orb].
  apply existsb_none. intros q Iq. apply D; [left; reflexivity | exact Iq].
Qed.
Lemma nodup_row f r row : forall s, nodup_b (selc f (rowcells r s row)) = true.
Proof.
  induction row as [|x row IH]; intro s; [reflexivity|]. rewrite rowcells_cons, selc_cons.
  destruct (f x); [|apply IH]. rewrite nodup_cons, IH, andb_true_r. apply negb_true_iff, existsb_none.
  intros [c r'] I. apply selc_in in I as [ch [I _]]. apply rowcells_in in I as (_ & I & _). unfold same_b. cbn [fst snd]. lia.
Qed.
Lemma nodup_all f maze : forall r0, nodup_b (selc f (allcells r0 maze)) = true.
Proof.
  induction maze as [|row maze IH]; intro r0; [reflexivity|]. rewrite allcells_cons, selc_app.
  apply nodup_app; [apply nodup_row | apply IH|].
  intros [c1 r1] [c2 r2] I1 I2. apply selc_in in I1 as [ch1 [I1 _]]. apply selc_in in I2 as [ch2 [I2 _]].
  apply rowcells_in in I1 as (I1 & _). apply allcells_in in I2 as (I2 & _). unfold same_b. cbn [fst snd]. lia.
Qed.
Theorem sel_nodup f maze : nodup_b (sel f maze) = true.
Proof. rewrite sel_selc. apply nodup_all. Qed.
Theorem sel_in f maze c r :
  In (c, r) (sel f maze) <->
  0 <= r < zlen maze /\ 0 <= c < zlen (znth [] maze r) /\ f (znth 0 (znth [] maze r) c) = true.
Proof.
  rewrite sel_selc, selc_in. split.
  - intros [ch [I F]]. apply allcells_in in I as (I1 & I2 & I3). replace (r - 0) with r in * by lia. subst ch. repeat split; try lia; try exact F.
  - intros (I1 & I2 & F). exists (znth 0 (znth [] maze r) c). split; [|exact F]. apply allcells_in. replace (r - 0) with r by lia.
    repeat split; lia.
Qed.

Lemma live_all l : existsb is_zp l = false -> live l = l.
Proof.
  induction l as [|p l IH]; [reflexivity|]. cbn [existsb]. intro H. apply orb_false_iff in H as [H1 H2].
  rewrite live_cons, H1, (IH H2). reflexivity.
Qed.
Lemma nodup_live l : nodup_b l = true -> nodup_b (live l) = true.
Proof. apply nodup_filter. Qed.

(* the grid value of the generated maze *)
Lemma znth_map {A B} (f : A -> B) (d : A) (d' : B) l i : 0 <= i < zlen l -> znth d' (map f l) i = f (znth d l i).
Proof.
  intro H. rewrite !znth_nth by lia. rewrite (nth_indep _ d' (f d)) by (rewrite map_length; unfold zlen in H; lia). apply map_nth.
Qed.
Lemma numpy_maze_gat maze r c :
  0 <= r < zlen maze -> 0 <= c < zlen (znth [] maze r) ->
  gat 0 (numpy_maze maze) r c = if znth 0 (znth [] maze r) c =? chX then 0 else 1.
Proof.
  intros R C. unfold gat, numpy_maze. rewrite (znth_map _ [] [] maze r R). rewrite (znth_map _ 0 0 _ c C). reflexivity.
Qed.

(* the counters of the reset state, for every maze whose corner (0, 0) is a wall *)
Theorem reset_counters maze :
  gat 0 (numpy_maze maze) 0 0 <> 1 ->
  let s := gen_state maze in
  pellets_ok_b s = true /\ nodup_b (live (pu_locs s)) = true /\ live (pellet_locs s) = pellet_locs s
  /\ length (g_eaten s) = 4%nat /\ score s = 0 /\ sc s = 0
  /\ (forall c r, In (c, r) (pellet_locs s) <->
        0 <= r < zlen maze /\ 0 <= c < zlen (znth [] maze r) /\ gat 0 (numpy_maze maze) r c = 1).
Proof.
  intro O. cbn zeta. unfold gen_state.
  cbn [pellets pellet_locs pu_locs g_eaten score sc].
  set (cookies := sel (fun ch => negb (ch =? chX)) maze).
  assert (forall c r, In (c, r) cookies <->
            0 <= r < zlen maze /\ 0 <= c < zlen (znth [] maze r) /\ gat 0 (numpy_maze maze) r c = 1) as M.
  { intros c r. unfold cookies. rewrite sel_in. split; intros (R & C & H); (split; [exact R|]; split; [exact C|]).
    - rewrite (numpy_maze_gat maze r c R C). destruct (znth 0 (znth [] maze r) c =? chX); [discriminate | reflexivity].
    - rewrite (numpy_maze_gat maze r c R C) in H. destruct (znth 0 (znth [] maze r) c =? chX); [discriminate | reflexivity]. }
  assert (live cookies = cookies) as L.
  { apply live_all. apply existsb_none. intros [c r] I. unfold is_zp. cbn [fst snd].
    destruct ((c =? 0) && (r =? 0)) eqn:E; [|reflexivity]. exfalso. apply O.
    assert (c = 0) by lia. assert (r = 0) by lia. subst. apply M in I. tauto. }
  split; [|split; [|split; [|split; [|split; [|split]]]]].
  - unfold pellets_ok_b. cbn [pellets pellet_locs]. rewrite L. unfold cookies. rewrite sel_nodup. lia.
  - apply nodup_live, sel_nodup.
  - exact L.
  - reflexivity.
  - reflexivity.
  - reflexivity.
  - exact M.
Qed.

(* Book at the reset of every maze passing the decidable maze conditions with the player on a free cell *)
Theorem reset_Book xs ys maze :
  maze_ok_b xs ys (numpy_maze maze) = true ->
  free xs ys (numpy_maze maze) (px (gen_state maze)) (py (gen_state maze)) ->
  Book xs ys (gen_state maze).
Proof.
  intros M F. destruct (reset_counters maze (maze_ok_origin _ _ _ M)) as (P & N & _ & L & _).
  unfold Book. change (grid (gen_state maze)) with (numpy_maze maze). repeat split; try assumption; apply F.
Qed.

(* sizes of the ASCII maze from the well-formedness of the generated grid *)
Lemma maze_sizes xs ys maze r :
  wf_grid xs ys (numpy_maze maze) -> zlen maze = xs /\ (0 <= r < xs -> zlen (znth [] maze r) = ys).
Proof.
  intros (_ & _ & L & Rw). assert (zlen maze = xs) as E by (unfold numpy_maze, zlen in L; rewrite map_length in L; exact L).
  split; [exact E|]. intro R.
  assert (In (znth [] (numpy_maze maze) r) (numpy_maze maze)) as I.
  { rewrite znth_nth by lia. apply nth_In. unfold zlen in L. lia. }
  destruct (Rw _ I) as [Z _]. unfold numpy_maze in Z. rewrite (znth_map _ [] [] maze r) in Z by lia.
  unfold zlen in Z. rewrite map_length in Z. exact Z.
Qed.

(* every maze: after ANY actions and ghost draws from reset, the cell (row r, column c) still carries a pellet exactly
   when it is a free cell the player has not been on since the reset *)
Theorem pellets_are_unvisited_cells xs ys T maze acts r c :
  let s0 := gen_state maze in
  maze_ok_b xs ys (numpy_maze maze) = true -> free xs ys (numpy_maze maze) (px s0) (py s0) ->
  In (c, r) (live (pellet_locs (run xs ys T s0 acts)))
  <-> free xs ys (numpy_maze maze) r c /\ visited (trail xs ys T s0 acts) (c, r) = false.
Proof.
  cbn zeta. intros M F. pose proof (reset_Book xs ys maze M F) as B.
  destruct (run_pellets xs ys T acts _ B) as (E & _ & _).
  destruct (reset_counters maze (maze_ok_origin _ _ _ M)) as (_ & _ & L & _ & _ & _ & C). cbn zeta in L, C.
  rewrite E, L, filter_In, negb_true_iff, C. unfold free.
  destruct (maze_sizes xs ys maze r (maze_ok_wf _ _ _ M)) as [Z1 Z2]. rewrite Z1.
  split; intros [(R & Cc & G) V]; (split; [|exact V]).
  - rewrite (Z2 R) in Cc. repeat split; try lia; exact G.
  - rewrite (Z2 R). repeat split; try lia; exact G.
Qed.

(* every maze: the return from reset is the score, and is the objective recomputed from the final state *)
Theorem reset_return xs ys T maze acts :
  let s0 := gen_state maze in
  let f := run xs ys T s0 acts in
  maze_ok_b xs ys (numpy_maze maze) = true -> free xs ys (numpy_maze maze) (px s0) (py s0) ->
  ret xs ys T s0 acts
  = 10 * (zlen (pellet_locs s0) - zlen (live (pellet_locs f))) + 50 * (zlen (live (pu_locs s0)) - zlen (live (pu_locs f)))
    + 200 * (4 - cnt (g_eaten f))
  /\ score f = ret xs ys T s0 acts.
Proof.
  cbn zeta. intros M F. pose proof (reset_Book xs ys maze M F) as B.
  destruct (return_is_objective xs ys T acts _ B) as (E & P & P0). cbn zeta in E, P, P0.
  destruct (reset_counters maze (maze_ok_origin _ _ _ M)) as (_ & _ & L & _ & S0 & _). cbn zeta in L, S0.
  rewrite L in P0. rewrite <- P, <- P0. split.
  - rewrite E. f_equal.
  - rewrite ret_score, S0. lia.
Qed.
