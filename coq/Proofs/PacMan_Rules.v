(* PacMan: the step follows the published rules for the player, the pellets, the power-ups and the score (C09). *)
Require Import JV.Base.Prelude JV.Base.JaxIndex JV.Base.Codec JV.Base.TimeStep JV.Gen.PacManConsts JV.Model.PacMan JV.Proofs.PacMan JV.Proofs.PacMan_Inv.

Theorem step_follows_rules xs ys T s a d :
  wf_grid xs ys (grid s) -> free xs ys (grid s) (px s) (py s) -> 0 <= a <= 4 ->
  let s' := fst (step xs ys T s a d) in
  rule_step xs ys T s a (ghost_rew xs ys s a d) (died xs ys s a d) =
  ((px s', py s'), pellet_locs s', pu_locs s', pellets s', fright s', rew xs ys s a d, score s',
   match st (snd (step xs ys T s a d)) with 2 => true | _ => false end)
  /\ reward (snd (step xs ys T s a d)) = [rew xs ys s a d].
Proof.
  intros W F A. cbn zeta. rewrite step_eq. cbn [fst snd px py pellet_locs pu_locs pellets fright score].
  unfold rule_step. rewrite <- (nxy_rule xs ys s a W F A).
  unfold done, rew, ate, eat. destruct (nxy xs ys s a) as [nx ny]. cbn [fst snd].
  change (existsb (fun p : Z * Z => (fst p =? ny) && (snd p =? nx)) (pellet_locs s)) with (existsb (hit nx ny) (pellet_locs s)).
  change (existsb (fun p : Z * Z => (fst p =? ny) && (snd p =? nx)) (pu_locs s)) with (existsb (hit nx ny) (pu_locs s)).
  unfold PELLET_REWARD, POWER_UP_REWARD, FRIGHT_TIME, cond_done.
  destruct (existsb (hit nx ny) (pellet_locs s)); destruct (existsb (hit nx ny) (pu_locs s)); cbn [b2z];
    rewrite ?Z.mul_1_r, ?Z.mul_0_r, ?Z.sub_0_r, ?Z.add_0_l;
    destruct ((T <=? sc s + 1) || died xs ys s a d || (_ =? 0)); cbn [st reward termination transition]; split; reflexivity.
Qed.
