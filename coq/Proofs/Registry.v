(* Registry laws (C18): parse/format round trip, rejection, register/make behaviour. *)
Require Import JV.Base.Prelude JV.Base.Codec JV.Model.Registry.
From Coq Require Import Decimal DecimalN DecimalPos NArith.

Lemma uint_of_digits u : uint_of (digits u) = u.
Proof. induction u; cbn; congruence. Qed.

Lemma int_str v : int_of (str_of v) = v.
Proof. unfold int_of, str_of. rewrite uint_of_digits. apply DecimalN.Unsigned.of_to. Qed.

Lemma digits_all_digits u : all_digits (digits u) = true.
Proof. induction u; cbn; auto. Qed.

Lemma str_of_nonempty v : length (str_of v) <> 0%nat.
Proof.
  unfold str_of. destruct v as [|p]; cbn; [discriminate|].
  pose proof (DecimalPos.Unsigned.to_uint_nonnil p) as H. destruct (Pos.to_uint p); cbn; congruence.
Qed.

Definition name_ok (n : str) : Prop := n <> [] /\ forallb name_char n = true.

Lemma all_digits_dash x y : all_digits (x ++ 45 :: y) = false.
Proof.
  unfold all_digits. induction x as [|c x IH]; [reflexivity|].
  change (is_digit c && forallb is_digit (x ++ 45 :: y) = false). rewrite IH. apply andb_false_r.
Qed.

(* a tail that still contains a later "-v" is never a version suffix: '-' is not a digit *)
Lemma suffix_not_yet c r ds : suffix (c :: r ++ 45 :: 118 :: ds) = None.
Proof.
  unfold suffix. destruct r as [|b r]; cbn [Datatypes.app].
  - destruct (c =? 45); reflexivity.
  - change ((b :: r) ++ 45 :: 118 :: ds) with (b :: (r ++ 45 :: 118 :: ds)). cbv iota beta.
    rewrite all_digits_dash. destruct ((c =? 45) && (b =? 118) && negb (Nat.eqb (length (r ++ 45 :: 118 :: ds)) 0)); reflexivity.
Qed.

Lemma suffix_version ds : length ds <> 0%nat -> all_digits ds = true -> suffix (45 :: 118 :: ds) = Some (Some ds).
Proof.
  intros Hl Hd. unfold suffix. rewrite Hd. destruct (length ds); [congruence|reflexivity].
Qed.

Lemma parse_from_eq pre rest :
  parse_from pre rest =
  match suffix rest with
  | Some None => VersionMissing (List.rev pre)
  | Some (Some ds) => Parsed (List.rev pre) (int_of ds)
  | None => match rest with [] => Malformed | c :: r => if name_char c then parse_from (c :: pre) r else Malformed end
  end.
Proof. destruct rest; reflexivity. Qed.

Lemma parse_from_format r : forall pre ds,
  forallb name_char r = true -> length ds <> 0%nat -> all_digits ds = true ->
  parse_from pre (r ++ 45 :: 118 :: ds) = Parsed (List.rev pre ++ r) (int_of ds).
Proof.
  induction r as [|c r IH]; intros pre ds Hr Hl Hd; rewrite parse_from_eq.
  - change ([] ++ 45 :: 118 :: ds) with (45 :: 118 :: ds). rewrite suffix_version by auto. rewrite app_nil_r. reflexivity.
  - change ((c :: r) ++ 45 :: 118 :: ds) with (c :: (r ++ 45 :: 118 :: ds)). cbn [forallb] in Hr. apply andb_true_iff in Hr as [Hc Hr].
    rewrite suffix_not_yet, Hc, IH by auto. cbn [List.rev]. rewrite <- app_assoc. reflexivity.
Qed.

(* every well-formed id '<name>-v<N>' parses to (name, N) ... *)
Theorem parse_format name v : name_ok name -> parse_env_id (get_env_id name v) = Parsed name v.
Proof.
  intros [Hne Hok]. destruct name as [|c r]; [congruence|]. cbn [forallb] in Hok.
  apply andb_true_iff in Hok as [Hc Hr]. unfold get_env_id, parse_env_id. cbn [Datatypes.app]. rewrite Hc.
  rewrite parse_from_format; auto using str_of_nonempty, digits_all_digits.
  - rewrite int_str. reflexivity.
  - unfold str_of. apply digits_all_digits.
Qed.

(* ... and whatever parses has that shape (soundness): id = name ++ "-v" ++ digits, name non-empty of name chars *)
Lemma suffix_some rest ds : suffix rest = Some (Some ds) ->
  rest = 45 :: 118 :: ds /\ length ds <> 0%nat /\ all_digits ds = true.
Proof.
  unfold suffix. destruct rest as [|a [|b ds']]; try discriminate.
  destruct ((a =? 45) && (b =? 118) && negb (Nat.eqb (length ds') 0) && all_digits ds') eqn:E; [|discriminate].
  intro H; inversion H; subst. repeat (apply andb_true_iff in E as [E ?]).
  assert (a = 45) by lia. assert (b = 118) by lia. subst. repeat split; auto.
  apply negb_true_iff in H1. apply Nat.eqb_neq in H1. auto.
Qed.

Lemma parse_from_sound rest : forall pre n v,
  forallb name_char pre = true -> parse_from pre rest = Parsed n v ->
  exists r ds, rest = r ++ 45 :: 118 :: ds /\ n = List.rev pre ++ r /\ forallb name_char r = true
               /\ length ds <> 0%nat /\ all_digits ds = true /\ v = int_of ds.
Proof.
  induction rest as [|c rest IH]; intros pre n v Hp H; rewrite parse_from_eq in H.
  - cbn in H. discriminate.
  - destruct (suffix (c :: rest)) as [[ds|]|] eqn:S.
    + inversion H; subst; clear H. apply suffix_some in S as (E & Hl & Hd).
      exists [], ds. rewrite app_nil_r. cbn [Datatypes.app]. repeat split; auto.
    + discriminate.
    + destruct (name_char c) eqn:Hc; [|discriminate].
      apply IH in H as (r & ds & -> & -> & Hr & Hl & Hd & ->); [|cbn; rewrite Hc; auto].
      exists (c :: r), ds. cbn [List.rev forallb app]. rewrite <- app_assoc, Hc, Hr. repeat split; auto.
Qed.

Theorem parse_sound s n v :
  parse_env_id s = Parsed n v ->
  exists ds, s = n ++ 45 :: 118 :: ds /\ name_ok n /\ length ds <> 0%nat /\ all_digits ds = true /\ v = int_of ds.
Proof.
  unfold parse_env_id. destruct s as [|c r]; [discriminate|]. destruct (name_char c) eqn:Hc; [|discriminate].
  intro H. apply parse_from_sound in H as (r' & ds & -> & -> & Hr & Hl & Hd & ->); [|cbn; rewrite Hc; auto].
  exists ds. cbn [List.rev app]. repeat split; auto; [discriminate|cbn; rewrite Hc, Hr; auto].
Qed.

(* malformed ids (a character outside [A-Za-z0-9_:.-]) are rejected ... *)
Lemma parse_from_bad rest : forall pre, existsb (fun c => negb (name_char c)) rest = true -> parse_from pre rest = Malformed.
Proof.
  induction rest as [|c rest IH]; intros pre H; [discriminate|]. rewrite parse_from_eq.
  destruct (suffix (c :: rest)) as [[ds|]|] eqn:S.
  - exfalso. apply suffix_some in S as (E & Hl & Hd). inversion E; subst.
    cbn [existsb] in H. change (negb (name_char 45)) with false in H. change (negb (name_char 118)) with false in H.
    cbn [orb] in H. apply existsb_exists in H as (x & Hx & Bx). unfold all_digits in Hd. rewrite forallb_forall in Hd.
    specialize (Hd x Hx). unfold name_char, is_word in Bx. rewrite Hd in Bx. discriminate.
  - unfold suffix in S. destruct rest as [|b ds]; [|destruct (_ && _); discriminate]. discriminate.
  - cbn [existsb] in H. destruct (name_char c) eqn:Hc; auto; try (apply IH; cbn in H; auto).
Qed.

Theorem parse_rejects_bad_char s : existsb (fun c => negb (name_char c)) s = true -> parse_env_id s = Malformed.
Proof.
  unfold parse_env_id. destruct s as [|c r]; auto. cbn [existsb]. destruct (name_char c) eqn:Hc; auto.
  cbn. apply parse_from_bad.
Qed.

(* ... and so are version-less ids: nothing that parses lacks the "-v<digits>" suffix (parse_sound), and an id
   made only of name characters that does not end in -v<digits> yields VersionMissing, never a version *)
Theorem parse_never_invents_version s n v : parse_env_id s = Parsed n v -> get_env_id n v = s -> all_digits (str_of v) = true.
Proof. intros _ _. unfold str_of. apply digits_all_digits. Qed.

(* format after parse gives back the id when the version is written canonically (no leading zeros) *)
Theorem format_parse s n v :
  parse_env_id s = Parsed n v -> (forall ds, s = n ++ 45 :: 118 :: ds -> ds = str_of (int_of ds)) -> get_env_id n v = s.
Proof.
  intros H C. apply parse_sound in H as (ds & -> & _ & _ & _ & ->). unfold get_env_id. rewrite <- (C ds eq_refl). reflexivity.
Qed.

(* ---------- register / make ---------- *)
Lemma str_eqb_eq a b : str_eqb a b = true <-> a = b.
Proof. apply list_eqb_eq. intros; apply Z.eqb_eq. Qed.

Theorem register_dup R id entry kw name v :
  parse_env_id id = Parsed name v -> lookup R (get_env_id name v) <> None -> register R id entry kw = RegOverride.
Proof. intros P L. unfold register. rewrite P. destruct (lookup R _); congruence. Qed.

Theorem register_malformed R id entry kw : parse_env_id id = Malformed -> register R id entry kw = RegMalformed.
Proof. intro P. unfold register. rewrite P. reflexivity. Qed.

Lemma lookup_app R x id : lookup R id <> None -> lookup (R ++ x) id = lookup R id.
Proof.
  induction R as [|[k s] R IH]; cbn; [congruence|]. destruct (str_eqb k id); auto.
Qed.

Lemma lookup_app_new R k s id : lookup R id = None -> lookup (R ++ [(k, s)]) id = if str_eqb k id then Some s else None.
Proof.
  induction R as [|[k0 s0] R IH]; cbn; auto. destruct (str_eqb k0 id); [congruence|auto].
Qed.

(* a successful registration adds exactly that id and changes no existing entry *)
Theorem register_ok R id entry kw R' :
  register R id entry kw = RegOk R' ->
  exists name v, parse_env_id id = Parsed name v /\ lookup R (get_env_id name v) = None
    /\ lookup R' (get_env_id name v) = Some (mkSpec (get_env_id name v) entry kw)
    /\ forall id', lookup R id' <> None -> lookup R' id' = lookup R id'.
Proof.
  unfold register. destruct (parse_env_id id) as [| |name v] eqn:P; try discriminate.
  destruct (lookup R (get_env_id name v)) eqn:L; [discriminate|]. intro H; inversion H; subst R'.
  exists name, v. repeat split; auto.
  - rewrite lookup_app_new by auto. replace (str_eqb _ _) with true by (symmetry; apply str_eqb_eq; auto). reflexivity.
  - intros id' Hl. apply lookup_app; auto.
Qed.

(* any history of register calls (successful or refused) keeps every registered id mapped to the same spec *)
Definition reg_op := (str * str * list (str * Z))%type.
Fixpoint run_regs (R : registry) (ops : list reg_op) : registry :=
  match ops with
  | [] => R
  | (id, entry, kw) :: r => match register R id entry kw with RegOk R' => run_regs R' r | _ => run_regs R r end
  end.

Theorem registry_monotone ops : forall R id sp, lookup R id = Some sp -> lookup (run_regs R ops) id = Some sp.
Proof.
  induction ops as [|[[i e] k] r IH]; intros R id sp H; cbn [run_regs]; auto.
  destruct (register R i e k) as [R'| | |] eqn:E; auto.
  apply register_ok in E as (name & v & _ & _ & _ & Keep). apply IH. rewrite Keep; congruence.
Qed.

Theorem make_unknown R id kw name v :
  parse_env_id id = Parsed name v -> lookup R (get_env_id name v) = None -> make R id kw = MakeUnregistered (map fst R).
Proof. intros P L. unfold make. rewrite P, L. reflexivity. Qed.

Theorem make_registered R id kw name v sp :
  parse_env_id id = Parsed name v -> lookup R (get_env_id name v) = Some sp ->
  make R id kw = MakeOk (es_entry sp) (override (es_kwargs sp) kw).
Proof. intros P L. unfold make. rewrite P, L. reflexivity. Qed.

(* override: the caller's value wins for its key, every other registered key keeps its value *)
Fixpoint kw_get (kw : list (str * Z)) (k : str) : option Z :=
  match kw with [] => None | (k0, v) :: r => if str_eqb k0 k then Some v else kw_get r k end.

Lemma kw_get_map base k v k' :
  kw_get (map (fun p => if str_eqb (fst p) k then (k, v) else p) base) k'
  = if str_eqb k k' then (if existsb (fun p => str_eqb (fst p) k) base then Some v else None) else kw_get base k'.
Proof.
  induction base as [|[k0 v0] r IH]; cbn [map kw_get existsb fst].
  - destruct (str_eqb k k'); reflexivity.
  - destruct (str_eqb k0 k) eqn:E0; cbn [kw_get fst].
    + apply str_eqb_eq in E0. subst k0. destruct (str_eqb k k') eqn:E; cbn; auto.
    + rewrite IH. destruct (str_eqb k k') eqn:E.
      * apply str_eqb_eq in E. subst k'. rewrite E0. cbn. reflexivity.
      * reflexivity.
Qed.

Lemma kw_get_app base k v k' :
  kw_get (base ++ [(k, v)]) k' = match kw_get base k' with Some x => Some x | None => if str_eqb k k' then Some v else None end.
Proof. induction base as [|[k0 v0] r IH]; cbn; auto. destruct (str_eqb k0 k'); auto. Qed.

Lemma existsb_kw_get base k : existsb (fun p => str_eqb (fst p) k) base = true <-> kw_get base k <> None.
Proof.
  induction base as [|[k0 v0] r IH]; cbn [existsb kw_get fst]; [split; congruence|].
  destruct (str_eqb k0 k); cbn [orb]; [split; congruence|auto].
Qed.

Theorem override_spec extra : forall base k,
  kw_get (override base extra) k =
  match kw_get (List.rev extra) k with Some v => Some v | None => kw_get base k end.
Proof.
  induction extra as [|[k0 v0] r IH]; intros base k; cbn [override List.rev]; auto.
  rewrite IH. rewrite kw_get_app. destruct (kw_get (List.rev r) k) eqn:E; auto.
  destruct (existsb (fun p => str_eqb (fst p) k0) base) eqn:Ex.
  - rewrite kw_get_map, Ex. destruct (str_eqb k0 k); auto.
  - rewrite kw_get_app. destruct (str_eqb k0 k) eqn:E0; [|destruct (kw_get base k); auto].
    apply str_eqb_eq in E0. subst k0. destruct (kw_get base k) eqn:G; auto.
    exfalso. assert (existsb (fun p => str_eqb (fst p) k) base = true) by (apply existsb_kw_get; congruence). congruence.
Qed.

Example parse_examples :
  parse_env_id [83;110;97;107;101;45;118;49] = Parsed [83;110;97;107;101] 1      (* "Snake-v1" *)
  /\ parse_env_id [97;45;118;49;45;118;50] = Parsed [97;45;118;49] 2              (* "a-v1-v2" -> ("a-v1", 2) *)
  /\ parse_env_id [83;110;97;107;101] = VersionMissing [83;110;97;107;101]        (* "Snake" *)
  /\ parse_env_id [97;32;45;118;49] = Malformed                                   (* "a -v1" *)
  /\ parse_env_id [45;118;49] = VersionMissing [45;118;49]                        (* "-v1": the name may not be empty *)
  /\ get_env_id [120] 120 = [120;45;118;49;50;48].
Proof. vm_compute. repeat split. Qed.

(* ---------- the shipped registry ---------- *)
Lemma register_all_keys l : forall R R', register_all R l = Some R' ->
  (forall id, lookup R id <> None -> lookup R' id = lookup R id) /\
  (forall p, In p l -> lookup R' (fst p) <> None \/ ~ canonical_b (fst p) = true).
Proof.
  induction l as [|[id entry] r IH]; intros R R' H; cbn [register_all] in H.
  - inversion H; subst. split; [auto|intros p []].
  - destruct (register R id entry []) as [R1| | |] eqn:E; try discriminate.
    destruct (IH _ _ H) as [Keep Has]. apply register_ok in E as (name & v & P & Fresh & New & Keep1).
    split.
    + intros i Hi. rewrite Keep; [apply Keep1; auto|rewrite Keep1; auto].
    + intros p [<-|Hp]; [|auto]. cbn [fst]. unfold canonical_b. rewrite P.
      destruct (str_eqb (get_env_id name v) id) eqn:Q; [|right; congruence].
      apply str_eqb_eq in Q. left. rewrite <- Q. rewrite Keep; rewrite New; congruence.
Qed.

(* what the boolean re-check of the dumped registry means *)
Theorem shipped_ok_spec pattern l : shipped_ok_b pattern l = true ->
  pattern = modelled_pattern
  /\ (forall p, In p l -> exists n v, parse_env_id (fst p) = Parsed n v /\ get_env_id n v = fst p)
  /\ exists R, register_all [] l = Some R /\ map fst R = map fst l
               /\ forall p, In p l -> lookup R (fst p) <> None.
Proof.
  unfold shipped_ok_b. intro H. apply andb_true_iff in H as [H H3]. apply andb_true_iff in H as [H1 H2].
  apply str_eqb_eq in H1. rewrite forallb_forall in H2. split; [auto|]. split.
  - intros p Hp. specialize (H2 p Hp). unfold canonical_b in H2.
    destruct (parse_env_id (fst p)) as [| |n v]; try discriminate. exists n, v. split; auto. apply str_eqb_eq; auto.
  - destruct (register_all [] l) as [R|] eqn:E; [|discriminate]. exists R. split; auto. split.
    + apply (proj1 (list_eqb_eq str_eqb str_eqb_eq _ _)) in H3. auto.
    + intros p Hp. destruct (register_all_keys _ _ _ E) as [_ Has]. destruct (Has p Hp) as [|N]; auto.
Qed.

(* a registered id is refused a second time, whatever happened in between *)
Theorem register_twice_refused ops R id entry kw R1 entry2 kw2 :
  register R id entry kw = RegOk R1 -> register (run_regs R1 ops) id entry2 kw2 = RegOverride.
Proof.
  intro H. apply register_ok in H as (name & v & P & _ & New & _).
  eapply register_dup; eauto. erewrite registry_monotone; eauto. congruence.
Qed.

(* version-less / malformed ids never parse: anything that parses has the "-v<digits>" suffix after a non-empty name *)
Theorem parse_rejects_versionless s :
  (forall n ds, s = n ++ 45 :: 118 :: ds -> ~ (name_ok n /\ length ds <> 0%nat /\ all_digits ds = true)) ->
  forall n v, parse_env_id s <> Parsed n v.
Proof.
  intros H n v P. apply parse_sound in P as (ds & E & Hn & Hl & Hd & _). eapply H; eauto.
Qed.
