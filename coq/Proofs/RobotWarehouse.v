(* RobotWarehouse, part 2: the sequential scan over the agents.
   - [Shape] (layer dimensions, table length, agents inside the grid) is preserved by EVERY action of every agent;
   - a masked-out FORWARD is a NOOP (C05): the agent's table entry is untouched by the whole scan;
   - the consistency invariant [WInv] (layers = tables, one agent / shelf per cell, carried shelf under its agent) is
     preserved by every joint action UNLESS the collision test fires (C07): the scan keeps the alternative
     "consistent so far" / "doomed: an agent that has already moved shares a cell or has lost its mark", and a doomed
     final world is exactly what [collisions] detects.                                                              *)
Require Import JV.Base.Prelude JV.Base.JaxIndex JV.Base.Codec JV.Base.TimeStep JV.Model.RobotWarehouse JV.Proofs.RobotWarehouse_lib.

Section Scan.
Variable c : cfg.
Let H := gh c.
Let W := gw c.
Variable hw : list (list bool).

Lemma fwd_inside x y d : inside c x y -> inside c (fst (fwd_pos H W x y d)) (snd (fwd_pos H W x y d)).
Proof.
  unfold inside, fwd_pos. fold H W. intros [Hx Hy].
  repeat match goal with |- context [if ?b then _ else _] => destruct b end; cbn [fst snd]; lia.
Qed.

Record Shape (n : Z) (w : world) : Prop := {
  sh_dgs : dims (w_gs w) H W; sh_dga : dims (w_ga w) H W;
  sh_nag : zlen (w_ag w) = n; sh_aok : Forall (agent_ok c) (w_ag w) }.

Lemma agent_ok_znth n w i : Shape n w -> 0 <= i < n -> agent_ok c (znth dA (w_ag w) i).
Proof. intros S Hi. apply Forall_znth; [apply S|]. rewrite (sh_nag _ _ S). exact Hi. Qed.

Lemma act_shape n w act i : Shape n w -> 0 <= i < n -> Shape n (act_agent H W hw w act i).
Proof.
  intros S Hi. pose proof (agent_ok_znth n w i S Hi) as [[Hx Hy] Hd].
  pose proof (sh_nag _ _ S) as L.
  unfold act_agent. rewrite jget_znth by lia. set (a := znth dA (w_ag w) i) in *.
  pose proof (fwd_inside (ax a) (ay a) (adir a) (conj Hx Hy)) as [Hpx Hpy].
  fold H W in Hx, Hy, Hpx, Hpy.
  assert (OKp : agent_ok c (mkA (fst (fwd_pos H W (ax a) (ay a) (adir a))) (snd (fwd_pos H W (ax a) (ay a) (adir a))) (adir a) (acar a))).
  { split; [split; assumption|exact Hd]. }
  destruct (act =? FORWARD).
  - destruct (acar a); constructor; cbn [w_gs w_ga w_ag w_sh];
      try (apply dims_gset; [apply dims_gset| |]; try apply S; assumption);
      try apply S; try (rewrite zlen_jset; exact L); try (apply Forall_jset; [apply S|exact OKp]).
  - destruct ((act =? LEFT) || (act =? RIGHT)).
    + constructor; cbn [w_gs w_ga w_ag w_sh]; try apply S; [rewrite zlen_jset; exact L|].
      apply Forall_jset; [apply S|]. split; [split; assumption|cbn [adir]; lia].
    + destruct (act =? TOGGLE); [|exact S].
      assert (K : forall b, Shape n (set_carry w i a b)).
      { intro b. constructor; cbn [set_carry w_gs w_ga w_ag w_sh]; try apply S; [rewrite zlen_jset; exact L|].
        apply Forall_jset; [apply S|]. split; [split; assumption|exact Hd]. }
      destruct (negb (acar a)).
      * destruct (0 <? _); [apply K|exact S].
      * destruct (negb _); [apply K|exact S].
Qed.

Lemma scan_shape n acts : forall w k, Shape n w -> 0 <= k -> k + zlen acts <= n ->
  Shape n (scan_agents H W hw w acts k).
Proof.
  induction acts as [|a r IH]; intros w k S Hk Hn; cbn [scan_agents]; [exact S|].
  rewrite zlen_cons in Hn. pose proof (zlen_nonneg r).
  apply IH; [apply act_shape; [exact S|lia]|lia|lia].
Qed.

(* ---------- what one action does to the agents' table ---------- *)
Lemma act_other_agent n w act i j : Shape n w -> 0 <= i < n -> 0 <= j -> j <> i ->
  znth dA (w_ag (act_agent H W hw w act i)) j = znth dA (w_ag w) j.
Proof.
  intros S Hi Hj Hne. pose proof (sh_nag _ _ S) as L.
  unfold act_agent. rewrite jget_znth by lia. set (a := znth dA (w_ag w) i).
  assert (K : forall v, znth dA (jset (w_ag w) i v) j = znth dA (w_ag w) j).
  { intro v. rewrite znth_jset by lia. destruct (j =? i) eqn:E; [lia|reflexivity]. }
  destruct (act =? FORWARD); [destruct (acar a); cbn [w_ag]; apply K|].
  destruct ((act =? LEFT) || (act =? RIGHT)); [cbn [w_ag]; apply K|].
  destruct (act =? TOGGLE); [|reflexivity].
  destruct (negb (acar a)).
  - destruct (0 <? _); [cbn [set_carry w_ag]; apply K|reflexivity].
  - destruct (negb _); [cbn [set_carry w_ag]; apply K|reflexivity].
Qed.

Lemma act_noop w i : act_agent H W hw w NOOP i = w.
Proof. reflexivity. Qed.

(* the entry of agent j after the scan of the agents k, k+1, ...: only its own action touches it *)
Lemma scan_entry n acts : forall w k j, Shape n w -> 0 <= k -> k + zlen acts <= n -> 0 <= j ->
  (k <= j < k + zlen acts -> znth 0 acts (j - k) = NOOP) ->
  znth dA (w_ag (scan_agents H W hw w acts k)) j = znth dA (w_ag w) j.
Proof.
  induction acts as [|a r IH]; intros w k j Sh Hk Hn Hj Hno; cbn [scan_agents]; [reflexivity|].
  rewrite zlen_cons in Hn, Hno. pose proof (zlen_nonneg r).
  rewrite IH; try lia.
  - destruct (Z.eq_dec j k) as [E|E].
    + subst j. assert (a = NOOP) as ->. { specialize (Hno ltac:(lia)). rewrite Z.sub_diag in Hno. exact Hno. }
      reflexivity.
    + apply (act_other_agent n); [exact Sh|lia|lia|exact E].
  - apply act_shape; [exact Sh|lia].
  - intro Hr. specialize (Hno ltac:(lia)).
    rewrite znth_nth in Hno by lia. rewrite znth_nth by lia.
    replace (Z.to_nat (j - k)) with (S (Z.to_nat (j - (k + 1)))) in Hno by lia. exact Hno.
Qed.

(* ---------- pointwise description of one action ---------- *)
Lemma gat_move g r k r2 k2 v x y :
  dims g H W -> 0 <= r < H -> 0 <= k < W -> 0 <= r2 < H -> 0 <= k2 < W -> 0 <= x < H -> 0 <= y < W ->
  gat 0 (gset (gset g r k 0) r2 k2 v) x y =
  if (x =? r2) && (y =? k2) then v else if (x =? r) && (y =? k) then 0 else gat 0 g x y.
Proof.
  intros D Hr Hk Hr2 Hk2 Hx Hy.
  rewrite (gat_gset _ H W) by (try apply dims_gset; assumption).
  destruct ((x =? r2) && (y =? k2)); [reflexivity|].
  apply (gat_gset _ H W); assumption.
Qed.

Lemma apos_jset ags i v j : 0 <= i < zlen ags -> 0 <= j ->
  apos (jset ags i v) j = if j =? i then (ax v, ay v) else apos ags j.
Proof. intros Hi Hj. unfold apos. rewrite znth_jset by lia. destruct (j =? i); reflexivity. Qed.

(* every action other than FORWARD leaves the layers, the shelves and all positions alone *)
Lemma act_nonfwd n w act i : Shape n w -> 0 <= i < n -> (act =? FORWARD) = false ->
  let w' := act_agent H W hw w act i in
  w_gs w' = w_gs w /\ w_ga w' = w_ga w /\ w_sh w' = w_sh w /\
  (forall j, 0 <= j -> apos (w_ag w') j = apos (w_ag w) j) /\
  (acar (znth dA (w_ag w') i) = true ->
   acar (znth dA (w_ag w) i) = true \/ gat 0 (w_gs w) (fst (apos (w_ag w) i)) (snd (apos (w_ag w) i)) <> 0).
Proof.
  intros Sh Hi Hf. pose proof (sh_nag _ _ Sh) as L.
  pose proof (agent_ok_znth n w i Sh Hi) as [[Hx Hy] Hd]. fold H W in Hx, Hy.
  cbv zeta. unfold act_agent. rewrite Hf. rewrite jget_znth by lia.
  set (a := znth dA (w_ag w) i) in *. change (apos (w_ag w) i) with (ax a, ay a). cbn [fst snd].
  assert (K : forall d b, (forall j, 0 <= j -> apos (jset (w_ag w) i (mkA (ax a) (ay a) d b)) j = apos (w_ag w) j)).
  { intros d b j Hj. rewrite apos_jset by lia. cbn [ax ay]. destruct (j =? i) eqn:E; [|reflexivity].
    assert (j = i) by lia. subst j. reflexivity. }
  destruct ((act =? LEFT) || (act =? RIGHT)).
  { cbn [w_gs w_ga w_ag w_sh]. repeat split; auto. rewrite znth_jset by lia. rewrite Z.eqb_refl. cbn [acar]. auto. }
  destruct (act =? TOGGLE); [|repeat split; auto].
  destruct (negb (acar a)) eqn:Ec.
  - destruct (0 <? gget 0 (w_gs w) (ax a) (ay a)) eqn:Eg; [|repeat split; auto].
    cbn [set_carry w_gs w_ga w_ag w_sh]. repeat split; auto. intros _. right.
    rewrite (gget_dims _ H W) in Eg by (try apply Sh; assumption). lia.
  - destruct (negb (gget false hw (ax a) (ay a))); [|repeat split; auto].
    cbn [set_carry w_gs w_ga w_ag w_sh]. repeat split; auto. rewrite znth_jset by lia. rewrite Z.eqb_refl. cbn [acar]. discriminate.
Qed.

(* FORWARD of agent i: from its cell to p *)
Lemma act_fwd n w i : Shape n w -> 0 <= i < n ->
  let a := znth dA (w_ag w) i in
  let p := fwd_pos H W (ax a) (ay a) (adir a) in
  let w' := act_agent H W hw w FORWARD i in
  inside c (fst p) (snd p) /\
  (forall j, 0 <= j -> apos (w_ag w') j = if j =? i then p else apos (w_ag w) j) /\
  acar (znth dA (w_ag w') i) = acar a /\
  (forall x y, inside c x y -> gat 0 (w_ga w') x y =
     if (x =? fst p) && (y =? snd p) then i + 1 else if (x =? ax a) && (y =? ay a) then 0 else gat 0 (w_ga w) x y) /\
  (acar a = false -> w_gs w' = w_gs w /\ w_sh w' = w_sh w) /\
  (acar a = true ->
     let sid := gat 0 (w_gs w) (ax a) (ay a) in
     w_sh w' = jset (w_sh w) (sid - 1) (mkSh (fst p) (snd p) (sreq (jget dSh (w_sh w) (sid - 1)))) /\
     forall x y, inside c x y -> gat 0 (w_gs w') x y =
       if (x =? fst p) && (y =? snd p) then sid else if (x =? ax a) && (y =? ay a) then 0 else gat 0 (w_gs w) x y).
Proof.
  intros Sh Hi. pose proof (sh_nag _ _ Sh) as L.
  pose proof (agent_ok_znth n w i Sh Hi) as [[Hx Hy] Hd].
  cbv zeta. unfold act_agent. rewrite jget_znth by lia. set (a := znth dA (w_ag w) i) in *.
  pose proof (fwd_inside (ax a) (ay a) (adir a) (conj Hx Hy)) as Hp.
  set (p := fwd_pos H W (ax a) (ay a) (adir a)) in *. destruct Hp as [Hpx Hpy].
  fold H W in Hx, Hy, Hpx, Hpy.
  replace (FORWARD =? FORWARD) with true by reflexivity.
  split; [split; assumption|].
  assert (P : forall j, 0 <= j -> apos (jset (w_ag w) i (mkA (fst p) (snd p) (adir a) (acar a))) j = if j =? i then p else apos (w_ag w) j).
  { intros j Hj. rewrite apos_jset by lia. cbn [ax ay]. destruct p; reflexivity. }
  assert (G : forall g v x y, dims g H W -> inside c x y -> gat 0 (gset (gset g (ax a) (ay a) 0) (fst p) (snd p) v) x y =
     if (x =? fst p) && (y =? snd p) then v else if (x =? ax a) && (y =? ay a) then 0 else gat 0 g x y).
  { intros g v x y D [Hx' Hy']. apply gat_move; assumption. }
  destruct (acar a) eqn:Ec; cbn [w_gs w_ga w_ag w_sh].
  - split; [exact P|]. split; [rewrite znth_jset by lia; rewrite Z.eqb_refl; reflexivity|].
    split; [intros x y Hxy; apply G; [apply Sh|exact Hxy]|].
    split; [discriminate|]. intros _.
    rewrite (gget_dims _ H W) by (try apply Sh; assumption).
    split; [reflexivity|]. intros x y Hxy. apply G; [apply Sh|exact Hxy].
  - split; [exact P|]. split; [rewrite znth_jset by lia; rewrite Z.eqb_refl; reflexivity|].
    split; [intros x y Hxy; apply G; [apply Sh|exact Hxy]|].
    split; [auto|discriminate].
Qed.

End Scan.

(* ---------- moving one entry of a table together with its mark on the layer ---------- *)
Lemma move_layer c (g g' : list (list Z)) (pos pos' : Z -> Z * Z) (N k : Z) (src dst : Z * Z) :
  layer_of_table g pos N -> table_of_layer c g pos N -> 0 <= k < N -> pos k = src ->
  inside c (fst src) (snd src) -> inside c (fst dst) (snd dst) ->
  (forall j, 0 <= j < N -> inside c (fst (pos j)) (snd (pos j))) ->
  (dst = src \/ gat 0 g (fst dst) (snd dst) = 0) ->
  (forall j, 0 <= j -> pos' j = if j =? k then dst else pos j) ->
  (forall x y, inside c x y -> gat 0 g' x y =
     if (x =? fst dst) && (y =? snd dst) then k + 1 else if (x =? fst src) && (y =? snd src) then 0 else gat 0 g x y) ->
  layer_of_table g' pos' N /\ table_of_layer c g' pos' N.
Proof.
  intros L1 L2 Hk Ek Is Id Ip Free P' G. destruct src as [sx0 sy0]. destruct dst as [dx dy]. cbn [fst snd] in *.
  split.
  - intros j Hj. rewrite P' by lia. destruct (j =? k) eqn:E.
    + cbn [fst snd]. rewrite G by exact Id. rewrite !Z.eqb_refl. cbn [andb]. lia.
    + pose proof (L1 j Hj) as Lj. pose proof (L1 k Hk) as Lk. rewrite Ek in Lk. cbn [fst snd] in Lk.
      specialize (Ip j Hj). destruct (pos j) as [x y] eqn:Epj. cbn [fst snd] in *.
      rewrite G by exact Ip.
      destruct ((x =? dx) && (y =? dy)) eqn:E1.
      { assert (x = dx /\ y = dy) as [-> ->] by lia. destruct Free as [F|F]; [inversion F; subst; lia|lia]. }
      destruct ((x =? sx0) && (y =? sy0)) eqn:E2.
      { assert (x = sx0 /\ y = sy0) as [-> ->] by lia. lia. }
      exact Lj.
  - intros x y Ixy Hne. rewrite G in Hne |- * by exact Ixy.
    destruct ((x =? dx) && (y =? dy)) eqn:E1.
    { assert (x = dx /\ y = dy) as [-> ->] by lia. split; [lia|].
      rewrite P' by lia. replace (k + 1 - 1 =? k) with true by lia. reflexivity. }
    destruct ((x =? sx0) && (y =? sy0)) eqn:E2; [congruence|].
    destruct (L2 x y Ixy Hne) as [R E]. split; [exact R|].
    rewrite P' by lia. destruct (gat 0 g x y - 1 =? k) eqn:E3; [|exact E].
    assert (gat 0 g x y - 1 = k) as Ek' by lia. rewrite Ek' in E. rewrite Ek in E. inversion E; subst. lia.
Qed.

Section Step.
Variable c : cfg.
Let H := gh c.
Let W := gw c.
Variable hw : list (list bool).
Variables n m : Z.
Variable gs0 : list (list Z).
Variable ags0 : list agent.
Hypothesis Dgs0 : dims gs0 H W.

Lemma WInv_Shape w : WInv c n m w -> Shape c n w.
Proof. intro I. constructor; apply I. Qed.

(* consistent so far; the shelves layer differs from the one the mask was computed on only where an agent that
   has already moved stands (or where a shelf has left); the agents still to move are untouched *)
Definition Good (k : Z) (w : world) : Prop :=
  WInv c n m w /\
  (forall x y, inside c x y -> gat 0 (w_gs w) x y <> gat 0 gs0 x y ->
     gat 0 (w_gs w) x y = 0 \/ exists i, 0 <= i < k /\ apos (w_ag w) i = (x, y)) /\
  (forall i, k <= i < n -> znth dA (w_ag w) i = znth dA ags0 i).
(* an agent that has already moved shares its cell with another agent, or has lost its mark on the layer *)
Definition Doomed (k : Z) (w : world) : Prop :=
  (exists i j, 0 <= i < k /\ 0 <= j < n /\ i <> j /\ apos (w_ag w) i = apos (w_ag w) j)
  \/ (exists i, 0 <= i < k /\ gat 0 (w_ga w) (fst (apos (w_ag w) i)) (snd (apos (w_ag w) i)) <> i + 1).
(* the action really played is FORWARD only if the mask (computed before the scan) allows it *)
Definition OKact (a0 : agent) (act : Z) : Prop := act = FORWARD -> valid_action H W gs0 a0 FORWARD = true.

Lemma apos_inside w i : Shape c n w -> 0 <= i < n -> inside c (fst (apos (w_ag w) i)) (snd (apos (w_ag w) i)).
Proof. intros Sh Hi. destruct (agent_ok_znth c n w i Sh Hi) as [I _]. exact I. Qed.

Lemma act_doomed w act k : Shape c n w -> 0 <= k < n -> Doomed k w -> Doomed (k + 1) (act_agent H W hw w act k).
Proof.
  intros Sh Hk D. destruct (act =? FORWARD) eqn:Ef.
  - assert (act = FORWARD) as -> by lia.
    destruct (act_fwd c hw n w k Sh Hk) as (Hp & P & _ & G & _). fold H W in P, G.
    set (a := znth dA (w_ag w) k) in *. set (p := fwd_pos H W (ax a) (ay a) (adir a)) in *.
    set (w' := act_agent H W hw w FORWARD k) in *.
    destruct D as [(i & j & Hi & Hj & Hne & E) | (i & Hi & E)].
    + destruct (Z.eq_dec j k) as [->|Hjk].
      * assert (Ei : apos (w_ag w) i = (ax a, ay a)) by (rewrite E; reflexivity).
        destruct ((ax a =? fst p) && (ay a =? snd p)) eqn:Ep.
        -- left. exists i, k. repeat split; try lia. rewrite !P by lia. rewrite Z.eqb_refl.
           replace (i =? k) with false by lia. rewrite Ei. destruct p; cbn [fst snd] in *. f_equal; lia.
        -- right. exists i. split; [lia|]. rewrite P by lia. replace (i =? k) with false by lia. rewrite Ei. cbn [fst snd].
           rewrite G by (apply (agent_ok_znth c n w k Sh Hk)). rewrite Ep. rewrite !Z.eqb_refl. cbn [andb]. lia.
      * left. exists i, j. repeat split; try lia. rewrite !P by lia.
        replace (i =? k) with false by lia. replace (j =? k) with false by lia. exact E.
    + right. exists i. split; [lia|]. rewrite P by lia. replace (i =? k) with false by lia.
      pose proof (apos_inside w i Sh ltac:(lia)) as Ii. rewrite G by exact Ii.
      destruct (_ && _); [lia|]. destruct (_ && _); [lia|exact E].
  - destruct (act_nonfwd c hw n w act k Sh Hk Ef) as (_ & Ega & _ & P & _). fold H W in Ega, P.
    destruct D as [(i & j & Hi & Hj & Hne & E) | (i & Hi & E)].
    + left. exists i, j. repeat split; try lia. rewrite !P by lia. exact E.
    + right. exists i. split; [lia|]. rewrite P by lia. rewrite Ega. exact E.
Qed.

Lemma good_nonfwd w act k : 0 <= k < n -> Good k w -> (act =? FORWARD) = false -> Good (k + 1) (act_agent H W hw w act k).
Proof.
  intros Hk (I & S5 & Un) Ef. pose proof (WInv_Shape w I) as Sh.
  destruct (act_nonfwd c hw n w act k Sh Hk Ef) as (Egs & Ega & Esh & P & Car). fold H W in Egs, Ega, Esh, P, Car.
  pose proof (act_shape c hw n w act k Sh Hk) as Sh'. fold H W in Sh'.
  set (w' := act_agent H W hw w act k) in *.
  split; [|split].
  - constructor; try apply Sh'; try (rewrite ?Egs, ?Ega, ?Esh; apply I).
    + intros i Hi. rewrite P by lia. rewrite Ega. apply (wi_a1 _ _ _ _ I). exact Hi.
    + intros x y Ixy Hne. rewrite Ega in Hne |- *. destruct (wi_a2 _ _ _ _ I x y Ixy Hne) as [R E].
      split; [exact R|]. rewrite P by lia. exact E.
    + intros i Hi Hc. rewrite P by lia. rewrite Egs.
      destruct (Z.eq_dec i k) as [->|Hne].
      * destruct (Car Hc) as [C|C]; [apply (wi_car _ _ _ _ I); assumption|exact C].
      * apply (wi_car _ _ _ _ I); [exact Hi|].
        unfold w' in Hc. rewrite (act_other_agent c hw n) in Hc by (try assumption; lia). exact Hc.
  - intros x y Ixy Hne. rewrite Egs in Hne |- *. destruct (S5 x y Ixy Hne) as [Z0|(i & Hi & E)]; [left; exact Z0|].
    right. exists i. split; [lia|]. rewrite P by lia. exact E.
  - intros i Hi. unfold w'. rewrite (act_other_agent c hw n) by (try assumption; lia). apply Un. lia.
Qed.

Lemma good_fwd w k : 0 <= k < n -> Good k w -> OKact (znth dA ags0 k) FORWARD ->
  Good (k + 1) (act_agent H W hw w FORWARD k) \/ Doomed (k + 1) (act_agent H W hw w FORWARD k).
Proof.
  intros Hk (I & S5 & Un) OK. pose proof (WInv_Shape w I) as Sh.
  destruct (act_fwd c hw n w k Sh Hk) as (Hp & P & Ecar & G & NC & CA). fold H W in Hp, P, Ecar, G, NC, CA.
  pose proof (act_shape c hw n w FORWARD k Sh Hk) as Sh'. fold H W in Sh'.
  pose proof (Un k ltac:(lia)) as Ea.
  set (a := znth dA (w_ag w) k) in *. set (p := fwd_pos H W (ax a) (ay a) (adir a)) in *.
  set (w' := act_agent H W hw w FORWARD k) in *.
  destruct (agent_ok_znth c n w k Sh Hk) as [Ia _]. fold a in Ia.
  assert (Ek : apos (w_ag w) k = (ax a, ay a)) by reflexivity.
  (* is the target cell occupied by another agent? *)
  assert (Dec : (p = (ax a, ay a) \/ gat 0 (w_ga w) (fst p) (snd p) = 0)
                \/ (gat 0 (w_ga w) (fst p) (snd p) <> 0 /\ (fst p =? ax a) && (snd p =? ay a) = false)).
  { destruct (Z.eq_dec (gat 0 (w_ga w) (fst p) (snd p)) 0) as [Fz|Fnz]; [left; right; exact Fz|].
    destruct ((fst p =? ax a) && (snd p =? ay a)) eqn:Eself; [|right; split; [exact Fnz|reflexivity]].
    left. left. destruct p; cbn [fst snd] in *. f_equal; lia. }
  destruct Dec as [FreeA|[Fnz Eself]].
  2:{ right. left. destruct (wi_a2 _ _ _ _ I _ _ Hp Fnz) as [R E].
      set (v := gat 0 (w_ga w) (fst p) (snd p)) in *.
      exists k, (v - 1).
      assert (v - 1 <> k).
      { intro E'. rewrite E' in E. rewrite Ek in E. destruct p; cbn [fst snd] in *. inversion E. lia. }
      repeat split; try lia. rewrite !P by lia. rewrite Z.eqb_refl.
      destruct (v - 1 =? k) eqn:E3; [lia|]. rewrite E. destruct p; reflexivity. }
  left.
  all: assert (Ipos : forall j, 0 <= j < n -> inside c (fst (apos (w_ag w) j)) (snd (apos (w_ag w) j)))
         by (intros j Hj; apply apos_inside; assumption).
  all: destruct (move_layer c (w_ga w) (w_ga w') (apos (w_ag w)) (apos (w_ag w')) n k (ax a, ay a) p
                   (wi_a1 _ _ _ _ I) (wi_a2 _ _ _ _ I) Hk Ek Ia Hp Ipos FreeA P G) as [A1 A2].
  (* other agents are neither on the source nor on the target cell *)
  all: assert (Oth : forall i, 0 <= i < n -> i <> k ->
         let q := apos (w_ag w) i in ((fst q =? fst p) && (snd q =? snd p) = false) /\ ((fst q =? ax a) && (snd q =? ay a) = false)).
  { intros i Hi Hne; cbv zeta; pose proof (wi_a1 _ _ _ _ I i Hi) as Li; pose proof (wi_a1 _ _ _ _ I k Hk) as Lk;
        rewrite Ek in Lk; cbn [fst snd] in Lk; destruct (apos (w_ag w) i) as [x y]; cbn [fst snd] in *; split;
        [destruct ((x =? fst p) && (y =? snd p)) eqn:E1; [|reflexivity];
           assert (x = fst p /\ y = snd p) as [-> ->] by lia;
           destruct FreeA as [F|F]; [rewrite F in Li; cbn [fst snd] in Li; lia|lia]
        |destruct ((x =? ax a) && (y =? ay a)) eqn:E2; [|reflexivity];
           assert (x = ax a /\ y = ay a) as [-> ->] by lia; lia]. }
  all: destruct (acar a) eqn:Ec.
  (* ---- not carrying: shelves untouched ---- *)
  2:{ destruct (NC eq_refl) as [Egs Esh]. split; [|split].
      - constructor; try apply Sh'; try exact A1; try exact A2; try (rewrite ?Egs, ?Esh; apply I).
        intros i Hi Hc. rewrite P by lia. rewrite Egs. destruct (i =? k) eqn:Eik.
        + assert (i = k) as -> by lia. rewrite Ecar in Hc. congruence.
        + unfold w' in Hc. rewrite (act_other_agent c hw n) in Hc by (try assumption; lia).
          apply (wi_car _ _ _ _ I); assumption.
      - intros x y Ixy Hne. rewrite Egs in Hne |- *. destruct (S5 x y Ixy Hne) as [Z0|(i & Hi & E)]; [left; exact Z0|].
        right. exists i. split; [lia|]. rewrite P by lia. replace (i =? k) with false by lia. exact E.
      - intros i Hi. unfold w'. rewrite (act_other_agent c hw n) by (try assumption; lia). apply Un. lia. }
  (* ---- carrying ---- *)
  all: destruct (CA eq_refl) as [Esh Gs]; cbv zeta in Esh, Gs.
  all: pose proof (wi_car _ _ _ _ I k Hk Ec) as Sid; rewrite Ek in Sid; cbn [fst snd] in Sid.
  all: set (sid := gat 0 (w_gs w) (ax a) (ay a)) in *.
  all: destruct (wi_s2 _ _ _ _ I _ _ Ia Sid) as [Rs Es]; fold sid in Rs, Es.
  all: pose proof (wi_nsh _ _ _ _ I) as Lsh.
  (* the mask allowed the move: the target cell held no shelf when the mask was computed, hence holds none now *)
  all: assert (FreeS : p = (ax a, ay a) \/ gat 0 (w_gs w) (fst p) (snd p) = 0).
  { specialize (OK eq_refl); unfold valid_action in OK; rewrite <- Ea in OK; fold a p in OK; rewrite Ec in OK;
        replace (FORWARD =? FORWARD) with true in OK by reflexivity; cbn [andb] in OK;
        destruct ((ax a =? fst p) && (ay a =? snd p)) eqn:E1;
        [left; destruct p; cbn [fst snd] in *; f_equal; lia|];
        right; cbn [negb andb] in OK;
        rewrite (gget_dims _ H W) in OK by (try exact Dgs0; apply Hp);
        assert (G0 : gat 0 gs0 (fst p) (snd p) = 0) by lia;
        destruct (Z.eq_dec (gat 0 (w_gs w) (fst p) (snd p)) (gat 0 gs0 (fst p) (snd p))) as [E2|E2]; [lia|];
        destruct (S5 _ _ Hp E2) as [Z0|(i & Hi & E)]; [exact Z0|];
        pose proof (wi_a1 _ _ _ _ I i ltac:(lia)) as Li; rewrite E in Li; cbn [fst snd] in Li;
        destruct FreeA as [F|F]; [rewrite F in E1; cbn [fst snd] in E1; rewrite !Z.eqb_refl in E1; discriminate|lia]. }
  all: assert (Ps : forall j, 0 <= j -> spos (w_sh w') j = if j =? sid - 1 then p else spos (w_sh w) j)
         by (intros j Hj; rewrite Esh; unfold spos; rewrite znth_jset by lia; destruct (j =? sid - 1); [destruct p|]; reflexivity).
  all: assert (Isp : forall j, 0 <= j < m -> inside c (fst (spos (w_sh w) j)) (snd (spos (w_sh w) j)))
         by (intros j Hj; apply (Forall_znth (shelf_ok c) dSh); [apply I|lia]).
  all: assert (Gs' : forall x y, inside c x y -> gat 0 (w_gs w') x y =
          if (x =? fst p) && (y =? snd p) then (sid - 1) + 1 else if (x =? fst (ax a, ay a)) && (y =? snd (ax a, ay a)) then 0 else gat 0 (w_gs w) x y)
         by (intros x y Ixy; rewrite Gs by exact Ixy; replace (sid - 1 + 1) with sid by lia; reflexivity).
  all: destruct (move_layer c (w_gs w) (w_gs w') (spos (w_sh w)) (spos (w_sh w')) m (sid - 1) (ax a, ay a) p
                   (wi_s1 _ _ _ _ I) (wi_s2 _ _ _ _ I) ltac:(lia) Es Ia Hp Isp FreeS Ps Gs') as [S1 S2].
  all: split; [|split].
  1: constructor; try apply Sh'; try exact A1; try exact A2; try exact S1; try exact S2.
  1: rewrite Esh, zlen_jset; exact Lsh.
  1: rewrite Esh; apply Forall_jset; [apply I|exact Hp].
  1: (intros i Hi Hc; rewrite P by lia; destruct (i =? k) eqn:Eik;
        [rewrite Gs by exact Hp; rewrite !Z.eqb_refl; cbn [andb]; exact Sid|];
        destruct (Oth i Hi ltac:(lia)) as [O1 O2]; cbv zeta in O1, O2;
        rewrite Gs by (apply Ipos; exact Hi); rewrite O1, O2;
        apply (wi_car _ _ _ _ I); [exact Hi|];
        unfold w' in Hc; rewrite (act_other_agent c hw n) in Hc by (try assumption; lia); exact Hc).
  1: (intros x y Ixy Hne; rewrite Gs in Hne |- * by exact Ixy;
        destruct ((x =? fst p) && (y =? snd p)) eqn:E1;
        [right; exists k; split; [lia|]; rewrite P by lia; rewrite Z.eqb_refl; destruct p; cbn [fst snd] in *; f_equal; lia|];
        destruct ((x =? ax a) && (y =? ay a)) eqn:E2; [left; reflexivity|];
        destruct (S5 x y Ixy Hne) as [Z0|(i & Hi & E)]; [left; exact Z0|];
        right; exists i; split; [lia|]; rewrite P by lia; replace (i =? k) with false by lia; exact E).
  all: intros i Hi; unfold w'; rewrite (act_other_agent c hw n) by (try assumption; lia); apply Un; lia.
Qed.

Lemma znth_cons_succ {A} (d x : A) l i : 0 <= i -> znth d (x :: l) (i + 1) = znth d l i.
Proof.
  intro Hi. unfold znth. destruct (i + 1 <? 0) eqn:E1; [lia|]. destruct (i <? 0) eqn:E2; [lia|].
  replace (Z.to_nat (i + 1)) with (S (Z.to_nat i)) by lia. reflexivity.
Qed.

Lemma scan_good_or_doomed acts : forall w k, Shape c n w -> 0 <= k -> k + zlen acts <= n ->
  Good k w \/ Doomed k w ->
  (forall j, 0 <= j < zlen acts -> OKact (znth dA ags0 (k + j)) (znth 0 acts j)) ->
  let w' := scan_agents H W hw w acts k in Good (k + zlen acts) w' \/ Doomed (k + zlen acts) w'.
Proof.
  induction acts as [|a r IH]; intros w k Sh Hk Hn GD OK; cbn [scan_agents].
  - change (zlen (@nil Z)) with 0. rewrite Z.add_0_r. exact GD.
  - rewrite zlen_cons in *. pose proof (zlen_nonneg r).
    replace (k + (1 + zlen r)) with (k + 1 + zlen r) by lia.
    apply IH; [apply act_shape; [exact Sh|lia]|lia|lia| |].
    + destruct GD as [G|D]; [|right; apply act_doomed; [exact Sh|lia|exact D]].
      destruct (a =? FORWARD) eqn:Ef.
      * assert (a = FORWARD) as -> by lia. apply good_fwd; [lia|exact G|].
        specialize (OK 0 ltac:(lia)). rewrite Z.add_0_r in OK. exact OK.
      * left. apply good_nonfwd; [lia|exact G|exact Ef].
    + intros j Hj. specialize (OK (j + 1) ltac:(lia)). rewrite znth_cons_succ in OK by lia.
      replace (k + 1 + j) with (k + (j + 1)) by lia. exact OK.
Qed.

Lemma collisions_false ga : forall ags k, collisions ga ags k = false ->
  forall j, 0 <= j < zlen ags -> gget 0 ga (ax (znth dA ags j)) (ay (znth dA ags j)) = k + j + 1.
Proof.
  induction ags as [|a r IH]; intros k Hc j Hj; [change (zlen (@nil agent)) with 0 in Hj; lia|].
  cbn [collisions] in Hc. apply orb_false_iff in Hc as [H1 H2]. rewrite zlen_cons in Hj.
  destruct (Z.eq_dec j 0) as [->|Hne].
  - change (znth dA (a :: r) 0) with a. lia.
  - replace j with (j - 1 + 1) by lia. rewrite znth_cons_succ by lia.
    rewrite (IH (k + 1) H2 (j - 1)) by lia. lia.
Qed.

Lemma doomed_collides w : Shape c n w -> Doomed n w -> collisions (w_ga w) (w_ag w) 0 = true.
Proof.
  intros Sh D. destruct (collisions (w_ga w) (w_ag w) 0) eqn:Ec; [reflexivity|exfalso].
  pose proof (collisions_false _ _ _ Ec) as Hc. rewrite (sh_nag _ _ _ Sh) in Hc.
  assert (Hg : forall i, 0 <= i < n -> gat 0 (w_ga w) (fst (apos (w_ag w) i)) (snd (apos (w_ag w) i)) = i + 1).
  { intros i Hi. pose proof (apos_inside w i Sh Hi) as [Ix Iy]. specialize (Hc i Hi).
    rewrite (gget_dims _ H W) in Hc by (try apply Sh; assumption). unfold apos. cbn [fst snd]. lia. }
  destruct D as [(i & j & Hi & Hj & Hne & E) | (i & Hi & E)].
  - pose proof (Hg i ltac:(lia)) as Gi. pose proof (Hg j Hj) as Gj. rewrite E in Gi. lia.
  - apply E. apply Hg. lia.
Qed.

End Step.

(* ================= the step ================= *)
Lemma znth_cons_succ' {A} (d x : A) l i : 0 <= i -> znth d (x :: l) (i + 1) = znth d l i.
Proof.
  intro Hi. unfold znth. destruct (i + 1 <? 0) eqn:E1; [lia|]. destruct (i <? 0) eqn:E2; [lia|].
  replace (Z.to_nat (i + 1)) with (S (Z.to_nat i)) by lia. reflexivity.
Qed.

Lemma zlen_nil_cons_absurd {A B} (x : B) (l : list B) : zlen (@nil A) = zlen (x :: l) -> False.
Proof. rewrite zlen_cons. change (zlen (@nil A)) with 0. pose proof (zlen_nonneg l). lia. Qed.

Lemma zlen_sanitize mask : forall acts, zlen mask = zlen acts -> zlen (sanitize mask acts) = zlen acts.
Proof.
  induction mask as [|r mask IH]; intros [|a acts] L.
  - reflexivity.
  - exfalso. exact (zlen_nil_cons_absurd _ _ L).
  - exfalso. symmetry in L. exact (zlen_nil_cons_absurd _ _ L).
  - unfold sanitize in *. cbn [map2]. rewrite !zlen_cons in *. rewrite IH; lia.
Qed.

Lemma znth_sanitize mask : forall acts j, zlen mask = zlen acts -> 0 <= j < zlen acts ->
  znth 0 (sanitize mask acts) j = sanitize1 (znth [] mask j) (znth 0 acts j).
Proof.
  induction mask as [|r mask IH]; intros [|a acts] j L Hj.
  - change (zlen (@nil Z)) with 0 in Hj. lia.
  - exfalso. exact (zlen_nil_cons_absurd _ _ L).
  - exfalso. symmetry in L. exact (zlen_nil_cons_absurd _ _ L).
  - unfold sanitize in *. cbn [map2]. rewrite !zlen_cons in *.
    destruct (Z.eq_dec j 0) as [->|Hne]; [reflexivity|].
    replace j with (j - 1 + 1) by lia. rewrite !znth_cons_succ' by lia. apply IH; lia.
Qed.

Lemma sanitize1_forward (f : Z -> bool) a : sanitize1 (map f (zrange 5)) a = FORWARD -> f FORWARD = true.
Proof.
  unfold sanitize1. destruct (jget false (map f (zrange 5)) a) eqn:E; [|discriminate].
  intros ->. exact E.
Qed.

Lemma sanitize1_masked row a : jget false row a = false -> sanitize1 row a = NOOP.
Proof. unfold sanitize1. intros ->. reflexivity. Qed.

Lemma Inv_world_shape c s : Inv c s -> Shape c (nag c) (world_of s).
Proof. intros I. apply (WInv_Shape c (nag c) (zlen (shelves s))). apply I. Qed.

(* C07, core: whatever the agents play, the world after the scan is consistent unless the collision test fires *)
Theorem moved_WInv c s acts : Inv c s -> zlen acts = nag c -> collided c s acts = false ->
  WInv c (nag c) (zlen (shelves s)) (moved c s acts).
Proof.
  intros I L Hc. unfold collided in Hc. unfold moved in *.
  pose proof (Inv_world_shape c s I) as Sh.
  assert (Lm : zlen (amask s) = zlen acts).
  { rewrite (inv_mask _ _ I). unfold compute_mask. rewrite zlen_map. rewrite L. apply (sh_nag _ _ _ Sh). }
  pose proof (scan_good_or_doomed c (highways c) (nag c) (zlen (shelves s)) (gsh s) (agents s)
                (wi_dgs _ _ _ _ (inv_w _ _ I)) (sanitize (amask s) acts) (world_of s) 0 Sh ltac:(lia)) as K.
  rewrite zlen_sanitize in K by exact Lm. rewrite L in K. cbv zeta in K. rewrite Z.add_0_l in K.
  destruct K as [G|D].
  - lia.
  - left. split; [apply I|]. split; [intros x y _ Hne; exfalso; apply Hne; reflexivity|reflexivity].
  - intros j Hj E. rewrite Z.add_0_l. rewrite znth_sanitize in E by lia.
    rewrite (inv_mask _ _ I) in E. unfold compute_mask in E.
    pose proof (sh_nag _ _ _ Sh) as La. cbn [world_of w_ag] in La.
    rewrite (znth_map _ dA) in E by lia.
    apply sanitize1_forward in E. exact E.
  - apply G.
  - apply (doomed_collides c (nag c)) in D; [congruence|].
    apply scan_shape; [exact Sh|lia|]. rewrite zlen_sanitize by exact Lm. lia.
Qed.
