(* RobotWarehouse, part 4: the boolean checkers run on implementation states are sound for the declarative
   invariant, and concrete example states (used by the non-vacuity examples of Props/).                     *)
Require Import JV.Base.Prelude JV.Base.JaxIndex JV.Base.Codec JV.Base.TimeStep JV.Model.RobotWarehouse
               JV.Proofs.RobotWarehouse_lib JV.Proofs.RobotWarehouse JV.Proofs.RobotWarehouse_Step.

Lemma existsb_eqb_In j q : existsb (Z.eqb j) q = true <-> In j q.
Proof.
  rewrite existsb_exists. split; [intros (x & Hx & E); assert (j = x) by lia; subst; exact Hx|].
  intro Hin. exists j. split; [exact Hin|lia].
Qed.

Lemma nodup_b_sound l : nodup_b l = true -> NoDup l.
Proof.
  induction l as [|x r IH]; intro Hb; [constructor|]. cbn [nodup_b] in Hb. apply andb_true_iff in Hb as [H1 H2].
  constructor; [|apply IH; exact H2]. intro Hin. apply existsb_eqb_In in Hin. rewrite Hin in H1. discriminate.
Qed.

Lemma layer_of_table_b_sound g pos n : layer_of_table_b g pos n = true -> layer_of_table g pos n.
Proof. unfold layer_of_table_b, layer_of_table. rewrite forallb_zrange. intros Hb i Hi. specialize (Hb i Hi). lia. Qed.

Lemma table_of_layer_b_sound c g pos n : table_of_layer_b c g pos n = true -> table_of_layer c g pos n.
Proof.
  unfold table_of_layer_b, table_of_layer, inside. rewrite forallb_zrange. intros Hb x y [Hx Hy] Hne.
  specialize (Hb x Hx). rewrite forallb_zrange in Hb. specialize (Hb y Hy). cbv zeta in Hb.
  destruct (pos (gat 0 g x y - 1)) as [px py] eqn:Ep. cbn [fst snd] in Hb.
  split; [lia|]. f_equal; lia.
Qed.

Theorem WInv_b_sound c n m w : WInv_b c n m w = true -> WInv c n m w.
Proof.
  unfold WInv_b. rewrite !andb_true_iff.
  intros [[[[[[[[[[D1 D2] L1] L2] F1] F2] A1] A2] S1] S2] Car].
  constructor.
  - apply dims_b_spec. exact D1.
  - apply dims_b_spec. exact D2.
  - lia.
  - lia.
  - rewrite Forall_forall. rewrite forallb_forall in F1. intros a Ha. specialize (F1 a Ha).
    unfold agent_ok_b, inside_b in F1. unfold agent_ok, inside. lia.
  - rewrite Forall_forall. rewrite forallb_forall in F2. intros a Ha. specialize (F2 a Ha).
    unfold inside_b in F2. unfold shelf_ok, inside. lia.
  - apply layer_of_table_b_sound. exact A1.
  - apply table_of_layer_b_sound. exact A2.
  - apply layer_of_table_b_sound. exact S1.
  - apply table_of_layer_b_sound. exact S2.
  - rewrite forallb_zrange in Car. intros i Hi Hc. specialize (Car i Hi). rewrite Hc in Car. cbn [negb orb] in Car. lia.
Qed.

Lemma bool_list_eqb_eq (a b : list bool) : list_eqb Bool.eqb a b = true <-> a = b.
Proof. apply list_eqb_eq. intros x y. destruct x, y; cbn; split; congruence. Qed.

Theorem Inv_b_sound c s : Inv_b c s = true -> Inv c s.
Proof.
  unfold Inv_b. rewrite !andb_true_iff. intros [[[Wb Qb] Lq] Mb].
  constructor.
  - apply WInv_b_sound. exact Wb.
  - split; [|lia]. unfold queue_ok_b in Qb. rewrite !andb_true_iff in Qb. destruct Qb as [[N R] Rq].
    split; [apply nodup_b_sound; exact N|]. split.
    + rewrite forallb_forall in R. intros j Hj. specialize (R j Hj). lia.
    + rewrite forallb_zrange in Rq. intros j Hj. specialize (Rq j Hj). rewrite <- existsb_eqb_In.
      destruct (sreq _), (existsb _ _); cbn in Rq; split; congruence.
  - unfold mask_eqb in Mb. apply (list_eqb_eq (list_eqb Bool.eqb)) in Mb; [exact Mb|]. apply bool_list_eqb_eq.
Qed.

(* ---------- example: 2 shelf rows, 1 shelf column, column height 1 (6 x 4 grid, shelves at (1,1) and (1,2)),
   two agents, sensor range 1, one requested shelf, time limit 5 ---------- *)
Definition ex_c : cfg := mkC 2 1 1 2 1 1 5.
(* agent 0 on shelf 1 at (1,1) facing RIGHT (towards shelf 2); agent 1 at (0,1) facing DOWN (towards agent 0) *)
Definition ex_s0 : state := gen ex_c [5; 1] [1; 2] [0].
(* agent 0 has picked up shelf 1: its FORWARD is now masked *)
Definition ex_s1 : state := fst (step ex_c ex_s0 [TOGGLE; NOOP] [0; 0]).

Lemma ex_s0_Inv : Inv ex_c ex_s0.
Proof. apply Inv_b_sound. vm_compute. reflexivity. Qed.
Lemma ex_s1_Inv : Inv ex_c ex_s1.
Proof. apply Inv_b_sound. vm_compute. reflexivity. Qed.

(* ---------- C01 (part): step_count stays within [0, time_limit] up to and including the terminal step;
   the mask has one row of 5 entries per agent ---------- *)
Theorem mid_below_limit c s acts draws : st (snd (step c s acts draws)) = MID -> cnt (fst (step c s acts draws)) < tlim c.
Proof.
  rewrite step_ts, step_cnt. unfold cond_done. destruct (collided c s acts); cbn [orb]; [cbn; discriminate|].
  destruct (tlim c <=? cnt s + 1) eqn:E; cbn; [discriminate|lia].
Qed.

Theorem step_mask_shape c s acts draws :
  let s' := fst (step c s acts draws) in
  zlen (amask s') = zlen (agents s') /\ Forall (fun r => zlen r = 5) (amask s').
Proof.
  cbv zeta. rewrite step_mask. unfold compute_mask. split; [apply zlen_map|].
  rewrite Forall_forall. intros r Hr. apply in_map_iff in Hr as (a & <- & _). rewrite zlen_map. reflexivity.
Qed.

(* ---------- C10 (part): what the well-formedness checker run on every generated state guarantees ---------- *)
Theorem gen_wf_b_sound c s : gen_wf_b c s = true ->
  Inv c s /\ cnt s = 0
  /\ (forall a, In a (agents s) -> acar a = false)
  /\ (forall i j, 0 <= i < nag c -> 0 <= j < nag c -> apos (agents s) i = apos (agents s) j -> i = j)
  /\ (forall sh, In sh (shelves s) -> highway_b c (sx sh) (sy sh) = false)
  /\ NoDup (queue s) /\ (forall j, In j (queue s) -> 0 <= j < zlen (shelves s)).
Proof.
  unfold gen_wf_b. rewrite !andb_true_iff. intros [[[[Ib Ec] Fc] _] Fh].
  pose proof (Inv_b_sound c s Ib) as I.
  split; [exact I|]. split; [lia|]. split.
  { rewrite forallb_forall in Fc. intros a Ha. specialize (Fc a Ha). destruct (acar a); [discriminate|reflexivity]. }
  split.
  { intros i j Hi Hj E. apply (WInv_agents_distinct c (nag c) (zlen (shelves s)) (world_of s)); try assumption. apply I. }
  split.
  { rewrite forallb_forall in Fh. intros sh Hs. specialize (Fh sh Hs). destruct (highway_b c (sx sh) (sy sh)); [discriminate|reflexivity]. }
  destruct (inv_q _ _ I) as [(N & R & _) _]. split; assumption.
Qed.
