(* RobotWarehouse, part 7 (C10): the generator model [gen] (RandomGenerator over explicit draws) produces a
   well-formed state for ALL valid draws and all sizes: the grid layers are exactly the agent / shelf tables,
   agents sit on pairwise distinct cells and carry nothing, the shelves are exactly the non-highway cells in
   row-major order, the request queue holds distinct shelf ids and marks exactly the requested shelves.      *)
Require Import JV.Base.Prelude JV.Base.JaxIndex JV.Base.Codec JV.Base.TimeStep JV.Model.RobotWarehouse JV.Proofs.RobotWarehouse_lib JV.Proofs.RobotWarehouse JV.Proofs.RobotWarehouse_Step JV.Proofs.RobotWarehouse_Check.

(* ---------- generic list lemmas ---------- *)
Lemma NoDup_map_inj_on {A B} (f : A -> B) l :
  NoDup l -> (forall x y, In x l -> In y l -> f x = f y -> x = y) -> NoDup (map f l).
Proof.
  induction 1 as [|x l Hx ND IH]; intro Hinj; cbn [map]; constructor.
  - intro Hin. apply in_map_iff in Hin as (y & E & Hy).
    assert (y = x) by (apply Hinj; [right; exact Hy|left; reflexivity|exact E]). subst. contradiction.
  - apply IH. intros a b Ha Hb. apply Hinj; right; assumption.
Qed.

Lemma NoDup_app_intro {A} (a b : list A) :
  NoDup a -> NoDup b -> (forall x, In x a -> ~ In x b) -> NoDup (a ++ b).
Proof.
  induction 1 as [|x a Hx ND IH]; intros Nb Hd; cbn [Datatypes.app]; [exact Nb|].
  constructor.
  - intro Hin. apply in_app_or in Hin as [Hin|Hin]; [contradiction|]. apply (Hd x); [left; reflexivity|exact Hin].
  - apply IH; [exact Nb|]. intros y Hy. apply Hd. right. exact Hy.
Qed.

Lemma NoDup_concat_map {A B} (f : A -> list B) xs :
  NoDup xs -> (forall x, NoDup (f x)) -> (forall x x' p, In p (f x) -> In p (f x') -> x = x') ->
  NoDup (concat (map f xs)).
Proof.
  intros ND Nf Hd. induction ND as [|x xs Hx ND IH]; cbn [map concat]; [constructor|].
  apply NoDup_app_intro; [apply Nf|exact IH|].
  intros p Hp Hin. apply in_concat in Hin as (l & Hl & Hpl). apply in_map_iff in Hl as (x' & <- & Hx').
  assert (x = x') by (eapply Hd; eassumption). subst. contradiction.
Qed.

Lemma NoDup_zrange_from n : forall s, NoDup (zrange_from s n).
Proof.
  induction n as [|n IH]; intro s; cbn [zrange_from]; constructor; [|apply IH].
  rewrite in_zrange_from. lia.
Qed.

Lemma NoDup_zrange n : NoDup (zrange n).
Proof. apply NoDup_zrange_from. Qed.

Lemma zlen_nil {A} : zlen (@nil A) = 0.
Proof. reflexivity. Qed.

Lemma znth_0_cons {A} (d x : A) l : znth d (x :: l) 0 = x.
Proof. reflexivity. Qed.

(* ---------- map2 ---------- *)
Lemma zlen_map2 {A B C} (f : A -> B -> C) a : forall b, zlen a = zlen b -> zlen (map2 f a b) = zlen a.
Proof.
  induction a as [|x a IH]; intros [|y b] E; cbn [map2]; try reflexivity.
  - rewrite zlen_cons, zlen_nil in E. pose proof (zlen_nonneg a). lia.
  - rewrite !zlen_cons in *. rewrite IH; lia.
Qed.

Lemma znth_map2 {A B C} (f : A -> B -> C) da db dc a :
  forall b i, zlen a = zlen b -> 0 <= i < zlen a -> znth dc (map2 f a b) i = f (znth da a i) (znth db b i).
Proof.
  induction a as [|x a IH]; intros [|y b] i E Hi.
  - unfold zlen in Hi; cbn [length] in Hi; lia.
  - unfold zlen in Hi; cbn [length] in Hi; lia.
  - rewrite zlen_cons, zlen_nil in E. pose proof (zlen_nonneg a). lia.
  - cbn [map2]. rewrite !zlen_cons in *. destruct (Z.eq_dec i 0) as [->|Hne].
    + rewrite !znth_0_cons. reflexivity.
    + replace i with (i - 1 + 1) by lia. rewrite !znth_cons_succ' by lia. apply IH; lia.
Qed.

Lemma In_map2 {A B C} (f : A -> B -> C) a : forall b z, In z (map2 f a b) -> exists x y, In x a /\ In y b /\ z = f x y.
Proof.
  induction a as [|x a IH]; intros [|y b] z Hin; cbn [map2] in Hin; try contradiction.
  destruct Hin as [<-|Hin].
  - exists x, y. split; [left; reflexivity|]. split; [left; reflexivity|reflexivity].
  - destruct (IH b z Hin) as (x' & y' & Hx & Hy & E). exists x', y'. split; [right; exact Hx|]. split; [right; exact Hy|exact E].
Qed.

Lemma map_map2_l {A B C D} (f : A -> B -> C) (g : C -> D) (h : A -> D) a :
  (forall x y, g (f x y) = h x) -> forall b, zlen a = zlen b -> map g (map2 f a b) = map h a.
Proof.
  intro Hgh. induction a as [|x a IH]; intros [|y b] E; cbn [map2 map]; try reflexivity.
  - rewrite zlen_cons, zlen_nil in E. pose proof (zlen_nonneg a). lia.
  - rewrite !zlen_cons in E. rewrite Hgh, IH by lia. reflexivity.
Qed.

(* ---------- the empty layer ---------- *)
Lemma zlen_repeat_gen {A} (x : A) n : zlen (repeat x n) = Z.of_nat n.
Proof. unfold zlen. rewrite repeat_length. reflexivity. Qed.

Lemma nth_repeat_or {A} (a d : A) m : forall n, nth n (repeat a m) d = a \/ nth n (repeat a m) d = d.
Proof. induction m as [|m IH]; intros [|n]; cbn [repeat nth]; auto. Qed.

Lemma znth_repeat_or {A} (a d : A) m i : znth d (repeat a m) i = a \/ znth d (repeat a m) i = d.
Proof. unfold znth. destruct (i <? 0); [right; reflexivity|apply nth_repeat_or]. Qed.

Lemma dims_zero_grid H W : 0 <= H -> 0 <= W -> dims (zero_grid H W) H W.
Proof.
  intros HH HW. unfold zero_grid. split; [rewrite zlen_repeat_gen; lia|].
  rewrite Forall_forall. intros r Hr. apply repeat_spec in Hr. subst r. rewrite zlen_repeat_gen. lia.
Qed.

Lemma gat_zero_grid H W x y : gat 0 (zero_grid H W) x y = 0.
Proof.
  unfold gat, zero_grid.
  destruct (znth_repeat_or (repeat 0 (Z.to_nat W)) [] (Z.to_nat H) x) as [-> | ->].
  - destruct (znth_repeat_or 0 0 (Z.to_nat W) y) as [E|E]; exact E.
  - unfold znth. destruct (y <? 0); [reflexivity|]. destruct (Z.to_nat y); reflexivity.
Qed.

(* ---------- [place]: writing a table of distinct in-range cells onto a layer ---------- *)
Section Place.
Variables H W : Z.
Definition in_rng (p : Z * Z) : Prop := 0 <= fst p < H /\ 0 <= snd p < W.

Lemma place_spec ps : forall g k, dims g H W -> Forall in_rng ps -> NoDup ps ->
  dims (place g ps k) H W
  /\ (forall j, 0 <= j < zlen ps ->
        gat 0 (place g ps k) (fst (znth (0, 0) ps j)) (snd (znth (0, 0) ps j)) = k + j + 1)
  /\ (forall x y, 0 <= x < H -> 0 <= y < W -> ~ In (x, y) ps -> gat 0 (place g ps k) x y = gat 0 g x y).
Proof.
  induction ps as [|p r IH]; intros g k D F ND.
  - cbn [place]. split; [exact D|]. split; [|reflexivity]. intros j Hj. unfold zlen in Hj; cbn [length] in Hj; lia.
  - cbn [place]. inversion F as [|p0 r0 Fp Fr]; subst. inversion ND as [|p0 r0 Np Nr]; subst.
    destruct p as [px py]. destruct Fp as [Fx Fy]. cbn [fst snd] in *.
    destruct (IH (gset g px py (k + 1)) (k + 1)) as (D' & A & B); [apply dims_gset; assumption|exact Fr|exact Nr|].
    split; [exact D'|]. split.
    + intros j Hj. rewrite zlen_cons in Hj. destruct (Z.eq_dec j 0) as [->|Hne].
      * rewrite znth_0_cons. cbn [fst snd]. rewrite B by assumption.
        rewrite (gat_gset g H W) by assumption. rewrite !Z.eqb_refl. cbn [andb]. lia.
      * replace j with (j - 1 + 1) by lia. rewrite znth_cons_succ' by lia. rewrite A by lia. lia.
    + intros x y Hx Hy Nin. rewrite B; [|assumption|assumption|intro Hin; apply Nin; right; exact Hin].
      rewrite (gat_gset g H W) by assumption.
      destruct ((x =? px) && (y =? py)) eqn:E; [|reflexivity].
      exfalso. apply Nin. left. f_equal; lia.
Qed.

Lemma place_dims ps : 0 <= H -> 0 <= W -> Forall in_rng ps -> NoDup ps -> dims (place (zero_grid H W) ps 0) H W.
Proof. intros HH HW F ND. apply (place_spec ps); [apply dims_zero_grid; assumption|exact F|exact ND]. Qed.

Lemma place_layer ps pos n :
  0 <= H -> 0 <= W -> Forall in_rng ps -> NoDup ps -> zlen ps = n ->
  (forall j, 0 <= j < n -> pos j = znth (0, 0) ps j) ->
  layer_of_table (place (zero_grid H W) ps 0) pos n.
Proof.
  intros HH HW F ND L P i Hi. rewrite P by exact Hi.
  destruct (place_spec ps (zero_grid H W) 0 (dims_zero_grid H W HH HW) F ND) as (_ & A & _).
  rewrite A by lia. lia.
Qed.

Lemma place_table ps pos n x y :
  0 <= H -> 0 <= W -> Forall in_rng ps -> NoDup ps -> zlen ps = n ->
  (forall j, 0 <= j < n -> pos j = znth (0, 0) ps j) ->
  0 <= x < H -> 0 <= y < W -> gat 0 (place (zero_grid H W) ps 0) x y <> 0 ->
  1 <= gat 0 (place (zero_grid H W) ps 0) x y <= n /\ pos (gat 0 (place (zero_grid H W) ps 0) x y - 1) = (x, y).
Proof.
  intros HH HW F ND L P Hx Hy Hne.
  destruct (place_spec ps (zero_grid H W) 0 (dims_zero_grid H W HH HW) F ND) as (_ & A & B).
  destruct (in_dec (fun p q : Z * Z => ltac:(decide equality; apply Z.eq_dec) : {p = q} + {p <> q}) (x, y) ps) as [Hin|Nin].
  - destruct (In_znth (0, 0) ps (x, y) Hin) as (j & Hj & E).
    pose proof (A j Hj) as Aj. rewrite E in Aj. cbn [fst snd] in Aj. rewrite Aj.
    split; [lia|]. replace (0 + j + 1 - 1) with j by lia. rewrite P by lia. exact E.
  - exfalso. apply Hne. rewrite B by assumption. apply gat_zero_grid.
Qed.
End Place.

(* ---------- the shelf cells: inside, off the highways, pairwise distinct ---------- *)
Lemma shelf_cells_In c p : In p (shelf_cells c) -> inside c (fst p) (snd p) /\ highway_b c (fst p) (snd p) = false.
Proof.
  unfold shelf_cells. intro Hin. apply in_concat in Hin as (l & Hl & Hp).
  apply in_map_iff in Hl as (x & <- & Hx). apply in_map_iff in Hp as (y & <- & Hy).
  apply filter_In in Hy as [Hy Hh]. apply in_zrange in Hx. apply in_zrange in Hy. cbn [fst snd].
  split; [split; assumption|]. destruct (highway_b c x y); [discriminate|reflexivity].
Qed.

Lemma shelf_cells_NoDup c : NoDup (shelf_cells c).
Proof.
  unfold shelf_cells. apply NoDup_concat_map.
  - apply NoDup_zrange.
  - intro x. apply NoDup_map_inj_on; [apply NoDup_filter, NoDup_zrange|]. intros y y' _ _ E. congruence.
  - intros x x' p Hp Hp'. apply in_map_iff in Hp as (y & <- & _). apply in_map_iff in Hp' as (y' & E & _). congruence.
Qed.

Lemma shelf_cells_rng c : Forall (in_rng (gh c) (gw c)) (shelf_cells c).
Proof. rewrite Forall_forall. intros p Hp. apply shelf_cells_In in Hp as [Hi _]. exact Hi. Qed.

(* ---------- the generated tables ---------- *)
Definition g_ags (c : cfg) (cells dirs : list Z) : list agent :=
  map2 (fun cell d => mkA (cell / gw c) (cell mod gw c) d false) cells dirs.
Definition g_shs (c : cfg) (q : list Z) : list shelf :=
  map2 (fun p j => mkSh (fst p) (snd p) (existsb (Z.eqb j) q)) (shelf_cells c) (zrange (nshelves c)).
Definition g_apos (c : cfg) (cells : list Z) : list (Z * Z) := map (fun cell => (cell / gw c, cell mod gw c)) cells.
Definition g_gs (c : cfg) : list (list Z) := place (zero_grid (gh c) (gw c)) (shelf_cells c) 0.
Definition g_ga (c : cfg) (cells dirs : list Z) : list (list Z) :=
  place (zero_grid (gh c) (gw c)) (map (fun a => (ax a, ay a)) (g_ags c cells dirs)) 0.

Lemma gen_eq c cells dirs q :
  gen c cells dirs q = mkS (g_gs c) (g_ga c cells dirs) (g_ags c cells dirs) (g_shs c q) q 0
                           (compute_mask (gh c) (gw c) (g_gs c) (g_ags c cells dirs)).
Proof. reflexivity. Qed.

Lemma g_ags_pos c cells dirs : zlen cells = zlen dirs -> map (fun a => (ax a, ay a)) (g_ags c cells dirs) = g_apos c cells.
Proof. intro E. unfold g_ags, g_apos. apply map_map2_l; [intros; reflexivity|exact E]. Qed.

Lemma g_shs_pos c q : map (fun sh => (sx sh, sy sh)) (g_shs c q) = shelf_cells c.
Proof.
  unfold g_shs. rewrite (map_map2_l _ _ (fun p : Z * Z => p)).
  - apply map_id.
  - intros p j. cbn [sx sy]. symmetry. apply surjective_pairing.
  - rewrite zlen_zrange; [reflexivity|apply zlen_nonneg].
Qed.

Lemma zlen_g_shs c q : zlen (g_shs c q) = nshelves c.
Proof.
  unfold g_shs. rewrite zlen_map2; [reflexivity|]. rewrite zlen_zrange; [reflexivity|apply zlen_nonneg].
Qed.

Lemma g_ags_nocarry c cells dirs a : In a (g_ags c cells dirs) -> acar a = false.
Proof. intro Ha. apply In_map2 in Ha as (cell & d & _ & _ & ->). reflexivity. Qed.

Lemma cell_rng H W cell : 0 < W -> 0 <= cell < H * W -> 0 <= cell / W < H /\ 0 <= cell mod W < W.
Proof.
  intros HW Hc. split; [split|apply Z.mod_pos_bound; lia].
  - apply Z.div_pos; lia.
  - apply Z.div_lt_upper_bound; lia.
Qed.

Lemma cell_inj W x y : 0 < W -> x / W = y / W -> x mod W = y mod W -> x = y.
Proof.
  intros HW E1 E2. pose proof (Z.div_mod x W ltac:(lia)) as P1. pose proof (Z.div_mod y W ltac:(lia)) as P2.
  rewrite E1, E2 in P1. congruence.
Qed.

Lemma g_apos_NoDup c cells : 0 < gw c -> NoDup cells -> NoDup (g_apos c cells).
Proof.
  intros HW ND. unfold g_apos. apply NoDup_map_inj_on; [exact ND|].
  intros x y _ _ E. inversion E as [[E1 E2]]. apply (cell_inj (gw c)); assumption.
Qed.

Lemma g_apos_rng c cells : 0 < gw c -> (forall x, In x cells -> 0 <= x < gh c * gw c) ->
  Forall (in_rng (gh c) (gw c)) (g_apos c cells).
Proof.
  intros HW R. rewrite Forall_forall. intros p Hp. unfold g_apos in Hp. apply in_map_iff in Hp as (x & <- & Hx).
  unfold in_rng. cbn [fst snd]. apply cell_rng; [exact HW|apply R; exact Hx].
Qed.

Lemma valid_gen_draws_spec c cells dirs q : valid_gen_draws c cells dirs q = true ->
  zlen cells = nag c /\ (forall x, In x cells -> 0 <= x < gh c * gw c) /\ NoDup cells
  /\ zlen dirs = nag c /\ (forall d, In d dirs -> 0 <= d <= 3)
  /\ zlen q = qsz c /\ (forall j, In j q -> 0 <= j < nshelves c) /\ NoDup q.
Proof.
  unfold valid_gen_draws. rewrite !andb_true_iff. intros [[[[[[[H1 H2] H3] H4] H5] H6] H7] H8].
  rewrite forallb_forall in H2, H5, H7.
  split; [lia|]. split; [intros x Hx; specialize (H2 x Hx); lia|]. split; [apply nodup_b_sound; exact H3|].
  split; [lia|]. split; [intros x Hx; specialize (H5 x Hx); lia|].
  split; [lia|]. split; [intros x Hx; specialize (H7 x Hx); lia|]. apply nodup_b_sound; exact H8.
Qed.

Definition cfg_ok (c : cfg) : Prop := 0 <= srows c /\ 0 <= scols c /\ 0 <= cheight c.

Lemma cfg_ok_dims c : cfg_ok c -> 2 <= gh c /\ 1 <= gw c.
Proof. intros (Hr & Hc & Hh). unfold gh, gw. split; nia. Qed.

Theorem gen_WInv c cells dirs q :
  cfg_ok c -> valid_gen_draws c cells dirs q = true ->
  WInv c (nag c) (nshelves c) (world_of (gen c cells dirs q)).
Proof.
  intros Hc V. apply valid_gen_draws_spec in V as (Lc & Rc & Nc & Ld & Rd & Lq & Rq & Nq).
  destruct (cfg_ok_dims c Hc) as [HH HW].
  rewrite gen_eq. unfold world_of. cbn [gsh gag agents shelves]. unfold g_gs, g_ga.
  assert (Epos : map (fun a => (ax a, ay a)) (g_ags c cells dirs) = g_apos c cells) by (apply g_ags_pos; lia).
  rewrite Epos.
  pose proof (g_apos_NoDup c cells ltac:(lia) Nc) as NDa.
  pose proof (g_apos_rng c cells ltac:(lia) Rc) as Fa.
  pose proof (shelf_cells_NoDup c) as NDs. pose proof (shelf_cells_rng c) as Fs.
  assert (La : zlen (g_ags c cells dirs) = nag c) by (unfold g_ags; rewrite zlen_map2; lia).
  pose proof (zlen_g_shs c q) as Ls.
  assert (Lp : zlen (g_apos c cells) = nag c) by (unfold g_apos; rewrite zlen_map; exact Lc).
  assert (Pa : forall j, 0 <= j < nag c -> apos (g_ags c cells dirs) j = znth (0, 0) (g_apos c cells) j).
  { intros j Hj. rewrite <- Epos. rewrite (znth_map _ dA (0, 0)) by lia. reflexivity. }
  assert (Ps : forall j, 0 <= j < nshelves c -> spos (g_shs c q) j = znth (0, 0) (shelf_cells c) j).
  { intros j Hj. transitivity (znth (0, 0) (map (fun sh => (sx sh, sy sh)) (g_shs c q)) j); [|rewrite g_shs_pos; reflexivity].
    rewrite (znth_map _ dSh (0, 0)) by lia. reflexivity. }
  constructor; cbn [w_gs w_ga w_ag w_sh].
  - apply place_dims; try assumption; lia.
  - apply place_dims; try assumption; lia.
  - exact La.
  - exact Ls.
  - rewrite Forall_forall. intros a Ha. apply In_map2 in Ha as (cell & d & Hcell & Hd & ->).
    unfold agent_ok, inside. cbn [ax ay adir]. split; [apply cell_rng; [lia|apply Rc; exact Hcell]|apply Rd; exact Hd].
  - rewrite Forall_forall. intros sh Hs. apply In_map2 in Hs as (p & j & Hp & _ & ->).
    unfold shelf_ok. cbn [sx sy]. apply shelf_cells_In. exact Hp.
  - apply place_layer; try assumption; lia.
  - intros x y [Hx Hy] Hne. apply place_table; try assumption; lia.
  - apply place_layer; try assumption; try lia. reflexivity.
  - intros x y [Hx Hy] Hne. apply place_table; try assumption; try lia. reflexivity.
  - intros i Hi Hcar. exfalso. rewrite (g_ags_nocarry c cells dirs) in Hcar; [discriminate|]. apply znth_In. lia.
Qed.

(* ---------- C10: every instance generated from valid draws is well-formed ---------- *)
Theorem gen_wf c cells dirs q :
  cfg_ok c -> valid_gen_draws c cells dirs q = true ->
  let s := gen c cells dirs q in
  Inv c s /\ cnt s = 0
  /\ (forall a, In a (agents s) -> acar a = false)
  /\ (forall i j, 0 <= i < nag c -> 0 <= j < nag c -> apos (agents s) i = apos (agents s) j -> i = j)
  /\ map (fun sh => (sx sh, sy sh)) (shelves s) = shelf_cells c
  /\ (forall sh, In sh (shelves s) -> highway_b c (sx sh) (sy sh) = false)
  /\ NoDup (queue s) /\ (forall j, In j (queue s) -> 0 <= j < zlen (shelves s))
  /\ zlen (shelves s) = nshelves c.
Proof.
  intros Hc V s. pose proof (gen_WInv c cells dirs q Hc V) as WI. fold s in WI.
  apply valid_gen_draws_spec in V as (Lc & Rc & Nc & Ld & Rd & Lq & Rq & Nq).
  assert (Es : s = mkS (g_gs c) (g_ga c cells dirs) (g_ags c cells dirs) (g_shs c q) q 0
                       (compute_mask (gh c) (gw c) (g_gs c) (g_ags c cells dirs))) by reflexivity.
  clearbody s. subst s. cbn [gsh gag agents shelves queue cnt amask] in *.
  pose proof (zlen_g_shs c q) as Ls. rewrite Ls.
  split.
  { constructor; cbn [gsh gag agents shelves queue cnt amask].
    - rewrite Ls. exact WI.
    - split; [|exact Lq]. rewrite Ls. split; [exact Nq|]. split; [exact Rq|].
      intros j Hj. unfold g_shs. rewrite (znth_map2 _ (0, 0) 0 dSh).
      + cbn [sreq]. rewrite znth_zrange by lia. apply existsb_eqb_In.
      + rewrite zlen_zrange; [reflexivity|apply zlen_nonneg].
      + exact Hj.
    - reflexivity. }
  split; [reflexivity|]. split; [apply g_ags_nocarry|]. split.
  { intros i j Hi Hj E. exact (WInv_agents_distinct c (nag c) (nshelves c) _ i j WI Hi Hj E). }
  split; [apply g_shs_pos|]. split.
  { intros sh Hs. apply In_map2 in Hs as (p & j & Hp & _ & ->). cbn [sx sy]. apply shelf_cells_In. exact Hp. }
  split; [exact Nq|]. split; [exact Rq|reflexivity].
Qed.

(* ---------- completeness of the boolean checkers, and the boolean form of [gen_wf] ---------- *)
Lemma nodup_b_complete l : NoDup l -> nodup_b l = true.
Proof.
  induction 1 as [|x l Hx ND IH]; [reflexivity|]. cbn [nodup_b]. rewrite IH, andb_true_r.
  destruct (existsb (Z.eqb x) l) eqn:E; [|reflexivity]. apply existsb_eqb_In in E. contradiction.
Qed.

Lemma layer_of_table_b_complete g pos n : layer_of_table g pos n -> layer_of_table_b g pos n = true.
Proof. unfold layer_of_table_b, layer_of_table. rewrite forallb_zrange. intros Hp i Hi. specialize (Hp i Hi). lia. Qed.

Lemma table_of_layer_b_complete c g pos n : table_of_layer c g pos n -> table_of_layer_b c g pos n = true.
Proof.
  unfold table_of_layer_b, table_of_layer, inside. intro Hp. rewrite forallb_zrange. intros x Hx.
  rewrite forallb_zrange. intros y Hy. cbv zeta.
  destruct (gat 0 g x y =? 0) eqn:E; [reflexivity|]. cbn [orb].
  destruct (Hp x y (conj Hx Hy) ltac:(lia)) as [R P]. rewrite P. cbn [fst snd]. lia.
Qed.

Theorem WInv_b_complete c n m w : WInv c n m w -> WInv_b c n m w = true.
Proof.
  intros [D1 D2 L1 L2 F1 F2 A1 A2 S1 S2 Car]. unfold WInv_b. rewrite !andb_true_iff.
  split; [split; [split; [split; [split; [split; [split; [split; [split; [split|]|]|]|]|]|]|]|]|].
  - apply dims_b_spec. exact D1.
  - apply dims_b_spec. exact D2.
  - lia.
  - lia.
  - rewrite forallb_forall. rewrite Forall_forall in F1. intros a Ha. specialize (F1 a Ha).
    unfold agent_ok, inside in F1. unfold agent_ok_b, inside_b. lia.
  - rewrite forallb_forall. rewrite Forall_forall in F2. intros a Ha. specialize (F2 a Ha).
    unfold shelf_ok, inside in F2. unfold inside_b. lia.
  - apply layer_of_table_b_complete. exact A1.
  - apply table_of_layer_b_complete. exact A2.
  - apply layer_of_table_b_complete. exact S1.
  - apply table_of_layer_b_complete. exact S2.
  - rewrite forallb_zrange. intros i Hi. destruct (acar (znth dA (w_ag w) i)) eqn:E; [|reflexivity].
    cbn [negb orb]. specialize (Car i Hi E). lia.
Qed.

Lemma queue_ok_b_complete m shs q : queue_ok m shs q -> queue_ok_b m shs q = true.
Proof.
  intros (N & R & Rq). unfold queue_ok_b. rewrite !andb_true_iff. split; [split|].
  - apply nodup_b_complete. exact N.
  - rewrite forallb_forall. intros j Hj. specialize (R j Hj). lia.
  - rewrite forallb_zrange. intros j Hj. specialize (Rq j Hj). rewrite <- existsb_eqb_In in Rq.
    apply eqb_true_iff.
    destruct (sreq (znth dSh shs j)), (existsb (Z.eqb j) q); try reflexivity; destruct Rq as [R1 R2];
      [symmetry; apply R1; reflexivity|apply R2; reflexivity].
Qed.

Theorem Inv_b_complete c s : Inv c s -> Inv_b c s = true.
Proof.
  intros [Wi [Q Lq] M]. unfold Inv_b. rewrite !andb_true_iff. split; [split; [split|]|].
  - apply WInv_b_complete. exact Wi.
  - apply queue_ok_b_complete. exact Q.
  - lia.
  - unfold mask_eqb. apply (list_eqb_eq (list_eqb Bool.eqb) bool_list_eqb_eq). exact M.
Qed.

Theorem Inv_b_iff c s : Inv_b c s = true <-> Inv c s.
Proof. split; [apply Inv_b_sound|apply Inv_b_complete]. Qed.

Lemma pair_eqb_eq (p p' : Z * Z) : (fst p =? fst p') && (snd p =? snd p') = true <-> p = p'.
Proof.
  destruct p as [a b], p' as [a' b']. cbn [fst snd]. split; intro E.
  - f_equal; lia.
  - inversion E. lia.
Qed.

Theorem gen_wf_bool c cells dirs q :
  cfg_ok c -> valid_gen_draws c cells dirs q = true -> gen_wf_b c (gen c cells dirs q) = true.
Proof.
  intros Hc V. pose proof (gen_wf c cells dirs q Hc V) as G. cbv zeta in G.
  destruct G as (I & C0 & Car & _ & Sh & Hw & _).
  unfold gen_wf_b. rewrite !andb_true_iff. split; [split; [split; [split|]|]|].
  - apply Inv_b_complete. exact I.
  - lia.
  - rewrite forallb_forall. intros a Ha. rewrite (Car a Ha). reflexivity.
  - apply (list_eqb_eq _ pair_eqb_eq). exact Sh.
  - rewrite forallb_forall. intros sh Hs. rewrite (Hw sh Hs). reflexivity.
Qed.

(* non-vacuity: the example configuration of RobotWarehouse_Check with its draws meets the hypotheses *)
Example gen_wf_nonvacuous : cfg_ok ex_c /\ valid_gen_draws ex_c [5; 1] [1; 2] [0] = true.
Proof. split; [unfold cfg_ok, ex_c; cbn [srows scols cheight]; lia|vm_compute; reflexivity]. Qed.

Print Assumptions gen_wf_bool.
Print Assumptions gen_wf.
