(* RobotWarehouse, part 6: the sensor observation.  The code's writer (lax.dynamic_update_slice at a running index over
   a zero-initialised vector, index skips for empty cells, nothing for the agent's own cell) produces exactly the
   documented view [view_spec] on every consistent state, for every sensor range; and every row has nfeat entries
   on EVERY state (C12, C01).                                                                                     *)
Require Import JV.Base.Prelude JV.Base.JaxIndex JV.Base.Codec JV.Base.TimeStep JV.Model.RobotWarehouse
               JV.Proofs.RobotWarehouse_lib JV.Proofs.RobotWarehouse JV.Proofs.RobotWarehouse_Step.

(* ---------- lists ---------- *)
Lemma firstn_len_app {A} (a b : list A) : firstn (length a) (a ++ b) = a.
Proof. induction a as [|x a IH]; cbn [length firstn Datatypes.app]; [destruct b; reflexivity|rewrite IH; reflexivity]. Qed.

Lemma skipn_len_app {A} (a b : list A) k : skipn (length a + k) (a ++ b) = skipn k b.
Proof. induction a as [|x a IH]; cbn [length skipn Datatypes.app Nat.add]; [reflexivity|exact IH]. Qed.

Lemma skipn_repeat {A} (x : A) k n : skipn k (repeat x n) = repeat x (n - k).
Proof.
  revert n; induction k as [|k IH]; intros [|n]; cbn [skipn repeat Nat.sub]; try reflexivity. apply IH.
Qed.

Lemma zlen_repeat {A} (x : A) n : zlen (repeat x n) = Z.of_nat n.
Proof. unfold zlen. rewrite repeat_length. reflexivity. Qed.

Lemma zlen_firstn_z {A} (l : list A) k : 0 <= k <= zlen l -> zlen (firstn_z k l) = k.
Proof. intro H. unfold zlen, firstn_z in *. rewrite firstn_length. lia. Qed.

Lemma zlen_skipn_z {A} (l : list A) k : 0 <= k <= zlen l -> zlen (skipn_z k l) = zlen l - k.
Proof. intro H. unfold zlen, skipn_z in *. rewrite skipn_length. lia. Qed.

(* ---------- the writer on EVERY state: lengths (C01) ---------- *)
Lemma write_len o data : zlen data <= zlen (fst o) -> zlen (fst (write o data)) = zlen (fst o).
Proof.
  intro H. unfold write. cbn [fst]. set (n := zlen (fst o)) in *. set (k := zlen data) in *.
  set (s := dyn_start n k (snd o)). assert (Hs : 0 <= s <= n - k) by (unfold s, dyn_start; lia).
  pose proof (zlen_nonneg data). fold k in H0.
  rewrite !zlen_app, zlen_firstn_z, zlen_skipn_z by (fold n; lia). fold n k. lia.
Qed.

Lemma agent_sensor_step_len ags i o v : 5 <= zlen (fst o) -> zlen (fst (agent_sensor_step ags i o v)) = zlen (fst o).
Proof.
  intro H. unfold agent_sensor_step. destruct (_ || _); [reflexivity|].
  assert (L1 : zlen (fst (write o [1])) = zlen (fst o)) by (apply write_len; cbn; lia).
  rewrite write_len; [exact L1|]. rewrite L1. cbn. lia.
Qed.

Lemma shelf_sensor_step_len shs o v : 2 <= zlen (fst o) -> zlen (fst (shelf_sensor_step shs o v)) = zlen (fst o).
Proof.
  intro H. unfold shelf_sensor_step. destruct (v =? 0); [reflexivity|]. apply write_len. cbn. lia.
Qed.

Lemma fold_len (f : list Z * Z -> Z -> list Z * Z) k :
  (forall o v, k <= zlen (fst o) -> zlen (fst (f o v)) = zlen (fst o)) ->
  forall vs o, k <= zlen (fst o) -> zlen (fst (fold_left f vs o)) = zlen (fst o).
Proof.
  intros Hf vs. induction vs as [|v vs IH]; intros o H; cbn [fold_left]; [reflexivity|].
  rewrite IH by (rewrite Hf; assumption). apply Hf. exact H.
Qed.

Lemma nsens_pos r : 1 <= nsens r.
Proof. unfold nsens. nia. Qed.
Lemma nfeat_ge r : 10 <= nfeat r.
Proof. unfold nfeat. pose proof (nsens_pos r). lia. Qed.

(* every row of agents_view has exactly num_obs_features entries: any state, any agent index, any sensor range *)
Theorem agent_obs_len c s i : zlen (agent_obs c s i) = nfeat (srange c).
Proof.
  unfold agent_obs. cbv zeta. pose proof (nfeat_ge (srange c)) as N.
  set (o0 := (repeat 0 (Z.to_nat (nfeat (srange c))), 0)).
  assert (L0 : zlen (fst o0) = nfeat (srange c)) by (unfold o0; cbn [fst]; rewrite zlen_repeat; lia).
  set (o1 := write o0 _). assert (L1 : zlen (fst o1) = nfeat (srange c)).
  { unfold o1. rewrite write_len; [exact L0|]. rewrite L0. cbn. lia. }
  set (o2 := write o1 _). assert (L2 : zlen (fst o2) = nfeat (srange c)).
  { unfold o2. rewrite write_len; [exact L1|]. rewrite L1. cbn. lia. }
  set (o3 := write o2 _). assert (L3 : zlen (fst o3) = nfeat (srange c)).
  { unfold o3. rewrite write_len; [exact L2|]. rewrite L2. cbn. lia. }
  rewrite (fold_len _ 2).
  - rewrite (fold_len _ 5); [exact L3| |lia]. intros; apply agent_sensor_step_len; assumption.
  - intros; apply shelf_sensor_step_len; assumption.
  - rewrite (fold_len _ 5); [lia| |lia]. intros; apply agent_sensor_step_len; assumption.
Qed.

Theorem observe_shape c s : 0 <= nag c ->
  zlen (observe c s) = nag c /\ Forall (fun row => zlen row = nfeat (srange c)) (observe c s).
Proof.
  intro H. unfold observe. split; [rewrite zlen_map; apply zlen_zrange; exact H|].
  rewrite Forall_forall. intros row Hr. apply in_map_iff in Hr as (i & <- & _). apply agent_obs_len.
Qed.

(* ---------- the writer as "append to the written prefix": prefix ++ zeros, index = length of the prefix ---------- *)
Definition ws (pre : list Z) (n : nat) : list Z * Z := (pre ++ repeat 0 n, zlen pre).

Lemma write_ws pre n data : zlen data <= Z.of_nat n ->
  write (ws pre n) data = ws (pre ++ data) (n - length data).
Proof.
  intro H. unfold write, ws. cbn [fst snd].
  assert (Es : dyn_start (zlen (pre ++ repeat 0 n)) (zlen data) (zlen pre) = zlen pre).
  { rewrite zlen_app, zlen_repeat. pose proof (zlen_nonneg pre). pose proof (zlen_nonneg data).
    unfold dyn_start, jnorm. destruct (zlen pre <? 0) eqn:E; lia. }
  rewrite Es. f_equal; [|rewrite zlen_app; reflexivity].
  unfold firstn_z, skipn_z, zlen. rewrite Nat2Z.id, firstn_len_app.
  replace (Z.to_nat (Z.of_nat (length pre) + Z.of_nat (length data))) with (length pre + length data)%nat by lia.
  rewrite skipn_len_app, skipn_repeat, <- app_assoc. reflexivity.
Qed.

Lemma skip_ws pre n d : (d <= n)%nat ->
  (fst (ws pre n), snd (ws pre n) + Z.of_nat d) = ws (pre ++ repeat 0 d) (n - d).
Proof.
  intro H. unfold ws. cbn [fst snd]. f_equal.
  - rewrite <- app_assoc, <- repeat_app. f_equal. f_equal. lia.
  - rewrite zlen_app, zlen_repeat. reflexivity.
Qed.

(* what one sensor cell contributes *)
Definition achunk (ags : list agent) (i v : Z) : list Z :=
  if v =? i + 1 then [] else if v =? 0 then repeat 0 5 else 1 :: one_hot4 (adir (jget dA ags (v - 1))).
Definition schunk (shs : list shelf) (v : Z) : list Z :=
  if v =? 0 then repeat 0 2 else [1; b2z (sreq (jget dSh shs (v - 1)))].

Lemma agent_step_ws ags i pre n v : zlen (achunk ags i v) <= Z.of_nat n ->
  agent_sensor_step ags i (ws pre n) v = ws (pre ++ achunk ags i v) (n - length (achunk ags i v)).
Proof.
  unfold achunk, agent_sensor_step. intro H.
  destruct (v =? i + 1) eqn:E1.
  - rewrite orb_true_r. unfold ws. cbn [fst snd length]. rewrite app_nil_r, Nat.sub_0_r. reflexivity.
  - rewrite orb_false_r. destruct (v =? 0) eqn:E0.
    + rewrite repeat_length. refine (skip_ws pre n 5 _). unfold zlen in H. rewrite repeat_length in H. lia.
    + unfold zlen in H. cbn [one_hot4 map length] in H.
      rewrite write_ws by (cbn; lia). rewrite write_ws by (cbn; lia).
      rewrite <- app_assoc. cbn [Datatypes.app one_hot4 map length]. f_equal. lia.
Qed.

Lemma shelf_step_ws shs pre n v : zlen (schunk shs v) <= Z.of_nat n ->
  shelf_sensor_step shs (ws pre n) v = ws (pre ++ schunk shs v) (n - length (schunk shs v)).
Proof.
  unfold schunk, shelf_sensor_step. intro H. destruct (v =? 0) eqn:E0.
  - rewrite repeat_length. refine (skip_ws pre n 2 _). unfold zlen in H. rewrite repeat_length in H. lia.
  - apply write_ws. exact H.
Qed.

Lemma fold_ws (f : list Z * Z -> Z -> list Z * Z) (ch : Z -> list Z) :
  (forall pre n v, zlen (ch v) <= Z.of_nat n -> f (ws pre n) v = ws (pre ++ ch v) (n - length (ch v))) ->
  forall vs pre n, zlen (concat (map ch vs)) <= Z.of_nat n ->
  fold_left f vs (ws pre n) = ws (pre ++ concat (map ch vs)) (n - length (concat (map ch vs))).
Proof.
  intros Hf vs. induction vs as [|v vs IH]; intros pre n H; cbn [map concat fold_left].
  - cbn [length]. rewrite app_nil_r, Nat.sub_0_r. reflexivity.
  - cbn [map concat] in H. rewrite zlen_app in H. pose proof (zlen_nonneg (concat (map ch vs))).
    rewrite Hf by lia. rewrite IH by (unfold zlen in *; lia).
    rewrite <- app_assoc, app_length. f_equal. lia.
Qed.

(* ---------- the padded window = the sensor cells, 0 outside the grid ---------- *)
Definition cellval (c : cfg) (g : list (list Z)) (p : Z * Z) : Z :=
  if inside_b c (fst p) (snd p) then gat 0 g (fst p) (snd p) else 0.

Lemma sensor_cellval c g r x y : 0 <= r -> inside c x y ->
  sensor g (gh c) (gw c) r x y = map (cellval c g) (sensor_cells r x y).
Proof.
  intros Hr [Hx Hy]. unfold sensor, sensor_cells. cbv zeta.
  replace (dyn_start (gh c + 2 * r) (2 * r + 1) x) with x by (unfold dyn_start, jnorm; destruct (x <? 0) eqn:E; lia).
  replace (dyn_start (gw c + 2 * r) (2 * r + 1) y) with y by (unfold dyn_start, jnorm; destruct (y <? 0) eqn:E; lia).
  rewrite concat_map, map_map. f_equal. apply map_ext. intro di. rewrite map_map. apply map_ext. intro dj.
  unfold pad_get, cellval, inside_b. cbn [fst snd].
  replace (x + di - r) with (x - r + di) by lia. replace (y + dj - r) with (y - r + dj) by lia.
  destruct ((r <=? x + di) && (x + di <? gh c + r) && (r <=? y + dj) && (y + dj <? gw c + r)) eqn:E1;
  destruct ((0 <=? x - r + di) && (x - r + di <? gh c) && (0 <=? y - r + dj) && (y - r + dj <? gw c)) eqn:E2;
  try reflexivity; lia.
Qed.

(* ---------- reading a consistent layer = looking the cell up in the table ---------- *)
Lemma find_unique {A} (f : A -> bool) (l : list A) x :
  In x l -> f x = true -> (forall y, In y l -> f y = true -> y = x) -> find f l = Some x.
Proof.
  induction l as [|a l IH]; intros Hin Hf Hu; [destruct Hin|]. cbn [find].
  destruct (f a) eqn:E.
  - f_equal. apply Hu; [left; reflexivity|exact E].
  - destruct Hin as [->|Hin]; [congruence|]. apply IH; [exact Hin|exact Hf|]. intros y Hy. apply Hu. right. exact Hy.
Qed.

Lemma find_absent {A} (f : A -> bool) (l : list A) : (forall y, In y l -> f y = false) -> find f l = None.
Proof.
  induction l as [|a l IH]; intro H; [reflexivity|]. cbn [find]. rewrite (H a) by (left; reflexivity).
  apply IH. intros y Hy. apply H. right. exact Hy.
Qed.

Section Lookup.
  Context {T : Type} (d : T) (key : T -> Z * Z) (c : cfg) (l : list T) (g : list (list Z)).
  Let n := zlen l.
  Let pos := fun i => key (znth d l i).
  Hypothesis L1 : layer_of_table g pos n.
  Hypothesis L2 : table_of_layer c g pos n.
  Hypothesis Hin : Forall (fun t => inside c (fst (key t)) (snd (key t))) l.

  Definition lookup (p : Z * Z) : option T := find (fun t => (fst (key t) =? fst p) && (snd (key t) =? snd p)) l.

  Lemma cellval_at_entry j : 0 <= j < n -> cellval c g (pos j) = j + 1.
  Proof.
    intro Hj. unfold cellval. pose proof (Forall_znth _ d l j Hin Hj) as [Hx Hy]. fold (pos j) in Hx, Hy.
    replace (inside_b c (fst (pos j)) (snd (pos j))) with true by (unfold inside_b; lia).
    apply L1. exact Hj.
  Qed.

  Lemma lookup_zero p : cellval c g p = 0 -> lookup p = None.
  Proof.
    intro Hv. apply find_absent. intros t Ht.
    destruct ((fst (key t) =? fst p) && (snd (key t) =? snd p)) eqn:E; [exfalso|reflexivity].
    destruct (In_znth d l t Ht) as (j & Hj & Ej).
    assert (Ep : pos j = p). { unfold pos. rewrite Ej. destruct (key t), p. cbn [fst snd] in E. f_equal; lia. }
    pose proof (cellval_at_entry j Hj) as K. rewrite Ep in K. lia.
  Qed.

  Lemma lookup_nonzero p : cellval c g p <> 0 ->
    1 <= cellval c g p <= n /\ pos (cellval c g p - 1) = p /\ lookup p = Some (znth d l (cellval c g p - 1)).
  Proof.
    intro Hv. unfold cellval in *. destruct (inside_b c (fst p) (snd p)) eqn:Ein; [|congruence].
    assert (Ip : inside c (fst p) (snd p)) by (unfold inside_b in Ein; unfold inside; lia).
    destruct (L2 _ _ Ip Hv) as [R E]. rewrite <- surjective_pairing in E.
    split; [exact R|]. split; [exact E|].
    set (v := gat 0 g (fst p) (snd p)) in *.
    apply find_unique.
    - apply znth_In. fold n. lia.
    - fold (pos (v - 1)). rewrite E, !Z.eqb_refl. reflexivity.
    - intros t Ht Hk. destruct (In_znth d l t Ht) as (j & Hj & Ej).
      assert (Ep : pos j = p). { unfold pos. rewrite Ej. destruct (key t), p. cbn [fst snd] in Hk. f_equal; lia. }
      pose proof (L1 j Hj) as K. rewrite Ep in K. fold v in K. rewrite <- Ej. f_equal. lia.
  Qed.
End Lookup.

(* ---------- counting ---------- *)
Lemma zlen_concat_map {A B} (f : A -> list B) l : zlen (concat (map f l)) = zsum (map (fun x => zlen (f x)) l).
Proof. induction l as [|x l IH]; cbn [map concat zsum]; [reflexivity|]. rewrite zlen_app, IH. reflexivity. Qed.

Lemma zsum_map_concat {A} (h : A -> Z) (L : list (list A)) :
  zsum (map h (concat L)) = zsum (map (fun row => zsum (map h row)) L).
Proof.
  induction L as [|row L IH]; cbn [concat map zsum]; [reflexivity|]. rewrite map_app.
  rewrite <- IH. clear IH. induction row as [|x row IHr]; cbn [map zsum Datatypes.app]; lia.
Qed.

Lemma zsum_map_ext_in {A} (f g : A -> Z) l : (forall x, In x l -> f x = g x) -> zsum (map f l) = zsum (map g l).
Proof. intro H. f_equal. apply map_ext_in. exact H. Qed.

Lemma zsum_const {A} (k : Z) (l : list A) : zsum (map (fun _ => k) l) = k * zlen l.
Proof. induction l as [|x l IH]; cbn [map zsum]; [unfold zlen; cbn; lia|]. rewrite IH, zlen_cons. lia. Qed.

Lemma zsum_affine {A} (a b : Z) (h : A -> Z) l :
  zsum (map (fun x => a + b * h x) l) = a * zlen l + b * zsum (map h l).
Proof. induction l as [|x l IH]; cbn [map zsum]; [unfold zlen; cbn; lia|]. rewrite IH, zlen_cons. lia. Qed.

Lemma zsum_indicator_from a n : forall s,
  zsum (map (fun k => b2z (k =? a)) (zrange_from s n)) = b2z ((s <=? a) && (a <? s + Z.of_nat n)).
Proof.
  induction n as [|n IH]; intro s; cbn [zrange_from map zsum].
  - replace ((s <=? a) && (a <? s + Z.of_nat 0)) with false by lia. reflexivity.
  - rewrite IH. destruct (s =? a) eqn:E1; destruct ((s + 1 <=? a) && (a <? s + 1 + Z.of_nat n)) eqn:E2;
    destruct ((s <=? a) && (a <? s + Z.of_nat (S n))) eqn:E3; cbn [b2z]; lia.
Qed.

Lemma zsum_indicator a n : 0 <= a < n -> zsum (map (fun k => b2z (k =? a)) (zrange n)) = 1.
Proof. intro H. unfold zrange. rewrite zsum_indicator_from. replace (_ && _) with true by lia. reflexivity. Qed.

Lemma zlen_sensor_cells r x y : 0 <= r -> zlen (sensor_cells r x y) = nsens r.
Proof.
  intro H. unfold sensor_cells. rewrite zlen_concat_map.
  rewrite (zsum_map_ext_in _ (fun _ => 2 * r + 1)).
  - rewrite zsum_const, zlen_zrange by lia. unfold nsens. lia.
  - intros di _. rewrite zlen_map, zlen_zrange by lia. reflexivity.
Qed.

(* exactly one sensor cell is the centre *)
Lemma sensor_cells_centre r x y : 0 <= r ->
  zsum (map (fun p => b2z ((fst p =? x) && (snd p =? y))) (sensor_cells r x y)) = 1.
Proof.
  intro H. unfold sensor_cells. rewrite zsum_map_concat, map_map.
  rewrite (zsum_map_ext_in _ (fun di => b2z (di =? r))); [apply zsum_indicator; lia|].
  intros di _. rewrite map_map. cbn [fst snd]. destruct (di =? r) eqn:E.
  - rewrite (zsum_map_ext_in _ (fun dj => b2z (dj =? r))); [apply zsum_indicator; lia|].
    intros dj _. f_equal. lia.
  - rewrite (zsum_map_ext_in _ (fun _ => 0)); [rewrite zsum_const; reflexivity|].
    intros dj _. replace ((x - r + di =? x) && (y - r + dj =? y)) with false by lia. reflexivity.
Qed.

(* ---------- the two layers of a consistent world, read through the sensor ---------- *)
Definition akey (a : agent) : Z * Z := (ax a, ay a).
Definition skey (a : shelf) : Z * Z := (sx a, sy a).

Section View.
  Variables (c : cfg) (n m : Z) (w : world).
  Hypothesis I : WInv c n m w.

  Let A1 : layer_of_table (w_ga w) (fun i => akey (znth dA (w_ag w) i)) (zlen (w_ag w)).
  Proof. rewrite (wi_nag _ _ _ _ I). exact (wi_a1 _ _ _ _ I). Qed.
  Let A2 : table_of_layer c (w_ga w) (fun i => akey (znth dA (w_ag w) i)) (zlen (w_ag w)).
  Proof. rewrite (wi_nag _ _ _ _ I). exact (wi_a2 _ _ _ _ I). Qed.
  Let A3 : Forall (fun t => inside c (fst (akey t)) (snd (akey t))) (w_ag w).
  Proof. eapply Forall_impl; [|exact (wi_aok _ _ _ _ I)]. intros a [H _]. exact H. Qed.
  Let S1 : layer_of_table (w_gs w) (fun i => skey (znth dSh (w_sh w) i)) (zlen (w_sh w)).
  Proof. rewrite (wi_nsh _ _ _ _ I). exact (wi_s1 _ _ _ _ I). Qed.
  Let S2 : table_of_layer c (w_gs w) (fun i => skey (znth dSh (w_sh w) i)) (zlen (w_sh w)).
  Proof. rewrite (wi_nsh _ _ _ _ I). exact (wi_s2 _ _ _ _ I). Qed.
  Let S3 : Forall (fun t => inside c (fst (skey t)) (snd (skey t))) (w_sh w).
  Proof. exact (wi_sok _ _ _ _ I). Qed.

  (* what the documented view says about one cell *)
  Definition specA (x y : Z) (p : Z * Z) : list Z :=
    if (fst p =? x) && (snd p =? y) then []
    else match find_agent (w_ag w) (fst p) (snd p) with Some b => 1 :: one_hot4 (adir b) | None => [0; 0; 0; 0; 0] end.
  Definition specS (p : Z * Z) : list Z :=
    match find_shelf (w_sh w) (fst p) (snd p) with Some sh => [1; b2z (sreq sh)] | None => [0; 0] end.

  Lemma achunk_spec i p : 0 <= i < n ->
    achunk (w_ag w) i (cellval c (w_ga w) p) = specA (ax (znth dA (w_ag w) i)) (ay (znth dA (w_ag w) i)) p.
  Proof.
    intro Hi. pose proof (wi_nag _ _ _ _ I) as Ln. unfold achunk, specA.
    set (a := znth dA (w_ag w) i). set (v := cellval c (w_ga w) p).
    assert (Hown : cellval c (w_ga w) (akey a) = i + 1).
    { apply (cellval_at_entry dA akey c (w_ag w) (w_ga w) A1 A3 i). lia. }
    assert (Hp : (fst p =? ax a) && (snd p =? ay a) = true -> v = i + 1).
    { intro E. unfold v. replace p with (akey a); [exact Hown|]. destruct p. unfold akey. cbn [fst snd] in E. f_equal; lia. }
    destruct (v =? i + 1) eqn:E1.
    - assert (Hv : v <> 0) by lia.
      destruct (lookup_nonzero dA akey c (w_ag w) (w_ga w) A1 A2 p Hv) as (_ & Ep & _).
      fold v in Ep. replace (v - 1) with i in Ep by lia. fold a in Ep. rewrite <- Ep. unfold akey. cbn [fst snd].
      rewrite !Z.eqb_refl. reflexivity.
    - destruct ((fst p =? ax a) && (snd p =? ay a)) eqn:E2; [specialize (Hp eq_refl); lia|].
      destruct (v =? 0) eqn:E0.
      + assert (Hv : v = 0) by lia. pose proof (lookup_zero dA akey c (w_ag w) (w_ga w) A1 A3 p Hv) as K.
        unfold lookup, akey in K. cbn [fst snd] in K. unfold find_agent. rewrite K. reflexivity.
      + assert (Hv : v <> 0) by lia.
        destruct (lookup_nonzero dA akey c (w_ag w) (w_ga w) A1 A2 p Hv) as (R & _ & K). fold v in R, K.
        unfold lookup, akey in K. cbn [fst snd] in K. unfold find_agent. rewrite K.
        rewrite jget_znth by lia. reflexivity.
  Qed.

  Lemma schunk_spec p : schunk (w_sh w) (cellval c (w_gs w) p) = specS p.
  Proof.
    unfold schunk, specS. set (v := cellval c (w_gs w) p). destruct (v =? 0) eqn:E0.
    - assert (Hv : v = 0) by lia. pose proof (lookup_zero dSh skey c (w_sh w) (w_gs w) S1 S3 p Hv) as K.
      unfold lookup, skey in K. cbn [fst snd] in K. unfold find_shelf. rewrite K. reflexivity.
    - assert (Hv : v <> 0) by lia.
      destruct (lookup_nonzero dSh skey c (w_sh w) (w_gs w) S1 S2 p Hv) as (R & _ & K). fold v in R, K.
      unfold lookup, skey in K. cbn [fst snd] in K. unfold find_shelf. rewrite K.
      rewrite jget_znth by lia. reflexivity.
  Qed.

  Lemma zlen_specA x y p : zlen (specA x y p) = 5 + (-5) * b2z ((fst p =? x) && (snd p =? y)).
  Proof. unfold specA. destruct (_ && _); [reflexivity|]. destruct (find_agent _ _ _); reflexivity. Qed.

  Lemma zlen_specS p : zlen (specS p) = 2.
  Proof. unfold specS. destruct (find_shelf _ _ _); reflexivity. Qed.

  Lemma zlen_specA_cells r x y : 0 <= r -> zlen (concat (map (specA x y) (sensor_cells r x y))) = 5 * (nsens r - 1).
  Proof.
    intro Hr. rewrite zlen_concat_map. rewrite (zsum_map_ext_in _ _ _ (fun p _ => zlen_specA x y p)).
    rewrite zsum_affine, sensor_cells_centre, zlen_sensor_cells by exact Hr. lia.
  Qed.

  Lemma zlen_specS_cells r x y : 0 <= r -> zlen (concat (map specS (sensor_cells r x y))) = 2 * nsens r.
  Proof.
    intro Hr. rewrite zlen_concat_map. rewrite (zsum_map_ext_in _ _ _ (fun p _ => zlen_specS p)).
    rewrite zsum_const, zlen_sensor_cells by exact Hr. reflexivity.
  Qed.
End View.

Lemma highways_gget c x y : inside c x y -> gget false (highways c) x y = highway_b c x y.
Proof.
  intros [Hx Hy]. unfold gget, highways.
  rewrite (jget_znth [] _ x) by (rewrite zlen_map, zlen_zrange; lia).
  rewrite (znth_map _ 0 []) by (rewrite zlen_zrange; lia).
  rewrite jget_znth by (rewrite zlen_map, zlen_zrange; lia).
  rewrite (znth_map _ 0 false) by (rewrite zlen_zrange; lia).
  rewrite !znth_zrange by lia. reflexivity.
Qed.

(* C12: on every consistent state, for every agent and every sensor range, the vector the code writes is the documented view *)
Theorem agent_obs_view c s i : Inv c s -> 0 <= srange c -> 0 <= i < nag c -> agent_obs c s i = view_spec c s i.
Proof.
  intros I Hr Hi. pose proof (inv_w _ _ I) as Wi. set (m := zlen (shelves s)) in Wi.
  pose proof (wi_nag _ _ _ _ Wi) as Ln. cbn [world_of w_ag] in Ln.
  unfold agent_obs, view_spec. cbv zeta. rewrite jget_znth by lia.
  set (a := znth dA (agents s) i). set (r := srange c) in *.
  assert (Ia : inside c (ax a) (ay a)).
  { pose proof (Forall_znth _ dA (agents s) i (wi_aok _ _ _ _ Wi)) as K. cbn [world_of w_ag] in K. apply K. lia. }
  rewrite !sensor_cellval by assumption. rewrite highways_gget by exact Ia.
  set (cells := sensor_cells r (ax a) (ay a)).
  pose proof (nsens_pos r) as Np.
  set (N := Z.to_nat (nfeat r)). assert (EN : Z.of_nat N = 8 + 5 * (nsens r - 1) + 2 * nsens r) by (unfold N, nfeat; lia).
  change (repeat 0 N, 0) with (ws [] N).
  rewrite write_ws by (cbn; lia). rewrite write_ws by (cbn; lia). rewrite write_ws by (cbn; lia).
  cbn [one_hot4 map length Datatypes.app].
  (* the agents layer *)
  assert (EA : map (achunk (agents s) i) (map (cellval c (gag s)) cells) = map (specA (world_of s) (ax a) (ay a)) cells).
  { rewrite map_map. apply map_ext. intro p. apply (achunk_spec c (nag c) m (world_of s) Wi i p Hi). }
  assert (LA : zlen (concat (map (specA (world_of s) (ax a) (ay a)) cells)) = 5 * (nsens r - 1))
    by (apply zlen_specA_cells; exact Hr).
  rewrite (fold_ws _ (achunk (agents s) i) (agent_step_ws (agents s) i)) by (rewrite EA, LA; lia).
  rewrite EA.
  (* the shelves layer *)
  assert (ES : map (schunk (shelves s)) (map (cellval c (gsh s)) cells) = map (specS (world_of s)) cells).
  { rewrite map_map. apply map_ext. intro p. apply (schunk_spec c (nag c) m (world_of s) Wi p). }
  assert (LS : zlen (concat (map (specS (world_of s)) cells)) = 2 * nsens r) by (apply zlen_specS_cells; exact Hr).
  rewrite (fold_ws _ (schunk (shelves s)) (shelf_step_ws (shelves s))) by (rewrite ES, LS; unfold zlen in *; lia).
  rewrite ES. unfold ws. cbn [fst].
  match goal with |- _ ++ repeat 0 ?k = _ => replace k with O by (unfold zlen in *; lia) end.
  cbn [repeat]. rewrite app_nil_r, <- !app_assoc. reflexivity.
Qed.

Theorem observe_view c s : Inv c s -> 0 <= srange c -> observe c s = map (view_spec c s) (zrange (nag c)).
Proof.
  intros I Hr. unfold observe. apply map_ext_in. intros i Hi. apply in_zrange in Hi. apply agent_obs_view; assumption.
Qed.

Print Assumptions agent_obs_view.
Print Assumptions agent_obs_len.
