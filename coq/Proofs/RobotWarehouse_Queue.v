(* RobotWarehouse, part 5: the request queue.  The scan over the agents never touches a request flag; the scan over
   the goals replaces a delivered shelf id in the queue by the freshly drawn one and flips exactly the two flags, so
   [queue_ok] (the queue has no duplicates, holds shelf ids, and is exactly the set of requested shelves) and the
   whole invariant [Inv] are preserved by every collision-free step whose draws satisfy [draws_ok].               *)
Require Import JV.Base.Prelude JV.Base.JaxIndex JV.Base.Codec JV.Base.TimeStep JV.Model.RobotWarehouse JV.Proofs.RobotWarehouse_lib JV.Proofs.RobotWarehouse JV.Proofs.RobotWarehouse_Step JV.Proofs.RobotWarehouse_Check.

(* ---------- lists: first index, update of a duplicate-free list ---------- *)
Lemma first_idx_from_In v l : forall i, In v l ->
  exists k, first_idx_from v l i = Some (i + k) /\ 0 <= k < zlen l /\ znth 0 l k = v.
Proof.
  induction l as [|x r IH]; intros i Hin; [destruct Hin|].
  cbn [first_idx_from]. pose proof (zlen_nonneg r) as Hr. destruct (x =? v) eqn:E.
  - exists 0. split; [f_equal; lia|]. split; [rewrite zlen_cons; lia|].
    unfold znth. cbn [Z.ltb Z.compare Z.to_nat nth]. lia.
  - destruct Hin as [Hx|Hin]; [lia|]. destruct (IH (i + 1) Hin) as (k & E1 & Hk & Ek).
    exists (k + 1). split; [rewrite E1; f_equal; lia|]. split; [rewrite zlen_cons; lia|].
    rewrite znth_cons_succ' by lia. exact Ek.
Qed.

Lemma first_idx_In v l : In v l -> 0 <= first_idx v l < zlen l /\ znth 0 l (first_idx v l) = v.
Proof.
  intro Hin. destruct (first_idx_from_In v l 0 Hin) as (k & E & Hk & Ek).
  unfold first_idx. rewrite E. rewrite Z.add_0_l. split; assumption.
Qed.

Lemma In_upd {A} n (v : A) l j : In j (upd n v l) -> j = v \/ In j l.
Proof.
  revert n. induction l as [|h t IH]; intros [|n] Hin; cbn [upd In] in *; try tauto.
  - destruct Hin as [->|Hin]; auto.
  - destruct Hin as [->|Hin]; auto. destruct (IH n Hin); auto.
Qed.

Lemma NoDup_upd {A} n (v : A) l : NoDup l -> ~ In v l -> NoDup (upd n v l).
Proof.
  intro N. revert n. induction N as [|h t Hh N IH]; intros [|n] Hv; cbn [upd]; try constructor.
  - intro K. apply Hv. right. exact K.
  - exact N.
  - intro K. apply In_upd in K as [->|K]; [apply Hv; left; reflexivity|apply Hh; exact K].
  - apply IH. intro K. apply Hv. right. exact K.
Qed.

Lemma In_upd_iff n v (l : list Z) j : NoDup l -> (n < length l)%nat ->
  (In j (upd n v l) <-> j = v \/ (In j l /\ j <> nth n l 0)).
Proof.
  intro N. revert n. induction N as [|h t Hh N IH]; intros [|n] Hn; cbn [length] in Hn; try lia; cbn [upd In nth].
  - split.
    + intros [->|K]; [left; reflexivity|]. right. split; [right; exact K|]. intros ->. apply Hh. exact K.
    + intros [->|[[->|K] Hne]]; [left; reflexivity|congruence|right; exact K].
  - rewrite IH by lia. split.
    + intros [->|[->|[K Hne]]].
      * right. split; [left; reflexivity|]. intro E. apply Hh. rewrite E. apply nth_In. lia.
      * left. reflexivity.
      * right. split; [right; exact K|exact Hne].
    + intros [->|[[->|K] Hne]]; [right; left; reflexivity|left; reflexivity|right; right; split; assumption].
Qed.

Lemma NoDup_zupd {A} k (v : A) l : NoDup l -> ~ In v l -> NoDup (zupd k v l).
Proof. intros N Hv. unfold zupd. destruct (k <? 0); [exact N|apply NoDup_upd; assumption]. Qed.

Lemma In_zupd_iff k v (q : list Z) j : NoDup q -> 0 <= k < zlen q ->
  (In j (zupd k v q) <-> j = v \/ (In j q /\ j <> znth 0 q k)).
Proof.
  intros N Hk. unfold zupd. destruct (k <? 0) eqn:E; [lia|]. rewrite znth_nth by lia.
  apply In_upd_iff; [exact N|unfold zlen in Hk; lia].
Qed.

Lemma map_upd_same {A B} (f : A -> B) d n v l :
  (n < length l)%nat -> f v = f (nth n l d) -> map f (upd n v l) = map f l.
Proof.
  revert n. induction l as [|h t IH]; intros [|n] Hn E; cbn [length] in Hn; try lia; cbn [upd map nth] in *.
  - rewrite E. reflexivity.
  - f_equal. apply IH; [lia|exact E].
Qed.

(* a scatter that rewrites an entry without changing its image under [f] is invisible through [map f];
   unconditional: an out-of-range scatter is dropped, an in-range one hits the entry the gather reads *)
Lemma map_jset_same {A B} (f : A -> B) d l i v : f v = f (jget d l i) -> map f (jset l i v) = map f l.
Proof.
  unfold jset, jget, jclamp. set (n := zlen l). set (j := jnorm n i). intro E.
  destruct ((0 <=? j) && (j <? n)) eqn:R; [|reflexivity].
  replace (Z.max 0 (Z.min (n - 1) j)) with j in E by lia.
  unfold zupd. destruct (j <? 0) eqn:E0; [lia|]. rewrite znth_nth in E by lia.
  apply (map_upd_same f d); [unfold n, zlen in R; lia|exact E].
Qed.

(* ---------- set_req ---------- *)
Lemma set_req_zupd shs j b : 0 <= j < zlen shs ->
  set_req shs j b = zupd j (mkSh (sx (znth dSh shs j)) (sy (znth dSh shs j)) b) shs.
Proof. intro Hj. unfold set_req. rewrite jget_znth by lia. rewrite jset_zupd by lia. reflexivity. Qed.

Lemma zlen_set_req shs j b : zlen (set_req shs j b) = zlen shs.
Proof. unfold set_req. apply zlen_jset. Qed.

Lemma sreq_set_req shs j b j' : 0 <= j < zlen shs -> 0 <= j' ->
  sreq (znth dSh (set_req shs j b) j') = if j' =? j then b else sreq (znth dSh shs j').
Proof.
  intros Hj Hj'. rewrite set_req_zupd by lia. rewrite znth_zupd by lia.
  destruct (j' =? j); reflexivity.
Qed.

(* ---------- one goal ---------- *)
Lemma in_queue_In q sid : in_queue q sid = true -> In (sid - 1) q.
Proof.
  unfold in_queue. rewrite existsb_exists. intros (r & Hr & E).
  replace (sid - 1) with r by lia. exact Hr.
Qed.

Lemma goal_step_queue_ok m gs q shs rew goal draw :
  zlen shs = m -> queue_ok m shs q ->
  (if delivered gs q goal then (0 <=? draw) && (draw <? m) && negb (existsb (Z.eqb draw) q) else true) = true ->
  let st' := goal_step gs (q, shs, rew) goal draw in
  queue_ok m (snd (fst st')) (fst (fst st')) /\ zlen (fst (fst st')) = zlen q /\ zlen (snd (fst st')) = m.
Proof.
  intros L (N & R & F) Hd. cbv zeta. unfold goal_step.
  destruct (delivered gs q goal) eqn:D; cbn [fst snd]; [|split; [exact (conj N (conj R F))|split; [reflexivity|exact L]]].
  set (sid := gget 0 gs (snd goal) (fst goal)) in *.
  unfold delivered in D. fold sid in D. apply andb_true_iff in D as [D0 D1].
  apply in_queue_In in D1.
  assert (Hs : 0 <= sid - 1 < m) by (apply R; exact D1).
  destruct (first_idx_In _ _ D1) as [Hk Ek]. set (k := first_idx (sid - 1) q) in *.
  assert (Hdr : 0 <= draw < m) by lia.
  assert (Hnin : ~ In draw q).
  { intro K. apply existsb_eqb_In in K. rewrite K in Hd. rewrite andb_false_r in Hd. discriminate. }
  assert (Hne : draw <> sid - 1) by (intro K; apply Hnin; rewrite K; exact D1).
  rewrite jset_zupd by lia.
  split; [|split; [apply zlen_zupd|rewrite !zlen_set_req; exact L]].
  split; [apply NoDup_zupd; assumption|]. split.
  - intros j Hj. apply (In_zupd_iff k draw q j N Hk) in Hj as [->|[Hj _]]; [exact Hdr|apply R; exact Hj].
  - intros j Hj. rewrite (In_zupd_iff k draw q j N Hk). rewrite Ek.
    rewrite sreq_set_req by (rewrite ?zlen_set_req; lia).
    rewrite sreq_set_req by lia.
    destruct (j =? draw) eqn:E1.
    + split; [intros _; left; lia|reflexivity].
    + destruct (j =? sid - 1) eqn:E2.
      * split; [discriminate|]. intros [K|[_ K]]; lia.
      * rewrite (F j Hj). split.
        -- intro K. right. split; [exact K|lia].
        -- intros [K|[K _]]; [lia|exact K].
Qed.

(* ---------- the scan over the goals ---------- *)
Theorem goals_scan_queue_ok m gs gl : forall st draws,
  zlen (snd (fst st)) = m -> queue_ok m (snd (fst st)) (fst (fst st)) ->
  draws_ok m gs st gl draws = true ->
  let st' := goals_scan gs st gl draws in
  queue_ok m (snd (fst st')) (fst (fst st')) /\ zlen (fst (fst st')) = zlen (fst (fst st)) /\ zlen (snd (fst st')) = m.
Proof.
  induction gl as [|g r IH]; intros st draws L Q Hd; cbv zeta; cbn [goals_scan].
  - split; [exact Q|split; [reflexivity|exact L]].
  - cbn [draws_ok] in Hd. apply andb_true_iff in Hd as [Hd1 Hd2].
    destruct st as [[q shs] rew]. cbn [fst snd] in *.
    destruct (goal_step_queue_ok m gs q shs rew g (hd 0 draws) L Q Hd1) as (Q1 & L1 & L2).
    destruct (IH _ (tl draws) L2 Q1 Hd2) as (Q2 & L3 & L4).
    split; [exact Q2|split; [lia|exact L4]].
Qed.

(* ---------- the scan over the agents never changes a request flag ---------- *)
Lemma act_agent_sreq H W hw w act i : map sreq (w_sh (act_agent H W hw w act i)) = map sreq (w_sh w).
Proof.
  unfold act_agent, set_carry. cbv zeta.
  repeat match goal with |- context [if ?b then _ else _] => destruct b end; cbn [w_sh]; try reflexivity.
  apply (map_jset_same sreq dSh). reflexivity.
Qed.

Lemma scan_agents_sreq H W hw acts : forall w i, map sreq (w_sh (scan_agents H W hw w acts i)) = map sreq (w_sh w).
Proof.
  induction acts as [|a r IH]; intros w i; cbn [scan_agents]; [reflexivity|].
  rewrite IH. apply act_agent_sreq.
Qed.

Theorem moved_sreq c s acts : map sreq (w_sh (moved c s acts)) = map sreq (shelves s).
Proof. unfold moved. rewrite scan_agents_sreq. reflexivity. Qed.

Lemma moved_nsh c s acts : zlen (w_sh (moved c s acts)) = zlen (shelves s).
Proof. rewrite <- (zlen_map sreq), moved_sreq. apply zlen_map. Qed.

(* [queue_ok] only looks at the request flags *)
Lemma queue_ok_ext m shs shs' q :
  zlen shs = m -> map sreq shs' = map sreq shs -> queue_ok m shs q -> queue_ok m shs' q.
Proof.
  intros L E (N & R & F).
  assert (L' : zlen shs' = m) by (rewrite <- (zlen_map sreq), E, zlen_map; exact L).
  split; [exact N|]. split; [exact R|]. intros j Hj.
  rewrite <- (znth_map sreq dSh false) by lia. rewrite E. rewrite (znth_map sreq dSh false) by lia.
  apply F. exact Hj.
Qed.

Theorem moved_queue_ok c s acts : Inv c s -> queue_ok (zlen (shelves s)) (w_sh (moved c s acts)) (queue s).
Proof.
  intro I. apply (queue_ok_ext _ (shelves s)); [reflexivity|apply moved_sreq|apply (inv_q _ _ I)].
Qed.

(* ---------- the invariant is preserved ---------- *)
Theorem step_preserves_Inv c s acts draws :
  Inv c s -> zlen acts = nag c -> collided c s acts = false ->
  draws_ok (zlen (shelves s)) (w_gs (moved c s acts)) (queue s, w_sh (moved c s acts), 0) (goals c) draws = true ->
  Inv c (fst (step c s acts draws)).
Proof.
  intros I L Hc Hd. destruct (step_consistent c s acts draws I L Hc) as (Wn & Ln & Em). cbv zeta in Wn, Ln, Em.
  constructor.
  - rewrite Ln. exact Wn.
  - rewrite Ln. rewrite step_state. cbn [shelves queue].
    destruct (goals_scan_queue_ok (zlen (shelves s)) (w_gs (moved c s acts)) (goals c)
                (queue s, w_sh (moved c s acts), 0) draws) as (Q & L1 & _); cbn [fst snd].
    + apply moved_nsh.
    + apply moved_queue_ok. exact I.
    + exact Hd.
    + cbn [fst snd] in L1. split; [exact Q|]. rewrite L1. apply (inv_q _ _ I).
  - exact Em.
Qed.

(* ---------- along a run ---------- *)
Fixpoint run (c : cfg) (s : state) (tr : list (list Z * list Z)) : state :=
  match tr with [] => s | (acts, draws) :: r => run c (fst (step c s acts draws)) r end.

Fixpoint run_ok (c : cfg) (s : state) (tr : list (list Z * list Z)) : Prop :=
  match tr with
  | [] => True
  | (acts, draws) :: r =>
      zlen acts = nag c /\ collided c s acts = false
      /\ draws_ok (zlen (shelves s)) (w_gs (moved c s acts)) (queue s, w_sh (moved c s acts), 0) (goals c) draws = true
      /\ run_ok c (fst (step c s acts draws)) r
  end.

Theorem run_preserves_Inv c tr : forall s, Inv c s -> run_ok c s tr -> Inv c (run c s tr).
Proof.
  induction tr as [|[acts draws] r IH]; intros s I Hr; cbn [run]; [exact I|].
  cbn [run_ok] in Hr. destruct Hr as (L & Hc & Hd & Hr).
  apply IH; [apply step_preserves_Inv; assumption|exact Hr].
Qed.

Print Assumptions goals_scan_queue_ok.
Print Assumptions run_preserves_Inv.
Print Assumptions step_preserves_Inv.

(* ---------- example: a delivery.  In ex_c (6 x 4 grid, goals at (5,1) and (5,2), queue [0]) agent 0 carries the requested
   shelf 1 (id 0) at (4,1) facing DOWN, one step from the goal ---------- *)
Definition ex_sd : state :=
  let gs := [[0;0;0;0]; [0;0;2;0]; [0;0;0;0]; [0;0;0;0]; [0;1;0;0]; [0;0;0;0]] in
  let ga := [[0;0;0;2]; [0;0;0;0]; [0;0;0;0]; [0;0;0;0]; [0;1;0;0]; [0;0;0;0]] in
  let ags := [mkA 4 1 2 true; mkA 0 3 2 false] in
  mkS gs ga ags [mkSh 4 1 true; mkSh 1 2 false] [0] 0 (compute_mask (gh ex_c) (gw ex_c) gs ags).
