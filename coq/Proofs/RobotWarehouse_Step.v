(* RobotWarehouse, part 3: the step.  Time limit / protocol (C11, C03), masked FORWARD = NOOP (C05), the successor of
   a collision-free step is consistent (C07), the mask is the table of legal moves (C04).                          *)
Require Import JV.Base.Prelude JV.Base.JaxIndex JV.Base.Codec JV.Base.TimeStep JV.Model.RobotWarehouse
               JV.Proofs.RobotWarehouse_lib JV.Proofs.RobotWarehouse.

(* ---------- shape of the step ---------- *)
Lemma step_ts c s acts draws :
  snd (step c s acts draws) =
  cond_done 1 (collided c s acts || (tlim c <=? cnt s + 1))
            [snd (goals_scan (w_gs (moved c s acts)) (queue s, w_sh (moved c s acts), 0) (goals c) draws)].
Proof. unfold step, collided. destruct (goals_scan _ _ _ _) as [[q shs] rew]. reflexivity. Qed.

Lemma step_state c s acts draws :
  let w := moved c s acts in
  let r := goals_scan (w_gs w) (queue s, w_sh w, 0) (goals c) draws in
  fst (step c s acts draws) =
  mkS (w_gs w) (w_ga w) (w_ag w) (snd (fst r)) (fst (fst r)) (cnt s + 1) (compute_mask (gh c) (gw c) (w_gs w) (w_ag w)).
Proof. cbv zeta. unfold step. destruct (goals_scan _ _ _ _) as [[q shs] rew]. reflexivity. Qed.

Theorem step_cnt c s acts draws : cnt (fst (step c s acts draws)) = cnt s + 1.
Proof. rewrite step_state. reflexivity. Qed.

(* C11 / C03: LAST exactly on a collision or at the limit *)
Theorem step_last_iff c s acts draws :
  st (snd (step c s acts draws)) = LAST <-> (collided c s acts = true \/ tlim c <= cnt s + 1).
Proof.
  rewrite step_ts. unfold cond_done. destruct (collided c s acts); cbn [orb].
  - cbn. split; auto.
  - destruct (tlim c <=? cnt s + 1) eqn:E; cbn.
    + split; [intros _; right; lia|reflexivity].
    + split; [discriminate|]. intros [K|K]; [discriminate|lia].
Qed.

Theorem step_protocol c s acts draws : step_ok 1 false (snd (step c s acts draws)) = true.
Proof. rewrite step_ts. unfold cond_done. destruct (_ || _); reflexivity. Qed.

Theorem init_first c cells dirs q : first_ok 1 (snd (init c cells dirs q)) = true.
Proof. reflexivity. Qed.

(* the mask the next observation carries is the mask of the successor state *)
Theorem step_mask c s acts draws :
  let s' := fst (step c s acts draws) in amask s' = compute_mask (gh c) (gw c) (gsh s') (agents s').
Proof. cbv zeta. rewrite step_state. reflexivity. Qed.

(* ---------- C05: a masked-out action is rewritten to NOOP ---------- *)
Lemma sanitize1_idem row a : sanitize1 row (sanitize1 row a) = sanitize1 row a.
Proof.
  unfold sanitize1. destruct (jget false row a) eqn:E; [rewrite E; reflexivity|].
  destruct (jget false row 0); reflexivity.
Qed.

Lemma sanitize_idem mask : forall acts, sanitize mask (sanitize mask acts) = sanitize mask acts.
Proof.
  induction mask as [|r mask IH]; intros [|a acts]; try reflexivity.
  unfold sanitize in *. cbn [map2]. rewrite sanitize1_idem. f_equal. apply IH.
Qed.

(* playing the sanitised joint action (every masked-out action replaced by NOOP) gives the same step *)
Theorem step_sanitized c s acts draws : step c s (sanitize (amask s) acts) draws = step c s acts draws.
Proof. unfold step, moved. rewrite sanitize_idem. reflexivity. Qed.

(* only FORWARD is ever masked *)
Theorem nonforward_always_valid H W gs a act : act <> FORWARD -> valid_action H W gs a act = true.
Proof. intro Hne. unfold valid_action. replace (act =? FORWARD) with false by (unfold FORWARD in *; lia). reflexivity. Qed.

(* the agent whose action is masked out keeps its cell, its direction and its load *)
Theorem masked_agent_untouched c s acts draws i :
  Inv c s -> zlen acts = nag c -> 0 <= i < nag c ->
  jget false (znth [] (amask s) i) (znth 0 acts i) = false ->
  znth dA (agents (fst (step c s acts draws))) i = znth dA (agents s) i.
Proof.
  intros I L Hi Hm. rewrite step_state. cbn [agents]. unfold moved.
  pose proof (Inv_world_shape c s I) as Sh.
  assert (Lm : zlen (amask s) = zlen acts).
  { rewrite (inv_mask _ _ I). unfold compute_mask. rewrite zlen_map. rewrite L. apply (sh_nag _ _ _ Sh). }
  rewrite (scan_entry c (highways c) (nag c)); try assumption; try lia.
  - reflexivity.
  - rewrite zlen_sanitize by exact Lm. lia.
  - intros _. rewrite Z.sub_0_r. rewrite znth_sanitize by lia. apply sanitize1_masked. exact Hm.
Qed.

(* ---------- the goal scan only rewrites request flags ---------- *)
Lemma set_req_spec shs j b :
  set_req shs j b = shs \/
  exists j', 0 <= j' < zlen shs /\
             set_req shs j b = zupd j' (mkSh (sx (znth dSh shs j')) (sy (znth dSh shs j')) b) shs.
Proof.
  unfold set_req, jset, jget. set (n := zlen shs). set (j' := jnorm n j).
  destruct ((0 <=? j') && (j' <? n)) eqn:E; [|left; reflexivity].
  right. exists j'. split; [lia|]. unfold jclamp. fold j'. replace (Z.max 0 (Z.min (n - 1) j')) with j' by lia. reflexivity.
Qed.

Definition same_places (a b : list shelf) : Prop :=
  zlen a = zlen b /\ (forall i, spos a i = spos b i) /\ (forall c, Forall (shelf_ok c) b -> Forall (shelf_ok c) a).

Lemma same_places_refl a : same_places a a.
Proof. repeat split; auto. Qed.

Lemma same_places_trans a b d : same_places a b -> same_places b d -> same_places a d.
Proof.
  intros (L1 & P1 & F1) (L2 & P2 & F2). repeat split; [lia| |auto].
  intro i. rewrite P1. apply P2.
Qed.

Lemma set_req_places shs j b : same_places (set_req shs j b) shs.
Proof.
  destruct (set_req_spec shs j b) as [->|(j' & Hj & ->)]; [apply same_places_refl|].
  repeat split.
  - apply zlen_zupd.
  - intro i. unfold spos. destruct (Z_lt_dec i 0) as [Hn|Hn].
    + unfold znth. destruct (i <? 0) eqn:E; [reflexivity|lia].
    + rewrite znth_zupd by lia. destruct (i =? j') eqn:E; [|reflexivity].
      assert (i = j') by lia. subst. reflexivity.
  - intros c F. apply Forall_zupd; [exact F|]. apply (Forall_znth (shelf_ok c) dSh shs j' F Hj).
Qed.

Lemma goal_step_places gs st g d : same_places (snd (fst (goal_step gs st g d))) (snd (fst st)).
Proof.
  destruct st as [[q shs] rew]. unfold goal_step. destruct (delivered gs q g); cbn [fst snd]; [|apply same_places_refl].
  eapply same_places_trans; apply set_req_places.
Qed.

Lemma goals_scan_places gs gl : forall st draws, same_places (snd (fst (goals_scan gs st gl draws))) (snd (fst st)).
Proof.
  induction gl as [|g r IH]; intros st draws; cbn [goals_scan]; [apply same_places_refl|].
  eapply same_places_trans; [apply IH|apply goal_step_places].
Qed.

Lemma WInv_places c n m gs ga ag sh sh' :
  WInv c n m (mkW gs ga ag sh) -> same_places sh' sh -> WInv c n m (mkW gs ga ag sh').
Proof.
  intros I (L & P & F). constructor; cbn [w_gs w_ga w_ag w_sh]; try apply I.
  - rewrite L. apply I.
  - apply F. apply I.
  - intros i Hi. rewrite P. apply (wi_s1 _ _ _ _ I i Hi).
  - intros x y Ixy Hne. destruct (wi_s2 _ _ _ _ I x y Ixy Hne) as [R E]. split; [exact R|]. rewrite P. exact E.
Qed.

(* C07: after ANY joint action that does not end in a collision, the successor state is physically consistent:
   layers = tables (bijection between marks and table rows: one agent per cell, one shelf per cell), everything inside
   the grid, carried shelves under their agents, the same number of shelves, and the stored mask is the mask of the state *)
Theorem step_consistent c s acts draws :
  Inv c s -> zlen acts = nag c -> collided c s acts = false ->
  let s' := fst (step c s acts draws) in
  WInv c (nag c) (zlen (shelves s)) (world_of s') /\ zlen (shelves s') = zlen (shelves s)
  /\ amask s' = compute_mask (gh c) (gw c) (gsh s') (agents s').
Proof.
  intros I L Hc. cbv zeta. pose proof (moved_WInv c s acts I L Hc) as Wm.
  rewrite step_state. cbn [world_of gsh gag agents shelves amask].
  set (w := moved c s acts) in *.
  pose proof (goals_scan_places (w_gs w) (goals c) (queue s, w_sh w, 0) draws) as Pl. cbn [fst snd] in Pl.
  split; [|split; [|reflexivity]].
  - destruct w as [gs ga ag sh]. apply (WInv_places c _ _ gs ga ag sh); assumption.
  - destruct Pl as (Lp & _). rewrite Lp. apply Wm.
Qed.

(* agents stand on pairwise distinct cells in a consistent world *)
Theorem WInv_agents_distinct c n m w i j :
  WInv c n m w -> 0 <= i < n -> 0 <= j < n -> apos (w_ag w) i = apos (w_ag w) j -> i = j.
Proof.
  intros I Hi Hj E. pose proof (wi_a1 _ _ _ _ I i Hi) as A. pose proof (wi_a1 _ _ _ _ I j Hj) as B.
  rewrite E in A. lia.
Qed.
Theorem WInv_shelves_distinct c n m w i j :
  WInv c n m w -> 0 <= i < m -> 0 <= j < m -> spos (w_sh w) i = spos (w_sh w) j -> i = j.
Proof.
  intros I Hi Hj E. pose proof (wi_s1 _ _ _ _ I i Hi) as A. pose proof (wi_s1 _ _ _ _ I j Hj) as B.
  rewrite E in A. lia.
Qed.

(* ---------- C04: the mask is the table of legal moves (rule stated on the shelf TABLE) ---------- *)
Lemma shelf_at_iff c n m w x y : WInv c n m w -> inside c x y ->
  (shelf_at (w_sh w) x y = true <-> gat 0 (w_gs w) x y <> 0).
Proof.
  intros I Ixy. unfold shelf_at. rewrite existsb_exists. split.
  - intros (sh & Hin & E). destruct (In_znth dSh _ _ Hin) as (j & Hj & Ej).
    rewrite (wi_nsh _ _ _ _ I) in Hj. pose proof (wi_s1 _ _ _ _ I j Hj) as S1.
    unfold spos in S1. rewrite Ej in S1. cbn [fst snd] in S1.
    assert (sx sh = x /\ sy sh = y) as [<- <-] by lia. lia.
  - intro Hne. destruct (wi_s2 _ _ _ _ I x y Ixy Hne) as [R E].
    exists (znth dSh (w_sh w) (gat 0 (w_gs w) x y - 1)). split.
    + apply znth_In. rewrite (wi_nsh _ _ _ _ I). lia.
    + unfold spos in E. pose proof (f_equal fst E) as E1. pose proof (f_equal snd E) as E2. cbn [fst snd] in E1, E2.
      rewrite E1, E2, !Z.eqb_refl. reflexivity.
Qed.

Lemma valid_is_legal c n m w a act : WInv c n m w -> agent_ok c a ->
  valid_action (gh c) (gw c) (w_gs w) a act = legal_b c (w_sh w) a act.
Proof.
  intros I [[Hx Hy] Hd]. unfold valid_action, legal_b.
  destruct (act =? FORWARD); [|reflexivity]. destruct (acar a); [|reflexivity]. cbn [andb]. f_equal.
  set (q := ahead (ax a) (ay a) (adir a)).
  destruct (inside_b c (fst q) (snd q)) eqn:Ein.
  - assert (Ep : fwd_pos (gh c) (gw c) (ax a) (ay a) (adir a) = q).
    { unfold inside_b in Ein. unfold q, fwd_pos, ahead in *.
      replace (Z.max 0 (Z.min 3 (adir a))) with (adir a) by lia.
      destruct (adir a =? 0); [cbn [fst snd] in Ein; f_equal; lia|].
      destruct (adir a =? 1); [cbn [fst snd] in Ein; f_equal; lia|].
      destruct (adir a =? 2); cbn [fst snd] in Ein; f_equal; lia. }
    rewrite Ep.
    assert (Iq : inside c (fst q) (snd q)) by (unfold inside_b in Ein; unfold inside; lia).
    assert (Hne : (ax a =? fst q) && (ay a =? snd q) = false).
    { unfold q, ahead. destruct (adir a =? 0); [cbn [fst snd]; lia|]. destruct (adir a =? 1); [cbn [fst snd]; lia|].
      destruct (adir a =? 2); cbn [fst snd]; lia. }
    rewrite Hne. cbn [negb andb].
    rewrite (gget_dims _ (gh c) (gw c)) by (try apply I; apply Iq).
    pose proof (shelf_at_iff c n m w _ _ I Iq) as K.
    destruct (shelf_at (w_sh w) (fst q) (snd q)); destruct (gat 0 (w_gs w) (fst q) (snd q) =? 0) eqn:E0; try reflexivity; exfalso.
    + destruct K as [K _]. specialize (K eq_refl). lia.
    + destruct K as [_ K]. assert (true = false); [|discriminate]. symmetry. apply K. lia.
  - (* the cell ahead is outside the grid: the clamped move stays in place *)
    assert (Ep : (ax a =? fst (fwd_pos (gh c) (gw c) (ax a) (ay a) (adir a))) && (ay a =? snd (fwd_pos (gh c) (gw c) (ax a) (ay a) (adir a))) = true).
    { unfold inside_b in Ein. unfold q, fwd_pos, ahead in *.
      replace (Z.max 0 (Z.min 3 (adir a))) with (adir a) by lia.
      destruct (adir a =? 0); [cbn [fst snd] in *; lia|].
      destruct (adir a =? 1); [cbn [fst snd] in *; lia|].
      destruct (adir a =? 2); cbn [fst snd] in *; lia. }
    rewrite Ep. reflexivity.
Qed.

Theorem mask_is_legal c s : Inv c s -> amask s = legal_mask c s.
Proof.
  intro I. rewrite (inv_mask _ _ I). unfold compute_mask, legal_mask.
  apply map_ext_in. intros a Ha. apply map_ext. intro act.
  apply (valid_is_legal c (nag c) (zlen (shelves s)) (world_of s)); [apply I|].
  pose proof (wi_aok _ _ _ _ (inv_w _ _ I)) as F. rewrite Forall_forall in F. apply F. exact Ha.
Qed.

(* the mask of the successor of a collision-free step is the table of legal moves of the successor *)
Theorem step_mask_is_legal c s acts draws :
  Inv c s -> zlen acts = nag c -> collided c s acts = false ->
  let s' := fst (step c s acts draws) in amask s' = legal_mask c s'.
Proof.
  intros I L Hc. cbv zeta. destruct (step_consistent c s acts draws I L Hc) as (Wn & _ & Em).
  rewrite Em. unfold compute_mask, legal_mask.
  apply map_ext_in. intros a Ha. apply map_ext. intro act.
  apply (valid_is_legal c (nag c) (zlen (shelves s)) (world_of (fst (step c s acts draws)))); [exact Wn|].
  pose proof (wi_aok _ _ _ _ Wn) as F. rewrite Forall_forall in F. apply F. exact Ha.
Qed.
