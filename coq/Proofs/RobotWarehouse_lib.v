(* RobotWarehouse, part 1: list / grid library.  Strict access ([znth], [gat]) versus the JAX gather / scatter
   ([jget], [jset], [gget], [gset]) on well-shaped tables and grids.                                            *)
Require Import JV.Base.Prelude JV.Base.JaxIndex JV.Base.Codec JV.Base.TimeStep JV.Model.RobotWarehouse.

Lemma znth_nth {A} (d : A) l i : 0 <= i -> znth d l i = nth (Z.to_nat i) l d.
Proof. intro H. unfold znth. destruct (i <? 0) eqn:E; [lia|reflexivity]. Qed.

Lemma znth_In {A} (d : A) l i : 0 <= i < zlen l -> In (znth d l i) l.
Proof. intro H. rewrite znth_nth by lia. apply nth_In. unfold zlen in *. lia. Qed.

Lemma In_znth {A} (d : A) l x : In x l -> exists i, 0 <= i < zlen l /\ znth d l i = x.
Proof.
  intro H. destruct (In_nth l x d H) as [n [Hn E]]. exists (Z.of_nat n). split; [unfold zlen; lia|].
  rewrite znth_nth by lia. rewrite Nat2Z.id. exact E.
Qed.

Lemma Forall_znth {A} (P : A -> Prop) d l i : Forall P l -> 0 <= i < zlen l -> P (znth d l i).
Proof. intros F H. rewrite Forall_forall in F. apply F. apply znth_In. exact H. Qed.

Lemma Forall_upd {A} (P : A -> Prop) n v l : Forall P l -> P v -> Forall P (upd n v l).
Proof. intros F Pv. revert n. induction F as [|x l Px F IH]; intros [|n]; cbn [upd]; auto. Qed.

Lemma Forall_zupd {A} (P : A -> Prop) i v l : Forall P l -> P v -> Forall P (zupd i v l).
Proof. intros F Pv. unfold zupd. destruct (i <? 0); auto using Forall_upd. Qed.

Lemma zlen_zupd {A} i (v : A) l : zlen (zupd i v l) = zlen l.
Proof. unfold zlen. rewrite zupd_length. reflexivity. Qed.

Lemma znth_zupd {A} (d : A) i j v l :
  0 <= i < zlen l -> 0 <= j -> znth d (zupd i v l) j = if j =? i then v else znth d l j.
Proof.
  intros Hi Hj. rewrite !znth_nth by lia. unfold zupd. destruct (i <? 0) eqn:E; [lia|].
  destruct (j =? i) eqn:E2.
  - assert (j = i) by lia. subst j. apply nth_upd_same. unfold zlen in *. lia.
  - apply nth_upd_other. lia.
Qed.

Lemma zlen_map {A B} (f : A -> B) l : zlen (map f l) = zlen l.
Proof. unfold zlen. rewrite map_length. reflexivity. Qed.

Lemma zlen_zrange n : 0 <= n -> zlen (zrange n) = n.
Proof. intro H. unfold zlen, zrange. rewrite zrange_from_length. lia. Qed.

Lemma znth_zrange n i : 0 <= i < n -> znth 0 (zrange n) i = i.
Proof. intro H. rewrite znth_nth by lia. unfold zrange. rewrite zrange_from_nth by lia. lia. Qed.

Lemma znth_map {A B} (f : A -> B) (d : A) (d' : B) l i :
  0 <= i < zlen l -> znth d' (map f l) i = f (znth d l i).
Proof.
  intro H. rewrite !znth_nth by lia.
  rewrite (nth_indep _ d' (f d)) by (rewrite map_length; unfold zlen in *; lia).
  apply map_nth.
Qed.

(* ---------- tables: jget / jset in range ---------- *)
Lemma jget_znth {A} (d : A) l i : 0 <= i < zlen l -> jget d l i = znth d l i.
Proof. intro H. rewrite jget_in_range by lia. rewrite znth_nth by lia. reflexivity. Qed.

Lemma jset_zupd {A} (l : list A) i v : 0 <= i < zlen l -> jset l i v = zupd i v l.
Proof. intro H. rewrite jset_in_range by lia. unfold zupd. destruct (i <? 0) eqn:E; [lia|reflexivity]. Qed.

Lemma zlen_jset {A} (l : list A) i v : zlen (jset l i v) = zlen l.
Proof. unfold zlen. rewrite jset_length. reflexivity. Qed.

Lemma znth_jset {A} (d : A) l i j v :
  0 <= i < zlen l -> 0 <= j -> znth d (jset l i v) j = if j =? i then v else znth d l j.
Proof. intros Hi Hj. rewrite jset_zupd by lia. apply znth_zupd; lia. Qed.

Lemma Forall_jset {A} (P : A -> Prop) l i v : Forall P l -> P v -> Forall P (jset l i v).
Proof.
  intros F Pv. unfold jset. destruct (_ && _); [|exact F]. apply Forall_zupd; assumption.
Qed.

(* ---------- grids ---------- *)
Lemma dims_b_spec g R C : dims_b g R C = true <-> dims g R C.
Proof.
  unfold dims_b, dims. rewrite andb_true_iff, forallb_forall, Forall_forall, Z.eqb_eq.
  split; intros [H1 H2]; split; auto; intros x Hx; specialize (H2 x Hx); lia.
Qed.

Lemma dims_row g R C r : dims g R C -> 0 <= r < R -> zlen (znth [] g r) = C.
Proof. intros [L F] H. apply (Forall_znth (fun row => zlen row = C)); [exact F|lia]. Qed.

Lemma gget_gat {A} (d : A) g R C r c :
  zlen g = R -> zlen (znth [] g r) = C -> 0 <= r < R -> 0 <= c < C -> gget d g r c = gat d g r c.
Proof.
  intros L Lr Hr Hc. unfold gget, gat.
  rewrite (jget_in_range [] g r) by lia. rewrite <- (znth_nth [] g r) by lia.
  rewrite jget_in_range by lia. rewrite <- znth_nth by lia. reflexivity.
Qed.

Lemma gget_dims g R C r c : dims g R C -> 0 <= r < R -> 0 <= c < C -> gget 0 g r c = gat 0 g r c.
Proof.
  intros D Hr Hc. apply (gget_gat 0 g R C); try assumption; [apply D | apply (dims_row g R C); assumption].
Qed.

Lemma gset_in_range g R C r c v :
  dims g R C -> 0 <= r < R -> 0 <= c < C -> gset g r c v = zupd r (zupd c v (znth [] g r)) g.
Proof.
  intros D Hr Hc. pose proof (dims_row g R C r D Hr) as Lr. destruct D as [L F].
  unfold gset, jnorm. rewrite L.
  destruct (r <? 0) eqn:E; [lia|].
  replace ((0 <=? r) && (r <? R)) with true by lia. cbv zeta. rewrite Lr.
  destruct (c <? 0) eqn:E2; [lia|].
  replace ((0 <=? c) && (c <? C)) with true by lia. reflexivity.
Qed.

Lemma dims_gset g R C r c v : dims g R C -> 0 <= r < R -> 0 <= c < C -> dims (gset g r c v) R C.
Proof.
  intros D Hr Hc. rewrite (gset_in_range g R C) by assumption.
  pose proof (dims_row g R C r D Hr) as Lr. destruct D as [L F]. split.
  - rewrite zlen_zupd. exact L.
  - apply Forall_zupd; [exact F|]. rewrite zlen_zupd. exact Lr.
Qed.

Lemma gat_gset g R C r c v r' c' :
  dims g R C -> 0 <= r < R -> 0 <= c < C -> 0 <= r' < R -> 0 <= c' < C ->
  gat 0 (gset g r c v) r' c' = if (r' =? r) && (c' =? c) then v else gat 0 g r' c'.
Proof.
  intros D Hr Hc Hr' Hc'. rewrite (gset_in_range g R C) by assumption.
  pose proof (dims_row g R C r D Hr) as Lr. destruct D as [L F].
  unfold gat. rewrite znth_zupd by lia.
  destruct (r' =? r) eqn:E1; cbn [andb]; [|reflexivity].
  rewrite znth_zupd by lia. assert (r' = r) by lia. subst r'.
  destruct (c' =? c); reflexivity.
Qed.

(* booleans *)
Lemma forallb_zrange (f : Z -> bool) n : forallb f (zrange n) = true <-> (forall i, 0 <= i < n -> f i = true).
Proof.
  rewrite forallb_forall. split; intros H i Hi.
  - apply H. apply in_zrange. exact Hi.
  - apply H. apply in_zrange. exact Hi.
Qed.
