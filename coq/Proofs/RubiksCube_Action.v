(* RubiksCube: is_solved exactness, flatten / unflatten bijection, structure of all_moves. *)
Require Import JV.Base.Prelude JV.Base.JaxIndex JV.Base.Codec JV.Base.TimeStep JV.Gen.RubikTables JV.Model.RubiksCube.

(* ---------------------------------------------------------------- uniform_b / is_solved *)
Lemma uniform_b_spec g : uniform_b g = true <-> Uniform g.
Proof.
  unfold uniform_b, Uniform. destruct (concat g) as [|x t].
  - split; auto. intros _. exists 0. intros y [].
  - rewrite forallb_forall. split.
    + intros H. exists x. intros y [E|Hy]; auto. apply H in Hy. apply Z.eqb_eq in Hy. auto.
    + intros [v H] y Hy. apply Z.eqb_eq. rewrite (H x), (H y); auto; [right|left]; auto.
Qed.

Lemma rca_fold_max_bounds t : forall a,
  a <= fold_left Z.max t a /\ (forall x, In x t -> x <= fold_left Z.max t a).
Proof.
  induction t as [|h t IH]; intros a; cbn [fold_left In]; split.
  - lia.
  - intros x [].
  - destruct (IH (Z.max a h)) as [H1 _]. lia.
  - destruct (IH (Z.max a h)) as [H1 H2]. intros x [E|Hx]; [subst; lia | auto].
Qed.

Lemma rca_fold_min_bounds t : forall a,
  fold_left Z.min t a <= a /\ (forall x, In x t -> fold_left Z.min t a <= x).
Proof.
  induction t as [|h t IH]; intros a; cbn [fold_left In]; split.
  - lia.
  - intros x [].
  - destruct (IH (Z.min a h)) as [H1 _]. lia.
  - destruct (IH (Z.min a h)) as [H1 H2]. intros x [E|Hx]; [subst; lia | auto].
Qed.

Lemma rca_lmin_lmax_bounds l x : In x l -> lmin l <= x <= lmax l.
Proof.
  destruct l as [|a t]; [intros []|]. unfold lmin, lmax.
  destruct (rca_fold_max_bounds t a) as [M1 M2]. destruct (rca_fold_min_bounds t a) as [N1 N2].
  intros [E|Hx]; [subst; lia|]. split; auto.
Qed.

Lemma rca_fold_max_const t v : (forall x, In x t -> x = v) -> fold_left Z.max t v = v.
Proof.
  induction t as [|h t IH]; intros H; cbn [fold_left]; auto.
  rewrite (H h) by (left; auto). rewrite Z.max_id. apply IH. intros x Hx. apply H. right; auto.
Qed.

Lemma rca_fold_min_const t v : (forall x, In x t -> x = v) -> fold_left Z.min t v = v.
Proof.
  induction t as [|h t IH]; intros H; cbn [fold_left]; auto.
  rewrite (H h) by (left; auto). rewrite Z.min_id. apply IH. intros x Hx. apply H. right; auto.
Qed.

Lemma rca_lmax_eq_lmin l : lmax l = lmin l <-> exists v, forall x, In x l -> x = v.
Proof.
  split.
  - intros E. exists (lmax l). intros x Hx. apply rca_lmin_lmax_bounds in Hx. lia.
  - intros [v H]. destruct l as [|a t]; auto. unfold lmax, lmin.
    assert (Ea : a = v) by (apply H; left; auto). subst a.
    rewrite rca_fold_max_const, rca_fold_min_const; auto; intros x Hx; apply H; right; auto.
Qed.

Theorem is_solved_exact c : is_solved c = true <-> Solved c.
Proof.
  unfold is_solved, Solved, Uniform.
  rewrite (list_eqb_eq Z.eqb Z.eqb_eq). rewrite map_ext_in_iff.
  split; intros H g Hg; apply rca_lmax_eq_lmin; auto.
Qed.

Lemma rca_solved_b_spec c : solved_b c = true <-> Solved c.
Proof.
  unfold solved_b, Solved. rewrite forallb_forall.
  split; intros H g Hg; apply uniform_b_spec; auto.
Qed.

Lemma solved_b_is_solved c : solved_b c = is_solved c.
Proof.
  apply eq_true_iff_eq. rewrite rca_solved_b_spec, is_solved_exact. reflexivity.
Qed.

(* ---------------------------------------------------------------- flatten / unflatten *)
Lemma rca_n_amounts : n_amounts = 3.
Proof. reflexivity. Qed.

Lemma num_actions_eq n : num_actions n = 18 * (n / 2).
Proof.
  unfold num_actions. rewrite rca_n_amounts. change (zlen rubik_faces) with 6. lia.
Qed.

Lemma rca_half_pos n : 2 <= n -> 1 <= n / 2.
Proof. intros H. lia. Qed.

Lemma unflatten_range n a : 2 <= n -> 0 <= a < num_actions n ->
  let '(f, d, am) := unflatten_action n a in 0 <= f < 6 /\ 0 <= d < n / 2 /\ 0 <= am < 3.
Proof.
  intros Hn Ha. rewrite num_actions_eq in Ha. apply rca_half_pos in Hn.
  unfold unflatten_action. rewrite rca_n_amounts. cbv beta iota zeta.
  set (h := n / 2) in *. clearbody h.
  assert (Hq : 0 <= a / 3 < 6 * h) by lia.
  set (q := a / 3) in *. clearbody q.
  split; [|split].
  - split; [apply Z.div_pos; lia | apply Z.div_lt_upper_bound; lia].
  - apply Z.mod_pos_bound; lia.
  - apply Z.mod_pos_bound; lia.
Qed.

Lemma flatten_unflatten n a : 2 <= n -> 0 <= a < num_actions n -> flatten_action n (unflatten_action n a) = a.
Proof.
  intros Hn Ha. apply rca_half_pos in Hn.
  unfold unflatten_action, flatten_action. rewrite rca_n_amounts.
  set (h := n / 2) in *. clearbody h.
  pose proof (Z.div_mod a 3) as E1. pose proof (Z.div_mod (a / 3) h) as E2.
  set (q := a / 3) in *. set (r := a mod 3) in *. clearbody q r.
  set (q1 := q / h) in *. set (r1 := q mod h) in *. clearbody q1 r1.
  assert (E1' : a = 3 * q + r) by (apply E1; lia).
  assert (E2' : q = h * q1 + r1) by (apply E2; lia).
  subst a q. ring.
Qed.

Lemma rca_unflatten_flatten_eq h f d am : 1 <= h -> 0 <= f -> 0 <= d < h -> 0 <= am < 3 ->
  let a := f * 3 * h + d * 3 + am in
  a / 3 = f * h + d /\ a mod 3 = am /\ (f * h + d) / h = f /\ (f * h + d) mod h = d.
Proof.
  intros Hh Hf Hd Ham a.
  assert (A1 : f * h + d = a / 3).
  { apply (Z.div_unique a 3 (f * h + d) am); [left; lia | unfold a; ring]. }
  assert (A2 : am = a mod 3).
  { apply (Z.mod_unique a 3 (f * h + d) am); [left; lia | unfold a; ring]. }
  assert (A3 : f = (f * h + d) / h).
  { apply (Z.div_unique (f * h + d) h f d); [left; lia | ring]. }
  assert (A4 : d = (f * h + d) mod h).
  { apply (Z.mod_unique (f * h + d) h f d); [left; lia | ring]. }
  repeat split; auto.
Qed.

Lemma unflatten_flatten n f d am : 2 <= n -> 0 <= f < 6 -> 0 <= d < n / 2 -> 0 <= am < 3 ->
  unflatten_action n (flatten_action n (f, d, am)) = (f, d, am) /\ 0 <= flatten_action n (f, d, am) < num_actions n.
Proof.
  intros Hn Hf Hd Ham. apply rca_half_pos in Hn. rewrite num_actions_eq.
  unfold unflatten_action, flatten_action. rewrite rca_n_amounts.
  set (h := n / 2) in *. clearbody h. cbv zeta.
  destruct (rca_unflatten_flatten_eq h f d am) as (A1 & A2 & A3 & A4); try lia.
  cbv zeta in A1, A2. split.
  - rewrite A1, A2, A3, A4. reflexivity.
  - nia.
Qed.

(* ---------------------------------------------------------------- all_moves *)
Lemma rca_flat_map_length {A B} (f : A -> list B) m l :
  (forall x, length (f x) = m) -> length (flat_map f l) = (length l * m)%nat.
Proof.
  intros H. induction l as [|x l IH]; cbn [flat_map length]; auto.
  rewrite app_length, H, IH. lia.
Qed.

Lemma rca_nth_flat_map {A B} (f : A -> list B) m (dx : A) (d : B) :
  (forall x, length (f x) = m) ->
  forall l i j, (i < length l)%nat -> (j < m)%nat ->
  nth (i * m + j) (flat_map f l) d = nth j (f (nth i l dx)) d.
Proof.
  intros H. induction l as [|x l IH]; intros i j Hi Hj; cbn [length] in Hi; [lia|].
  cbn [flat_map]. destruct i as [|i].
  - cbn [Nat.mul Nat.add nth]. rewrite app_nth1 by (rewrite H; lia). reflexivity.
  - cbn [nth]. rewrite app_nth2 by (rewrite H; nia).
    rewrite H. replace (S i * m + j - m)%nat with (i * m + j)%nat by nia.
    apply IH; lia.
Qed.

Lemma rca_inner_length n (t : rtable) :
  length (flat_map (fun d => map (fun a => (t, d, a)) rubik_amounts) (zrange (n / 2))) = (Z.to_nat (n / 2) * 3)%nat.
Proof.
  rewrite (rca_flat_map_length _ 3%nat) by (intros x; rewrite map_length; reflexivity).
  unfold zrange. rewrite zrange_from_length. reflexivity.
Qed.

Lemma all_moves_length n : 0 <= n -> zlen (all_moves n) = num_actions n.
Proof.
  intros Hn. rewrite num_actions_eq. unfold zlen, all_moves.
  rewrite (rca_flat_map_length _ (Z.to_nat (n / 2) * 3)%nat) by (intros t; apply rca_inner_length).
  change (length rubik_tables) with 6%nat.
  assert (Hh : 0 <= n / 2) by lia. set (h := n / 2) in *. clearbody h. lia.
Qed.

Lemma all_moves_nth n a : 2 <= n -> 0 <= a < num_actions n ->
  nth (Z.to_nat a) (all_moves n) id_move =
  let '(f, d, am) := unflatten_action n a in (nth (Z.to_nat f) rubik_tables tab_up, d, nth (Z.to_nat am) rubik_amounts 0).
Proof.
  intros Hn Ha.
  pose proof (unflatten_range n a Hn Ha) as R. pose proof (flatten_unflatten n a Hn Ha) as E.
  destruct (unflatten_action n a) as [[f d] am]. destruct R as (Rf & Rd & Ram).
  unfold flatten_action in E. rewrite rca_n_amounts in E.
  unfold all_moves. apply rca_half_pos in Hn.
  set (h := n / 2) in *.
  assert (Ea : Z.to_nat a = (Z.to_nat f * (Z.to_nat h * 3) + (Z.to_nat d * 3 + Z.to_nat am))%nat).
  { apply Nat2Z.inj. rewrite Nat2Z.inj_add, Nat2Z.inj_mul, Nat2Z.inj_add, !Nat2Z.inj_mul.
    rewrite !Z2Nat.id by lia. rewrite <- E. change (Z.of_nat 3) with 3. ring. }
  rewrite Ea.
  rewrite (rca_nth_flat_map _ (Z.to_nat h * 3)%nat tab_up id_move).
  - rewrite (rca_nth_flat_map _ 3%nat 0 id_move).
    + unfold zrange. rewrite zrange_from_nth by lia. rewrite Z2Nat.id by lia.
      set (t := nth (Z.to_nat f) rubik_tables tab_up).
      rewrite (nth_indep _ id_move ((fun a0 => (t, 0 + d, a0)) 0)) by (rewrite map_length; change (length rubik_amounts) with 3%nat; lia).
      rewrite Z.add_0_l. exact (map_nth (fun a0 => (t, d, a0)) rubik_amounts 0 (Z.to_nat am)).
    + intros x. rewrite map_length. reflexivity.
    + unfold zrange. rewrite zrange_from_length. lia.
    + lia.
  - intros t. apply rca_inner_length.
  - change (length rubik_tables) with 6%nat. lia.
  - nia.
Qed.

Lemma all_moves_in n t d a : In (t, d, a) (all_moves n) <-> In t rubik_tables /\ 0 <= d < n / 2 /\ In a rubik_amounts.
Proof.
  unfold all_moves. rewrite in_flat_map. split.
  - intros [t' [Ht H]]. rewrite in_flat_map in H. destruct H as [d' [Hd H]].
    rewrite in_map_iff in H. destruct H as [a' [E Ha]]. inversion E; subst.
    rewrite in_zrange in Hd. auto.
  - intros (Ht & Hd & Ha). exists t. split; auto. rewrite in_flat_map. exists d. split.
    + apply in_zrange; auto.
    + apply in_map_iff. exists a. auto.
Qed.
