(* RubiksCube, part 2: the 6 x n x n sticker array: get/set laws on in-range positions, extensionality,
   gather/scatter over a duplicate-free list of positions, multiset conservation of scatter. *)
Require Import JV.Base.Prelude JV.Base.JaxIndex JV.Base.Codec JV.Base.TimeStep JV.Gen.RubikTables JV.Model.RubiksCube.
Require Import JV.Proofs.RubiksCube_Lists.
From Coq Require Import Permutation.

(* [face] / [cube] are aliases of list types: make the implicit type arguments syntactically equal before lia *)
Ltac zlia := unfold cube, face, pos in *; lia.

Definition valid (n : Z) (p : pos) : Prop := let '(f, r, k) := p in 0 <= f < 6 /\ 0 <= r < n /\ 0 <= k < n.
Definition pface (p : pos) : Z := fst (fst p).

Lemma pos_eq_dec (p q : pos) : {p = q} + {p <> q}.
Proof. repeat decide equality. Qed.

(* ---------- one-level facts ---------- *)
Lemma zlen_zupd {A} i (v : A) l : zlen (zupd i v l) = zlen l.
Proof. unfold zlen. rewrite zupd_length. reflexivity. Qed.

Lemma znth_zupd {A} (d : A) i v l j :
  0 <= i < zlen l -> znth d (zupd i v l) j = if i =? j then v else znth d l j.
Proof.
  intro Hi. unfold znth, zupd. destruct (i <? 0) eqn:E; [zlia|].
  destruct (j <? 0) eqn:Ej; [destruct (i =? j) eqn:E2; [zlia|reflexivity]|].
  destruct (i =? j) eqn:E2.
  - assert (i = j) by zlia. subst j. apply nth_upd_same. unfold zlen in Hi. zlia.
  - apply nth_upd_other. zlia.
Qed.

Lemma Forall_upd {A} (P : A -> Prop) k v l : Forall P l -> P v -> Forall P (upd k v l).
Proof.
  revert k; induction l as [|x l IH]; intros [|k] F Pv; cbn; auto; inversion F; subst; constructor; auto.
Qed.

Lemma Forall_zupd {A} (P : A -> Prop) i v l : Forall P l -> P v -> Forall P (zupd i v l).
Proof. intros. unfold zupd. destruct (i <? 0); auto using Forall_upd. Qed.

Lemma Forall_znth {A} (P : A -> Prop) d l i : Forall P l -> 0 <= i < zlen l -> P (znth d l i).
Proof.
  intros F Hi. rewrite Forall_forall in F. apply F. rewrite rc_znth_nth by zlia. apply nth_In. unfold zlen in Hi. zlia.
Qed.

Lemma jget_in {A} (d : A) l i : 0 <= i < zlen l -> jget d l i = znth d l i.
Proof. intro H. unfold jget. rewrite jclamp_id by zlia. reflexivity. Qed.

Lemma jnorm_in n i : 0 <= i -> jnorm n i = i.
Proof. intro H. unfold jnorm. destruct (i <? 0) eqn:E; zlia. Qed.

Lemma inb_true n i : 0 <= i < n -> inb n i = true.
Proof. unfold inb. zlia. Qed.

Lemma jset_in_z {A} (l : list A) i v : 0 <= i < zlen l -> jset l i v = zupd i v l.
Proof.
  intro H. unfold jset. rewrite jnorm_in by zlia. replace ((0 <=? i) && (i <? zlen l)) with true by zlia. reflexivity.
Qed.

(* ---------- shape ---------- *)
Lemma shape_face n c f : shape n c -> 0 <= f < 6 -> square n (znth [] c f).
Proof. intros [L F] Hf. apply (Forall_znth _ [] c f F). zlia. Qed.

Lemma shape_setface n c f g : shape n c -> square n g -> shape n (zupd f g c).
Proof. intros [L F] Sq. split; [rewrite zlen_zupd; auto|]. apply Forall_zupd; auto. Qed.

Lemma square_setrow n g r row : square n g -> zlen row = n -> square n (zupd r row g).
Proof. intros [L F] Lr. split; [rewrite zlen_zupd; auto|]. apply Forall_zupd; auto. Qed.

(* ---------- get / set on in-range positions ---------- *)
Lemma cget_in n c f r k : shape n c -> valid n (f, r, k) -> cget c (f, r, k) = gat 0 (znth [] c f) r k.
Proof.
  intros Sh (Hf & Hr & Hk). pose proof Sh as [L _]. pose proof (shape_face n c f Sh Hf) as Sq. pose proof Sq as [Lg _].
  unfold cget, gget, gat. rewrite (jget_in [] c f) by zlia.
  rewrite (jget_in [] _ r) by zlia. rewrite jget_in by (rewrite (square_row n _ r Sq); zlia). reflexivity.
Qed.

Lemma cset_in n c f r k v :
  shape n c -> valid n (f, r, k) ->
  cset c (f, r, k) v = zupd f (zupd r (zupd k v (znth [] (znth [] c f) r)) (znth [] c f)) c.
Proof.
  intros Sh (Hf & Hr & Hk). pose proof Sh as [L _]. pose proof (shape_face n c f Sh Hf) as Sq. pose proof Sq as [Lg _].
  unfold cset. rewrite (jnorm_in _ f) by zlia. rewrite inb_true by zlia.
  rewrite (jnorm_in _ r) by zlia. rewrite inb_true by zlia.
  rewrite (jnorm_in _ k) by zlia. rewrite inb_true by (rewrite (square_row n _ r Sq); zlia). reflexivity.
Qed.

Lemma cset_shape n c p v : shape n c -> shape n (cset c p v).
Proof.
  intro Sh. destruct p as [[f r] k]. unfold cset.
  set (jf := jnorm (zlen c) f). destruct (inb (zlen c) jf) eqn:Ef; auto.
  set (g := znth [] c jf). set (jr := jnorm (zlen g) r). destruct (inb (zlen g) jr) eqn:Er; auto.
  set (row := znth [] g jr). set (jk := jnorm (zlen row) k). destruct (inb (zlen row) jk) eqn:Ek; auto.
  unfold inb in *. pose proof Sh as [L F].
  assert (Sq : square n g) by (apply (Forall_znth _ [] c jf F); zlia). pose proof Sq as [Lg Fg].
  assert (Lr : zlen row = n) by (apply (Forall_znth _ [] g jr Fg); zlia).
  apply shape_setface; auto. apply square_setrow; auto. rewrite zlen_zupd. auto.
Qed.

Lemma cget_cset n c p v q :
  shape n c -> valid n p -> valid n q -> cget (cset c p v) q = if pos_eq_dec p q then v else cget c q.
Proof.
  intros Sh Hp Hq. destruct p as [[f r] k], q as [[f' r'] k'].
  pose proof Hp as (Hf & Hr & Hk). pose proof Hq as (Hf' & Hr' & Hk').
  rewrite (cget_in n) by (auto using cset_shape). rewrite (cset_in n) by auto.
  pose proof Sh as [L _]. pose proof (shape_face n c f Sh Hf) as Sq. pose proof Sq as [Lg _].
  pose proof (square_row n _ r Sq Hr) as Lr.
  rewrite znth_zupd by zlia. rewrite (cget_in n c f' r' k') by auto.
  destruct (f =? f') eqn:Ef.
  - assert (f = f') by zlia. subst f'. unfold gat. rewrite znth_zupd by zlia.
    destruct (r =? r') eqn:Er.
    + assert (r = r') by zlia. subst r'. rewrite znth_zupd by zlia.
      destruct (k =? k') eqn:Ek.
      * assert (k = k') by zlia. subst k'. destruct (pos_eq_dec _ _); congruence.
      * destruct (pos_eq_dec _ _) as [E|E]; [inversion E; zlia|reflexivity].
    + destruct (pos_eq_dec _ _) as [E|E]; [inversion E; zlia|reflexivity].
  - destruct (pos_eq_dec _ _) as [E|E]; [inversion E; zlia|reflexivity].
Qed.

Lemma cube_ext n c1 c2 :
  shape n c1 -> shape n c2 -> (forall q, valid n q -> cget c1 q = cget c2 q) -> c1 = c2.
Proof.
  intros S1 S2 H. pose proof S1 as [L1 _]. pose proof S2 as [L2 _].
  apply (list_ext_z [] 6); try (unfold zlen in *; zlia).
  intros f Hf. apply (square_ext n); auto using shape_face.
  intros r k Hr Hk. rewrite <- !(cget_in n) by (cbn; auto). apply H. cbn; auto.
Qed.

(* ---------- setting a whole face ---------- *)
Lemma cget_setface n c tf g q :
  shape n c -> 0 <= tf < 6 -> square n g -> valid n q ->
  cget (jset c tf g) q = if pface q =? tf then gat 0 g (snd (fst q)) (snd q) else cget c q.
Proof.
  intros Sh Ht Sq Hq. destruct q as [[f r] k]. pose proof Hq as (Hf & Hr & Hk). pose proof Sh as [L _].
  rewrite jset_in_z by zlia. rewrite (cget_in n) by (auto using shape_setface).
  rewrite znth_zupd by zlia. cbn [pface fst snd]. rewrite Z.eqb_sym.
  rewrite (cget_in n c) by auto. destruct (f =? tf); reflexivity.
Qed.

Lemma setface_setface (c : cube) tf g1 g2 : 0 <= tf < zlen c -> jset (jset c tf g1) tf g2 = jset c tf g2.
Proof.
  unfold cube, face in *. intro Ht. rewrite !(jset_in_z c) by zlia. rewrite (jset_in_z (zupd tf g1 c)) by (rewrite zlen_zupd; zlia).
  apply (nth_ext _ _ [] []); [rewrite !zupd_length; reflexivity|].
  intros k Hk. rewrite !zupd_length in Hk.
  pose proof (znth_zupd [] tf g2 (zupd tf g1 c) (Z.of_nat k)) as A1. rewrite zlen_zupd in A1. specialize (A1 Ht).
  pose proof (znth_zupd [] tf g2 c (Z.of_nat k) Ht) as A2.
  pose proof (znth_zupd [] tf g1 c (Z.of_nat k) Ht) as A3.
  rewrite A3 in A1. rewrite !rc_znth_nth, !Nat2Z.id in A1 by lia. rewrite !rc_znth_nth, !Nat2Z.id in A2 by lia.
  rewrite A1, A2. destruct (tf =? Z.of_nat k); auto.
Qed.

(* ---------- gather / scatter ---------- *)
Lemma scatter_cons p P x v c : scatter (p :: P) (x :: v) c = scatter P v (cset c p x).
Proof. reflexivity. Qed.

Lemma scatter_nil_l v c : scatter [] v c = c.
Proof. reflexivity. Qed.
Lemma scatter_nil_r P c : scatter P [] c = c.
Proof. destruct P; reflexivity. Qed.

Lemma scatter_shape n P v c : shape n c -> shape n (scatter P v c).
Proof.
  revert v c; induction P as [|p P IH]; intros [|x v] c Sh; rewrite ?scatter_nil_l, ?scatter_nil_r; auto.
  rewrite scatter_cons. apply IH. apply cset_shape. auto.
Qed.

Lemma scatter_notin n P v c q :
  shape n c -> Forall (valid n) P -> valid n q -> ~ In q P -> cget (scatter P v c) q = cget c q.
Proof.
  revert v c; induction P as [|p P IH]; intros [|x v] c Sh F Hq NI; rewrite ?scatter_nil_l, ?scatter_nil_r; auto.
  rewrite scatter_cons. inversion F; subst. rewrite IH; auto using cset_shape; [|cbn in NI; tauto].
  rewrite (cget_cset n) by auto. destruct (pos_eq_dec p q); [subst; cbn in NI; tauto|reflexivity].
Qed.

Lemma scatter_nth n P v c i dp :
  shape n c -> Forall (valid n) P -> NoDup P -> length v = length P -> (i < length P)%nat ->
  cget (scatter P v c) (nth i P dp) = nth i v 0.
Proof.
  revert v c i; induction P as [|p P IH]; intros [|x v] c i Sh F ND L Hi; cbn in L, Hi; try zlia.
  rewrite scatter_cons. inversion F; subst. inversion ND; subst. destruct i as [|i]; cbn [nth].
  - rewrite (scatter_notin n) by (auto using cset_shape). rewrite (cget_cset n) by auto.
    destruct (pos_eq_dec p p); congruence.
  - apply IH; auto using cset_shape; zlia.
Qed.

Lemma gather_scatter n P v c :
  shape n c -> Forall (valid n) P -> NoDup P -> length v = length P -> gather P (scatter P v c) = v.
Proof.
  intros Sh F ND L. apply (nth_ext _ _ 0 0); [unfold gather; rewrite map_length; zlia|].
  intros i Hi. unfold gather in *. rewrite map_length in Hi.
  rewrite (nth_map_in _ _ _ _ (0, 0, 0)) by zlia. apply (scatter_nth n); auto.
Qed.

Lemma In_nth_pos (P : list pos) q : In q P -> exists i, (i < length P)%nat /\ nth i P (0, 0, 0) = q.
Proof. apply In_nth. Qed.

Lemma scatter_scatter n P v w c :
  shape n c -> Forall (valid n) P -> NoDup P -> length v = length P ->
  scatter P v (scatter P w c) = scatter P v c.
Proof.
  intros Sh F ND L. apply (cube_ext n); auto using scatter_shape.
  intros q Hq. destruct (in_dec pos_eq_dec q P) as [I|NI].
  - apply In_nth_pos in I as [i [Hi E]]. subst q. rewrite !(scatter_nth n) by (auto using scatter_shape). reflexivity.
  - rewrite !(scatter_notin n) by (auto using scatter_shape). reflexivity.
Qed.

Lemma scatter_gather n P c :
  shape n c -> Forall (valid n) P -> NoDup P -> scatter P (gather P c) c = c.
Proof.
  intros Sh F ND. apply (cube_ext n); auto using scatter_shape.
  intros q Hq. destruct (in_dec pos_eq_dec q P) as [I|NI].
  - apply In_nth_pos in I as [i [Hi E]]. subst q.
    rewrite (scatter_nth n) by (auto; unfold gather; rewrite map_length; reflexivity).
    unfold gather. rewrite (nth_map_in _ _ _ _ (0, 0, 0)) by zlia. reflexivity.
  - rewrite (scatter_notin n) by auto. reflexivity.
Qed.

(* positions away from face tf *)
Lemma gather_setface n P c tf g :
  shape n c -> 0 <= tf < 6 -> square n g -> Forall (valid n) P -> (forall p, In p P -> pface p <> tf) ->
  gather P (jset c tf g) = gather P c.
Proof.
  intros Sh Ht Sq F H. unfold gather. apply map_ext_in. intros p Hp.
  rewrite Forall_forall in F. rewrite (cget_setface n) by auto.
  destruct (pface p =? tf) eqn:E; [specialize (H p Hp); zlia|reflexivity].
Qed.

Lemma face_cset n c p x tf :
  shape n c -> valid n p -> pface p <> tf -> 0 <= tf < 6 -> znth [] (cset c p x) tf = znth [] c tf.
Proof.
  intros Sh Hp Hne Ht. destruct p as [[f r] k]. rewrite (cset_in n) by auto. cbn in Hne.
  destruct Sh as [L _]. destruct Hp as (Hf & _). rewrite znth_zupd by zlia. destruct (f =? tf) eqn:E; [zlia|reflexivity].
Qed.

Lemma face_scatter n P v c tf :
  shape n c -> Forall (valid n) P -> (forall p, In p P -> pface p <> tf) -> 0 <= tf < 6 ->
  znth [] (scatter P v c) tf = znth [] c tf.
Proof.
  revert v c; induction P as [|p P IH]; intros [|x v] c Sh F H Ht; rewrite ?scatter_nil_l, ?scatter_nil_r; auto.
  rewrite scatter_cons. inversion F; subst. rewrite IH; auto using cset_shape; [|intros; apply H; cbn; auto].
  apply (face_cset n); auto. apply H; cbn; auto.
Qed.

Lemma setface_scatter n P v c tf g :
  shape n c -> Forall (valid n) P -> NoDup P -> length v = length P ->
  (forall p, In p P -> pface p <> tf) -> 0 <= tf < 6 -> square n g ->
  jset (scatter P v c) tf g = scatter P v (jset c tf g).
Proof.
  intros Sh F ND L H Ht Sq. pose proof Sh as [Lc _].
  assert (Sh2 : shape n (jset c tf g)) by (rewrite jset_in_z by zlia; apply shape_setface; auto).
  assert (Sh3 : shape n (jset (scatter P v c) tf g)).
  { pose proof (scatter_shape n P v c Sh) as [L' F']. rewrite jset_in_z by zlia. apply shape_setface; auto. split; auto. }
  apply (cube_ext n); auto using scatter_shape.
  intros q Hq. rewrite (cget_setface n) by (auto using scatter_shape).
  destruct (in_dec pos_eq_dec q P) as [I|NI].
  - pose proof (H q I) as Hne. destruct (pface q =? tf) eqn:E; [zlia|].
    apply In_nth_pos in I as [i [Hi E2]]. subst q. rewrite !(scatter_nth n) by auto. reflexivity.
  - rewrite !(scatter_notin n) by auto. rewrite (cget_setface n) by auto. reflexivity.
Qed.

(* ---------- multiset of stickers ---------- *)
Lemma perm_upd {A} (l : list A) i x d : (i < length l)%nat -> Permutation (nth i l d :: upd i x l) (x :: l).
Proof.
  revert i; induction l as [|y l IH]; intros [|i] H; cbn in *; try zlia.
  - apply perm_swap.
  - eapply Permutation_trans; [apply perm_swap|]. eapply Permutation_trans; [|apply perm_swap].
    apply perm_skip. apply IH. zlia.
Qed.

Lemma perm_upd_concat {B} (fl : B -> list Z) (ls : list B) i b' db x y :
  (i < length ls)%nat -> Permutation (y :: fl b') (x :: fl (nth i ls db)) ->
  Permutation (y :: concat (map fl (upd i b' ls))) (x :: concat (map fl ls)).
Proof.
  revert i; induction ls as [|b ls IH]; intros [|i] H Pm; cbn in *; try zlia.
  - change (y :: fl b' ++ concat (map fl ls)) with ((y :: fl b') ++ concat (map fl ls)).
    change (x :: fl b ++ concat (map fl ls)) with ((x :: fl b) ++ concat (map fl ls)).
    apply Permutation_app_tail. exact Pm.
  - eapply Permutation_trans; [apply Permutation_middle|].
    eapply Permutation_trans; [|apply Permutation_sym, Permutation_middle].
    apply Permutation_app_head. apply IH; auto. zlia.
Qed.

Lemma perm_upd_concat_id (ls : list (list Z)) i b' x y :
  (i < length ls)%nat -> Permutation (y :: b') (x :: nth i ls []) ->
  Permutation (y :: concat (upd i b' ls)) (x :: concat ls).
Proof.
  intros H H0. pose proof (perm_upd_concat (fun l : list Z => l) ls i b' [] x y H H0) as Pm.
  rewrite !map_id in Pm. exact Pm.
Qed.

Lemma perm_upd_concat0 {B} (fl : B -> list Z) (ls : list B) i b' db :
  (i < length ls)%nat -> Permutation (fl b') (fl (nth i ls db)) ->
  Permutation (concat (map fl (upd i b' ls))) (concat (map fl ls)).
Proof.
  intros H Pm. apply (Permutation_cons_inv (a := 0)). apply (perm_upd_concat fl ls i b' db 0 0); auto.
Qed.

Lemma cset_perm n c p x :
  shape n c -> valid n p -> Permutation (cget c p :: stickers (cset c p x)) (x :: stickers c).
Proof.
  intros Sh Hp. destruct p as [[f r] k]. pose proof Hp as (Hf & Hr & Hk).
  rewrite (cset_in n) by auto. rewrite (cget_in n) by auto.
  pose proof Sh as [L _]. pose proof (shape_face n c f Sh Hf) as Sq. pose proof Sq as [Lg _].
  pose proof (square_row n _ r Sq Hr) as Lr.
  unfold stickers, zupd, gat. destruct (f <? 0) eqn:E1; [zlia|]. destruct (r <? 0) eqn:E2; [zlia|]. destruct (k <? 0) eqn:E3; [zlia|].
  rewrite !rc_znth_nth by zlia.
  apply (perm_upd_concat (@concat Z) c (Z.to_nat f) _ []); [unfold zlen in L; zlia|].
  apply perm_upd_concat_id; [unfold zlen in Lg; rewrite rc_znth_nth in Lg by zlia; zlia|].
  apply perm_upd. rewrite !rc_znth_nth in Lr by zlia. unfold zlen in Lr. zlia.
Qed.

Lemma gather_cset_notin n P c p x :
  shape n c -> valid n p -> Forall (valid n) P -> ~ In p P -> gather P (cset c p x) = gather P c.
Proof.
  intros Sh Hp F NI. unfold gather. apply map_ext_in. intros q Hq. rewrite Forall_forall in F.
  rewrite (cget_cset n) by auto. destruct (pos_eq_dec p q); [subst; tauto|reflexivity].
Qed.

Lemma scatter_perm n P v c :
  shape n c -> Forall (valid n) P -> NoDup P -> length v = length P ->
  Permutation (gather P c ++ stickers (scatter P v c)) (v ++ stickers c).
Proof.
  revert v c; induction P as [|p P IH]; intros [|x v] c Sh F ND L; cbn in L; try zlia; [apply Permutation_refl|].
  rewrite scatter_cons. inversion F; subst. inversion ND; subst.
  specialize (IH v (cset c p x) (cset_shape n c p x Sh) H2 H4 ltac:(zlia)).
  rewrite (gather_cset_notin n) in IH by auto.
  cbn [gather map app]. fold (gather P c).
  eapply Permutation_trans; [apply perm_skip, IH|].
  eapply Permutation_trans; [apply Permutation_middle|].
  eapply Permutation_trans; [apply Permutation_app_head, (cset_perm n c p x Sh H1)|].
  apply Permutation_sym, Permutation_middle.
Qed.

Lemma setface_perm n c tf g :
  shape n c -> 0 <= tf < 6 -> Permutation (concat g) (concat (znth [] c tf)) ->
  Permutation (stickers (jset c tf g)) (stickers c).
Proof.
  intros [L _] Ht Pm. rewrite jset_in_z by zlia. unfold stickers, zupd. destruct (tf <? 0) eqn:E; [zlia|].
  apply (perm_upd_concat0 (@concat Z) c (Z.to_nat tf) g []); [unfold zlen in L; zlia|].
  rewrite rc_znth_nth in Pm by zlia. exact Pm.
Qed.
