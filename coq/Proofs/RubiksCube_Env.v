(* RubiksCube, part 4: env.step / reset level facts: reward and termination (C08/C09), time limit (C11),
   protocol (C03), spec conformance (C01), observation (C12), and the finite geometric check (C17, n = 2..7). *)
Require Import JV.Base.Prelude JV.Base.JaxIndex JV.Base.Codec JV.Base.TimeStep JV.Gen.RubikTables JV.Model.RubiksCube.
Require Import JV.Proofs.RubiksCube_Lists JV.Proofs.RubiksCube_Cube JV.Proofs.RubiksCube_Action JV.Proofs.RubiksCube_Group.
From Coq Require Import Permutation.

Definition next_cube (n : Z) (s : state) (a : action) : cube := rotate_cube n (cube_of s) (flatten_action n a).

Lemma step_state n T s a : fst (step n T s a) = mkS (next_cube n s a) (count s + 1).
Proof. reflexivity. Qed.

Lemma step_ts n T s a :
  snd (step n T s a) = cond_done 1 ((T <=? count s + 1) || is_solved (next_cube n s a)) [b2z (is_solved (next_cube n s a))].
Proof. reflexivity. Qed.

(* C08/C09: the reward is 1 exactly when the cube has just become solved (every face uniform), else 0 *)
Theorem step_reward n T s a :
  (Solved (next_cube n s a) -> reward (snd (step n T s a)) = [1]) /\
  (~ Solved (next_cube n s a) -> reward (snd (step n T s a)) = [0]).
Proof.
  rewrite step_ts. pose proof (is_solved_exact (next_cube n s a)) as E.
  destruct (is_solved (next_cube n s a)); unfold cond_done; split; intro H;
    destruct ((T <=? count s + 1) || _); cbn; auto; try (exfalso; apply H; apply E; reflexivity);
    apply E in H; discriminate.
Qed.

(* C09/C11: the step is LAST exactly when the cube is solved or the counter reaches the limit *)
Theorem step_last_iff n T s a :
  st (snd (step n T s a)) = LAST <-> (T <= count s + 1 \/ Solved (next_cube n s a)).
Proof.
  rewrite step_ts. pose proof (is_solved_exact (next_cube n s a)) as E. unfold cond_done.
  destruct (T <=? count s + 1) eqn:ET; destruct (is_solved (next_cube n s a)); cbn; split; intro H; auto; try lia.
  - right. apply E. reflexivity.
  - discriminate.
  - destruct H as [H|H]; [lia|]. apply E in H. discriminate.
Qed.

Theorem step_mid_or_last n T s a :
  (st (snd (step n T s a)) = MID /\ discount (snd (step n T s a)) = [1]) \/
  (st (snd (step n T s a)) = LAST /\ discount (snd (step n T s a)) = [0]).
Proof. rewrite step_ts. unfold cond_done. destruct (_ || _); cbn; auto. Qed.

(* C03 *)
Theorem step_protocol n T s a : step_ok 1 false (snd (step n T s a)) = true.
Proof. rewrite step_ts. unfold cond_done. destruct (_ || _); destruct (is_solved _); reflexivity. Qed.
Theorem init_protocol n acts : first_ok 1 (snd (init n acts)) = true.
Proof. reflexivity. Qed.

(* C12: the observation is the (cube, step_count) of the successor state *)
Theorem step_observation n T s a : observe (fst (step n T s a)) = (next_cube n s a, count s + 1).
Proof. reflexivity. Qed.
Theorem init_observation n acts : observe (fst (init n acts)) = (scramble n acts, 0).
Proof. reflexivity. Qed.

(* ---------- episodes ---------- *)
Fixpoint run (n T : Z) (s : state) (acts : list action) : list tstep * state :=
  match acts with
  | [] => ([], s)
  | a :: r => let t := snd (step n T s a) in let s' := fst (step n T s a) in
              if st t =? LAST then ([t], s') else let (ts, sf) := run n T s' r in (t :: ts, sf)
  end.
Definition ret (ts : list tstep) : Z := zsum (map (fun t => zsum (reward t)) ts).
Definition ended (ts : list tstep) : bool := match rev ts with t :: _ => st t =? LAST | [] => false end.

Lemma ended_cons t ts : ts <> [] -> ended (t :: ts) = ended ts.
Proof.
  intro H. unfold ended. cbn [rev]. destruct (rev ts) eqn:E; [|reflexivity].
  apply (f_equal (@rev tstep)) in E. rewrite rev_involutive in E. cbn in E. congruence.
Qed.

(* C08: the return of an episode (run until the first LAST) is 1 if the final cube is solved and 0 otherwise *)
Theorem run_return n T acts : forall s, acts <> [] ->
  ret (fst (run n T s acts)) = b2z (is_solved (cube_of (snd (run n T s acts)))).
Proof.
  induction acts as [|a r IH]; intros s Hne; [congruence|]. cbn [run].
  pose proof (step_reward n T s a) as [R1 R0]. pose proof (step_last_iff n T s a) as LI.
  pose proof (is_solved_exact (next_cube n s a)) as E.
  destruct (st (snd (step n T s a)) =? LAST) eqn:EL.
  - cbn [fst snd]. rewrite step_state. cbn [cube_of]. unfold ret. cbn [map zsum].
    destruct (is_solved (next_cube n s a)) eqn:ES.
    + rewrite R1 by (apply E; reflexivity). reflexivity.
    + rewrite R0 by (intro H; apply E in H; discriminate). reflexivity.
  - assert (NS : ~ Solved (next_cube n s a)) by (intro H; assert (st (snd (step n T s a)) = LAST) by (apply LI; auto); lia).
    destruct r as [|a' r'].
    + cbn [run fst snd]. rewrite step_state. cbn [cube_of]. unfold ret. cbn [map zsum]. rewrite R0 by auto.
      destruct (is_solved (next_cube n s a)) eqn:ES; [exfalso; apply NS; apply E; reflexivity|reflexivity].
    + specialize (IH (fst (step n T s a)) ltac:(discriminate)).
      destruct (run n T (fst (step n T s a)) (a' :: r')) as [ts sf] eqn:ER. cbn [fst snd] in *.
      unfold ret in *. cbn [map zsum]. rewrite R0 by auto. rewrite IH. reflexivity.
Qed.

(* C11: counting; an episode never runs past the limit, and ends before it only by solving the cube *)
Theorem run_spec n T acts : forall s, 0 <= count s < T ->
  let ts := fst (run n T s acts) in let sf := snd (run n T s acts) in
  count sf = count s + Z.of_nat (length ts) /\ count sf <= T /\
  (ended ts = true <-> ts <> [] /\ (count sf = T \/ Solved (cube_of sf))) /\
  (ended ts = false -> length ts = length acts).
Proof.
  induction acts as [|a r IH]; intros s Hc; cbn [run].
  - cbn [fst snd length ended rev]. split; [lia|]. split; [lia|]. split; [|reflexivity].
    split; [discriminate|intros [H _]; congruence].
  - pose proof (step_last_iff n T s a) as LI. pose proof (step_mid_or_last n T s a) as ML.
    destruct (st (snd (step n T s a)) =? LAST) eqn:EL.
    + cbn [fst snd length]. rewrite step_state. cbn [count cube_of]. unfold ended. cbn [rev app]. rewrite EL.
      assert (L : st (snd (step n T s a)) = LAST) by lia. apply LI in L.
      split; [lia|]. split; [lia|]. split; [|discriminate].
      split; [|reflexivity]. intros _. split; [discriminate|]. destruct L as [L|L]; [left; lia|right; auto].
    + assert (NL : ~ (T <= count s + 1 \/ Solved (next_cube n s a))) by (intro H; apply LI in H; lia).
      specialize (IH (fst (step n T s a))). rewrite step_state in IH. cbn [count] in IH. specialize (IH ltac:(lia)).
      rewrite step_state. destruct (run n T _ r) as [ts sf] eqn:ER. cbn [fst snd] in *.
      destruct IH as (I1 & I2 & I3 & I4). cbn [length].
      destruct ts as [|t0 ts0].
      * assert (r = []) by (destruct r; [auto|specialize (I4 eq_refl); discriminate]). subst r.
        cbn in ER. inversion ER; subst sf. cbn [count cube_of length] in *. unfold ended. cbn [rev app]. rewrite EL.
        split; [lia|]. split; [lia|]. split; [|reflexivity]. split; [discriminate|].
        intros [_ H9]. exfalso. apply NL. destruct H9; [left; lia|right; auto].
      * rewrite ended_cons by discriminate. cbn [length] in *.
        split; [lia|]. split; [lia|]. split.
        -- split.
           ++ intro H8. split; [discriminate|]. apply I3 in H8. tauto.
           ++ intros [_ H8]. apply I3. split; [discriminate|auto].
        -- intro H8. rewrite <- I4; auto.
Qed.

(* C01: states reachable by play satisfy the observation spec *)
Theorem step_reach n T s a : Reach n (cube_of s) -> Reach n (cube_of (fst (step n T s a))).
Proof. intro R. rewrite step_state. cbn [cube_of]. apply reach_rotate. auto. Qed.
Theorem init_reach n acts : Reach n (cube_of (fst (init n acts))).
Proof. apply reach_scramble. Qed.
Theorem step_count_bound n T s a : 0 <= count s < T -> 0 <= count (fst (step n T s a)) <= T.
Proof. rewrite step_state. cbn [count]. lia. Qed.

