(* RubiksCube, part 6 (C17, geometry for EVERY cube size): the closed form [spos] of the strip positions of the six
   translated tables (as functions of n, the depth d, the segment j and the offset o), and the facts that tie
   them to the 3-D reference embed / rotate3 / in_layer:
     strip_rotate    embed (strip position o of segment j+1) = rotate3 axis (embed (strip position o of segment j))
     strip_in_layer  strip positions are valid positions of the turned layer, away from the turning face
     face_rotate     on the turning face the quarter turn is (r, k) -> (k, n-1-r)
     layer_is_strip  a valid position of the turned layer is on the turning face (d = 0) or is a strip position
     unembed_embed   unembed inverts embed on valid positions
   Each is a case split over the 6 translated tables x 4 segments (or 6 faces) closed by lia; the tables are
   the ones regenerated from /repo (Gen/RubikTables.v), n and d stay symbolic. *)
Require Import JV.Base.Prelude JV.Base.JaxIndex JV.Base.Codec JV.Base.TimeStep JV.Gen.RubikTables JV.Model.RubiksCube.
Require Import JV.Proofs.RubiksCube_Lists JV.Proofs.RubiksCube_Cube JV.Proofs.RubiksCube_Action JV.Proofs.RubiksCube_Group.

(* closed form of the o-th entry of an evaluated index vector *)
Fixpoint ev (n d : Z) (v : rvec) (o : Z) : Z :=
  match v with VArange => o | VRep s => eval_scal n d s | VFlip v' => ev n d v' (n - 1 - o) end.
(* closed form of the strip position number o of segment j *)
Definition spos (n d : Z) (t : rtable) (j : nat) (o : Z) : pos :=
  (nth j (t_adj t) 0, ev n d (nth j (t_rows t) VArange) o, ev n d (nth j (t_cols t) VArange) o).

Lemma embed0 n r k : embed n (0, r, k) = (2 * k - (n - 1), n, 2 * r - (n - 1)). Proof. reflexivity. Qed.
Lemma embed1 n r k : embed n (1, r, k) = (2 * k - (n - 1), - (2 * r - (n - 1)), n). Proof. reflexivity. Qed.
Lemma embed2 n r k : embed n (2, r, k) = (n, - (2 * r - (n - 1)), - (2 * k - (n - 1))). Proof. reflexivity. Qed.
Lemma embed3 n r k : embed n (3, r, k) = (- (2 * k - (n - 1)), - (2 * r - (n - 1)), - n). Proof. reflexivity. Qed.
Lemma embed4 n r k : embed n (4, r, k) = (- n, - (2 * r - (n - 1)), 2 * k - (n - 1)). Proof. reflexivity. Qed.
Lemma embed5 n r k : embed n (5, r, k) = (2 * k - (n - 1), - n, - (2 * r - (n - 1))). Proof. reflexivity. Qed.

Lemma vec3_eq (a b c a' b' c' : Z) : a = a' -> b = b' -> c = c' -> (a, b, c) = (a', b', c').
Proof. intros; subst; reflexivity. Qed.

Ltac face_cases f H :=
  let E := fresh "E" in
  assert (E : f = 0 \/ f = 1 \/ f = 2 \/ f = 3 \/ f = 4 \/ f = 5) by lia;
  destruct E as [E|[E|[E|[E|[E|E]]]]]; subst f.

Lemma unembed_embed n p : 1 <= n -> valid n p -> unembed n (embed n p) = p.
Proof.
  intros Hn V. destruct p as [[f r] k]. destruct V as (Hf & Hr & Hk).
  face_cases f Hf; rewrite ?embed0, ?embed1, ?embed2, ?embed3, ?embed4, ?embed5; unfold unembed;
  repeat match goal with |- context [if ?a =? ?b then _ else _] => destruct (a =? b) eqn:?; try lia end;
  unfold face_UP, face_FRONT, face_RIGHT, face_BACK, face_LEFT, face_DOWN; apply vec3_eq; lia.
Qed.

Ltac table_cases Ht :=
  unfold rubik_tables in Ht; cbn [In] in Ht;
  destruct Ht as [Ht|[Ht|[Ht|[Ht|[Ht|[Ht|[]]]]]]]; subst.

Ltac geom_unfold :=
  unfold spos, tab_up, tab_front, tab_right, tab_back, tab_left, tab_down;
  cbn [t_face t_adj t_rows t_cols nth ev eval_scal Nat.modulo Nat.divmod fst snd Nat.sub];
  rewrite ?embed0, ?embed1, ?embed2, ?embed3, ?embed4, ?embed5.

Lemma normal0 : normal 0 = (0, 1, 0). Proof. reflexivity. Qed.
Lemma normal1 : normal 1 = (0, 0, 1). Proof. reflexivity. Qed.
Lemma normal2 : normal 2 = (1, 0, 0). Proof. reflexivity. Qed.
Lemma normal3 : normal 3 = (0, 0, -1). Proof. reflexivity. Qed.
Lemma normal4 : normal 4 = (-1, 0, 0). Proof. reflexivity. Qed.
Lemma normal5 : normal 5 = (0, -1, 0). Proof. reflexivity. Qed.
Ltac normals := rewrite ?normal0, ?normal1, ?normal2, ?normal3, ?normal4, ?normal5.

(* (b) the strip position o of segment j+1 is the quarter turn of the strip position o of segment j *)
Lemma strip_rotate n d t j o : In t rubik_tables -> (j < 4)%nat -> 0 <= o < n ->
  rotate3 (normal (t_face t)) (embed n (spos n d t j o)) = embed n (spos n d t (S j mod 4) o).
Proof.
  intros Ht Hj Ho.
  table_cases Ht; (destruct j as [|[|[|[|j]]]]; [| | | |lia]); geom_unfold; normals;
    unfold rotate3, vadd, vscale, dot, cross; apply vec3_eq; lia.
Qed.

Lemma in_layer_iff n f d v : in_layer n f d v = true <->
  (let h := dot v (normal f) in n - 2 * d - 2 <= h /\ (d = 0 \/ h <= n - 2 * d)).
Proof. unfold in_layer. cbv zeta. destruct (d =? 0) eqn:E; lia. Qed.

(* strip positions are valid positions of the turned layer *)
Lemma strip_in_layer n d t j o : In t rubik_tables -> (j < 4)%nat -> 0 <= o < n -> 0 <= d -> 2 * d < n ->
  valid n (spos n d t j o) /\ in_layer n (t_face t) d (embed n (spos n d t j o)) = true
  /\ pface (spos n d t j o) <> t_face t.
Proof.
  intros Ht Hj Ho Hd Hd2. rewrite in_layer_iff.
  table_cases Ht; (destruct j as [|[|[|[|j]]]]; [| | | |lia]); geom_unfold; normals;
    unfold valid, dot, pface; cbn [fst snd]; cbv zeta; lia.
Qed.

(* (c) on the turning face the quarter turn is (r, k) -> (k, n-1-r) *)
Lemma face_rotate n f r k : 0 <= f < 6 ->
  rotate3 (normal f) (embed n (f, r, k)) = embed n (f, k, n - 1 - r) /\ dot (embed n (f, r, k)) (normal f) = n.
Proof.
  intro Hf. face_cases f Hf; rewrite ?embed0, ?embed1, ?embed2, ?embed3, ?embed4, ?embed5; normals;
    unfold rotate3, vadd, vscale, dot, cross; (split; [apply vec3_eq; lia|lia]).
Qed.

Ltac try_o r k n j := first
  [ exists j, r; split; [lia|split; [lia|geom_unfold; apply vec3_eq; lia]]
  | exists j, k; split; [lia|split; [lia|geom_unfold; apply vec3_eq; lia]]
  | exists j, (n - 1 - r); split; [lia|split; [lia|geom_unfold; apply vec3_eq; lia]]
  | exists j, (n - 1 - k); split; [lia|split; [lia|geom_unfold; apply vec3_eq; lia]] ].

(* (d) a valid position in the turned layer is on the turning face (d = 0) or is a strip position *)
Lemma layer_is_strip n d t p : In t rubik_tables -> 2 <= n -> 0 <= d -> 2 * d < n -> valid n p ->
  in_layer n (t_face t) d (embed n p) = true ->
  (pface p = t_face t /\ d = 0) \/ exists j o, (j < 4)%nat /\ 0 <= o < n /\ p = spos n d t j o.
Proof.
  intros Ht Hn Hd Hd2 V. rewrite in_layer_iff. destruct p as [[f r] k]. destruct V as (Hf & Hr & Hk).
  table_cases Ht; face_cases f Hf; geom_unfold; normals; unfold dot, pface; cbn [fst snd]; cbv zeta; intro H;
    first [ left; lia | exfalso; lia | right;
      first [ try_o r k n 0%nat | try_o r k n 1%nat | try_o r k n 2%nat | try_o r k n 3%nat ] ].
Qed.
