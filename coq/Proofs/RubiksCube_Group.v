(* RubiksCube, part 3 (C17): for EVERY cube size n and EVERY depth 0 <= d < n, and every translated table:
   the strip of a move is a duplicate-free list of 4n in-range positions away from the turning face;
   do_rotation composes additively in the amount (so cw;acw = id, cw;cw = half, cw^4 = id, ...), only permutes
   the stickers, keeps the shape; every flat action has an inverse action; scrambled / played cubes are solvable. *)
Require Import JV.Base.Prelude JV.Base.JaxIndex JV.Base.Codec JV.Base.TimeStep JV.Gen.RubikTables JV.Model.RubiksCube.
Require Import JV.Proofs.RubiksCube_Lists JV.Proofs.RubiksCube_Cube JV.Proofs.RubiksCube_Action.
From Coq Require Import Permutation.

(* ---------- a checkable well-formedness condition on a translated table ---------- *)
Fixpoint is_perm_vec (v : rvec) : bool :=
  match v with VArange => true | VRep _ => false | VFlip v' => is_perm_vec v' end.

Definition distinct_b (l : list Z) : bool :=
  (fix go (l : list Z) := match l with [] => true | x :: t => negb (existsb (Z.eqb x) t) && go t end) l.

Definition table_ok (t : rtable) : bool :=
  match t_adj t, t_rows t, t_cols t with
  | [f1; f2; f3; f4], [r1; r2; r3; r4], [c1; c2; c3; c4] =>
      forallb (fun f => (0 <=? f) && (f <? 6) && negb (f =? t_face t)) [f1; f2; f3; f4]
      && (0 <=? t_face t) && (t_face t <? 6) && distinct_b [f1; f2; f3; f4]
      && forallb (fun rc : rvec * rvec => is_perm_vec (fst rc) || is_perm_vec (snd rc)) [(r1, c1); (r2, c2); (r3, c3); (r4, c4)]
  | _, _, _ => false
  end.

(* re-checked on every run against the tables translated from /repo *)
Lemma tables_ok : forallb table_ok rubik_tables = true.
Proof. vm_compute. reflexivity. Qed.

Lemma table_ok_in t : In t rubik_tables -> table_ok t = true.
Proof. intro H. pose proof tables_ok as T. rewrite forallb_forall in T. auto. Qed.

(* ---------- evaluated index vectors ---------- *)
Lemma eval_vec_length n d v : length (eval_vec n d v) = Z.to_nat n.
Proof. induction v; cbn [eval_vec]; [apply zrange_length | apply repeat_length | rewrite rev_length; auto]. Qed.

Lemma eval_vec_range n d v x : 0 <= d < n -> In x (eval_vec n d v) -> 0 <= x < n.
Proof.
  intro Hd. induction v; cbn [eval_vec]; intro I.
  - apply in_zrange in I. lia.
  - apply repeat_spec in I. subst. destruct s; cbn; lia.
  - apply in_rev in I. auto.
Qed.

Lemma eval_vec_nodup n d v : is_perm_vec v = true -> NoDup (eval_vec n d v).
Proof.
  induction v; cbn [eval_vec is_perm_vec]; intro H; try discriminate.
  - apply NoDup_zrange.
  - apply NoDup_rev. auto.
Qed.

Lemma NoDup_combine_r {A B} (a : list A) (b : list B) : NoDup b -> NoDup (combine a b).
Proof.
  revert b; induction a as [|x a IH]; intros [|y b] H; cbn; try constructor.
  - inversion H; subst. intro I. apply in_combine_r in I. auto.
  - inversion H; subst. auto.
Qed.
Lemma NoDup_combine_l {A B} (a : list A) (b : list B) : NoDup a -> NoDup (combine a b).
Proof.
  revert b; induction a as [|x a IH]; intros [|y b] H; cbn; try constructor.
  - inversion H; subst. intro I. apply in_combine_l in I. auto.
  - inversion H; subst. auto.
Qed.

Lemma combine_app_rc {A B} (a1 a2 : list A) (b1 b2 : list B) :
  length a1 = length b1 -> combine (a1 ++ a2) (b1 ++ b2) = combine a1 b1 ++ combine a2 b2.
Proof.
  revert b1; induction a1 as [|x a1 IH]; intros [|y b1] L; cbn in *; try lia; auto. f_equal. apply IH. lia.
Qed.

(* one face segment of the strip *)
Definition seg (n d : Z) (f : Z) (r c : rvec) : list pos :=
  combine (combine (repeat f (Z.to_nat n)) (eval_vec n d r)) (eval_vec n d c).

Lemma seg_length n d f r c : length (seg n d f r c) = Z.to_nat n.
Proof. unfold seg, pos. rewrite !combine_length, repeat_length, !eval_vec_length. lia. Qed.

Lemma seg_in n d f r c p : 0 <= d < n -> In p (seg n d f r c) -> pface p = f /\ 0 <= snd (fst p) < n /\ 0 <= snd p < n.
Proof.
  intros Hd I. destruct p as [[f' r'] k']. unfold seg in I. cbn [pface fst snd].
  pose proof (in_combine_l _ _ _ _ I) as I1. pose proof (in_combine_r _ _ _ _ I) as I2.
  pose proof (in_combine_l _ _ _ _ I1) as I3. pose proof (in_combine_r _ _ _ _ I1) as I4.
  apply repeat_spec in I3. split; auto. split; eapply eval_vec_range; eauto.
Qed.

Lemma seg_nodup n d f r c : is_perm_vec r || is_perm_vec c = true -> NoDup (seg n d f r c).
Proof.
  intro H. unfold seg. apply orb_true_iff in H as [H|H].
  - apply NoDup_combine_l. apply NoDup_combine_r. apply eval_vec_nodup; auto.
  - apply NoDup_combine_r. apply eval_vec_nodup; auto.
Qed.

(* ---------- the facts about a strip that the algebra needs ---------- *)
Record strip_ok (n d : Z) (t : rtable) : Prop := {
  so_valid : Forall (valid n) (strip n d t);
  so_nodup : NoDup (strip n d t);
  so_len : length (strip n d t) = (4 * Z.to_nat n)%nat;
  so_face : forall p, In p (strip n d t) -> pface p <> t_face t;
  so_tf : 0 <= t_face t < 6 }.

Theorem strip_facts n d t : table_ok t = true -> 0 <= d < n -> strip_ok n d t.
Proof.
  intros Ok Hd. unfold table_ok in Ok. destruct t as [tf adj cols rows]. cbn [t_adj t_rows t_cols t_face] in *.
  destruct adj as [|f1 [|f2 [|f3 [|f4 [|? ?]]]]]; try discriminate.
  destruct rows as [|r1 [|r2 [|r3 [|r4 [|? ?]]]]]; try discriminate.
  destruct cols as [|c1 [|c2 [|c3 [|c4 [|? ?]]]]]; try discriminate.
  cbn [forallb existsb distinct_b fst snd] in Ok.
  assert (E : strip n d (mkRT tf [f1; f2; f3; f4] [c1; c2; c3; c4] [r1; r2; r3; r4])
              = seg n d f1 r1 c1 ++ seg n d f2 r2 c2 ++ seg n d f3 r3 c3 ++ seg n d f4 r4 c4).
  { unfold strip, eval_cat, seg. cbn [t_adj t_rows t_cols flat_map map concat]. rewrite !app_nil_r.
    repeat (rewrite combine_app_rc by (rewrite ?combine_length, ?repeat_length, ?eval_vec_length; lia)).
    repeat (rewrite combine_app_rc by (rewrite ?combine_length, ?repeat_length, ?eval_vec_length; lia)).
    reflexivity. }
  assert (Hf : (0 <= f1 < 6 /\ 0 <= f2 < 6 /\ 0 <= f3 < 6 /\ 0 <= f4 < 6) /\ (f1 <> tf /\ f2 <> tf /\ f3 <> tf /\ f4 <> tf)
               /\ 0 <= tf < 6 /\ (f1 <> f2 /\ f1 <> f3 /\ f1 <> f4 /\ f2 <> f3 /\ f2 <> f4 /\ f3 <> f4)) by lia.
  apply andb_true_iff in Ok as [Ok Q]. apply andb_true_iff in Q as [Q1 Q]. apply andb_true_iff in Q as [Q2 Q].
  apply andb_true_iff in Q as [Q3 Q]. apply andb_true_iff in Q as [Q4 _].
  clear Ok. destruct Hf as (Hr & Hne & Htf & Hdf).
  assert (S1 := fun p => seg_in n d f1 r1 c1 p Hd). assert (S2 := fun p => seg_in n d f2 r2 c2 p Hd).
  assert (S3 := fun p => seg_in n d f3 r3 c3 p Hd). assert (S4 := fun p => seg_in n d f4 r4 c4 p Hd).
  constructor; cbn [t_face]; rewrite ?E.
  - apply Forall_forall. intros [[f r] k] I. rewrite !in_app_iff in I. unfold valid.
    destruct I as [I|[I|[I|I]]]; [apply S1 in I|apply S2 in I|apply S3 in I|apply S4 in I];
      cbn [pface fst snd] in I; lia.
  - apply NoDup_app_intro; [apply seg_nodup; auto| |].
    + apply NoDup_app_intro; [apply seg_nodup; auto| |].
      * apply NoDup_app_intro; [apply seg_nodup; auto|apply seg_nodup; auto|].
        intros p I I'. apply S3 in I. apply S4 in I'. lia.
      * intros p I I'. rewrite in_app_iff in I'. apply S2 in I.
        destruct I' as [I'|I']; [apply S3 in I'|apply S4 in I']; lia.
    + intros p I I'. rewrite !in_app_iff in I'. apply S1 in I.
      destruct I' as [I'|[I'|I']]; [apply S2 in I'|apply S3 in I'|apply S4 in I']; lia.
  - rewrite !app_length, !seg_length. lia.
  - intros p I. rewrite !in_app_iff in I.
    destruct I as [I|[I|[I|I]]]; [apply S1 in I|apply S2 in I|apply S3 in I|apply S4 in I]; lia.
  - lia.
Qed.

Theorem strip_facts_tables n d t : In t rubik_tables -> 0 <= d < n -> strip_ok n d t.
Proof. intros. apply strip_facts; auto using table_ok_in. Qed.

(* ---------- do_rotation: shape, composition, multiset ---------- *)
Section Turn.
  Variables (n d : Z) (t : rtable).
  Hypothesis Hn : 0 <= n.
  Hypothesis SO : strip_ok n d t.
  Let P := strip n d t.
  Let tf := t_face t.

  Definition frot (q : Z) (c : cube) : cube := if d =? 0 then jset c tf (rot90 n (- q) (jget [] c tf)) else c.

  Lemma do_rotation_eq q c : do_rotation n t d q c = scatter P (roll (n * q) (gather P (frot q c))) (frot q c).
  Proof. reflexivity. Qed.

  Lemma face_in c : shape n c -> jget [] c tf = znth [] c tf.
  Proof. intros [L _]. apply jget_in. pose proof (so_tf _ _ _ SO). unfold tf, cube, face in *. lia. Qed.

  Lemma frot_shape q c : shape n c -> shape n (frot q c).
  Proof.
    intro Sh. unfold frot. destruct (d =? 0); auto. pose proof Sh as [L _]. pose proof (so_tf _ _ _ SO) as Ht.
    rewrite jset_in_z by (unfold tf, cube, face in *; lia). apply shape_setface; auto.
    apply rot90_square; auto. rewrite face_in by auto. apply shape_face; auto.
  Qed.

  Lemma gather_frot q c : shape n c -> gather P (frot q c) = gather P c.
  Proof.
    intro Sh. unfold frot. destruct (d =? 0); auto.
    apply (gather_setface n); auto; try apply SO.
    apply rot90_square; auto. rewrite face_in by auto. apply shape_face; auto. apply SO.
  Qed.

  Lemma gather_length c : length (gather P c) = length P.
  Proof. unfold gather. apply map_length. Qed.

  Lemma do_rotation_shape q c : shape n c -> shape n (do_rotation n t d q c).
  Proof. intro Sh. rewrite do_rotation_eq. apply scatter_shape. apply frot_shape. auto. Qed.

  Lemma frot_scatter a v c :
    shape n c -> length v = length P -> frot a (scatter P v c) = scatter P v (frot a c).
  Proof.
    intros Sh L. unfold frot. destruct (d =? 0); auto.
    pose proof (so_tf _ _ _ SO) as Ht.
    rewrite !face_in by (auto using scatter_shape).
    rewrite (face_scatter n) by (auto; apply SO).
    apply (setface_scatter n); auto; try apply SO.
    apply rot90_square; auto. apply shape_face; auto.
  Qed.

  Lemma frot_frot a b c : shape n c -> frot a (frot b c) = frot (a + b) c.
  Proof.
    intro Sh. unfold frot. destruct (d =? 0); auto.
    pose proof (so_tf _ _ _ SO) as Ht. pose proof Sh as [L _].
    assert (Sq : square n (znth [] c tf)) by (apply shape_face; auto).
    assert (Sh1 : shape n (jset c tf (rot90 n (- b) (jget [] c tf)))).
    { rewrite jset_in_z by (unfold tf, cube, face in *; lia). apply shape_setface; auto. apply rot90_square; auto.
      rewrite face_in by auto. auto. }
    rewrite (face_in _ Sh1). rewrite (face_in c) by auto.
    set (G := rot90 n (- b) (znth [] c tf)).
    assert (E : znth [] (jset c tf G) tf = G).
    { rewrite jset_in_z by (unfold tf, cube, face in *; lia).
      rewrite znth_zupd by (unfold tf, cube, face in *; lia). rewrite Z.eqb_refl. reflexivity. }
    rewrite E. rewrite setface_setface by (unfold tf, cube, face in *; lia).
    unfold G. rewrite rot90_add by auto. do 2 f_equal. lia.
  Qed.

  (* the heart of the group laws *)
  Theorem do_rotation_compose a b c :
    shape n c -> do_rotation n t d a (do_rotation n t d b c) = do_rotation n t d (a + b) c.
  Proof.
    intro Sh. rewrite !do_rotation_eq.
    set (v1 := roll (n * b) (gather P (frot b c))).
    assert (L1 : length v1 = length P) by (unfold v1; rewrite roll_length; apply gather_length).
    assert (Shb : shape n (frot b c)) by (apply frot_shape; auto).
    rewrite frot_scatter by auto. rewrite frot_frot by auto.
    assert (Shab : shape n (frot (a + b) c)) by (apply frot_shape; auto).
    rewrite (gather_scatter n) by (auto; apply SO).
    rewrite (scatter_scatter n) by (auto; try apply SO; rewrite roll_length; auto).
    f_equal. unfold v1. rewrite roll_add. rewrite !gather_frot by auto. f_equal. lia.
  Qed.

  Theorem do_rotation_id q c : shape n c -> q mod 4 = 0 -> do_rotation n t d q c = c.
  Proof.
    intros Sh Hq. rewrite do_rotation_eq.
    assert (F : frot q c = c).
    { unfold frot. destruct (d =? 0); auto. rewrite rot90_0 by lia.
      pose proof (so_tf _ _ _ SO) as Ht. pose proof Sh as [L _].
      rewrite face_in by auto. rewrite jset_in_z by (unfold tf, cube, face in *; lia).
      apply (list_ext_z [] 6); [rewrite zupd_length| |]; try (unfold zlen, cube, face in *; lia).
      intros i Hi. rewrite znth_zupd by (unfold tf, cube, face in *; lia).
      destruct (tf =? i) eqn:E; auto. f_equal. lia. }
    rewrite F. rewrite roll_0.
    - apply (scatter_gather n); auto; apply SO.
    - unfold zlen. rewrite gather_length. unfold P. rewrite (so_len _ _ _ SO).
      replace (Z.of_nat (4 * Z.to_nat n)) with (n * 4) by lia.
      assert (q = 4 * (q / 4)) by lia. rewrite H. replace (n * (4 * (q / 4))) with ((q / 4) * (n * 4)) by lia.
      destruct (Z.eq_dec (n * 4) 0) as [E|E]; [rewrite E; rewrite Z.mul_0_r; apply Zmod_0_l | apply Z.mod_mul; auto].
  Qed.

  (* every move only permutes the stickers *)
  Theorem do_rotation_perm q c : shape n c -> Permutation (stickers (do_rotation n t d q c)) (stickers c).
  Proof.
    intro Sh. rewrite do_rotation_eq.
    assert (Shq : shape n (frot q c)) by (apply frot_shape; auto).
    assert (P1 : Permutation (stickers (frot q c)) (stickers c)).
    { unfold frot. destruct (d =? 0); auto. apply (setface_perm n); auto; [apply SO|].
      rewrite face_in by auto. apply rot90_perm. apply shape_face; auto. apply SO. }
    eapply Permutation_trans; [|exact P1].
    pose proof (scatter_perm n P (roll (n * q) (gather P (frot q c))) (frot q c) Shq (so_valid _ _ _ SO) (so_nodup _ _ _ SO)
                  ltac:(rewrite roll_length; apply gather_length)) as Pm.
    eapply Permutation_app_inv_l.
    eapply Permutation_trans; [exact Pm|]. apply Permutation_app_tail. apply roll_perm.
  Qed.
End Turn.

(* ---------- the group laws for the translated tables, every n, every depth 0 <= d < n ---------- *)
Section Laws.
  Variables (n d : Z) (t : rtable) (c : cube).
  Hypothesis Ht : In t rubik_tables.
  Hypothesis Hd : 0 <= d < n.
  Hypothesis Sh : shape n c.
  Let SO := strip_facts_tables n d t Ht Hd.
  Let Hn : 0 <= n := ltac:(lia).

  Theorem cw_then_acw : do_rotation n t d (-1) (do_rotation n t d 1 c) = c.
  Proof. rewrite (do_rotation_compose n d t Hn SO) by auto. apply (do_rotation_id n d t Hn SO); auto. Qed.
  Theorem acw_then_cw : do_rotation n t d 1 (do_rotation n t d (-1) c) = c.
  Proof. rewrite (do_rotation_compose n d t Hn SO) by auto. apply (do_rotation_id n d t Hn SO); auto. Qed.
  Theorem half_is_two_cw : do_rotation n t d 2 c = do_rotation n t d 1 (do_rotation n t d 1 c).
  Proof. rewrite (do_rotation_compose n d t Hn SO) by auto. reflexivity. Qed.
  Theorem half_is_two_acw : do_rotation n t d 2 c = do_rotation n t d (-1) (do_rotation n t d (-1) c).
  Proof.
    rewrite (do_rotation_compose n d t Hn SO) by auto. change (-1 + -1) with (-2).
    rewrite <- (do_rotation_id n d t Hn SO 4 c Sh eq_refl) at 2.
    rewrite (do_rotation_compose n d t Hn SO) by auto. reflexivity.
  Qed.
  Theorem four_quarters :
    do_rotation n t d 1 (do_rotation n t d 1 (do_rotation n t d 1 (do_rotation n t d 1 c))) = c.
  Proof.
    rewrite (do_rotation_compose n d t Hn SO 1 1 c) by auto.
    rewrite (do_rotation_compose n d t Hn SO 1 (1 + 1) c) by auto.
    rewrite (do_rotation_compose n d t Hn SO 1 (1 + (1 + 1)) c) by auto.
    apply (do_rotation_id n d t Hn SO); auto.
  Qed.
  Theorem half_then_half : do_rotation n t d 2 (do_rotation n t d 2 c) = c.
  Proof. rewrite (do_rotation_compose n d t Hn SO) by auto. apply (do_rotation_id n d t Hn SO); auto. Qed.
  Theorem move_conserves_multiset q : Permutation (stickers (do_rotation n t d q c)) (stickers c).
  Proof. apply (do_rotation_perm n d t Hn SO); auto. Qed.
  Theorem move_keeps_shape q : shape n (do_rotation n t d q c).
  Proof. apply (do_rotation_shape n d t Hn SO); auto. Qed.
End Laws.

(* ---------- moves, flat actions, inverses ---------- *)
Lemma move_facts n t d a : In (t, d, a) (all_moves n) -> In t rubik_tables /\ 0 <= d < n /\ In a rubik_amounts.
Proof. intro H. apply all_moves_in in H as (H1 & H2 & H3). repeat split; auto; lia. Qed.

Lemma chosen_move_in n a : 2 <= n -> In (nth (Z.to_nat (switch_clamp (zlen (all_moves n)) a)) (all_moves n) id_move) (all_moves n).
Proof.
  intro Hn. apply nth_In. pose proof (all_moves_length n ltac:(lia)) as L. rewrite num_actions_eq in L.
  unfold switch_clamp. unfold zlen in *. lia.
Qed.

Lemma rotate_cube_shape n c a : 2 <= n -> shape n c -> shape n (rotate_cube n c a).
Proof.
  intros Hn Sh. unfold rotate_cube. pose proof (chosen_move_in n a Hn) as I.
  destruct (nth _ _ _) as [[t d] q]. apply move_facts in I as (I1 & I2 & I3). apply move_keeps_shape; auto.
Qed.

Lemma rotate_cube_perm n c a : 2 <= n -> shape n c -> Permutation (stickers (rotate_cube n c a)) (stickers c).
Proof.
  intros Hn Sh. unfold rotate_cube. pose proof (chosen_move_in n a Hn) as I.
  destruct (nth _ _ _) as [[t d] q]. apply move_facts in I as (I1 & I2 & I3). apply move_conserves_multiset; auto.
Qed.

Lemma clamp_in n a : 2 <= n -> 0 <= switch_clamp (num_actions n) a < num_actions n.
Proof. intro H. rewrite num_actions_eq. unfold switch_clamp. lia. Qed.

Lemma clamp_id len a : 0 <= a < len -> switch_clamp len a = a.
Proof. unfold switch_clamp. lia. Qed.

(* rotate_cube on the decoded (face, depth, amount) triple *)
Lemma rotate_cube_decode n c a : 2 <= n ->
  let '(f, d, am) := unflatten_action n (switch_clamp (num_actions n) a) in
  rotate_cube n c a = do_rotation n (nth (Z.to_nat f) rubik_tables tab_up) d (nth (Z.to_nat am) rubik_amounts 0) c.
Proof.
  intro Hn. unfold rotate_cube. rewrite all_moves_length by lia.
  pose proof (all_moves_nth n _ Hn (clamp_in n a Hn)) as E.
  destruct (unflatten_action n (switch_clamp (num_actions n) a)) as [[f d] am]. rewrite E. reflexivity.
Qed.

Lemma inv_amount_spec am : 0 <= am < 3 ->
  0 <= inv_amount am < 3 /\ (nth (Z.to_nat (inv_amount am)) rubik_amounts 0 + nth (Z.to_nat am) rubik_amounts 0) mod 4 = 0.
Proof.
  intro H. assert (am = 0 \/ am = 1 \/ am = 2) as [E|[E|E]] by lia; subst am; vm_compute; repeat split; congruence.
Qed.

(* the inverse action undoes the action: for EVERY action value (lax.switch clamps), every n >= 2 *)
Theorem rotate_cube_inverse n c a : 2 <= n -> shape n c -> rotate_cube n (rotate_cube n c a) (inv_action n a) = c.
Proof.
  intros Hn Sh. pose proof (rotate_cube_decode n c a Hn) as E1. unfold inv_action.
  pose proof (unflatten_range n _ Hn (clamp_in n a Hn)) as R.
  destruct (unflatten_action n (switch_clamp (num_actions n) a)) as [[f d] am] eqn:U.
  destruct R as (Rf & Rd & Ra). pose proof (inv_amount_spec am Ra) as (Ri & Rs).
  pose proof (unflatten_flatten n f d (inv_amount am) Hn Rf Rd Ri) as (UF & FR).
  pose proof (rotate_cube_decode n (rotate_cube n c a) (flatten_action n (f, d, inv_amount am)) Hn) as E2.
  rewrite (clamp_id _ _ FR), UF in E2. rewrite E2, E1.
  assert (It : In (nth (Z.to_nat f) rubik_tables tab_up) rubik_tables).
  { apply nth_In. change (length rubik_tables) with 6%nat. lia. }
  assert (Hd : 0 <= d < n) by lia.
  pose proof (strip_facts_tables n d _ It Hd) as SO.
  rewrite (do_rotation_compose n d _ ltac:(lia) SO) by auto.
  apply (do_rotation_id n d _ ltac:(lia) SO); auto.
Qed.

Lemma inv_action_range n a : 2 <= n -> 0 <= inv_action n a < num_actions n.
Proof.
  intro Hn. unfold inv_action. pose proof (unflatten_range n _ Hn (clamp_in n a Hn)) as R.
  destruct (unflatten_action n (switch_clamp (num_actions n) a)) as [[f d] am].
  destruct R as (Rf & Rd & Ra). pose proof (inv_amount_spec am Ra) as (Ri & _).
  apply (unflatten_flatten n f d (inv_amount am) Hn Rf Rd Ri).
Qed.

(* ---------- sequences of actions: shape, multiset, solvability ---------- *)
Definition play (n : Z) (acts : list Z) (c : cube) : cube := fold_left (rotate_cube n) acts c.

Lemma play_shape n acts c : 2 <= n -> shape n c -> shape n (play n acts c).
Proof. intro Hn. revert c; induction acts as [|a r IH]; intros c Sh; cbn; auto. apply IH. apply rotate_cube_shape; auto. Qed.

Lemma play_perm n acts c : 2 <= n -> shape n c -> Permutation (stickers (play n acts c)) (stickers c).
Proof.
  intro Hn. revert c; induction acts as [|a r IH]; intros c Sh; cbn; auto.
  eapply Permutation_trans; [apply IH; apply rotate_cube_shape; auto|]. apply rotate_cube_perm; auto.
Qed.

Theorem play_solution n acts c : 2 <= n -> shape n c -> play n (solution n acts) (play n acts c) = c.
Proof.
  intros Hn Sh. induction acts as [|a r IH] using rev_ind; [reflexivity|].
  unfold solution, play in *. rewrite rev_app_distr. cbn [rev app map]. rewrite fold_left_app. cbn [fold_left].
  rewrite rotate_cube_inverse by (auto; apply (play_shape n r c Hn Sh)). exact IH.
Qed.

Lemma solved_cube_shape n : 0 <= n -> shape n (solved_cube n).
Proof.
  intro Hn. unfold solved_cube. split; [reflexivity|].
  apply Forall_forall. intros g I. apply in_map_iff in I as [f [E _]]. subst g. split.
  - unfold zlen. rewrite repeat_length. lia.
  - apply Forall_forall. intros row I. apply repeat_spec in I. subst row. unfold zlen. rewrite repeat_length. lia.
Qed.

Lemma solved_cube_solved n : Solved (solved_cube n).
Proof.
  intros g I. unfold solved_cube in I. apply in_map_iff in I as [f [E _]]. subst g. exists f.
  intros x I. apply in_concat in I as [row [I1 I2]]. apply repeat_spec in I1. subst row. apply repeat_spec in I2. auto.
Qed.

(* C10: whatever the draw, the scrambled cube is solvable, by an explicit computed solution *)
Theorem scramble_solvable n acts : 2 <= n -> play n (solution n acts) (scramble n acts) = solved_cube n.
Proof. intro Hn. apply (play_solution n acts (solved_cube n) Hn). apply solved_cube_shape. lia. Qed.

(* states reachable from the goal by any actions *)
Definition Reach (n : Z) (c : cube) : Prop := exists acts, c = play n acts (solved_cube n).

Lemma reach_scramble n acts : Reach n (scramble n acts).
Proof. exists acts. reflexivity. Qed.

Lemma reach_rotate n c a : Reach n c -> Reach n (rotate_cube n c a).
Proof. intros [acts E]. exists (acts ++ [a]). unfold play in *. rewrite fold_left_app. cbn [fold_left]. subst c. reflexivity. Qed.

Theorem reach_solvable n c : 2 <= n -> Reach n c -> exists sol, play n sol c = solved_cube n.
Proof. intros Hn [acts E]. exists (solution n acts). subst c. apply scramble_solvable. auto. Qed.

Lemma reach_shape n c : 2 <= n -> Reach n c -> shape n c.
Proof. intros Hn [acts E]. subst c. apply play_shape; auto. apply solved_cube_shape. lia. Qed.

Theorem reach_multiset n c : 2 <= n -> Reach n c -> Permutation (stickers c) (stickers (solved_cube n)).
Proof. intros Hn [acts E]. subst c. apply play_perm; auto. apply solved_cube_shape. lia. Qed.

Lemma solved_cube_in_spec n x : In x (stickers (solved_cube n)) -> 0 <= x <= 5.
Proof.
  intro I. unfold stickers in I. apply in_concat in I as [l [I1 I2]]. apply in_map_iff in I1 as [g [E I1]]. subst l.
  unfold solved_cube in I1. apply in_map_iff in I1 as [f [E I1]]. subst g.
  apply in_concat in I2 as [row [I2 I3]]. apply repeat_spec in I2. subst row. apply repeat_spec in I3. subst x.
  change rubik_faces with [0; 1; 2; 3; 4; 5] in I1. cbn in I1. lia.
Qed.

Theorem reach_in_spec n c : 2 <= n -> Reach n c -> in_spec_b c = true.
Proof.
  intros Hn R. unfold in_spec_b. apply forallb_forall. intros x I.
  pose proof (reach_multiset n c Hn R) as Pm. apply (Permutation_in _ Pm) in I. apply solved_cube_in_spec in I. lia.
Qed.
