(* RubiksCube, part 7 (C17, the physical move for EVERY cube size n >= 2, every depth d < n/2, every amount):
     nth_eval_vec / nth_seg / nth_strip   the rvec evaluator (arange / repeat / flip / concatenate) entry by entry:
                                          strip[j*n + o] = spos n d t j o
     do_rotation_on_strip / _on_face / _elsewhere   do_rotation sticker by sticker (roll of the strip, rot90 of
                                          the face, identity elsewhere), for any table with strip_ok
     quarter_turn      amount 1 on an ARBITRARY cube = the physical clockwise quarter turn of the layer
     quarter_turns     q-fold composition (do_rotation_compose), layer_turn: any amount a = a mod 4 quarter turns
     physical_moves_all   physical_b n m = true for every n >= 2 and every m in all_moves n
     physical_move_any_cube   the same statement on an arbitrary cube of shape n *)
Require Import JV.Base.Prelude JV.Base.JaxIndex JV.Base.Codec JV.Base.TimeStep JV.Gen.RubikTables JV.Model.RubiksCube.
Require Import JV.Proofs.RubiksCube_Lists JV.Proofs.RubiksCube_Cube JV.Proofs.RubiksCube_Action JV.Proofs.RubiksCube_Group.
Require Import JV.Proofs.RubiksCube_Geometry.

(* ---------- (a) closed forms: the evaluator of the translated index vectors, entry by entry ---------- *)
Lemma nth_eval_vec n d v o dz : (o < Z.to_nat n)%nat -> nth o (eval_vec n d v) dz = ev n d v (Z.of_nat o).
Proof.
  revert o. induction v as [| s | v IH]; intros o Ho; cbn [eval_vec ev].
  - apply zrange_nth. exact Ho.
  - rewrite (nth_indep _ dz (eval_scal n d s)) by (rewrite repeat_length; exact Ho). apply nth_repeat.
  - rewrite rev_nth by (rewrite eval_vec_length; exact Ho). rewrite eval_vec_length.
    rewrite IH by lia. f_equal. lia.
Qed.

Lemma nth_seg n d f r c o dp : (o < Z.to_nat n)%nat ->
  nth o (seg n d f r c) dp = (f, ev n d r (Z.of_nat o), ev n d c (Z.of_nat o)).
Proof.
  intro Ho. rewrite (nth_indep _ dp (0, 0, 0)) by (rewrite seg_length; exact Ho).
  unfold seg, pos. rewrite combine_nth by (rewrite combine_length, repeat_length, !eval_vec_length; lia).
  rewrite combine_nth by (rewrite repeat_length, eval_vec_length; lia).
  rewrite (nth_indep _ 0 f) by (rewrite repeat_length; exact Ho). rewrite nth_repeat, !nth_eval_vec by exact Ho. reflexivity.
Qed.

Lemma strip_segs n d tf f1 f2 f3 f4 c1 c2 c3 c4 r1 r2 r3 r4 :
  strip n d (mkRT tf [f1; f2; f3; f4] [c1; c2; c3; c4] [r1; r2; r3; r4])
  = seg n d f1 r1 c1 ++ seg n d f2 r2 c2 ++ seg n d f3 r3 c3 ++ seg n d f4 r4 c4.
Proof.
  unfold strip, eval_cat, seg. cbn [t_adj t_rows t_cols flat_map map concat]. rewrite !app_nil_r.
  repeat (rewrite combine_app_rc by (rewrite ?combine_length, ?repeat_length, ?eval_vec_length; lia)).
  repeat (rewrite combine_app_rc by (rewrite ?combine_length, ?repeat_length, ?eval_vec_length; lia)).
  reflexivity.
Qed.

Lemma nth_strip n d t j o dp : table_ok t = true -> (j < 4)%nat -> (o < Z.to_nat n)%nat ->
  nth (j * Z.to_nat n + o) (strip n d t) dp = spos n d t j (Z.of_nat o).
Proof.
  intros Ok Hj Ho. unfold table_ok in Ok. destruct t as [tf adj cols rows]. cbn [t_adj t_rows t_cols t_face] in *.
  destruct adj as [|f1 [|f2 [|f3 [|f4 [|? ?]]]]]; try discriminate.
  destruct rows as [|r1 [|r2 [|r3 [|r4 [|? ?]]]]]; try discriminate.
  destruct cols as [|c1 [|c2 [|c3 [|c4 [|? ?]]]]]; try discriminate.
  clear Ok. rewrite strip_segs. unfold spos. cbn [t_adj t_rows t_cols].
  destruct j as [|[|[|[|j]]]]; [| | | |lia]; cbn [nth];
    repeat (rewrite app_nth2 by (rewrite ?seg_length; lia); rewrite ?seg_length);
    try (rewrite app_nth1 by (rewrite ?seg_length; lia));
    rewrite <- (nth_seg _ _ _ _ _ _ dp) by exact Ho; f_equal; lia.
Qed.

(* ---------- do_rotation, sticker by sticker ---------- *)
Section Pointwise.
  Variables (n d : Z) (t : rtable).
  Hypothesis Hn : 0 <= n.
  Hypothesis SO : strip_ok n d t.
  Let P := strip n d t.
  Let tf := t_face t.

  (* on the strip: the sticker at strip index i comes from strip index i - n*q (mod 4n) *)
  Lemma do_rotation_on_strip q c i dp : shape n c -> (i < length P)%nat ->
    cget (do_rotation n t d q c) (nth i P dp)
    = cget c (nth (Z.to_nat ((Z.of_nat i - n * q) mod zlen P)) P dp).
  Proof.
    intros Sh Hi. rewrite do_rotation_eq. fold P.
    assert (Shq : shape n (frot n d t q c)) by (apply frot_shape; auto).
    rewrite (scatter_nth n) by (auto; try apply SO; rewrite roll_length; unfold gather; apply map_length).
    unfold P. rewrite gather_frot by auto. fold P.
    assert (Lg : zlen (gather P c) = zlen P) by (unfold zlen, gather; rewrite map_length; reflexivity).
    rewrite <- (Nat2Z.id i) at 1. rewrite <- rc_znth_nth by lia.
    rewrite znth_roll by (unfold zlen in *; lia). rewrite Lg.
    assert (Hm : 0 <= (Z.of_nat i - n * q) mod zlen P < zlen P) by (apply Z.mod_pos_bound; unfold zlen; lia).
    rewrite rc_znth_nth by lia. unfold gather.
    apply (nth_map_in (cget c) P _ 0 dp). unfold zlen in *. zlia.
  Qed.

  (* off the strip, on the turning face of an outer-layer move: rot90 by -q *)
  Lemma do_rotation_on_face q c r k : shape n c -> d = 0 -> 0 <= r < n -> 0 <= k < n ->
    cget (do_rotation n t d q c) (tf, r, k) = gat 0 (rot90 n (- q) (znth [] c tf)) r k.
  Proof.
    intros Sh Hd Hr Hk. rewrite do_rotation_eq. fold P.
    pose proof (so_tf _ _ _ SO) as Ht. fold tf in Ht.
    assert (Shq : shape n (frot n d t q c)) by (apply frot_shape; auto).
    assert (V : valid n (tf, r, k)) by (cbn; auto).
    rewrite (scatter_notin n); auto; try apply SO.
    2:{ intro I. apply (so_face _ _ _ SO) in I. apply I. reflexivity. }
    unfold frot. fold tf. replace (d =? 0) with true by lia.
    rewrite (face_in n d t SO) by auto. fold tf.
    rewrite (cget_setface n) by (auto; apply rot90_square; auto; apply shape_face; auto).
    cbn [pface fst snd]. rewrite Z.eqb_refl. reflexivity.
  Qed.

  (* everything else is left alone *)
  Lemma do_rotation_elsewhere q c p : shape n c -> valid n p -> ~ In p P -> (d <> 0 \/ pface p <> tf) ->
    cget (do_rotation n t d q c) p = cget c p.
  Proof.
    intros Sh V NI H. rewrite do_rotation_eq. fold P.
    pose proof (so_tf _ _ _ SO) as Ht. fold tf in Ht.
    assert (Shq : shape n (frot n d t q c)) by (apply frot_shape; auto).
    rewrite (scatter_notin n); auto; try apply SO.
    unfold frot. fold tf. destruct (d =? 0) eqn:E; auto.
    rewrite (face_in n d t SO) by auto. fold tf.
    rewrite (cget_setface n) by (auto; apply rot90_square; auto; apply shape_face; auto).
    destruct (pface p =? tf) eqn:E2; [lia|reflexivity].
  Qed.
End Pointwise.

(* the geometric reference, as used inside physical_b *)
Definition phys_target (n f d : Z) (q : nat) (v : vec3) : vec3 :=
  if in_layer n f d v then rotate3_pow q (normal f) v else v.
Definition phys (n f d : Z) (q : nat) (p : pos) : pos := unembed n (phys_target n f d q (embed n p)).

Lemma rot90_m1 n g : rot90 n (- (1)) g = rot_cw n g.
Proof. reflexivity. Qed.

Lemma strip_index_split (N i : nat) : (i < 4 * N)%nat -> exists j o, (j < 4)%nat /\ (o < N)%nat /\ i = (j * N + o)%nat.
Proof.
  intro H. destruct (lt_dec i N); [exists 0%nat, i; lia|].
  destruct (lt_dec i (2 * N)); [exists 1%nat, (i - N)%nat; lia|].
  destruct (lt_dec i (3 * N)); [exists 2%nat, (i - 2 * N)%nat; lia|].
  exists 3%nat, (i - 3 * N)%nat; lia.
Qed.

Lemma strip_index_back n j o : (j < 4)%nat -> 0 <= o < n ->
  Z.to_nat ((Z.of_nat ((S j mod 4) * Z.to_nat n + Z.to_nat o) - n * 1) mod (4 * n)) = (j * Z.to_nat n + Z.to_nat o)%nat.
Proof.
  intros Hj Ho. destruct j as [|[|[|[|j]]]]; [| | | |lia]; cbn [Nat.modulo Nat.divmod fst snd Nat.sub].
  - rewrite Z.mod_small by lia. lia.
  - rewrite Z.mod_small by lia. lia.
  - rewrite Z.mod_small by lia. lia.
  - rewrite <- (Z.mod_unique (Z.of_nat (0 * Z.to_nat n + Z.to_nat o) - n * 1) (4 * n) (-1) (o + 3 * n)) by lia. lia.
Qed.

Section Quarter.
  Variables (n d : Z) (t : rtable).
  Hypothesis Ht : In t rubik_tables.
  Hypothesis Hn : 2 <= n.
  Hypothesis Hd : 0 <= d.
  Hypothesis Hd2 : 2 * d < n.
  Let tf := t_face t.
  Let SO : strip_ok n d t.
  Proof. apply strip_facts_tables; auto; lia. Qed.
  Let Ok : table_ok t = true.
  Proof. apply table_ok_in; auto. Qed.

  Lemma strip_len : length (strip n d t) = (4 * Z.to_nat n)%nat.
  Proof. apply SO. Qed.

  Lemma in_strip_iff p : In p (strip n d t) <-> exists j o, (j < 4)%nat /\ 0 <= o < n /\ p = spos n d t j o.
  Proof.
    split.
    - intro I. apply (In_nth _ _ (0, 0, 0)) in I as (i & Hi & E).
      assert (Hi' : (i < 4 * Z.to_nat n)%nat) by (pose proof strip_len; zlia).
      apply strip_index_split in Hi' as (j & o & Hj & Ho & Ei). subst i. rewrite nth_strip in E by auto.
      exists j, (Z.of_nat o). repeat split; auto; lia.
    - intros (j & o & Hj & Ho & E). subst p. rewrite <- (Z2Nat.id o) by lia.
      rewrite <- (nth_strip n d t j (Z.to_nat o) (0, 0, 0)) by (auto; lia). apply nth_In. pose proof strip_len. unfold pos in *. nia.
  Qed.

  (* THE QUARTER TURN, on an arbitrary cube: the sticker at p moves to the position whose coordinates are the
     coordinates of p turned by a quarter about the normal of the turning face when p is in the layer, and
     stays in place otherwise *)
  Theorem quarter_turn c p : shape n c -> valid n p ->
    let p' := phys n tf d 1 p in
    valid n p' /\ embed n p' = phys_target n tf d 1 (embed n p) /\ cget (do_rotation n t d 1 c) p' = cget c p.
  Proof.
    intros Sh V. unfold phys, phys_target. cbn [rotate3_pow].
    pose proof (so_tf _ _ _ SO) as Htf. fold tf in Htf.
    destruct (in_layer n tf d (embed n p)) eqn:IL.
    - destruct (layer_is_strip n d t p Ht Hn Hd Hd2 V IL) as [[Ef E0]|(j & o & Hj & Ho & E)].
      + destruct p as [[f r] k]. cbn [pface fst] in Ef. subst f. destruct V as (_ & Hr & Hk).
        destruct (face_rotate n tf r k Htf) as [R _]. fold tf. rewrite R.
        assert (V' : valid n (tf, k, n - 1 - r)) by (cbn; lia).
        rewrite unembed_embed by (auto; lia). split; [exact V'|split; [reflexivity|]].
        unfold tf. rewrite (do_rotation_on_face n d t ltac:(lia) SO) by (auto; lia). fold tf.
        rewrite rot90_m1. unfold rot_cw. rewrite gat_tab by lia.
        rewrite (cget_in n) by (cbn; auto). f_equal. lia.
      + subst p. pose proof (strip_rotate n d t j o Ht Hj Ho) as R. fold tf in R. rewrite R.
        assert (Hj' : (S j mod 4 < 4)%nat) by (apply Nat.mod_upper_bound; lia).
        destruct (strip_in_layer n d t (S j mod 4) o Ht Hj' Ho Hd Hd2) as (V' & _ & _).
        rewrite unembed_embed by (auto; lia). split; [exact V'|split; [reflexivity|]].
        rewrite <- (Z2Nat.id o) at 1 2 by lia.
        rewrite <- (nth_strip n d t _ _ (0, 0, 0)) by (auto; lia).
        rewrite (do_rotation_on_strip n d t ltac:(lia) SO) by (auto; pose proof strip_len; unfold pos in *; nia).
        replace (zlen (strip n d t)) with (4 * n) by (pose proof strip_len; unfold zlen; zlia).
        rewrite strip_index_back by auto. rewrite nth_strip by (auto; lia). rewrite Z2Nat.id by lia. reflexivity.
    - rewrite unembed_embed by (auto; lia). split; [exact V|split; [reflexivity|]].
      apply (do_rotation_elsewhere n d t ltac:(lia) SO); auto.
      + intro I. apply in_strip_iff in I as (j & o & Hj & Ho & E). subst p.
        destruct (strip_in_layer n d t j o Ht Hj Ho Hd Hd2) as (_ & IL' & _). fold tf in IL'. congruence.
      + destruct (Z.eq_dec d 0) as [E0|]; [|left; auto]. right. intro Ef.
        destruct p as [[f r] k]. cbn [pface fst] in Ef. subst f.
        destruct (face_rotate n tf r k Htf) as [_ D].
        assert (in_layer n tf d (embed n (tf, r, k)) = true) by (apply in_layer_iff; cbv zeta; rewrite D; lia).
        fold tf in IL. congruence.
  Qed.
End Quarter.

(* a quarter turn about the normal of f keeps the coordinate along that normal: the layer is invariant *)
Lemma in_layer_rotate n f d v : 0 <= f < 6 -> in_layer n f d (rotate3 (normal f) v) = in_layer n f d v.
Proof.
  intro Hf. destruct v as [[x y] z]. unfold in_layer.
  replace (dot (rotate3 (normal f) (x, y, z)) (normal f)) with (dot (x, y, z) (normal f)); [reflexivity|].
  face_cases f Hf; normals; unfold rotate3, vadd, vscale, dot, cross; lia.
Qed.

Lemma in_layer_rotate_pow n f d q v : 0 <= f < 6 -> in_layer n f d (rotate3_pow q (normal f) v) = in_layer n f d v.
Proof. intro Hf. induction q as [|q IH]; cbn [rotate3_pow]; [reflexivity|]. rewrite in_layer_rotate by auto. exact IH. Qed.

Lemma phys_target_S n f d q v : 0 <= f < 6 -> phys_target n f d 1 (phys_target n f d q v) = phys_target n f d (S q) v.
Proof.
  intro Hf. unfold phys_target. destruct (in_layer n f d v) eqn:E.
  - rewrite in_layer_rotate_pow by auto. rewrite E. reflexivity.
  - rewrite E. reflexivity.
Qed.

Lemma phys_target_0 n f d v : phys_target n f d 0 v = v.
Proof. unfold phys_target. destruct (in_layer n f d v); reflexivity. Qed.

Section Turns.
  Variables (n d : Z) (t : rtable).
  Hypothesis Ht : In t rubik_tables.
  Hypothesis Hn : 2 <= n.
  Hypothesis Hd : 0 <= d.
  Hypothesis Hd2 : 2 * d < n.
  Let tf := t_face t.
  Let SO : strip_ok n d t.
  Proof. apply strip_facts_tables; auto; lia. Qed.
  Let Hn0 : 0 <= n.
  Proof. lia. Qed.

  (* q quarter turns, on an arbitrary cube *)
  Theorem quarter_turns q c p : shape n c -> valid n p ->
    let p' := phys n tf d q p in
    valid n p' /\ embed n p' = phys_target n tf d q (embed n p)
    /\ cget (do_rotation n t d (Z.of_nat q) c) p' = cget c p.
  Proof.
    intros Sh V. pose proof (so_tf _ _ _ SO) as Htf. fold tf in Htf. cbv zeta. induction q as [|q IH].
    - unfold phys. rewrite phys_target_0. rewrite unembed_embed by (auto; lia).
      split; [exact V|split; [reflexivity|]]. rewrite (do_rotation_id n d t Hn0 SO) by auto. reflexivity.
    - destruct IH as (V1 & E1 & C1).
      assert (Sh1 : shape n (do_rotation n t d (Z.of_nat q) c)) by (apply (do_rotation_shape n d t Hn0 SO); auto).
      destruct (quarter_turn n d t Ht Hn Hd Hd2 _ _ Sh1 V1) as (V2 & E2 & C2). fold tf in V2, E2, C2.
      assert (EP : phys n tf d 1 (phys n tf d q p) = phys n tf d (S q) p).
      { unfold phys at 1. rewrite E1. rewrite phys_target_S by auto. reflexivity. }
      rewrite EP in *. split; [exact V2|split].
      + rewrite E2, E1. apply phys_target_S. auto.
      + rewrite <- C1, <- C2. rewrite (do_rotation_compose n d t Hn0 SO) by auto. do 2 f_equal. lia.
  Qed.

  Lemma do_rotation_mod4 a c : shape n c -> do_rotation n t d a c = do_rotation n t d (a mod 4) c.
  Proof.
    intro Sh. rewrite <- (do_rotation_id n d t Hn0 SO (4 * (a / 4)) c Sh) at 2 by (rewrite Z.mul_comm; apply Z.mod_mul; lia).
    rewrite (do_rotation_compose n d t Hn0 SO) by auto. f_equal. lia.
  Qed.

  (* any amount: a mod 4 clockwise quarter turns of the layer *)
  Theorem layer_turn a c p : shape n c -> valid n p ->
    let p' := phys n tf d (Z.to_nat (a mod 4)) p in
    valid n p' /\ embed n p' = phys_target n tf d (Z.to_nat (a mod 4)) (embed n p)
    /\ cget (do_rotation n t d a c) p' = cget c p.
  Proof.
    intros Sh V. cbv zeta. rewrite do_rotation_mod4 by auto.
    pose proof (quarter_turns (Z.to_nat (a mod 4)) c p Sh V) as H. cbv zeta in H.
    rewrite Z2Nat.id in H by (apply Z.mod_pos_bound; lia). exact H.
  Qed.
End Turns.

(* ---------- the distinct-sticker cube ---------- *)
Lemma id_cube_shape n : 0 <= n -> shape n (id_cube n).
Proof.
  intro Hn. split; [reflexivity|]. apply Forall_forall. intros g I. unfold id_cube in I.
  apply in_map_iff in I as (f & E & _). subst g. apply tab_square. auto.
Qed.

Lemma id_cube_cget n p : 0 <= n -> valid n p -> cget (id_cube n) p = code n p.
Proof.
  intros Hn V. destruct p as [[f r] k]. rewrite (cget_in n) by (auto using id_cube_shape).
  destruct V as (Hf & Hr & Hk). face_cases f Hf; unfold id_cube, rubik_faces;
    match goal with |- context [znth [] (map ?F ?l) ?i] => change (znth [] (map F l) i) with (F i) end; cbv beta;
    rewrite gat_tab by lia; reflexivity.
Qed.

Lemma all_pos_valid n p : In p (all_pos n) -> valid n p.
Proof.
  unfold all_pos. intro I. apply in_flat_map in I as (f & If & I). apply in_flat_map in I as (r & Ir & I).
  apply in_map_iff in I as (k & E & Ik). subst p. apply in_zrange in Ir, Ik.
  unfold rubik_faces in If. cbn [In] in If. cbn. lia.
Qed.

Lemma vec3_eqb_refl v : vec3_eqb v v = true.
Proof. destruct v as [[x y] z]. unfold vec3_eqb. rewrite !Z.eqb_refl. reflexivity. Qed.

(* ---------- C17 (physical move), every cube size ---------- *)
Theorem physical_moves_all n m : 2 <= n -> In m (all_moves n) -> physical_b n m = true.
Proof.
  intros Hn Hm. destruct m as [[t d] a]. apply all_moves_in in Hm as (Ht & Hd & Ha).
  unfold physical_b. apply forallb_forall. intros p Hp. apply all_pos_valid in Hp.
  assert (Hd2 : 2 * d < n) by lia.
  destruct (layer_turn n d t Ht Hn ltac:(lia) Hd2 a (id_cube n) p (id_cube_shape n ltac:(lia)) Hp) as (V & E & C).
  unfold phys, phys_target in *. cbn [apply_move].
  rewrite E, vec3_eqb_refl, C, id_cube_cget by (auto; lia). rewrite Z.eqb_refl. reflexivity.
Qed.

(* the same on an arbitrary cube (any stickers), as a statement about positions *)
Theorem physical_move_any_cube n t d a c p :
  2 <= n -> In (t, d, a) (all_moves n) -> shape n c -> valid n p ->
  let p' := phys n (t_face t) d (Z.to_nat (a mod 4)) p in
  valid n p' /\ embed n p' = phys_target n (t_face t) d (Z.to_nat (a mod 4)) (embed n p)
  /\ cget (apply_move n (t, d, a) c) p' = cget c p.
Proof.
  intros Hn Hm Sh V. apply all_moves_in in Hm as (Ht & Hd & Ha).
  apply layer_turn; auto; lia.
Qed.
