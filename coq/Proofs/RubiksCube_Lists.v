(* RubiksCube, part 1: list / grid facts used by the cube proofs: tabulated grids, the rotations of a square
   face (jnp.rot90) compose like Z/4, jnp.roll composes additively, and both only permute their input. *)
Require Import JV.Base.Prelude JV.Base.JaxIndex JV.Base.Codec JV.Base.TimeStep JV.Gen.RubikTables JV.Model.RubiksCube.
From Coq Require Import Permutation.

(* ---------- generic lists ---------- *)
Lemma rc_znth_nth {A} (d : A) l i : 0 <= i -> znth d l i = nth (Z.to_nat i) l d.
Proof. intro H. unfold znth. destruct (i <? 0) eqn:E; [lia|reflexivity]. Qed.

Lemma zrange_length n : length (zrange n) = Z.to_nat n.
Proof. unfold zrange. apply zrange_from_length. Qed.

Lemma zrange_nth n i d : (i < Z.to_nat n)%nat -> nth i (zrange n) d = Z.of_nat i.
Proof.
  intro H. rewrite (nth_indep _ d 0) by (rewrite zrange_length; lia).
  unfold zrange. rewrite zrange_from_nth by lia. lia.
Qed.

Lemma nth_map_in {A B} (h : A -> B) l k d d0 : (k < length l)%nat -> nth k (map h l) d = h (nth k l d0).
Proof. intro H. rewrite (nth_indep _ d (h d0)) by (rewrite map_length; lia). apply map_nth. Qed.

Lemma list_ext_z {A} (d : A) n (a b : list A) :
  length a = Z.to_nat n -> length b = Z.to_nat n ->
  (forall i, 0 <= i < n -> znth d a i = znth d b i) -> a = b.
Proof.
  intros La Lb H. apply (nth_ext a b d d); [lia|].
  intros k Hk. specialize (H (Z.of_nat k) ltac:(lia)). rewrite !rc_znth_nth, Nat2Z.id in H by lia. exact H.
Qed.

Lemma map_zrange_znth {A} (d : A) l : map (znth d l) (zrange (zlen l)) = l.
Proof.
  apply (nth_ext _ _ d d).
  - rewrite map_length, zrange_length. unfold zlen. lia.
  - intros k Hk. rewrite map_length, zrange_length in Hk. unfold zlen in Hk.
    rewrite (nth_map_in _ _ _ _ 0) by (rewrite zrange_length; unfold zlen; lia).
    rewrite zrange_nth by (unfold zlen; lia). rewrite rc_znth_nth, Nat2Z.id by lia. reflexivity.
Qed.

Lemma nth_skipn_rc {A} k (l : list A) i d : nth i (skipn k l) d = nth (k + i) l d.
Proof. revert l; induction k as [|k IH]; intros [|x l]; cbn; auto. destruct i; reflexivity. Qed.

Lemma nth_firstn_rc {A} k (l : list A) i d : (i < k)%nat -> nth i (firstn k l) d = nth i l d.
Proof. revert l i; induction k as [|k IH]; intros [|x l] [|i] H; cbn; auto; try lia. apply IH. lia. Qed.

Lemma NoDup_app_intro {A} (a b : list A) :
  NoDup a -> NoDup b -> (forall x, In x a -> ~ In x b) -> NoDup (a ++ b).
Proof.
  induction a as [|x a IH]; intros Ha Hb H; cbn; auto.
  inversion Ha; subst. constructor.
  - rewrite in_app_iff. intros [I|I]; [auto|]. apply (H x); cbn; auto.
  - apply IH; auto. intros y Hy. apply H. cbn; auto.
Qed.

Lemma NoDup_zrange n : NoDup (zrange n).
Proof.
  unfold zrange. generalize 0, (Z.to_nat n). intros s k; revert s; induction k as [|k IH]; intro s; cbn; constructor.
  - rewrite in_zrange_from. lia.
  - apply IH.
Qed.

Lemma NoDup_list_prod_rc {A B} (l : list A) (l' : list B) : NoDup l -> NoDup l' -> NoDup (list_prod l l').
Proof.
  intros Hl Hl'. induction l as [|x l IH]; cbn; [constructor|].
  inversion Hl; subst. apply NoDup_app_intro; auto.
  - apply FinFun.Injective_map_NoDup; auto. intros a b E. congruence.
  - intros [a b] Ha Hb. apply in_map_iff in Ha as [y [E _]]. inversion E; subst.
    apply in_prod_iff in Hb as [Hb _]. auto.
Qed.

Lemma Permutation_concat_rc {A} (l l' : list (list A)) : Permutation l l' -> Permutation (concat l) (concat l').
Proof.
  induction 1; cbn; auto.
  - apply Permutation_app_head; auto.
  - rewrite !app_assoc. apply Permutation_app_tail. apply Permutation_app_comm.
  - eapply Permutation_trans; eauto.
Qed.

(* ---------- tabulated grids ---------- *)
Definition square (n : Z) (g : face) : Prop := zlen g = n /\ Forall (fun row : list Z => zlen row = n) g.

Lemma tab_length n f : length (tab n f) = Z.to_nat n.
Proof. unfold tab. rewrite map_length. apply zrange_length. Qed.

Lemma tab_square n f : 0 <= n -> square n (tab n f).
Proof.
  intro H. split.
  - unfold zlen. rewrite tab_length. lia.
  - apply Forall_forall. intros row Hr. unfold tab in Hr. apply in_map_iff in Hr as [i [E _]]. subst row.
    unfold zlen. rewrite map_length, zrange_length. lia.
Qed.

Lemma znth_tab n f i : 0 <= i < n -> znth [] (tab n f) i = map (f i) (zrange n).
Proof.
  intro H. rewrite rc_znth_nth by lia. unfold tab.
  rewrite (nth_map_in _ _ _ _ 0) by (rewrite zrange_length; lia).
  rewrite zrange_nth by lia. rewrite Z2Nat.id by lia. reflexivity.
Qed.

Lemma gat_tab d n f i j : 0 <= i < n -> 0 <= j < n -> gat d (tab n f) i j = f i j.
Proof.
  intros Hi Hj. unfold gat. rewrite znth_tab by lia. rewrite rc_znth_nth by lia.
  rewrite (nth_map_in _ _ _ _ 0) by (rewrite zrange_length; lia).
  rewrite zrange_nth by lia. rewrite Z2Nat.id by lia. reflexivity.
Qed.

Lemma tab_ext n f g :
  (forall i j, 0 <= i < n -> 0 <= j < n -> f i j = g i j) -> tab n f = tab n g.
Proof.
  intro H. unfold tab. apply map_ext_in. intros i Hi. apply map_ext_in. intros j Hj.
  apply in_zrange in Hi. apply in_zrange in Hj. auto.
Qed.

Lemma square_row n g i : square n g -> 0 <= i < n -> zlen (znth [] g i) = n.
Proof.
  intros [L F] Hi. rewrite Forall_forall in F. apply F. rewrite rc_znth_nth by lia. apply nth_In. unfold zlen in L. lia.
Qed.

Lemma tab_gat n g : square n g -> tab n (gat 0 g) = g.
Proof.
  intros Sq. pose proof Sq as [L F].
  apply (list_ext_z [] n).
  - apply tab_length.
  - unfold zlen in L. lia.
  - intros i Hi. rewrite znth_tab by lia.
    pose proof (square_row n g i Sq Hi) as Lr.
    apply (list_ext_z 0 n).
    + rewrite map_length, zrange_length. reflexivity.
    + unfold zlen in Lr. lia.
    + intros j Hj. rewrite rc_znth_nth by lia. rewrite (nth_map_in _ _ _ _ 0) by (rewrite zrange_length; lia).
      rewrite zrange_nth by lia. rewrite Z2Nat.id by lia. unfold gat. reflexivity.
Qed.

Lemma square_ext n g1 g2 :
  square n g1 -> square n g2 -> (forall i j, 0 <= i < n -> 0 <= j < n -> gat 0 g1 i j = gat 0 g2 i j) -> g1 = g2.
Proof.
  intros S1 S2 H. rewrite <- (tab_gat n g1 S1), <- (tab_gat n g2 S2). apply tab_ext. exact H.
Qed.

(* ---------- rotations of a square face ---------- *)
Ltac rot_solve :=
  intros; unfold rot_cw, rot_ccw, rot_half;
  repeat first [ apply tab_ext; intros | rewrite gat_tab by lia ]; try (f_equal; lia).

Lemma rot_cw_ccw n g : square n g -> rot_cw n (rot_ccw n g) = g.
Proof.
  intro Sq. rewrite <- (tab_gat n g Sq) at 2. unfold rot_cw, rot_ccw. apply tab_ext. intros.
  rewrite gat_tab by lia. f_equal; lia.
Qed.
Lemma rot_ccw_cw n g : square n g -> rot_ccw n (rot_cw n g) = g.
Proof.
  intro Sq. rewrite <- (tab_gat n g Sq) at 2. unfold rot_cw, rot_ccw. apply tab_ext. intros.
  rewrite gat_tab by lia. f_equal; lia.
Qed.
Lemma rot_half_half n g : square n g -> rot_half n (rot_half n g) = g.
Proof.
  intro Sq. rewrite <- (tab_gat n g Sq) at 2. unfold rot_half. apply tab_ext. intros.
  rewrite gat_tab by lia. f_equal; lia.
Qed.
Lemma rot_cw_cw n g : rot_cw n (rot_cw n g) = rot_half n g.
Proof. unfold rot_cw, rot_half. apply tab_ext. intros. rewrite gat_tab by lia. f_equal; lia. Qed.
Lemma rot_ccw_ccw n g : rot_ccw n (rot_ccw n g) = rot_half n g.
Proof. unfold rot_ccw, rot_half. apply tab_ext. intros. rewrite gat_tab by lia. f_equal; lia. Qed.
Lemma rot_cw_half n g : rot_cw n (rot_half n g) = rot_ccw n g.
Proof. unfold rot_cw, rot_ccw, rot_half. apply tab_ext. intros. rewrite gat_tab by lia. f_equal; lia. Qed.
Lemma rot_half_cw n g : rot_half n (rot_cw n g) = rot_ccw n g.
Proof. unfold rot_cw, rot_ccw, rot_half. apply tab_ext. intros. rewrite gat_tab by lia. f_equal; lia. Qed.
Lemma rot_ccw_half n g : rot_ccw n (rot_half n g) = rot_cw n g.
Proof. unfold rot_cw, rot_ccw, rot_half. apply tab_ext. intros. rewrite gat_tab by lia. f_equal; lia. Qed.
Lemma rot_half_ccw n g : rot_half n (rot_ccw n g) = rot_cw n g.
Proof. unfold rot_cw, rot_ccw, rot_half. apply tab_ext. intros. rewrite gat_tab by lia. f_equal; lia. Qed.

Lemma rot90_square n k g : 0 <= n -> square n g -> square n (rot90 n k g).
Proof.
  intros Hn Sq. unfold rot90.
  destruct (k mod 4 =? 0); auto. destruct (k mod 4 =? 1); [apply tab_square; auto|].
  destruct (k mod 4 =? 2); apply tab_square; auto.
Qed.

Ltac eval_closed :=
  repeat match goal with
  | |- context [(?x + ?y) mod 4] => let v := eval vm_compute in ((x + y) mod 4) in change ((x + y) mod 4) with v
  end;
  repeat match goal with
  | |- context [?x =? ?y] => let v := eval vm_compute in (x =? y) in change (x =? y) with v
  end; cbv iota.

(* jnp.rot90 composes additively in k *)
Lemma rot90_add n a b g : square n g -> rot90 n a (rot90 n b g) = rot90 n (a + b) g.
Proof.
  intro Sq. unfold rot90.
  assert (Ha : a mod 4 = 0 \/ a mod 4 = 1 \/ a mod 4 = 2 \/ a mod 4 = 3) by lia.
  assert (Hb : b mod 4 = 0 \/ b mod 4 = 1 \/ b mod 4 = 2 \/ b mod 4 = 3) by lia.
  assert (Hab : (a + b) mod 4 = (a mod 4 + b mod 4) mod 4) by (apply Z.add_mod; lia).
  rewrite Hab.
  destruct Ha as [Ha|[Ha|[Ha|Ha]]], Hb as [Hb|[Hb|[Hb|Hb]]]; rewrite Ha, Hb; eval_closed;
    auto using rot_cw_ccw, rot_ccw_cw, rot_half_half, rot_cw_cw, rot_ccw_ccw, rot_cw_half, rot_half_cw, rot_ccw_half, rot_half_ccw.
Qed.

Lemma rot90_0 n k g : k mod 4 = 0 -> rot90 n k g = g.
Proof. intro H. unfold rot90. rewrite H. reflexivity. Qed.

(* a rotated face carries the same stickers *)
Definition allij (n : Z) : list (Z * Z) := list_prod (zrange n) (zrange n).

Lemma concat_tab n f : concat (tab n f) = map (fun p => f (fst p) (snd p)) (allij n).
Proof.
  unfold tab, allij.
  assert (G : forall l l' : list Z, concat (map (fun i => map (f i) l') l) = map (fun p => f (fst p) (snd p)) (list_prod l l')).
  { intros l l'. induction l as [|x l IH]; cbn [map concat list_prod]; auto.
    rewrite map_app, map_map, IH. reflexivity. }
  apply G.
Qed.

Lemma in_allij n p : In p (allij n) <-> 0 <= fst p < n /\ 0 <= snd p < n.
Proof. destruct p as [a b]. unfold allij. rewrite in_prod_iff, !in_zrange. reflexivity. Qed.

Lemma perm_allij n (phi psi : Z * Z -> Z * Z) :
  (forall p, In p (allij n) -> In (phi p) (allij n)) ->
  (forall p, In p (allij n) -> In (psi p) (allij n)) ->
  (forall p, In p (allij n) -> psi (phi p) = p) ->
  (forall p, In p (allij n) -> phi (psi p) = p) ->
  Permutation (map phi (allij n)) (allij n).
Proof.
  intros H1 H2 H3 H4. apply NoDup_Permutation.
  - assert (ND : NoDup (allij n)) by (apply NoDup_list_prod_rc; apply NoDup_zrange).
    revert H3 ND. generalize (allij n). intros l H3 ND. induction l as [|x l IH]; cbn; constructor.
    + intro I. apply in_map_iff in I as [y [E Hy]]. inversion ND; subst.
      assert (y = x). { rewrite <- (H3 y), <- (H3 x), E by (cbn; auto). reflexivity. } subst. auto.
    + inversion ND; subst. apply IH; auto. intros; apply H3; cbn; auto.
  - apply NoDup_list_prod_rc; apply NoDup_zrange.
  - intro x. split.
    + intro I. apply in_map_iff in I as [y [E Hy]]. subst. auto.
    + intro I. apply in_map_iff. exists (psi x). split; auto.
Qed.

Lemma concat_square n g : square n g -> concat g = map (fun p => gat 0 g (fst p) (snd p)) (allij n).
Proof. intro Sq. rewrite <- (tab_gat n g Sq) at 1. apply concat_tab. Qed.

Lemma rot_perm_gen n g (phi psi : Z * Z -> Z * Z) :
  square n g ->
  (forall p, In p (allij n) -> In (phi p) (allij n)) ->
  (forall p, In p (allij n) -> In (psi p) (allij n)) ->
  (forall p, In p (allij n) -> psi (phi p) = p) ->
  (forall p, In p (allij n) -> phi (psi p) = p) ->
  Permutation (concat (tab n (fun i j => gat 0 g (fst (phi (i, j))) (snd (phi (i, j)))))) (concat g).
Proof.
  intros Sq H1 H2 H3 H4. rewrite concat_tab, (concat_square n g Sq).
  erewrite map_ext; [rewrite <- (map_map phi (fun p => gat 0 g (fst p) (snd p)))|].
  - apply Permutation_map. apply perm_allij with psi; auto.
  - intros [a b]. reflexivity.
Qed.

Lemma rot_cw_perm n g : square n g -> Permutation (concat (rot_cw n g)) (concat g).
Proof.
  intro Sq. apply (rot_perm_gen n g (fun p => (n - 1 - snd p, fst p)) (fun p => (snd p, n - 1 - fst p))); auto;
    intros [a b]; rewrite ?in_allij; cbn [fst snd]; intros; try lia; f_equal; lia.
Qed.
Lemma rot_ccw_perm n g : square n g -> Permutation (concat (rot_ccw n g)) (concat g).
Proof.
  intro Sq. apply (rot_perm_gen n g (fun p => (snd p, n - 1 - fst p)) (fun p => (n - 1 - snd p, fst p))); auto;
    intros [a b]; rewrite ?in_allij; cbn [fst snd]; intros; try lia; f_equal; lia.
Qed.
Lemma rot_half_perm n g : square n g -> Permutation (concat (rot_half n g)) (concat g).
Proof.
  intro Sq. apply (rot_perm_gen n g (fun p => (n - 1 - fst p, n - 1 - snd p)) (fun p => (n - 1 - fst p, n - 1 - snd p))); auto;
    intros [a b]; rewrite ?in_allij; cbn [fst snd]; intros; try lia; f_equal; lia.
Qed.

Lemma rot90_perm n k g : square n g -> Permutation (concat (rot90 n k g)) (concat g).
Proof.
  intro Sq. unfold rot90. destruct (k mod 4 =? 0); auto. destruct (k mod 4 =? 1); [apply rot_ccw_perm; auto|].
  destruct (k mod 4 =? 2); [apply rot_half_perm | apply rot_cw_perm]; auto.
Qed.

(* ---------- jnp.roll ---------- *)
Lemma roll_length s v : length (roll s v) = length v.
Proof.
  unfold roll. rewrite app_length, skipn_length, firstn_length. lia.
Qed.

Lemma roll_perm s v : Permutation (roll s v) v.
Proof.
  unfold roll. eapply Permutation_trans; [apply Permutation_app_comm|]. rewrite firstn_skipn. apply Permutation_refl.
Qed.

Lemma znth_roll d s v i : 0 <= i < zlen v -> znth d (roll s v) i = znth d v ((i - s) mod zlen v).
Proof.
  intro Hi. set (L := zlen v) in *. assert (HL : 0 < L) by lia.
  rewrite !rc_znth_nth by lia. unfold roll. fold L.
  set (k := (- s) mod L). assert (Hk : 0 <= k < L) by (unfold k; lia).
  assert (E : (i - s) mod L = (i + k) mod L).
  { unfold k. rewrite Zplus_mod_idemp_r. f_equal. }
  rewrite E. unfold L, zlen in *.
  destruct (Z_lt_dec (i + k) (Z.of_nat (length v))) as [C|C].
  - rewrite app_nth1 by (rewrite skipn_length; lia). rewrite nth_skipn_rc.
    rewrite Z.mod_small by lia. f_equal. lia.
  - rewrite app_nth2 by (rewrite skipn_length; lia). rewrite skipn_length.
    rewrite nth_firstn_rc by lia. f_equal.
    assert ((i + k) mod Z.of_nat (length v) = i + k - Z.of_nat (length v)).
    { symmetry. apply Z.mod_unique_pos with 1; lia. }
    lia.
Qed.

Lemma roll_add a b v : roll a (roll b v) = roll (a + b) v.
Proof.
  destruct (Z.eq_dec (zlen v) 0) as [E0|E0].
  { unfold zlen in E0. destruct v; [|cbn in E0; lia]. unfold roll. repeat (rewrite ?skipn_nil, ?firstn_nil; cbn [app]). reflexivity. }
  pose proof (zlen_nonneg v).
  apply (list_ext_z 0 (zlen v)).
  - rewrite !roll_length. unfold zlen; lia.
  - rewrite roll_length. unfold zlen; lia.
  - intros i Hi.
    assert (Lr : zlen (roll b v) = zlen v) by (unfold zlen; rewrite roll_length; reflexivity).
    rewrite znth_roll by lia. rewrite Lr. rewrite znth_roll by lia. rewrite znth_roll by lia.
    f_equal. rewrite Zminus_mod_idemp_l. f_equal. lia.
Qed.

Lemma roll_0 s v : s mod zlen v = 0 -> roll s v = v.
Proof.
  intro H. unfold roll.
  destruct v as [|x v]; [rewrite skipn_nil, firstn_nil; reflexivity|].
  assert (E : (- s) mod zlen (x :: v) = 0).
  { apply Z.mod_opp_l_z; auto. rewrite zlen_cons. pose proof (zlen_nonneg v). lia. }
  rewrite E. cbn. f_equal. apply app_nil_r.
Qed.
