(* RubiksCube, part 5 (C17, finite part): every move of the model (built on the translated tables) equals the
   physical quarter / half turn of a cube layer, for n = 2..7: vm_compute on the distinct-sticker cube over all
   18*floor(n/2) moves against the geometric reference embed / rotate3 (a genuinely finite domain).
   The statement for EVERY n >= 2 is proved symbolically in RubiksCube_Geometry.v / RubiksCube_Layer.v
   (physical_moves_all); this file is kept as an independent cross-check by evaluation. *)
Require Import JV.Base.Prelude JV.Base.JaxIndex JV.Base.Codec JV.Base.TimeStep JV.Gen.RubikTables JV.Model.RubiksCube.

Definition physical_all_b (n : Z) : bool := forallb (physical_b n) (all_moves n).
Lemma physical_2_7 : forallb physical_all_b [2; 3; 4; 5; 6; 7] = true.
Proof. vm_compute. reflexivity. Qed.

Theorem physical_moves n m : In n [2; 3; 4; 5; 6; 7] -> In m (all_moves n) -> physical_b n m = true.
Proof.
  intros Hn Hm. pose proof physical_2_7 as H. rewrite forallb_forall in H. specialize (H n Hn).
  unfold physical_all_b in H. rewrite forallb_forall in H. auto.
Qed.
